(** * Mesh_atomic (C08, atomicity of the refinement steps -- after crate fix 361bbb9).  Every number instance.

    (a) Each of split_triangle / split_edge / flip_diagonal either returns [Ok tt], or leaves the mesh UNCHANGED, or
        fails in its already-mutated suffix with one of a short certified list of outcomes ([post_fail]):
        Err 102 / 103 (mark_as_neighbours), Panic 61 (counter underflow), 62 / 63 / 64 (mark_as_neighbours), and the
        constrain index site of the step (84 / 82 / 79).  In particular every Err of class 10 / 11 (Triangle3D::new
        refused a child), 106 / 107 / 108 comes with the mesh unchanged: after the pre-checks every [push] of the step
        succeeds (it calls Triangle3D::new on the very points the pre-check tested).
        For split_edge this needs the neighbour across the split edge to be a live slot other than the triangle's
        own (the code never checks it).
    (b) On a mesh with well-formed indices [WF], exact counter [CNT] and live links [LNK] (every neighbour index of a
        live slot names a live slot: the liveness half of the symmetry clause (i)) the residual outcomes shrink to
        Panic 64 ("don't share a segment": decided by coordinate comparison) -- and Err 102 for flip_diagonal when the
        two triangles are linked across more than one edge; and a step that returns Ok re-establishes WF, CNT, LNK.
    (c) add_point inherits (a): the Err that [refine] swallows no longer comes with a mutated mesh. *)
From Coq Require Import ZArith Bool List Arith Lia Permutation.
From G3 Require Import Model.Num Model.Base Model.Vec Model.Segment Model.Triangle Model.Loop Model.Polygon Model.Triangulation
  Proofs.Mesh_base Proofs.Mesh_wf Proofs.Mesh_sites Proofs.Mesh_conf Proofs.Mesh_region.
Import ListNotations.

Section Atomic.
  Context {K : Type} {NK : Num K}.
  Notation V := (V3 K).
  Notation TP := (TriPiece K).
  Notation Mesh := (Mesh K).

  (** ** the Err classes an operation can return *)
  Definition NE {A} (okc : N -> bool) (m : MR (K:=K) A) : Prop := forall M M' c, m M = (M', Err c) -> okc c = true.
  Definition ne_res {A} (okc : N -> bool) (x : res A) : Prop := forall c, x = Err c -> okc c = true.
  Section NERules.
    Variable okc : N -> bool.
    Lemma ne_ret {A} (a : A) : NE okc (mret a). Proof. intros M M' c H. discriminate. Qed.
    Lemma ne_lift {A} (x : res A) : ne_res okc x -> NE okc (mlift x).
    Proof. intros Hx M M' c H. inversion H; subst. apply Hx. reflexivity. Qed.
    Lemma ne_get (site : N) (i : nat) : NE okc (mget (K:=K) site i).
    Proof. intros M M' c H. unfold mget in H. destruct (nth_error (tris M) i); inversion H. Qed.
    Lemma ne_mupd (site : N) (i : nat) (f : TP -> TP) : NE okc (mupd site i f).
    Proof. intros M M' c H. unfold mupd in H. destruct (Nat.ltb _ _); inversion H. Qed.
    Lemma ne_bind {A B} (m : MR A) (f : A -> MR B) : NE okc m -> (forall a, NE okc (f a)) -> NE okc (mbind m f).
    Proof.
      intros Hm Hf M M' c H. apply mbind_inv in H. destruct H as [(a & M1 & H1 & H2) | [(c' & H1 & H3) | (s & H1 & H3)]].
      - eapply Hf; exact H2.
      - inversion H3; subst. eapply Hm; exact H1.
      - discriminate.
    Qed.
    Lemma ne_bind_lift {A B} (x : res A) (f : A -> MR (K:=K) B) : ne_res okc x -> (forall a, x = Ok a -> NE okc (f a)) -> NE okc (mbind (mlift x) f).
    Proof.
      intros Hx Hf M M' c H. unfold mbind, mlift in H. destruct x as [a|c'|s].
      - eapply Hf; [reflexivity | exact H].
      - inversion H; subst. apply Hx. reflexivity.
      - discriminate.
    Qed.
    Lemma ne_when (b : bool) (m : MR unit) : NE okc m -> NE okc (mwhen b m).
    Proof. intros H. destruct b; [exact H | apply ne_ret]. Qed.
    Lemma ne_res_ok {A} (a : A) : ne_res okc (Ok a). Proof. intros c H; discriminate. Qed.
    Lemma ne_res_panic {A} (s : N) : ne_res okc (@Panic A s). Proof. intros c H; discriminate. Qed.
    Lemma ne_res_err {A} (c : N) : okc c = true -> ne_res okc (@Err A c). Proof. intros H c' E. inversion E; subst. exact H. Qed.
    Lemma ne_tri_segment_edge (T : Tri K) (e : Edge) : ne_res okc (tri_segment T (edge_as_i e)).
    Proof. destruct e; intros c H; discriminate. Qed.
    Lemma ne_edge_from_i (i : N) : ne_res okc (edge_from_i i).
    Proof. intros c. unfold edge_from_i. destruct i as [|[[]|[]|]]; discriminate. Qed.
    Hypothesis H102 : okc 102%N = true.
    Hypothesis H103 : okc 103%N = true.
    Lemma ne_mark (i1 : nat) (e1 : Edge) (i2 : nat) : NE okc (mark_as_neighbours (K:=K) i1 e1 i2).
    Proof.
      unfold mark_as_neighbours. destruct (Nat.eqb i1 i2); [apply ne_lift, ne_res_err; assumption|].
      apply ne_bind; [apply ne_get|]. intros t1. destruct (negb (tp_valid t1)); [apply ne_lift, ne_res_err; assumption|].
      apply ne_bind_lift; [apply ne_tri_segment_edge|]. intros sg _.
      apply ne_bind; [apply ne_get|]. intros t2. destruct (negb (tp_valid t2)); [apply ne_lift, ne_res_err; assumption|].
      apply ne_bind_lift; [destruct (tri_get_edge_index_from_segment _ _); [apply ne_res_ok | apply ne_res_panic]|]. intros k _.
      apply ne_bind_lift; [apply ne_edge_from_i|]. intros ed _.
      apply ne_bind; [apply ne_mupd|]. intros _. apply ne_mupd.
    Qed.
  End NERules.
  Ltac ne_step :=
    match goal with
    | |- NE _ (mbind _ _) => apply ne_bind; [|intros ?]
    | |- NE _ (mret _) => apply ne_ret
    | |- NE _ (mwhen _ _) => apply ne_when
    | |- NE _ (mupd _ _ _) => apply ne_mupd
    | |- NE _ (mark_as_neighbours _ _ _) => apply ne_mark; reflexivity
    | |- NE _ (if ?b then _ else _) => destruct b
    | |- NE _ (match ?x with _ => _ end) => destruct x
    end.

  (** the outcomes a step can still produce once it has started to mutate; [site] = its constrain index site *)
  Definition okc_post (c : N) : bool := N.eqb c 102 || N.eqb c 103.
  Definition oks_post (site s : N) : bool := N.eqb s 61 || N.eqb s 62 || N.eqb s 63 || N.eqb s 64 || N.eqb s site.
  Definition post_fail {A} (site : N) (r : res A) : Prop :=
    match r with
    | Ok _ => False
    | Err c => c = 102%N \/ c = 103%N
    | Panic s => s = 61%N \/ s = 62%N \/ s = 63%N \/ s = 64%N \/ s = site
    end.
  Lemma post_fail_of (site : N) {A B} (m : MR A) (M M' : Mesh) (r : res A) (r' : res B) :
    NE okc_post m -> NP (oks_post site) m -> m M = (M', r) ->
    (forall c, r = Err c -> r' = Err c) -> (forall s, r = Panic s -> r' = Panic s) -> (forall a, r <> Ok a) -> post_fail site r'.
  Proof.
    intros H1 H2 H He Hp Ho. destruct r as [a|c|s]; [exfalso; eapply Ho; reflexivity | |].
    - rewrite (He c eq_refl). cbn. specialize (H1 _ _ _ H). unfold okc_post in H1. apply orb_true_iff in H1. destruct H1 as [E|E]; apply N.eqb_eq in E; auto.
    - rewrite (Hp s eq_refl). cbn. specialize (H2 _ _ _ H). unfold oks_post in H2.
      repeat (apply orb_true_iff in H2; destruct H2 as [H2|E]; [|apply N.eqb_eq in E; auto 6]). apply N.eqb_eq in H2. auto.
  Qed.

  (** after a successful pre-check the [push] of the same three points succeeds *)
  Lemma push_checked (a b c : V) (la : nat) (T : Tri K) (M M' : Mesh) (r : res nat) :
    tri_new a b c = Ok T -> mesh_push a b c la M = (M', r) -> exists n, r = Ok n.
  Proof.
    intros E H. unfold mesh_push, tp_new in H. rewrite E in H. cbn [rbind] in H.
    destruct (get_first_invalid M la); inversion H; eexists; reflexivity.
  Qed.
  Lemma invalidate_lt (i : nat) (M M' : Mesh) (r : res unit) :
    i < length (tris M) -> mesh_invalidate i M = (M', r) -> (r = Ok tt \/ r = Panic 61%N) /\ length (tris M') = length (tris M).
  Proof.
    intros L H. unfold mesh_invalidate in H. apply Nat.ltb_lt in L. rewrite L in H.
    destruct (nvalid M); inversion H; cbn [tris]; rewrite upd_length; auto.
  Qed.
  Lemma invalidate_in_range (i : nat) (t : TP) (M M' : Mesh) (r : res unit) :
    nth_error (tris M) i = Some t -> mesh_invalidate i M = (M', r) -> r = Ok tt \/ r = Panic 61%N.
  Proof. intros Et H. eapply invalidate_lt; [|exact H]. apply nth_error_Some; congruence. Qed.

  (** ** (a) split_triangle *)
  Theorem split_triangle_atomic (i : nat) (p : V) (M M' : Mesh) (r : res unit) :
    split_triangle i p M = (M', r) -> r = Ok tt \/ M' = M \/ post_fail 84 r.
  Proof.
    intros H. unfold split_triangle in H.
    apply bind_get_inv in H. destruct H as [(t & Et & H) | (-> & _)]; [|right; left; reflexivity].
    destruct (tp_valid t) eqn:Ev; cbn [negb] in H; [|inversion H; subst; right; left; reflexivity].
    apply bind_lift_inv in H. destruct H as [(e1 & _ & H) | (-> & _)]; [|right; left; reflexivity].
    apply bind_lift_inv in H. destruct H as [(e2 & _ & H) | (-> & _)]; [|right; left; reflexivity].
    apply bind_lift_inv in H. destruct H as [(e3 & _ & H) | (-> & _)]; [|right; left; reflexivity].
    apply bind_lift_inv in H. destruct H as [(T1 & ET1 & H) | (-> & _)]; [|right; left; reflexivity].
    apply bind_lift_inv in H. destruct H as [(T2 & ET2 & H) | (-> & _)]; [|right; left; reflexivity].
    apply bind_lift_inv in H. destruct H as [(T3 & ET3 & H) | (-> & _)]; [|right; left; reflexivity].
    apply mbind_inv in H. destruct H as [([] & M1 & H1 & H) | [(c & H1 & ->) | (s & H1 & ->)]];
      [| destruct (invalidate_in_range _ _ _ _ _ Et H1); discriminate
       | destruct (invalidate_in_range _ _ _ _ _ Et H1) as [E|E]; inversion E; right; right; cbn; auto].
    apply mbind_inv in H. destruct H as [(cap & M2 & H2 & H) | [(c & H2 & ->) | (s & H2 & ->)]];
      [| destruct (push_checked _ _ _ _ _ _ _ _ ET1 H2); discriminate | destruct (push_checked _ _ _ _ _ _ _ _ ET1 H2); discriminate].
    apply mbind_inv in H. destruct H as [(abp & M3 & H3 & H) | [(c & H3 & ->) | (s & H3 & ->)]];
      [| destruct (push_checked _ _ _ _ _ _ _ _ ET2 H3); discriminate | destruct (push_checked _ _ _ _ _ _ _ _ ET2 H3); discriminate].
    apply mbind_inv in H. destruct H as [(bcp & M4 & H4 & H) | [(c & H4 & ->) | (s & H4 & ->)]];
      [| destruct (push_checked _ _ _ _ _ _ _ _ ET3 H4); discriminate | destruct (push_checked _ _ _ _ _ _ _ _ ET3 H4); discriminate].
    revert H. match goal with |- ?f M4 = _ -> _ => assert (G1 : NE okc_post f) by (repeat ne_step); assert (G2 : NP (oks_post 84) f) by (repeat np_step_g) end.
    intros H. destruct r as [[]|c|s]; [left; reflexivity | right; right; eapply (post_fail_of 84 _ _ _ _ _ G1 G2 H); try tauto; discriminate ..].
  Qed.

  Corollary split_triangle_err_atomic (i : nat) (p : V) (M M' : Mesh) (c : N) :
    split_triangle i p M = (M', Err c) -> c <> 102%N -> c <> 103%N -> M' = M.
  Proof. intros H H1 H2. destruct (split_triangle_atomic _ _ _ _ _ H) as [E | [E | [E | E]]]; [discriminate | exact E | contradiction | contradiction]. Qed.

  (** ** (a) flip_diagonal *)
  Theorem flip_atomic (i : nat) (e : Edge) (M M' : Mesh) (r : res unit) :
    flip_diagonal i e M = (M', r) -> r = Ok tt \/ M' = M \/ post_fail 79 r.
  Proof.
    intros H. unfold flip_diagonal in H.
    apply bind_get_inv in H. destruct H as [(t & Et & H) | (-> & _)]; [|right; left; reflexivity].
    destruct (tp_valid t) eqn:Ev; cbn [negb] in H; [|inversion H; subst; right; left; reflexivity].
    destruct (tp_neighbour t e) as [ni|] eqn:En; [|inversion H; subst; right; left; reflexivity].
    apply bind_get_inv in H. destruct H as [(nb & Enb & H) | (-> & _)]; [|right; left; reflexivity].
    destruct (tp_valid nb) eqn:Evn; cbn [negb] in H; [|inversion H; subst; right; left; reflexivity].
    do 8 (apply bind_lift_inv in H; destruct H as [(? & _ & H) | (-> & _)]; [|right; left; reflexivity]).
    apply bind_lift_inv in H. destruct H as [(T1 & ET1 & H) | (-> & _)]; [|right; left; reflexivity].
    apply bind_lift_inv in H. destruct H as [(T2 & ET2 & H) | (-> & _)]; [|right; left; reflexivity].
    apply mbind_inv in H. destruct H as [([] & M1 & H1 & H) | [(c & H1 & ->) | (s & H1 & ->)]];
      [| destruct (invalidate_in_range _ _ _ _ _ Et H1); discriminate
       | destruct (invalidate_in_range _ _ _ _ _ Et H1) as [E|E]; inversion E; right; right; cbn; auto].
    assert (L2 : ni < length (tris M1)).
    { destruct (invalidate_lt i M M1 (Ok tt)) as [_ E]; [apply nth_error_Some; congruence | exact H1 |]. rewrite E. apply nth_error_Some; congruence. }
    apply mbind_inv in H. destruct H as [([] & M2 & H2 & H) | [(c & H2 & ->) | (s & H2 & ->)]];
      [| destruct (invalidate_lt _ _ _ _ L2 H2) as [[E|E] _]; discriminate
       | destruct (invalidate_lt _ _ _ _ L2 H2) as [[E|E] _]; inversion E; right; right; cbn; auto].
    apply mbind_inv in H. destruct H as [(aoc & M3 & H3 & H) | [(c & H3 & ->) | (s & H3 & ->)]];
      [| destruct (push_checked _ _ _ _ _ _ _ _ ET1 H3); discriminate | destruct (push_checked _ _ _ _ _ _ _ _ ET1 H3); discriminate].
    apply mbind_inv in H. destruct H as [(cob & M4 & H4 & H) | [(c & H4 & ->) | (s & H4 & ->)]];
      [| destruct (push_checked _ _ _ _ _ _ _ _ ET2 H4); discriminate | destruct (push_checked _ _ _ _ _ _ _ _ ET2 H4); discriminate].
    revert H. match goal with |- ?f M4 = _ -> _ => assert (G1 : NE okc_post f) by (repeat ne_step); assert (G2 : NP (oks_post 79) f) by (repeat np_step_g) end.
    intros H. destruct r as [[]|c|s]; [left; reflexivity | right; right; eapply (post_fail_of 79 _ _ _ _ _ G1 G2 H); try tauto; discriminate ..].
  Qed.
  Corollary flip_err_atomic (i : nat) (e : Edge) (M M' : Mesh) (c : N) :
    flip_diagonal i e M = (M', Err c) -> c <> 102%N -> c <> 103%N -> M' = M.
  Proof. intros H H1 H2. destruct (flip_atomic _ _ _ _ _ H) as [E | [E | [E | E]]]; [discriminate | exact E | contradiction | contradiction]. Qed.

  (** ** (a) split_edge *)
  Lemma bind_lift_Ok {A B} (x : res A) (a : A) (f : A -> MR (K:=K) B) (M : Mesh) : x = Ok a -> mbind (mlift x) f M = f a M.
  Proof. intros ->. reflexivity. Qed.
  Lemma precheck_ok (s : Seg K) (p : V) (idx : nat) (M M' : Mesh) :
    split_precheck s p idx M = (M', Ok tt) ->
    exists t a b c TA TB, nth_error (tris M) idx = Some t /\ hemi_verts (tp_tri t) s = Ok (a, b, c) /\ tri_new a p c = Ok TA /\ tri_new p b c = Ok TB.
  Proof.
    intros H. unfold split_precheck in H.
    apply bind_get_ok in H. destruct H as (t & Et & H).
    apply bind_lift_ok in H. destruct H as (abi & E1 & H).
    apply bind_lift_ok in H. destruct H as (ab & E2 & H).
    apply bind_lift_ok in H. destruct H as (c & E3 & H).
    apply bind_lift_ok in H. destruct H as (TA & E4 & H).
    apply bind_lift_ok in H. destruct H as (TB & E5 & H).
    exists t, (sstart ab), (send ab), c, TA, TB. repeat split; try assumption.
    unfold hemi_verts. rewrite E1. cbn [rbind]. rewrite E2. cbn [rbind]. rewrite E3. reflexivity.
  Qed.
  Lemma hemisphere_atomic (s : Seg K) (p : V) (idx : nat) (t : TP) (a b c : V) (TA TB : Tri K) (M M' : Mesh) (r : res (nat * nat)) :
    nth_error (tris M) idx = Some t -> hemi_verts (tp_tri t) s = Ok (a, b, c) -> tri_new a p c = Ok TA -> tri_new p b c = Ok TB ->
    process_hemisphere s p idx M = (M', r) -> (exists x, r = Ok x) \/ post_fail 82 r.
  Proof.
    intros Et HV ETA ETB H. unfold process_hemisphere in H.
    apply bind_get_inv in H. destruct H as [(t' & Et' & H) | (_ & _ & E)]; [|congruence]. rewrite Et in Et'. inversion Et'; subst t'. clear Et'.
    unfold hemi_verts in HV.
    destruct (tri_get_edge_index_from_segment (tp_tri t) s) as [abi|] eqn:Eabi; cbn [rbind] in HV; [|discriminate].
    destruct (tri_segment (tp_tri t) abi) as [ab| |] eqn:Eab; cbn [rbind] in HV; try discriminate.
    destruct (get_opposite_vertex (tp_tri t) ab) as [c'| |] eqn:Ec; cbn [rbind] in HV; try discriminate. inversion HV; subst a b c'. clear HV.
    assert (Eei : exists ei, tri_get_edge_index_from_segment (tp_tri t) ab = Some ei).
    { unfold get_opposite_vertex in Ec. destruct (tri_get_edge_index_from_segment (tp_tri t) ab) as [ei|]; [eexists; reflexivity | discriminate]. }
    destruct Eei as (ei & Eei).
    destruct (edge_from_i_lt ei (edge_index_lt _ _ _ Eei)) as (ed & Eed).
    rewrite (bind_lift_Ok _ abi) in H by (first [reflexivity | rewrite Eabi; reflexivity]).
    rewrite (bind_lift_Ok _ ab) in H by (first [reflexivity | exact Eab]).
    rewrite (bind_lift_Ok _ ei) in H by (rewrite Eei; reflexivity).
    rewrite (bind_lift_Ok _ ed) in H by exact Eed.
    rewrite (bind_lift_Ok _ c) in H by (first [reflexivity | exact Ec]).
    apply mbind_inv in H. destruct H as [([] & M1 & H1 & H) | [(c' & H1 & ->) | (s' & H1 & ->)]];
      [| destruct (invalidate_in_range _ _ _ _ _ Et H1); discriminate
       | destruct (invalidate_in_range _ _ _ _ _ Et H1) as [E|E]; inversion E; right; cbn; auto].
    apply bind_get_inv in H. destruct H as [(t1 & _ & H) | (_ & _ & E)].
    2:{ exfalso. destruct (invalidate_lt idx M M1 (Ok tt)) as [_ EL]; [apply nth_error_Some; congruence | exact H1 |].
        apply nth_error_None in E. rewrite EL in E. assert (idx < length (tris M)) by (apply nth_error_Some; congruence). lia. }
    destruct (edge_add_ok ed 1) as (ea & Eea). destruct (edge_add_ok ed 2) as (eb & Eeb).
    rewrite (bind_lift_Ok _ ea) in H by exact Eea. rewrite (bind_lift_Ok _ eb) in H by exact Eeb.
    rewrite (bind_lift_Ok _ ea) in H by exact Eea. rewrite (bind_lift_Ok _ eb) in H by exact Eeb.
    apply mbind_inv in H. destruct H as [(apc & M2 & H2 & H) | [(c' & H2 & ->) | (s' & H2 & ->)]];
      [| destruct (push_checked _ _ _ _ _ _ _ _ ETA H2); discriminate | destruct (push_checked _ _ _ _ _ _ _ _ ETA H2); discriminate].
    apply mbind_inv in H. destruct H as [(pbc & M3 & H3 & H) | [(c' & H3 & ->) | (s' & H3 & ->)]];
      [| destruct (push_checked _ _ _ _ _ _ _ _ ETB H3); discriminate | destruct (push_checked _ _ _ _ _ _ _ _ ETB H3); discriminate].
    revert H. match goal with |- ?f M3 = _ -> _ => assert (G1 : NE okc_post f) by (repeat ne_step); assert (G2 : NP (oks_post 82) f) by (repeat np_step_g) end.
    intros H. destruct r as [x|c'|s']; [left; eexists; reflexivity | right; eapply (post_fail_of 82 _ _ _ _ _ G1 G2 H); try tauto; discriminate ..].
  Qed.

  (** the neighbour across the edge to split is a live slot other than the triangle's own (the code does not check it) *)
  Definition NeiLive (M : Mesh) (i : nat) (e : Edge) : Prop :=
    forall t nei, nth_error (tris M) i = Some t -> tp_neighbour t e = Some nei -> nei <> i /\ live M nei.
  Theorem split_edge_atomic (i : nat) (e : Edge) (p : V) (M M' : Mesh) (r : res unit) :
    NeiLive M i e -> split_edge i e p M = (M', r) -> r = Ok tt \/ M' = M \/ post_fail 82 r.
  Proof.
    intros HN H. unfold split_edge in H.
    apply bind_get_inv in H. destruct H as [(t & Et & H) | (-> & _)]; [|right; left; reflexivity].
    destruct (tp_valid t) eqn:Ev; cbn [negb] in H; [|inversion H; subst; right; left; reflexivity].
    apply bind_lift_inv in H. destruct H as [(sg & Esg & H) | (-> & _)]; [|right; left; reflexivity].
    apply mbind_inv in H. destruct H as [([] & M0 & H0 & H) | [(c & H0 & ->) | (s & H0 & ->)]];
      [| apply precheck_ro in H0; right; left; congruence | apply precheck_ro in H0; right; left; congruence].
    pose proof (precheck_ro _ _ _ _ _ _ H0) as E0. subst M0.
    destruct (precheck_ok _ _ _ _ _ H0) as (t' & a & b & c & TA & TB & Et' & HV & ETA & ETB). rewrite Et in Et'. inversion Et'; subst t'. clear Et' H0.
    destruct (tp_neighbour t e) as [nei|] eqn:En.
    - apply mbind_inv in H. destruct H as [([] & M0 & H0 & H) | [(c' & H0 & ->) | (s & H0 & ->)]];
        [| apply precheck_ro in H0; right; left; congruence | apply precheck_ro in H0; right; left; congruence].
      pose proof (precheck_ro _ _ _ _ _ _ H0) as E0. subst M0.
      destruct (precheck_ok _ _ _ _ _ H0) as (nb & a' & b' & c' & TA' & TB' & Enb & HV' & ETA' & ETB'). clear H0.
      destruct (HN t nei Et En) as [Hne (u & Eu & Evn)]. rewrite Enb in Eu. inversion Eu; subst u. clear Eu.
      apply mbind_inv in H. destruct H as [([tl tr] & M1 & H1 & H) | [(c'' & H1 & ->) | (s & H1 & ->)]].
      2:{ right; right. destruct (hemisphere_atomic _ _ _ _ _ _ _ _ _ _ _ _ Et HV ETA ETB H1) as [(x & E)|E]; [discriminate | exact E]. }
      2:{ right; right. destruct (hemisphere_atomic _ _ _ _ _ _ _ _ _ _ _ _ Et HV ETA ETB H1) as [(x & E)|E]; [discriminate | exact E]. }
      destruct (keep_hemisphere sg p i M M1 _ H1 nei nb Hne Enb Evn) as (nb1 & Enb1 & _ & Etri). rewrite <- Etri in HV'.
      apply mbind_inv in H. destruct H as [([br bl] & M2 & H2 & H) | [(c'' & H2 & ->) | (s & H2 & ->)]].
      2:{ right; right. destruct (hemisphere_atomic _ _ _ _ _ _ _ _ _ _ _ _ Enb1 HV' ETA' ETB' H2) as [(x & E)|E]; [discriminate | exact E]. }
      2:{ right; right. destruct (hemisphere_atomic _ _ _ _ _ _ _ _ _ _ _ _ Enb1 HV' ETA' ETB' H2) as [(x & E)|E]; [discriminate | exact E]. }
      revert H. match goal with |- ?f M2 = _ -> _ => assert (G1 : NE okc_post f) by (repeat ne_step); assert (G2 : NP (oks_post 82) f) by (repeat np_step_g) end.
      intros H. destruct r as [[]|c''|s]; [left; reflexivity | right; right; eapply (post_fail_of 82 _ _ _ _ _ G1 G2 H); try tauto; discriminate ..].
    - apply mbind_inv in H. destruct H as [([] & M0 & H0 & H) | [(c' & H0 & ->) | (s & H0 & ->)]]; try discriminate. inversion H0; subst M0. clear H0.
      apply mbind_inv in H. destruct H as [([tl tr] & M1 & H1 & H) | [(c'' & H1 & ->) | (s & H1 & ->)]].
      2:{ right; right. destruct (hemisphere_atomic _ _ _ _ _ _ _ _ _ _ _ _ Et HV ETA ETB H1) as [(x & E)|E]; [discriminate | exact E]. }
      2:{ right; right. destruct (hemisphere_atomic _ _ _ _ _ _ _ _ _ _ _ _ Et HV ETA ETB H1) as [(x & E)|E]; [discriminate | exact E]. }
      inversion H; subst. left; reflexivity.
  Qed.
  Corollary split_edge_err_atomic (i : nat) (e : Edge) (p : V) (M M' : Mesh) (c : N) :
    NeiLive M i e -> split_edge i e p M = (M', Err c) -> c <> 102%N -> c <> 103%N -> M' = M.
  Proof. intros HN H H1 H2. destruct (split_edge_atomic _ _ _ _ _ _ HN H) as [E | [E | [E | E]]]; [discriminate | exact E | contradiction | contradiction]. Qed.

  (** ** (b) structural hypotheses *)
  (** every neighbour index of a live slot names a live slot (the liveness half of clause (i)); [LNKs S]: ... or a slot of
      [S] (the slots invalidated and not yet refilled, while a step is under way) *)
  Definition LNKs (S : nat -> Prop) (M : Mesh) : Prop :=
    forall j t, nth_error (tris M) j = Some t -> tp_valid t = true -> forall e k, tp_neighbour t e = Some k -> live M k \/ S k.
  Definition LNK (M : Mesh) : Prop :=
    forall j t, nth_error (tris M) j = Some t -> tp_valid t = true -> forall e k, tp_neighbour t e = Some k -> live M k.
  Lemma LNK_LNKs M : LNK M -> LNKs (fun _ => False) M.
  Proof. intros H j t Hj Hv e k Hk. left. eapply H; eassumption. Qed.
  Lemma LNKs_LNK (S : nat -> Prop) M : (forall k, ~ S k) -> LNKs S M -> LNK M.
  Proof. intros HS H j t Hj Hv e k Hk. destruct (H j t Hj Hv e k Hk) as [G|G]; [exact G | exfalso; eapply HS; exact G]. Qed.
  Lemma LNKs_weaken (S S' : nat -> Prop) M : (forall k, S k -> S' k) -> LNKs S M -> LNKs S' M.
  Proof. intros HS H j t Hj Hv e k Hk. destruct (H j t Hj Hv e k Hk) as [G|G]; auto. Qed.

  Lemma live_skel (M M' : Mesh) (j : nat) : skel (tris M') = skel (tris M) -> live M j -> live M' j.
  Proof.
    intros E (t & Ht & Hv). pose proof (f_equal (fun l => nth_error l j) E) as E'. cbn beta in E'. rewrite !skel_nth, Ht in E'. cbn [option_map] in E'.
    destruct (nth_error (tris M') j) as [t'|] eqn:Et'; cbn [option_map] in E'; [|discriminate]. inversion E'. exists t'. split; [exact Et' | congruence].
  Qed.
  Lemma skel_length (M M' : Mesh) : skel (tris M') = skel (tris M) -> length (tris M') = length (tris M).
  Proof. intros E. apply (f_equal (@length _)) in E. unfold skel in E. rewrite !map_length in E. exact E. Qed.

  (** liveness through [invalidate] and [push] *)
  Lemma invalidate_slot (i : nat) (t : TP) (M M' : Mesh) :
    nth_error (tris M) i = Some t -> mesh_invalidate i M = (M', Ok tt) ->
    tris M' = upd i tp_invalidate (tris M) /\ ~ live M' i /\ (forall j, j <> i -> live M j -> live M' j) /\ (forall j, live M' j -> live M j).
  Proof.
    intros Et H. unfold mesh_invalidate in H.
    assert (L : Nat.ltb i (length (tris M)) = true) by (apply Nat.ltb_lt; apply nth_error_Some; congruence). rewrite L in H.
    assert (E : tris M' = upd i tp_invalidate (tris M)) by (destruct (nvalid M); inversion H; reflexivity).
    split; [exact E|]. split; [|split].
    - intros (u & Hu & Hv). rewrite E, nth_error_upd, Nat.eqb_refl, Et in Hu. cbn [option_map] in Hu. inversion Hu; subst u. discriminate.
    - intros j Hj (u & Hu & Hv). exists u. rewrite E, nth_error_upd. destruct (Nat.eqb_spec i j); [exfalso; apply Hj; congruence|]. split; assumption.
    - intros j (u & Hu & Hv). rewrite E, nth_error_upd in Hu. destruct (Nat.eqb_spec i j).
      + subst j. rewrite Et in Hu. cbn [option_map] in Hu. inversion Hu; subst u. discriminate.
      + exists u. split; assumption.
  Qed.
  Lemma push_slot (a b c : V) (la : nat) (M M' : Mesh) (n : nat) :
    mesh_push a b c la M = (M', Ok n) ->
    ~ live M n /\ live M' n /\ (forall j, live M j -> live M' j) /\ (forall j, live M' j -> j = n \/ live M j) /\
    (forall j t, j <> n -> nth_error (tris M') j = Some t -> nth_error (tris M) j = Some t) /\
    (forall t, nth_error (tris M') n = Some t -> forall e, tp_neighbour t e = None).
  Proof.
    intros H. unfold mesh_push in H. destruct (get_first_invalid M la) as [k|] eqn:Eg.
    - destruct (tp_new a b c k) as [t| |] eqn:Et; inversion H; subst. clear H.
      apply get_first_invalid_spec in Eg. destruct Eg as (Hlt & w & Hw & Hvw).
      assert (Hn : nth_error (set_nth n t (tris M)) n = Some t) by (rewrite nth_error_set_nth, Nat.eqb_refl; apply Nat.ltb_lt in Hlt; rewrite Hlt; reflexivity).
      repeat split.
      + intros (u & Hu & Hv). congruence.
      + exists t. cbn [tris]. split; [exact Hn | eapply tp_new_valid; exact Et].
      + intros j (u & Hu & Hv). exists u. cbn [tris]. rewrite nth_error_set_nth. destruct (Nat.eqb_spec n j); [subst; congruence|]. split; assumption.
      + intros j (u & Hu & Hv). cbn [tris] in Hu. rewrite nth_error_set_nth in Hu. destruct (Nat.eqb_spec n j); [left; congruence|]. right. exists u. split; assumption.
      + intros j u Hj Hu. cbn [tris] in Hu. rewrite nth_error_set_nth in Hu. destruct (Nat.eqb_spec n j); [exfalso; apply Hj; congruence | exact Hu].
      + intros u Hu e. cbn [tris] in Hu. rewrite Hn in Hu. inversion Hu; subst u. eapply tp_new_neighbours; exact Et.
    - destruct (tp_new a b c (length (tris M))) as [t| |] eqn:Et; inversion H; subst. clear H.
      assert (Hn : nth_error (tris M ++ [t]) (length (tris M)) = Some t) by (rewrite nth_error_app2 by lia; rewrite Nat.sub_diag; reflexivity).
      repeat split.
      + intros (u & Hu & Hv). assert (length (tris M) < length (tris M)) by (apply nth_error_Some; congruence). lia.
      + exists t. cbn [tris]. split; [exact Hn | eapply tp_new_valid; exact Et].
      + intros j (u & Hu & Hv). exists u. cbn [tris]. rewrite nth_error_app1 by (apply nth_error_Some; congruence). split; assumption.
      + intros j (u & Hu & Hv). cbn [tris] in Hu. destruct (Nat.lt_ge_cases j (length (tris M))) as [Hlt|Hge].
        * rewrite nth_error_app1 in Hu by exact Hlt. right. exists u. split; assumption.
        * left. assert (j < length (tris M ++ [t])) by (apply nth_error_Some; congruence). rewrite app_length in H. cbn [length] in H. lia.
      + intros j u Hj Hu. cbn [tris] in Hu. destruct (Nat.lt_ge_cases j (length (tris M))) as [Hlt|Hge].
        * rewrite nth_error_app1 in Hu by exact Hlt. exact Hu.
        * exfalso. assert (j < length (tris M ++ [t])) by (apply nth_error_Some; congruence). rewrite app_length in H. cbn [length] in H. lia.
      + intros u Hu e. cbn [tris] in Hu. rewrite Hn in Hu. inversion Hu; subst u. eapply tp_new_neighbours; exact Et.
  Qed.
  (** [push] with the hint of a slot that has just been invalidated reuses that very slot *)
  Lemma skipn_nth (h : nat) (u : TP) : forall l : list TP, nth_error l h = Some u -> exists rest, skipn h l = u :: rest.
  Proof. induction h as [|h IH]; intros [|x l] H; cbn [nth_error] in H; try discriminate; [inversion H; eexists; reflexivity | apply IH; exact H]. Qed.
  Lemma push_hint (a b c : V) (h : nat) (u : TP) (M M' : Mesh) (n : nat) :
    nth_error (tris M) h = Some u -> tp_valid u = false -> mesh_push a b c h M = (M', Ok n) -> n = h.
  Proof.
    intros Hu Hv H. unfold mesh_push in H.
    assert (Eg : get_first_invalid M h = Some h).
    { unfold get_first_invalid. assert (L : Nat.ltb h (length (tris M)) = true) by (apply Nat.ltb_lt; apply nth_error_Some; congruence). rewrite L.
      destruct (skipn_nth h u _ Hu) as (rest & ->). cbn [first_invalid_from]. rewrite Hv. reflexivity. }
    rewrite Eg in H. destruct (tp_new a b c h); inversion H; reflexivity.
  Qed.

  (** [LNKs] through the primitives *)
  Lemma lnks_push (S : nat -> Prop) (a b c : V) (la : nat) (M M' : Mesh) (n : nat) :
    mesh_push a b c la M = (M', Ok n) -> LNKs S M -> LNKs (fun k => S k /\ k <> n) M'.
  Proof.
    intros H HL. destruct (push_slot _ _ _ _ _ _ _ H) as (_ & Hn & Hup & _ & Hold & Hnew).
    intros j t Hj Hv e k Hk. destruct (Nat.eq_dec j n) as [->|Hjn]; [rewrite (Hnew t Hj e) in Hk; discriminate|].
    destruct (HL j t (Hold j t Hjn Hj) Hv e k Hk) as [G|G]; [left; apply Hup; exact G|].
    destruct (Nat.eq_dec k n) as [->|Hkn]; [left; exact Hn | right; split; assumption].
  Qed.
  Lemma lnks_invalidate (S : nat -> Prop) (i : nat) (t : TP) (M M' : Mesh) :
    nth_error (tris M) i = Some t -> mesh_invalidate i M = (M', Ok tt) -> LNKs S M -> LNKs (fun k => S k \/ k = i) M'.
  Proof.
    intros Et H HL. destruct (invalidate_slot _ _ _ _ Et H) as (E & _ & Hkeep & _).
    intros j u Hj Hv e k Hk. rewrite E, nth_error_upd in Hj. destruct (Nat.eqb_spec i j).
    - subst j. rewrite Et in Hj. cbn [option_map] in Hj. inversion Hj; subst u. discriminate.
    - destruct (HL j u Hj Hv e k Hk) as [G|G]; [|right; left; exact G].
      destruct (Nat.eq_dec k i) as [->|Hki]; [right; right; reflexivity | left; apply Hkeep; assumption].
  Qed.
  Lemma lnks_mupd_constrain (S : nat -> Prop) (site : N) (i : nat) (e : Edge) (M M' : Mesh) (r : res unit) :
    mupd site i (tp_constrain e) M = (M', r) -> LNKs S M -> LNKs S M'.
  Proof.
    intros H HL. pose proof (sk_mupd site i (tp_constrain e) (constrain_tri e) (constrain_valid e) _ _ _ H) as Hsk.
    unfold mupd in H. destruct (Nat.ltb _ _); inversion H; subst; [|exact HL].
    intros j u Hj Hv e' k Hk. cbn [tris] in Hj. rewrite nth_error_upd in Hj.
    assert (G : exists u0, nth_error (tris M) j = Some u0 /\ tp_valid u0 = true /\ tp_neighbour u0 e' = Some k).
    { destruct (Nat.eqb i j); [|exists u; repeat split; assumption].
      destruct (nth_error (tris M) j) as [u0|]; cbn [option_map] in Hj; [|discriminate]. inversion Hj; subst u.
      exists u0. rewrite constrain_valid in Hv. rewrite constrain_neighbours in Hk. repeat split; assumption. }
    destruct G as (u0 & A & B & C). destruct (HL j u0 A B e' k C) as [G|G]; [left; eapply live_skel; [exact Hsk | exact G] | right; exact G].
  Qed.
  Lemma lnks_mark (S : nat -> Prop) (i1 : nat) (e1 : Edge) (i2 : nat) (M M' : Mesh) (r : res unit) :
    mark_as_neighbours i1 e1 i2 M = (M', r) -> LNKs S M -> LNKs S M'.
  Proof.
    intros H HL. pose proof (sk_mark _ _ _ _ _ _ H) as Hsk. unfold mark_as_neighbours in H.
    destruct (Nat.eqb_spec i1 i2) as [|Hne]; [inversion H; subst; exact HL|].
    apply bind_get_inv in H. destruct H as [(t1 & E1 & H) | (-> & _)]; [|exact HL].
    destruct (tp_valid t1) eqn:V1; cbn [negb] in H; [|inversion H; subst; exact HL].
    apply bind_lift_inv in H. destruct H as [(sg & _ & H) | (-> & _)]; [|exact HL].
    apply bind_get_inv in H. destruct H as [(t2 & E2 & H) | (-> & _)]; [|exact HL].
    destruct (tp_valid t2) eqn:V2; cbn [negb] in H; [|inversion H; subst; exact HL].
    apply bind_lift_inv in H. destruct H as [(k2 & _ & H) | (-> & _)]; [|exact HL].
    apply bind_lift_inv in H. destruct H as [(ed2 & _ & H) | (-> & _)]; [|exact HL].
    assert (L1 : Nat.ltb i1 (length (tris M)) = true) by (apply Nat.ltb_lt; apply nth_error_Some; congruence).
    assert (L2 : Nat.ltb i2 (length (tris M)) = true) by (apply Nat.ltb_lt; apply nth_error_Some; congruence).
    unfold mbind, mupd in H. rewrite L1 in H. cbn [tris nvalid] in H. rewrite upd_length, L2 in H. inversion H; subst M' r. clear H.
    assert (Lv1 : live M i1) by (exists t1; split; assumption). assert (Lv2 : live M i2) by (exists t2; split; assumption).
    intros j u Hj Hv e k Hk. cbn [tris] in Hj. rewrite !nth_error_upd in Hj.
    assert (G : k = i1 \/ k = i2 \/ exists u0, nth_error (tris M) j = Some u0 /\ tp_valid u0 = true /\ tp_neighbour u0 e = Some k).
    { destruct (Nat.eqb i2 j).
      - destruct (Nat.eqb i1 j).
        + destruct (nth_error (tris M) j) as [u0|]; cbn [option_map] in Hj; [|discriminate]. inversion Hj; subst u.
          rewrite !set_neighbour_valid in Hv. apply set_neighbour_neighbours in Hk. destruct Hk as [->|Hk]; [left; reflexivity|].
          apply set_neighbour_neighbours in Hk. destruct Hk as [->|Hk]; [right; left; reflexivity|]. right; right. exists u0. repeat split; assumption.
        + destruct (nth_error (tris M) j) as [u0|]; cbn [option_map] in Hj; [|discriminate]. inversion Hj; subst u.
          rewrite set_neighbour_valid in Hv. apply set_neighbour_neighbours in Hk. destruct Hk as [->|Hk]; [left; reflexivity|]. right; right. exists u0. repeat split; assumption.
      - destruct (Nat.eqb i1 j).
        + destruct (nth_error (tris M) j) as [u0|]; cbn [option_map] in Hj; [|discriminate]. inversion Hj; subst u.
          rewrite set_neighbour_valid in Hv. apply set_neighbour_neighbours in Hk. destruct Hk as [->|Hk]; [right; left; reflexivity|]. right; right. exists u0. repeat split; assumption.
        + right; right. exists u. repeat split; assumption. }
    destruct G as [->|[->|(u0 & A & B & C)]]; [left; eapply live_skel; [exact Hsk | exact Lv1] | left; eapply live_skel; [exact Hsk | exact Lv2] |].
    destruct (HL j u0 A B e k C) as [G|G]; [left; eapply live_skel; [exact Hsk | exact G] | right; exact G].
  Qed.

  (** ** the linking suffix of a step: mark_as_neighbours between live slots, constrain of slots in range *)
  Definition lv (sk : list (Tri K * bool)) (j : nat) : Prop := exists T, nth_error sk j = Some (T, true).
  Lemma lv_live (M : Mesh) (j : nat) : live M j -> lv (skel (tris M)) j.
  Proof. intros (t & Ht & Hv). exists (tp_tri t). rewrite skel_nth, Ht. cbn [option_map]. rewrite Hv. reflexivity. Qed.
  Lemma live_lv (M : Mesh) (j : nat) : lv (skel (tris M)) j -> live M j.
  Proof.
    intros (T & H). rewrite skel_nth in H. destruct (nth_error (tris M) j) as [t|] eqn:Et; cbn [option_map] in H; [|discriminate].
    inversion H. exists t. split; [exact Et | assumption].
  Qed.
  Lemma mark_outcome (i1 : nat) (e1 : Edge) (i2 : nat) (M M' : Mesh) (r : res unit) :
    live M i1 -> live M i2 -> mark_as_neighbours i1 e1 i2 M = (M', r) -> r = Ok tt \/ (i1 = i2 /\ r = Err 102%N) \/ r = Panic 64%N.
  Proof.
    intros (t1 & E1 & V1) (t2 & E2 & V2) H. unfold mark_as_neighbours in H.
    destruct (Nat.eqb_spec i1 i2) as [Heq|Hne]; [inversion H; subst; right; left; split; reflexivity|].
    apply bind_get_inv in H. destruct H as [(t1' & E1' & H) | (_ & _ & E)]; [|congruence]. rewrite E1 in E1'. inversion E1'; subst t1'. clear E1'.
    rewrite V1 in H. cbn [negb] in H.
    assert (Es : exists sg, tri_segment (tp_tri t1) (edge_as_i e1) = Ok sg) by (destruct e1; eexists; reflexivity). destruct Es as (sg & Es).
    rewrite (bind_lift_Ok _ sg) in H by exact Es.
    apply bind_get_inv in H. destruct H as [(t2' & E2' & H) | (_ & _ & E)]; [|congruence]. rewrite E2 in E2'. inversion E2'; subst t2'. clear E2'.
    rewrite V2 in H. cbn [negb] in H.
    destruct (tri_get_edge_index_from_segment (tp_tri t2) sg) as [k|] eqn:Ek; [|inversion H; subst; right; right; reflexivity].
    rewrite (bind_lift_Ok _ k) in H by reflexivity.
    destruct (edge_from_i_lt k (edge_index_lt _ _ _ Ek)) as (ed & Eed). rewrite (bind_lift_Ok _ ed) in H by exact Eed.
    assert (L1 : Nat.ltb i1 (length (tris M)) = true) by (apply Nat.ltb_lt; apply nth_error_Some; congruence).
    assert (L2 : Nat.ltb i2 (length (tris M)) = true) by (apply Nat.ltb_lt; apply nth_error_Some; congruence).
    unfold mbind, mupd in H. rewrite L1 in H. cbn [tris nvalid] in H. rewrite upd_length, L2 in H. inversion H; subst. left; reflexivity.
  Qed.

  Section TailRules.
    Variable S : nat -> Prop.
    Variable allow102 : bool.
    Variable sk : list (Tri K * bool).
    Definition Tail {A} (Q : A -> Prop) (m : MR (K:=K) A) : Prop :=
      forall M M' r, skel (tris M) = sk -> WF M -> CNT M -> LNKs S M -> m M = (M', r) ->
        skel (tris M') = sk /\ WF M' /\ CNT M' /\ LNKs S M' /\
        match r with Ok a => Q a | Err c => allow102 = true /\ c = 102%N | Panic s => s = 64%N end.
    Lemma tail_ret {A} (Q : A -> Prop) (a : A) : Q a -> Tail Q (mret a).
    Proof. intros HQ M M' r Hs W C L H. inversion H; subst M' r. split; [exact Hs | split; [exact W | split; [exact C | split; [exact L | exact HQ]]]]. Qed.
    Lemma tail_ret_true {A} (a : A) : Tail (fun _ => True) (mret a).
    Proof. apply tail_ret. exact I. Qed.
    Lemma tail_bind {A B} (Q0 : A -> Prop) (Q : B -> Prop) (m : MR A) (f : A -> MR B) : Tail Q0 m -> (forall a, Tail Q (f a)) -> Tail Q (mbind m f).
    Proof.
      intros Hm Hf M M' r Hs W C L H. apply mbind_inv in H. destruct H as [(a & M1 & H1 & H2) | [(c & H1 & ->) | (s & H1 & ->)]].
      - destruct (Hm _ _ _ Hs W C L H1) as (A1 & A2 & A3 & A4 & _). eapply Hf; eassumption.
      - exact (Hm _ _ _ Hs W C L H1).
      - exact (Hm _ _ _ Hs W C L H1).
    Qed.
    Lemma tail_mark (i1 : nat) (e1 : Edge) (i2 : nat) : lv sk i1 -> lv sk i2 -> (allow102 = true \/ i1 <> i2) -> Tail (fun _ => True) (mark_as_neighbours i1 e1 i2).
    Proof.
      intros L1 L2 Hd M M' r Hs W C L H. subst sk. apply live_lv in L1. apply live_lv in L2.
      split; [exact (sk_mark _ _ _ _ _ _ H)|]. split; [exact (proj2 (wf_mark _ _ _ _ _ _ H) W)|]. split; [exact (cnt_mark _ _ _ _ _ _ H C)|].
      split; [exact (lnks_mark _ _ _ _ _ _ _ H L)|].
      destruct (mark_outcome _ _ _ _ _ _ L1 L2 H) as [-> | [(Heq & ->) | ->]]; [exact I | | reflexivity].
      destruct Hd as [Hd|Hd]; [split; [exact Hd | reflexivity] | contradiction].
    Qed.
    Lemma tail_constrain (site : N) (i : nat) (e : Edge) : i < length sk -> Tail (fun _ => True) (mupd site i (tp_constrain e)).
    Proof.
      intros Hi M M' r Hs W C L H. subst sk.
      split; [exact (sk_mupd site i (tp_constrain e) (constrain_tri e) (constrain_valid e) _ _ _ H)|].
      split; [exact (proj2 (wf_constrain _ _ _ _ _ _ H) W)|]. split; [exact (cnt_mupd _ _ _ (constrain_valid e) _ _ _ H C)|].
      split; [exact (lnks_mupd_constrain _ _ _ _ _ _ _ H L)|].
      unfold skel in Hi. rewrite map_length in Hi. unfold mupd in H. apply Nat.ltb_lt in Hi. rewrite Hi in H. inversion H. exact I.
    Qed.
    Lemma tail_when (b : bool) (m : MR unit) : Tail (fun _ => True) m -> Tail (fun _ => True) (mwhen b m).
    Proof. intros H. destruct b; [exact H | apply tail_ret; exact I]. Qed.
    Lemma lv_lt (j : nat) : lv sk j -> j < length sk.
    Proof. intros (T & H). apply nth_error_Some. congruence. Qed.
  End TailRules.
  Ltac tail_tac :=
    repeat first
      [ eapply tail_bind; [|intros ?] | apply tail_ret_true | apply tail_ret; reflexivity | apply tail_when
      | apply tail_constrain; apply lv_lt; apply lv_live; assumption
      | apply tail_mark; [apply lv_live; assumption | apply lv_live; assumption | first [right; congruence | left; reflexivity]] ].

  (** ** (b) split_triangle on a structurally sound mesh: Ok (and then sound again up to links to slot i), or untouched,
      or the coordinate comparison of mark_as_neighbours failed (Panic 64) *)
  Theorem split_triangle_struct (i : nat) (p : V) (M M' : Mesh) (r : res unit) :
    WF M -> CNT M -> LNK M -> split_triangle i p M = (M', r) ->
    (r = Ok tt /\ WF M' /\ CNT M' /\ LNKs (fun k => k = i) M') \/ M' = M \/ r = Panic 64%N.
  Proof.
    intros W C HL H. unfold split_triangle in H.
    apply bind_get_inv in H. destruct H as [(t & Et & H) | (-> & _)]; [|right; left; reflexivity].
    destruct (tp_valid t) eqn:Ev; cbn [negb] in H; [|inversion H; subst; right; left; reflexivity].
    apply bind_lift_inv in H. destruct H as [(e1 & _ & H) | (-> & _)]; [|right; left; reflexivity].
    apply bind_lift_inv in H. destruct H as [(e2 & _ & H) | (-> & _)]; [|right; left; reflexivity].
    apply bind_lift_inv in H. destruct H as [(e3 & _ & H) | (-> & _)]; [|right; left; reflexivity].
    apply bind_lift_inv in H. destruct H as [(T1 & ET1 & H) | (-> & _)]; [|right; left; reflexivity].
    apply bind_lift_inv in H. destruct H as [(T2 & ET2 & H) | (-> & _)]; [|right; left; reflexivity].
    apply bind_lift_inv in H. destruct H as [(T3 & ET3 & H) | (-> & _)]; [|right; left; reflexivity].
    apply mbind_inv in H. destruct H as [([] & M1 & H1 & H) | [(c & H1 & ->) | (s & H1 & ->)]];
      [| destruct (cnt_invalidate_live i M M' _ (ex_intro _ t (conj Et Ev)) C H1) as (_ & G & _); discriminate ..].
    destruct (cnt_invalidate_live i M M1 _ (ex_intro _ t (conj Et Ev)) C H1) as (C1 & _ & _).
    pose proof (proj2 (wf_invalidate _ _ _ _ H1) W) as W1.
    destruct (invalidate_slot _ _ _ _ Et H1) as (_ & D1 & K1 & _).
    pose proof (lnks_invalidate _ _ _ _ _ Et H1 (LNK_LNKs _ HL)) as L1.
    apply mbind_inv in H. destruct H as [(cap & M2 & H2 & H) | [(c & H2 & ->) | (s & H2 & ->)]];
      [| destruct (push_checked _ _ _ _ _ _ _ _ ET1 H2); discriminate | destruct (push_checked _ _ _ _ _ _ _ _ ET1 H2); discriminate].
    destruct (push_slot _ _ _ _ _ _ _ H2) as (D2 & V2 & K2 & _).
    pose proof (cnt_push _ _ _ _ _ _ _ H2 C1) as C2. pose proof (proj2 (wf_push _ _ _ _ _ _ _ H2) W1) as W2. pose proof (lnks_push _ _ _ _ _ _ _ _ H2 L1) as L2.
    apply mbind_inv in H. destruct H as [(abp & M3 & H3 & H) | [(c & H3 & ->) | (s & H3 & ->)]];
      [| destruct (push_checked _ _ _ _ _ _ _ _ ET2 H3); discriminate | destruct (push_checked _ _ _ _ _ _ _ _ ET2 H3); discriminate].
    destruct (push_slot _ _ _ _ _ _ _ H3) as (D3 & V3 & K3 & _).
    pose proof (cnt_push _ _ _ _ _ _ _ H3 C2) as C3. pose proof (proj2 (wf_push _ _ _ _ _ _ _ H3) W2) as W3. pose proof (lnks_push _ _ _ _ _ _ _ _ H3 L2) as L3.
    apply mbind_inv in H. destruct H as [(bcp & M4 & H4 & H) | [(c & H4 & ->) | (s & H4 & ->)]];
      [| destruct (push_checked _ _ _ _ _ _ _ _ ET3 H4); discriminate | destruct (push_checked _ _ _ _ _ _ _ _ ET3 H4); discriminate].
    destruct (push_slot _ _ _ _ _ _ _ H4) as (D4 & V4 & K4 & _).
    pose proof (cnt_push _ _ _ _ _ _ _ H4 C3) as C4. pose proof (proj2 (wf_push _ _ _ _ _ _ _ H4) W3) as W4. pose proof (lnks_push _ _ _ _ _ _ _ _ H4 L3) as L4.
    assert (Hnb : forall e n, tp_neighbour t e = Some n -> live M4 n /\ n <> cap /\ n <> abp /\ n <> bcp).
    { intros e n En. destruct (W i t Et e n En) as [_ Hni]. pose proof (HL i t Et Ev e n En) as Ln.
      pose proof (K1 n Hni Ln) as Ln1. pose proof (K2 n Ln1) as Ln2. pose proof (K3 n Ln2) as Ln3. pose proof (K4 n Ln3) as Ln4.
      split; [exact Ln4|]. split; [intros ->; apply D2; exact Ln1|]. split; [intros ->; apply D3; exact Ln2 | intros ->; apply D4; exact Ln3]. }
    assert (Vcap : live M4 cap) by (apply K4, K3; exact V2). assert (Vabp : live M4 abp) by (apply K4; exact V3).
    assert (N1 : abp <> cap) by (intros ->; apply D3; exact V2).
    assert (N2 : bcp <> cap) by (intros ->; apply D4; apply K3; exact V2).
    assert (N3 : bcp <> abp) by (intros ->; apply D4; exact V3).
    revert H.
    destruct (tp_neighbour t e1) as [n1|] eqn:En1; [destruct (Hnb _ _ En1) as (? & ? & ? & ?)|];
    (destruct (tp_neighbour t e2) as [n2|] eqn:En2; [destruct (Hnb _ _ En2) as (? & ? & ? & ?)|]);
    (destruct (tp_neighbour t e3) as [n3|] eqn:En3; [destruct (Hnb _ _ En3) as (? & ? & ? & ?)|]).
    all: match type of L4 with LNKs ?S ?M0 => match goal with |- ?f M0 = _ -> _ => assert (G : Tail S false (skel (tris M0)) (fun _ => True) f) by tail_tac end end.
    all: intros HH; destruct (G M4 M' r eq_refl W4 C4 L4 HH) as (_ & W' & C' & L' & Ho).
    all: destruct r as [[]|c|s]; [left | destruct Ho; discriminate | right; right; subst s; reflexivity].
    all: split; [reflexivity | split; [exact W' | split; [exact C' |]]]; revert L'; apply LNKs_weaken; cbn beta; intros k; tauto.
  Qed.

  Lemma dead_slot (M : Mesh) (j : nat) : j < length (tris M) -> ~ live M j -> exists u, nth_error (tris M) j = Some u /\ tp_valid u = false.
  Proof.
    intros Hlt Hn. destruct (nth_error (tris M) j) as [u|] eqn:Eu; [|apply nth_error_None in Eu; lia].
    exists u. split; [reflexivity|]. destruct (tp_valid u) eqn:Ev; [exfalso; apply Hn; exists u; split; assumption | reflexivity].
  Qed.
  Lemma live_lt (M : Mesh) (j : nat) : live M j -> j < length (tris M).
  Proof. intros (u & Hu & _). apply nth_error_Some. congruence. Qed.

  (** ** (b) flip_diagonal on a structurally sound mesh *)
  Theorem flip_struct (i : nat) (e : Edge) (M M' : Mesh) (r : res unit) :
    WF M -> CNT M -> LNK M -> flip_diagonal i e M = (M', r) ->
    (r = Ok tt /\ WF M' /\ CNT M' /\ LNK M') \/ M' = M \/ r = Panic 64%N \/ r = Err 102%N.
  Proof.
    intros W C HL H. unfold flip_diagonal in H.
    apply bind_get_inv in H. destruct H as [(t & Et & H) | (-> & _)]; [|right; left; reflexivity].
    destruct (tp_valid t) eqn:Ev; cbn [negb] in H; [|inversion H; subst; right; left; reflexivity].
    destruct (tp_neighbour t e) as [ni|] eqn:En; [|inversion H; subst; right; left; reflexivity].
    destruct (W i t Et e ni En) as [Hlt Hne].
    apply bind_get_inv in H. destruct H as [(nb & Enb & H) | (-> & _)]; [|right; left; reflexivity].
    destruct (tp_valid nb) eqn:Evn; cbn [negb] in H; [|inversion H; subst; right; left; reflexivity].
    apply bind_lift_inv in H; destruct H as [(va & _ & H) | (-> & _)]; [|right; left; reflexivity].
    apply bind_lift_inv in H; destruct H as [(vb & _ & H) | (-> & _)]; [|right; left; reflexivity].
    apply bind_lift_inv in H; destruct H as [(vc & _ & H) | (-> & _)]; [|right; left; reflexivity].
    apply bind_lift_inv in H; destruct H as [(vo & _ & H) | (-> & _)]; [|right; left; reflexivity].
    apply bind_lift_inv in H; destruct H as [(e1 & _ & H) | (-> & _)]; [|right; left; reflexivity].
    apply bind_lift_inv in H; destruct H as [(e2 & _ & H) | (-> & _)]; [|right; left; reflexivity].
    apply bind_lift_inv in H; destruct H as [(e3 & _ & H) | (-> & _)]; [|right; left; reflexivity].
    apply bind_lift_inv in H; destruct H as [(e4 & _ & H) | (-> & _)]; [|right; left; reflexivity].
    apply bind_lift_inv in H. destruct H as [(T1 & ET1 & H) | (-> & _)]; [|right; left; reflexivity].
    apply bind_lift_inv in H. destruct H as [(T2 & ET2 & H) | (-> & _)]; [|right; left; reflexivity].
    (* invalidate i *)
    apply mbind_inv in H. destruct H as [([] & M1 & H1 & H) | [(c & H1 & ->) | (s & H1 & ->)]];
      [| destruct (cnt_invalidate_live i M M' _ (ex_intro _ t (conj Et Ev)) C H1) as (_ & G & _); discriminate ..].
    destruct (cnt_invalidate_live i M M1 _ (ex_intro _ t (conj Et Ev)) C H1) as (C1 & _ & _).
    pose proof (wf_invalidate _ _ _ _ H1) as [Len1 W1]. specialize (W1 W).
    destruct (invalidate_slot _ _ _ _ Et H1) as (TE1 & D1 & K1 & B1).
    pose proof (lnks_invalidate _ _ _ _ _ Et H1 (LNK_LNKs _ HL)) as L1.
    assert (Lni1 : live M1 ni) by (apply K1; [exact Hne | exists nb; split; assumption]).
    destruct Lni1 as (nb1 & Enb1 & Evn1).
    (* invalidate ni *)
    apply mbind_inv in H. destruct H as [([] & M2 & H2 & H) | [(c & H2 & ->) | (s & H2 & ->)]];
      [| destruct (cnt_invalidate_live ni M1 M' _ (ex_intro _ nb1 (conj Enb1 Evn1)) C1 H2) as (_ & G & _); discriminate ..].
    destruct (cnt_invalidate_live ni M1 M2 _ (ex_intro _ nb1 (conj Enb1 Evn1)) C1 H2) as (C2 & _ & _).
    pose proof (wf_invalidate _ _ _ _ H2) as [Len2 W2]. specialize (W2 W1).
    destruct (invalidate_slot _ _ _ _ Enb1 H2) as (TE2 & D2 & K2 & B2).
    pose proof (lnks_invalidate _ _ _ _ _ Enb1 H2 L1) as L2.
    assert (Di2 : ~ live M2 i) by (intros G; apply D1; apply B2; exact G).
    assert (Li2 : i < length (tris M2)) by (assert (i < length (tris M)) by (apply nth_error_Some; congruence); lia).
    destruct (dead_slot _ _ Li2 Di2) as (u2 & Eu2 & Evu2).
    (* push at the hint i *)
    apply mbind_inv in H. destruct H as [(aoc & M3 & H3 & H) | [(c & H3 & ->) | (s & H3 & ->)]];
      [| destruct (push_checked _ _ _ _ _ _ _ _ ET1 H3); discriminate | destruct (push_checked _ _ _ _ _ _ _ _ ET1 H3); discriminate].
    pose proof (push_hint _ _ _ _ _ _ _ _ Eu2 Evu2 H3) as Ea. subst aoc.
    destruct (push_slot _ _ _ _ _ _ _ H3) as (_ & V3 & K3 & B3 & _).
    pose proof (cnt_push _ _ _ _ _ _ _ H3 C2) as C3. pose proof (wf_push _ _ _ _ _ _ _ H3) as [Len3 W3]. specialize (W3 W2). pose proof (lnks_push _ _ _ _ _ _ _ _ H3 L2) as L3.
    assert (Dn3 : ~ live M3 ni) by (intros G; destruct (B3 _ G) as [G'|G']; [apply Hne; exact G' | apply D2; exact G']).
    assert (Ln3 : ni < length (tris M3)) by lia.
    destruct (dead_slot _ _ Ln3 Dn3) as (u3 & Eu3 & Evu3).
    (* push at the hint ni *)
    apply mbind_inv in H. destruct H as [(cob & M4 & H4 & H) | [(c & H4 & ->) | (s & H4 & ->)]];
      [| destruct (push_checked _ _ _ _ _ _ _ _ ET2 H4); discriminate | destruct (push_checked _ _ _ _ _ _ _ _ ET2 H4); discriminate].
    pose proof (push_hint _ _ _ _ _ _ _ _ Eu3 Evu3 H4) as Ea. subst cob.
    destruct (push_slot _ _ _ _ _ _ _ H4) as (_ & V4 & K4 & _).
    pose proof (cnt_push _ _ _ _ _ _ _ H4 C3) as C4. pose proof (wf_push _ _ _ _ _ _ _ H4) as [Len4 W4]. specialize (W4 W3). pose proof (lnks_push _ _ _ _ _ _ _ _ H4 L3) as L4.
    assert (Vi4 : live M4 i) by (apply K4; exact V3).
    assert (Hall : forall n, live M n -> live M4 n).
    { intros n Ln. destruct (Nat.eq_dec n i) as [->|Hni]; [exact Vi4|]. destruct (Nat.eq_dec n ni) as [->|Hnn]; [exact V4|].
      apply K4, K3, K2; [exact Hnn|]. apply K1; assumption. }
    assert (HnbT : forall e' n, tp_neighbour t e' = Some n -> live M4 n) by (intros e' n E'; apply Hall; exact (HL i t Et Ev e' n E')).
    assert (HnbN : forall e' n, tp_neighbour nb e' = Some n -> live M4 n) by (intros e' n E'; apply Hall; exact (HL ni nb Enb Evn e' n E')).
    revert H.
    destruct (tp_neighbour nb e4) as [n4|] eqn:En4; [pose proof (HnbN _ _ En4)|];
    (destruct (tp_neighbour t e1) as [n1|] eqn:En1; [pose proof (HnbT _ _ En1)|]);
    (destruct (tp_neighbour nb e3) as [n3|] eqn:En3; [pose proof (HnbN _ _ En3)|]);
    (destruct (tp_neighbour t e2) as [n2|] eqn:En2; [pose proof (HnbT _ _ En2)|]).
    all: match type of L4 with LNKs ?S ?M0 => match goal with |- ?f M0 = _ -> _ => assert (G : Tail S true (skel (tris M0)) (fun _ => True) f) by tail_tac end end.
    all: intros HH; destruct (G M4 M' r eq_refl W4 C4 L4 HH) as (_ & W' & C' & L' & Ho).
    all: destruct r as [[]|c|s]; [left | right; right; right; destruct Ho as [_ ->]; reflexivity | right; right; left; subst s; reflexivity].
    all: split; [reflexivity | split; [exact W' | split; [exact C' |]]]; revert L'; apply LNKs_LNK; cbn beta; intros k; tauto.
  Qed.

  (** ** (b) split_edge on a structurally sound mesh *)
  Lemma hemisphere_struct (s : Seg K) (p : V) (idx : nat) (t : TP) (a b c : V) (TA TB : Tri K) (M M' : Mesh) (r : res (nat * nat)) :
    WF M -> CNT M -> LNK M -> nth_error (tris M) idx = Some t -> tp_valid t = true ->
    hemi_verts (tp_tri t) s = Ok (a, b, c) -> tri_new a p c = Ok TA -> tri_new p b c = Ok TB ->
    process_hemisphere s p idx M = (M', r) ->
    (exists pbc, r = Ok (idx, pbc) /\ WF M' /\ CNT M' /\ LNK M' /\ (forall j, live M j -> live M' j) /\ live M' pbc /\ ~ live M pbc) \/ r = Panic 64%N.
  Proof.
    intros W C HL Et Ev HV ETA ETB H. unfold process_hemisphere in H.
    apply bind_get_inv in H. destruct H as [(t' & Et' & H) | (_ & _ & E)]; [|congruence]. rewrite Et in Et'. inversion Et'; subst t'. clear Et'.
    unfold hemi_verts in HV.
    destruct (tri_get_edge_index_from_segment (tp_tri t) s) as [abi|] eqn:Eabi; cbn [rbind] in HV; [|discriminate].
    destruct (tri_segment (tp_tri t) abi) as [ab| |] eqn:Eab; cbn [rbind] in HV; try discriminate.
    destruct (get_opposite_vertex (tp_tri t) ab) as [c'| |] eqn:Ec; cbn [rbind] in HV; try discriminate. inversion HV; subst a b c'. clear HV.
    assert (Eei : exists ei, tri_get_edge_index_from_segment (tp_tri t) ab = Some ei).
    { unfold get_opposite_vertex in Ec. destruct (tri_get_edge_index_from_segment (tp_tri t) ab) as [ei|]; [eexists; reflexivity | discriminate]. }
    destruct Eei as (ei & Eei).
    destruct (edge_from_i_lt ei (edge_index_lt _ _ _ Eei)) as (ed & Eed).
    rewrite (bind_lift_Ok _ abi) in H by (first [reflexivity | rewrite Eabi; reflexivity]).
    rewrite (bind_lift_Ok _ ab) in H by (first [reflexivity | exact Eab]).
    rewrite (bind_lift_Ok _ ei) in H by (rewrite Eei; reflexivity).
    rewrite (bind_lift_Ok _ ed) in H by exact Eed.
    rewrite (bind_lift_Ok _ c) in H by (first [reflexivity | exact Ec]).
    apply mbind_inv in H. destruct H as [([] & M1 & H1 & H) | [(c' & H1 & ->) | (s' & H1 & ->)]];
      [| destruct (cnt_invalidate_live idx M M' _ (ex_intro _ t (conj Et Ev)) C H1) as (_ & G & _); discriminate ..].
    destruct (cnt_invalidate_live idx M M1 _ (ex_intro _ t (conj Et Ev)) C H1) as (C1 & _ & _).
    pose proof (wf_invalidate _ _ _ _ H1) as [Len1 W1]. specialize (W1 W).
    destruct (invalidate_slot _ _ _ _ Et H1) as (TE1 & D1 & K1 & B1).
    pose proof (lnks_invalidate _ _ _ _ _ Et H1 (LNK_LNKs _ HL)) as L1.
    assert (Et1 : nth_error (tris M1) idx = Some (tp_invalidate t)) by (rewrite TE1, nth_error_upd, Nat.eqb_refl, Et; reflexivity).
    apply bind_get_inv in H. destruct H as [(t1 & Et1' & H) | (_ & _ & E)]; [|congruence]. rewrite Et1 in Et1'. inversion Et1'; subst t1. clear Et1'.
    destruct (edge_add_ok ed 1) as (ea & Eea). destruct (edge_add_ok ed 2) as (eb & Eeb).
    rewrite (bind_lift_Ok _ ea) in H by exact Eea. rewrite (bind_lift_Ok _ eb) in H by exact Eeb.
    rewrite (bind_lift_Ok _ ea) in H by exact Eea. rewrite (bind_lift_Ok _ eb) in H by exact Eeb.
    rewrite !invalidate_neighbours in H.
    apply mbind_inv in H. destruct H as [(apc & M2 & H2 & H) | [(c' & H2 & ->) | (s' & H2 & ->)]];
      [| destruct (push_checked _ _ _ _ _ _ _ _ ETA H2); discriminate | destruct (push_checked _ _ _ _ _ _ _ _ ETA H2); discriminate].
    pose proof (push_hint _ _ _ _ _ _ _ _ Et1 eq_refl H2) as Ea. subst apc.
    destruct (push_slot _ _ _ _ _ _ _ H2) as (_ & V2 & K2 & _).
    pose proof (cnt_push _ _ _ _ _ _ _ H2 C1) as C2. pose proof (wf_push _ _ _ _ _ _ _ H2) as [Len2 W2]. specialize (W2 W1). pose proof (lnks_push _ _ _ _ _ _ _ _ H2 L1) as L2.
    apply mbind_inv in H. destruct H as [(pbc & M3 & H3 & H) | [(c' & H3 & ->) | (s' & H3 & ->)]];
      [| destruct (push_checked _ _ _ _ _ _ _ _ ETB H3); discriminate | destruct (push_checked _ _ _ _ _ _ _ _ ETB H3); discriminate].
    destruct (push_slot _ _ _ _ _ _ _ H3) as (D3 & V3 & K3 & _).
    pose proof (cnt_push _ _ _ _ _ _ _ H3 C2) as C3. pose proof (wf_push _ _ _ _ _ _ _ H3) as [Len3 W3]. specialize (W3 W2). pose proof (lnks_push _ _ _ _ _ _ _ _ H3 L2) as L3.
    assert (Hall : forall n, live M n -> live M2 n).
    { intros n Ln. destruct (Nat.eq_dec n idx) as [->|Hni]; [exact V2|]. apply K2, K1; assumption. }
    assert (Vi3 : live M3 idx) by (apply K3; exact V2).
    assert (N1 : idx <> pbc) by (intros ->; apply D3; exact V2).
    assert (Hnb : forall e' n, tp_neighbour t e' = Some n -> live M3 n /\ n <> idx /\ n <> pbc).
    { intros e' n E'. destruct (W idx t Et e' n E') as [_ Hni]. pose proof (Hall n (HL idx t Et Ev e' n E')) as Ln2.
      split; [apply K3; exact Ln2|]. split; [exact Hni | intros ->; apply D3; exact Ln2]. }
    assert (Dp : ~ live M pbc) by (intros G; apply D3; apply Hall; exact G).
    revert H.
    destruct (tp_neighbour t ea) as [n1|] eqn:En1; [destruct (Hnb _ _ En1) as (? & ? & ?)|];
    (destruct (tp_neighbour t eb) as [n2|] eqn:En2; [destruct (Hnb _ _ En2) as (? & ? & ?)|]).
    all: match type of L3 with LNKs ?S ?M0 => match goal with |- ?f M0 = _ -> _ => assert (G : Tail S false (skel (tris M0)) (fun x => x = (idx, pbc)) f) by tail_tac end end.
    all: intros HH; destruct (G M3 M' r eq_refl W3 C3 L3 HH) as (Hsk & W' & C' & L' & Ho).
    all: destruct r as [x|c'|s']; [left | destruct Ho; discriminate | right; subst s'; reflexivity].
    all: subst x; exists pbc; split; [reflexivity | split; [exact W' | split; [exact C' | split; [revert L'; apply LNKs_LNK; cbn beta; intros k; tauto |]]]].
    all: split; [intros j Lj; eapply live_skel; [exact Hsk | apply K3, Hall; exact Lj] | split; [eapply live_skel; [exact Hsk | exact V3] | exact Dp]].
  Qed.

  Theorem split_edge_struct (i : nat) (e : Edge) (p : V) (M M' : Mesh) (r : res unit) :
    WF M -> CNT M -> LNK M -> split_edge i e p M = (M', r) ->
    (r = Ok tt /\ WF M' /\ CNT M' /\ LNK M') \/ M' = M \/ r = Panic 64%N.
  Proof.
    intros W C HL H. unfold split_edge in H.
    apply bind_get_inv in H. destruct H as [(t & Et & H) | (-> & _)]; [|right; left; reflexivity].
    destruct (tp_valid t) eqn:Ev; cbn [negb] in H; [|inversion H; subst; right; left; reflexivity].
    apply bind_lift_inv in H. destruct H as [(sg & Esg & H) | (-> & _)]; [|right; left; reflexivity].
    apply mbind_inv in H. destruct H as [([] & M0 & H0 & H) | [(c & H0 & ->) | (s & H0 & ->)]];
      [| apply precheck_ro in H0; right; left; congruence | apply precheck_ro in H0; right; left; congruence].
    pose proof (precheck_ro _ _ _ _ _ _ H0) as E0. subst M0.
    destruct (precheck_ok _ _ _ _ _ H0) as (t' & a & b & c & TA & TB & Et' & HV & ETA & ETB). rewrite Et in Et'. inversion Et'; subst t'. clear Et' H0.
    destruct (tp_neighbour t e) as [nei|] eqn:En.
    - apply mbind_inv in H. destruct H as [([] & M0 & H0 & H) | [(c' & H0 & ->) | (s & H0 & ->)]];
        [| apply precheck_ro in H0; right; left; congruence | apply precheck_ro in H0; right; left; congruence].
      pose proof (precheck_ro _ _ _ _ _ _ H0) as E0. subst M0.
      destruct (precheck_ok _ _ _ _ _ H0) as (nb & a' & b' & c' & TA' & TB' & Enb & HV' & ETA' & ETB'). clear H0.
      destruct (W i t Et e nei En) as [_ Hne]. destruct (HL i t Et Ev e nei En) as (u & Eu & Evn). rewrite Enb in Eu. inversion Eu; subst u. clear Eu.
      apply mbind_inv in H. destruct H as [([tl tr] & M1 & H1 & H) | [(c'' & H1 & ->) | (s & H1 & ->)]].
      2:{ destruct (hemisphere_struct _ _ _ _ _ _ _ _ _ _ _ _ W C HL Et Ev HV ETA ETB H1) as [(x & E & _)|E]; discriminate. }
      2:{ destruct (hemisphere_struct _ _ _ _ _ _ _ _ _ _ _ _ W C HL Et Ev HV ETA ETB H1) as [(x & E & _)|E]; [discriminate | right; right; inversion E; reflexivity]. }
      destruct (hemisphere_struct _ _ _ _ _ _ _ _ _ _ _ _ W C HL Et Ev HV ETA ETB H1) as [(pbc1 & E1 & W1 & C1 & L1 & K1 & V1 & D1)|E]; [|discriminate].
      inversion E1; subst tl tr. clear E1.
      destruct (keep_hemisphere sg p i M M1 _ H1 nei nb Hne Enb Evn) as (nb1 & Enb1 & Evn1 & Etri). rewrite <- Etri in HV'.
      apply mbind_inv in H. destruct H as [([br bl] & M2 & H2 & H) | [(c'' & H2 & ->) | (s & H2 & ->)]].
      2:{ destruct (hemisphere_struct _ _ _ _ _ _ _ _ _ _ _ _ W1 C1 L1 Enb1 Evn1 HV' ETA' ETB' H2) as [(x & E & _)|E]; discriminate. }
      2:{ destruct (hemisphere_struct _ _ _ _ _ _ _ _ _ _ _ _ W1 C1 L1 Enb1 Evn1 HV' ETA' ETB' H2) as [(x & E & _)|E]; [discriminate | right; right; inversion E; reflexivity]. }
      destruct (hemisphere_struct _ _ _ _ _ _ _ _ _ _ _ _ W1 C1 L1 Enb1 Evn1 HV' ETA' ETB' H2) as [(pbc2 & E2 & W2 & C2 & L2 & K2 & V2 & D2)|E]; [|discriminate].
      inversion E2; subst br bl. clear E2.
      assert (Vi : live M2 i) by (apply K2, K1; exists t; split; assumption).
      assert (Vp1 : live M2 pbc1) by (apply K2; exact V1).
      assert (Vn : live M2 nei) by (apply K2; exists nb1; split; assumption).
      assert (N1 : i <> pbc2) by (intros ->; apply D2; apply K1; exists t; split; assumption).
      assert (N2 : pbc1 <> nei) by (intros ->; apply D1; exists nb; split; assumption).
      pose proof (LNK_LNKs _ L2) as L2'.
      revert H. match goal with |- ?f M2 = _ -> _ => assert (G : Tail (fun _ => False) false (skel (tris M2)) (fun _ => True) f) by tail_tac end.
      intros HH. destruct (G M2 M' r eq_refl W2 C2 L2' HH) as (_ & W' & C' & L' & Ho).
      destruct r as [[]|c''|s]; [left | destruct Ho; discriminate | right; right; subst s; reflexivity].
      split; [reflexivity | split; [exact W' | split; [exact C' |]]]. revert L'. apply LNKs_LNK. tauto.
    - apply mbind_inv in H. destruct H as [([] & M0 & H0 & H) | [(c' & H0 & ->) | (s & H0 & ->)]]; try discriminate. inversion H0; subst M0. clear H0.
      apply mbind_inv in H. destruct H as [([tl tr] & M1 & H1 & H) | [(c'' & H1 & ->) | (s & H1 & ->)]].
      2:{ destruct (hemisphere_struct _ _ _ _ _ _ _ _ _ _ _ _ W C HL Et Ev HV ETA ETB H1) as [(x & E & _)|E]; discriminate. }
      2:{ destruct (hemisphere_struct _ _ _ _ _ _ _ _ _ _ _ _ W C HL Et Ev HV ETA ETB H1) as [(x & E & _)|E]; [discriminate | right; right; inversion E; reflexivity]. }
      destruct (hemisphere_struct _ _ _ _ _ _ _ _ _ _ _ _ W C HL Et Ev HV ETA ETB H1) as [(pbc1 & E1 & W1 & C1 & L1 & _)|E]; [|discriminate].
      inversion H; subst. left. split; [reflexivity | split; [exact W1 | split; [exact C1 | exact L1]]].
  Qed.

  (** ** (c) add_point: the Err that [refine] swallows does not come with a mutated mesh (classes 102 / 103 apart, which
      the structural hypotheses exclude) *)
  Lemma LNK_NeiLive (M : Mesh) (i : nat) (e : Edge) : WF M -> LNK M -> (forall t, nth_error (tris M) i = Some t -> tp_valid t = true) -> NeiLive M i e.
  Proof. intros W HL Hv t nei Et En. split; [exact (proj2 (W i t Et e nei En)) | exact (HL i t Et (Hv t Et) e nei En)]. Qed.
  Theorem aptt_err_atomic (i : nat) (p : V) (loc : PIT) (M M' : Mesh) (c : N) :
    WF M -> LNK M -> add_point_to_triangle i p loc M = (M', Err c) -> c <> 102%N -> c <> 103%N -> M' = M.
  Proof.
    intros W HL H N1 N2. unfold add_point_to_triangle in H.
    apply bind_get_inv in H. destruct H as [(t & Et & H) | (-> & _)]; [|reflexivity].
    destruct (tp_valid t) eqn:Ev; cbn [negb] in H; [|inversion H; reflexivity].
    assert (HN : forall e, NeiLive M i e) by (intros e; apply LNK_NeiLive; [exact W | exact HL | intros t' Et'; congruence]).
    destruct (pit_is_vertex loc); [inversion H|].
    destruct (pit_is_edge loc).
    - apply bind_lift_inv in H. destruct H as [(ed & _ & H) | (-> & _)]; [|reflexivity].
      apply mbind_inv in H. destruct H as [([] & M1 & H1 & H) | [(c' & H1 & E) | (s & H1 & E)]]; [inversion H | | discriminate].
      inversion E; subst c'. eapply split_edge_err_atomic; [apply HN | exact H1 | exact N1 | exact N2].
    - destruct loc; try (inversion H; reflexivity).
      apply mbind_inv in H. destruct H as [([] & M1 & H1 & H) | [(c' & H1 & E) | (s & H1 & E)]]; [inversion H | | discriminate].
      inversion E; subst c'. eapply split_triangle_err_atomic; [exact H1 | exact N1 | exact N2].
  Qed.
  Theorem add_point_err_atomic (p : V) (M M' : Mesh) (c : N) :
    WF M -> LNK M -> add_point p M = (M', Err c) -> c <> 102%N -> c <> 103%N -> M' = M.
  Proof.
    intros W HL H N1 N2. unfold add_point in H. destruct (find_container (tris M) 0 p) as [[i loc]|]; [|inversion H; reflexivity].
    eapply aptt_err_atomic; eassumption.
  Qed.

  (** ** restore_delaunay only flips: WF, CNT, LNK survive a run that returns Ok *)
  Definition Sound (M : Mesh) : Prop := WF M /\ CNT M /\ LNK M.
  Lemma flip_sound (i : nat) (e : Edge) (M M' : Mesh) : Sound M -> flip_diagonal i e M = (M', Ok tt) -> Sound M'.
  Proof.
    intros (W & C & L) H. destruct (flip_struct _ _ _ _ _ W C L H) as [(_ & A) | [-> | [E | E]]]; [exact A | split; [exact W | split; assumption] | discriminate | discriminate].
  Qed.
  Lemma split_edge_sound (i : nat) (e : Edge) (p : V) (M M' : Mesh) : Sound M -> split_edge i e p M = (M', Ok tt) -> Sound M'.
  Proof.
    intros (W & C & L) H. destruct (split_edge_struct _ _ _ _ _ _ W C L H) as [(_ & A) | [-> | E]]; [exact A | split; [exact W | split; assumption] | discriminate].
  Qed.
  Lemma rd_pass_sound (m : K) : forall cnt i l any M M' b, Sound M -> rd_pass m cnt i l any M = (M', Ok b) -> Sound M'.
  Proof.
    induction cnt as [|cnt IH]; intros i l any M M' b HS H; cbn [rd_pass] in H.
    - inversion H; subst. exact HS.
    - destruct l as [|t l']; [discriminate|].
      destruct (negb (tp_valid t)); [eapply IH; eassumption|].
      destruct (nltb (tp_ar t) m); [eapply IH; eassumption|].
      apply mbind_ok in H. destruct H as (bst & M1 & H1 & H). inversion H1; subst M1. clear H1.
      destruct (fst bst) as [best|]; [|eapply IH; eassumption].
      apply mbind_ok in H. destruct H as ([] & M1 & H1 & H). eapply IH; [eapply flip_sound; eassumption | exact H].
  Qed.
  Lemma rd_loops_sound (m : K) (n : nat) : forall loops M M', Sound M -> rd_loops m n loops M = (M', Ok tt) -> Sound M'.
  Proof.
    induction loops as [|k IH]; intros M M' HS H; cbn [rd_loops] in H.
    - inversion H; subst. exact HS.
    - apply mbind_ok in H. destruct H as (any & M1 & H1 & H). pose proof (rd_pass_sound _ _ _ _ _ _ _ _ HS H1) as HS1.
      destruct any; [eapply IH; eassumption | inversion H; subst; exact HS1].
  Qed.
  Theorem restore_sound (m : K) (M M' : Mesh) : Sound M -> restore_delaunay m M = (M', Ok tt) -> Sound M'.
  Proof. intros HS H. unfold restore_delaunay in H. eapply rd_loops_sound; eassumption. Qed.

  (** a checker for [LNK] (used on concrete meshes) *)
  Definition lnkb (M : Mesh) : bool :=
    forallb (fun t => negb (tp_valid t) ||
      forallb (fun e => match tp_neighbour t e with
                        | None => true
                        | Some k => match nth_error (tris M) k with Some u => tp_valid u | None => false end
                        end) [Ab; Bc; Ca]) (tris M).
  Lemma lnkb_sound (M : Mesh) : lnkb M = true -> LNK M.
  Proof.
    unfold lnkb. intros H j t Hj Hv e k Hk. rewrite forallb_forall in H. specialize (H t (nth_error_In _ _ Hj)).
    rewrite Hv in H. cbn [negb orb] in H. rewrite forallb_forall in H.
    assert (He : In e [Ab; Bc; Ca]) by (destruct e; cbn; auto). specialize (H e He). rewrite Hk in H.
    destruct (nth_error (tris M) k) as [u|] eqn:Eu; [|discriminate]. exists u. split; [exact Eu | exact H].
  Qed.

  (** ** progress: when the coordinate comparisons of mark_as_neighbours find the shared segments, split_triangle on a
      structurally sound mesh whose children are constructible returns Ok (used for non-vacuity on the real instance) *)
  Definition lvT (sk : list (Tri K * bool)) (j : nat) (T : Tri K) : Prop := nth_error sk j = Some (T, true).
  Lemma lvT_slot (M : Mesh) (j : nat) (T : Tri K) : lvT (skel (tris M)) j T -> exists t, nth_error (tris M) j = Some t /\ tp_valid t = true /\ tp_tri t = T.
  Proof.
    unfold lvT. rewrite skel_nth. destruct (nth_error (tris M) j) as [t|]; cbn [option_map]; [|discriminate]. intros H; inversion H. exists t. repeat split; assumption.
  Qed.
  Lemma slot_lvT (M : Mesh) (j : nat) (t : TP) : nth_error (tris M) j = Some t -> tp_valid t = true -> lvT (skel (tris M)) j (tp_tri t).
  Proof. intros H Hv. unfold lvT. rewrite skel_nth, H. cbn [option_map]. rewrite Hv. reflexivity. Qed.
  Definition shares (T1 : Tri K) (e1 : Edge) (T2 : Tri K) : Prop :=
    forall sg, tri_segment T1 (edge_as_i e1) = Ok sg -> tri_get_edge_index_from_segment T2 sg <> None.
  Lemma mark_ok_share (i1 : nat) (e1 : Edge) (i2 : nat) (T1 T2 : Tri K) (M M' : Mesh) (r : res unit) :
    lvT (skel (tris M)) i1 T1 -> lvT (skel (tris M)) i2 T2 -> i1 <> i2 -> shares T1 e1 T2 ->
    mark_as_neighbours i1 e1 i2 M = (M', r) -> r = Ok tt.
  Proof.
    intros L1 L2 Hne Hs H. destruct (lvT_slot _ _ _ L1) as (t1 & E1 & V1 & Q1). destruct (lvT_slot _ _ _ L2) as (t2 & E2 & V2 & Q2).
    unfold mark_as_neighbours in H. destruct (Nat.eqb_spec i1 i2) as [Heq|_]; [contradiction|].
    apply bind_get_inv in H. destruct H as [(t1' & E1' & H) | (_ & _ & E)]; [|congruence]. rewrite E1 in E1'. inversion E1'; subst t1'. clear E1'.
    rewrite V1 in H. cbn [negb] in H.
    assert (Es : exists sg, tri_segment (tp_tri t1) (edge_as_i e1) = Ok sg) by (destruct e1; eexists; reflexivity). destruct Es as (sg & Es).
    rewrite (bind_lift_Ok _ sg) in H by exact Es.
    apply bind_get_inv in H. destruct H as [(t2' & E2' & H) | (_ & _ & E)]; [|congruence]. rewrite E2 in E2'. inversion E2'; subst t2'. clear E2'.
    rewrite V2 in H. cbn [negb] in H.
    destruct (tri_get_edge_index_from_segment (tp_tri t2) sg) as [k|] eqn:Ek; [|exfalso; rewrite Q1 in Es; rewrite Q2 in Ek; exact (Hs sg Es Ek)].
    rewrite (bind_lift_Ok _ k) in H by reflexivity.
    destruct (edge_from_i_lt k (edge_index_lt _ _ _ Ek)) as (ed & Eed). rewrite (bind_lift_Ok _ ed) in H by exact Eed.
    assert (A1 : Nat.ltb i1 (length (tris M)) = true) by (apply Nat.ltb_lt; apply nth_error_Some; congruence).
    assert (A2 : Nat.ltb i2 (length (tris M)) = true) by (apply Nat.ltb_lt; apply nth_error_Some; congruence).
    unfold mbind, mupd in H. rewrite A1 in H. cbn [tris nvalid] in H. rewrite upd_length, A2 in H. inversion H; reflexivity.
  Qed.
  Section TailOkRules.
    Variable sk : list (Tri K * bool).
    Definition TailOk {A} (m : MR (K:=K) A) : Prop :=
      forall M M' r, skel (tris M) = sk -> m M = (M', r) -> skel (tris M') = sk /\ exists a, r = Ok a.
    Lemma tok_ret {A} (a : A) : TailOk (mret a).
    Proof. intros M M' r Hs H. inversion H; subst M' r. split; [exact Hs | eexists; reflexivity]. Qed.
    Lemma tok_bind {A B} (m : MR A) (f : A -> MR B) : TailOk m -> (forall a, TailOk (f a)) -> TailOk (mbind m f).
    Proof.
      intros Hm Hf M M' r Hs H. apply mbind_inv in H. destruct H as [(a & M1 & H1 & H2) | [(c & H1 & ->) | (s & H1 & ->)]].
      - destruct (Hm _ _ _ Hs H1) as (A1 & _). eapply Hf; eassumption.
      - destruct (Hm _ _ _ Hs H1) as (_ & a & E). discriminate.
      - destruct (Hm _ _ _ Hs H1) as (_ & a & E). discriminate.
    Qed.
    Lemma tok_mark (i1 : nat) (e1 : Edge) (i2 : nat) (T1 T2 : Tri K) :
      lvT sk i1 T1 -> lvT sk i2 T2 -> i1 <> i2 -> shares T1 e1 T2 -> TailOk (mark_as_neighbours i1 e1 i2).
    Proof.
      intros L1 L2 Hne Hs M M' r Hsk H. subst sk. split; [exact (sk_mark _ _ _ _ _ _ H)|]. exists tt. eapply mark_ok_share; [exact L1 | exact L2 | exact Hne | exact Hs | exact H].
    Qed.
    Lemma tok_constrain (site : N) (i : nat) (e : Edge) (T : Tri K) : lvT sk i T -> TailOk (mupd site i (tp_constrain e)).
    Proof.
      intros Hi M M' r Hs H. subst sk. split; [exact (sk_mupd site i (tp_constrain e) (constrain_tri e) (constrain_valid e) _ _ _ H)|].
      destruct (lvT_slot _ _ _ Hi) as (t & Et & _). assert (L : Nat.ltb i (length (tris M)) = true) by (apply Nat.ltb_lt; apply nth_error_Some; congruence).
      unfold mupd in H. rewrite L in H. inversion H. exists tt. reflexivity.
    Qed.
    Lemma tok_when (b : bool) (m : MR unit) : TailOk m -> TailOk (mwhen b m).
    Proof. intros H. destruct b; [exact H | apply tok_ret]. Qed.
  End TailOkRules.

  Lemma push_tri (a b c : V) (la : nat) (M M' : Mesh) (n : nat) :
    mesh_push a b c la M = (M', Ok n) ->
    (exists t, nth_error (tris M') n = Some t /\ tp_valid t = true /\ tri_new a b c = Ok (tp_tri t)) /\
    (forall j T, lvT (skel (tris M)) j T -> lvT (skel (tris M')) j T /\ j <> n).
  Proof.
    intros H. destruct (push_slot _ _ _ _ _ _ _ H) as (D & _ & _). split.
    - unfold mesh_push in H. destruct (get_first_invalid M la) as [k|] eqn:Eg.
      + destruct (tp_new a b c k) as [t| |] eqn:Et; inversion H; subst. apply get_first_invalid_spec in Eg. destruct Eg as (Hlt & _).
        exists t. cbn [tris]. rewrite nth_error_set_nth, Nat.eqb_refl. apply Nat.ltb_lt in Hlt. rewrite Hlt.
        split; [reflexivity | split; [eapply tp_new_valid; exact Et | eapply tp_new_tri; exact Et]].
      + destruct (tp_new a b c (length (tris M))) as [t| |] eqn:Et; inversion H; subst.
        exists t. cbn [tris]. rewrite nth_error_app2 by lia. rewrite Nat.sub_diag.
        split; [reflexivity | split; [eapply tp_new_valid; exact Et | eapply tp_new_tri; exact Et]].
    - intros j T L. destruct (lvT_slot _ _ _ L) as (u & Eu & Vu & Qu).
      assert (Hjn : j <> n) by (intros ->; apply D; exists u; split; assumption).
      destruct (keep_push n a b c la M M' _ H j u Hjn Eu Vu) as (u' & Eu' & Vu' & Qu'). split; [|exact Hjn].
      rewrite <- Qu, <- Qu'. apply slot_lvT; assumption.
  Qed.

  Theorem split_triangle_progress (i : nat) (p : V) (M : Mesh) (t : TP) (T1 T2 T3 : Tri K) (ea eb ec : Edge) :
    WF M -> CNT M -> LNK M -> nth_error (tris M) i = Some t -> tp_valid t = true ->
    edge_of_points_err (tp_tri t) (ta (tp_tri t)) (tb (tp_tri t)) = Ok ea ->
    edge_of_points_err (tp_tri t) (tb (tp_tri t)) (tc (tp_tri t)) = Ok eb ->
    edge_of_points_err (tp_tri t) (tc (tp_tri t)) (ta (tp_tri t)) = Ok ec ->
    tri_new (tc (tp_tri t)) (ta (tp_tri t)) p = Ok T1 -> tri_new (ta (tp_tri t)) (tb (tp_tri t)) p = Ok T2 -> tri_new (tb (tp_tri t)) (tc (tp_tri t)) p = Ok T3 ->
    shares T1 Bc T2 -> shares T2 Bc T3 -> shares T3 Bc T1 ->
    (forall n u, tp_neighbour t ec = Some n -> nth_error (tris M) n = Some u -> shares T1 Ab (tp_tri u)) ->
    (forall n u, tp_neighbour t ea = Some n -> nth_error (tris M) n = Some u -> shares T2 Ab (tp_tri u)) ->
    (forall n u, tp_neighbour t eb = Some n -> nth_error (tris M) n = Some u -> shares T3 Ab (tp_tri u)) ->
    exists M', split_triangle i p M = (M', Ok tt).
  Proof.
    intros W C HL Et Ev Ea Eb Ec ET1 ET2 ET3 S12 S23 S31 Sc Sa Sb.
    destruct (split_triangle i p M) as [M' r] eqn:H. exists M'. f_equal. unfold split_triangle in H.
    apply bind_get_inv in H. destruct H as [(t' & Et' & H) | (_ & _ & E)]; [|congruence]. rewrite Et in Et'. inversion Et'; subst t'. clear Et'.
    rewrite Ev in H. cbn [negb] in H.
    rewrite (bind_lift_Ok _ ea) in H by exact Ea. rewrite (bind_lift_Ok _ eb) in H by exact Eb. rewrite (bind_lift_Ok _ ec) in H by exact Ec.
    rewrite (bind_lift_Ok _ T1) in H by exact ET1. rewrite (bind_lift_Ok _ T2) in H by exact ET2. rewrite (bind_lift_Ok _ T3) in H by exact ET3.
    apply mbind_inv in H. destruct H as [([] & M1 & H1 & H) | [(c & H1 & ->) | (s & H1 & ->)]];
      [| destruct (cnt_invalidate_live i M M' _ (ex_intro _ t (conj Et Ev)) C H1) as (_ & G & _); discriminate ..].
    pose proof (keep_invalidate i _ _ _ H1) as KP1.
    apply mbind_inv in H. destruct H as [(cap & M2 & H2 & H) | [(c & H2 & ->) | (s & H2 & ->)]];
      [| destruct (push_checked _ _ _ _ _ _ _ _ ET1 H2); discriminate | destruct (push_checked _ _ _ _ _ _ _ _ ET1 H2); discriminate].
    destruct (push_tri _ _ _ _ _ _ _ H2) as ((u1 & Eu1 & Vu1 & Qu1) & KP2). rewrite ET1 in Qu1. inversion Qu1 as [Q1]. clear Qu1.
    pose proof (slot_lvT _ _ _ Eu1 Vu1) as Lc2. rewrite <- Q1 in Lc2.
    apply mbind_inv in H. destruct H as [(abp & M3 & H3 & H) | [(c & H3 & ->) | (s & H3 & ->)]];
      [| destruct (push_checked _ _ _ _ _ _ _ _ ET2 H3); discriminate | destruct (push_checked _ _ _ _ _ _ _ _ ET2 H3); discriminate].
    destruct (push_tri _ _ _ _ _ _ _ H3) as ((u2 & Eu2 & Vu2 & Qu2) & KP3). rewrite ET2 in Qu2. inversion Qu2 as [Q2]. clear Qu2.
    pose proof (slot_lvT _ _ _ Eu2 Vu2) as La3. rewrite <- Q2 in La3. destruct (KP3 _ _ Lc2) as [Lc3 N1].
    apply mbind_inv in H. destruct H as [(bcp & M4 & H4 & H) | [(c & H4 & ->) | (s & H4 & ->)]];
      [| destruct (push_checked _ _ _ _ _ _ _ _ ET3 H4); discriminate | destruct (push_checked _ _ _ _ _ _ _ _ ET3 H4); discriminate].
    destruct (push_tri _ _ _ _ _ _ _ H4) as ((u3 & Eu3 & Vu3 & Qu3) & KP4). rewrite ET3 in Qu3. inversion Qu3 as [Q3]. clear Qu3.
    pose proof (slot_lvT _ _ _ Eu3 Vu3) as Lb4. rewrite <- Q3 in Lb4. destruct (KP4 _ _ Lc3) as [Lc4 N2]. destruct (KP4 _ _ La3) as [La4 N3].
    assert (Hnb : forall e n, tp_neighbour t e = Some n -> exists u, nth_error (tris M) n = Some u /\ lvT (skel (tris M4)) n (tp_tri u) /\ n <> cap /\ n <> abp /\ n <> bcp).
    { intros e n En. destruct (W i t Et e n En) as [_ Hni]. destruct (HL i t Et Ev e n En) as (u & Eu & Vu). exists u. split; [exact Eu|].
      destruct (KP1 n u Hni Eu Vu) as (v1 & Ev1 & Vv1 & Qv1). pose proof (slot_lvT _ _ _ Ev1 Vv1) as L1. rewrite Qv1 in L1.
      destruct (KP2 _ _ L1) as [L2 A1]. destruct (KP3 _ _ L2) as [L3 A2]. destruct (KP4 _ _ L3) as [L4 A3]. repeat split; assumption. }
    revert H.
    destruct (tp_neighbour t ea) as [na|] eqn:Ena; [destruct (Hnb _ _ Ena) as (ua & Eua & Lua & ? & ? & ?); pose proof (Sa na ua eq_refl Eua)|];
    (destruct (tp_neighbour t eb) as [nb|] eqn:Enb; [destruct (Hnb _ _ Enb) as (ub & Eub & Lub & ? & ? & ?); pose proof (Sb nb ub eq_refl Eub)|]);
    (destruct (tp_neighbour t ec) as [nc|] eqn:Enc; [destruct (Hnb _ _ Enc) as (uc & Euc & Luc & ? & ? & ?); pose proof (Sc nc uc eq_refl Euc)|]).
    all: match goal with |- ?f ?M0 = _ -> _ => assert (G : TailOk (skel (tris M0)) f) by
      (repeat first [ apply tok_bind; [|intros ?] | apply tok_ret | apply tok_when
                    | eapply tok_constrain; eassumption
                    | eapply tok_mark; [eassumption | eassumption | congruence | assumption] ]) end.
    all: intros HH; destruct (G M4 M' r eq_refl HH) as (_ & [] & ->); reflexivity.
  Qed.
End Atomic.
