(** * Bridge_C15: the float-tier theorem of C15 (Proofs/C15_float.v), transferred to the primitive-float run.
    [bbox_by], [mul4x4point], [bbox_point_inside] on [NumF] (what Run/C15.v executes against the f64 build) are the
    [P2B]-preimages of their runs on [NumB64] (Proofs/Bridge_model.v); the evaluable hypothesis [tr_ok_b] commutes with
    [P2B] as well, so the binary64 instance of [bbox_by_contains_image_float_b] reads on primitive floats word for word.
    Also here, by evaluation on primitive floats: a non-vacuity witness built from the model's constructors, the
    necessity of each of the eight corners, and what happens outside the hypothesis (a NaN corner image). *)
From Coq Require Import ZArith Reals Bool Floats List Lia.
From Flocq Require Import Core BinarySingleNaN.
From G3 Require Import Model.Num Model.NumF Model.Base Model.Vec Model.BBox Model.Transform Model.Bounds.
From G3 Require Import Theory.PrimBridge Proofs.Bridge_model Proofs.C15_float.
From G3 Require Proofs.C16_errbound.
Import ListNotations.

Notation prim := Coq.Floats.PrimFloat.float (only parsing).

(** ** the definitions of Proofs/C15_float.v commute with a [Num] homomorphism *)
Section Hom.
  Context {K1 K2 : Type} {N1 : Num K1} {N2 : Num K2} (h : K1 -> K2) {H : NumHom N1 N2 h}.
  Notation mV := (mapV3 h).
  Notation mB := (mapBBox h).
  Notation mM := (mapM4 h).
  Notation mT := (mapTr h).
  Lemma hom_v_nan_free (v : V3 K1) : v_nan_free (mV v) = v_nan_free v.
  Proof. unfold v_nan_free. hom_norm. hom_pull h. reflexivity. Qed.
  Lemma hom_corner (b : BBox K1) (i j k : bool) : corner (mB b) i j k = mV (corner b i j k).
  Proof. destruct i, j, k; reflexivity. Qed.
  Lemma hom_bbox_by_nan_free (m : M4 K1) (b : BBox K1) : bbox_by_nan_free (mM m) (mB b) = bbox_by_nan_free m b.
  Proof.
    unfold bbox_by_nan_free, corners8. cbn [forallb]. rewrite !hom_corner, !(hom_mul4x4point h), !hom_v_nan_free. reflexivity.
  Qed.
  Lemma hom_fin_b (x : K1) : fin_b (h x) = fin_b x.
  Proof. unfold fin_b. hom_pull h. reflexivity. Qed.
  Lemma hom_fin3_b (v : V3 K1) : fin3_b (mV v) = fin3_b v.
  Proof. unfold fin3_b. hom_norm. rewrite !hom_fin_b. reflexivity. Qed.
  Lemma hom_rows012_b (m : M4 K1) : rows012_b (mM m) = rows012_b m.
  Proof. unfold rows012_b. hom_norm. rewrite !hom_fin_b. reflexivity. Qed.
  Lemma hom_affine_last_b (m : M4 K1) : affine_last_b (mM m) = affine_last_b m.
  Proof. unfold affine_last_b. hom_norm. hom_pull h. reflexivity. Qed.
  Lemma hom_tr_ok_b (m : M4 K1) (b : BBox K1) : tr_ok_b (mM m) (mB b) = tr_ok_b m b.
  Proof.
    unfold tr_ok_b. rewrite hom_rows012_b, hom_affine_last_b, hom_bbox_by_nan_free.
    change (bmin (mB b)) with (mV (bmin b)). change (bmax (mB b)) with (mV (bmax b)). rewrite !hom_fin3_b. reflexivity.
  Qed.
  Lemma hom_world_bounds (t : option (Tr K1)) (lb : BBox K1) : world_bounds (mapOpt mT t) (mB lb) = mB (world_bounds t lb).
  Proof. destruct t as [t|]; cbn [mapOpt world_bounds]; [apply (hom_tr_bbox h) | reflexivity]. Qed.
  Lemma hom_place_pt (t : option (Tr K1)) (p : V3 K1) : place_pt (mapOpt mT t) (mV p) = mV (place_pt t p).
  Proof. destruct t as [t|]; cbn [mapOpt place_pt]; [apply (hom_tr_pt h) | reflexivity]. Qed.
End Hom.

(** ** the theorem on primitive floats *)
Theorem prim_bbox_by_contains_image (m : M4 prim) (b : BBox prim) (p : V3 prim) :
  @tr_ok_b _ NumF m b = true -> @bbox_point_inside _ NumF b p = true ->
  @bbox_point_inside _ NumF (@bbox_by _ NumF m b) (@mul4x4point _ NumF m p) = true.
Proof.
  intros Hok Hin.
  rewrite <- (hom_tr_ok_b P2B) in Hok. rewrite <- (hom_bbox_point_inside P2B) in Hin.
  rewrite <- (hom_bbox_point_inside P2B), <- (hom_bbox_by P2B), <- (hom_mul4x4point P2B).
  exact (bbox_by_contains_image_float_b 53 1024 Hprec53 Hmax1024 (pM m) (pB b) (pV p) Hok Hin).
Qed.
Theorem prim_tr_bbox_contains (t : Tr prim) (b : BBox prim) (p : V3 prim) : @bbox_point_inside _ NumF b p = true ->
  (@tr_ok_b _ NumF (elements t) b = true -> @bbox_point_inside _ NumF (@tr_bbox _ NumF t b) (@tr_pt _ NumF t p) = true) /\
  (@tr_ok_b _ NumF (inv_elements t) b = true -> @bbox_point_inside _ NumF (@tr_inv_bbox _ NumF t b) (@tr_inv_pt _ NumF t p) = true).
Proof. intros Hin. split; intros Hok; apply prim_bbox_by_contains_image; assumption. Qed.
Theorem prim_world_bounds_contain (t : option (Tr prim)) (lb : BBox prim) (p : V3 prim) :
  match t with Some t => @tr_ok_b _ NumF (elements t) lb = true | None => True end ->
  @bbox_point_inside _ NumF lb p = true -> @bbox_point_inside _ NumF (@world_bounds _ NumF t lb) (@place_pt _ NumF t p) = true.
Proof.
  destruct t as [t|]; cbn [world_bounds place_pt]; intros Hok Hin; [|exact Hin]. apply prim_bbox_by_contains_image; assumption.
Qed.

(** ** non-vacuity: [translate(1,2,3) . rotate_z(30) . scale(2,-1,1/2)] from the model's constructors, the box
    [-1,2] x [0,3] x [-2,5] and an interior point; and its stored inverse *)
Local Open Scope float_scope.
Definition wT : Tr prim :=
  @tr_mul_assign _ NumF (@tr_mul_assign _ NumF (@tr_translate _ NumF 1 2 3) (@tr_rotate_z _ NumF 30)) (@tr_scale _ NumF 2 (-1) 0.5).
Definition wB : BBox prim := @bbox_new _ NumF (mkV3 2 3 (-2)) (mkV3 (-1) 0 5).
Definition wP : V3 prim := mkV3 0.25 2.875 0.125.
Lemma prim_nonvacuous :
  @tr_ok_b _ NumF (elements wT) wB = true /\ @tr_ok_b _ NumF (inv_elements wT) wB = true /\ @bbox_point_inside _ NumF wB wP = true.
Proof. repeat split; vm_compute; reflexivity. Qed.

(** ** all eight corners are needed in floats too: forgetting the [k]-th corner loses a point of the box *)
Definition sgn_rowF (sx sy sz : prim) : M4 prim := mkM4 sx sy sz 0  0 1 0 0  0 0 1 0  0 0 0 1.
Definition unitF : BBox prim := mkBBox (mkV3 0 0 0) (mkV3 1 1 1).
Definition needF (k : nat) : M4 prim * V3 prim :=
  match k with
  | 0%nat => (sgn_rowF (-1) (-1) (-1), mkV3 0 0 0) | 1%nat => (sgn_rowF 1 (-1) (-1), mkV3 1 0 0)
  | 2%nat => (sgn_rowF (-1) 1 (-1), mkV3 0 1 0)    | 3%nat => (sgn_rowF (-1) (-1) 1, mkV3 0 0 1)
  | 4%nat => (sgn_rowF (-1) 1 1, mkV3 0 1 1)       | 5%nat => (sgn_rowF 1 1 (-1), mkV3 1 1 0)
  | 6%nat => (sgn_rowF 1 (-1) 1, mkV3 1 0 1)       | _ => (sgn_rowF 1 1 1, mkV3 1 1 1)
  end.
Lemma prim_every_corner_is_needed : forall k, (k < 8)%nat ->
  exists (m : M4 prim) (b : BBox prim) (p : V3 prim),
    @tr_ok_b _ NumF m b = true /\ @bbox_point_inside _ NumF b p = true /\
    @bbox_point_inside _ NumF (@bbox_by _ NumF m b) (@mul4x4point _ NumF m p) = true /\
    @bbox_point_inside _ NumF (@bbox_by_forgetting _ NumF k m b) (@mul4x4point _ NumF m p) = false.
Proof.
  intros k Hk. exists (fst (needF k)), unitF, (snd (needF k)).
  destruct k as [|[|[|[|[|[|[|[|k]]]]]]]]; [..|exfalso; lia]; repeat split; vm_compute; reflexivity.
Qed.

(** ** outside the hypothesis: a corner image that is NaN (possible only through an overflow, [inf - inf]).
    [from_union_point] keeps the new coordinate whenever [old > new] is false, so a NaN replaces the running maximum and
    the next corner replaces the NaN: the maxima seen before are forgotten.  Matrix with finite entries, box and point
    finite, the computed box has NO NaN coordinate, yet the (finite) computed image of the point is outside it. *)
Definition ovM : M4 prim := mkM4 (-0x1p+1023) (-0x1p+1023) 0 0  0 1 0 0  0 0 1 0  0 0 0 1.
Definition ovB : BBox prim := mkBBox (mkV3 0 (-4) 0) (mkV3 4 1 1).
Definition ovP : V3 prim := mkV3 1 0 0.5.
Lemma prim_nan_corner_forgets_maximum :
  @rows012_b _ NumF ovM = true /\ @affine_last_b _ NumF ovM = true /\
  @fin3_b _ NumF (bmin ovB) = true /\ @fin3_b _ NumF (bmax ovB) = true /\
  @bbox_point_inside _ NumF ovB ovP = true /\
  @bbox_by_nan_free _ NumF ovM ovB = false /\
  @v_nan_free _ NumF (bmin (@bbox_by _ NumF ovM ovB)) = true /\ @v_nan_free _ NumF (bmax (@bbox_by _ NumF ovM ovB)) = true /\
  @fin3_b _ NumF (@mul4x4point _ NumF ovM ovP) = true /\
  @bbox_point_inside _ NumF (@bbox_by _ NumF ovM ovB) (@mul4x4point _ NumF ovM ovP) = false.
Proof. repeat split; vm_compute; reflexivity. Qed.
