(** * C16 (float tier): the error bounds returned by the [*_with_error] / [*_propagate_error]
    functions of transform.rs, over every Flocq binary format with at least 8 bits of precision.
    Statements are in Properties/C16.v.
    The code as it is now: points report gamma(4) * [mul4x4_abs] (four roundings, the translation entry is added by the
    evaluation), vectors gamma(3) * [mul3x3_abs] (three roundings, no translation entry: [rabs4 a b c 0] below), the
    incoming error of the [*_propagate_error] functions goes through [mul3x3_abs] * (1 + gamma(3)).
    The former texts are in Model/Pinned.v and are refuted at the end of this file. *)
From Coq Require Import ZArith Reals Bool Lra Lia Psatz.
From Flocq Require Import Core BinarySingleNaN Relative Plus_error.
From G3 Require Import Model.Num Model.Base Model.Vec Model.Transform Model.Pinned Proofs.C07_interval.
Local Open Scope R_scope.

(** ** Pure real-number cores *)
Lemma poly3 u : 0 <= u -> (3 + 3*u + u*u) * ((1+u)*(1+u)) * (1 - 3*u) <= 3.
Proof. intros. nra. Qed.
(** points, with gamma(4) = 4u/(1-4u): four roundings per row *)
Lemma poly4_gamma4 u : 0 <= u <= /256 -> (4 + 6*u + 4*u*u + u*u*u) * ((1+u)*(1+u)) * (1 - 4*u) <= 4.
Proof. intros. nra. Qed.

(** [E] dominates [Q*S2] whenever [Q (1+u)^2 (1-3u) <= 3u] *)
Lemma core_tail (u g S2 S3 E Q : R) :
  0 < u <= /256 -> 0 <= S2 -> S2 <= S3 -> 0 <= Q ->
  S3 * g <= (1+u) * E -> 3*u <= g*((1+u)*(1-3*u)) ->
  Q * ((1+u)*(1+u)*(1-3*u)) <= 3*u ->
  Q * S2 <= E.
Proof.
  intros Hu HS2 H3 HQ H4 H5 HP.
  assert (Hk : 0 < (1+u)*(1-3*u)) by nra.
  set (k := (1+u)*(1-3*u)) in *.
  assert (Hg : 0 <= g) by (apply Rmult_le_reg_r with (1 := Hk); lra).
  assert (K4 : S2 * g <= (1+u)*E).
  { apply Rle_trans with (S3*g); [apply Rmult_le_compat_r; lra | lra]. }
  assert (K5 : S2 * (3*u) <= (1+u)*E*k).
  { apply Rle_trans with (S2*(g*k)). apply Rmult_le_compat_l; lra.
    replace (S2*(g*k)) with ((S2*g)*k) by ring. apply Rmult_le_compat_r; lra. }
  assert (K7 : 0 < (1+u)*k) by (apply Rmult_lt_0_compat; lra).
  apply Rmult_le_reg_r with (1 := K7).
  apply Rle_trans with (S2 * (3*u)).
  - replace (Q * S2 * ((1+u)*k)) with (S2 * (Q * ((1+u)*(1+u)*(1-3*u)))) by (unfold k; ring).
    apply Rmult_le_compat_l; lra.
  - replace (E*((1+u)*k)) with ((1+u)*E*k) by ring. exact K5.
Qed.

(** [E] dominates [Q*S2] whenever [Q (1+u)^2 (1-4u) <= 4u] *)
Lemma core_tail4 (u g S2 S3 E Q : R) :
  0 < u <= /256 -> 0 <= S2 -> S2 <= S3 -> 0 <= Q ->
  S3 * g <= (1+u) * E -> 4*u <= g*((1+u)*(1-4*u)) ->
  Q * ((1+u)*(1+u)*(1-4*u)) <= 4*u ->
  Q * S2 <= E.
Proof.
  intros Hu HS2 H3 HQ H4 H5 HP.
  assert (Hk : 0 < (1+u)*(1-4*u)) by nra.
  set (k := (1+u)*(1-4*u)) in *.
  assert (Hg : 0 <= g) by (apply Rmult_le_reg_r with (1 := Hk); lra).
  assert (K4 : S2 * g <= (1+u)*E).
  { apply Rle_trans with (S3*g); [apply Rmult_le_compat_r; lra | lra]. }
  assert (K5 : S2 * (4*u) <= (1+u)*E*k).
  { apply Rle_trans with (S2*(g*k)). apply Rmult_le_compat_l; lra.
    replace (S2*(g*k)) with ((S2*g)*k) by ring. apply Rmult_le_compat_r; lra. }
  assert (K7 : 0 < (1+u)*k) by (apply Rmult_lt_0_compat; lra).
  apply Rmult_le_reg_r with (1 := K7).
  apply Rle_trans with (S2 * (4*u)).
  - replace (Q * S2 * ((1+u)*k)) with (S2 * (Q * ((1+u)*(1+u)*(1-4*u)))) by (unfold k; ring).
    apply Rmult_le_compat_l; lra.
  - replace (E*((1+u)*k)) with ((1+u)*E*k) by ring. exact K5.
Qed.

(** vectors: [((a + b) + c)], three roundings on [a], [b] *)
Lemma core_vec (u g A B C S1 S2 S3 E : R) :
  0 < u <= /256 -> 0 <= A -> 0 <= B -> 0 <= C -> 0 <= S1 -> 0 <= S2 ->
  A + B <= (1+u)*S1 -> S1 + C <= (1+u)*S2 -> S2 <= S3 ->
  S3 * g <= (1+u) * E -> 3*u <= g*((1+u)*(1-3*u)) ->
  u*(S2 + S1 + A + B + C) <= E.
Proof.
  intros Hu HA HB HC HS1 HS2 H1 H2 H3 H4 H5.
  assert (K1 : S1 <= (1+u)*S2) by lra.
  assert (K2a : 0 <= u * C) by (apply Rmult_le_pos; lra).
  assert (K2b : (1+u)*(S1 + C) <= (1+u)*((1+u)*S2)) by (apply Rmult_le_compat_l; lra).
  assert (K2 : A + B + C <= (1+u)*((1+u)*S2)) by lra.
  assert (K3a : S2 + S1 + A + B + C <= (3 + 3*u + u*u)*S2) by lra.
  apply Rle_trans with (u*((3 + 3*u + u*u)*S2)). apply Rmult_le_compat_l; lra.
  replace (u*((3 + 3*u + u*u)*S2)) with ((u*(3 + 3*u + u*u))*S2) by ring.
  apply core_tail with (u := u) (g := g) (S3 := S3); try assumption. nra.
  pose proof (poly3 u ltac:(lra)) as P.
  replace (u * (3 + 3 * u + u * u) * ((1 + u) * (1 + u) * (1 - 3 * u))) with (u * ((3 + 3*u + u*u) * ((1+u)*(1+u)) * (1 - 3*u))) by ring.
  replace (3*u) with (u*3) by ring. apply Rmult_le_compat_l; lra.
Qed.

(** points: one more rounding, [((a + b) + c) + t]: four roundings on [a], [b], covered by gamma(4) *)
Lemma core_pt4 (u g A B C T S1 S2 S3 E : R) :
  0 < u <= /256 -> 0 <= A -> 0 <= B -> 0 <= C -> 0 <= T -> 0 <= S1 -> 0 <= S2 -> 0 <= S3 ->
  A + B <= (1+u)*S1 -> S1 + C <= (1+u)*S2 -> S2 + T <= (1+u)*S3 ->
  S3 * g <= (1+u) * E -> 4*u <= g*((1+u)*(1-4*u)) ->
  u*(S3 + S2 + S1 + A + B + C) <= E.
Proof.
  intros Hu HA HB HC HT HS1 HS2 HS3 H1 H2 H3 H4 H5.
  assert (K0 : S2 <= (1+u)*S3) by lra.
  assert (K1 : S1 <= (1+u)*S2) by lra.
  assert (K1b : (1+u)*S2 <= (1+u)*((1+u)*S3)) by (apply Rmult_le_compat_l; lra).
  assert (K2a : 0 <= u * C) by (apply Rmult_le_pos; lra).
  assert (K2b : (1+u)*(S1 + C) <= (1+u)*((1+u)*S2)) by (apply Rmult_le_compat_l; lra).
  assert (K2c : (1+u)*((1+u)*S2) <= (1+u)*((1+u)*((1+u)*S3))) by (apply Rmult_le_compat_l; lra).
  assert (K3a : S3 + S2 + S1 + A + B + C <= (4 + 6*u + 4*u*u + u*u*u)*S3) by lra.
  apply Rle_trans with (u*((4 + 6*u + 4*u*u + u*u*u)*S3)). apply Rmult_le_compat_l; lra.
  replace (u*((4 + 6*u + 4*u*u + u*u*u)*S3)) with ((u*(4 + 6*u + 4*u*u + u*u*u))*S3) by ring.
  apply core_tail4 with (u := u) (g := g) (S3 := S3); try assumption; try lra. nra.
  pose proof (poly4_gamma4 u ltac:(lra)) as P.
  replace (u * (4 + 6 * u + 4 * u * u + u * u * u) * ((1 + u) * (1 + u) * (1 - 4 * u)))
    with (u * ((4 + 6*u + 4*u*u + u*u*u) * ((1+u)*(1+u)) * (1 - 4*u))) by ring.
  replace (4*u) with (u*4) by ring. apply Rmult_le_compat_l; lra.
Qed.

(** the propagated input error: [D] is the exact first-order spread, [err1] what the code adds for it *)
Lemma mul_chain (k x y : R) : 0 <= k -> x <= y -> k * x <= k * y.
Proof. intros. apply Rmult_le_compat_l; assumption. Qed.

Lemma core_D (u g G X Y Z P1 P2 P3 D err1 : R) :
  0 < u <= /256 -> 0 <= X -> 0 <= Y -> 0 <= Z -> 0 <= P1 -> 0 <= P2 -> 0 <= P3 -> 0 <= G ->
  D <= (1+u)*(X+Y+Z) -> X + Y <= (1+u)*P1 -> P1 + Z <= (1+u)*P2 -> P2 <= P3 ->
  1 + 4*u <= (1+g)*(1+u) -> 1 + g <= (1+u)*G -> P3*G <= (1+u)*err1 ->
  D * (1+4*u) <= (1+u)^6 * err1.
Proof.
  intros Hu HX HY HZ H1 H2 H3 HG d1 d2 d3 d4 g1 g2 e1.
  assert (K0 : 0 <= u * Z) by (apply Rmult_le_pos; lra).
  assert (K1 : X + Y + Z <= (1+u)*((1+u)*P2)).
  { apply Rle_trans with ((1+u)*(P1+Z)). lra. apply mul_chain; lra. }
  assert (K2 : D <= (1+u)*((1+u)*((1+u)*P3))).
  { apply Rle_trans with (1 := d1). apply mul_chain. lra. apply Rle_trans with (1 := K1).
    apply mul_chain. lra. apply mul_chain; lra. }
  assert (K3 : (1+4*u)*P3 <= (1+u)*((1+u)*((1+u)*err1))).
  { apply Rle_trans with ((1+g)*(1+u)*P3). apply Rmult_le_compat_r; lra.
    apply Rle_trans with ((1+u)*G*(1+u)*P3).
    apply Rmult_le_compat_r. lra. apply Rmult_le_compat_r; lra.
    replace ((1+u)*G*(1+u)*P3) with ((1+u)*((1+u)*(P3*G))) by ring.
    apply mul_chain. lra. apply mul_chain; lra. }
  assert (Hp : 0 <= (1+u)*((1+u)*((1+u)*P3))) by (repeat apply Rmult_le_pos; lra).
  apply Rle_trans with ((1+u)*((1+u)*((1+u)*P3)) * (1+4*u)).
  apply Rmult_le_compat_r; lra.
  replace ((1+u)*((1+u)*((1+u)*P3)) * (1+4*u)) with ((1+u)*((1+u)*((1+u)*((1+4*u)*P3)))) by ring.
  replace ((1+u)^6 * err1) with ((1+u)*((1+u)*((1+u)*((1+u)*((1+u)*((1+u)*err1)))))) by ring.
  repeat (apply mul_chain; [lra|]). exact K3.
Qed.

Lemma poly7 u : 0 <= u <= /256 -> (1+u)^7 <= (1+4*u)*(1+4*u).
Proof. intros. nra. Qed.
Lemma poly8 u : 0 <= u <= /256 -> (1+u)^8 <= 1 + 9*u.
Proof. intros. nra. Qed.

Lemma core_vec_box (u D' D act E err1 err : R) :
  0 < u <= /256 -> 0 <= err1 -> 0 <= E -> D' <= D -> act <= E ->
  D * (1+4*u) <= (1+u)^6 * err1 -> err1 + E <= (1+u)*err ->
  D' + act <= (1+4*u) * err.
Proof.
  intros Hu H1 HE HD Ha d1 e1.
  pose proof (poly7 u ltac:(lra)) as P.
  assert (Hk : 0 < (1+u)*(1+4*u)) by nra.
  apply Rmult_le_reg_r with (1 := Hk).
  apply Rle_trans with ((1+4*u)*((1+4*u)*(err1+E))).
  - assert (A1 : D*(1+4*u)*(1+u) <= (1+4*u)*(1+4*u)*err1).
    { apply Rle_trans with ((1+u)^6*err1*(1+u)). apply Rmult_le_compat_r; lra.
      replace ((1+u)^6*err1*(1+u)) with ((1+u)^7*err1) by ring. apply Rmult_le_compat_r; lra. }
    assert (A2 : act*((1+u)*(1+4*u)) <= (1+4*u)*(1+4*u)*E).
    { apply Rle_trans with (E*((1+u)*(1+4*u))). apply Rmult_le_compat_r; lra.
      replace ((1+4*u)*(1+4*u)*E) with (E*((1+4*u)*(1+4*u))) by ring. apply mul_chain. lra.
      apply Rmult_le_compat_r; lra. }
    assert (A3 : D'*((1+u)*(1+4*u)) <= D*((1+u)*(1+4*u))) by (apply Rmult_le_compat_r; lra).
    lra.
  - replace ((1+4*u)*err*((1+u)*(1+4*u))) with ((1+4*u)*((1+4*u)*((1+u)*err))) by ring.
    apply mul_chain. lra. apply mul_chain; lra.
Qed.

(** upper bounds, for (M) *)
Lemma core_M (u g gm S3 Sg E : R) :
  0 < u <= /256 -> 0 <= Sg -> 0 <= S3 -> 0 <= gm -> 0 <= g ->
  S3 <= (1+u)*((1+u)*((1+u)*((1+u)*Sg))) -> E <= (1+u)*(S3*g) -> g <= (1+u)*gm ->
  E <= (1+u)^6 * (gm * Sg).
Proof.
  intros Hu HS H3 Hgm Hg s1 e1 g1.
  apply Rle_trans with (1 := e1).
  replace ((1+u)^6*(gm*Sg)) with ((1+u)*(((1+u)*((1+u)*((1+u)*((1+u)*Sg))))*((1+u)*gm))) by ring.
  apply mul_chain. lra. apply Rmult_le_compat; lra.
Qed.
Lemma core_M1 (u g gm G P3 Pi err1 : R) :
  0 < u <= /256 -> 0 <= Pi -> 0 <= P3 -> 0 <= gm -> 0 <= g -> 0 <= G ->
  P3 <= (1+u)*((1+u)*((1+u)*((1+u)*Pi))) -> err1 <= (1+u)*(P3*G) -> G <= (1+u)*(1+g) -> g <= (1+u)*gm ->
  err1 <= (1+u)^7 * ((1+gm) * Pi).
Proof.
  intros Hu HS H3 Hgm Hg HG s1 e1 G1 g1.
  apply Rle_trans with (1 := e1).
  assert (G2 : G <= (1+u)*((1+u)*(1+gm))).
  { apply Rle_trans with (1 := G1). apply mul_chain. lra. assert (0 <= u*1) by lra. nra. }
  replace ((1+u)^7*((1+gm)*Pi)) with ((1+u)*(((1+u)*((1+u)*((1+u)*((1+u)*Pi))))*((1+u)*((1+u)*(1+gm))))) by ring.
  apply mul_chain. lra. apply Rmult_le_compat; lra.
Qed.
Lemma core_M2 (u gm1 gm2 Pi Sg err1 E err : R) :
  0 < u <= /256 -> 0 <= Pi -> 0 <= Sg -> 0 <= gm1 -> 0 <= gm2 ->
  err1 <= (1+u)^7 * ((1+gm1) * Pi) -> E <= (1+u)^6 * (gm2 * Sg) -> err <= (1+u)*(err1 + E) ->
  err <= (1 + 9*u) * ((1+gm1)*Pi + gm2*Sg).
Proof.
  intros Hu HP HS Hg1 Hg2 e1 e2 e3.
  pose proof (poly8 u ltac:(lra)) as P.
  assert (Q1 : 0 <= (1+gm1)*Pi) by (apply Rmult_le_pos; lra).
  assert (Q2 : 0 <= gm2*Sg) by (apply Rmult_le_pos; lra).
  apply Rle_trans with (1 := e3).
  apply Rle_trans with ((1+u)^8*((1+gm1)*Pi + gm2*Sg)).
  - assert (B1 : (1+u)*err1 <= (1+u)^8*((1+gm1)*Pi)).
    { replace ((1+u)^8*((1+gm1)*Pi)) with ((1+u)*((1+u)^7*((1+gm1)*Pi))) by ring. apply mul_chain; lra. }
    assert (B2 : (1+u)*E <= (1+u)^8*(gm2*Sg)).
    { apply Rle_trans with ((1+u)*((1+u)^6*(gm2*Sg))). apply mul_chain; lra.
      replace ((1+u)^8*(gm2*Sg)) with ((1+u)*((1+u)*((1+u)^6*(gm2*Sg)))) by ring.
      apply mul_chain. lra.
      assert (0 <= (1+u)^6*(gm2*Sg)). { apply Rmult_le_pos. apply pow_le. lra. lra. } nra. }
    lra.
  - apply Rmult_le_compat_r; lra.
Qed.

Lemma abs5 x1 x2 x3 x4 x5 e1 e2 e3 e4 e5 :
  Rabs x1 <= e1 -> Rabs x2 <= e2 -> Rabs x3 <= e3 -> Rabs x4 <= e4 -> Rabs x5 <= e5 ->
  Rabs (x1 + x2 + x3 + x4 + x5) <= e1 + e2 + e3 + e4 + e5.
Proof.
  intros. pose proof (Rabs_triang (x1 + x2 + x3 + x4) x5). pose proof (Rabs_triang (x1 + x2 + x3) x4).
  pose proof (Rabs_triang (x1 + x2) x3). pose proof (Rabs_triang x1 x2). lra.
Qed.


(** ** Vocabulary of the statements (real side) *)
Definition img_vec (m : M4 R) (p : V3 R) : V3 R :=
  mkV3 (m00 m * vx p + m01 m * vy p + m02 m * vz p) (m10 m * vx p + m11 m * vy p + m12 m * vz p) (m20 m * vx p + m21 m * vy p + m22 m * vz p).
Definition img_pt (m : M4 R) (p : V3 R) : V3 R :=
  mkV3 (m00 m * vx p + m01 m * vy p + m02 m * vz p + m03 m) (m10 m * vx p + m11 m * vy p + m12 m * vz p + m13 m)
       (m20 m * vx p + m21 m * vy p + m22 m * vz p + m23 m).
(** sum_j |m_ij p_j|  and  |m_i3| *)
Definition abs_img (m : M4 R) (p : V3 R) : V3 R :=
  mkV3 (Rabs (m00 m * vx p) + Rabs (m01 m * vy p) + Rabs (m02 m * vz p)) (Rabs (m10 m * vx p) + Rabs (m11 m * vy p) + Rabs (m12 m * vz p))
       (Rabs (m20 m * vx p) + Rabs (m21 m * vy p) + Rabs (m22 m * vz p)).
Definition abs_trans (m : M4 R) : V3 R := mkV3 (Rabs (m03 m)) (Rabs (m13 m)) (Rabs (m23 m)).
(** [ret] is within [K * err] of [img], component by component *)
Definition within (K : R) (ret img err : V3 R) : Prop :=
  Rabs (vx ret - vx img) <= K * vx err /\ Rabs (vy ret - vy img) <= K * vy err /\ Rabs (vz ret - vz img) <= K * vz err.
(** [x] lies in the box of half-widths [e] around [c] *)
Definition inbox (c e x : V3 R) : Prop :=
  Rabs (vx x - vx c) <= vx e /\ Rabs (vy x - vy c) <= vy e /\ Rabs (vz x - vz c) <= vz e.
Definition vle (a b : V3 R) : Prop := vx a <= vx b /\ vy a <= vy b /\ vz a <= vz b.
(** [k1 * a + k2 * b], component by component *)
Definition lin2 (k1 : R) (a : V3 R) (k2 : R) (b : V3 R) : V3 R :=
  mkV3 (k1 * vx a + k2 * vx b) (k1 * vy a + k2 * vy b) (k1 * vz a + k2 * vz b).
Definition vaddR (a b : V3 R) : V3 R := mkV3 (vx a + vx b) (vy a + vy b) (vz a + vz b).
Definition vscaleR (k : R) (a : V3 R) : V3 R := mkV3 (k * vx a) (k * vy a) (k * vz a).
Definition V0 : V3 R := mkV3 0 0 0.
(** the first-order worst case of the property: rounding of the evaluation (gamma3 times the sum of the absolute
    terms of the row) plus the input error carried through the LINEAR part *)
Definition first_order (g : R) (m : M4 R) (x e : V3 R) : V3 R := lin2 g (vaddR (abs_img m x) (abs_trans m)) 1 (abs_img m e).
(** the same for a VECTOR: its image m00 x + m01 y + m02 z does not involve the translation column, hence neither
    does its first-order worst case: three products, two additions *)
Definition first_order_vec (g : R) (m : M4 R) (x e : V3 R) : V3 R := lin2 g (abs_img m x) 1 (abs_img m e).

(** ** Rounding facts in the form used here, for any binary format *)
Section C16_float.
  Variable prec emax : Z.
  Context (Hprec : FLX.Prec_gt_0 prec) (Hmax : Prec_lt_emax prec emax).
  Hypothesis Hp8 : (8 <= prec)%Z.
  Notation bf := (binary_float prec emax).
  Notation emin := (3 - emax - prec)%Z.
  Notation fexp := (FLT_exp emin prec).
  Notation RN := (RN prec emax).
  Notation format := (generic_format radix2 fexp).
  Local Instance NB16 : Num bf := NumB prec emax Hprec Hmax.

  (** unit roundoff *)
  Definition uro : R := bpow radix2 (- prec).
  (** products this small (and not zero) may underflow: excluded by the theorems, see [safe] *)
  Definition tiny : R := bpow radix2 (emin + 2 * prec).
  Definition safe (x : R) : Prop := x = 0 \/ tiny <= Rabs x.

  Lemma emax_big : (8 < emax)%Z.
  Proof. unfold Prec_lt_emax in Hmax. lia. Qed.
  Lemma uro_eq : u_ro radix2 prec = uro.
  Proof. unfold u_ro, uro. rewrite bpow_plus. simpl (bpow radix2 1). lra. Qed.
  Lemma uro_pos : 0 < uro.
  Proof. apply bpow_gt_0. Qed.
  Lemma uro_small : uro <= /256.
  Proof.
    unfold uro. apply Rle_trans with (bpow radix2 (-8)). apply bpow_le. lia.
    simpl. lra.
  Qed.
  Lemma uro_range : 0 < uro <= /256.
  Proof. split. apply uro_pos. apply uro_small. Qed.

  Lemma RN_abs : forall x, RN (Rabs x) = Rabs (RN x).
  Proof. intros x. apply round_NE_abs. apply fexp_correct. exact Hprec. Qed.
  Lemma RN_id : forall x, format x -> RN x = x.
  Proof. intros x Fx. apply round_generic; auto with typeclass_instances. Qed.
  Lemma RN_nonneg : forall x, 0 <= x -> 0 <= RN x.
  Proof. intros x Hx. rewrite <- (RN_0 prec emax). apply RN_le. exact Hprec. exact Hx. Qed.
  Lemma format_RN : forall x, format (RN x).
  Proof. apply RN_format. exact Hprec. Qed.
  Lemma format_abs : forall x, format x -> format (Rabs x).
  Proof. intros x Fx. apply generic_format_abs. exact Fx. Qed.
  Lemma format_B2R : forall v : bf, format (B2R v).
  Proof. intros v. apply generic_format_B2R. Qed.

  (** sums of two floats: the relative error bound holds even in the subnormal range *)
  Lemma sum_err : forall x y, format x -> format y ->
    Rabs (RN (x + y) - (x + y)) <= uro * Rabs (RN (x + y)).
  Proof.
    intros x y Fx Fy.
    destruct (FLT_plus_error_N_round_ex radix2 emin prec (fun z => negb (Z.even z)) x y Fx Fy) as (eps & He & Hs).
    rewrite uro_eq in He.
    assert (Hs' : x + y = RN (x + y) * (1 + eps)) by exact Hs. clear Hs.
    set (r := RN (x + y)) in *.
    replace (r - (x + y)) with (- (r * eps)) by (rewrite Hs'; ring).
    rewrite Rabs_Ropp, Rabs_mult, Rmult_comm. apply Rmult_le_compat_r. apply Rabs_pos. exact He.
  Qed.
  (** a rounded product, outside the underflow range *)
  Lemma tiny_normal : bpow radix2 (emin + prec - 1) <= tiny.
  Proof. unfold tiny. apply bpow_le. lia. Qed.
  Definition normal (x : R) : Prop := x = 0 \/ bpow radix2 (emin + prec - 1) <= Rabs x.
  Lemma safe_normal : forall x, safe x -> normal x.
  Proof. intros x [H|H]; [left; exact H | right; apply Rle_trans with (2 := H); apply tiny_normal]. Qed.
  Lemma prod_err : forall x, normal x -> Rabs (RN x - x) <= uro * Rabs (RN x).
  Proof.
    intros x [->|Hx].
    - rewrite (RN_0 prec emax), Rminus_0_r, Rabs_R0. lra.
    - rewrite <- uro_eq. apply relative_error_N_FLT_round. exact Hprec. exact Hx.
  Qed.
  Lemma prod_err' : forall x, normal x -> Rabs (RN x - x) <= uro * Rabs x.
  Proof.
    intros x [->|Hx].
    - rewrite (RN_0 prec emax), Rminus_0_r, Rabs_R0. lra.
    - rewrite <- uro_eq. apply relative_error_N_FLT. exact Hprec. exact Hx.
  Qed.
  Lemma sum_err' : forall x y, format x -> format y ->
    Rabs (RN (x + y) - (x + y)) <= uro * Rabs (x + y).
  Proof.
    intros x y Fx Fy.
    destruct (FLT_plus_error_N_ex radix2 emin prec (fun z => negb (Z.even z)) x y Fx Fy) as (eps & He & Hs).
    assert (Hs' : RN (x + y) = (x + y) * (1 + eps)) by exact Hs. clear Hs. rewrite Hs'.
    replace ((x + y) * (1 + eps) - (x + y)) with ((x + y) * eps) by ring.
    rewrite Rabs_mult, Rmult_comm. apply Rmult_le_compat_r. apply Rabs_pos.
    apply Rle_trans with (1 := He). rewrite uro_eq.
    pose proof uro_pos. apply Rmult_le_reg_r with (1 + uro). lra.
    unfold Rdiv. rewrite Rmult_assoc, Rinv_l by lra. nra.
  Qed.

  (** consequences for non-negative operands *)
  Lemma sum_pos_facts : forall x y, format x -> format y -> 0 <= x -> 0 <= y ->
    let s := RN (x + y) in
    0 <= s /\ x <= s /\ y <= s /\ x + y <= (1 + uro) * s /\ s <= (1 + uro) * (x + y).
  Proof.
    intros x y Fx Fy Hx Hy s.
    assert (Hs : 0 <= s) by (apply RN_nonneg; lra).
    pose proof (sum_err x y Fx Fy) as H1. pose proof (sum_err' x y Fx Fy) as H2. fold s in H1, H2.
    rewrite (Rabs_pos_eq s) in H1 by exact Hs. rewrite (Rabs_pos_eq (x + y)) in H2 by lra.
    assert (Hxs : x <= s). { unfold s. rewrite <- (RN_id x Fx) at 1. apply RN_le. exact Hprec. lra. }
    assert (Hys : y <= s). { unfold s. rewrite <- (RN_id y Fy) at 1. apply RN_le. exact Hprec. lra. }
    repeat split; try assumption.
    - apply Rabs_le_inv in H1. lra.
    - apply Rabs_le_inv in H2. lra.
  Qed.
  Lemma prod_facts : forall x, normal x ->
    let p := Rabs (RN x) in
    0 <= p /\ Rabs x <= (1 + uro) * p /\ p <= (1 + uro) * Rabs x /\ Rabs (RN x - x) <= uro * p.
  Proof.
    intros x Hx p. pose proof (prod_err x Hx) as H1. pose proof (prod_err' x Hx) as H2. fold p in H1.
    split. apply Rabs_pos. split; [|split; [|exact H1]].
    - replace x with (RN x - (RN x - x)) at 1 by ring.
      apply Rle_trans with (1 := Rabs_triang _ _). rewrite Rabs_Ropp. fold p. lra.
    - unfold p. replace (RN x) with (x + (RN x - x)) by ring.
      apply Rle_trans with (1 := Rabs_triang _ _). lra.
  Qed.
  Lemma safe_RN_big : forall x, tiny <= Rabs x -> tiny <= Rabs (RN x).
  Proof.
    intros x Hx. rewrite <- RN_abs. rewrite <- (RN_id tiny).
    apply RN_le. exact Hprec. exact Hx.
    apply generic_format_bpow. unfold FLT_exp. lia.
  Qed.

  (** ** The rows, as real-number expressions over [RN] *)
  Definition rrow3 (a b c : R) : R := RN (RN (RN a + RN b) + RN c).
  Definition rrow4 (a b c t : R) : R := RN (rrow3 a b c + t).
  Definition rabs3 (a b c : R) : R := RN (RN (Rabs (RN a) + Rabs (RN b)) + Rabs (RN c)).
  Definition rabs4 (a b c t : R) : R := RN (rabs3 a b c + Rabs t).

  Section Chain.
    Variables a b c t : R.
    Hypothesis Na : normal a.
    Hypothesis Nb : normal b.
    Hypothesis Nc : normal c.
    Hypothesis Ft : format t.
    Let A := Rabs (RN a).
    Let B := Rabs (RN b).
    Let C := Rabs (RN c).
    Let T := Rabs t.
    Let S1 := RN (A + B).
    Let S2 := RN (S1 + C).
    Let S3 := RN (S2 + T).

    Lemma chain_fmt : format A /\ format B /\ format C /\ format T /\ format S1 /\ format S2 /\ format S3.
    Proof. repeat split; try apply format_abs; try apply format_RN; exact Ft. Qed.
    Lemma chain_pos : 0 <= A /\ 0 <= B /\ 0 <= C /\ 0 <= T /\ 0 <= S1 /\ 0 <= S2 /\ 0 <= S3.
    Proof.
      assert (HA : 0 <= A) by apply Rabs_pos. assert (HB : 0 <= B) by apply Rabs_pos.
      assert (HC : 0 <= C) by apply Rabs_pos. assert (HT : 0 <= T) by apply Rabs_pos.
      assert (H1 : 0 <= S1) by (apply RN_nonneg; lra).
      assert (H2 : 0 <= S2) by (apply RN_nonneg; lra).
      assert (H3 : 0 <= S3) by (apply RN_nonneg; lra). tauto.
    Qed.
    Lemma chain_low : A + B <= (1 + uro) * S1 /\ S1 + C <= (1 + uro) * S2 /\ S2 + T <= (1 + uro) * S3 /\
      A <= S1 /\ B <= S1 /\ S1 <= S2 /\ C <= S2 /\ S2 <= S3 /\ T <= S3.
    Proof.
      destruct chain_fmt as (FA & FB & FC & FT & F1 & F2 & F3).
      destruct chain_pos as (HA & HB & HC & HT & H1 & H2 & H3).
      destruct (sum_pos_facts A B FA FB HA HB) as (_ & a1 & a2 & a3 & _).
      destruct (sum_pos_facts S1 C F1 FC H1 HC) as (_ & b1 & b2 & b3 & _).
      destruct (sum_pos_facts S2 T F2 FT H2 HT) as (_ & c1 & c2 & c3 & _).
      fold S1 in a1, a2, a3. fold S2 in b1, b2, b3. fold S3 in c1, c2, c3. tauto.
    Qed.
    Lemma chain_up : S1 <= (1 + uro) * (A + B) /\ S2 <= (1 + uro) * (S1 + C) /\ S3 <= (1 + uro) * (S2 + T).
    Proof.
      destruct chain_fmt as (FA & FB & FC & FT & F1 & F2 & F3).
      destruct chain_pos as (HA & HB & HC & HT & H1 & H2 & H3).
      destruct (sum_pos_facts A B FA FB HA HB) as (_ & _ & _ & _ & a4).
      destruct (sum_pos_facts S1 C F1 FC H1 HC) as (_ & _ & _ & _ & b4).
      destruct (sum_pos_facts S2 T F2 FT H2 HT) as (_ & _ & _ & _ & c4).
      fold S1 in a4. fold S2 in b4. fold S3 in c4. tauto.
    Qed.
    Lemma chain_prod : Rabs a <= (1 + uro) * A /\ Rabs b <= (1 + uro) * B /\ Rabs c <= (1 + uro) * C /\
      A <= (1 + uro) * Rabs a /\ B <= (1 + uro) * Rabs b /\ C <= (1 + uro) * Rabs c /\
      Rabs (RN a - a) <= uro * A /\ Rabs (RN b - b) <= uro * B /\ Rabs (RN c - c) <= uro * C.
    Proof.
      destruct (prod_facts a Na) as (_ & a1 & a2 & a3).
      destruct (prod_facts b Nb) as (_ & b1 & b2 & b3).
      destruct (prod_facts c Nc) as (_ & c1 & c2 & c3). fold A in a1, a2, a3. fold B in b1, b2, b3. fold C in c1, c2, c3. tauto.
    Qed.

    (** the value path stays below the absolute-value path, and its rounding error is [u] times the partial sums *)
    Lemma abs_RN_sum_le : forall x y X Y, Rabs x <= X -> Rabs y <= Y -> Rabs (RN (x + y)) <= RN (X + Y).
    Proof.
      intros x y X Y Hx Hy. rewrite <- RN_abs. apply RN_le. exact Hprec.
      apply Rle_trans with (1 := Rabs_triang _ _). lra.
    Qed.
    Lemma chain_val3 : Rabs (RN (RN a + RN b)) <= S1 /\ Rabs (rrow3 a b c) <= S2 /\
      Rabs (rrow3 a b c - (a + b + c)) <= uro * (S2 + S1 + A + B + C).
    Proof.
      destruct chain_prod as (_ & _ & _ & _ & _ & _ & ea & eb & ec).
      set (r1 := RN (RN a + RN b)).
      assert (H1 : Rabs r1 <= S1) by (apply abs_RN_sum_le; unfold A, B; lra).
      assert (H2 : Rabs (rrow3 a b c) <= S2) by (apply abs_RN_sum_le; [exact H1 | unfold C; lra]).
      pose proof (sum_err (RN a) (RN b) (format_RN a) (format_RN b)) as E1. fold r1 in E1.
      pose proof (sum_err r1 (RN c) (format_RN _) (format_RN c)) as E2. fold (rrow3 a b c) in E2.
      split. exact H1. split. exact H2.
      replace (rrow3 a b c - (a + b + c)) with
        ((rrow3 a b c - (r1 + RN c)) + (r1 - (RN a + RN b)) + (RN a - a) + (RN b - b) + (RN c - c)) by ring.
      pose proof uro_pos as Hu.
      assert (E1' : Rabs (r1 - (RN a + RN b)) <= uro * S1).
      { apply Rle_trans with (1 := E1). apply Rmult_le_compat_l; [lra | exact H1]. }
      assert (E2' : Rabs (rrow3 a b c - (r1 + RN c)) <= uro * S2).
      { apply Rle_trans with (1 := E2). apply Rmult_le_compat_l; [lra | exact H2]. }
      replace (uro * (S2 + S1 + A + B + C)) with (uro * S2 + uro * S1 + uro * A + uro * B + uro * C) by ring.
      apply abs5; assumption.
    Qed.
    Lemma chain_val4 : Rabs (rrow4 a b c t) <= S3 /\
      Rabs (rrow4 a b c t - (a + b + c + t)) <= uro * (S3 + S2 + S1 + A + B + C).
    Proof.
      destruct chain_val3 as (H1 & H2 & H3).
      assert (H4 : Rabs (rrow4 a b c t) <= S3) by (apply abs_RN_sum_le; [exact H2 | unfold T; lra]).
      split. exact H4.
      pose proof (sum_err (rrow3 a b c) t (format_RN _) Ft) as E3. fold (rrow4 a b c t) in E3.
      pose proof uro_pos as Hu.
      assert (E3' : Rabs (rrow4 a b c t - (rrow3 a b c + t)) <= uro * S3).
      { apply Rle_trans with (1 := E3). apply Rmult_le_compat_l; [lra | exact H4]. }
      replace (rrow4 a b c t - (a + b + c + t)) with
        ((rrow4 a b c t - (rrow3 a b c + t)) + (rrow3 a b c - (a + b + c))) by ring.
      apply Rle_trans with (1 := Rabs_triang _ _). lra.
    Qed.
    Lemma chain_S3_eq : S3 = rabs4 a b c t.
    Proof. reflexivity. Qed.
    Lemma chain_S2_eq : S2 = rabs3 a b c.
    Proof. reflexivity. Qed.
    Lemma chain_S3_up : S3 <= (1 + uro) * ((1 + uro) * ((1 + uro) * ((1 + uro) * (Rabs a + Rabs b + Rabs c + T)))).
    Proof.
      destruct chain_pos as (HA & HB & HC & HT & H1 & H2 & H3).
      destruct chain_up as (u1 & u2 & u3).
      destruct chain_prod as (_ & _ & _ & pa & pb & pc & _).
      pose proof uro_pos as Hu.
      assert (K1 : A + B + C + T <= (1 + uro) * (Rabs a + Rabs b + Rabs c + T)).
      { assert (0 <= uro * T) by (apply Rmult_le_pos; lra). lra. }
      assert (K2 : S1 + C + T <= (1 + uro) * (A + B + C + T)).
      { assert (0 <= uro * (C + T)) by (apply Rmult_le_pos; lra). lra. }
      assert (K3 : S2 + T <= (1 + uro) * (S1 + C + T)).
      { assert (0 <= uro * T) by (apply Rmult_le_pos; lra). lra. }
      apply Rle_trans with (1 := u3). apply Rmult_le_compat_l. lra.
      apply Rle_trans with (1 := K3). apply Rmult_le_compat_l. lra.
      apply Rle_trans with (1 := K2). apply Rmult_le_compat_l. lra. exact K1.
    Qed.
    Lemma chain_big : tiny <= Rabs a \/ tiny <= Rabs b \/ tiny <= Rabs c -> tiny <= S2.
    Proof.
      intros H. destruct chain_low as (_ & _ & _ & l1 & l2 & l3 & l4 & _).
      destruct H as [H|[H|H]]; apply safe_RN_big in H; fold A in H || fold B in H || fold C in H; lra.
    Qed.
  End Chain.

  (** ** The multiplier: any float within one rounding of gamma(3) = 3u/(1-3u) *)
  Definition gamma3 : R := 3 * uro / (1 - 3 * uro).
  Definition gok (g : R) : Prop :=
    format g /\ 3 * uro <= g * ((1 + uro) * (1 - 3 * uro)) /\ g <= (1 + uro) * gamma3.
  Lemma gamma3_pos : 0 < gamma3.
  Proof. pose proof uro_range. unfold gamma3. apply Rdiv_lt_0_compat; lra. Qed.
  Lemma gamma3_eq : gamma3 * (1 - 3 * uro) = 3 * uro.
  Proof. pose proof uro_range. unfold gamma3. field. lra. Qed.
  Lemma gok_low : forall g, gok g -> 2 * uro <= g /\ 1 + 4 * uro <= (1 + g) * (1 + uro).
  Proof.
    intros g (_ & H & _). pose proof uro_range as Hu.
    assert (Hk : 0 < (1 + uro) * (1 - 3 * uro)) by nra.
    assert (Hg : 0 <= g) by (apply Rmult_le_reg_r with (1 := Hk); lra).
    assert (H1 : 3 * uro <= g * (1 + uro)).
    { apply Rle_trans with (1 := H). rewrite <- Rmult_assoc. rewrite <- (Rmult_1_r (g * (1 + uro))) at 2.
      apply Rmult_le_compat_l. apply Rmult_le_pos; lra. lra. }
    split; nra.
  Qed.

  (** the multiplier of the point functions: within one rounding of gamma(4) = 4u/(1-4u) *)
  Definition gamma4 : R := 4 * uro / (1 - 4 * uro).
  Definition gok4 (g : R) : Prop :=
    format g /\ 4 * uro <= g * ((1 + uro) * (1 - 4 * uro)) /\ g <= (1 + uro) * gamma4.
  Lemma gamma4_pos : 0 < gamma4.
  Proof. pose proof uro_range. unfold gamma4. apply Rdiv_lt_0_compat; lra. Qed.
  Lemma gamma4_eq : gamma4 * (1 - 4 * uro) = 4 * uro.
  Proof. pose proof uro_range. unfold gamma4. field. lra. Qed.
  Lemma gok4_low : forall g, gok4 g -> 2 * uro <= g.
  Proof.
    intros g (_ & H & _). pose proof uro_range as Hu.
    assert (Hk : 0 < (1 + uro) * (1 - 4 * uro)) by nra.
    assert (Hg : 0 <= g) by (apply Rmult_le_reg_r with (1 := Hk); lra).
    assert (H1 : 4 * uro <= g * (1 + uro)).
    { apply Rle_trans with (1 := H). rewrite <- Rmult_assoc. rewrite <- (Rmult_1_r (g * (1 + uro))) at 2.
      apply Rmult_le_compat_l. apply Rmult_le_pos; lra. lra. }
    nra.
  Qed.
  (** gamma(4) against the property's yardstick gamma(3) *)
  Lemma gamma4_le : gamma4 <= 135 / 100 * gamma3.
  Proof.
    pose proof uro_range as Hu. unfold gamma4, gamma3.
    apply Rmult_le_reg_r with ((1 - 4 * uro) * (1 - 3 * uro)). nra.
    replace (4 * uro / (1 - 4 * uro) * ((1 - 4 * uro) * (1 - 3 * uro))) with (4 * uro * (1 - 3 * uro)) by (field; lra).
    replace (135 / 100 * (3 * uro / (1 - 3 * uro)) * ((1 - 4 * uro) * (1 - 3 * uro))) with (135 / 100 * (3 * uro) * (1 - 4 * uro)) by (field; lra).
    nra.
  Qed.

  Lemma tiny_pos : 0 < tiny.
  Proof. apply bpow_gt_0. Qed.
  Lemma tiny_2u : bpow radix2 (emin + prec - 1) <= tiny * (2 * uro).
  Proof.
    unfold tiny, uro. replace 2 with (bpow radix2 1) by reflexivity.
    rewrite <- !bpow_plus. apply bpow_le. lia.
  Qed.
  (** the final multiplication [S * g] (or [S * G], [G >= 1]) does not underflow when [S] is zero or not tiny *)
  Lemma scale_facts : forall S k, 0 <= S -> (S = 0 \/ tiny <= S) -> 2 * uro <= k ->
    let E := RN (S * k) in 0 <= E /\ S * k <= (1 + uro) * E /\ E <= (1 + uro) * (S * k).
  Proof.
    intros S k HS Hc Hk E. pose proof uro_range as Hu.
    assert (Hn : normal (S * k)).
    { destruct Hc as [->|Hc]. left; ring. right.
      rewrite Rabs_pos_eq by (apply Rmult_le_pos; lra).
      apply Rle_trans with (1 := tiny_2u). pose proof tiny_pos.
      apply Rmult_le_compat; lra. }
    assert (Hp : 0 <= S * k) by (apply Rmult_le_pos; lra).
    destruct (prod_facts (S * k) Hn) as (_ & f1 & f2 & _).
    assert (HE : 0 <= E) by (apply RN_nonneg; exact Hp).
    fold E in f1, f2. rewrite (Rabs_pos_eq E) in f1, f2 by exact HE.
    rewrite (Rabs_pos_eq (S * k)) in f1, f2 by exact Hp. tauto.
  Qed.

  Lemma rrow3_0 : rrow3 0 0 0 = 0.
  Proof. unfold rrow3. rewrite !(RN_0 prec emax), Rplus_0_l, !(RN_0 prec emax), Rplus_0_l. apply (RN_0 prec emax). Qed.
  Lemma rabs3_0 : rabs3 0 0 0 = 0.
  Proof. unfold rabs3. rewrite !(RN_0 prec emax), Rabs_R0, Rplus_0_l, !(RN_0 prec emax), Rplus_0_l. apply (RN_0 prec emax). Qed.
  Lemma safe_cases : forall a b c, safe a -> safe b -> safe c ->
    (a = 0 /\ b = 0 /\ c = 0) \/ (tiny <= Rabs a \/ tiny <= Rabs b \/ tiny <= Rabs c).
  Proof. intros a b c [Ha|Ha] [Hb|Hb] [Hc|Hc]; tauto. Qed.
  Lemma rabs4_pos : forall a b c t, 0 <= rabs4 a b c t.
  Proof.
    intros. unfold rabs4. apply RN_nonneg.
    assert (0 <= rabs3 a b c). { unfold rabs3. apply RN_nonneg. pose proof (Rabs_pos (RN c)).
      assert (0 <= RN (Rabs (RN a) + Rabs (RN b))). { apply RN_nonneg. pose proof (Rabs_pos (RN a)). pose proof (Rabs_pos (RN b)). lra. } lra. }
    pose proof (Rabs_pos t). lra.
  Qed.

  (** *** (S), vectors: the reported error bounds the rounding error of the row -- no extra factor.
      Used with [t = 0] (the vector functions report [rabs4 a b c 0 = rabs3 a b c], no translation entry): the proof
      only uses [rabs3 <= rabs4], so nothing leans on [t]. *)
  Lemma vec_real : forall a b c t g, safe a -> safe b -> safe c -> format t -> gok g ->
    Rabs (rrow3 a b c - (a + b + c)) <= RN (rabs4 a b c t * g).
  Proof.
    intros a b c t g Ha Hb Hc Ft Hg. pose proof uro_range as Hu.
    destruct (gok_low g Hg) as (Hg2 & _). pose proof Hg as (_ & Hg3 & _).
    destruct (safe_cases a b c Ha Hb Hc) as [(-> & -> & ->)|Hbig].
    - rewrite rrow3_0. replace (0 - (0 + 0 + 0)) with 0 by ring. rewrite Rabs_R0.
      apply RN_nonneg. apply Rmult_le_pos. apply rabs4_pos. lra.
    - pose proof (safe_normal a Ha) as Na. pose proof (safe_normal b Hb) as Nb. pose proof (safe_normal c Hc) as Nc.
      destruct (chain_pos a b c t) as (HA & HB & HC & HT & H1 & H2 & H3).
      destruct (chain_low a b c t Ft) as (l1 & l2 & l3 & _ & _ & _ & _ & l8 & _).
      destruct (chain_val3 a b c Na Nb Nc) as (_ & _ & v3).
      pose proof (chain_big a b c t Ft Hbig) as Hb2.
      assert (Hs3 : rabs4 a b c t = 0 \/ tiny <= rabs4 a b c t) by (right; unfold rabs4, rabs3; lra).
      destruct (scale_facts (rabs4 a b c t) g H3 Hs3 Hg2) as (_ & e1 & _).
      apply Rle_trans with (1 := v3).
      apply (core_vec uro g _ _ _ _ _ (rabs4 a b c t)); try assumption.
  Qed.

  (** *** (S), points: four roundings, gamma(4): no extra factor *)
  Lemma pt_real : forall a b c t g, safe a -> safe b -> safe c -> format t -> gok4 g ->
    Rabs (rrow4 a b c t - (a + b + c + t)) <= RN (rabs4 a b c t * g).
  Proof.
    intros a b c t g Ha Hb Hc Ft Hg. pose proof uro_range as Hu.
    pose proof (gok4_low g Hg) as Hg2. pose proof Hg as (_ & Hg3 & _).
    destruct (safe_cases a b c Ha Hb Hc) as [(-> & -> & ->)|Hbig].
    - unfold rrow4. rewrite rrow3_0, Rplus_0_l, (RN_id t Ft).
      replace (t - (0 + 0 + 0 + t)) with 0 by ring. rewrite Rabs_R0.
      apply RN_nonneg. apply Rmult_le_pos. apply rabs4_pos. lra.
    - pose proof (safe_normal a Ha) as Na. pose proof (safe_normal b Hb) as Nb. pose proof (safe_normal c Hc) as Nc.
      destruct (chain_pos a b c t) as (HA & HB & HC & HT & H1 & H2 & H3).
      destruct (chain_low a b c t Ft) as (l1 & l2 & l3 & _ & _ & _ & _ & l8 & _).
      destruct (chain_val4 a b c t Na Nb Nc Ft) as (_ & v4).
      pose proof (chain_big a b c t Ft Hbig) as Hb2.
      assert (Hs3 : rabs4 a b c t = 0 \/ tiny <= rabs4 a b c t) by (right; unfold rabs4, rabs3; lra).
      destruct (scale_facts (rabs4 a b c t) g H3 Hs3 Hg2) as (_ & e1 & _).
      apply Rle_trans with (1 := v4).
      apply (core_pt4 uro g _ _ _ (Rabs t) _ _ (rabs4 a b c t)); try assumption.
  Qed.

  (** ** The propagated part *)
  Lemma format_1 : format 1.
  Proof. replace 1 with (bpow radix2 0) by reflexivity. apply generic_format_bpow. pose proof emax_big. unfold FLT_exp. lia. Qed.
  Definition rG (g : R) : R := RN (1 + g).
  Lemma G_facts : forall g, gok g ->
    format (rG g) /\ 1 <= rG g /\ 1 + g <= (1 + uro) * rG g /\ rG g <= (1 + uro) * (1 + g) /\ 0 <= g.
  Proof.
    intros g Hg. destruct (gok_low g Hg) as (Hg2 & _). destruct Hg as (Fg & _). pose proof uro_pos.
    assert (Hg0 : 0 <= g) by lra.
    destruct (sum_pos_facts 1 g format_1 Fg ltac:(lra) Hg0) as (_ & s1 & _ & s3 & s4).
    split. apply format_RN. unfold rG. tauto.
  Qed.
  Definition rerr1 (pa pb pc t g : R) : R := RN (rabs4 pa pb pc t * rG g).
  (** [g] multiplies the propagated part (through [1+g]), [g2] the rounding part *)
  Definition rerr (a b c pa pb pc t1 t g g2 : R) : R := RN (rerr1 pa pb pc t1 g + RN (rabs4 a b c t * g2)).
  Lemma rabs4_cases : forall a b c t, safe a -> safe b -> safe c -> format t ->
    (a = 0 /\ b = 0 /\ c = 0) \/ tiny <= rabs4 a b c t.
  Proof.
    intros a b c t Ha Hb Hc Ft. destruct (safe_cases a b c Ha Hb Hc) as [H|H]. left; exact H. right.
    pose proof (chain_big a b c t Ft H). destruct (chain_low a b c t Ft) as (_ & _ & _ & _ & _ & _ & _ & l8 & _).
    unfold rabs4, rabs3. lra.
  Qed.
  Lemma rerr1_pos : forall pa pb pc t g, gok g -> 0 <= rerr1 pa pb pc t g.
  Proof.
    intros. unfold rerr1. apply RN_nonneg. apply Rmult_le_pos. apply rabs4_pos.
    destruct (G_facts g H) as (_ & G1 & _). lra.
  Qed.
  Lemma E_pos : forall a b c t g, gok g -> 0 <= RN (rabs4 a b c t * g).
  Proof.
    intros. apply RN_nonneg. apply Rmult_le_pos. apply rabs4_pos. destruct (G_facts g H) as (_ & _ & _ & _ & G1). exact G1.
  Qed.

  Lemma E_pos4 : forall a b c t g, gok4 g -> 0 <= RN (rabs4 a b c t * g).
  Proof.
    intros. apply RN_nonneg. apply Rmult_le_pos. apply rabs4_pos. pose proof (gok4_low g H). pose proof uro_pos. lra.
  Qed.

  Lemma box_D : forall pa pb pc t g, safe pa -> safe pb -> safe pc -> format t -> gok g ->
    (Rabs pa + Rabs pb + Rabs pc) * (1 + 4 * uro) <= (1 + uro) ^ 6 * rerr1 pa pb pc t g.
  Proof.
    intros pa pb pc t g Ha Hb Hc Ft Hg. pose proof uro_range as Hu.
    destruct (G_facts g Hg) as (FG & G1 & G2 & G3 & Hg0). destruct (gok_low g Hg) as (_ & Hg4).
    destruct (rabs4_cases pa pb pc t Ha Hb Hc Ft) as [(-> & -> & ->)|Hbig].
    - rewrite Rabs_R0. replace ((0 + 0 + 0) * (1 + 4 * uro)) with 0 by ring.
      apply Rmult_le_pos. apply pow_le. lra. apply rerr1_pos. exact Hg.
    - pose proof (safe_normal _ Ha) as Na. pose proof (safe_normal _ Hb) as Nb. pose proof (safe_normal _ Hc) as Nc.
      destruct (chain_pos pa pb pc t) as (HA & HB & HC & HT & H1 & H2 & H3).
      destruct (chain_low pa pb pc t Ft) as (l1 & l2 & l3 & _ & _ & _ & _ & l8 & _).
      destruct (chain_prod pa pb pc Na Nb Nc) as (p1 & p2 & p3 & _).
      destruct (scale_facts (rabs4 pa pb pc t) (rG g) H3 (or_intror Hbig) ltac:(lra)) as (_ & e1 & _).
      apply core_D with (g := g) (G := rG g) (X := Rabs (RN pa)) (Y := Rabs (RN pb)) (Z := Rabs (RN pc))
        (P1 := RN (Rabs (RN pa) + Rabs (RN pb))) (P2 := rabs3 pa pb pc) (P3 := rabs4 pa pb pc t); try assumption; try lra.
  Qed.

  (** *** (S) with an input box, vectors: PARTIAL, factor (1+4u) *)
  Lemma vec_box_real : forall a b c pa pb pc t1 t g d, safe a -> safe b -> safe c -> safe pa -> safe pb -> safe pc ->
    format t1 -> format t -> gok g -> Rabs d <= Rabs pa + Rabs pb + Rabs pc ->
    Rabs (rrow3 a b c - (a + b + c + d)) <= (1 + 4 * uro) * rerr a b c pa pb pc t1 t g g.
  Proof.
    intros a b c pa pb pc t1 t g d Ha Hb Hc Hpa Hpb Hpc Ft1 Ft Hg Hd. pose proof uro_range as Hu.
    pose proof (vec_real a b c t g Ha Hb Hc Ft Hg) as V.
    pose proof (box_D pa pb pc t1 g Hpa Hpb Hpc Ft1 Hg) as D.
    pose proof (rerr1_pos pa pb pc t1 g Hg) as P1. pose proof (E_pos a b c t g Hg) as P2.
    destruct (sum_pos_facts _ _ (format_RN (rabs4 pa pb pc t1 * rG g)) (format_RN (rabs4 a b c t * g)) P1 P2) as (_ & _ & _ & s3 & _).
    replace (rrow3 a b c - (a + b + c + d)) with ((- d) + (rrow3 a b c - (a + b + c))) by ring.
    apply Rle_trans with (1 := Rabs_triang _ _). rewrite Rabs_Ropp.
    apply core_vec_box with (D := Rabs pa + Rabs pb + Rabs pc) (E := RN (rabs4 a b c t * g)) (err1 := rerr1 pa pb pc t1 g); try assumption.
  Qed.
  (** *** (S) with an input box, points: PARTIAL, factor (1+4u) *)
  Lemma pt_box_real : forall a b c pa pb pc t1 t g g2 d, safe a -> safe b -> safe c -> safe pa -> safe pb -> safe pc ->
    format t1 -> format t -> gok g -> gok4 g2 -> Rabs d <= Rabs pa + Rabs pb + Rabs pc ->
    Rabs (rrow4 a b c t - (a + b + c + t + d)) <= (1 + 4 * uro) * rerr a b c pa pb pc t1 t g g2.
  Proof.
    intros a b c pa pb pc t1 t g g2 d Ha Hb Hc Hpa Hpb Hpc Ft1 Ft Hg Hg2 Hd. pose proof uro_range as Hu.
    pose proof (pt_real a b c t g2 Ha Hb Hc Ft Hg2) as V.
    pose proof (box_D pa pb pc t1 g Hpa Hpb Hpc Ft1 Hg) as D.
    pose proof (rerr1_pos pa pb pc t1 g Hg) as P1. pose proof (E_pos4 a b c t g2 Hg2) as P2.
    destruct (sum_pos_facts _ _ (format_RN (rabs4 pa pb pc t1 * rG g)) (format_RN (rabs4 a b c t * g2)) P1 P2) as (_ & _ & _ & s3 & _).
    replace (rrow4 a b c t - (a + b + c + t + d)) with ((- d) + (rrow4 a b c t - (a + b + c + t))) by ring.
    apply Rle_trans with (1 := Rabs_triang _ _). rewrite Rabs_Ropp.
    apply core_vec_box with (D := Rabs pa + Rabs pb + Rabs pc) (E := RN (rabs4 a b c t * g2)) (err1 := rerr1 pa pb pc t1 g); try assumption.
  Qed.

  (** *** (M): upper bounds on what is reported *)
  Lemma E_upper : forall a b c t g, safe a -> safe b -> safe c -> safe t -> format t -> gok g ->
    RN (rabs4 a b c t * g) <= (1 + uro) ^ 6 * (gamma3 * (Rabs a + Rabs b + Rabs c + Rabs t)).
  Proof.
    intros a b c t g Ha Hb Hc Ht Ft Hg. pose proof uro_range as Hu. pose proof gamma3_pos as Hgm.
    destruct (gok_low g Hg) as (Hg2 & _). pose proof Hg as (_ & _ & Hg5).
    pose proof (safe_normal _ Ha) as Na. pose proof (safe_normal _ Hb) as Nb. pose proof (safe_normal _ Hc) as Nc.
    destruct (chain_pos a b c t) as (HA & HB & HC & HT & H1 & H2 & H3).
    pose proof (chain_S3_up a b c t Na Nb Nc Ft) as Up.
    assert (Hs3 : rabs4 a b c t = 0 \/ tiny <= rabs4 a b c t).
    { destruct (rabs4_cases a b c t Ha Hb Hc Ft) as [(-> & -> & ->)|Hbig]; [|right; exact Hbig].
      unfold rabs4. rewrite rabs3_0, Rplus_0_l, (RN_id _ (format_abs t Ft)).
      destruct Ht as [->|Ht]. left. apply Rabs_R0. right. exact Ht. }
    destruct (scale_facts (rabs4 a b c t) g H3 Hs3 Hg2) as (_ & _ & e2).
    apply core_M with (g := g) (S3 := rabs4 a b c t); try assumption; try lra.
    pose proof (Rabs_pos a). pose proof (Rabs_pos b). pose proof (Rabs_pos c). lra.
  Qed.
  Lemma E_upper4 : forall a b c t g, safe a -> safe b -> safe c -> safe t -> format t -> gok4 g ->
    RN (rabs4 a b c t * g) <= (1 + uro) ^ 6 * (gamma4 * (Rabs a + Rabs b + Rabs c + Rabs t)).
  Proof.
    intros a b c t g Ha Hb Hc Ht Ft Hg. pose proof uro_range as Hu. pose proof gamma4_pos as Hgm.
    pose proof (gok4_low g Hg) as Hg2. pose proof Hg as (_ & _ & Hg5).
    pose proof (safe_normal _ Ha) as Na. pose proof (safe_normal _ Hb) as Nb. pose proof (safe_normal _ Hc) as Nc.
    destruct (chain_pos a b c t) as (HA & HB & HC & HT & H1 & H2 & H3).
    pose proof (chain_S3_up a b c t Na Nb Nc Ft) as Up.
    assert (Hs3 : rabs4 a b c t = 0 \/ tiny <= rabs4 a b c t).
    { destruct (rabs4_cases a b c t Ha Hb Hc Ft) as [(-> & -> & ->)|Hbig]; [|right; exact Hbig].
      unfold rabs4. rewrite rabs3_0, Rplus_0_l, (RN_id _ (format_abs t Ft)).
      destruct Ht as [->|Ht]. left. apply Rabs_R0. right. exact Ht. }
    destruct (scale_facts (rabs4 a b c t) g H3 Hs3 Hg2) as (_ & _ & e2).
    apply core_M with (g := g) (S3 := rabs4 a b c t); try assumption; try lra.
    pose proof (Rabs_pos a). pose proof (Rabs_pos b). pose proof (Rabs_pos c). lra.
  Qed.
  Lemma err_upper : forall a b c pa pb pc t1 t g g2 gm2, safe pa -> safe pb -> safe pc ->
    safe t1 -> format t1 -> gok g -> 0 <= gm2 -> 0 <= RN (rabs4 a b c t * g2) ->
    RN (rabs4 a b c t * g2) <= (1 + uro) ^ 6 * (gm2 * (Rabs a + Rabs b + Rabs c + Rabs t)) ->
    rerr a b c pa pb pc t1 t g g2 <= (1 + 9 * uro) *
      ((1 + gamma3) * (Rabs pa + Rabs pb + Rabs pc + Rabs t1) + gm2 * (Rabs a + Rabs b + Rabs c + Rabs t)).
  Proof.
    intros a b c pa pb pc t1 t g g2 gm2 Hpa Hpb Hpc Ht1 Ft1 Hg Hgm2 P2 EU. pose proof uro_range as Hu. pose proof gamma3_pos as Hgm.
    destruct (G_facts g Hg) as (FG & G1 & G2 & G3 & Hg0). pose proof Hg as (_ & _ & Hg5).
    pose proof (safe_normal _ Hpa) as Na. pose proof (safe_normal _ Hpb) as Nb. pose proof (safe_normal _ Hpc) as Nc.
    destruct (chain_pos pa pb pc t1) as (HA & HB & HC & HT & H1 & H2 & H3).
    pose proof (chain_S3_up pa pb pc t1 Na Nb Nc Ft1) as Up.
    assert (Hs3 : rabs4 pa pb pc t1 = 0 \/ tiny <= rabs4 pa pb pc t1).
    { destruct (rabs4_cases pa pb pc t1 Hpa Hpb Hpc Ft1) as [(-> & -> & ->)|Hbig]; [|right; exact Hbig].
      unfold rabs4. rewrite rabs3_0, Rplus_0_l, (RN_id _ (format_abs t1 Ft1)).
      destruct Ht1 as [->|Ht1]. left. apply Rabs_R0. right. exact Ht1. }
    destruct (scale_facts (rabs4 pa pb pc t1) (rG g) H3 Hs3 ltac:(lra)) as (_ & _ & e2).
    pose proof (rerr1_pos pa pb pc t1 g Hg) as P1.
    destruct (sum_pos_facts _ _ (format_RN (rabs4 pa pb pc t1 * rG g)) (format_RN (rabs4 a b c t * g2)) P1 P2) as (_ & _ & _ & _ & s4).
    assert (Q1 : 0 <= Rabs pa + Rabs pb + Rabs pc + Rabs t1).
    { pose proof (Rabs_pos pa). pose proof (Rabs_pos pb). pose proof (Rabs_pos pc). lra. }
    assert (Q2 : 0 <= Rabs a + Rabs b + Rabs c + Rabs t).
    { pose proof (Rabs_pos a). pose proof (Rabs_pos b). pose proof (Rabs_pos c). pose proof (Rabs_pos t). lra. }
    assert (E1 : rerr1 pa pb pc t1 g <= (1 + uro) ^ 7 * ((1 + gamma3) * (Rabs pa + Rabs pb + Rabs pc + Rabs t1))).
    { apply core_M1 with (g := g) (G := rG g) (P3 := rabs4 pa pb pc t1); try assumption; try lra. }
    apply core_M2 with (err1 := rerr1 pa pb pc t1 g) (E := RN (rabs4 a b c t * g2)); try assumption; try lra.
  Qed.

  (** ** From floats to the real-number expressions above *)
  Notation fin v := (is_finite v = true).
  Local Open Scope num_scope.

  Lemma add_inv : forall a b : bf, fin (a + b) -> fin a /\ fin b /\ B2R (a + b) = RN (B2R a + B2R b)%R.
  Proof.
    intros a b H. change (fin (Bplus mode_NE a b)) in H. change (a + b) with (Bplus mode_NE a b).
    assert (Fab : fin a /\ fin b).
    { destruct a as [sa|sa| |sa ma ea Ha], b as [sb|sb| |sb mb eb Hb]; try (split; reflexivity); simpl in H; try discriminate.
      destruct sa, sb; discriminate. }
    destruct Fab as [Fa Fb]. split; [exact Fa|split; [exact Fb|]].
    destruct (is_rnd_plus prec emax Hprec Hmax a b Fa Fb) as (_ & _ & [[_ E]|[s [E _]]]). exact E.
    rewrite E in H. discriminate.
  Qed.
  Lemma mul_inv : forall a b : bf, fin (a * b) -> fin a /\ fin b /\ B2R (a * b) = RN (B2R a * B2R b)%R.
  Proof.
    intros a b H. change (fin (Bmult mode_NE a b)) in H. change (a * b) with (Bmult mode_NE a b).
    assert (Fab : fin a /\ fin b).
    { destruct a as [sa|sa| |sa ma ea Ha], b as [sb|sb| |sb mb eb Hb]; try (split; reflexivity); simpl in H; discriminate. }
    destruct Fab as [Fa Fb]. split; [exact Fa|split; [exact Fb|]].
    destruct (is_rnd_mult prec emax Hprec Hmax a b Fa Fb) as (_ & _ & [[_ E]|[s [E _]]]). exact E.
    rewrite E in H. discriminate.
  Qed.
  Lemma abs_inv : forall a : bf, fin (nabs a) -> fin a /\ B2R (nabs a) = Rabs (B2R a).
  Proof.
    intros a H. change (nabs a) with (Babs a) in *. rewrite is_finite_Babs in H. split. exact H. apply B2R_Babs.
  Qed.
  Lemma add_fwd : forall a b : bf, fin a -> fin b -> (Rabs (RN (B2R a + B2R b)) < bpow radix2 emax)%R ->
    fin (a + b) /\ B2R (a + b) = RN (B2R a + B2R b)%R.
  Proof.
    intros a b Fa Fb Hlt. change (a + b) with (Bplus mode_NE a b).
    destruct (is_rnd_plus prec emax Hprec Hmax a b Fa Fb) as (_ & _ & [[F E]|[s [_ E]]]). tauto. lra.
  Qed.
  Lemma sub_fwd : forall a b : bf, fin a -> fin b -> (Rabs (RN (B2R a - B2R b)) < bpow radix2 emax)%R ->
    fin (a - b) /\ B2R (a - b) = RN (B2R a - B2R b)%R.
  Proof.
    intros a b Fa Fb Hlt. change (a - b) with (Bminus mode_NE a b).
    destruct (is_rnd_minus prec emax Hprec Hmax a b Fa Fb) as (_ & _ & [[F E]|[s [_ E]]]). tauto. lra.
  Qed.
  Lemma mul_fwd : forall a b : bf, fin a -> fin b -> (Rabs (RN (B2R a * B2R b)) < bpow radix2 emax)%R ->
    fin (a * b) /\ B2R (a * b) = RN (B2R a * B2R b)%R.
  Proof.
    intros a b Fa Fb Hlt. change (a * b) with (Bmult mode_NE a b).
    destruct (is_rnd_mult prec emax Hprec Hmax a b Fa Fb) as (_ & _ & [[F E]|[s [_ E]]]). tauto. lra.
  Qed.
  Lemma div_fwd : forall a b : bf, fin a -> fin b -> B2R b <> 0%R -> (Rabs (RN (B2R a / B2R b)) < bpow radix2 emax)%R ->
    fin (a / b) /\ B2R (a / b) = RN (B2R a / B2R b)%R.
  Proof.
    intros a b Fa Fb Hb Hlt. change (a / b) with (Bdiv mode_NE a b).
    destruct (is_rnd_div prec emax Hprec Hmax a b Fa Fb Hb) as (_ & _ & [[F E]|[s [_ E]]]). tauto. lra.
  Qed.
  Lemma div_one : forall a w : bf, fin a -> fin w -> B2R w = 1%R -> fin (a / w) /\ B2R (a / w) = B2R a.
  Proof.
    intros a w Fa Fw Hw.
    assert (E : (B2R a / B2R w)%R = B2R a) by (rewrite Hw; field).
    destruct (div_fwd a w Fa Fw) as (F & V). rewrite Hw; lra.
    rewrite E, (RN_B2R prec emax). apply abs_B2R_lt_emax.
    split. exact F. rewrite V, E. apply (RN_B2R prec emax).
  Qed.
  Lemma fin_lt : forall a : bf, (Rabs (B2R a) < bpow radix2 emax)%R.
  Proof. intros a. apply abs_B2R_lt_emax. Qed.

  (** one row of [mul4x4vec] / [mul4x4point] / [mul4x4_abs], exactly as the model writes it *)
  Definition frow3 (m0 m1 m2 x y z : bf) : bf := m0 * x + m1 * y + m2 * z.
  Definition frow4 (m0 m1 m2 m3 x y z : bf) : bf := m0 * x + m1 * y + m2 * z + m3.
  Definition fabs4 (m0 m1 m2 m3 x y z : bf) : bf := nabs (m0 * x) + nabs (m1 * y) + nabs (m2 * z) + nabs m3.

  Lemma rows_ok : forall m0 m1 m2 m3 x y z : bf, fin (fabs4 m0 m1 m2 m3 x y z) ->
    let a := (B2R m0 * B2R x)%R in let b := (B2R m1 * B2R y)%R in let c := (B2R m2 * B2R z)%R in let t := B2R m3 in
    (fin m0 /\ fin m1 /\ fin m2 /\ fin m3 /\ fin x /\ fin y /\ fin z) /\
    B2R (fabs4 m0 m1 m2 m3 x y z) = rabs4 a b c t /\
    (fin (frow3 m0 m1 m2 x y z) /\ B2R (frow3 m0 m1 m2 x y z) = rrow3 a b c) /\
    (fin (frow4 m0 m1 m2 m3 x y z) /\ B2R (frow4 m0 m1 m2 m3 x y z) = rrow4 a b c t).
  Proof.
    intros m0 m1 m2 m3 x y z H a b c t. unfold fabs4 in H.
    destruct (add_inv _ _ H) as (F3 & FT & V3). destruct (abs_inv _ FT) as (Fm3 & VT).
    destruct (add_inv _ _ F3) as (F2 & FC & V2). destruct (abs_inv _ FC) as (Fc & VC).
    destruct (add_inv _ _ F2) as (FA & FB & V1).
    destruct (abs_inv _ FA) as (Fa & VA). destruct (abs_inv _ FB) as (Fb & VB).
    destruct (mul_inv _ _ Fa) as (Fm0 & Fx & Va). destruct (mul_inv _ _ Fb) as (Fm1 & Fy & Vb).
    destruct (mul_inv _ _ Fc) as (Fm2 & Fz & Vc).
    fold a in Va. fold b in Vb. fold c in Vc.
    assert (E1 : B2R (nabs (m0 * x) + nabs (m1 * y)) = RN (Rabs (RN a) + Rabs (RN b))%R) by (rewrite V1, VA, VB, Va, Vb; reflexivity).
    assert (E2 : B2R (nabs (m0 * x) + nabs (m1 * y) + nabs (m2 * z)) = rabs3 a b c) by (rewrite V2, E1, VC, Vc; reflexivity).
    assert (E3 : B2R (fabs4 m0 m1 m2 m3 x y z) = rabs4 a b c t) by (unfold fabs4; rewrite V3, E2, VT; reflexivity).
    split. tauto. split. exact E3.
    (* the value path is dominated by the absolute-value path, which is finite *)
    assert (L1 : (Rabs (RN (RN a + RN b)) <= RN (Rabs (RN a) + Rabs (RN b)))%R) by (apply abs_RN_sum_le; lra).
    assert (L2 : (Rabs (rrow3 a b c) <= rabs3 a b c)%R) by (apply abs_RN_sum_le; [exact L1 | lra]).
    assert (L3 : (Rabs (rrow4 a b c t) <= rabs4 a b c t)%R) by (apply abs_RN_sum_le; [exact L2 | lra]).
    destruct (add_fwd (m0 * x) (m1 * y) Fa Fb) as (G1 & W1).
    { rewrite Va, Vb. apply Rle_lt_trans with (1 := L1). rewrite <- E1.
      apply Rle_lt_trans with (1 := RRle_abs _). apply fin_lt. }
    destruct (add_fwd (m0 * x + m1 * y) (m2 * z) G1 Fc) as (G2 & W2).
    { rewrite W1, Va, Vb, Vc. apply Rle_lt_trans with (1 := L2). rewrite <- E2.
      apply Rle_lt_trans with (1 := RRle_abs _). apply fin_lt. }
    assert (W2' : B2R (frow3 m0 m1 m2 x y z) = rrow3 a b c) by (unfold frow3; rewrite W2, W1, Va, Vb, Vc; reflexivity).
    destruct (add_fwd (frow3 m0 m1 m2 x y z) m3 G2 Fm3) as (G3 & W3).
    { rewrite W2'. apply Rle_lt_trans with (1 := L3). rewrite <- E3.
      apply Rle_lt_trans with (1 := RRle_abs _). apply fin_lt. }
    split. split. exact G2. exact W2'. split. exact G3. unfold frow4. fold (frow3 m0 m1 m2 x y z). rewrite W3, W2'. reflexivity.
  Qed.

  (** the same for the translation-free row of [mul3x3_abs] (what the vector functions report) *)
  Definition fabs3 (m0 m1 m2 x y z : bf) : bf := nabs (m0 * x) + nabs (m1 * y) + nabs (m2 * z).
  Lemma rabs4_t0 : forall a b c, rabs4 a b c 0 = rabs3 a b c.
  Proof. intros. unfold rabs4. rewrite Rabs_R0, Rplus_0_r. apply RN_id. apply format_RN. Qed.
  Lemma rows3_ok : forall m0 m1 m2 x y z : bf, fin (fabs3 m0 m1 m2 x y z) ->
    let a := (B2R m0 * B2R x)%R in let b := (B2R m1 * B2R y)%R in let c := (B2R m2 * B2R z)%R in
    (fin m0 /\ fin m1 /\ fin m2 /\ fin x /\ fin y /\ fin z) /\
    B2R (fabs3 m0 m1 m2 x y z) = rabs4 a b c 0 /\
    (fin (frow3 m0 m1 m2 x y z) /\ B2R (frow3 m0 m1 m2 x y z) = rrow3 a b c).
  Proof.
    intros m0 m1 m2 x y z H a b c. unfold fabs3 in H.
    destruct (add_inv _ _ H) as (F2 & FC & V2). destruct (abs_inv _ FC) as (Fc & VC).
    destruct (add_inv _ _ F2) as (FA & FB & V1).
    destruct (abs_inv _ FA) as (Fa & VA). destruct (abs_inv _ FB) as (Fb & VB).
    destruct (mul_inv _ _ Fa) as (Fm0 & Fx & Va). destruct (mul_inv _ _ Fb) as (Fm1 & Fy & Vb).
    destruct (mul_inv _ _ Fc) as (Fm2 & Fz & Vc).
    fold a in Va. fold b in Vb. fold c in Vc.
    assert (E1 : B2R (nabs (m0 * x) + nabs (m1 * y)) = RN (Rabs (RN a) + Rabs (RN b))%R) by (rewrite V1, VA, VB, Va, Vb; reflexivity).
    assert (E2 : B2R (fabs3 m0 m1 m2 x y z) = rabs3 a b c) by (unfold fabs3; rewrite V2, E1, VC, Vc; reflexivity).
    split. tauto. split. rewrite rabs4_t0. exact E2.
    assert (L1 : (Rabs (RN (RN a + RN b)) <= RN (Rabs (RN a) + Rabs (RN b)))%R) by (apply abs_RN_sum_le; lra).
    assert (L2 : (Rabs (rrow3 a b c) <= rabs3 a b c)%R) by (apply abs_RN_sum_le; [exact L1 | lra]).
    destruct (add_fwd (m0 * x) (m1 * y) Fa Fb) as (G1 & W1).
    { rewrite Va, Vb. apply Rle_lt_trans with (1 := L1). rewrite <- E1.
      apply Rle_lt_trans with (1 := RRle_abs _). apply fin_lt. }
    destruct (add_fwd (m0 * x + m1 * y) (m2 * z) G1 Fc) as (G2 & W2).
    { rewrite W1, Va, Vb, Vc. apply Rle_lt_trans with (1 := L2). rewrite <- E2.
      apply Rle_lt_trans with (1 := RRle_abs _). apply fin_lt. }
    split. exact G2. unfold frow3. rewrite W2, W1, Va, Vb, Vc. reflexivity.
  Qed.

  (** exact small integers and [EPSILON] *)
  Lemma Bnorm_exact : forall mx ex : Z, format (F2R (Float radix2 mx ex)) ->
    (Rabs (F2R (Float radix2 mx ex)) < bpow radix2 emax)%R ->
    let v := BinarySingleNaN.binary_normalize prec emax Hprec Hmax mode_NE mx ex false in
    fin v /\ B2R v = F2R (Float radix2 mx ex).
  Proof.
    intros mx ex Ff Hlt v.
    generalize (binary_normalize_correct prec emax Hprec Hmax mode_NE mx ex false). simpl.
    change (round radix2 (SpecFloat.fexp prec emax) ZnearestE (F2R (Float radix2 mx ex))) with (RN (F2R (Float radix2 mx ex))).
    rewrite (RN_id _ Ff). rewrite Rlt_bool_true by exact Hlt. intros (HR & HF & _). split; assumption.
  Qed.
  Lemma format_int : forall (z e : Z), (Z.abs z < 2 ^ prec)%Z -> (emin <= e)%Z -> format (F2R (Float radix2 z e)).
  Proof.
    intros z e Hz He. apply generic_format_FLT. apply FLT_spec with (Float radix2 z e). reflexivity.
    exact Hz. exact He.
  Qed.
  Lemma pow_prec_big : (256 <= 2 ^ prec)%Z.
  Proof. change 256%Z with (2 ^ 8)%Z. apply Z.pow_le_mono_r; lia. Qed.
  Lemma emax_pow : (512 <= bpow radix2 emax)%R.
  Proof.
    apply Rle_trans with (bpow radix2 9). simpl. lra. apply bpow_le. pose proof emax_big. lia.
  Qed.
  Lemma Bofz_small : forall z, (0 <= z <= 4)%Z ->
    fin (Bofz prec emax Hprec Hmax z) /\ B2R (Bofz prec emax Hprec Hmax z) = IZR z.
  Proof.
    intros z Hz. unfold Bofz.
    assert (E : F2R (Float radix2 z 0) = IZR z) by (unfold F2R; simpl; ring).
    destruct (Bnorm_exact z 0) as (F & V).
    - apply format_int. pose proof pow_prec_big. lia. pose proof emax_big. lia.
    - rewrite E. pose proof emax_pow. rewrite Rabs_pos_eq by (apply IZR_le; lia).
      apply Rle_lt_trans with 4%R. apply IZR_le. lia. lra.
    - split. exact F. rewrite V. exact E.
  Qed.
  Lemma Beps_spec : fin (Beps prec emax Hprec Hmax) /\ B2R (Beps prec emax Hprec Hmax) = (2 * uro)%R.
  Proof.
    unfold Beps.
    assert (E : F2R (Float radix2 1 (1 - prec)) = (2 * uro)%R).
    { rewrite F2R_bpow. unfold uro. replace (1 - prec)%Z with (1 + - prec)%Z by ring. rewrite bpow_plus. reflexivity. }
    destruct (Bnorm_exact 1 (1 - prec)) as (F & V).
    - apply format_int. pose proof pow_prec_big. simpl. lia. pose proof emax_big. lia.
    - rewrite E. pose proof uro_range. pose proof emax_pow. rewrite Rabs_pos_eq; lra.
    - split. exact F. rewrite V. exact E.
  Qed.
  Lemma format_uro : format uro.
  Proof. unfold uro. apply generic_format_bpow. pose proof emax_big. unfold FLT_exp. lia. Qed.
  Lemma format_3uro : format (3 * uro)%R.
  Proof.
    replace (3 * uro)%R with (F2R (Float radix2 3 (- prec))) by (unfold F2R, uro; simpl; ring).
    apply format_int. pose proof pow_prec_big. simpl. lia. pose proof emax_big. lia.
  Qed.
  Lemma format_1m3uro : format (1 - 3 * uro)%R.
  Proof.
    replace (1 - 3 * uro)%R with (F2R (Float radix2 (2 ^ prec - 3) (- prec))).
    - apply format_int. pose proof pow_prec_big. lia. pose proof emax_big. lia.
    - unfold F2R, uro. simpl. rewrite minus_IZR, (IZR_Zpower radix2) by lia.
      rewrite Rmult_minus_distr_r, <- bpow_plus. replace (prec + - prec)%Z with 0%Z by ring. simpl. ring.
  Qed.
  Lemma normal_gamma3 : normal gamma3.
  Proof.
    right. pose proof gamma3_pos. pose proof uro_range as Hu. rewrite Rabs_pos_eq by lra.
    apply Rle_trans with (2 * uro)%R.
    - unfold uro. replace 2%R with (bpow radix2 1) by reflexivity. rewrite <- bpow_plus. apply bpow_le.
      unfold Prec_lt_emax in Hmax. lia.
    - pose proof gamma3_eq. nra.
  Qed.
  Lemma gok_RN_gamma3 : gok (RN gamma3).
  Proof.
    pose proof uro_range as Hu. pose proof gamma3_pos as Hg. pose proof gamma3_eq as He.
    destruct (prod_facts gamma3 normal_gamma3) as (_ & f1 & f2 & _).
    assert (Hr : (0 <= RN gamma3)%R) by (apply RN_nonneg; lra).
    rewrite (Rabs_pos_eq (RN gamma3)) in f1, f2 by exact Hr. rewrite (Rabs_pos_eq gamma3) in f1, f2 by lra.
    split. apply format_RN. split; [|exact f2].
    apply Rle_trans with (gamma3 * (1 - 3 * uro))%R. lra.
    replace (RN gamma3 * ((1 + uro) * (1 - 3 * uro)))%R with (((1 + uro) * RN gamma3) * (1 - 3 * uro))%R by ring.
    apply Rmult_le_compat_r; lra.
  Qed.
  Lemma gamma3_small : (gamma3 <= / 64)%R.
  Proof.
    pose proof uro_range as Hu. unfold gamma3. apply Rmult_le_reg_r with (1 - 3 * uro)%R. lra.
    unfold Rdiv. rewrite Rmult_assoc, Rinv_l by lra. lra.
  Qed.

  (** the [gamma!(3)] macro *)
  Lemma ngamma3_spec : fin (ngamma 3) /\ B2R (ngamma 3) = RN gamma3.
  Proof.
    pose proof uro_range as Hu. pose proof emax_pow as Hemax.
    destruct Beps_spec as (Fe & Ve).
    destruct (Bofz_small 2 ltac:(lia)) as (F2 & V2). destruct (Bofz_small 3 ltac:(lia)) as (F3 & V3).
    destruct (Bofz_small 1 ltac:(lia)) as (F1 & V1).
    unfold ngamma. cbv zeta.
    change (@neps bf NB16) with (Beps prec emax Hprec Hmax). change (@n2 bf NB16) with (Bofz prec emax Hprec Hmax 2).
    change (@nofZ bf NB16 3) with (Bofz prec emax Hprec Hmax 3). change (@n1 bf NB16) with (Bofz prec emax Hprec Hmax 1).
    set (e := Beps prec emax Hprec Hmax) in *. set (b1 := Bofz prec emax Hprec Hmax 1) in *.
    set (b2 := Bofz prec emax Hprec Hmax 2) in *. set (b3 := Bofz prec emax Hprec Hmax 3) in *.
    assert (Q1 : (B2R e / B2R b2)%R = uro) by (rewrite Ve, V2; field).
    destruct (div_fwd e b2 Fe F2) as (Fh & Vh). rewrite V2; lra.
    { rewrite Q1, (RN_id _ format_uro), Rabs_pos_eq; lra. }
    rewrite Q1, (RN_id _ format_uro) in Vh.
    destruct (mul_fwd (e / b2) b3 Fh F3) as (Fn & Vn).
    { rewrite Vh, V3. replace (uro * 3)%R with (3 * uro)%R by ring. rewrite (RN_id _ format_3uro), Rabs_pos_eq; lra. }
    rewrite Vh, V3 in Vn. replace (uro * 3)%R with (3 * uro)%R in Vn by ring. rewrite (RN_id _ format_3uro) in Vn.
    destruct (sub_fwd b1 (e / b2 * b3) F1 Fn) as (Fd & Vd).
    { rewrite V1, Vn, (RN_id _ format_1m3uro), Rabs_pos_eq; lra. }
    rewrite V1, Vn, (RN_id _ format_1m3uro) in Vd.
    destruct (div_fwd (e / b2 * b3) (b1 - e / b2 * b3) Fn Fd) as (Fg & Vg). rewrite Vd; lra.
    { rewrite Vn, Vd. fold gamma3. destruct gok_RN_gamma3 as (_ & _ & Hup). pose proof gamma3_small. pose proof gamma3_pos.
      rewrite Rabs_pos_eq by (apply RN_nonneg; lra). nra. }
    rewrite Vn, Vd in Vg. fold gamma3 in Vg. split; assumption.
  Qed.
  Lemma ngamma3_gok : gok (B2R (ngamma 3)).
  Proof. destruct ngamma3_spec as (_ & ->). apply gok_RN_gamma3. Qed.
  Lemma format_4uro : format (4 * uro)%R.
  Proof.
    replace (4 * uro)%R with (F2R (Float radix2 4 (- prec))) by (unfold F2R, uro; simpl; ring).
    apply format_int. pose proof pow_prec_big. simpl. lia. pose proof emax_big. lia.
  Qed.
  Lemma format_1m4uro : format (1 - 4 * uro)%R.
  Proof.
    replace (1 - 4 * uro)%R with (F2R (Float radix2 (2 ^ prec - 4) (- prec))).
    - apply format_int. pose proof pow_prec_big. lia. pose proof emax_big. lia.
    - unfold F2R, uro. simpl. rewrite minus_IZR, (IZR_Zpower radix2) by lia.
      rewrite Rmult_minus_distr_r, <- bpow_plus. replace (prec + - prec)%Z with 0%Z by ring. simpl. ring.
  Qed.
  Lemma normal_gamma4 : normal gamma4.
  Proof.
    right. pose proof gamma4_pos. pose proof uro_range as Hu. rewrite Rabs_pos_eq by lra.
    apply Rle_trans with (2 * uro)%R.
    - unfold uro. replace 2%R with (bpow radix2 1) by reflexivity. rewrite <- bpow_plus. apply bpow_le.
      unfold Prec_lt_emax in Hmax. lia.
    - pose proof gamma4_eq. nra.
  Qed.
  Lemma gok4_RN_gamma4 : gok4 (RN gamma4).
  Proof.
    pose proof uro_range as Hu. pose proof gamma4_pos as Hg. pose proof gamma4_eq as He.
    destruct (prod_facts gamma4 normal_gamma4) as (_ & f1 & f2 & _).
    assert (Hr : (0 <= RN gamma4)%R) by (apply RN_nonneg; lra).
    rewrite (Rabs_pos_eq (RN gamma4)) in f1, f2 by exact Hr. rewrite (Rabs_pos_eq gamma4) in f1, f2 by lra.
    split. apply format_RN. split; [|exact f2].
    apply Rle_trans with (gamma4 * (1 - 4 * uro))%R. lra.
    replace (RN gamma4 * ((1 + uro) * (1 - 4 * uro)))%R with (((1 + uro) * RN gamma4) * (1 - 4 * uro))%R by ring.
    apply Rmult_le_compat_r; lra.
  Qed.
  Lemma gamma4_small : (gamma4 <= / 32)%R.
  Proof.
    pose proof uro_range as Hu. unfold gamma4. apply Rmult_le_reg_r with (1 - 4 * uro)%R. lra.
    unfold Rdiv. rewrite Rmult_assoc, Rinv_l by lra. lra.
  Qed.

  (** the [gamma!(4)] macro *)
  Lemma ngamma4_spec : fin (ngamma 4) /\ B2R (ngamma 4) = RN gamma4.
  Proof.
    pose proof uro_range as Hu. pose proof emax_pow as Hemax.
    destruct Beps_spec as (Fe & Ve).
    destruct (Bofz_small 2 ltac:(lia)) as (F2 & V2). destruct (Bofz_small 4 ltac:(lia)) as (F3 & V3).
    destruct (Bofz_small 1 ltac:(lia)) as (F1 & V1).
    unfold ngamma. cbv zeta.
    change (@neps bf NB16) with (Beps prec emax Hprec Hmax). change (@n2 bf NB16) with (Bofz prec emax Hprec Hmax 2).
    change (@nofZ bf NB16 4) with (Bofz prec emax Hprec Hmax 4). change (@n1 bf NB16) with (Bofz prec emax Hprec Hmax 1).
    set (e := Beps prec emax Hprec Hmax) in *. set (b1 := Bofz prec emax Hprec Hmax 1) in *.
    set (b2 := Bofz prec emax Hprec Hmax 2) in *. set (b3 := Bofz prec emax Hprec Hmax 4) in *.
    assert (Q1 : (B2R e / B2R b2)%R = uro) by (rewrite Ve, V2; field).
    destruct (div_fwd e b2 Fe F2) as (Fh & Vh). rewrite V2; lra.
    { rewrite Q1, (RN_id _ format_uro), Rabs_pos_eq; lra. }
    rewrite Q1, (RN_id _ format_uro) in Vh.
    destruct (mul_fwd (e / b2) b3 Fh F3) as (Fn & Vn).
    { rewrite Vh, V3. replace (uro * 4)%R with (4 * uro)%R by ring. rewrite (RN_id _ format_4uro), Rabs_pos_eq; lra. }
    rewrite Vh, V3 in Vn. replace (uro * 4)%R with (4 * uro)%R in Vn by ring. rewrite (RN_id _ format_4uro) in Vn.
    destruct (sub_fwd b1 (e / b2 * b3) F1 Fn) as (Fd & Vd).
    { rewrite V1, Vn, (RN_id _ format_1m4uro), Rabs_pos_eq; lra. }
    rewrite V1, Vn, (RN_id _ format_1m4uro) in Vd.
    destruct (div_fwd (e / b2 * b3) (b1 - e / b2 * b3) Fn Fd) as (Fg & Vg). rewrite Vd; lra.
    { rewrite Vn, Vd. fold gamma4. destruct gok4_RN_gamma4 as (_ & _ & Hup). pose proof gamma4_small. pose proof gamma4_pos.
      rewrite Rabs_pos_eq by (apply RN_nonneg; lra). nra. }
    rewrite Vn, Vd in Vg. fold gamma4 in Vg. split; assumption.
  Qed.
  Lemma ngamma4_gok : gok4 (B2R (ngamma 4)).
  Proof. destruct ngamma4_spec as (_ & ->). apply gok4_RN_gamma4. Qed.
  Lemma one_plus_gamma_spec : fin (n1 + ngamma 3) /\ B2R (n1 + ngamma 3) = rG (B2R (ngamma 3)).
  Proof.
    destruct ngamma3_spec as (Fg & Vg). destruct (Bofz_small 1 ltac:(lia)) as (F1 & V1).
    change (@n1 bf NB16) with (Bofz prec emax Hprec Hmax 1).
    destruct (add_fwd (Bofz prec emax Hprec Hmax 1) (ngamma 3) F1 Fg) as (F & V).
    - rewrite V1. fold (rG (B2R (ngamma 3))). destruct (G_facts _ ngamma3_gok) as (_ & G1 & _ & G3 & _).
      pose proof ngamma3_gok as (_ & _ & Hup). pose proof gamma3_small. pose proof uro_range. pose proof emax_pow.
      rewrite Rabs_pos_eq by lra. nra.
    - split. exact F. rewrite V, V1. reflexivity.
  Qed.

  (** ** Components of the model functions *)
  Definition B2V (v : V3 bf) : V3 R := mkV3 (B2R (vx v)) (B2R (vy v)) (B2R (vz v)).
  Definition B2M (m : M4 bf) : M4 R :=
    mkM4 (B2R (m00 m)) (B2R (m01 m)) (B2R (m02 m)) (B2R (m03 m)) (B2R (m10 m)) (B2R (m11 m)) (B2R (m12 m)) (B2R (m13 m))
         (B2R (m20 m)) (B2R (m21 m)) (B2R (m22 m)) (B2R (m23 m)) (B2R (m30 m)) (B2R (m31 m)) (B2R (m32 m)) (B2R (m33 m)).
  Definition fin3 (v : V3 bf) : Prop := fin (vx v) /\ fin (vy v) /\ fin (vz v).
  (** last row exactly (0,0,0,1): the invariant of every constructed / composed transform (C06) *)
  Definition affine_last (m : M4 bf) : Prop :=
    fin (m30 m) /\ fin (m31 m) /\ fin (m32 m) /\ fin (m33 m) /\
    B2R (m30 m) = 0%R /\ B2R (m31 m) = 0%R /\ B2R (m32 m) = 0%R /\ B2R (m33 m) = 1%R.
  (** no product of a matrix entry with a coordinate is non-zero and below 2^(emin+2prec) (binary64: 2^-968) *)
  Definition safe_prods (m : M4 R) (p : V3 R) : Prop :=
    (safe (m00 m * vx p) /\ safe (m01 m * vy p) /\ safe (m02 m * vz p)) /\
    (safe (m10 m * vx p) /\ safe (m11 m * vy p) /\ safe (m12 m * vz p)) /\
    (safe (m20 m * vx p) /\ safe (m21 m * vy p) /\ safe (m22 m * vz p)).
  Definition safe_trans (m : M4 R) : Prop := safe (m03 m) /\ safe (m13 m) /\ safe (m23 m).

  Lemma format_0 : format 0.
  Proof. apply generic_format_0. Qed.
  Lemma safe_0 : safe 0.
  Proof. left. reflexivity. Qed.

  (** the translation-free part ([mul3x3_abs]): the propagated input error, and the whole error of a vector *)
  Lemma fabs3_ok : forall m0 m1 m2 x y z : bf, fin (fabs3 m0 m1 m2 x y z) ->
    B2R (fabs3 m0 m1 m2 x y z) = rabs4 (B2R m0 * B2R x) (B2R m1 * B2R y) (B2R m2 * B2R z) 0.
  Proof. intros m0 m1 m2 x y z H. exact (proj1 (proj2 (rows3_ok m0 m1 m2 x y z H))). Qed.
  Section Comp.
    Variables m0 m1 m2 m3 x y z : bf.
    Let a := (B2R m0 * B2R x)%R.
    Let b := (B2R m1 * B2R y)%R.
    Let c := (B2R m2 * B2R z)%R.
    Let t := B2R m3.
    Let g3 := B2R (@ngamma bf NB16 3).
    Let g4 := B2R (@ngamma bf NB16 4).
    (** what a vector / a point function reports for this row: the vector functions leave the translation entry
        [m3] out ([mul3x3_abs]: three products, two additions), the point functions add it ([mul4x4_abs]) *)
    Let errv : bf := fabs3 m0 m1 m2 x y z * ngamma 3.
    Let errp : bf := fabs4 m0 m1 m2 m3 x y z * ngamma 4.
    Hypothesis Sa : safe a.
    Hypothesis Sb : safe b.
    Hypothesis Sc : safe c.

    Lemma comp_errv : fin errv -> fin (fabs3 m0 m1 m2 x y z) /\ B2R errv = RN (rabs4 a b c 0 * g3)%R.
    Proof.
      intros H. destruct (mul_inv _ _ H) as (F & _ & V). split. exact F.
      destruct (rows3_ok m0 m1 m2 x y z F) as (_ & E & _). unfold errv. rewrite V, E. reflexivity.
    Qed.
    Lemma comp_errp : fin errp -> fin (fabs4 m0 m1 m2 m3 x y z) /\ B2R errp = RN (rabs4 a b c t * g4)%R.
    Proof.
      intros H. destruct (mul_inv _ _ H) as (F & _ & V). split. exact F.
      destruct (rows_ok m0 m1 m2 m3 x y z F) as (_ & E & _). unfold errp. rewrite V, E. reflexivity.
    Qed.
    Lemma comp_vec : fin errv ->
      fin (frow3 m0 m1 m2 x y z) /\ (Rabs (B2R (frow3 m0 m1 m2 x y z) - (a + b + c)) <= B2R errv)%R.
    Proof.
      intros H. destruct (comp_errv H) as (F & V).
      destruct (rows3_ok m0 m1 m2 x y z F) as (_ & _ & (F3 & V3)). split. exact F3.
      rewrite V, V3. apply vec_real; try assumption. apply format_0. apply ngamma3_gok.
    Qed.
    Lemma comp_pt : fin errp ->
      fin (frow4 m0 m1 m2 m3 x y z) /\
      (Rabs (B2R (frow4 m0 m1 m2 m3 x y z) - (a + b + c + t)) <= B2R errp)%R.
    Proof.
      intros H. destruct (comp_errp H) as (F & V).
      destruct (rows_ok m0 m1 m2 m3 x y z F) as (_ & _ & _ & (F4 & V4)). split. exact F4.
      rewrite V, V4. apply pt_real; try assumption. apply format_B2R. apply ngamma4_gok.
    Qed.
    Lemma pow6_le2 : ((1 + uro) ^ 6 * (135 / 100) <= 2)%R.
    Proof.
      pose proof uro_range as Hu.
      assert ((1 + uro) ^ 6 <= (1 + /256) ^ 6)%R by (apply pow_incr; lra). lra.
    Qed.
    (** (M) for a vector row: no translation term on the right-hand side, no hypothesis on [m3] *)
    Lemma comp_M_vec : fin errv ->
      (B2R errv <= 2 * (gamma3 * (Rabs a + Rabs b + Rabs c)))%R.
    Proof.
      intros H. destruct (comp_errv H) as (F & V). rewrite V.
      apply Rle_trans with (1 := E_upper a b c 0 g3 Sa Sb Sc safe_0 format_0 ngamma3_gok).
      rewrite Rabs_R0, Rplus_0_r.
      pose proof uro_range as Hu. pose proof gamma3_pos. pose proof pow6_le2.
      assert (0 <= gamma3 * (Rabs a + Rabs b + Rabs c))%R.
      { apply Rmult_le_pos. lra. pose proof (Rabs_pos a). pose proof (Rabs_pos b). pose proof (Rabs_pos c). lra. }
      apply Rmult_le_compat_r. assumption. assert (0 <= (1 + uro) ^ 6)%R by (apply pow_le; lra). lra.
    Qed.
    (** gamma(4) is 4/3 of the yardstick gamma(3): still within the factor 2 *)
    Lemma E4_le : safe t -> (RN (rabs4 a b c t * g4) <= (1 + uro) ^ 6 * (gamma4 * (Rabs a + Rabs b + Rabs c + Rabs t)))%R.
    Proof. intros St. exact (E_upper4 a b c t g4 Sa Sb Sc St (format_B2R _) ngamma4_gok). Qed.
    Lemma comp_M_pt : safe t -> fin errp ->
      (B2R errp <= 2 * (gamma3 * (Rabs a + Rabs b + Rabs c + Rabs t)))%R.
    Proof.
      intros St H. destruct (comp_errp H) as (F & V). rewrite V.
      apply Rle_trans with (1 := E4_le St).
      pose proof uro_range as Hu. pose proof gamma3_pos. pose proof gamma4_pos. pose proof gamma4_le. pose proof pow6_le2.
      set (Q := (Rabs a + Rabs b + Rabs c + Rabs t)%R).
      assert (HQ : (0 <= Q)%R) by (unfold Q; pose proof (Rabs_pos a); pose proof (Rabs_pos b); pose proof (Rabs_pos c); pose proof (Rabs_pos t); lra).
      assert (P6 : (0 <= (1 + uro) ^ 6)%R) by (apply pow_le; lra).
      apply Rle_trans with ((1 + uro) ^ 6 * (135 / 100 * gamma3 * Q))%R.
      apply Rmult_le_compat_l. exact P6. apply Rmult_le_compat_r; lra.
      replace ((1 + uro) ^ 6 * (135 / 100 * gamma3 * Q))%R with (((1 + uro) ^ 6 * (135 / 100)) * (gamma3 * Q))%R by ring.
      apply Rmult_le_compat_r. apply Rmult_le_pos; lra. lra.
    Qed.

    (** the propagated part, for an input error vector (ex, ey, ez): linear part only *)
    Variables ex ey ez : bf.
    Let pa := (B2R m0 * B2R ex)%R.
    Let pb := (B2R m1 * B2R ey)%R.
    Let pc := (B2R m2 * B2R ez)%R.
    Hypothesis Spa : safe pa.
    Hypothesis Spb : safe pb.
    Hypothesis Spc : safe pc.
    Let perrv : bf := fabs3 m0 m1 m2 ex ey ez * (n1 + ngamma 3) + errv.
    Let perrp : bf := fabs3 m0 m1 m2 ex ey ez * (n1 + ngamma 3) + errp.
    Lemma comp_perrv : fin perrv -> fin errv /\ B2R perrv = rerr a b c pa pb pc 0 0 g3 g3.
    Proof.
      intros H. destruct (add_inv _ _ H) as (F1 & F2 & V). split. exact F2.
      destruct (comp_errv F2) as (_ & V2). destruct (mul_inv _ _ F1) as (Fe & _ & V1).
      pose proof (fabs3_ok m0 m1 m2 ex ey ez Fe) as E. destruct one_plus_gamma_spec as (_ & VG).
      unfold perrv, errv in *. rewrite V, V1, V2, E, VG. reflexivity.
    Qed.
    Lemma comp_perrp : fin perrp -> fin errp /\ B2R perrp = rerr a b c pa pb pc 0 t g3 g4.
    Proof.
      intros H. destruct (add_inv _ _ H) as (F1 & F2 & V). split. exact F2.
      destruct (comp_errp F2) as (_ & V2). destruct (mul_inv _ _ F1) as (Fe & _ & V1).
      pose proof (fabs3_ok m0 m1 m2 ex ey ez Fe) as E. destruct one_plus_gamma_spec as (_ & VG).
      unfold perrp, errp in *. rewrite V, V1, V2, E, VG. reflexivity.
    Qed.
    Lemma comp_vec_box : fin perrv -> forall d : R, (Rabs d <= Rabs pa + Rabs pb + Rabs pc)%R ->
      fin (frow3 m0 m1 m2 x y z) /\
      (Rabs (B2R (frow3 m0 m1 m2 x y z) - (a + b + c + d)) <= (1 + 4 * uro) * B2R perrv)%R.
    Proof.
      intros H d Hd. destruct (comp_perrv H) as (F2 & V). destruct (comp_errv F2) as (F & _).
      destruct (rows3_ok m0 m1 m2 x y z F) as (_ & _ & (F3 & V3)). split. exact F3.
      rewrite V, V3. apply vec_box_real; try assumption; try apply format_0. apply ngamma3_gok.
    Qed.
    Lemma comp_pt_box : fin perrp -> forall d : R, (Rabs d <= Rabs pa + Rabs pb + Rabs pc)%R ->
      fin (frow4 m0 m1 m2 m3 x y z) /\
      (Rabs (B2R (frow4 m0 m1 m2 m3 x y z) - (a + b + c + t + d)) <= (1 + 4 * uro) * B2R perrp)%R.
    Proof.
      intros H d Hd. destruct (comp_perrp H) as (F2 & V). destruct (comp_errp F2) as (F & _).
      destruct (rows_ok m0 m1 m2 m3 x y z F) as (_ & _ & _ & (F4 & V4)). split. exact F4.
      rewrite V, V4. apply pt_box_real; try assumption; try apply format_B2R. apply format_0. apply ngamma3_gok. apply ngamma4_gok.
    Qed.
    (** (M): within a factor 2 of the first-order worst case, whatever the translation *)
    Lemma M_final : forall gm2 E2 T : R, (0 <= gm2)%R -> (gm2 <= 135 / 100 * gamma3)%R ->
      let PP := (Rabs pa + Rabs pb + Rabs pc)%R in let QQ := (Rabs a + Rabs b + Rabs c + Rabs T)%R in
      (E2 <= (1 + 9 * uro) * ((1 + gamma3) * (PP + Rabs 0) + gm2 * QQ) ->
       E2 <= 2 * (gamma3 * QQ + 1 * PP))%R.
    Proof.
      intros gm2 E2 T Hg0 Hg PP QQ H. apply Rle_trans with (1 := H).
      rewrite Rabs_R0, Rplus_0_r. pose proof uro_range as Hu. pose proof gamma3_pos. pose proof gamma3_small.
      assert (P : (0 <= PP)%R) by (unfold PP; pose proof (Rabs_pos pa); pose proof (Rabs_pos pb); pose proof (Rabs_pos pc); lra).
      assert (Q : (0 <= QQ)%R) by (unfold QQ; pose proof (Rabs_pos a); pose proof (Rabs_pos b); pose proof (Rabs_pos c); pose proof (Rabs_pos T); lra).
      assert (C1 : ((1 + 9 * uro) * (1 + gamma3) <= 2)%R) by nra.
      assert (K1 : ((1 + 9 * uro) * ((1 + gamma3) * PP) <= 2 * PP)%R).
      { replace ((1 + 9 * uro) * ((1 + gamma3) * PP))%R with (((1 + 9 * uro) * (1 + gamma3)) * PP)%R by ring.
        apply Rmult_le_compat_r; lra. }
      assert (K4 : (0 <= gamma3 * QQ)%R) by (apply Rmult_le_pos; lra).
      assert (K3 : (gm2 * QQ <= 135 / 100 * (gamma3 * QQ))%R).
      { replace (135 / 100 * (gamma3 * QQ))%R with ((135 / 100 * gamma3) * QQ)%R by ring. apply Rmult_le_compat_r; lra. }
      assert (K5 : (0 <= gm2 * QQ)%R) by (apply Rmult_le_pos; lra).
      assert (K2 : ((1 + 9 * uro) * (gm2 * QQ) <= 2 * (gamma3 * QQ))%R).
      { apply Rle_trans with ((1 + 9 * uro) * (135 / 100 * (gamma3 * QQ)))%R. apply Rmult_le_compat_l; lra.
        replace ((1 + 9 * uro) * (135 / 100 * (gamma3 * QQ)))%R with (((1 + 9 * uro) * (135 / 100)) * (gamma3 * QQ))%R by ring.
        apply Rmult_le_compat_r; lra. }
      lra.
    Qed.
    (** vectors: the translation entry appears nowhere, neither in the code nor in the yardstick *)
    Lemma comp_M_perrv : fin perrv ->
      (B2R perrv <= 2 * (gamma3 * (Rabs a + Rabs b + Rabs c) + 1 * (Rabs pa + Rabs pb + Rabs pc)))%R.
    Proof.
      intros H. destruct (comp_perrv H) as (F2 & V). rewrite V. pose proof gamma3_pos.
      replace (Rabs a + Rabs b + Rabs c)%R with (Rabs a + Rabs b + Rabs c + Rabs 0)%R by (rewrite Rabs_R0; ring).
      apply (M_final gamma3). lra. lra.
      apply err_upper; try assumption. apply safe_0. apply format_0. apply ngamma3_gok. lra.
      apply E_pos. apply ngamma3_gok.
      exact (E_upper a b c 0 g3 Sa Sb Sc safe_0 format_0 ngamma3_gok).
    Qed.
    Lemma comp_M_perrp : safe t -> fin perrp ->
      (B2R perrp <= 2 * (gamma3 * (Rabs a + Rabs b + Rabs c + Rabs t) + 1 * (Rabs pa + Rabs pb + Rabs pc)))%R.
    Proof.
      intros St H. destruct (comp_perrp H) as (F2 & V). rewrite V. pose proof gamma4_pos.
      apply (M_final gamma4 _ t). lra. apply gamma4_le.
      apply err_upper; try assumption. apply safe_0. apply format_0. apply ngamma3_gok. lra.
      apply E_pos4. apply ngamma4_gok.
      exact (E4_le St).
    Qed.
  End Comp.

  (** the bottom row of an affine matrix evaluates to exactly 1, so the division by [w] is exact *)
  Lemma w_one : forall m30 m31 m32 m33 x y z : bf,
    fin m30 -> fin m31 -> fin m32 -> fin m33 -> B2R m30 = 0%R -> B2R m31 = 0%R -> B2R m32 = 0%R -> B2R m33 = 1%R ->
    fin x -> fin y -> fin z ->
    fin (frow4 m30 m31 m32 m33 x y z) /\ B2R (frow4 m30 m31 m32 m33 x y z) = 1%R.
  Proof.
    intros m30 m31 m32 m33 x y z F0 F1 F2 F3 V0 V1 V2 V3 Fx Fy Fz.
    assert (P : forall m v : bf, fin m -> fin v -> B2R m = 0%R -> fin (m * v) /\ B2R (m * v) = 0%R).
    { intros m v Fm Fv Vm. destruct (mul_fwd m v Fm Fv) as (F & V).
      rewrite Vm, Rmult_0_l, (RN_0 prec emax), Rabs_R0. apply bpow_gt_0.
      split. exact F. rewrite V, Vm, Rmult_0_l. apply (RN_0 prec emax). }
    destruct (P _ _ F0 Fx V0) as (Fa & Va). destruct (P _ _ F1 Fy V1) as (Fb & Vb). destruct (P _ _ F2 Fz V2) as (Fc & Vc).
    destruct (add_fwd _ _ Fa Fb) as (G1 & W1). rewrite Va, Vb, Rplus_0_l, (RN_0 prec emax), Rabs_R0. apply bpow_gt_0.
    rewrite Va, Vb, Rplus_0_l, (RN_0 prec emax) in W1.
    destruct (add_fwd _ _ G1 Fc) as (G2 & W2). rewrite W1, Vc, Rplus_0_l, (RN_0 prec emax), Rabs_R0. apply bpow_gt_0.
    rewrite W1, Vc, Rplus_0_l, (RN_0 prec emax) in W2.
    destruct (add_fwd _ _ G2 F3) as (G3 & W3).
    { rewrite W2, V3, Rplus_0_l, (RN_id _ format_1), Rabs_pos_eq by lra. pose proof emax_pow. lra. }
    rewrite W2, V3, Rplus_0_l, (RN_id _ format_1) in W3. split. exact G3. exact W3.
  Qed.

  Lemma lin_dev : forall m0 m1 m2 p1 p2 p3 e1 e2 e3 x1 x2 x3 : R,
    (Rabs (x1 - p1) <= e1 -> Rabs (x2 - p2) <= e2 -> Rabs (x3 - p3) <= e3 ->
     Rabs (m0 * (x1 - p1) + m1 * (x2 - p2) + m2 * (x3 - p3)) <= Rabs (m0 * e1) + Rabs (m1 * e2) + Rabs (m2 * e3))%R.
  Proof.
    intros m0 m1 m2 p1 p2 p3 e1 e2 e3 x1 x2 x3 H1 H2 H3.
    assert (A : forall m d e : R, (Rabs d <= e -> Rabs (m * d) <= Rabs (m * e))%R).
    { intros m d e H. rewrite !Rabs_mult. apply Rmult_le_compat_l. apply Rabs_pos.
      apply Rle_trans with (1 := H). apply RRle_abs. }
    pose proof (A m0 _ _ H1). pose proof (A m1 _ _ H2). pose proof (A m2 _ _ H3).
    pose proof (Rabs_triang (m0 * (x1 - p1) + m1 * (x2 - p2)) (m2 * (x3 - p3))).
    pose proof (Rabs_triang (m0 * (x1 - p1)) (m1 * (x2 - p2))). lra.
  Qed.

  (** ** The model functions, row by row *)
  Definition ent (m : M4 bf) (i j : nat) : bf :=
    match i, j with
    | 0, 0 => m00 m | 0, 1 => m01 m | 0, 2 => m02 m | 0, _ => m03 m
    | 1, 0 => m10 m | 1, 1 => m11 m | 1, 2 => m12 m | 1, _ => m13 m
    | 2, 0 => m20 m | 2, 1 => m21 m | 2, 2 => m22 m | 2, _ => m23 m
    | _, 0 => m30 m | _, 1 => m31 m | _, 2 => m32 m | _, _ => m33 m
    end%nat.
  Definition row3 (m : M4 bf) (i : nat) (v : V3 bf) : bf := frow3 (ent m i 0) (ent m i 1) (ent m i 2) (vx v) (vy v) (vz v).
  Definition row4 (m : M4 bf) (i : nat) (v : V3 bf) : bf := frow4 (ent m i 0) (ent m i 1) (ent m i 2) (ent m i 3) (vx v) (vy v) (vz v).
  Definition rowa (m : M4 bf) (i : nat) (v : V3 bf) : bf := fabs4 (ent m i 0) (ent m i 1) (ent m i 2) (ent m i 3) (vx v) (vy v) (vz v).
  Definition rowl (m : M4 bf) (i : nat) (v : V3 bf) : bf := fabs3 (ent m i 0) (ent m i 1) (ent m i 2) (vx v) (vy v) (vz v).

  Lemma vec_we_eq : forall m v, vec_with_error m v =
    (mkV3 (row3 m 0 v) (row3 m 1 v) (row3 m 2 v),
     mkV3 (rowl m 0 v * ngamma 3) (rowl m 1 v * ngamma 3) (rowl m 2 v * ngamma 3)).
  Proof. reflexivity. Qed.
  Lemma pt_we_eq : forall m p, pt_with_error m p =
    (mkV3 (row4 m 0 p / row4 m 3 p) (row4 m 1 p / row4 m 3 p) (row4 m 2 p / row4 m 3 p),
     mkV3 (rowa m 0 p * ngamma 4) (rowa m 1 p * ngamma 4) (rowa m 2 p * ngamma 4)).
  Proof. reflexivity. Qed.
  Lemma vec_pe_eq : forall m v e, vec_propagate_error m v e =
    (mkV3 (row3 m 0 v) (row3 m 1 v) (row3 m 2 v),
     mkV3 (rowl m 0 e * (n1 + ngamma 3) + rowl m 0 v * ngamma 3) (rowl m 1 e * (n1 + ngamma 3) + rowl m 1 v * ngamma 3)
          (rowl m 2 e * (n1 + ngamma 3) + rowl m 2 v * ngamma 3)).
  Proof. reflexivity. Qed.
  Lemma pt_pe_eq : forall m p e, pt_propagate_error m p e =
    (mkV3 (row4 m 0 p / row4 m 3 p) (row4 m 1 p / row4 m 3 p) (row4 m 2 p / row4 m 3 p),
     mkV3 (rowl m 0 e * (n1 + ngamma 3) + rowa m 0 p * ngamma 4) (rowl m 1 e * (n1 + ngamma 3) + rowa m 1 p * ngamma 4)
          (rowl m 2 e * (n1 + ngamma 3) + rowa m 2 p * ngamma 4)).
  Proof. reflexivity. Qed.

  Ltac expose := unfold first_order, first_order_vec; unfold fin3, safe_prods, safe_trans, within, inbox, vle, lin2, vaddR, vscaleR, V0, img_vec, img_pt, abs_img, abs_trans,
    B2V, B2M, row3, row4, rowa, rowl, ent;
    cbn [fst snd vx vy vz m00 m01 m02 m03 m10 m11 m12 m13 m20 m21 m22 m23 m30 m31 m32 m33].

  (** the inputs are finite as soon as one reported error component is *)
  Lemma fin_inputs : forall m0 m1 m2 m3 x y z k : bf, fin (fabs4 m0 m1 m2 m3 x y z * k) -> fin x /\ fin y /\ fin z.
  Proof.
    intros m0 m1 m2 m3 x y z k H. destruct (mul_inv _ _ H) as (F & _).
    destruct (rows_ok m0 m1 m2 m3 x y z F) as (Fs & _). tauto.
  Qed.

  (** *** (S) vectors *)
  Theorem S_vec : forall (m : M4 bf) (v : V3 bf),
    let re := vec_with_error m v in
    fin3 (snd re) -> safe_prods (B2M m) (B2V v) ->
    fin3 (fst re) /\ within 1 (B2V (fst re)) (img_vec (B2M m) (B2V v)) (B2V (snd re)).
  Proof.
    intros m v re. unfold re. rewrite vec_we_eq. expose.
    intros (Hx & Hy & Hz) ((a1 & a2 & a3) & (b1 & b2 & b3) & (c1 & c2 & c3)).
    destruct (comp_vec (m00 m) (m01 m) (m02 m) (vx v) (vy v) (vz v) a1 a2 a3 Hx) as (Fx & Ex).
    destruct (comp_vec (m10 m) (m11 m) (m12 m) (vx v) (vy v) (vz v) b1 b2 b3 Hy) as (Fy & Ey).
    destruct (comp_vec (m20 m) (m21 m) (m22 m) (vx v) (vy v) (vz v) c1 c2 c3 Hz) as (Fz & Ez).
    rewrite !Rmult_1_l. tauto.
  Qed.

  (** *** (S) vectors with an input box: PARTIAL, factor (1+4u) (see Properties/C16.v for what is missing) *)
  Theorem S_vec_box : forall (m : M4 bf) (v e : V3 bf),
    let re := vec_propagate_error m v e in
    fin3 (snd re) -> safe_prods (B2M m) (B2V v) -> safe_prods (B2M m) (B2V e) ->
    fin3 (fst re) /\
    forall x' : V3 R, inbox (B2V v) (B2V e) x' -> within (1 + 4 * uro) (B2V (fst re)) (img_vec (B2M m) x') (B2V (snd re)).
  Proof.
    intros m v e re. unfold re. rewrite vec_pe_eq. expose.
    intros (Hx & Hy & Hz) ((a1 & a2 & a3) & (b1 & b2 & b3) & (c1 & c2 & c3)) ((p1 & p2 & p3) & (q1 & q2 & q3) & (r1 & r2 & r3)).
    pose proof (fun d => comp_vec_box (m00 m) (m01 m) (m02 m) (vx v) (vy v) (vz v) a1 a2 a3 (vx e) (vy e) (vz e) p1 p2 p3 Hx d) as Cx.
    pose proof (fun d => comp_vec_box (m10 m) (m11 m) (m12 m) (vx v) (vy v) (vz v) b1 b2 b3 (vx e) (vy e) (vz e) q1 q2 q3 Hy d) as Cy.
    pose proof (fun d => comp_vec_box (m20 m) (m21 m) (m22 m) (vx v) (vy v) (vz v) c1 c2 c3 (vx e) (vy e) (vz e) r1 r2 r3 Hz d) as Cz.
    split.
    - destruct (Cx 0%R) as (F1 & _). rewrite Rabs_R0. repeat apply Rplus_le_le_0_compat; apply Rabs_pos.
      destruct (Cy 0%R) as (F2 & _). rewrite Rabs_R0. repeat apply Rplus_le_le_0_compat; apply Rabs_pos.
      destruct (Cz 0%R) as (F3 & _). rewrite Rabs_R0. repeat apply Rplus_le_le_0_compat; apply Rabs_pos. tauto.
    - intros [x1 x2 x3]. cbn [vx vy vz]. intros (I1 & I2 & I3).
      split; [|split].
      + destruct (Cx _ (lin_dev (B2R (m00 m)) (B2R (m01 m)) (B2R (m02 m)) _ _ _ _ _ _ _ _ _ I1 I2 I3)) as (_ & E).
        match goal with |- (Rabs (_ - ?I) <= _)%R => match type of E with (Rabs (_ - ?J) <= _)%R => replace I with J by ring end end. exact E.
      + destruct (Cy _ (lin_dev (B2R (m10 m)) (B2R (m11 m)) (B2R (m12 m)) _ _ _ _ _ _ _ _ _ I1 I2 I3)) as (_ & E).
        match goal with |- (Rabs (_ - ?I) <= _)%R => match type of E with (Rabs (_ - ?J) <= _)%R => replace I with J by ring end end. exact E.
      + destruct (Cz _ (lin_dev (B2R (m20 m)) (B2R (m21 m)) (B2R (m22 m)) _ _ _ _ _ _ _ _ _ I1 I2 I3)) as (_ & E).
        match goal with |- (Rabs (_ - ?I) <= _)%R => match type of E with (Rabs (_ - ?J) <= _)%R => replace I with J by ring end end. exact E.
  Qed.

  (** the value part of a point function: each component is [row / w] with [w = 1] *)
  Lemma pt_value : forall (m : M4 bf) (p : V3 bf) (i : nat), affine_last m -> fin3 p -> fin (row4 m i p) ->
    fin (row4 m i p / row4 m 3 p) /\ B2R (row4 m i p / row4 m 3 p) = B2R (row4 m i p).
  Proof.
    intros m p i (F0 & F1 & F2 & F3 & V0' & V1 & V2 & V3) (Fx & Fy & Fz) Fr.
    destruct (w_one (m30 m) (m31 m) (m32 m) (m33 m) (vx p) (vy p) (vz p) F0 F1 F2 F3 V0' V1 V2 V3 Fx Fy Fz) as (Fw & Vw).
    apply div_one; assumption.
  Qed.

  (** *** (S) points: TRUE at factor 1 since the bound uses gamma(4) *)
  Theorem S_pt : forall (m : M4 bf) (p : V3 bf),
    let re := pt_with_error m p in
    affine_last m -> fin3 (snd re) -> safe_prods (B2M m) (B2V p) ->
    fin3 (fst re) /\ within 1 (B2V (fst re)) (img_pt (B2M m) (B2V p)) (B2V (snd re)).
  Proof.
    intros m p re Haff. unfold re. rewrite pt_we_eq. expose.
    intros (Hx & Hy & Hz) ((a1 & a2 & a3) & (b1 & b2 & b3) & (c1 & c2 & c3)).
    assert (Fp : fin3 p) by (exact (fin_inputs _ _ _ _ _ _ _ _ Hx)).
    destruct (comp_pt (m00 m) (m01 m) (m02 m) (m03 m) (vx p) (vy p) (vz p) a1 a2 a3 Hx) as (Fx & Ex).
    destruct (comp_pt (m10 m) (m11 m) (m12 m) (m13 m) (vx p) (vy p) (vz p) b1 b2 b3 Hy) as (Fy & Ey).
    destruct (comp_pt (m20 m) (m21 m) (m22 m) (m23 m) (vx p) (vy p) (vz p) c1 c2 c3 Hz) as (Fz & Ez).
    destruct (pt_value m p 0 Haff Fp Fx) as (Gx & Wx). destruct (pt_value m p 1 Haff Fp Fy) as (Gy & Wy).
    destruct (pt_value m p 2 Haff Fp Fz) as (Gz & Wz).
    unfold row4, ent in Gx, Gy, Gz, Wx, Wy, Wz. rewrite Wx, Wy, Wz. rewrite !Rmult_1_l.
    split. tauto. tauto.
  Qed.

  (** *** (S) points with an input box: PARTIAL, factor (1+4u) *)
  Theorem S_pt_box : forall (m : M4 bf) (p e : V3 bf),
    let re := pt_propagate_error m p e in
    affine_last m -> fin3 (snd re) -> safe_prods (B2M m) (B2V p) -> safe_prods (B2M m) (B2V e) ->
    fin3 (fst re) /\
    forall x' : V3 R, inbox (B2V p) (B2V e) x' -> within (1 + 4 * uro) (B2V (fst re)) (img_pt (B2M m) x') (B2V (snd re)).
  Proof.
    intros m p e re Haff. unfold re. rewrite pt_pe_eq. expose.
    intros (Hx & Hy & Hz) ((a1 & a2 & a3) & (b1 & b2 & b3) & (c1 & c2 & c3)) ((p1 & p2 & p3) & (q1 & q2 & q3) & (r1 & r2 & r3)).
    assert (Fp : fin3 p). { destruct (add_inv _ _ Hx) as (_ & H2 & _). exact (fin_inputs _ _ _ _ _ _ _ _ H2). }
    pose proof (fun d => comp_pt_box (m00 m) (m01 m) (m02 m) (m03 m) (vx p) (vy p) (vz p) a1 a2 a3 (vx e) (vy e) (vz e) p1 p2 p3 Hx d) as Cx.
    pose proof (fun d => comp_pt_box (m10 m) (m11 m) (m12 m) (m13 m) (vx p) (vy p) (vz p) b1 b2 b3 (vx e) (vy e) (vz e) q1 q2 q3 Hy d) as Cy.
    pose proof (fun d => comp_pt_box (m20 m) (m21 m) (m22 m) (m23 m) (vx p) (vy p) (vz p) c1 c2 c3 (vx e) (vy e) (vz e) r1 r2 r3 Hz d) as Cz.
    assert (Z : (Rabs 0 <= Rabs (B2R (m00 m) * B2R (vx e)) + Rabs (B2R (m01 m) * B2R (vy e)) + Rabs (B2R (m02 m) * B2R (vz e)))%R)
      by (rewrite Rabs_R0; repeat apply Rplus_le_le_0_compat; apply Rabs_pos).
    assert (Z1 : (Rabs 0 <= Rabs (B2R (m10 m) * B2R (vx e)) + Rabs (B2R (m11 m) * B2R (vy e)) + Rabs (B2R (m12 m) * B2R (vz e)))%R)
      by (rewrite Rabs_R0; repeat apply Rplus_le_le_0_compat; apply Rabs_pos).
    assert (Z2 : (Rabs 0 <= Rabs (B2R (m20 m) * B2R (vx e)) + Rabs (B2R (m21 m) * B2R (vy e)) + Rabs (B2R (m22 m) * B2R (vz e)))%R)
      by (rewrite Rabs_R0; repeat apply Rplus_le_le_0_compat; apply Rabs_pos).
    destruct (Cx 0%R Z) as (Fx & _). destruct (Cy 0%R Z1) as (Fy & _). destruct (Cz 0%R Z2) as (Fz & _).
    destruct (pt_value m p 0 Haff Fp Fx) as (Gx & Wx). destruct (pt_value m p 1 Haff Fp Fy) as (Gy & Wy).
    destruct (pt_value m p 2 Haff Fp Fz) as (Gz & Wz).
    unfold row4, ent in Gx, Gy, Gz, Wx, Wy, Wz. rewrite Wx, Wy, Wz.
    split. tauto.
    intros [x1 x2 x3]. cbn [vx vy vz]. intros (I1 & I2 & I3).
    split; [|split].
    + destruct (Cx _ (lin_dev (B2R (m00 m)) (B2R (m01 m)) (B2R (m02 m)) _ _ _ _ _ _ _ _ _ I1 I2 I3)) as (_ & E).
      match goal with |- (Rabs (_ - ?I) <= _)%R => match type of E with (Rabs (_ - ?J) <= _)%R => replace I with J by ring end end. exact E.
    + destruct (Cy _ (lin_dev (B2R (m10 m)) (B2R (m11 m)) (B2R (m12 m)) _ _ _ _ _ _ _ _ _ I1 I2 I3)) as (_ & E).
      match goal with |- (Rabs (_ - ?I) <= _)%R => match type of E with (Rabs (_ - ?J) <= _)%R => replace I with J by ring end end. exact E.
    + destruct (Cz _ (lin_dev (B2R (m20 m)) (B2R (m21 m)) (B2R (m22 m)) _ _ _ _ _ _ _ _ _ I1 I2 I3)) as (_ & E).
      match goal with |- (Rabs (_ - ?I) <= _)%R => match type of E with (Rabs (_ - ?J) <= _)%R => replace I with J by ring end end. exact E.
  Qed.

  (** *** (M), the two point [*_with_error] functions: within a factor 2 of gamma3 (sum |m_ij x_j| + |m_i3|) --
      a point's image does add the translation entry, so its rounding is part of the first-order worst case *)
  Theorem M_with_error : forall (m : M4 bf) (p : V3 bf), safe_prods (B2M m) (B2V p) -> safe_trans (B2M m) ->
    fin3 (snd (pt_with_error m p)) -> vle (B2V (snd (pt_with_error m p))) (vscaleR 2 (first_order gamma3 (B2M m) (B2V p) V0)).
  Proof.
    intros m p. rewrite pt_we_eq. expose.
    intros ((a1 & a2 & a3) & (b1 & b2 & b3) & (c1 & c2 & c3)) (t1 & t2 & t3).
    rewrite !Rmult_0_r, Rabs_R0, !Rmult_1_l, !Rplus_0_r. intros (Hx & Hy & Hz).
    pose proof (comp_M_pt (m00 m) (m01 m) (m02 m) (m03 m) (vx p) (vy p) (vz p) a1 a2 a3 t1 Hx).
    pose proof (comp_M_pt (m10 m) (m11 m) (m12 m) (m13 m) (vx p) (vy p) (vz p) b1 b2 b3 t2 Hy).
    pose proof (comp_M_pt (m20 m) (m21 m) (m22 m) (m23 m) (vx p) (vy p) (vz p) c1 c2 c3 t3 Hz).
    repeat split; lra.
  Qed.

  (** *** (M), the two vector [*_with_error] functions: within a factor 2 of gamma3 sum |m_ij v_j| -- NO translation
      term on the right, NO hypothesis on the translation entries: whatever the size of the translation *)
  Theorem M_vec_with_error : forall (m : M4 bf) (v : V3 bf), safe_prods (B2M m) (B2V v) ->
    fin3 (snd (vec_with_error m v)) ->
    vle (B2V (snd (vec_with_error m v))) (vscaleR 2 (vscaleR gamma3 (abs_img (B2M m) (B2V v)))).
  Proof.
    intros m v. rewrite vec_we_eq. expose.
    intros ((a1 & a2 & a3) & (b1 & b2 & b3) & (c1 & c2 & c3)) (Hx & Hy & Hz).
    pose proof (comp_M_vec (m00 m) (m01 m) (m02 m) (vx v) (vy v) (vz v) a1 a2 a3 Hx).
    pose proof (comp_M_vec (m10 m) (m11 m) (m12 m) (vx v) (vy v) (vz v) b1 b2 b3 Hy).
    pose proof (comp_M_vec (m20 m) (m21 m) (m22 m) (vx v) (vy v) (vz v) c1 c2 c3 Hz).
    repeat split; lra.
  Qed.

  (** *** (M), the two point [*_propagate_error] functions: within a factor 2 of the first-order worst case,
      WHATEVER the translation (the incoming error no longer meets the translation column) *)
  Theorem M_propagate : forall (m : M4 bf) (p e : V3 bf),
    safe_prods (B2M m) (B2V p) -> safe_prods (B2M m) (B2V e) -> safe_trans (B2M m) ->
    fin3 (snd (pt_propagate_error m p e)) ->
    vle (B2V (snd (pt_propagate_error m p e))) (vscaleR 2 (first_order gamma3 (B2M m) (B2V p) (B2V e))).
  Proof.
    intros m p e. rewrite pt_pe_eq. expose.
    intros ((a1 & a2 & a3) & (b1 & b2 & b3) & (c1 & c2 & c3)) ((p1 & p2 & p3) & (q1 & q2 & q3) & (r1 & r2 & r3)) (t1 & t2 & t3).
    intros (Hx & Hy & Hz).
    pose proof (comp_M_perrp (m00 m) (m01 m) (m02 m) (m03 m) (vx p) (vy p) (vz p) a1 a2 a3 (vx e) (vy e) (vz e) p1 p2 p3 t1 Hx).
    pose proof (comp_M_perrp (m10 m) (m11 m) (m12 m) (m13 m) (vx p) (vy p) (vz p) b1 b2 b3 (vx e) (vy e) (vz e) q1 q2 q3 t2 Hy).
    pose proof (comp_M_perrp (m20 m) (m21 m) (m22 m) (m23 m) (vx p) (vy p) (vz p) c1 c2 c3 (vx e) (vy e) (vz e) r1 r2 r3 t3 Hz).
    tauto.
  Qed.

  (** *** (M), the two vector [*_propagate_error] functions: within a factor 2 of
      gamma3 sum |m_ij v_j| + sum |m_ij e_j| -- no translation term, no hypothesis on the translation entries *)
  Theorem M_vec_propagate : forall (m : M4 bf) (v e : V3 bf),
    safe_prods (B2M m) (B2V v) -> safe_prods (B2M m) (B2V e) ->
    fin3 (snd (vec_propagate_error m v e)) ->
    vle (B2V (snd (vec_propagate_error m v e))) (vscaleR 2 (first_order_vec gamma3 (B2M m) (B2V v) (B2V e))).
  Proof.
    intros m v e. rewrite vec_pe_eq. expose.
    intros ((a1 & a2 & a3) & (b1 & b2 & b3) & (c1 & c2 & c3)) ((p1 & p2 & p3) & (q1 & q2 & q3) & (r1 & r2 & r3)).
    intros (Hx & Hy & Hz).
    pose proof (comp_M_perrv (m00 m) (m01 m) (m02 m) (vx v) (vy v) (vz v) a1 a2 a3 (vx e) (vy e) (vz e) p1 p2 p3 Hx).
    pose proof (comp_M_perrv (m10 m) (m11 m) (m12 m) (vx v) (vy v) (vz v) b1 b2 b3 (vx e) (vy e) (vz e) q1 q2 q3 Hy).
    pose proof (comp_M_perrv (m20 m) (m21 m) (m22 m) (vx v) (vy v) (vz v) c1 c2 c3 (vx e) (vy e) (vz e) r1 r2 r3 Hz).
    tauto.
  Qed.
End C16_float.

(** ** binary64: witnesses.  Every matrix below is the one the REAL crate stores for the quoted constructor chain
    (read through [verif_elements] by the harness; the chain and the operands are the first cases of the C16 stream). *)
Local Open Scope R_scope.
Notation fS s m e := (B64ofSF (S754_finite s m e)).
Notation fZ := (B64ofSF (S754_zero false)).

Ltac b2r_hyp H :=
  repeat match type of H with context [B2R ?v] =>
    let s := eval vm_compute in (B2SF v) in rewrite (B2R_of_SF v s) in H by (vm_compute; reflexivity) end.
Ltac b2r_goal :=
  repeat match goal with |- context [B2R ?v] =>
    let s := eval vm_compute in (B2SF v) in rewrite (B2R_of_SF v s) by (vm_compute; reflexivity) end.
Lemma SF2R_zero : forall s, SF2R radix2 (S754_zero s) = 0.
Proof. reflexivity. Qed.
Lemma SF2R_fin_pos0 : forall s m, SF2R radix2 (S754_finite s m 0) = IZR (cond_Zopp s (Zpos m)).
Proof. intros. unfold SF2R, F2R. simpl. ring. Qed.
Ltac sf_lit := rewrite ?SF2R_zero, ?SF2R_fin_neg, ?SF2R_fin_pos0 in *; cbn [cond_Zopp Z.opp] in *; norm_pow.

Lemma uro53 : uro 53 = / 9007199254740992.
Proof. reflexivity. Qed.
Lemma tiny64 : tiny 53 1024 = / IZR (Z.pow_pos 2 968).
Proof. reflexivity. Qed.
Lemma safe64_big : forall x, / 1000000000000000000000000000000 <= Rabs x -> safe 53 1024 x.
Proof.
  intros x H. right. apply Rle_trans with (2 := H). rewrite tiny64.
  apply Rinv_le_contravar. lra. apply IZR_le. vm_compute. discriminate.
Qed.
Lemma safe64_0l : forall x, safe 53 1024 (0 * x).
Proof. intros. left. ring. Qed.
Lemma safe64_0r : forall x, safe 53 1024 (x * 0).
Proof. intros. left. ring. Qed.

(** [translate(0.1,0,0) . rotate_z(20) . rotate_x(35)], as stored by the crate *)
Definition wS_m : M4 b64 := mkM4
  (fS false 8463998673628444 (-53)) (fS true 5047030972679166 (-54)) (fS false 7067938265295672 (-55)) (fS false 7205759403792794 (-56))
  (fS false 6161287160138741 (-54)) (fS false 6933301816362055 (-53)) (fS true 4854750196499783 (-53)) fZ
  fZ (fS false 5166317250038136 (-53)) (fS false 7378265682839367 (-53)) fZ
  fZ fZ fZ (fS false 4503599627370496 (-52)).
(** the point (0.5320888862385273, -1.7846530571159382, 5.659924931209981e-16): all six roundings of row 0 err upwards *)
Definition wS_p : V3 b64 := mkV3 (fS false 4792630619583628 (-53)) (fS true 8037362843012956 (-52)) (fS false 5739845789036042 (-103)).
(** an input error box of 1e-9 *)
Definition wS_e : V3 b64 := mkV3 (fS false 4835703278458517 (-82)) (fS false 4835703278458517 (-82)) (fS false 4835703278458517 (-82)).

Lemma wS_affine : affine_last 53 1024 wS_m.
Proof.
  unfold affine_last, wS_m. cbn [m30 m31 m32 m33].
  repeat split; try (vm_compute; reflexivity); b2r_goal; sf_lit; lra.
Qed.
Lemma wS_fin : fin3 53 1024 (snd (@pt_with_error _ NumB64 wS_m wS_p)).
Proof. unfold fin3. repeat split; vm_compute; reflexivity. Qed.
Ltac safe_tac := first [ apply safe64_0l | apply safe64_0r | apply safe64_big; b2r_goal; sf_lit;
  match goal with |- _ <= Rabs ?x => first [ rewrite (Rabs_pos_eq x) by lra | rewrite (Rabs_left1 x) by lra ] end; lra ].
Lemma wS_safe : safe_prods 53 1024 (B2M 53 1024 wS_m) (B2V 53 1024 wS_p).
Proof.
  unfold safe_prods, B2M, B2V, wS_m, wS_p.
  cbn [vx vy vz m00 m01 m02 m03 m10 m11 m12 m13 m20 m21 m22 m23 m30 m31 m32 m33].
  repeat split; b2r_goal; sf_lit; safe_tac.
Qed.

Lemma wS_fin_pinned : fin3 53 1024 (snd (@pt_with_error_pinned _ NumB64 wS_m wS_p)).
Proof. unfold fin3. repeat split; vm_compute; reflexivity. Qed.
(** (S) was FALSE for points with gamma(3) (code before fix: 34af114): the exact image of [wS_p] under the stored
    matrix [wS_m] is further from the returned point than the returned error (x component; ratio 1.136), all guards holding. *)
Lemma S_point_pinned_refuted : exists (m : M4 b64) (p : V3 b64),
  let re := @pt_with_error_pinned _ NumB64 m p in
  affine_last 53 1024 m /\ fin3 53 1024 (snd re) /\ safe_prods 53 1024 (B2M 53 1024 m) (B2V 53 1024 p) /\
  ~ within 1 (B2V 53 1024 (fst re)) (img_pt (B2M 53 1024 m) (B2V 53 1024 p)) (B2V 53 1024 (snd re)).
Proof.
  exists wS_m, wS_p. cbv zeta. split. exact wS_affine. split. exact wS_fin_pinned. split. exact wS_safe.
  unfold within, img_pt, B2V, B2M. cbn [vx vy vz m00 m01 m02 m03]. intros (Hx & _).
  unfold wS_m in Hx at 2 3 4 5. unfold wS_p in Hx at 2 3 4. cbn [vx vy vz m00 m01 m02 m03] in Hx.
  b2r_hyp Hx. sf_lit. apply Rabs_le_inv in Hx. lra.
Qed.

(** [translate(1000,0,0)] *)
Definition wM_m : M4 b64 := mkM4
  (fS false 4503599627370496 (-52)) fZ fZ (fS false 8796093022208000 (-43))
  fZ (fS false 4503599627370496 (-52)) fZ fZ
  fZ fZ (fS false 4503599627370496 (-52)) fZ
  fZ fZ fZ (fS false 4503599627370496 (-52)).
Definition wM_p : V3 b64 := mkV3 (fS false 4503599627370496 (-52)) (fS false 4503599627370496 (-51)) (fS false 6755399441055744 (-51)).
Lemma gamma3_53 : gamma3 53 = 3 / 9007199254740989.
Proof. unfold gamma3. rewrite uro53. field. Qed.

Lemma wM_affine : affine_last 53 1024 wM_m.
Proof.
  unfold affine_last, wM_m. cbn [m30 m31 m32 m33].
  repeat split; try (vm_compute; reflexivity); b2r_goal; sf_lit; lra.
Qed.
Lemma wM_safe_p : safe_prods 53 1024 (B2M 53 1024 wM_m) (B2V 53 1024 wM_p).
Proof.
  unfold safe_prods, B2M, B2V, wM_m, wM_p.
  cbn [vx vy vz m00 m01 m02 m03 m10 m11 m12 m13 m20 m21 m22 m23 m30 m31 m32 m33].
  repeat split; b2r_goal; sf_lit; safe_tac.
Qed.
Lemma wM_safe_e : safe_prods 53 1024 (B2M 53 1024 wM_m) (B2V 53 1024 wS_e).
Proof.
  unfold safe_prods, B2M, B2V, wM_m, wS_e.
  cbn [vx vy vz m00 m01 m02 m03 m10 m11 m12 m13 m20 m21 m22 m23 m30 m31 m32 m33].
  repeat split; b2r_goal; sf_lit; safe_tac.
Qed.
Lemma wM_safe_t : safe_trans 53 1024 (B2M 53 1024 wM_m).
Proof.
  unfold safe_trans, B2M, wM_m. cbn [m03 m13 m23].
  repeat split; b2r_goal; sf_lit; first [ left; reflexivity | apply safe64_big; rewrite Rabs_pos_eq by lra; lra ].
Qed.
Lemma wM_fin : fin3 53 1024 (snd (@pt_propagate_error_pinned _ NumB64 wM_m wM_p wS_e)).
Proof. unfold fin3. repeat split; vm_compute; reflexivity. Qed.

(** (M) was FALSE for the [*_propagate_error] functions (code before fix: 5455df2): [translate(1000,0,0)], point
    (1,2,3), input error 1e-9: the reported x error is 1000.000000001 where the first-order worst case is 1.0000003e-9 *)
Lemma M_pinned_refuted : exists (m : M4 b64) (p e : V3 b64),
  let err := snd (@pt_propagate_error_pinned _ NumB64 m p e) in
  affine_last 53 1024 m /\ fin3 53 1024 err /\ safe_prods 53 1024 (B2M 53 1024 m) (B2V 53 1024 p) /\
  safe_prods 53 1024 (B2M 53 1024 m) (B2V 53 1024 e) /\ safe_trans 53 1024 (B2M 53 1024 m) /\
  snd (@vec_propagate_error_pinned _ NumB64 m p e) = err /\
  ~ vle (B2V 53 1024 err) (vscaleR 2 (first_order (gamma3 53) (B2M 53 1024 m) (B2V 53 1024 p) (B2V 53 1024 e))) /\
  100000000000 * vx (first_order (gamma3 53) (B2M 53 1024 m) (B2V 53 1024 p) (B2V 53 1024 e)) < vx (B2V 53 1024 err).
Proof.
  exists wM_m, wM_p, wS_e. cbv zeta.
  split. exact wM_affine. split. exact wM_fin. split. exact wM_safe_p. split. exact wM_safe_e. split. exact wM_safe_t.
  split. reflexivity.
  assert (K : 100000000000 * vx (first_order (gamma3 53) (B2M 53 1024 wM_m) (B2V 53 1024 wM_p) (B2V 53 1024 wS_e))
              < vx (B2V 53 1024 (snd (@pt_propagate_error_pinned _ NumB64 wM_m wM_p wS_e)))).
  { unfold first_order, lin2, vaddR, abs_img, abs_trans, B2V, B2M. cbn [vx vy vz m00 m01 m02 m03].
    unfold wM_m at 1 2 3 4 5 6 7. unfold wM_p at 1 2 3. unfold wS_e at 1 2 3. cbn [vx vy vz m00 m01 m02 m03].
    rewrite gamma3_53. b2r_goal. sf_lit.
    repeat match goal with |- context [Rabs ?x] => first [ rewrite (Rabs_pos_eq x) by lra ] end. lra. }
  split; [|exact K].
  intros (Hx & _). revert K Hx.
  generalize (vx (B2V 53 1024 (snd (@pt_propagate_error_pinned _ NumB64 wM_m wM_p wS_e)))).
  unfold vscaleR. cbn [vx].
  assert (P : 0 <= vx (first_order (gamma3 53) (B2M 53 1024 wM_m) (B2V 53 1024 wM_p) (B2V 53 1024 wS_e))).
  { unfold first_order, lin2, vaddR, abs_img, abs_trans. cbn [vx]. pose proof (gamma3_pos 53 ltac:(lia)).
    repeat apply Rplus_le_le_0_compat; try apply Rmult_le_pos; try lra; repeat apply Rplus_le_le_0_compat; apply Rabs_pos. }
  intros r K Hx. lra.
Qed.

(** the guard [safe_prods] cannot be dropped: [scale(0.5,1,1)] applied to the smallest subnormal vector (2^-1074,0,0)
    returns (0,0,0) with error (0,0,0) although the exact image is (2^-1075,0,0): the bound has no absolute (underflow) term *)
Definition wU_m : M4 b64 := mkM4
  (fS false 4503599627370496 (-53)) fZ fZ fZ  fZ (fS false 4503599627370496 (-52)) fZ fZ
  fZ fZ (fS false 4503599627370496 (-52)) fZ  fZ fZ fZ (fS false 4503599627370496 (-52)).
Definition wU_v : V3 b64 := mkV3 (fS false 1 (-1074)) fZ fZ.
Lemma S_underflow_refuted : exists (m : M4 b64) (v : V3 b64),
  let re := @vec_with_error _ NumB64 m v in
  affine_last 53 1024 m /\ fin3 53 1024 (snd re) /\
  ~ within 1 (B2V 53 1024 (fst re)) (img_vec (B2M 53 1024 m) (B2V 53 1024 v)) (B2V 53 1024 (snd re)).
Proof.
  exists wU_m, wU_v. cbv zeta. split; [|split].
  - unfold affine_last, wU_m. cbn [m30 m31 m32 m33].
    repeat split; try (vm_compute; reflexivity); b2r_goal; sf_lit; lra.
  - unfold fin3. repeat split; vm_compute; reflexivity.
  - unfold within, img_vec, B2V, B2M. cbn [vx vy vz m00 m01 m02 m03]. intros (Hx & _).
    unfold wU_m in Hx at 2 3 4. unfold wU_v in Hx at 2 3 4. cbn [vx vy vz m00 m01 m02 m03] in Hx.
    b2r_hyp Hx. sf_lit. apply Rabs_le_inv in Hx.
    assert (0 < / IZR (Z.pow_pos 2 1074)) by (apply Rinv_0_lt_compat, IZR_lt; reflexivity).
    revert H Hx. norm_pow. intros. lra.
Qed.

(** non-vacuity: the hypotheses of the theorems hold on the witness of the finding (and on a 1e-9 input box) *)
Lemma wS_safe_e : safe_prods 53 1024 (B2M 53 1024 wS_m) (B2V 53 1024 wS_e).
Proof.
  unfold safe_prods, B2M, B2V, wS_m, wS_e.
  cbn [vx vy vz m00 m01 m02 m03 m10 m11 m12 m13 m20 m21 m22 m23 m30 m31 m32 m33].
  repeat split; b2r_goal; sf_lit; safe_tac.
Qed.
Lemma wS_safe_t : safe_trans 53 1024 (B2M 53 1024 wS_m).
Proof.
  unfold safe_trans, B2M, wS_m. cbn [m03 m13 m23].
  repeat split; b2r_goal; sf_lit; first [ left; reflexivity | apply safe64_big; rewrite Rabs_pos_eq by lra; lra ].
Qed.
Lemma wS_fin_box : fin3 53 1024 (snd (@pt_propagate_error _ NumB64 wS_m wS_p wS_e)).
Proof. unfold fin3. repeat split; vm_compute; reflexivity. Qed.
Lemma wS_fin_vbox : fin3 53 1024 (snd (@vec_propagate_error _ NumB64 wS_m wS_p wS_e)).
Proof. unfold fin3. repeat split; vm_compute; reflexivity. Qed.
Lemma wS_fin_v : fin3 53 1024 (snd (@vec_with_error _ NumB64 wS_m wS_p)).
Proof. unfold fin3. repeat split; vm_compute; reflexivity. Qed.
Lemma wS_inbox : inbox (B2V 53 1024 wS_p) (B2V 53 1024 wS_e) (B2V 53 1024 wS_p).
Proof.
  unfold inbox. rewrite !Rminus_diag_eq by reflexivity. rewrite Rabs_R0.
  unfold B2V, wS_e. cbn [vx vy vz]. b2r_goal. sf_lit. repeat split; lra.
Qed.
Lemma C16_nonvacuous_proof :
  affine_last 53 1024 wS_m /\ fin3 53 1024 (snd (@pt_with_error _ NumB64 wS_m wS_p)) /\
  fin3 53 1024 (snd (@vec_with_error _ NumB64 wS_m wS_p)) /\
  fin3 53 1024 (snd (@pt_propagate_error _ NumB64 wS_m wS_p wS_e)) /\
  fin3 53 1024 (snd (@vec_propagate_error _ NumB64 wS_m wS_p wS_e)) /\
  safe_prods 53 1024 (B2M 53 1024 wS_m) (B2V 53 1024 wS_p) /\ safe_prods 53 1024 (B2M 53 1024 wS_m) (B2V 53 1024 wS_e) /\
  safe_trans 53 1024 (B2M 53 1024 wS_m) /\ inbox (B2V 53 1024 wS_p) (B2V 53 1024 wS_e) (B2V 53 1024 wS_p).
Proof.
  split. exact wS_affine. split. exact wS_fin. split. exact wS_fin_v. split. exact wS_fin_box. split. exact wS_fin_vbox.
  split. exact wS_safe. split. exact wS_safe_e. split. exact wS_safe_t. exact wS_inbox.
Qed.

(** the repaired code is sound on the witness of the former finding (instance of [S_pt]) *)
Lemma S_point_witness_now_sound :
  let re := @pt_with_error _ NumB64 wS_m wS_p in
  within 1 (B2V 53 1024 (fst re)) (img_pt (B2M 53 1024 wS_m) (B2V 53 1024 wS_p)) (B2V 53 1024 (snd re)).
Proof.
  exact (proj2 (S_pt 53 1024 Hprec53 Hmax1024 ltac:(lia) wS_m wS_p wS_affine wS_fin wS_safe)).
Qed.
(** and the translation no longer enters the propagated error (instance of [M_propagate]) *)
Lemma M_witness_now_meaningful :
  vle (B2V 53 1024 (snd (@pt_propagate_error _ NumB64 wM_m wM_p wS_e)))
      (vscaleR 2 (first_order (gamma3 53) (B2M 53 1024 wM_m) (B2V 53 1024 wM_p) (B2V 53 1024 wS_e))).
Proof.
  apply (M_propagate 53 1024 Hprec53 Hmax1024 ltac:(lia) wM_m wM_p wS_e wM_safe_p wM_safe_e wM_safe_t).
  unfold fin3. repeat split; vm_compute; reflexivity.
Qed.

(** ** the error of a transformed VECTOR before the fix of the vector functions ([vec_with_error_pinned]:
    [mul4x4_abs], which adds |m_i3|) *)
(** the vector (1e-9, 0, 0) *)
Definition wV_v : V3 b64 := mkV3 (fS false 4835703278458517 (-82)) fZ fZ.
Lemma wV_safe : safe_prods 53 1024 (B2M 53 1024 wM_m) (B2V 53 1024 wV_v).
Proof.
  unfold safe_prods, B2M, B2V, wM_m, wV_v.
  cbn [vx vy vz m00 m01 m02 m03 m10 m11 m12 m13 m20 m21 m22 m23 m30 m31 m32 m33].
  repeat split; b2r_goal; sf_lit; safe_tac.
Qed.
Lemma wV_fin_pinned : fin3 53 1024 (snd (@vec_with_error_pinned _ NumB64 wM_m wV_v)).
Proof. unfold fin3. repeat split; vm_compute; reflexivity. Qed.
Lemma wV_fin : fin3 53 1024 (snd (@vec_with_error _ NumB64 wM_m wV_v)).
Proof. unfold fin3. repeat split; vm_compute; reflexivity. Qed.

(** (M) was FALSE for the vector functions: [translate(1000,0,0)] applied to the vector (1e-9,0,0) -- whose image is
    the vector itself, computed without a single rounding error -- reported the x error 3.33e-13 = gamma3 * 1000
    where the first-order worst case gamma3 * |1 * 1e-9| is 3.33e-25: more than 10^11 times (so not within twice),
    and proportional to the translation, whatever the length of the vector.  All guards hold. *)
Lemma M_vec_pinned_refuted : exists (m : M4 b64) (v : V3 b64),
  let err := snd (@vec_with_error_pinned _ NumB64 m v) in
  let fo := vscaleR (gamma3 53) (abs_img (B2M 53 1024 m) (B2V 53 1024 v)) in
  affine_last 53 1024 m /\ fin3 53 1024 err /\ safe_prods 53 1024 (B2M 53 1024 m) (B2V 53 1024 v) /\
  safe_trans 53 1024 (B2M 53 1024 m) /\
  ~ vle (B2V 53 1024 err) (vscaleR 2 fo) /\
  100000000000 * vx fo < vx (B2V 53 1024 err).
Proof.
  exists wM_m, wV_v. cbv zeta.
  split. exact wM_affine. split. exact wV_fin_pinned. split. exact wV_safe. split. exact wM_safe_t.
  assert (K : 100000000000 * vx (vscaleR (gamma3 53) (abs_img (B2M 53 1024 wM_m) (B2V 53 1024 wV_v)))
              < vx (B2V 53 1024 (snd (@vec_with_error_pinned _ NumB64 wM_m wV_v)))).
  { unfold vscaleR, abs_img, B2V, B2M. cbn [vx vy vz m00 m01 m02 m03].
    unfold wM_m at 1 2 3. unfold wV_v at 1 2 3. cbn [vx vy vz m00 m01 m02 m03].
    rewrite gamma3_53. b2r_goal. sf_lit.
    repeat match goal with |- context [Rabs ?x] => first [ rewrite (Rabs_pos_eq x) by lra ] end. lra. }
  split; [|exact K].
  intros (Hx & _). revert K Hx.
  generalize (vx (B2V 53 1024 (snd (@vec_with_error_pinned _ NumB64 wM_m wV_v)))).
  unfold vscaleR. cbn [vx].
  assert (P : 0 <= gamma3 53 * vx (abs_img (B2M 53 1024 wM_m) (B2V 53 1024 wV_v))).
  { unfold abs_img. cbn [vx]. pose proof (gamma3_pos 53 ltac:(lia)).
    apply Rmult_le_pos. lra. repeat apply Rplus_le_le_0_compat; apply Rabs_pos. }
  intros r K Hx. lra.
Qed.
(** the repaired code on the same input (instance of [M_vec_with_error]) *)
Lemma M_vec_witness_now_meaningful :
  vle (B2V 53 1024 (snd (@vec_with_error _ NumB64 wM_m wV_v)))
      (vscaleR 2 (vscaleR (gamma3 53) (abs_img (B2M 53 1024 wM_m) (B2V 53 1024 wV_v)))).
Proof. exact (M_vec_with_error 53 1024 Hprec53 Hmax1024 ltac:(lia) wM_m wV_v wV_safe wV_fin). Qed.
