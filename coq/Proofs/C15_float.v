(** * C15, float tier: the computed transformed box contains the computed image of every float point of the box.
    For every Flocq binary format ([NumB prec emax]); no error term: rounding is monotone.

    Over the reals the statement is Proofs/C15_bounds.v ([bbox_by_contains_image]: an affine function on a box is bounded
    by its values at the eight corners).  In floating point both sides are COMPUTED: the eight corner images are rounded,
    and so is the image of an interior point.  The argument here:
    - [ev]: the non-NaN floats embedded in the reals, [+-inf] sent to [+-2^emax]; [Bleb] is [<=] of the images ([leb_ev]);
    - an operation whose result [v] is the IEEE rounding of the exact value [r] ([C07_interval.is_rnd]) has
      [ev v = clamp (RN r)] ([rnd_ev]): rounding THEN saturation, both monotone.  Hence [+] is monotone in both arguments
      in the extended order as long as no NaN appears, overflow included ([add_mono]), and [m * .] is monotone / antitone
      according to the sign of [m] ([mul_mono_pos], [mul_mono_neg]);
    - a row [((m0*x + m1*y) + m2*z) + m3] of [mul4x4point], in the association of the code, is therefore bounded below and
      above by its COMPUTED values at two corners of the box chosen by the signs of [m0 m1 m2] ([row_sandwich]); and it is
      NaN-free as soon as the eight corner values are ([sandwich_ok]: a NaN inside the box is a NaN at a corner);
    - the bottom row of an affine matrix evaluates to exactly 1 on finite coordinates, and the division by it changes
      nothing, infinities included ([w_one], [div_w]);
    - [bbox_by] is the hull of the eight computed corner images ([bbox_by_fold], order lemmas of Proofs/C15_order.v at
      [ok := not NaN]).
    Statements: Properties/C15_float.v. *)
From Coq Require Import ZArith Reals Bool Lra Lia List.
From Flocq Require Import Core BinarySingleNaN.
From G3 Require Import Model.Num Model.Base Model.Vec Model.BBox Model.Transform Model.Bounds.
From G3 Require Import Proofs.C15_order.
From G3 Require Proofs.C07_interval Proofs.C16_errbound.
Import ListNotations.
Local Open Scope R_scope.

(** ** definitions used by the statements, generic over [Num] (evaluable on every instance) *)
Section Defs.
  Context {K : Type} {NK : Num K}.
  (** no coordinate is NaN *)
  Definition v_nan_free (v : V3 K) : bool := negb (nis_nan (vx v)) && negb (nis_nan (vy v)) && negb (nis_nan (vz v)).
  (** corner [(i,j,k)] of a box: [false] = the coordinate of [bmin], [true] = that of [bmax] *)
  Definition corner (b : BBox K) (i j k : bool) : V3 K :=
    mkV3 (if i then vx (bmax b) else vx (bmin b)) (if j then vy (bmax b) else vy (bmin b)) (if k then vz (bmax b) else vz (bmin b)).
  (** the eight corners in the order in which [transform_bbox] visits them *)
  Definition corners8 (b : BBox K) : list (V3 K) :=
    [corner b false false false; corner b true false false; corner b false true false; corner b false false true;
     corner b false true true; corner b true true false; corner b true false true; corner b true true true].
  (** none of the eight computed corner images has a NaN coordinate *)
  Definition bbox_by_nan_free (m : M4 K) (b : BBox K) : bool :=
    forallb (fun c => v_nan_free (mul4x4point m c)) (corners8 b).
  (** the hull of a non-empty list of points as [transform_bbox] builds it *)
  Definition hull8 (l : list (V3 K)) : BBox K :=
    match l with p0 :: l' => fold_left bbox_from_union_point l' (bbox_from_point p0) | [] => bbox_from_point (mkV3 n0 n0 n0) end.
  Lemma bbox_by_fold (m : M4 K) (b : BBox K) : bbox_by m b = hull8 (map (mul4x4point m) (corners8 b)).
  Proof. reflexivity. Qed.
  (** [transform_bbox] with the [k]-th corner forgotten (for the necessity witnesses) *)
  Fixpoint drop8 {A} (k : nat) (l : list A) : list A :=
    match k, l with O, _ :: l' => l' | S k', x :: l' => x :: drop8 k' l' | _, [] => [] end.
  Definition bbox_by_forgetting (k : nat) (m : M4 K) (b : BBox K) : BBox K := hull8 (map (mul4x4point m) (drop8 k (corners8 b))).
  (** rows 0..2 of the matrix (the bottom row is [affine_last]) *)
  Definition rows012 (P : K -> Prop) (m : M4 K) : Prop :=
    (P (m00 m) /\ P (m01 m) /\ P (m02 m) /\ P (m03 m)) /\ (P (m10 m) /\ P (m11 m) /\ P (m12 m) /\ P (m13 m)) /\
    (P (m20 m) /\ P (m21 m) /\ P (m22 m) /\ P (m23 m)).
  (** the bottom row is exactly (0, 0, 0, 1) (either zero), as a boolean *)
  Definition affine_last_b (m : M4 K) : bool :=
    ((m30 m =? n0) && (m31 m =? n0) && (m32 m =? n0) && (m33 m =? n1))%num.
  (** where the attached transform, if any, puts a point *)
  Definition place_pt (t : option (Tr K)) (p : V3 K) : V3 K := match t with Some t => tr_pt t p | None => p end.
  (** finite (neither NaN nor infinite), as a boolean: [|x| < inf] *)
  Definition fin_b (x : K) : bool := (nabs x <? ninf)%num.
  Definition fin3_b (v : V3 K) : bool := fin_b (vx v) && fin_b (vy v) && fin_b (vz v).
  Definition rows012_b (m : M4 K) : bool :=
    fin_b (m00 m) && fin_b (m01 m) && fin_b (m02 m) && fin_b (m03 m) && fin_b (m10 m) && fin_b (m11 m) && fin_b (m12 m) && fin_b (m13 m) &&
    fin_b (m20 m) && fin_b (m21 m) && fin_b (m22 m) && fin_b (m23 m).
  (** every hypothesis of the float-tier theorem on a matrix and a box, evaluable: finite rows 0..2, bottom row (0,0,0,1),
      finite box corners, no NaN among the eight computed corner images *)
  Definition tr_ok_b (m : M4 K) (b : BBox K) : bool :=
    rows012_b m && affine_last_b m && fin3_b (bmin b) && fin3_b (bmax b) && bbox_by_nan_free m b.
End Defs.

Section C15_float.
  Variable prec emax : Z.
  Context (Hprec : FLX.Prec_gt_0 prec) (Hmax : Prec_lt_emax prec emax).
  Notation bf := (binary_float prec emax).
  Notation RN := (C07_interval.RN prec emax).
  Local Instance NBf : Num bf := NumB prec emax Hprec Hmax.
  Notation fin x := (is_finite x = true).
  Notation M := (bpow radix2 emax).

  (** ** the extended order *)
  Definition okN (x : bf) : Prop := is_nan x = false.
  Definition ev (x : bf) : R := match x with B754_infinity s => if s then - M else M | _ => B2R x end.
  Definition clamp (r : R) : R := Rmax (- M) (Rmin M r).

  Lemma M_pos : 0 < M. Proof. apply bpow_gt_0. Qed.
  Lemma fin_ok (x : bf) : fin x -> okN x.
  Proof. destruct x; simpl; intros; try discriminate; reflexivity. Qed.
  Lemma ev_fin (x : bf) : fin x -> ev x = B2R x /\ - M < ev x < M.
  Proof.
    intros F. assert (E : ev x = B2R x) by (destruct x; try reflexivity; discriminate). split. exact E. rewrite E.
    pose proof (abs_B2R_lt_emax prec emax x) as H. apply Rabs_def2 in H. lra.
  Qed.
  Lemma ok_cases (x : bf) : okN x -> fin x \/ x = B754_infinity false \/ x = B754_infinity true.
  Proof. destruct x as [s|[|]| |s m e H]; unfold okN; simpl; intros; try discriminate; auto. Qed.
  Lemma ev_range (x : bf) : - M <= ev x <= M.
  Proof.
    pose proof M_pos. destruct x as [s|[|]| |s m e Hb] eqn:E; simpl; try lra.
    assert (F : fin x) by (rewrite E; reflexivity). rewrite E in F. destruct (ev_fin _ F) as (E1 & E2). simpl in E2. lra.
  Qed.
  Lemma ev_top (x : bf) : okN x -> M <= ev x -> x = B754_infinity false.
  Proof.
    intros O H. pose proof M_pos. destruct (ok_cases x O) as [F|[->| ->]]; [|reflexivity|simpl in H; lra].
    destruct (ev_fin x F). lra.
  Qed.
  Lemma ev_bot (x : bf) : okN x -> ev x <= - M -> x = B754_infinity true.
  Proof.
    intros O H. pose proof M_pos. destruct (ok_cases x O) as [F|[->| ->]]; [|simpl in H; lra|reflexivity].
    destruct (ev_fin x F). lra.
  Qed.

  Lemma leb_ev (x y : bf) : okN x -> okN y -> Bleb x y = Rle_bool (ev x) (ev y).
  Proof.
    intros Ox Oy. pose proof M_pos.
    destruct (ok_cases x Ox) as [Fx|[->| ->]], (ok_cases y Oy) as [Fy|[->| ->]].
    - rewrite Bleb_correct by assumption. rewrite (proj1 (ev_fin x Fx)), (proj1 (ev_fin y Fy)). reflexivity.
    - destruct (ev_fin x Fx) as (_ & B). simpl (ev (B754_infinity false)). rewrite Rle_bool_true by lra.
      destruct x; try discriminate; reflexivity.
    - destruct (ev_fin x Fx) as (_ & B). simpl (ev (B754_infinity true)). rewrite Rle_bool_false by lra.
      destruct x; try discriminate; reflexivity.
    - destruct (ev_fin y Fy) as (_ & B). simpl (ev (B754_infinity false)). rewrite Rle_bool_false by lra.
      destruct y; try discriminate; reflexivity.
    - simpl. rewrite Rle_bool_true by lra. reflexivity.
    - simpl. rewrite Rle_bool_false by lra. reflexivity.
    - destruct (ev_fin y Fy) as (_ & B). simpl (ev (B754_infinity true)). rewrite Rle_bool_true by lra.
      destruct y; try discriminate; reflexivity.
    - simpl. rewrite Rle_bool_true by lra. reflexivity.
    - simpl. rewrite Rle_bool_true by lra. reflexivity.
  Qed.
  Lemma ltb_ev (x y : bf) : okN x -> okN y -> Bltb x y = Rlt_bool (ev x) (ev y).
  Proof.
    intros Ox Oy. pose proof M_pos.
    destruct (ok_cases x Ox) as [Fx|[->| ->]], (ok_cases y Oy) as [Fy|[->| ->]].
    - rewrite Bltb_correct by assumption. rewrite (proj1 (ev_fin x Fx)), (proj1 (ev_fin y Fy)). reflexivity.
    - destruct (ev_fin x Fx) as (_ & B). simpl (ev (B754_infinity false)). rewrite Rlt_bool_true by lra.
      destruct x; try discriminate; reflexivity.
    - destruct (ev_fin x Fx) as (_ & B). simpl (ev (B754_infinity true)). rewrite Rlt_bool_false by lra.
      destruct x; try discriminate; reflexivity.
    - destruct (ev_fin y Fy) as (_ & B). simpl (ev (B754_infinity false)). rewrite Rlt_bool_false by lra.
      destruct y; try discriminate; reflexivity.
    - simpl. rewrite Rlt_bool_false by lra. reflexivity.
    - simpl. rewrite Rlt_bool_false by lra. reflexivity.
    - destruct (ev_fin y Fy) as (_ & B). simpl (ev (B754_infinity true)). rewrite Rlt_bool_true by lra.
      destruct y; try discriminate; reflexivity.
    - simpl. rewrite Rlt_bool_true by lra. reflexivity.
    - simpl. rewrite Rlt_bool_false by lra. reflexivity.
  Qed.
  Lemma leb_true (x y : bf) : okN x -> okN y -> (Bleb x y = true <-> ev x <= ev y).
  Proof.
    intros Ox Oy. rewrite leb_ev by assumption. destruct (Rle_bool_spec (ev x) (ev y)); split; intros; try lra; try reflexivity; discriminate.
  Qed.
  (** a comparison that holds involves no NaN *)
  Lemma leb_ok (x y : bf) : Bleb x y = true -> okN x /\ okN y.
  Proof. destruct x as [s|s| |s m e H], y as [s'|s'| |s' m' e' H']; unfold okN; simpl; intros; try discriminate; auto. Qed.

  (** ** rounding then saturation: the extended value of a correctly rounded result *)
  Lemma clamp_le (r r' : R) : r <= r' -> clamp r <= clamp r'.
  Proof. intros H. unfold clamp, Rmax, Rmin. repeat destruct (Rle_dec _ _); lra. Qed.
  Lemma RN_mono (r r' : R) : r <= r' -> RN r <= RN r'.
  Proof. apply C07_interval.RN_le; assumption. Qed.
  Lemma RN_zero : RN 0 = 0.
  Proof. apply C07_interval.RN_0; assumption. Qed.
  Lemma rnd_ev (v : bf) (r : R) : C07_interval.is_rnd prec emax v r -> okN v /\ ev v = clamp (RN r).
  Proof.
    pose proof M_pos as HM. intros (S0 & S1 & [[F E]|[s [-> Hov]]]).
    - split. apply fin_ok, F. destruct (ev_fin v F) as (E1 & B). rewrite <- E, <- E1.
      unfold clamp, Rmax, Rmin. repeat destruct (Rle_dec _ _); lra.
    - split. reflexivity. simpl in S0, S1. destruct s; simpl.
      + specialize (S1 eq_refl). assert (L : RN r <= 0) by (rewrite <- RN_zero; apply RN_mono; exact S1).
        rewrite Rabs_left1 in Hov by exact L. unfold clamp, Rmax, Rmin. repeat destruct (Rle_dec _ _); lra.
      + specialize (S0 eq_refl). assert (L : 0 <= RN r) by (rewrite <- RN_zero; apply RN_mono; exact S0).
        rewrite Rabs_pos_eq in Hov by exact L. unfold clamp, Rmax, Rmin. repeat destruct (Rle_dec _ _); lra.
  Qed.

  Lemma add_ev_fin (x y : bf) : fin x -> fin y -> okN (x + y)%num /\ ev (x + y)%num = clamp (RN (ev x + ev y)).
  Proof.
    intros Fx Fy. rewrite (proj1 (ev_fin x Fx)), (proj1 (ev_fin y Fy)).
    apply rnd_ev. apply C07_interval.is_rnd_plus; assumption.
  Qed.
  Lemma mul_ev_fin (x y : bf) : fin x -> fin y -> okN (x * y)%num /\ ev (x * y)%num = clamp (RN (B2R x * B2R y)).
  Proof. intros Fx Fy. apply rnd_ev. apply C07_interval.is_rnd_mult; assumption. Qed.

  (** ** addition in the extended order *)
  Lemma plus_inf_l (s : bool) (y : bf) : fin y -> (B754_infinity s + y)%num = B754_infinity s.
  Proof. destruct y; simpl; intros; try discriminate; reflexivity. Qed.
  Lemma plus_inf_r (s : bool) (x : bf) : fin x -> (x + B754_infinity s)%num = B754_infinity s.
  Proof. destruct x; simpl; intros; try discriminate; reflexivity. Qed.
  Lemma add_ok_inv (x y : bf) : okN (x + y)%num -> okN x /\ okN y.
  Proof.
    unfold okN. destruct x as [s|s| |s m e Hb], y as [s'|s'| |s' m' e' Hb']; intros H; try (split; reflexivity);
      exfalso; revert H; simpl; discriminate.
  Qed.
  (** NaN only from [inf - inf] *)
  Lemma add_nan (x y : bf) : okN x -> okN y -> ~ okN (x + y)%num ->
    (x = B754_infinity false /\ y = B754_infinity true) \/ (x = B754_infinity true /\ y = B754_infinity false).
  Proof.
    intros Ox Oy N. destruct (ok_cases x Ox) as [Fx|[->| ->]], (ok_cases y Oy) as [Fy|[->| ->]]; auto; exfalso; apply N.
    - apply add_ev_fin; assumption.
    - rewrite plus_inf_r by assumption. reflexivity.
    - rewrite plus_inf_r by assumption. reflexivity.
    - rewrite plus_inf_l by assumption. reflexivity.
    - reflexivity.
    - rewrite plus_inf_l by assumption. reflexivity.
    - reflexivity.
  Qed.
  Lemma add_bot (x y : bf) : okN x -> okN y -> okN (x + y)%num -> x = B754_infinity true \/ y = B754_infinity true ->
    (x + y)%num = B754_infinity true.
  Proof.
    intros Ox Oy O [-> | ->].
    - destruct (ok_cases y Oy) as [Fy|[->| ->]]; [apply plus_inf_l, Fy | discriminate O | reflexivity].
    - destruct (ok_cases x Ox) as [Fx|[->| ->]]; [apply plus_inf_r, Fx | discriminate O | reflexivity].
  Qed.
  Lemma add_top (x y : bf) : okN x -> okN y -> okN (x + y)%num -> x = B754_infinity false \/ y = B754_infinity false ->
    (x + y)%num = B754_infinity false.
  Proof.
    intros Ox Oy O [-> | ->].
    - destruct (ok_cases y Oy) as [Fy|[->| ->]]; [apply plus_inf_l, Fy | reflexivity | discriminate O].
    - destruct (ok_cases x Ox) as [Fx|[->| ->]]; [apply plus_inf_r, Fx | reflexivity | discriminate O].
  Qed.
  Lemma add_fin_ok (x y : bf) : okN x -> fin y -> okN (x + y)%num.
  Proof.
    intros Ox Fy. destruct (ok_cases x Ox) as [Fx|[->| ->]].
    - apply add_ev_fin; assumption.
    - rewrite plus_inf_l by assumption. reflexivity.
    - rewrite plus_inf_l by assumption. reflexivity.
  Qed.

  (** round-to-nearest addition is monotone in both arguments in the extended order, overflow included, as long as
      neither sum is NaN *)
  Theorem add_mono (x x' y y' : bf) : okN x -> okN x' -> okN y -> okN y' -> ev x <= ev x' -> ev y <= ev y' ->
    okN (x + y)%num -> okN (x' + y')%num -> ev (x + y)%num <= ev (x' + y')%num.
  Proof.
    intros Ox Ox' Oy Oy' Lx Ly O O'. pose proof M_pos as HM.
    assert (Bot : x = B754_infinity true \/ y = B754_infinity true -> ev (x + y)%num <= ev (x' + y')%num).
    { intros Hc. rewrite (add_bot x y Ox Oy O Hc). simpl. apply ev_range. }
    assert (Top : x' = B754_infinity false \/ y' = B754_infinity false -> ev (x + y)%num <= ev (x' + y')%num).
    { intros Hc. rewrite (add_top x' y' Ox' Oy' O' Hc). simpl. apply ev_range. }
    destruct (ok_cases x Ox) as [Fx|[Ex|Ex]]; [| |apply Bot; auto].
    2:{ apply Top. left. apply ev_top. exact Ox'. rewrite Ex in Lx. exact Lx. }
    destruct (ok_cases y Oy) as [Fy|[Ey|Ey]]; [| |apply Bot; auto].
    2:{ apply Top. right. apply ev_top. exact Oy'. rewrite Ey in Ly. exact Ly. }
    destruct (ok_cases x' Ox') as [Fx'|[Ex'|Ex']]; [|apply Top; auto|].
    2:{ exfalso. rewrite Ex' in Lx. simpl in Lx. destruct (ev_fin x Fx). lra. }
    destruct (ok_cases y' Oy') as [Fy'|[Ey'|Ey']]; [|apply Top; auto|].
    2:{ exfalso. rewrite Ey' in Ly. simpl in Ly. destruct (ev_fin y Fy). lra. }
    rewrite (proj2 (add_ev_fin x y Fx Fy)), (proj2 (add_ev_fin x' y' Fx' Fy')).
    apply clamp_le, RN_mono. lra.
  Qed.

  (** a NaN between the corners is a NaN at a (mixed) corner *)
  Lemma sandwich_ok (aL a aU bL b bU : bf) : okN aL -> okN a -> okN aU -> okN bL -> okN b -> okN bU ->
    ev aL <= ev a <= ev aU -> ev bL <= ev b <= ev bU -> okN (aU + bL)%num -> okN (aL + bU)%num -> okN (a + b)%num.
  Proof.
    intros OaL Oa OaU ObL Ob ObU [La Ua] [Lb Ub] O1 O2.
    destruct (is_nan (a + b)%num) eqn:E; [exfalso|exact E].
    destruct (add_nan a b Oa Ob) as [[Ea Eb]|[Ea Eb]]. { unfold okN. rewrite E. discriminate. }
    - rewrite Ea in Ua. rewrite Eb in Lb. simpl in Ua, Lb.
      rewrite (ev_top aU OaU Ua), (ev_bot bL ObL Lb) in O1. discriminate O1.
    - rewrite Ea in La. rewrite Eb in Ub. simpl in La, Ub.
      rewrite (ev_bot aL OaL La), (ev_top bU ObU Ub) in O2. discriminate O2.
  Qed.

  (** ** multiplication by a finite factor *)
  Theorem mul_mono_pos (m x x' : bf) : fin m -> fin x -> fin x' -> 0 <= B2R m -> B2R x <= B2R x' ->
    ev (m * x)%num <= ev (m * x')%num.
  Proof.
    intros Fm Fx Fx' Hm Hx. rewrite (proj2 (mul_ev_fin m x Fm Fx)), (proj2 (mul_ev_fin m x' Fm Fx')).
    apply clamp_le, RN_mono. apply Rmult_le_compat_l; assumption.
  Qed.
  Theorem mul_mono_neg (m x x' : bf) : fin m -> fin x -> fin x' -> B2R m <= 0 -> B2R x <= B2R x' ->
    ev (m * x')%num <= ev (m * x)%num.
  Proof.
    intros Fm Fx Fx' Hm Hx. rewrite (proj2 (mul_ev_fin m x Fm Fx)), (proj2 (mul_ev_fin m x' Fm Fx')).
    apply clamp_le, RN_mono. apply Rmult_le_compat_neg_l; assumption.
  Qed.

  Definition sel (s : bool) (lo hi : bf) : bf := if s then hi else lo.
  Lemma sel_fin (s : bool) (lo hi : bf) : fin lo -> fin hi -> fin (sel s lo hi).
  Proof. destruct s; auto. Qed.
  (** one term [m * x] of a row: bounded by its computed values at the two ends of the range, chosen by the sign of [m] *)
  Lemma term_bounds (m lo hi x : bf) : fin m -> fin lo -> fin hi -> fin x -> B2R lo <= B2R x <= B2R hi ->
    exists sL sU : bool, ev (m * sel sL lo hi)%num <= ev (m * x)%num <= ev (m * sel sU lo hi)%num.
  Proof.
    intros Fm Fl Fh Fx [L U]. destruct (Rle_dec 0 (B2R m)) as [P|N].
    - exists false, true. split; apply mul_mono_pos; assumption.
    - exists true, false. split; apply mul_mono_neg; try assumption; lra.
  Qed.

  (** ** one row of [mul4x4point], in the association of the code *)
  Definition frow (m0 m1 m2 m3 x y z : bf) : bf := (m0 * x + m1 * y + m2 * z + m3)%num.

  Theorem row_sandwich (m0 m1 m2 m3 x0 x1 y0 y1 z0 z1 x y z : bf) :
    fin m0 -> fin m1 -> fin m2 -> fin m3 -> fin x0 -> fin x1 -> fin y0 -> fin y1 -> fin z0 -> fin z1 -> fin x -> fin y -> fin z ->
    B2R x0 <= B2R x <= B2R x1 -> B2R y0 <= B2R y <= B2R y1 -> B2R z0 <= B2R z <= B2R z1 ->
    (forall a b c : bool, okN (frow m0 m1 m2 m3 (sel a x0 x1) (sel b y0 y1) (sel c z0 z1))) ->
    okN (frow m0 m1 m2 m3 x y z) /\
    exists aL bL cL aU bU cU : bool,
      ev (frow m0 m1 m2 m3 (sel aL x0 x1) (sel bL y0 y1) (sel cL z0 z1)) <= ev (frow m0 m1 m2 m3 x y z) <=
      ev (frow m0 m1 m2 m3 (sel aU x0 x1) (sel bU y0 y1) (sel cU z0 z1)).
  Proof.
    intros Fm0 Fm1 Fm2 Fm3 Fx0 Fx1 Fy0 Fy1 Fz0 Fz1 Fx Fy Fz Hx Hy Hz Hc.
    destruct (term_bounds m0 x0 x1 x Fm0 Fx0 Fx1 Fx Hx) as (aL & aU & Ha).
    destruct (term_bounds m1 y0 y1 y Fm1 Fy0 Fy1 Fy Hy) as (bL & bU & Hb).
    destruct (term_bounds m2 z0 z1 z Fm2 Fz0 Fz1 Fz Hz) as (cL & cU & Hcz).
    unfold frow in *.
    assert (O2 : forall a b c, okN (m0 * sel a x0 x1 + m1 * sel b y0 y1 + m2 * sel c z0 z1)%num).
    { intros a b c. exact (proj1 (add_ok_inv _ _ (Hc a b c))). }
    assert (O1 : forall a b, okN (m0 * sel a x0 x1 + m1 * sel b y0 y1)%num).
    { intros a b. exact (proj1 (add_ok_inv _ _ (O2 a b false))). }
    assert (T0 : forall a, okN (m0 * sel a x0 x1)%num) by (intros a; apply mul_ev_fin; [assumption | apply sel_fin; assumption]).
    assert (T1 : forall b, okN (m1 * sel b y0 y1)%num) by (intros b; apply mul_ev_fin; [assumption | apply sel_fin; assumption]).
    assert (T2 : forall c, okN (m2 * sel c z0 z1)%num) by (intros c; apply mul_ev_fin; [assumption | apply sel_fin; assumption]).
    assert (t0 : okN (m0 * x)%num) by (apply mul_ev_fin; assumption).
    assert (t1 : okN (m1 * y)%num) by (apply mul_ev_fin; assumption).
    assert (t2 : okN (m2 * z)%num) by (apply mul_ev_fin; assumption).
    (* stage 1 *)
    assert (s1 : okN (m0 * x + m1 * y)%num).
    { apply sandwich_ok with (aL := (m0 * sel aL x0 x1)%num) (aU := (m0 * sel aU x0 x1)%num)
                             (bL := (m1 * sel bL y0 y1)%num) (bU := (m1 * sel bU y0 y1)%num); auto. }
    assert (B1 : ev (m0 * sel aL x0 x1 + m1 * sel bL y0 y1)%num <= ev (m0 * x + m1 * y)%num <= ev (m0 * sel aU x0 x1 + m1 * sel bU y0 y1)%num).
    { split; apply add_mono; auto; tauto. }
    (* stage 2 *)
    assert (s2 : okN (m0 * x + m1 * y + m2 * z)%num).
    { apply sandwich_ok with (aL := (m0 * sel aL x0 x1 + m1 * sel bL y0 y1)%num) (aU := (m0 * sel aU x0 x1 + m1 * sel bU y0 y1)%num)
                             (bL := (m2 * sel cL z0 z1)%num) (bU := (m2 * sel cU z0 z1)%num); auto. }
    assert (B2 : ev (m0 * sel aL x0 x1 + m1 * sel bL y0 y1 + m2 * sel cL z0 z1)%num <= ev (m0 * x + m1 * y + m2 * z)%num
                 <= ev (m0 * sel aU x0 x1 + m1 * sel bU y0 y1 + m2 * sel cU z0 z1)%num).
    { split; apply add_mono; auto; tauto. }
    (* stage 3 *)
    split. apply add_fin_ok; assumption.
    exists aL, bL, cL, aU, bU, cU.
    split; apply add_mono; auto using fin_ok; try tauto; try lra; apply add_fin_ok; auto.
  Qed.

  (** ** the homogeneous coordinate: exactly 1, and dividing by it changes nothing *)
  Notation affine_last := (C16_errbound.affine_last prec emax).
  Notation fin3 := (C16_errbound.fin3 prec emax).
  Lemma rnd_fin (v : bf) (r : R) : C07_interval.is_rnd prec emax v r -> Rabs (RN r) < M -> fin v /\ B2R v = RN r.
  Proof. intros (_ & _ & [[F E]|[s [_ Hov]]]) H; [tauto | lra]. Qed.
  Lemma zero_term (m v : bf) : fin m -> fin v -> B2R m = 0 -> fin (m * v)%num /\ B2R (m * v)%num = 0.
  Proof.
    intros Fm Fv Vm. pose proof M_pos.
    destruct (rnd_fin _ _ (C07_interval.is_rnd_mult prec emax Hprec Hmax m v Fm Fv)) as (F & V).
    - rewrite Vm, Rmult_0_l, RN_zero, Rabs_R0. assumption.
    - split. exact F. change (Bmult mode_NE m v) with (m * v)%num in V. rewrite V, Vm, Rmult_0_l. apply RN_zero.
  Qed.
  Lemma zero_sum (a b : bf) : fin a -> fin b -> B2R a = 0 -> B2R b = 0 -> fin (a + b)%num /\ B2R (a + b)%num = 0.
  Proof.
    intros Fa Fb Va Vb. pose proof M_pos.
    destruct (rnd_fin _ _ (C07_interval.is_rnd_plus prec emax Hprec Hmax a b Fa Fb)) as (F & V).
    - rewrite Va, Vb, Rplus_0_l, RN_zero, Rabs_R0. assumption.
    - split. exact F. change (Bplus mode_NE a b) with (a + b)%num in V. rewrite V, Va, Vb, Rplus_0_l. apply RN_zero.
  Qed.
  Definition wrow (m : M4 bf) (p : V3 bf) : bf := frow (m30 m) (m31 m) (m32 m) (m33 m) (vx p) (vy p) (vz p).
  Lemma w_one (m : M4 bf) (p : V3 bf) : affine_last m -> fin3 p -> fin (wrow m p) /\ B2R (wrow m p) = 1.
  Proof.
    intros (F0 & F1 & F2 & F3 & V0 & V1 & V2 & V3) (Fx & Fy & Fz). unfold wrow, frow.
    destruct (zero_term _ _ F0 Fx V0) as (Fa & Va). destruct (zero_term _ _ F1 Fy V1) as (Fb & Vb).
    destruct (zero_term _ _ F2 Fz V2) as (Fc & Vc).
    destruct (zero_sum _ _ Fa Fb Va Vb) as (G1 & W1). destruct (zero_sum _ _ G1 Fc W1 Vc) as (G2 & W2).
    destruct (rnd_fin _ _ (C07_interval.is_rnd_plus prec emax Hprec Hmax _ _ G2 F3)) as (F & V).
    - change (Bplus mode_NE ?a ?b) with (a + b)%num. rewrite W2, Rplus_0_l, C07_interval.RN_B2R. apply abs_B2R_lt_emax.
    - split. exact F. etransitivity. exact V. rewrite W2, Rplus_0_l, C07_interval.RN_B2R. exact V3.
  Qed.
  (** [a / w] with [w = 1]: the same extended value, NaN iff [a] is *)
  Lemma div_w (a w : bf) : fin w -> B2R w = 1 -> is_nan (a / w)%num = is_nan a /\ (okN a -> ev (a / w)%num = ev a).
  Proof.
    intros Fw Vw.
    destruct (is_finite a) eqn:Fa.
    - destruct (C16_errbound.div_one prec emax Hprec Hmax a w Fa Fw Vw) as (F & V).
      change (@ndiv bf (C16_errbound.NB16 prec emax Hprec Hmax) a w) with (a / w)%num in F, V.
      split.
      + rewrite (fin_ok _ F), (fin_ok _ Fa). reflexivity.
      + intros _. rewrite (proj1 (ev_fin _ F)), (proj1 (ev_fin _ Fa)). exact V.
    - destruct w as [sw|sw| |sw mw ew Hw]; try discriminate.
      { simpl in Vw. lra. }
      destruct sw.
      { exfalso. simpl in Vw. pose proof (F2R_lt_0 radix2 (Float radix2 (Zneg mw) ew) ltac:(simpl; lia)). simpl in *. lra. }
      destruct a as [sa|[|]| |sa ma ea Ha]; try discriminate; split; try reflexivity; intros; reflexivity.
  Qed.

  Lemma pt_coords (m : M4 bf) (p : V3 bf) :
    mul4x4point m p =
    mkV3 (frow (m00 m) (m01 m) (m02 m) (m03 m) (vx p) (vy p) (vz p) / wrow m p)%num
         (frow (m10 m) (m11 m) (m12 m) (m13 m) (vx p) (vy p) (vz p) / wrow m p)%num
         (frow (m20 m) (m21 m) (m22 m) (m23 m) (vx p) (vy p) (vz p) / wrow m p)%num.
  Proof. reflexivity. Qed.

  (** ** the order lemmas of Proofs/C15_order.v at [ok := not NaN] (infinities included) *)
  Lemma N_lt_nle (x y : bf) : okN x -> okN y -> (x <? y)%num = negb (y <=? x)%num.
  Proof. intros Ox Oy. cbn [nltb nleb NBf NumB]. rewrite ltb_ev, leb_ev by assumption. symmetry. apply negb_Rlt_bool. Qed.
  Lemma N_le_total (x y : bf) : okN x -> okN y -> (x <=? y)%num = false -> (y <=? x)%num = true.
  Proof.
    intros Ox Oy. cbn [nleb NBf NumB]. rewrite !leb_ev by assumption.
    destruct (Rle_bool_spec (ev x) (ev y)), (Rle_bool_spec (ev y) (ev x)); try reflexivity; try discriminate; lra.
  Qed.
  Lemma N_le_refl (x : bf) : okN x -> (x <=? x)%num = true.
  Proof. intros Ox. cbn [nleb NBf NumB]. rewrite leb_ev by assumption. apply Rle_bool_true. lra. Qed.
  Definition N_union_point_contains := @g_union_point_contains bf NBf okN N_lt_nle N_le_total N_le_refl.

  Definition vleE (a b : V3 bf) : Prop := ev (vx a) <= ev (vx b) /\ ev (vy a) <= ev (vy b) /\ ev (vz a) <= ev (vz b).
  Definition inE (b : BBox bf) (q : V3 bf) : Prop := vleE (bmin b) q /\ vleE q (bmax b).
  Lemma vle_E (a b : V3 bf) : okv okN a -> okv okN b -> (vle a b <-> vleE a b).
  Proof.
    intros (A1 & A2 & A3) (B1 & B2 & B3). unfold vle, vleE, le. cbn [nleb NBf NumB].
    rewrite !leb_true by assumption. tauto.
  Qed.
  Lemma up_step (r : BBox bf) (x : V3 bf) : okb okN r -> okv okN x ->
    okb okN (bbox_from_union_point r x) /\ inE (bbox_from_union_point r x) x /\
    (forall q, inE r q -> inE (bbox_from_union_point r x) q).
  Proof.
    intros Or Ox. destruct (N_union_point_contains r x Or Ox) as ((C1 & C2) & (I1 & I2) & Ou).
    pose proof Or as (Or1 & Or2). pose proof Ou as (Ou1 & Ou2).
    apply vle_E in C1, C2, I1, I2; try assumption.
    split. exact Ou. split. split; assumption.
    intros q (Q1 & Q2). unfold inE, vleE in *. repeat match goal with H : _ /\ _ |- _ => destruct H end.
    repeat split; lra.
  Qed.
  Lemma fold_in (l : list (V3 bf)) : forall r : BBox bf, okb okN r -> Forall (okv okN) l ->
    okb okN (fold_left bbox_from_union_point l r) /\
    (forall q, inE r q -> inE (fold_left bbox_from_union_point l r) q) /\
    (forall q, In q l -> inE (fold_left bbox_from_union_point l r) q).
  Proof.
    induction l as [|x l IH]; intros r Or Hl; cbn [fold_left].
    - split. exact Or. split. auto. intros q [].
    - inversion Hl as [|? ? Ox Hl']; subst. destruct (up_step r x Or Ox) as (Ou & Ix & Grow).
      destruct (IH _ Ou Hl') as (O' & G' & A'). split. exact O'. split.
      + intros q Hq. apply G', Grow, Hq.
      + intros q [<-|Hq]. apply G', Ix. apply A', Hq.
  Qed.
  (** the hull of NaN-free points is NaN-free and contains each of them *)
  Lemma hull8_in (l : list (V3 bf)) : l <> [] -> Forall (okv okN) l ->
    okb okN (hull8 l) /\ forall q, In q l -> inE (hull8 l) q.
  Proof.
    destruct l as [|p0 l]; [congruence|]. intros _ Hl. inversion Hl as [|? ? O0 Hl']; subst. cbn [hull8].
    assert (Ob : okb okN (bbox_from_point p0)) by (split; exact O0).
    destruct (fold_in l _ Ob Hl') as (O' & G' & A'). split. exact O'.
    intros q [<-|Hq]; [apply G' | apply A', Hq].
    unfold inE, vleE, bbox_from_point. cbn [bmin bmax]. repeat split; lra.
  Qed.

  (** ** the theorem *)
  Lemma between_fin (lo x hi : bf) : fin lo -> fin hi -> Bleb lo x = true -> Bleb x hi = true ->
    fin x /\ B2R lo <= B2R x <= B2R hi.
  Proof.
    intros Fl Fh L U. destruct (leb_ok _ _ L) as (Ol & Ox). destruct (leb_ok _ _ U) as (_ & Oh).
    apply leb_true in L, U; try assumption.
    destruct (ev_fin lo Fl) as (El & Bl). destruct (ev_fin hi Fh) as (Eh & Bh).
    assert (Fx : fin x).
    { destruct (ok_cases x Ox) as [F|[E|E]]; [exact F| |]; rewrite E in *; simpl in L, U; exfalso; lra. }
    split. exact Fx. rewrite <- El, <- Eh, <- (proj1 (ev_fin x Fx)). lra.
  Qed.
  Lemma corner_sel (b : BBox bf) (i j k : bool) :
    corner b i j k = mkV3 (sel i (vx (bmin b)) (vx (bmax b))) (sel j (vy (bmin b)) (vy (bmax b))) (sel k (vz (bmin b)) (vz (bmax b))).
  Proof. reflexivity. Qed.
  Lemma corner_in (b : BBox bf) (i j k : bool) : In (corner b i j k) (corners8 b).
  Proof. destruct i, j, k; cbn [corners8 In]; tauto. Qed.
  Lemma v_nan_free_ok (v : V3 bf) : v_nan_free v = true <-> okv okN v.
  Proof.
    unfold v_nan_free, okv, okN. cbn [nis_nan NBf NumB]. rewrite !andb_true_iff, !negb_true_iff. tauto.
  Qed.

  Theorem bbox_by_contains_image_float (m : M4 bf) (b : BBox bf) (p : V3 bf) :
    rows012 (fun x : bf => fin x) m -> affine_last m -> fin3 (bmin b) -> fin3 (bmax b) ->
    bbox_by_nan_free m b = true -> bbox_point_inside b p = true ->
    bbox_point_inside (bbox_by m b) (mul4x4point m p) = true.
  Proof.
    intros ((F00 & F01 & F02 & F03) & (F10 & F11 & F12 & F13) & (F20 & F21 & F22 & F23)) Haff (Fx0 & Fy0 & Fz0) (Fx1 & Fy1 & Fz1) Hnf Hin.
    (* the point is finite and between the corners *)
    unfold bbox_point_inside in Hin. cbn [nleb NBf NumB] in Hin. rewrite !andb_true_iff in Hin.
    destruct Hin as (((((X0 & X1) & Y0) & Y1) & Z0) & Z1).
    destruct (between_fin _ _ _ Fx0 Fx1 X0 X1) as (Fx & Hx). destruct (between_fin _ _ _ Fy0 Fy1 Y0 Y1) as (Fy & Hy).
    destruct (between_fin _ _ _ Fz0 Fz1 Z0 Z1) as (Fz & Hz).
    (* the eight corner images: NaN-free, [w = 1] *)
    unfold bbox_by_nan_free in Hnf. rewrite forallb_forall in Hnf.
    assert (Fc : forall i j k, fin3 (corner b i j k)) by (intros [|] [|] [|]; repeat split; assumption).
    assert (Wc : forall i j k, fin (wrow m (corner b i j k)) /\ B2R (wrow m (corner b i j k)) = 1) by (intros; apply w_one; auto).
    assert (Oc : forall i j k, okv okN (mul4x4point m (corner b i j k))) by (intros; apply v_nan_free_ok, Hnf, corner_in).
    assert (Wp : fin (wrow m p) /\ B2R (wrow m p) = 1) by (apply w_one; [assumption | repeat split; assumption]).
    destruct Wp as (Fwp & Vwp).
    (* row by row *)
    assert (Row : forall m0 m1 m2 m3 : bf, fin m0 -> fin m1 -> fin m2 -> fin m3 ->
              (forall i j k, okN (frow m0 m1 m2 m3 (vx (corner b i j k)) (vy (corner b i j k)) (vz (corner b i j k)) / wrow m (corner b i j k))%num) ->
              let c := (frow m0 m1 m2 m3 (vx p) (vy p) (vz p) / wrow m p)%num in
              okN c /\ exists qL qU, In qL (corners8 b) /\ In qU (corners8 b) /\
                ev (frow m0 m1 m2 m3 (vx qL) (vy qL) (vz qL) / wrow m qL)%num <= ev c <=
                ev (frow m0 m1 m2 m3 (vx qU) (vy qU) (vz qU) / wrow m qU)%num).
    { intros m0 m1 m2 m3 G0 G1 G2 G3 Ok c.
      assert (Ok' : forall i j k, okN (frow m0 m1 m2 m3 (sel i (vx (bmin b)) (vx (bmax b))) (sel j (vy (bmin b)) (vy (bmax b))) (sel k (vz (bmin b)) (vz (bmax b))))).
      { intros i j k. specialize (Ok i j k). destruct (Wc i j k) as (Fw & Vw).
        unfold okN in *. rewrite (proj1 (div_w _ _ Fw Vw)) in Ok. exact Ok. }
      destruct (row_sandwich m0 m1 m2 m3 _ _ _ _ _ _ (vx p) (vy p) (vz p) G0 G1 G2 G3 Fx0 Fx1 Fy0 Fy1 Fz0 Fz1 Fx Fy Fz Hx Hy Hz Ok')
        as (Op & aL & bL & cL & aU & bU & cU & Hb).
      destruct (div_w (frow m0 m1 m2 m3 (vx p) (vy p) (vz p)) _ Fwp Vwp) as (Np & Ep).
      split. { unfold c, okN. rewrite Np. exact Op. }
      exists (corner b aL bL cL), (corner b aU bU cU). split. apply corner_in. split. apply corner_in.
      unfold c. rewrite (Ep Op).
      destruct (Wc aL bL cL) as (FwL & VwL). destruct (Wc aU bU cU) as (FwU & VwU).
      pose proof (proj2 (div_w _ _ FwL VwL) (Ok' aL bL cL)) as EL. pose proof (proj2 (div_w _ _ FwU VwU) (Ok' aU bU cU)) as EU.
      unfold sel in EL, EU, Hb. cbn [corner vx vy vz] in EL, EU |- *. rewrite EL, EU. exact Hb. }
    rewrite pt_coords.
    destruct (Row _ _ _ _ F00 F01 F02 F03) as (Ox & xL & xU & IxL & IxU & Bx).
    { intros i j k. specialize (Oc i j k). rewrite pt_coords in Oc. apply Oc. }
    destruct (Row _ _ _ _ F10 F11 F12 F13) as (Oy & yL & yU & IyL & IyU & By).
    { intros i j k. specialize (Oc i j k). rewrite pt_coords in Oc. apply Oc. }
    destruct (Row _ _ _ _ F20 F21 F22 F23) as (Oz & zL & zU & IzL & IzU & Bz).
    { intros i j k. specialize (Oc i j k). rewrite pt_coords in Oc. apply Oc. }
    clear Row.
    (* the hull contains every corner image *)
    rewrite bbox_by_fold.
    destruct (hull8_in (map (mul4x4point m) (corners8 b))) as (Oh & Hh).
    { discriminate. }
    { apply Forall_forall. intros q Hq. apply in_map_iff in Hq. destruct Hq as (c0 & <- & Hc0). apply v_nan_free_ok, Hnf, Hc0. }
    set (h := hull8 (map (mul4x4point m) (corners8 b))) in *.
    assert (HxL := Hh _ (in_map (mul4x4point m) _ _ IxL)). assert (HxU := Hh _ (in_map (mul4x4point m) _ _ IxU)).
    assert (HyL := Hh _ (in_map (mul4x4point m) _ _ IyL)). assert (HyU := Hh _ (in_map (mul4x4point m) _ _ IyU)).
    assert (HzL := Hh _ (in_map (mul4x4point m) _ _ IzL)). assert (HzU := Hh _ (in_map (mul4x4point m) _ _ IzU)).
    rewrite pt_coords in HxL, HxU, HyL, HyU, HzL, HzU.
    unfold inE, vleE in HxL, HxU, HyL, HyU, HzL, HzU. cbn [vx vy vz] in HxL, HxU, HyL, HyU, HzL, HzU.
    destruct Oh as ((O1 & O2 & O3) & (O4 & O5 & O6)).
    unfold bbox_point_inside. cbn [nleb NBf NumB vx vy vz]. rewrite !andb_true_iff.
    repeat split; apply leb_true; try assumption; lra.
  Qed.

  (** ** the same facts in terms of the float comparison [Bleb] *)
  Theorem add_mono_leb (x x' y y' : bf) : Bleb x x' = true -> Bleb y y' = true ->
    is_nan (x + y)%num = false -> is_nan (x' + y')%num = false -> Bleb (x + y)%num (x' + y')%num = true.
  Proof.
    intros Lx Ly O O'. destruct (leb_ok _ _ Lx) as (Ox & Ox'). destruct (leb_ok _ _ Ly) as (Oy & Oy').
    apply leb_true; try assumption. apply add_mono; try assumption; apply leb_true; assumption.
  Qed.
  Theorem mul_mono_leb (m x x' : bf) : fin m -> fin x -> fin x' -> Bleb x x' = true ->
    (0 <= B2R m -> Bleb (m * x)%num (m * x')%num = true) /\ (B2R m <= 0 -> Bleb (m * x')%num (m * x)%num = true).
  Proof.
    intros Fm Fx Fx' L. rewrite Bleb_correct in L by assumption.
    assert (L' : B2R x <= B2R x') by (destruct (Rle_bool_spec (B2R x) (B2R x')); [assumption|discriminate]). clear L.
    split; intros Hm; (apply leb_true; [apply mul_ev_fin; assumption | apply mul_ev_fin; assumption |]).
    - apply mul_mono_pos; assumption.
    - apply mul_mono_neg; assumption.
  Qed.
  Theorem row_between_corners (m0 m1 m2 m3 x0 x1 y0 y1 z0 z1 x y z : bf) :
    fin m0 -> fin m1 -> fin m2 -> fin m3 -> fin x0 -> fin x1 -> fin y0 -> fin y1 -> fin z0 -> fin z1 ->
    Bleb x0 x = true -> Bleb x x1 = true -> Bleb y0 y = true -> Bleb y y1 = true -> Bleb z0 z = true -> Bleb z z1 = true ->
    (forall a b c : bool, is_nan (frow m0 m1 m2 m3 (sel a x0 x1) (sel b y0 y1) (sel c z0 z1)) = false) ->
    is_nan (frow m0 m1 m2 m3 x y z) = false /\
    exists aL bL cL aU bU cU : bool,
      Bleb (frow m0 m1 m2 m3 (sel aL x0 x1) (sel bL y0 y1) (sel cL z0 z1)) (frow m0 m1 m2 m3 x y z) = true /\
      Bleb (frow m0 m1 m2 m3 x y z) (frow m0 m1 m2 m3 (sel aU x0 x1) (sel bU y0 y1) (sel cU z0 z1)) = true.
  Proof.
    intros Fm0 Fm1 Fm2 Fm3 Fx0 Fx1 Fy0 Fy1 Fz0 Fz1 X0 X1 Y0 Y1 Z0 Z1 Hc.
    destruct (between_fin _ _ _ Fx0 Fx1 X0 X1) as (Fx & Hx). destruct (between_fin _ _ _ Fy0 Fy1 Y0 Y1) as (Fy & Hy).
    destruct (between_fin _ _ _ Fz0 Fz1 Z0 Z1) as (Fz & Hz).
    destruct (row_sandwich m0 m1 m2 m3 x0 x1 y0 y1 z0 z1 x y z) as (Op & aL & bL & cL & aU & bU & cU & HL & HU); try assumption.
    split. exact Op. exists aL, bL, cL, aU, bU, cU. split; apply leb_true; try assumption; apply Hc.
  Qed.

  (** ** [transform_bbox] / [inv_transform_bbox] and the world bounds of the primitives *)
  Definition tr_ok (m : M4 bf) (b : BBox bf) : Prop :=
    rows012 (fun x : bf => fin x) m /\ affine_last m /\ bbox_by_nan_free m b = true.
  Theorem tr_bbox_contains_float (t : Tr bf) (b : BBox bf) (p : V3 bf) : fin3 (bmin b) -> fin3 (bmax b) ->
    bbox_point_inside b p = true ->
    (tr_ok (elements t) b -> bbox_point_inside (tr_bbox t b) (tr_pt t p) = true) /\
    (tr_ok (inv_elements t) b -> bbox_point_inside (tr_inv_bbox t b) (tr_inv_pt t p) = true).
  Proof.
    intros F0 F1 Hin. split; intros (Hr & Ha & Hn); apply bbox_by_contains_image_float; assumption.
  Qed.
  Definition tr_ok_opt (t : option (Tr bf)) (b : BBox bf) : Prop := match t with Some t => tr_ok (elements t) b | None => True end.
  Theorem world_bounds_contain_float (t : option (Tr bf)) (lb : BBox bf) (p : V3 bf) : fin3 (bmin lb) -> fin3 (bmax lb) ->
    tr_ok_opt t lb -> bbox_point_inside lb p = true -> bbox_point_inside (world_bounds t lb) (place_pt t p) = true.
  Proof.
    intros F0 F1 Ht Hin. destruct t as [t|]; cbn [world_bounds place_pt tr_ok_opt] in *; [|exact Hin].
    destruct Ht as (Hr & Ha & Hn). apply bbox_by_contains_image_float; assumption.
  Qed.
  (** the local bounds of spheres and cylinders have finite corners when radius and clips are finite *)
  Lemma quadric_bounds_fin (r zmin zmax : bf) : fin r -> fin zmin -> fin zmax ->
    fin3 (bmin (sphere_bounds r zmin zmax)) /\ fin3 (bmax (sphere_bounds r zmin zmax)).
  Proof.
    intros Fr F0 F1. assert (Fn : fin (- r)%num) by (cbn [nneg NBf NumB]; rewrite is_finite_Bopp; exact Fr).
    destruct (F_new_normalises prec emax Hprec Hmax (mkV3 (- r) (- r) zmin)%num (mkV3 r r zmax)) as (_ & _ & _ & O).
    - repeat split; assumption.
    - repeat split; assumption.
    - exact O.
  Qed.
  Theorem sphere_world_bounds_float (t : option (Tr bf)) (r zmin zmax : bf) (p : V3 bf) : fin r -> fin zmin -> fin zmax ->
    tr_ok_opt t (sphere_bounds r zmin zmax) -> bbox_point_inside (sphere_bounds r zmin zmax) p = true ->
    bbox_point_inside (world_bounds t (sphere_bounds r zmin zmax)) (place_pt t p) = true.
  Proof. intros Fr F0 F1. destruct (quadric_bounds_fin r zmin zmax Fr F0 F1). apply world_bounds_contain_float; assumption. Qed.
  Theorem cylinder_world_bounds_float (t : option (Tr bf)) (r zmin zmax : bf) (p : V3 bf) : fin r -> fin zmin -> fin zmax ->
    tr_ok_opt t (cylinder_bounds r zmin zmax) -> bbox_point_inside (cylinder_bounds r zmin zmax) p = true ->
    bbox_point_inside (world_bounds t (cylinder_bounds r zmin zmax)) (place_pt t p) = true.
  Proof. exact (sphere_world_bounds_float t r zmin zmax p). Qed.
  (** triangles carry no transform: world bounds = local bounds, for every input *)
  Theorem triangle_world_bounds_float (a b c p : V3 bf) :
    bbox_point_inside (triangle_world_bounds a b c) p = bbox_point_inside (triangle_bounds a b c) p.
  Proof. reflexivity. Qed.

  (** ** an evaluable criterion for [affine_last] *)
  Lemma eqb_fin (x y : bf) : fin y -> Beqb x y = true -> fin x /\ B2R x = B2R y.
  Proof.
    intros Fy E.
    assert (Fx : fin x).
    { destruct x as [s|s| |s m e Hb]; try reflexivity; exfalso;
        destruct y as [s'|s'| |s' m' e' Hb']; try discriminate; revert E; unfold Beqb, SpecFloat.SFeqb; simpl; try destruct s; discriminate. }
    split. exact Fx. rewrite Beqb_correct in E by assumption. destruct (Req_bool_spec (B2R x) (B2R y)); [assumption|discriminate].
  Qed.
  Lemma n1_one : fin (@n1 bf NBf) /\ B2R (@n1 bf NBf) = 1.
  Proof.
    unfold n1. cbn [nofZ NBf NumB]. unfold Bofz.
    generalize (binary_normalize_correct prec emax Hprec Hmax mode_NE 1 0 false). cbv zeta.
    assert (HF : F2R (Float radix2 1 0) = 1) by (unfold F2R; simpl; ring).
    rewrite HF. cbn [round_mode].
    assert (Hem : (2 <= emax)%Z) by (unfold Prec_lt_emax, FLX.Prec_gt_0 in *; lia).
    assert (Fmt : generic_format radix2 (SpecFloat.fexp prec emax) 1).
    { change 1 with (bpow radix2 0). apply generic_format_bpow. unfold SpecFloat.fexp, SpecFloat.emin. unfold FLX.Prec_gt_0 in *. lia. }
    rewrite round_generic by (try typeclasses eauto; exact Fmt).
    rewrite Rlt_bool_true.
    - intros (E1 & E2 & _). split; assumption.
    - rewrite Rabs_R1. change 1 with (bpow radix2 0). apply bpow_lt. lia.
  Qed.
  Lemma affine_last_b_sound (m : M4 bf) : affine_last_b m = true -> affine_last m.
  Proof.
    unfold affine_last_b. cbn [neqb NBf NumB]. rewrite !andb_true_iff. intros (((E0 & E1) & E2) & E3).
    assert (Z0 : fin (@n0 bf NBf) /\ B2R (@n0 bf NBf) = 0) by (split; reflexivity).
    destruct Z0 as (Fz & Vz). destruct n1_one as (F1 & V1).
    destruct (eqb_fin _ _ Fz E0) as (G0 & W0). destruct (eqb_fin _ _ Fz E1) as (G1 & W1).
    destruct (eqb_fin _ _ Fz E2) as (G2 & W2). destruct (eqb_fin _ _ F1 E3) as (G3 & W3).
    unfold C16_errbound.affine_last. rewrite W0, W1, W2, W3, Vz, V1. tauto.
  Qed.

  (** ** the fully evaluable form *)
  Lemma fin_b_sound (x : bf) : fin_b x = true <-> fin x.
  Proof. unfold fin_b. cbn [nltb nabs ninf NBf NumB]. destruct x as [s|s| |s m e Hb]; simpl; split; intros; try discriminate; reflexivity. Qed.
  Lemma fin3_b_sound (v : V3 bf) : fin3_b v = true <-> fin3 v.
  Proof. unfold fin3_b, C16_errbound.fin3. rewrite !andb_true_iff, !fin_b_sound. tauto. Qed.
  Lemma tr_ok_b_sound (m : M4 bf) (b : BBox bf) : tr_ok_b m b = true -> tr_ok m b /\ fin3 (bmin b) /\ fin3 (bmax b).
  Proof.
    unfold tr_ok_b, rows012_b, tr_ok, rows012. rewrite !andb_true_iff, !fin_b_sound, !fin3_b_sound.
    intros ((((R & A) & F0) & F1) & N). split; [|tauto]. split. tauto. split. apply affine_last_b_sound, A. exact N.
  Qed.
  Theorem bbox_by_contains_image_float_b (m : M4 bf) (b : BBox bf) (p : V3 bf) :
    tr_ok_b m b = true -> bbox_point_inside b p = true -> bbox_point_inside (bbox_by m b) (mul4x4point m p) = true.
  Proof.
    intros Hok Hin. destruct (tr_ok_b_sound m b Hok) as ((Hr & Ha & Hn) & F0 & F1).
    apply bbox_by_contains_image_float; assumption.
  Qed.
End C15_float.

(** ** non-vacuity at binary64 and binary32 *)
Lemma nonvacuous64 :
  let t := @tr_mul_assign _ NumB64 (tr_translate n1 n2 (nofZ 3)) (tr_scale n2 (- n1)%num nhalf) in
  let b := @bbox_new _ NumB64 (mkV3 n1 n1 n1) (mkV3 n0 n0 n0) in
  @tr_ok_b _ NumB64 (elements t) b = true /\ @tr_ok_b _ NumB64 (inv_elements t) b = true /\
  @bbox_point_inside _ NumB64 b (mkV3 nhalf (nhalf * nhalf)%num n1) = true.
Proof. cbv zeta. repeat split; vm_compute; reflexivity. Qed.
Lemma nonvacuous32 :
  let t := @tr_mul_assign _ NumB32 (tr_translate n1 n2 (nofZ 3)) (tr_scale n2 (- n1)%num nhalf) in
  let b := @bbox_new _ NumB32 (mkV3 n1 n1 n1) (mkV3 n0 n0 n0) in
  @tr_ok_b _ NumB32 (elements t) b = true /\ @tr_ok_b _ NumB32 (inv_elements t) b = true /\
  @bbox_point_inside _ NumB32 b (mkV3 nhalf (nhalf * nhalf)%num n1) = true.
Proof. cbv zeta. repeat split; vm_compute; reflexivity. Qed.
