(** * Mesh_refine_trace (C08): the elementary steps that a [refine] pass performs, as a trace.
    [refine_pass_trace] / [refine_trace] follow the control flow of [refine_pass] / [refine] (Model/Triangulation.v) and list,
    in order, the steps whose outcome was Ok: [TStep (OSplitEdge i e mid)] (mid = midpoint of the longest edge),
    [TStep (ORestore m)], [TStep (OAddPoint c)] (c = the cached circumcentre), [TStep (OSplitTriangle i cen)] (the fall-back
    add_point_to_triangle at the cached centroid, location Inside), and [TSwallowed c] for an add_point whose Err was swallowed.
    [refine_tr] pairs the real function with the trace, so the erasure lemma is a definitional equality.
    [tr_ok side M tr] replays the trace from M and asks [side M_k op_k] of every step on the mesh it is applied to.
    Every number instance. *)
From Coq Require Import ZArith Bool List Arith Lia.
From G3 Require Import Model.Num Model.Base Model.Vec Model.Segment Model.Triangle Model.Loop Model.Polygon Model.Triangulation
  Proofs.Mesh_base Proofs.Mesh_wf Proofs.Mesh_sites Proofs.Mesh_conf Proofs.Mesh_region Proofs.Mesh_atomic.
Import ListNotations.
Local Open Scope num_scope.

Section Trace.
  Context {K : Type} {NK : Num K}.
  Notation V := (V3 K).
  Notation TP := (TriPiece K).
  Notation Mesh := (Mesh K).

  Inductive tev := TStep (op : mop K) | TSwallowed (p : V).

  Fixpoint refine_pass_trace (max_area max_aspect_ratio : K) (cnt i : nat) (l : list TP) (M : Mesh) : list tev :=
    match cnt with
    | O => []
    | S cnt' =>
      match l with
      | [] => []
      | t :: l' =>
        if negb (tp_valid t) then [] else
        if tarea (tp_tri t) <? c1em3 then refine_pass_trace max_area max_aspect_ratio cnt' (S i) l' M else
        if tp_ar t >? max_aspect_ratio then
          match longest_edge (tp_tri t) with
          | Ok (s_i, s) =>
            match edge_from_i s_i with
            | Ok ed =>
              match split_edge i ed (seg_midpoint s) M with
              | (M1, Ok _) =>
                TStep (OSplitEdge i s_i (seg_midpoint s)) ::
                match restore_delaunay max_aspect_ratio M1 with
                | (M2, Ok _) => TStep (ORestore max_aspect_ratio) :: refine_pass_trace max_area max_aspect_ratio cnt' (S i) (skipn (S i) (tris M2)) M2
                | _ => []
                end
              | _ => []
              end
            | _ => []
            end
          | _ => []
          end
        else if tarea (tp_tri t) >? max_area then
          match add_point (tp_cc t) M with
          | (M1, Ok did) =>
            TStep (OAddPoint (tp_cc t)) ::
            (if did then
               match restore_delaunay max_aspect_ratio M1 with
               | (M2, Ok _) => TStep (ORestore max_aspect_ratio) :: refine_pass_trace max_area max_aspect_ratio cnt' (S i) (skipn (S i) (tris M2)) M2
               | _ => []
               end
             else refine_pass_trace max_area max_aspect_ratio cnt' (S i) (skipn (S i) (tris M1)) M1)
          | (M1, Err _) =>
            TSwallowed (tp_cc t) ::
            match nth_error (tris M1) i with
            | Some t' =>
              match add_point_to_triangle i (tp_cen t') Inside M1 with
              | (M2, Ok did) =>
                TStep (OSplitTriangle i (tp_cen t')) ::
                (if did then
                   match restore_delaunay max_aspect_ratio M2 with
                   | (M3, Ok _) => TStep (ORestore max_aspect_ratio) :: refine_pass_trace max_area max_aspect_ratio cnt' (S i) (skipn (S i) (tris M3)) M3
                   | _ => []
                   end
                 else refine_pass_trace max_area max_aspect_ratio cnt' (S i) (skipn (S i) (tris M2)) M2)
              | _ => []
              end
            | None => []
            end
          | _ => []
          end
        else refine_pass_trace max_area max_aspect_ratio cnt' (S i) l' M
      end
    end.
  Fixpoint refine_trace (fuel : nat) (max_area max_aspect_ratio : K) (M : Mesh) : list tev :=
    match fuel with
    | O => []
    | S f =>
      refine_pass_trace max_area max_aspect_ratio (length (tris M)) 0 (tris M) M ++
      match refine_pass max_area max_aspect_ratio (length (tris M)) 0 (tris M) false M with
      | (M1, Ok true) => refine_trace f max_area max_aspect_ratio M1
      | _ => []
      end
    end.
  (** the instrumented functions; erasure is by definition *)
  Definition refine_pass_tr (a m : K) (cnt i : nat) (l : list TP) (any : bool) (M : Mesh) : Mesh * res bool * list tev :=
    (refine_pass a m cnt i l any M, refine_pass_trace a m cnt i l M).
  Definition refine_tr (fuel : nat) (a m : K) (M : Mesh) : Mesh * res rres * list tev := (refine fuel a m M, refine_trace fuel a m M).
  Lemma refine_pass_erase a m cnt i l any M : fst (refine_pass_tr a m cnt i l any M) = refine_pass a m cnt i l any M.
  Proof. reflexivity. Qed.
  Lemma refine_erase fuel a m M : fst (refine_tr fuel a m M) = refine fuel a m M.
  Proof. reflexivity. Qed.

  (** replay of a trace; [side] is asked of every step on the mesh it is applied to *)
  Fixpoint tr_ok (side : Mesh -> mop K -> Prop) (M : Mesh) (tr : list tev) : Prop :=
    match tr with
    | [] => True
    | TStep op :: tl => side M op /\ tr_ok side (fst (mesh_step op M)) tl
    | TSwallowed p :: tl => tr_ok side (fst (add_point p M)) tl
    end.
  Lemma tr_ok_app side M tr1 tr2 : tr_ok side M (tr1 ++ tr2) -> tr_ok side M tr1.
  Proof. revert M; induction tr1 as [|[op|p] tr1 IH]; intros M H; cbn [app tr_ok] in *; [exact I | destruct H as [A B]; split; [exact A | eapply IH; exact B] | eapply IH; exact H]. Qed.

  (** the final mesh of a replay *)
  Fixpoint tr_end (M : Mesh) (tr : list tev) : Mesh :=
    match tr with
    | [] => M
    | TStep op :: tl => tr_end (fst (mesh_step op M)) tl
    | TSwallowed p :: tl => tr_end (fst (add_point p M)) tl
    end.
  Lemma tr_ok_app2 side M tr1 tr2 : tr_ok side M (tr1 ++ tr2) -> tr_ok side (tr_end M tr1) tr2.
  Proof. revert M; induction tr1 as [|[op|p] tr1 IH]; intros M H; cbn [app tr_ok tr_end] in *; [exact H | destruct H as [A B]; eapply IH; exact B | eapply IH; exact H]. Qed.

  (** on a structurally sound mesh an Err of add_point (whatever its class) comes with the mesh unchanged *)
  Lemma aptt_err_struct (i : nat) (p : V) (loc : PIT) (M M' : Mesh) (c : N) :
    WF M -> CNT M -> LNK M -> add_point_to_triangle i p loc M = (M', Err c) -> M' = M.
  Proof.
    intros W C HL H. unfold add_point_to_triangle in H.
    apply bind_get_inv in H. destruct H as [(t & Et & H) | (-> & _)]; [|reflexivity].
    destruct (negb (tp_valid t)); [inversion H; reflexivity|].
    destruct (pit_is_vertex loc); [inversion H|].
    destruct (pit_is_edge loc).
    - apply bind_lift_inv in H. destruct H as [(ed & _ & H) | (-> & _)]; [|reflexivity].
      apply mbind_inv in H. destruct H as [([] & M1 & H1 & H) | [(c' & H1 & E) | (s & H1 & E)]]; [inversion H | | discriminate].
      destruct (split_edge_struct _ _ _ _ _ _ W C HL H1) as [(Q & _) | [Q | Q]]; [discriminate | exact Q | discriminate].
    - destruct loc; try (inversion H; reflexivity).
      apply mbind_inv in H. destruct H as [([] & M1 & H1 & H) | [(c' & H1 & E) | (s & H1 & E)]]; [inversion H | | discriminate].
      destruct (split_triangle_struct _ _ _ _ _ W C HL H1) as [(Q & _) | [Q | Q]]; [discriminate | exact Q | discriminate].
  Qed.
  Lemma add_point_err_struct (p : V) (M M' : Mesh) (c : N) : WF M -> CNT M -> LNK M -> add_point p M = (M', Err c) -> M' = M.
  Proof.
    intros W C HL H. unfold add_point in H. destruct (find_container (tris M) 0 p) as [[i loc]|]; [|inversion H; reflexivity].
    eapply aptt_err_struct; eassumption.
  Qed.
  (** the fall-back [add_point_to_triangle i p Inside] returning Ok is [split_triangle i p] *)
  Lemma aptt_inside_ok (i : nat) (p : V) (M M' : Mesh) (did : bool) :
    add_point_to_triangle i p Inside M = (M', Ok did) -> split_triangle i p M = (M', Ok tt) /\ did = true.
  Proof.
    intros H. unfold add_point_to_triangle in H. apply bind_get_ok in H. destruct H as (t & _ & H).
    destruct (negb (tp_valid t)); [discriminate|]. cbn [pit_is_vertex pit_is_edge] in H.
    apply mbind_ok in H. destruct H as ([] & M1 & H1 & H). inversion H; subst. split; [exact H1 | reflexivity].
  Qed.
  (** counter and indices after an add_point returning Ok, on a sound mesh *)
  Lemma add_point_ok_struct (p : V) (M M' : Mesh) (b : bool) : WF M -> CNT M -> LNK M -> add_point p M = (M', Ok b) -> WF M' /\ CNT M'.
  Proof.
    intros W C HL H. split; [exact (proj2 (wf_add_point p M M' _ H) W)|]. unfold add_point in H.
    destruct (find_container (tris M) 0 p) as [[i loc]|]; [|discriminate]. unfold add_point_to_triangle in H.
    apply bind_get_ok in H. destruct H as (t & _ & H). destruct (negb (tp_valid t)); [discriminate|].
    destruct (pit_is_vertex loc); [inversion H; subst; exact C|].
    destruct (pit_is_edge loc).
    - apply bind_lift_ok in H. destruct H as (ed & _ & H). apply mbind_ok in H. destruct H as ([] & M1 & H1 & H). inversion H; subst.
      destruct (split_edge_struct _ _ _ _ _ _ W C HL H1) as [(_ & _ & Q & _) | [Q | Q]]; [exact Q | subst; exact C | discriminate].
    - destruct loc; try discriminate. apply mbind_ok in H. destruct H as ([] & M1 & H1 & H). inversion H; subst.
      exact (proj1 (cnt_split_triangle _ _ _ _ _ C H1)).
  Qed.
End Trace.
Arguments tev K : clear implicits.
