(** * Flat_examples: combined statements and the concrete inputs used as non-vacuity witnesses. *)
From Coq Require Import ZArith Reals Lra Bool List Psatz.
From G3 Require Import Model.Num Model.Base Model.Vec Model.BBox Model.Transform Model.Hit Model.Segment Model.Triangle Model.Plane Model.Disk Model.Distant
  Theory.RInst Proofs.C06_transform Proofs.Flat_base Proofs.Flat_polar Proofs.Flat_triangle Proofs.Flat_disk Proofs.Flat_distant.
Local Open Scope R_scope.

(** ** combined statements *)
Lemma tri_intersect_sound (t : Tri R) (ray : Ray R) (i : Info R) :
  tri_intersect t ray = Some i -> (exists tt, ctiny < tt /\ ip i = ray_project ray tt) /\ in_triangle t (ip i).
Proof. intros H. apply tri_intersect_spec in H. destruct H as (A & B & _). split; assumption. Qed.

Lemma disk_basic_sound_geo (d : Disk R) (ray : Ray R) (p : V) (phi : R) : disk_wf d ->
  disk_basic_intersection d ray = Some (p, phi) ->
  (exists t, 0 < t /\ p = ray_project ray t) /\
  vdot (dk_normal d) (vsub p (dk_centre d)) = 0 /\
  dk_inner d * dk_inner d <= vlen2 (vsub p (dk_centre d)) <= dk_radius d * dk_radius d /\
  exists rho, dk_inner d <= rho <= dk_radius d /\ 0 <= phi <= dk_phi_max d /\ phi < 2 * PI /\ p = disk_point d rho phi.
Proof.
  intros W H. apply disk_basic_sound in H; [|assumption]. destruct H as (Ht & _ & Hon & ->).
  pose proof Hon as (H1 & H2 & H3). destruct (on_disk_polar d p W Hon) as (rho & R1 & R2 & R3 & R4).
  split; [assumption|]. split; [assumption|]. split; [assumption|]. exists rho. repeat split; try assumption; lra.
Qed.

Lemma disk_intersect_tr_sound (d : Disk R) (t : T) (ray : Ray R) (i : Info R) : disk_wf d -> dk_transform d = Some t -> Inv t ->
  disk_intersect d ray = Some i ->
  exists pl, ip i = tr_pt t pl /\ on_disk d pl /\ exists s, 0 < s /\ ip i = ray_project ray s.
Proof.
  intros W Et Hi H. destruct (disk_intersect_tr_spec d t ray i W Et Hi H) as (il & _ & _ & Hon & Hp & Hs & _).
  exists (ip il). auto.
Qed.
Lemma disk_intersect_tr_data (d : Disk R) (t : T) (ray : Ray R) (i : Info R) : disk_wf d -> dk_transform d = Some t -> Inv t ->
  disk_intersect d ray = Some i ->
  vdot (inormal i) (rdir ray) < 0 /\ vdot (inormal i) (idpdu i) = 0 /\ vdot (inormal i) (idpdv i) = 0 /\
  (rigid t -> vlen2 (inormal i) = 1) /\
  (vdot (tr_normal t (dk_normal d)) (rdir ray) < 0 -> iside i = Front /\ inormal i = tr_normal t (dk_normal d)) /\
  (0 < vdot (tr_normal t (dk_normal d)) (rdir ray) -> iside i = Back /\ inormal i = vneg (tr_normal t (dk_normal d))).
Proof.
  intros W Et Hi H. destruct (disk_intersect_tr_spec d t ray i W Et Hi H) as (il & _ & _ & _ & _ & _ & A & B & C & _ & D & E & F).
  repeat split; try assumption; try (apply E; assumption); try (apply F; assumption).
Qed.

(** ** witnesses *)
Definition ex_tri : Tri R := mkTri (mkV3 0 0 0) (mkV3 1 0 0) (mkV3 0 1 0) (mkV3 0 0 1) (1 / 2).
Definition ex_ray_down : Ray R := mkRay (mkV3 (1/4) (1/4) 1) (mkV3 0 0 (-1)).
Definition ex_ray_up : Ray R := mkRay (mkV3 (1/4) (1/4) (-2)) (mkV3 0 0 3).

Lemma ex_tri_det_down : tri_det ex_ray_down (ta ex_tri) (tb ex_tri) (tc ex_tri) = 1.
Proof. unfold tri_det, ex_ray_down, ex_tri. vunf. cbn [ta tb tc]. vunf. ring. Qed.
Lemma ex_tri_det_up : tri_det ex_ray_up (ta ex_tri) (tb ex_tri) (tc ex_tri) = -3.
Proof. unfold tri_det, ex_ray_up, ex_tri. vunf. cbn [ta tb tc]. vunf. ring. Qed.
Lemma ex_tri_hit_down : intersect_triangle ex_ray_down (ta ex_tri) (tb ex_tri) (tc ex_tri) = Some (ray_project ex_ray_down 1, 1/4, 1/4).
Proof.
  pose proof ctiny_small. pose proof ctiny_pos. apply intersect_triangle_complete; try lra.
  - rewrite ex_tri_det_down. lra.
  - unfold tri_point, ex_ray_down, ex_tri. cbn [ta tb tc]. vunf. apply v3_eq; cbn [vx vy vz]; field.
Qed.
Lemma ex_tri_hit_up : intersect_triangle ex_ray_up (ta ex_tri) (tb ex_tri) (tc ex_tri) = Some (ray_project ex_ray_up (2/3), 1/4, 1/4).
Proof.
  pose proof ctiny_small. pose proof ctiny_pos. apply intersect_triangle_complete; try lra.
  - rewrite ex_tri_det_up. lra.
  - unfold tri_point, ex_ray_up, ex_tri. cbn [ta tb tc]. vunf. apply v3_eq; cbn [vx vy vz]; field.
Qed.
Lemma ex_tri_nonvacuous : exists p u v, intersect_triangle ex_ray_down (ta ex_tri) (tb ex_tri) (tc ex_tri) = Some (p, u, v).
Proof. eexists; eexists; eexists. apply ex_tri_hit_down. Qed.
Lemma ex_tri_two_sided : exists i1 i2, tri_intersect ex_tri ex_ray_down = Some i1 /\ tri_intersect ex_tri ex_ray_up = Some i2 /\
  vdot (tri_N ex_tri) (rdir ex_ray_down) < 0 /\ 0 < vdot (tri_N ex_tri) (rdir ex_ray_up).
Proof.
  unfold tri_intersect, tri_intersect_local_ray. rewrite ex_tri_hit_down, ex_tri_hit_up.
  destruct (get_side _ (rdir ex_ray_down)). destruct (get_side _ (rdir ex_ray_up)).
  eexists; eexists. split; [reflexivity|]. split; [reflexivity|].
  unfold tri_N, ex_tri, ex_ray_down, ex_ray_up. cbn [ta tb tc]. vunf. lra.
Qed.
Lemma ex_tri_simple_nonvacuous : exists (t : Tri R) (ray : Ray R) (p : V), tri_simple_intersect t ray = Some p.
Proof.
  (* the nudge dt of the identity transform is not computed: the triangle is placed one unit ahead of the nudged origin *)
  pose proof (id_ray_spec ex_ray_down) as H. cbv zeta in H. destruct H as (D & dt & P & O & Pr).
  exists (mkTri (mkV3 0 0 (- dt)) (mkV3 1 0 (- dt)) (mkV3 0 1 (- dt)) (mkV3 0 0 1) (1 / 2)), ex_ray_down.
  unfold tri_simple_intersect. destruct (tr_inv_ray tr_new ex_ray_down) as [[r' oe] de]. cbn [fst] in *. cbn [ta tb tc].
  pose proof ctiny_small. pose proof ctiny_pos.
  rewrite (intersect_triangle_complete r' _ _ _ 1 (1/4) (1/4)); try lra; [eexists; reflexivity | |].
  - unfold tri_det. rewrite D. unfold ex_ray_down. vunf. lra.
  - rewrite Pr. unfold tri_point, ex_ray_down. vunf. apply v3_eq; cbn [vx vy vz]; field.
Qed.

Definition ex_disk : Disk R := mkDisk (mkV3 0 0 0) (mkV3 0 0 1) 1 0 (mkV3 1 0 0) (2 * PI) None.
Lemma ex_disk_wf : disk_wf ex_disk.
Proof. constructor; unfold ex_disk; cbn [dk_normal dk_phi_zero dk_inner dk_radius]; vunf; lra. Qed.
Lemma ex_disk_on (p : V) : vz p = 0 -> vx p * vx p + vy p * vy p <= 1 -> on_disk ex_disk p.
Proof.
  intros Hz Hr. destruct p as [px py pz]. cbn [vx vy vz] in *. subst pz. unfold on_disk, ex_disk. cbn [dk_normal dk_centre dk_inner dk_radius dk_phi_max].
  split; [vunf; ring|]. split; [vunf; nra|].
  rewrite disk_phi_eq. cbn [dk_centre dk_phi_zero]. set (x := vdot _ _). set (y := vdot _ _).
  destruct (Req_dec x 0) as [Ex|Ex]; [destruct (Req_dec y 0) as [Ey|Ey]|].
  - rewrite Ex, Ey, polar_phi_origin. pose proof PI_RGT_0. lra.
  - destruct (polar_phi_spec x y (or_intror Ey)) as (_ & _ & B). cbv zeta in B. lra.
  - destruct (polar_phi_spec x y (or_introl Ex)) as (_ & _ & B). cbv zeta in B. lra.
Qed.
Lemma ex_disk_den (ray : Ray R) : vz (rdir ray) = -1 -> neps <= Rabs (vdot (dk_normal ex_disk) (rdir ray)).
Proof.
  intros H. unfold ex_disk. cbn [dk_normal]. destruct ray as [o [dx dy dz]]. cbn [rdir vz] in *. subst dz. vunf.
  replace (0 * dx + 0 * dy + 1 * -1) with (- (1)) by ring. rewrite Rabs_Ropp, Rabs_R1. pose proof neps_small. lra.
Qed.
Lemma ex_disk_hit_down : disk_basic_intersection ex_disk ex_ray_down = Some (ray_project ex_ray_down 1, disk_phi ex_disk (ray_project ex_ray_down 1)).
Proof.
  apply disk_basic_complete; [apply ex_disk_wf | apply ex_disk_den; reflexivity | lra |].
  apply ex_disk_on; unfold ex_ray_down; vunf; lra.
Qed.
Lemma ex_disk_nonvacuous : disk_wf ex_disk /\ exists p phi, disk_basic_intersection ex_disk ex_ray_down = Some (p, phi).
Proof. split; [apply ex_disk_wf|]. eexists; eexists. apply ex_disk_hit_down. Qed.
Lemma ex_disk_two_sided : exists i1 i2, disk_intersect_local_ray ex_disk ex_ray_down = Some i1 /\ disk_intersect_local_ray ex_disk ex_ray_up = Some i2 /\
  vdot (dk_normal ex_disk) (rdir ex_ray_down) < 0 /\ 0 < vdot (dk_normal ex_disk) (rdir ex_ray_up).
Proof.
  assert (H2 : disk_basic_intersection ex_disk ex_ray_up = Some (ray_project ex_ray_up (2/3), disk_phi ex_disk (ray_project ex_ray_up (2/3)))).
  { apply disk_basic_complete; [apply ex_disk_wf | | lra | apply ex_disk_on; unfold ex_ray_up; vunf; lra].
    unfold ex_disk, ex_ray_up. cbn [dk_normal]. vunf. replace (0 * 0 + 0 * 0 + 1 * 3) with 3 by ring. rewrite Rabs_right by lra. pose proof neps_small. lra. }
  unfold disk_intersect_local_ray. rewrite ex_disk_hit_down, H2. unfold disk_intersection_info.
  destruct (get_side _ (rdir ex_ray_down)). destruct (get_side _ (rdir ex_ray_up)).
  eexists; eexists. split; [reflexivity|]. split; [reflexivity|]. unfold ex_disk, ex_ray_down, ex_ray_up. cbn [dk_normal]. vunf. lra.
Qed.

(** a translated disk: the local ray is not computed; the disk is centred one unit ahead of its (nudged) origin *)
Lemma ex_disk_tr_nonvacuous : exists (d : Disk R) (t : T) (ray : Ray R) (pw : V),
  disk_wf d /\ dk_transform d = Some t /\ Inv t /\ rigid t /\ disk_simple_intersect d ray = Some pw /\ exists i, disk_intersect d ray = Some i.
Proof.
  set (t := tr_translate 1 2 3). assert (Hi : Inv t) by apply Inv_translate.
  pose proof (inv_ray_spec t ex_ray_down Hi) as H. cbv zeta in H. destruct H as (D & dt & P & Pr).
  set (r' := fst (fst (tr_inv_ray t ex_ray_down))) in *.
  assert (Hd : rdir r' = mkV3 0 0 (-1)) by (rewrite D; subst t; unfold ex_ray_down; cbn [rdir]; unf; apply v3_eq; cbn [vx vy vz]; ring).
  set (d := mkDisk (ray_project r' 1) (mkV3 0 0 1) 1 0 (mkV3 1 0 0) (2 * PI) (Some t)).
  assert (W : disk_wf d) by (constructor; unfold d; cbn [dk_normal dk_phi_zero dk_inner dk_radius]; vunf; lra).
  assert (Hden : neps <= Rabs (vdot (dk_normal d) (rdir r'))).
  { rewrite Hd. unfold d. cbn [dk_normal]. vunf. replace (0 * 0 + 0 * 0 + 1 * -1) with (- (1)) by ring. rewrite Rabs_Ropp, Rabs_R1. pose proof neps_small. lra. }
  assert (Hon : on_disk d (ray_project r' 1)).
  { unfold on_disk, d. cbn [dk_normal dk_centre dk_inner dk_radius dk_phi_max]. rewrite disk_phi_eq. cbn [dk_centre dk_phi_zero].
    assert (Z : vsub (ray_project r' 1) (ray_project r' 1) = mkV3 0 0 0) by (destruct (ray_project r' 1) as [a b c]; vunf; apply v3_eq; cbn [vx vy vz]; ring).
    rewrite Z. split; [vunf; ring|]. split; [vunf; lra|].
    replace (vdot (mkV3 0 0 0) (mkV3 1 0 0)) with 0 by (vunf; ring).
    replace (vdot (mkV3 0 0 0) (disk_e2 _)) with 0 by (destruct (disk_e2 _) as [a b c]; vunf; ring).
    rewrite polar_phi_origin. pose proof PI_RGT_0. lra. }
  exists d, t, ex_ray_down, (tr_pt t (ray_project r' 1)).
  split; [assumption|]. split; [reflexivity|]. split; [assumption|]. split; [apply rigid_translate|].
  split; [apply (disk_simple_intersect_complete d t ex_ray_down 1 W eq_refl Hi Hden ltac:(lra) Hon)|].
  unfold disk_intersect. cbn [dk_transform d]. fold r'. unfold disk_intersect_local_ray.
  rewrite (disk_basic_complete d r' 1 W Hden ltac:(lra) Hon). unfold disk_intersection_info. destruct (get_side _ _). eexists; reflexivity.
Qed.

(** the distant source: the sun straight ahead *)
Definition ex_sun : Distant R := mkDistant (mkV3 0 0 1) 1 1 (1 / 2) 1.
Lemma ex_sun_hit : vlen2 (ds_direction ex_sun) = 1 /\ 0 < ds_cos_half_alpha ex_sun /\ 0 < ds_tan_half_alpha ex_sun /\
  exists i, distant_intersect ex_sun ex_ray_up = Ok (Some i).
Proof.
  unfold ex_sun. cbn [ds_direction ds_cos_half_alpha ds_tan_half_alpha]. split; [vunf; ring|]. split; [lra|]. split; [lra|].
  unfold distant_intersect, distant_intersect_local_ray.
  assert (Hc : distant_simple_intersect_local_ray ex_sun ex_ray_up = Some (ray_project ex_ray_up nmaxf)).
  { apply distant_simple_local_iff. split; [|reflexivity]. rewrite vnormalize_dot. unfold ex_sun, ex_ray_up. cbn [ds_direction ds_cos_half_alpha rdir].
    unfold vlen, vlen2, vdot. cbn [vx vy vz]. rnum. replace (0 * 0 + 0 * 0 + 3 * 3) with (3 * 3) by ring. rewrite sqrt_square by lra. lra. }
  fold ex_sun. rewrite Hc.
  assert (Hu : vlen2 (ds_direction ex_sun) = 1) by (unfold ex_sun; cbn [ds_direction]; vunf; ring).
  assert (Hr : 0 < nofZ 10 * ds_tan_half_alpha ex_sun) by (unfold ex_sun; cbn [ds_tan_half_alpha]; rnum; lra).
  destruct (distant_proxy_ok ex_sun (nofZ 10) Hu Hr) as (dk & Edk & _). rewrite Edk. cbn [rbind].
  unfold disk_intersection_info. destruct (get_side _ _). eexists; reflexivity.
Qed.
Lemma ex_get_side : get_side (mkV3 0 0 1) (mkV3 0 0 (-1)) = (mkV3 0 0 1, Front) /\ get_side (mkV3 0 0 1) (mkV3 0 0 3) = (mkV3 0 0 (-1), Back).
Proof.
  split; [rewrite get_side_front by (vunf; lra); reflexivity|]. rewrite get_side_back by (vunf; lra). f_equal. vunf. apply v3_eq; cbn [vx vy vz]; ring.
Qed.
Lemma ex_info_new : vlen2 (vcross (mkV3 0 1 0) (mkV3 1 0 0)) <> 0 /\ vdot (vcross (mkV3 0 1 0) (mkV3 1 0 0)) (rdir ex_ray_down) <> 0.
Proof. unfold ex_ray_down. vunf. split; lra. Qed.
Lemma ex_plane : exists t, plane_intersect (plane_new (mkV3 0 0 0) (mkV3 0 0 2)) ex_ray_down = Some t.
Proof.
  exists 1. assert (Hn : vlen2 (mkV3 0 0 2) <> 0) by (vunf; lra).
  destruct (plane_new_spec (mkV3 0 0 0) (mkV3 0 0 2) Hn) as (_ & Hpl). cbv zeta in Hpl.
  apply plane_intersect_complete; [| apply Hpl; unfold ex_ray_down; vunf; ring | lra].
  unfold plane_den, plane_new. cbn [pl_normal]. rewrite vnormalize_dot. unfold ex_ray_down, vlen, vlen2, vdot. cbn [vx vy vz rdir]. rnum.
  replace (0 * 0 + 0 * 0 + 2 * 2) with (2 * 2) by ring. rewrite sqrt_square by lra.
  replace ((0 * 0 + 0 * 0 + 2 * -1) / 2) with (- (1)) by field. rewrite Rabs_Ropp, Rabs_R1. pose proof neps_small. lra.
Qed.
