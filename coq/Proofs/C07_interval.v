(** * C07_interval: proofs that the interval operators of Model/RoundError.v enclose the exact
    result, over every Flocq binary format.  Statements are in Properties/C07.v. *)
From Coq Require Import ZArith Reals Bool Lra Lia Psatz.
(* exported: Properties/C07.v names [S754_finite] and imports SpecFloat only through this file *)
From Coq Require Export Floats.SpecFloat.
From Flocq Require Import Core BinarySingleNaN.
From G3 Require Import Model.Num Model.Base Model.RoundError Model.Pinned Theory.IntervalSpec.
Local Open Scope R_scope.

(** ** Real-number facts *)

Lemma mul_corners : forall a b c d x y : R,
  a <= x <= b -> c <= y <= d ->
  (a * c <= x * y \/ b * c <= x * y \/ a * d <= x * y \/ b * d <= x * y) /\
  (x * y <= a * c \/ x * y <= b * c \/ x * y <= a * d \/ x * y <= b * d).
Proof.
  intros a b c d x y [Hax Hxb] [Hcy Hyd].
  destruct (Rle_dec 0 y) as [Hy|Hy]; destruct (Rle_dec 0 a) as [Ha|Ha];
    destruct (Rle_dec 0 b) as [Hb|Hb]; split.
  all: try (apply Rnot_le_lt in Hy); try (apply Rnot_le_lt in Ha); try (apply Rnot_le_lt in Hb).
  all: first [ left; nra | right; left; nra | right; right; left; nra | right; right; right; nra ].
Qed.

Lemma inv_interval : forall c d y : R, c <= y <= d -> (0 < c \/ d < 0) ->
  y <> 0 /\ / d <= / y <= / c.
Proof.
  intros c d y [Hcy Hyd] [Hc|Hd].
  - split. lra. split; apply Rinv_le_contravar; lra.
  - assert (Hy : y <> 0) by lra. split. exact Hy.
    assert (Hc : c <> 0) by lra. assert (Hd0 : d <> 0) by lra.
    assert (H1 : / - y <= / - d) by (apply Rinv_le_contravar; lra).
    assert (H2 : / - c <= / - y) by (apply Rinv_le_contravar; lra).
    rewrite !Rinv_opp in H1, H2. lra.
Qed.

Lemma div_corners : forall a b c d x y : R,
  a <= x <= b -> c <= y <= d -> (0 < c \/ d < 0) ->
  y <> 0 /\
  (a / c <= x / y \/ b / c <= x / y \/ a / d <= x / y \/ b / d <= x / y) /\
  (x / y <= a / c \/ x / y <= b / c \/ x / y <= a / d \/ x / y <= b / d).
Proof.
  intros a b c d x y Hx Hy Hz.
  destruct (inv_interval c d y Hy Hz) as [Hy0 Hi].
  split. exact Hy0.
  destruct (mul_corners a b (/ d) (/ c) x (/ y) Hx Hi) as [HL HU].
  unfold Rdiv. split.
  - destruct HL as [H|[H|[H|H]]]; auto.
  - destruct HU as [H|[H|[H|H]]]; auto.
Qed.

(** ** Floating-point facts, for any binary format *)
Section C07_interval.
  Variable prec emax : Z.
  Context (Hprec : FLX.Prec_gt_0 prec) (Hmax : Prec_lt_emax prec emax).
  Notation bf := (binary_float prec emax).
  Notation emin := (3 - emax - prec)%Z.
  Notation fexp := (FLT_exp emin prec).
  Notation AFb := (AF bf).
  Local Instance NB : Num bf := NumB prec emax Hprec Hmax.
  Implicit Types I J : AF bf.
  Implicit Types x y r : R.
  Implicit Types f v l h : bf.

  Definition RN (r : R) : R := round radix2 fexp ZnearestE r.

  Lemma contains_ext_wf : forall I x, contains I x -> ext_wf I.
  Proof.
    intros [l h] x [HL HU]. unfold ext_wf. simpl in *.
    destruct l as [sl|sl| |sl ml el Hl]; destruct h as [sh|sh| |sh mh eh Hh];
      try destruct sl; try destruct sh; simpl in *; try tauto; try lra.
  Qed.

  Lemma lb_mono : forall l r r', lb l r -> r <= r' -> lb l r'.
  Proof. intros [s|[|]| |s m e H] r r' Hl Hr; simpl in *; try tauto; lra. Qed.
  Lemma ub_mono : forall h r r', ub h r -> r' <= r -> ub h r'.
  Proof. intros [s|[|]| |s m e H] r r' Hl Hr; simpl in *; try tauto; lra. Qed.

  Lemma lb_finite : forall l r, is_finite l = true -> (lb l r <-> B2R l <= r).
  Proof. intros [s|[|]| |s m e H] r Hf; simpl in *; try discriminate; tauto. Qed.
  Lemma ub_finite : forall h r, is_finite h = true -> (ub h r <-> r <= B2R h).
  Proof. intros [s|[|]| |s m e H] r Hf; simpl in *; try discriminate; tauto. Qed.

  Lemma Bsign_false_pos : forall v, is_finite v = true -> Bsign v = false -> 0 <= B2R v.
  Proof.
    intros [s|s| |s m e H] Hf Hs; simpl in *; try discriminate; try lra.
    subst s. apply F2R_ge_0. simpl. lia.
  Qed.
  Lemma Bsign_true_neg : forall v, is_finite v = true -> Bsign v = true -> B2R v <= 0.
  Proof.
    intros [s|s| |s m e H] Hf Hs; simpl in *; try discriminate; try lra.
    subst s. apply F2R_le_0. simpl. lia.
  Qed.

  (** [v] is the IEEE round-to-nearest-even result of an operation whose exact value is [r] *)
  Definition is_rnd (v : bf) (r : R) : Prop :=
    (Bsign v = false -> 0 <= r) /\ (Bsign v = true -> r <= 0) /\
    ((is_finite v = true /\ B2R v = RN r) \/
     (exists s, v = B754_infinity s /\ bpow radix2 emax <= Rabs (RN r))).

  Lemma RN_le : forall r r', r <= r' -> RN r <= RN r'.
  Proof. intros r r' H. apply round_le; auto with typeclass_instances. Qed.
  Lemma RN_B2R : forall v, RN (B2R v) = B2R v.
  Proof. intros v. apply round_generic; auto with typeclass_instances. apply generic_format_B2R. Qed.
  Lemma RN_0 : RN 0 = 0.
  Proof. apply round_0; auto with typeclass_instances. Qed.
  Lemma RN_opp : forall r, RN (- r) = - RN r.
  Proof. intros r. apply round_NE_opp. Qed.
  Lemma B2R_lt_emax : forall v, B2R v < bpow radix2 emax.
  Proof.
    intros v. generalize (abs_B2R_lt_emax prec emax v). intros H.
    apply Rle_lt_trans with (2 := H). apply RRle_abs.
  Qed.

  Lemma ovf_pos : forall v r, 0 <= r -> bpow radix2 emax <= Rabs (RN r) -> B2R v <= r.
  Proof.
    intros v r Hr Hov.
    destruct (Rle_lt_dec (B2R v) r) as [H|H]; [exact H|exfalso].
    assert (H1 : RN r <= B2R v) by (rewrite <- RN_B2R; apply RN_le; lra).
    assert (H0 : 0 <= RN r) by (rewrite <- RN_0; apply RN_le; exact Hr).
    rewrite Rabs_pos_eq in Hov by exact H0.
    generalize (B2R_lt_emax v). lra.
  Qed.
  Lemma ovf_neg : forall v r, r <= 0 -> bpow radix2 emax <= Rabs (RN r) -> r <= B2R v.
  Proof.
    intros v r Hr Hov.
    assert (H : B2R (Bopp v) <= - r).
    { apply ovf_pos. lra. rewrite RN_opp, Rabs_Ropp. exact Hov. }
    rewrite B2R_Bopp in H. lra.
  Qed.

  Lemma B2SF_inf : forall v s, B2SF v = S754_infinity s -> v = B754_infinity s.
  Proof. intros [s'|s'| |s' m e H] s E; simpl in E; try discriminate. now inversion E. Qed.

  Lemma rnd_lb0 : forall v r, is_rnd v r -> lb (Bpred v) r.
  Proof.
    intros v r (Hs0 & Hs1 & [[Hf Hv] | [s [-> Hov]]]).
    - generalize (Bpred_correct prec emax Hprec Hmax v Hf). case Rlt_bool.
      + intros (HR & HF & _). apply lb_finite. exact HF.
        rewrite HR, Hv. apply pred_round_le_id; auto with typeclass_instances.
      + intros E. apply B2SF_inf in E. rewrite E. exact I.
    - destruct s.
      + exact I.
      + replace (Bpred (B754_infinity false)) with (@Bmax_float prec emax Hprec Hmax) by reflexivity.
        apply lb_finite. reflexivity.
        apply ovf_pos. apply Hs0. reflexivity. exact Hov.
  Qed.

  Lemma rnd_ub0 : forall v r, is_rnd v r -> ub (Bsucc v) r.
  Proof.
    intros v r (Hs0 & Hs1 & [[Hf Hv] | [s [-> Hov]]]).
    - generalize (Bsucc_correct prec emax Hprec Hmax v Hf). case Rlt_bool.
      + intros (HR & HF & _). apply ub_finite. exact HF.
        rewrite HR, Hv. apply succ_round_ge_id; auto with typeclass_instances.
      + intros E. apply B2SF_inf in E. rewrite E. exact I.
    - destruct s.
      + replace (Bsucc (B754_infinity true)) with (Bopp (@Bmax_float prec emax Hprec Hmax)) by reflexivity.
        apply ub_finite. reflexivity.
        apply ovf_neg. apply Hs1. reflexivity. exact Hov.
      + exact I.
  Qed.


  Implicit Types a b : bf.
  Lemma finite_not_nan : forall v, is_finite v = true -> is_nan v = false.
  Proof. intros [s|s| |s m e H] Hf; simpl in *; try discriminate; reflexivity. Qed.

  Lemma is_rnd_plus : forall a b, is_finite a = true -> is_finite b = true ->
    is_rnd (Bplus mode_NE a b) (B2R a + B2R b).
  Proof.
    intros a b Fa Fb. generalize (Bplus_correct prec emax Hprec Hmax mode_NE a b Fa Fb).
    case Rlt_bool_spec.
    - intros _ (HR & HF & HS). unfold is_rnd. rewrite HS.
      split; [|split].
      + case Rcompare_spec; intros Hc E; try discriminate; lra.
      + case Rcompare_spec; intros Hc E; try discriminate; lra.
      + left. split. exact HF. exact HR.
    - intros Hov (E & Hs). simpl in E. apply B2SF_inf in E.
      pose proof (Bsign_false_pos a Fa) as Pa. pose proof (Bsign_false_pos b Fb) as Pb.
      pose proof (Bsign_true_neg a Fa) as Na. pose proof (Bsign_true_neg b Fb) as Nb.
      rewrite <- Hs in Pb, Nb.
      unfold is_rnd. rewrite E. simpl Bsign. split; [|split].
      + intros S. specialize (Pa S). specialize (Pb S). lra.
      + intros S. specialize (Na S). specialize (Nb S). lra.
      + right. exists (Bsign a). split. reflexivity. exact Hov.
  Qed.

  Lemma is_rnd_minus : forall a b, is_finite a = true -> is_finite b = true ->
    is_rnd (Bminus mode_NE a b) (B2R a - B2R b).
  Proof.
    intros a b Fa Fb. generalize (Bminus_correct prec emax Hprec Hmax mode_NE a b Fa Fb).
    case Rlt_bool_spec.
    - intros _ (HR & HF & HS). unfold is_rnd. rewrite HS.
      split; [|split].
      + case Rcompare_spec; intros Hc E; try discriminate; lra.
      + case Rcompare_spec; intros Hc E; try discriminate; lra.
      + left. split. exact HF. exact HR.
    - intros Hov (E & Hs). simpl in E. apply B2SF_inf in E.
      pose proof (Bsign_false_pos a Fa) as Pa. pose proof (Bsign_false_pos b Fb) as Pb.
      pose proof (Bsign_true_neg a Fa) as Na. pose proof (Bsign_true_neg b Fb) as Nb.
      unfold is_rnd. rewrite E. simpl Bsign. split; [|split].
      + intros S. rewrite S in Hs. specialize (Pa S).
        assert (S' : Bsign b = true) by (destruct (Bsign b); simpl in Hs; congruence).
        specialize (Nb S'). lra.
      + intros S. rewrite S in Hs. specialize (Na S).
        assert (S' : Bsign b = false) by (destruct (Bsign b); simpl in Hs; congruence).
        specialize (Pb S'). lra.
      + right. exists (Bsign a). split. reflexivity. exact Hov.
  Qed.

  (** sign of a product / quotient from the sign bits *)
  Lemma sign_mul : forall a b, is_finite a = true -> is_finite b = true ->
    (xorb (Bsign a) (Bsign b) = false -> 0 <= B2R a * B2R b) /\
    (xorb (Bsign a) (Bsign b) = true -> B2R a * B2R b <= 0).
  Proof.
    intros a b Fa Fb.
    pose proof (Bsign_false_pos a Fa) as Pa. pose proof (Bsign_false_pos b Fb) as Pb.
    pose proof (Bsign_true_neg a Fa) as Na. pose proof (Bsign_true_neg b Fb) as Nb.
    destruct (Bsign a); destruct (Bsign b); simpl; split; intros E; try discriminate;
      try specialize (Pa eq_refl); try specialize (Pb eq_refl);
      try specialize (Na eq_refl); try specialize (Nb eq_refl); nra.
  Qed.

  Lemma sign_div : forall a b, is_finite a = true -> is_finite b = true -> B2R b <> 0 ->
    (xorb (Bsign a) (Bsign b) = false -> 0 <= B2R a / B2R b) /\
    (xorb (Bsign a) (Bsign b) = true -> B2R a / B2R b <= 0).
  Proof.
    intros a b Fa Fb Hb.
    pose proof (Bsign_false_pos a Fa) as Pa. pose proof (Bsign_false_pos b Fb) as Pb.
    pose proof (Bsign_true_neg a Fa) as Na. pose proof (Bsign_true_neg b Fb) as Nb.
    unfold Rdiv.
    destruct (Bsign a); destruct (Bsign b); simpl; split; intros E; try discriminate;
      try specialize (Pa eq_refl); try specialize (Pb eq_refl);
      try specialize (Na eq_refl); try specialize (Nb eq_refl).
    - assert (H : / B2R b < 0) by (apply Rinv_lt_0_compat; lra). nra.
    - assert (H : 0 < / B2R b) by (apply Rinv_0_lt_compat; lra). nra.
    - assert (H : / B2R b < 0) by (apply Rinv_lt_0_compat; lra). nra.
    - assert (H : 0 < / B2R b) by (apply Rinv_0_lt_compat; lra). nra.
  Qed.

  Lemma is_rnd_mult : forall a b, is_finite a = true -> is_finite b = true ->
    is_rnd (Bmult mode_NE a b) (B2R a * B2R b).
  Proof.
    intros a b Fa Fb. generalize (Bmult_correct prec emax Hprec Hmax mode_NE a b).
    destruct (sign_mul a b Fa Fb) as [SP SN].
    case Rlt_bool_spec.
    - intros _ (HR & HF & HS). rewrite Fa, Fb in HF. simpl in HF.
      specialize (HS (finite_not_nan _ HF)).
      unfold is_rnd. rewrite HS. split; [exact SP|split; [exact SN|]].
      left. split. exact HF. exact HR.
    - intros Hov E. simpl in E. apply B2SF_inf in E.
      unfold is_rnd. rewrite E. simpl Bsign. split; [exact SP|split; [exact SN|]].
      right. eexists. split. reflexivity. exact Hov.
  Qed.

  Lemma is_rnd_div : forall a b, is_finite a = true -> is_finite b = true -> B2R b <> 0 ->
    is_rnd (Bdiv mode_NE a b) (B2R a / B2R b).
  Proof.
    intros a b Fa Fb Hb. generalize (Bdiv_correct prec emax Hprec Hmax mode_NE a b Hb).
    destruct (sign_div a b Fa Fb Hb) as [SP SN].
    case Rlt_bool_spec.
    - intros _ (HR & HF & HS). rewrite Fa in HF.
      specialize (HS (finite_not_nan _ HF)).
      unfold is_rnd. rewrite HS. split; [exact SP|split; [exact SN|]].
      left. split. exact HF. exact HR.
    - intros Hov E. simpl in E. apply B2SF_inf in E.
      unfold is_rnd. rewrite E. simpl Bsign. split; [exact SP|split; [exact SN|]].
      right. eexists. split. reflexivity. exact Hov.
  Qed.

  Lemma is_rnd_sqrt : forall a, is_finite a = true -> 0 <= B2R a ->
    is_rnd (Bsqrt mode_NE a) (sqrt (B2R a)).
  Proof.
    intros a Fa Ha. destruct (Bsqrt_correct prec emax Hprec Hmax mode_NE a) as (HR & HF & HS).
    assert (HF' : is_finite (Bsqrt mode_NE a) = true).
    { rewrite HF. destruct a as [s|s| |s m e H]; simpl in *; try discriminate; try reflexivity.
      destruct s; [|reflexivity]. exfalso.
      assert (F2R (Float radix2 (cond_Zopp true (Z.pos m)) e) < 0) by (apply F2R_lt_0; simpl; lia).
      lra. }
    specialize (HS (finite_not_nan _ HF')).
    unfold is_rnd. rewrite HS. split; [|split].
    - intros _. apply sqrt_pos.
    - intros S. pose proof (Bsign_true_neg a Fa S) as Na.
      replace (B2R a) with 0 by lra. rewrite sqrt_0. lra.
    - left. split. exact HF'. exact HR.
  Qed.


  (** ** The extended order on non-NaN floats, seen through [lb] and [ub] *)
  Definition le_lb a b : Prop := forall r, lb b r -> lb a r.
  Definition le_ub a b : Prop := forall r, ub a r -> ub b r.

  Lemma lb_not_nan : forall l r, lb l r -> is_nan l = false.
  Proof. intros [s|[|]| |s m e H] r Hl; simpl in *; try tauto. Qed.
  Lemma ub_not_nan : forall h r, ub h r -> is_nan h = false.
  Proof. intros [s|[|]| |s m e H] r Hl; simpl in *; try tauto. Qed.

  Lemma ltb_true_le : forall a b, Bltb a b = true -> le_lb a b /\ le_ub a b.
  Proof.
    intros a b Hlt.
    destruct (is_finite a) eqn:Fa; destruct (is_finite b) eqn:Fb.
    - rewrite Bltb_correct in Hlt by assumption.
      revert Hlt. case Rlt_bool_spec; try discriminate. intros Hab _.
      split; intros r Hr.
      + apply lb_finite in Hr; [|exact Fb]. apply lb_finite; [exact Fa|lra].
      + apply ub_finite in Hr; [|exact Fa]. apply ub_finite; [exact Fb|lra].
    - destruct b as [sb|[|]| |sb mb eb Hb]; try discriminate;
      destruct a as [sa|sa| |sa ma ea Ha]; try discriminate; try destruct sa;
        try discriminate; split; intros r Hr; simpl in *; tauto.
    - destruct a as [sa|[|]| |sa ma ea Ha]; try discriminate;
      destruct b as [sb|sb| |sb mb eb Hb]; try discriminate; try destruct sb;
        try discriminate; split; intros r Hr; simpl in *; tauto.
    - destruct a as [sa|[|]| |sa ma ea Ha]; try discriminate;
      destruct b as [sb|[|]| |sb mb eb Hb]; try discriminate;
        split; intros r Hr; simpl in *; tauto.
  Qed.

  Lemma ltb_false_le : forall a b, is_nan a = false -> is_nan b = false ->
    Bltb a b = false -> le_lb b a /\ le_ub b a.
  Proof.
    intros a b Na Nb Hlt.
    destruct (is_finite a) eqn:Fa; destruct (is_finite b) eqn:Fb.
    - rewrite Bltb_correct in Hlt by assumption.
      revert Hlt. case Rlt_bool_spec; try discriminate. intros Hab _.
      split; intros r Hr.
      + apply lb_finite in Hr; [|exact Fa]. apply lb_finite; [exact Fb|lra].
      + apply ub_finite in Hr; [|exact Fb]. apply ub_finite; [exact Fa|lra].
    - destruct b as [sb|[|]| |sb mb eb Hb]; try discriminate;
      destruct a as [sa|sa| |sa ma ea Ha]; try discriminate; try destruct sa;
        try discriminate; split; intros r Hr; simpl in *; tauto.
    - destruct a as [sa|[|]| |sa ma ea Ha]; try discriminate;
      destruct b as [sb|sb| |sb mb eb Hb]; try discriminate; try destruct sb;
        try discriminate; split; intros r Hr; simpl in *; tauto.
    - destruct a as [sa|[|]| |sa ma ea Ha]; try discriminate;
      destruct b as [sb|[|]| |sb mb eb Hb]; try discriminate;
        split; intros r Hr; simpl in *; tauto.
  Qed.

  Definition bmin (mn v : bf) : bf := if Bltb v mn then v else mn.
  Definition bmax (mx v : bf) : bf := if Bltb mx v then v else mx.

  Lemma bmin_spec : forall a b, is_nan a = false -> is_nan b = false ->
    is_nan (bmin a b) = false /\ le_lb (bmin a b) a /\ le_lb (bmin a b) b.
  Proof.
    intros a b Na Nb. unfold bmin. destruct (Bltb b a) eqn:E.
    - split. exact Nb. split. apply (ltb_true_le _ _ E). intros r H; exact H.
    - split. exact Na. split. intros r H; exact H. apply (ltb_false_le _ _ Nb Na E).
  Qed.
  Lemma bmax_spec : forall a b, is_nan a = false -> is_nan b = false ->
    is_nan (bmax a b) = false /\ le_ub a (bmax a b) /\ le_ub b (bmax a b).
  Proof.
    intros a b Na Nb. unfold bmax. destruct (Bltb a b) eqn:E.
    - split. exact Nb. split. apply (ltb_true_le _ _ E). intros r H; exact H.
    - split. exact Na. split. intros r H; exact H. apply (ltb_false_le _ _ Na Nb E).
  Qed.

  Lemma max_min4_eq : forall a0 a1 a2 a3 : bf,
    max_min4 a0 a1 a2 a3 =
    (bmax (bmax (bmax a0 a1) a2) a3, bmin (bmin (bmin a0 a1) a2) a3).
  Proof. reflexivity. Qed.

  Lemma min4_spec : forall a0 a1 a2 a3 : bf,
    is_nan a0 = false -> is_nan a1 = false -> is_nan a2 = false -> is_nan a3 = false ->
    let m := bmin (bmin (bmin a0 a1) a2) a3 in
    is_nan m = false /\ le_lb m a0 /\ le_lb m a1 /\ le_lb m a2 /\ le_lb m a3.
  Proof.
    intros a0 a1 a2 a3 N0 N1 N2 N3 m.
    destruct (bmin_spec a0 a1 N0 N1) as (M1 & L10 & L11).
    destruct (bmin_spec _ a2 M1 N2) as (M2 & L20 & L22).
    destruct (bmin_spec _ a3 M2 N3) as (M3 & L30 & L33).
    unfold le_lb in *. subst m. repeat split; auto.
  Qed.
  Lemma max4_spec : forall a0 a1 a2 a3 : bf,
    is_nan a0 = false -> is_nan a1 = false -> is_nan a2 = false -> is_nan a3 = false ->
    let m := bmax (bmax (bmax a0 a1) a2) a3 in
    is_nan m = false /\ le_ub a0 m /\ le_ub a1 m /\ le_ub a2 m /\ le_ub a3 m.
  Proof.
    intros a0 a1 a2 a3 N0 N1 N2 N3 m.
    destruct (bmax_spec a0 a1 N0 N1) as (M1 & L10 & L11).
    destruct (bmax_spec _ a2 M1 N2) as (M2 & L20 & L22).
    destruct (bmax_spec _ a3 M2 N3) as (M3 & L30 & L33).
    unfold le_ub in *. subst m. repeat split; auto.
  Qed.


  (** stepping outward keeps a bound a bound *)
  Lemma lb_pred : forall v r, lb v r -> lb (Bpred v) r.
  Proof.
    intros v r Hl. destruct (is_finite v) eqn:Fv.
    - apply lb_finite in Hl; [|exact Fv].
      generalize (Bpred_correct prec emax Hprec Hmax v Fv). case Rlt_bool.
      + intros (HR & HF & _). apply lb_finite. exact HF. rewrite HR.
        apply Rle_trans with (2 := Hl). apply pred_le_id.
      + intros E. apply B2SF_inf in E. rewrite E. exact I.
    - destruct v as [s|[|]| |s m e H]; try discriminate; simpl in Hl; tauto.
  Qed.
  Lemma ub_succ : forall v r, ub v r -> ub (Bsucc v) r.
  Proof.
    intros v r Hl. destruct (is_finite v) eqn:Fv.
    - apply ub_finite in Hl; [|exact Fv].
      generalize (Bsucc_correct prec emax Hprec Hmax v Fv). case Rlt_bool.
      + intros (HR & HF & _). apply ub_finite. exact HF. rewrite HR.
        apply Rle_trans with (1 := Hl). apply succ_ge_id.
      + intros E. apply B2SF_inf in E. rewrite E. exact I.
    - destruct v as [s|[|]| |s m e H]; try discriminate; simpl in Hl; tauto.
  Qed.

  Lemma RN_format : forall r, generic_format radix2 fexp (RN r).
  Proof. intros r. apply generic_format_round; auto with typeclass_instances. Qed.

  Lemma le_lb_RN : forall p p' c, is_finite p' = true -> is_rnd p c -> le_lb p' p -> B2R p' <= RN c.
  Proof.
    intros p p' c Fp' (Hs0 & Hs1 & [[Hf Hv] | [s [-> Hov]]]) Hle.
    - rewrite <- Hv. apply lb_finite. exact Fp'. apply Hle. apply lb_finite. exact Hf. lra.
    - destruct s.
      + exfalso. assert (H : lb p' (B2R p' - 1)) by (apply Hle; exact I).
        apply lb_finite in H; [lra|exact Fp'].
      + assert (H0 : 0 <= RN c) by (rewrite <- RN_0; apply RN_le; apply Hs0; reflexivity).
        rewrite Rabs_pos_eq in Hov by exact H0.
        generalize (B2R_lt_emax p'). lra.
  Qed.
  Lemma le_ub_RN : forall p p' c, is_finite p' = true -> is_rnd p c -> le_ub p p' -> RN c <= B2R p'.
  Proof.
    intros p p' c Fp' (Hs0 & Hs1 & [[Hf Hv] | [s [-> Hov]]]) Hle.
    - rewrite <- Hv. apply ub_finite. exact Fp'. apply Hle. apply ub_finite. exact Hf. lra.
    - destruct s.
      + assert (H0 : RN c <= 0) by (rewrite <- RN_0; apply RN_le; apply Hs1; reflexivity).
        rewrite Rabs_left1 in Hov by exact H0.
        generalize (B2R_lt_emax (Bopp p')). rewrite B2R_Bopp. lra.
      + exfalso. assert (H : ub p' (B2R p' + 1)) by (apply Hle; exact I).
        apply ub_finite in H; [lra|exact Fp'].
  Qed.

  (** the outward step of the smallest (largest) of several rounded results bounds every
      exact value *)
  Lemma pred_lb_le : forall p p' c, is_rnd p c -> is_nan p' = false -> le_lb p' p ->
    lb (Bpred p') c.
  Proof.
    intros p p' c Hr Np' Hle. pose proof (rnd_lb0 p c Hr) as H0.
    destruct (is_finite p') eqn:Fp'.
    - pose proof (le_lb_RN p p' c Fp' Hr Hle) as HRN.
      generalize (Bpred_correct prec emax Hprec Hmax p' Fp'). case Rlt_bool.
      + intros (HR & HF & _). apply lb_finite. exact HF. rewrite HR.
        apply Rle_trans with (pred radix2 fexp (RN c)).
        * exact (@pred_le radix2 fexp (fexp_correct prec emax Hprec) _ _
                   (generic_format_B2R prec emax p') (RN_format c) HRN).
        * apply pred_round_le_id; auto with typeclass_instances.
      + intros E. apply B2SF_inf in E. rewrite E. exact I.
    - destruct p' as [s'|[|]| |s' m' e' H']; try discriminate.
      + exact I.
      + destruct Hr as (Hs0 & Hs1 & [[Hf Hv] | [s [-> Hov]]]).
        * exfalso. apply (Hle (B2R p)). apply lb_finite. exact Hf. lra.
        * destruct s. exfalso. apply (Hle 0). exact I. exact H0.
  Qed.
  Lemma succ_ub_le : forall p p' c, is_rnd p c -> is_nan p' = false -> le_ub p p' ->
    ub (Bsucc p') c.
  Proof.
    intros p p' c Hr Np' Hle. pose proof (rnd_ub0 p c Hr) as H0.
    destruct (is_finite p') eqn:Fp'.
    - pose proof (le_ub_RN p p' c Fp' Hr Hle) as HRN.
      generalize (Bsucc_correct prec emax Hprec Hmax p' Fp'). case Rlt_bool.
      + intros (HR & HF & _). apply ub_finite. exact HF. rewrite HR.
        apply Rle_trans with (succ radix2 fexp (RN c)).
        * apply succ_round_ge_id; auto with typeclass_instances.
        * exact (@succ_le radix2 fexp (fexp_correct prec emax Hprec) _ _
                   (RN_format c) (generic_format_B2R prec emax p') HRN).
      + intros E. apply B2SF_inf in E. rewrite E. exact I.
    - destruct p' as [s'|[|]| |s' m' e' H']; try discriminate.
      + destruct Hr as (Hs0 & Hs1 & [[Hf Hv] | [s [-> Hov]]]).
        * exfalso. apply (Hle (B2R p)). apply ub_finite. exact Hf. lra.
        * destruct s. exact H0. exfalso. apply (Hle 0). exact I.
      + exact I.
  Qed.

  Lemma is_rnd_not_nan : forall v r, is_rnd v r -> is_nan v = false.
  Proof.
    intros v r (_ & _ & [[Hf _] | [s [-> _]]]). apply finite_not_nan, Hf. reflexivity.
  Qed.


  (** ** Four-corner cores shared by multiplication and division *)
  Section Corners.
    Variables p0 p1 p2 p3 : bf.
    Variables c0 c1 c2 c3 : R.
    Hypothesis R0 : is_rnd p0 c0.
    Hypothesis R1 : is_rnd p1 c1.
    Hypothesis R2 : is_rnd p2 c2.
    Hypothesis R3 : is_rnd p3 c3.

    Lemma corners_lb_dbl : forall r, (c0 <= r \/ c1 <= r \/ c2 <= r \/ c3 <= r) ->
      lb (Bpred (bmin (bmin (bmin (Bpred p0) (Bpred p1)) (Bpred p2)) (Bpred p3))) r.
    Proof.
      intros r Hr. apply lb_pred.
      pose proof (rnd_lb0 _ _ R0) as L0. pose proof (rnd_lb0 _ _ R1) as L1.
      pose proof (rnd_lb0 _ _ R2) as L2. pose proof (rnd_lb0 _ _ R3) as L3.
      destruct (min4_spec _ _ _ _ (lb_not_nan _ _ L0) (lb_not_nan _ _ L1)
                  (lb_not_nan _ _ L2) (lb_not_nan _ _ L3)) as (_ & M0 & M1 & M2 & M3).
      destruct Hr as [H|[H|[H|H]]].
      - apply M0. apply lb_mono with (1 := L0). exact H.
      - apply M1. apply lb_mono with (1 := L1). exact H.
      - apply M2. apply lb_mono with (1 := L2). exact H.
      - apply M3. apply lb_mono with (1 := L3). exact H.
    Qed.
    Lemma corners_ub_dbl : forall r, (r <= c0 \/ r <= c1 \/ r <= c2 \/ r <= c3) ->
      ub (Bsucc (bmax (bmax (bmax (Bsucc p0) (Bsucc p1)) (Bsucc p2)) (Bsucc p3))) r.
    Proof.
      intros r Hr. apply ub_succ.
      pose proof (rnd_ub0 _ _ R0) as L0. pose proof (rnd_ub0 _ _ R1) as L1.
      pose proof (rnd_ub0 _ _ R2) as L2. pose proof (rnd_ub0 _ _ R3) as L3.
      destruct (max4_spec _ _ _ _ (ub_not_nan _ _ L0) (ub_not_nan _ _ L1)
                  (ub_not_nan _ _ L2) (ub_not_nan _ _ L3)) as (_ & M0 & M1 & M2 & M3).
      destruct Hr as [H|[H|[H|H]]].
      - apply M0. apply ub_mono with (1 := L0). exact H.
      - apply M1. apply ub_mono with (1 := L1). exact H.
      - apply M2. apply ub_mono with (1 := L2). exact H.
      - apply M3. apply ub_mono with (1 := L3). exact H.
    Qed.

    Lemma corners_lb_sgl : forall r, (c0 <= r \/ c1 <= r \/ c2 <= r \/ c3 <= r) ->
      lb (Bpred (bmin (bmin (bmin p0 p1) p2) p3)) r.
    Proof.
      intros r Hr.
      destruct (min4_spec _ _ _ _ (is_rnd_not_nan _ _ R0) (is_rnd_not_nan _ _ R1)
                  (is_rnd_not_nan _ _ R2) (is_rnd_not_nan _ _ R3)) as (N & M0 & M1 & M2 & M3).
      destruct Hr as [H|[H|[H|H]]].
      - apply lb_mono with (2 := H). apply pred_lb_le with (1 := R0); assumption.
      - apply lb_mono with (2 := H). apply pred_lb_le with (1 := R1); assumption.
      - apply lb_mono with (2 := H). apply pred_lb_le with (1 := R2); assumption.
      - apply lb_mono with (2 := H). apply pred_lb_le with (1 := R3); assumption.
    Qed.
    Lemma corners_ub_sgl : forall r, (r <= c0 \/ r <= c1 \/ r <= c2 \/ r <= c3) ->
      ub (Bsucc (bmax (bmax (bmax p0 p1) p2) p3)) r.
    Proof.
      intros r Hr.
      destruct (max4_spec _ _ _ _ (is_rnd_not_nan _ _ R0) (is_rnd_not_nan _ _ R1)
                  (is_rnd_not_nan _ _ R2) (is_rnd_not_nan _ _ R3)) as (N & M0 & M1 & M2 & M3).
      destruct Hr as [H|[H|[H|H]]].
      - apply ub_mono with (2 := H). apply succ_ub_le with (1 := R0); assumption.
      - apply ub_mono with (2 := H). apply succ_ub_le with (1 := R1); assumption.
      - apply ub_mono with (2 := H). apply succ_ub_le with (1 := R2); assumption.
      - apply ub_mono with (2 := H). apply succ_ub_le with (1 := R3); assumption.
    Qed.
  End Corners.

  (** ** The operators *)
  Lemma wf_contains : forall I x, wf I -> contains I x ->
    is_finite (low I) = true /\ is_finite (high I) = true /\ B2R (low I) <= x <= B2R (high I).
  Proof.
    intros I x (Fl & Fh & _) (L & U).
    apply lb_finite in L; [|exact Fl]. apply ub_finite in U; [|exact Fh]. tauto.
  Qed.

  Lemma af_neg_correct : forall I x, wf I -> contains I x -> contains (af_neg I) (- x).
  Proof.
    intros I x W C. destruct (wf_contains I x W C) as (Fl & Fh & Hx).
    split; simpl.
    - apply lb_finite. rewrite is_finite_Bopp. exact Fh. rewrite B2R_Bopp. lra.
    - apply ub_finite. rewrite is_finite_Bopp. exact Fl. rewrite B2R_Bopp. lra.
  Qed.

  Lemma af_add_correct : forall I J x y, wf I -> wf J -> contains I x -> contains J y ->
    contains (af_add I J) (x + y).
  Proof.
    intros I J x y WI WJ CI CJ.
    destruct (wf_contains I x WI CI) as (FIl & FIh & Hx).
    destruct (wf_contains J y WJ CJ) as (FJl & FJh & Hy).
    split; simpl.
    - apply lb_mono with (B2R (low I) + B2R (low J)). apply rnd_lb0, is_rnd_plus; assumption. lra.
    - apply ub_mono with (B2R (high I) + B2R (high J)). apply rnd_ub0, is_rnd_plus; assumption. lra.
  Qed.

  Lemma af_sub_correct : forall I J x y, wf I -> wf J -> contains I x -> contains J y ->
    contains (af_sub I J) (x - y).
  Proof.
    intros I J x y WI WJ CI CJ.
    destruct (wf_contains I x WI CI) as (FIl & FIh & Hx).
    destruct (wf_contains J y WJ CJ) as (FJl & FJh & Hy).
    split; simpl.
    - apply lb_mono with (B2R (low I) - B2R (high J)). apply rnd_lb0, is_rnd_minus; assumption. lra.
    - apply ub_mono with (B2R (high I) - B2R (low J)). apply rnd_ub0, is_rnd_minus; assumption. lra.
  Qed.

  Lemma af_sqrt_correct : forall I x, wf I -> 0 <= B2R (low I) -> contains I x ->
    contains (af_sqrt I) (sqrt x).
  Proof.
    intros I x W H0 C. destruct (wf_contains I x W C) as (Fl & Fh & Hx).
    split; simpl.
    - apply lb_mono with (sqrt (B2R (low I))). apply rnd_lb0, is_rnd_sqrt; assumption.
      apply sqrt_le_1_alt. lra.
    - apply ub_mono with (sqrt (B2R (high I))). apply rnd_ub0, is_rnd_sqrt. assumption. lra.
      apply sqrt_le_1_alt. lra.
  Qed.

  Lemma af_mul_correct : forall I J x y, wf I -> wf J -> contains I x -> contains J y ->
    contains (af_mul I J) (x * y).
  Proof.
    intros I J x y WI WJ CI CJ.
    destruct (wf_contains I x WI CI) as (FIl & FIh & Hx).
    destruct (wf_contains J y WJ CJ) as (FJl & FJh & Hy).
    destruct (mul_corners _ _ _ _ x y Hx Hy) as [HL HU].
    unfold af_mul. rewrite !max_min4_eq. split; simpl.
    - apply corners_lb_dbl with (5 := HL); apply is_rnd_mult; assumption.
    - apply corners_ub_dbl with (5 := HU); apply is_rnd_mult; assumption.
  Qed.

  Lemma af_mul_assign_correct : forall I J x y, wf I -> wf J -> contains I x -> contains J y ->
    contains (af_mul_assign I J) (x * y).
  Proof.
    intros I J x y WI WJ CI CJ.
    destruct (wf_contains I x WI CI) as (FIl & FIh & Hx).
    destruct (wf_contains J y WJ CJ) as (FJl & FJh & Hy).
    destruct (mul_corners _ _ _ _ x y Hx Hy) as [HL HU].
    unfold af_mul_assign. rewrite !max_min4_eq. split; simpl.
    - apply corners_lb_sgl with (5 := HL); apply is_rnd_mult; assumption.
    - apply corners_ub_sgl with (5 := HU); apply is_rnd_mult; assumption.
  Qed.

  Lemma no_zero_neq : forall J, wf J -> no_zero J ->
    B2R (low J) <> 0 /\ B2R (high J) <> 0 /\ (0 < B2R (low J) \/ B2R (high J) < 0).
  Proof. intros J (_ & _ & H) [Z|Z]; repeat split; try lra; auto. Qed.

  Lemma af_div_correct : forall I J x y, wf I -> wf J -> no_zero J -> contains I x -> contains J y ->
    contains (af_div I J) (x / y).
  Proof.
    intros I J x y WI WJ NZ CI CJ.
    destruct (wf_contains I x WI CI) as (FIl & FIh & Hx).
    destruct (wf_contains J y WJ CJ) as (FJl & FJh & Hy).
    destruct (no_zero_neq J WJ NZ) as (Zl & Zh & Z).
    destruct (div_corners _ _ _ _ x y Hx Hy Z) as (_ & HL & HU).
    unfold af_div. rewrite !max_min4_eq. split; simpl.
    - apply corners_lb_dbl with (5 := HL); apply is_rnd_div; assumption.
    - apply corners_ub_dbl with (5 := HU); apply is_rnd_div; assumption.
  Qed.

  Lemma af_div_assign_correct : forall I J x y, wf I -> wf J -> no_zero J -> contains I x -> contains J y ->
    contains (af_div_assign I J) (x / y).
  Proof.
    intros I J x y WI WJ NZ CI CJ.
    destruct (wf_contains I x WI CI) as (FIl & FIh & Hx).
    destruct (wf_contains J y WJ CJ) as (FJl & FJh & Hy).
    destruct (no_zero_neq J WJ NZ) as (Zl & Zh & Z).
    destruct (div_corners _ _ _ _ x y Hx Hy Z) as (_ & HL & HU).
    unfold af_div_assign. rewrite !max_min4_eq. split; simpl.
    - apply corners_lb_sgl with (5 := HL); apply is_rnd_div; assumption.
    - apply corners_ub_sgl with (5 := HU); apply is_rnd_div; assumption.
  Qed.


  Lemma af_mul_f_eq : forall I f,
    af_mul_f I f =
    mkAF (Bpred (bmin (Bmult mode_NE (low I) f) (Bmult mode_NE (high I) f)))
         (Bsucc (bmax (Bmult mode_NE (high I) f) (Bmult mode_NE (low I) f))).
  Proof.
    intros I f. unfold af_mul_f, bmin, bmax. simpl.
    destruct (Bltb (Bmult mode_NE (high I) f) (Bmult mode_NE (low I) f)); reflexivity.
  Qed.

  Lemma af_mul_f_correct : forall I f x, wf I -> is_finite f = true -> contains I x ->
    contains (af_mul_f I f) (x * B2R f).
  Proof.
    intros I f x W Ff C. destruct (wf_contains I x W C) as (Fl & Fh & Hx).
    pose proof (is_rnd_mult (low I) f Fl Ff) as Rl.
    pose proof (is_rnd_mult (high I) f Fh Ff) as Rh.
    pose proof (is_rnd_not_nan _ _ Rl) as Nl. pose proof (is_rnd_not_nan _ _ Rh) as Nh.
    rewrite af_mul_f_eq. split; simpl.
    - destruct (bmin_spec _ _ Nl Nh) as (N & Ml & Mh).
      destruct (Rle_dec 0 (B2R f)) as [P|P].
      + apply lb_mono with (B2R (low I) * B2R f). apply pred_lb_le with (1 := Rl); assumption. nra.
      + apply lb_mono with (B2R (high I) * B2R f). apply pred_lb_le with (1 := Rh); assumption. nra.
    - destruct (bmax_spec _ _ Nh Nl) as (N & Mh & Ml).
      destruct (Rle_dec 0 (B2R f)) as [P|P].
      + apply ub_mono with (B2R (high I) * B2R f). apply succ_ub_le with (1 := Rh); assumption. nra.
      + apply ub_mono with (B2R (low I) * B2R f). apply succ_ub_le with (1 := Rl); assumption. nra.
  Qed.

  (** [af_from f] is a finite interval whose two bounds have the real value of [f] *)
  Lemma Bofz0 : is_finite (Bofz prec emax Hprec Hmax 0) = true /\ B2R (Bofz prec emax Hprec Hmax 0) = 0.
  Proof.
    unfold Bofz. generalize (binary_normalize_correct prec emax Hprec Hmax mode_NE 0 0 false).
    simpl. rewrite F2R_0, round_0 by auto with typeclass_instances. rewrite Rabs_R0.
    rewrite Rlt_bool_true by apply bpow_gt_0. intros (HR & HF & _). split; assumption.
  Qed.

  Lemma af_from_spec : forall f, is_finite f = true ->
    is_finite (low (af_from f)) = true /\ is_finite (high (af_from f)) = true /\
    B2R (low (af_from f)) = B2R f /\ B2R (high (af_from f)) = B2R f.
  Proof.
    intros f Ff. destruct Bofz0 as [F0 V0].
    unfold af_from, af_from_value_and_error, n0. simpl.
    generalize (Bminus_correct prec emax Hprec Hmax mode_NE f _ Ff F0).
    generalize (Bplus_correct prec emax Hprec Hmax mode_NE f _ Ff F0).
    rewrite V0. rewrite Rplus_0_r, Rminus_0_r. simpl round_mode.
    change (round radix2 (SpecFloat.fexp prec emax) ZnearestE (B2R f)) with (RN (B2R f)).
    rewrite RN_B2R. rewrite Rlt_bool_true by apply abs_B2R_lt_emax.
    intros (HR1 & HF1 & _) (HR2 & HF2 & _). tauto.
  Qed.

  Lemma af_from_wf : forall f, is_finite f = true -> wf (af_from f) /\ contains (af_from f) (B2R f).
  Proof.
    intros f Ff. destruct (af_from_spec f Ff) as (Fl & Fh & Vl & Vh).
    split. repeat split; try assumption. lra.
    split. apply lb_finite. exact Fl. lra. apply ub_finite. exact Fh. lra.
  Qed.
  Lemma af_from_no_zero : forall f, is_finite f = true -> B2R f <> 0 -> no_zero (af_from f).
  Proof.
    intros f Ff Z. destruct (af_from_spec f Ff) as (Fl & Fh & Vl & Vh).
    unfold no_zero. rewrite Vl, Vh. lra.
  Qed.

  Lemma af_add_f_correct : forall I f x, wf I -> is_finite f = true -> contains I x ->
    contains (af_add_f I f) (x + B2R f).
  Proof.
    intros I f x W Ff C. destruct (af_from_wf f Ff) as [WJ CJ].
    apply af_add_correct; assumption.
  Qed.
  Lemma af_sub_f_correct : forall I f x, wf I -> is_finite f = true -> contains I x ->
    contains (af_sub_f I f) (x - B2R f).
  Proof.
    intros I f x W Ff C. destruct (af_from_wf f Ff) as [WJ CJ].
    apply af_sub_correct; assumption.
  Qed.
  Lemma af_div_f_correct : forall I f x, wf I -> is_finite f = true -> B2R f <> 0 -> contains I x ->
    contains (af_div_f I f) (x / B2R f).
  Proof.
    intros I f x W Ff Z C. destruct (af_from_wf f Ff) as [WJ CJ].
    apply af_div_correct; try assumption. apply af_from_no_zero; assumption.
  Qed.
  Lemma af_mul_assign_f_correct : forall I f x, wf I -> is_finite f = true -> contains I x ->
    contains (af_mul_assign_f I f) (x * B2R f).
  Proof.
    intros I f x W Ff C. destruct (af_from_wf f Ff) as [WJ CJ].
    apply af_mul_assign_correct; assumption.
  Qed.
  Lemma af_div_assign_f_correct : forall I f x, wf I -> is_finite f = true -> B2R f <> 0 -> contains I x ->
    contains (af_div_assign_f I f) (x / B2R f).
  Proof.
    intros I f x W Ff Z C. destruct (af_from_wf f Ff) as [WJ CJ].
    apply af_div_assign_correct; try assumption. apply af_from_no_zero; assumption.
  Qed.


  Lemma lb_finite_1 : forall l r, is_finite l = true -> lb l r -> B2R l <= r.
  Proof. intros l r F H. apply lb_finite in H; assumption. Qed.

  Lemma ext_wf_finite : forall I, is_finite (low I) = true -> is_finite (high I) = true ->
    (ext_wf I <-> B2R (low I) <= B2R (high I)).
  Proof.
    intros [l h]. unfold ext_wf. simpl.
    destruct l as [sl|sl| |sl ml el Hl]; destruct h as [sh|sh| |sh mh eh Hh];
      simpl; intros Fl Fh; try discriminate; tauto.
  Qed.

End C07_interval.

(** ** binary64: non-vacuity and machine-checked refutations of the pinned operator forms *)
Lemma B2R_of_SF : forall (x : b64) s, B2SF x = s -> B2R x = SF2R radix2 s.
Proof. intros x s <-. symmetry. apply SF2R_B2SF. Qed.

Lemma SF2R_fin_neg : forall s m e,
  SF2R radix2 (S754_finite s m (Zneg e)) = IZR (cond_Zopp s (Zpos m)) / IZR (Z.pow_pos 2 e).
Proof. reflexivity. Qed.

Lemma SF2R_fin_pos : forall m e, 0 < SF2R radix2 (S754_finite false m e).
Proof. intros m e. apply F2R_gt_0. reflexivity. Qed.
Lemma SF2R_fin_lt0 : forall m e, SF2R radix2 (S754_finite true m e) < 0.
Proof. intros m e. apply F2R_lt_0. reflexivity. Qed.

Ltac norm_pow :=
  repeat match goal with
  | |- context [Z.pow_pos 2 ?e] =>
      let v := eval vm_compute in (Z.pow_pos 2 e) in change (Z.pow_pos 2 e) with v
  | H : context [Z.pow_pos 2 ?e] |- _ =>
      let v := eval vm_compute in (Z.pow_pos 2 e) in change (Z.pow_pos 2 e) with v in H
  end.
(** [B2R x] with [x] a closed binary64 term, rewritten to a rational literal *)
Ltac b2r x s :=
  rewrite (B2R_of_SF x s) in * by (vm_compute; reflexivity).
Ltac b2r_lit := rewrite ?SF2R_fin_neg in *; cbn [cond_Zopp Z.opp] in *; norm_pow.

Definition w1 : b64 := B64ofSF (S754_finite false 4503599627370496 (-52)).
Definition w2 : b64 := B64ofSF (S754_finite false 4503599627370496 (-51)).

Lemma B2R_w1 : B2R w1 = 1.
Proof. b2r w1 (S754_finite false 4503599627370496 (-52)). b2r_lit. lra. Qed.
Lemma B2R_w2 : B2R w2 = 2.
Proof. b2r w2 (S754_finite false 4503599627370496 (-51)). b2r_lit. lra. Qed.

Lemma C07_nonvacuous_proof :
  let one := B64ofSF (S754_finite false 4503599627370496 (-52)) in
  let two := B64ofSF (S754_finite false 4503599627370496 (-51)) in
  wf (mkAF one two) /\ contains (mkAF one two) 1.5%R /\ no_zero (mkAF one two).
Proof.
  change (wf (mkAF w1 w2) /\ contains (mkAF w1 w2) 1.5 /\ no_zero (mkAF w1 w2)).
  unfold wf, contains, no_zero. cbn [low high].
  assert (F1 : is_finite w1 = true) by (vm_compute; reflexivity).
  assert (F2 : is_finite w2 = true) by (vm_compute; reflexivity).
  rewrite (lb_finite _ _ _ _ F1), (ub_finite _ _ _ _ F2), B2R_w1, B2R_w2.
  repeat split; try assumption; lra.
Qed.

Lemma pinned_neg_refuted : exists I : AF b64, wf I /\ ~ ext_wf (af_neg_pinned I).
Proof.
  exists (mkAF w1 w2).
  assert (F1 : is_finite w1 = true) by (vm_compute; reflexivity).
  assert (F2 : is_finite w2 = true) by (vm_compute; reflexivity).
  split.
  - unfold wf. cbn [low high]. rewrite B2R_w1, B2R_w2. repeat split; try assumption; lra.
  - unfold af_neg_pinned. cbn [low high]. intros H.
    apply ext_wf_finite in H; cbn [low high] in *.
    + change (B2R (Bopp w1) <= B2R (Bopp w2)) in H.
      rewrite !B2R_Bopp, B2R_w1, B2R_w2 in H. lra.
    + change (is_finite (Bopp w1) = true). rewrite is_finite_Bopp. exact F1.
    + change (is_finite (Bopp w2) = true). rewrite is_finite_Bopp. exact F2.
Qed.

Definition w10 : b64 := B64ofSF (S754_finite false 10 0).
Definition w20 : b64 := B64ofSF (S754_finite false 20 0).
Lemma B2R_w10 : B2R w10 = 10.
Proof. b2r w10 (S754_finite false 5629499534213120 (-49)). b2r_lit. lra. Qed.
Lemma B2R_w20 : B2R w20 = 20.
Proof. b2r w20 (S754_finite false 5629499534213120 (-48)). b2r_lit. lra. Qed.

Lemma pinned_sub_refuted :
  exists (I J : AF b64) (x y : R), wf I /\ wf J /\ contains I x /\ contains J y /\
    ~ contains (af_sub_pinned I J) (x - y).
Proof.
  exists (mkAF w10 w20), (mkAF w1 w2), 10, 2.
  assert (F1 : is_finite w1 = true) by (vm_compute; reflexivity).
  assert (F2 : is_finite w2 = true) by (vm_compute; reflexivity).
  assert (F10 : is_finite w10 = true) by (vm_compute; reflexivity).
  assert (F20 : is_finite w20 = true) by (vm_compute; reflexivity).
  unfold wf, contains. cbn [low high].
  rewrite (lb_finite _ _ _ _ F1), (ub_finite _ _ _ _ F2), (lb_finite _ _ _ _ F10),
    (ub_finite _ _ _ _ F20), B2R_w1, B2R_w2, B2R_w10, B2R_w20.
  repeat split; try assumption; try lra.
  unfold af_sub_pinned. cbn [low high]. intros [L _].
  apply lb_finite_1 in L; [|vm_compute; reflexivity].
  match type of L with B2R ?v <= _ =>
    b2r v (S754_finite false 5066549580791807 (-49)) end.
  b2r_lit. lra.
Qed.

Definition wh : b64 := B64ofSF (S754_finite false 1 (-1)).
Definition wa : b64 := B64ofSF (S754_finite false 4503599627370497 (-52)).
Definition wf_ : b64 := B64ofSF (S754_finite true 4503599627370497 (-52)).
Lemma B2R_wh : B2R wh = 1 / 2.
Proof. b2r wh (S754_finite false 4503599627370496 (-53)). b2r_lit. lra. Qed.
Lemma B2R_wa : B2R wa = 4503599627370497 / 4503599627370496.
Proof. b2r wa (S754_finite false 4503599627370497 (-52)). b2r_lit. lra. Qed.
Lemma B2R_wf_ : B2R wf_ = - 4503599627370497 / 4503599627370496.
Proof. b2r wf_ (S754_finite true 4503599627370497 (-52)). b2r_lit. lra. Qed.

Lemma pinned_mul_f_refuted :
  exists (I : AF b64) (f : b64) (x : R), wf I /\ is_finite f = true /\ contains I x /\
    ~ contains (af_mul_f_pinned I f) (x * B2R f).
Proof.
  exists (mkAF wh wa), wf_, (4503599627370497 / 4503599627370496).
  assert (Fh : is_finite wh = true) by (vm_compute; reflexivity).
  assert (Fa : is_finite wa = true) by (vm_compute; reflexivity).
  assert (Ff : is_finite wf_ = true) by (vm_compute; reflexivity).
  unfold wf, contains. cbn [low high].
  rewrite (lb_finite _ _ _ _ Fh), (ub_finite _ _ _ _ Fa), B2R_wh, B2R_wa, B2R_wf_.
  repeat split; try assumption; try lra.
  intros [L _].
  apply lb_finite_1 in L; [|vm_compute; reflexivity].
  match type of L with B2R ?v <= _ =>
    b2r v (S754_finite true 4503599627370498 (-52)) end.
  b2r_lit. lra.
Qed.

Definition wmz : b64 := B754_zero true.
Definition wt : b64 := B64ofSF (S754_finite false 1 (-548)).
Definition wnt : b64 := B64ofSF (S754_finite true 1 (-548)).

Lemma pinned_mul_assign_refuted :
  exists (I J : AF b64) (x y : R), wf I /\ wf J /\ contains I x /\ contains J y /\
    ~ contains (af_mul_assign_pinned 53 1024 Hprec53 Hmax1024 I J) (x * y).
Proof.
  exists (mkAF wmz wt), (mkAF wnt wnt), (B2R wt), (B2R wnt).
  assert (Fz : is_finite wmz = true) by reflexivity.
  assert (Ft : is_finite wt = true) by (vm_compute; reflexivity).
  assert (Fn : is_finite wnt = true) by (vm_compute; reflexivity).
  assert (Pt : 0 < B2R wt).
  { rewrite (B2R_of_SF wt (S754_finite false 4503599627370496 (-600))) by (vm_compute; reflexivity).
    apply SF2R_fin_pos. }
  assert (Nt : B2R wnt < 0).
  { rewrite (B2R_of_SF wnt (S754_finite true 4503599627370496 (-600))) by (vm_compute; reflexivity).
    apply SF2R_fin_lt0. }
  unfold wf, contains. cbn [low high].
  rewrite (lb_finite _ _ _ _ Fz), (ub_finite _ _ _ _ Ft), (lb_finite _ _ _ _ Fn), (ub_finite _ _ _ _ Fn).
  change (B2R wmz) with 0.
  repeat split; try assumption; try lra.
  intros [L _].
  apply lb_finite_1 in L; [|vm_compute; reflexivity].
  match type of L with B2R ?v <= _ =>
    rewrite (B2R_of_SF v (S754_zero false)) in L by (vm_compute; reflexivity) end.
  change (SF2R radix2 (S754_zero false)) with 0 in L. nra.
Qed.
