(** * C19 proofs, part 1: point / vector operators and predicates on the real instance. *)
From Coq Require Import ZArith Reals Lra Bool List Psatz.
From G3 Require Import Model.Num Model.Base Model.Vec Theory.RInst.
Local Open Scope R_scope.

Notation V := (V3 R).

(** the constants as real numbers *)
Definition tinyR : R := 100 * / IZR (2 ^ 52).     (* 100 * EPSILON *)
Definition epsR : R := / IZR (2 ^ 52).
Definition e5 : R := 1 / 100000.
Lemma ctiny_R : @ctiny R _ = tinyR. Proof. reflexivity. Qed.
Lemma c1em5_R : @c1em5 R _ = e5. Proof. reflexivity. Qed.
Lemma epsR_pos : 0 < epsR. Proof. apply Rinv_0_lt_compat, IZR_lt. reflexivity. Qed.
Lemma tinyR_pos : 0 < tinyR. Proof. unfold tinyR. pose proof epsR_pos. unfold epsR in *. lra. Qed.
Lemma tinyR_small : tinyR < / 1000000.
Proof.
  unfold tinyR. assert (H : 100000000 < IZR (2 ^ 52)) by (apply IZR_lt; reflexivity).
  assert (H2 : / IZR (2 ^ 52) < / 100000000) by (apply Rinv_lt_contravar; [apply Rmult_lt_0_compat; lra | exact H]).
  lra.
Qed.
Lemma e5_pos : 0 < e5. Proof. unfold e5. lra. Qed.

Ltac vunf := unfold vis_same_direction, vis_parallel, vis_zero, vcompare, vnormalize, pdist, psqdist, vlen, vlen2, vcross, vdot,
  vadd, vsub, vneg, vscale, vdivs, vabs in *; cbn [vx vy vz] in *; rnum.

(** a vector every component of which is below 100 eps in absolute value *)
Definition tiny (a : V) : Prop := Rabs (vx a) < tinyR /\ Rabs (vy a) < tinyR /\ Rabs (vz a) < tinyR.

Lemma andb3_true (a b c : bool) : a && b && c = true <-> a = true /\ b = true /\ c = true.
Proof. destruct a, b, c; cbn; intuition congruence. Qed.

Lemma vis_zero_spec (a : V) : vis_zero a = true <-> tiny a.
Proof. unfold vis_zero, tiny. rewrite ctiny_R. rnum. rewrite andb3_true, !Rltb_true. reflexivity. Qed.
Lemma vis_zero_false (a : V) : vis_zero a = false <-> ~ tiny a.
Proof. rewrite <- vis_zero_spec. destruct (vis_zero a); intuition congruence. Qed.
Lemma vcompare_spec (a p : V) : vcompare a p = true <->
  Rabs (vx a - vx p) < e5 /\ Rabs (vy a - vy p) < e5 /\ Rabs (vz a - vz p) < e5.
Proof. unfold vcompare. rewrite c1em5_R. rnum. rewrite andb3_true, !Rltb_true. reflexivity. Qed.
Lemma vcompare_refl (a : V) : vcompare a a = true.
Proof. apply vcompare_spec. pose proof e5_pos. rewrite !Rminus_diag_eq, Rabs_R0 by reflexivity. auto. Qed.
Lemma vcompare_sym (a p : V) : vcompare a p = vcompare p a.
Proof.
  destruct (vcompare p a) eqn:E.
  - apply vcompare_spec in E. apply vcompare_spec. rewrite (Rabs_minus_sym (vx a)), (Rabs_minus_sym (vy a)), (Rabs_minus_sym (vz a)). exact E.
  - destruct (vcompare a p) eqn:E'; [|reflexivity]. apply vcompare_spec in E'.
    rewrite (Rabs_minus_sym (vx a)), (Rabs_minus_sym (vy a)), (Rabs_minus_sym (vz a)) in E'. apply vcompare_spec in E'. congruence.
Qed.

(** ** operator identities *)
Lemma vadd_comm (a b : V) : vadd a b = vadd b a.
Proof. destruct a as [ax ay az], b as [bx b_y bz]. vunf. apply v3_eq; cbn [vx vy vz]; ring. Qed.
Lemma vadd_assoc (a b c : V) : vadd (vadd a b) c = vadd a (vadd b c).
Proof. destruct a as [ax ay az], b as [bx b_y bz], c as [cx cy cz]. vunf. apply v3_eq; cbn [vx vy vz]; ring. Qed.
Lemma vsub_vadd_neg (a b : V) : vsub a b = vadd a (vneg b).
Proof. destruct a as [ax ay az], b as [bx b_y bz]. vunf. apply v3_eq; cbn [vx vy vz]; ring. Qed.
Lemma vadd_vsub (a b : V) : vadd a (vsub b a) = b.
Proof. destruct a as [ax ay az], b as [bx b_y bz]. vunf. apply v3_eq; cbn [vx vy vz]; ring. Qed.
Lemma vsub_vadd (a b : V) : vsub (vadd a b) a = b.
Proof. destruct a as [ax ay az], b as [bx b_y bz]. vunf. apply v3_eq; cbn [vx vy vz]; ring. Qed.
Lemma vscale_vadd (a b : V) (s : R) : vscale (vadd a b) s = vadd (vscale a s) (vscale b s).
Proof. destruct a as [ax ay az], b as [bx b_y bz]. vunf. apply v3_eq; cbn [vx vy vz]; ring. Qed.
Lemma vscale_vscale (a : V) (s t : R) : vscale (vscale a s) t = vscale a (s * t).
Proof. destruct a as [ax ay az]. vunf. apply v3_eq; cbn [vx vy vz]; ring. Qed.
Lemma vdivs_vscale (a : V) (s : R) : s <> 0 -> vdivs (vscale a s) s = a /\ vdivs a s = vscale a (/ s).
Proof. intros. destruct a as [ax ay az]. vunf. split; apply v3_eq; cbn [vx vy vz]; field; assumption. Qed.
Lemma vdot_comm (a b : V) : vdot a b = vdot b a.
Proof. destruct a as [ax ay az], b as [bx b_y bz]. vunf. ring. Qed.
Lemma vdot_vadd_l (a b c : V) : vdot (vadd a b) c = vdot a c + vdot b c.
Proof. destruct a as [ax ay az], b as [bx b_y bz], c as [cx cy cz]. vunf. ring. Qed.
Lemma vdot_vscale_l (a b : V) (s : R) : vdot (vscale a s) b = s * vdot a b.
Proof. destruct a as [ax ay az], b as [bx b_y bz]. vunf. ring. Qed.
Lemma vlen2_vdot (a : V) : vlen2 a = vdot a a.
Proof. destruct a as [ax ay az]. vunf. ring. Qed.
Lemma vlen2_nonneg (a : V) : 0 <= vlen2 a.
Proof. destruct a as [ax ay az]. vunf. nra. Qed.
Lemma vlen2_zero (a : V) : vlen2 a = 0 <-> a = mkV3 0 0 0.
Proof.
  destruct a as [ax ay az]. split.
  - vunf. intros H. assert (ax = 0) by nra. assert (ay = 0) by nra. assert (az = 0) by nra. subst. reflexivity.
  - intros H. inversion H. vunf. ring.
Qed.
Lemma vlen_nonneg (a : V) : 0 <= vlen a.
Proof. unfold vlen. rnum. apply sqrt_pos. Qed.
Lemma vlen_sqr (a : V) : vlen a * vlen a = vlen2 a.
Proof. unfold vlen. rnum. apply sqrt_sqrt, vlen2_nonneg. Qed.
Lemma vlen_pos (a : V) : vlen2 a <> 0 -> 0 < vlen a.
Proof. intros H. unfold vlen. rnum. apply sqrt_lt_R0. pose proof (vlen2_nonneg a). lra. Qed.
Lemma vlen_vscale (a : V) (s : R) : vlen (vscale a s) = Rabs s * vlen a.
Proof.
  unfold vlen. rnum. replace (vlen2 (vscale a s)) with (s * s * vlen2 a) by (destruct a as [ax ay az]; vunf; ring).
  rewrite sqrt_mult by (try apply vlen2_nonneg; nra). f_equal.
  replace (s * s) with (Rsqr s) by reflexivity. apply sqrt_Rsqr_abs.
Qed.
Lemma vcross_perp (a b : V) : vdot (vcross a b) a = 0 /\ vdot (vcross a b) b = 0.
Proof. destruct a as [ax ay az], b as [bx b_y bz]. vunf. split; ring. Qed.
Lemma vcross_anticomm (a b : V) : vcross a b = vneg (vcross b a).
Proof. destruct a as [ax ay az], b as [bx b_y bz]. vunf. apply v3_eq; cbn [vx vy vz]; ring. Qed.
Lemma vcross_self (a : V) : vcross a a = mkV3 0 0 0.
Proof. destruct a as [ax ay az]. vunf. apply v3_eq; cbn [vx vy vz]; ring. Qed.
(** Lagrange: |a|^2 |b|^2 - (a.b)^2 = |a x b|^2 *)
Lemma lagrange (a b : V) : vlen2 a * vlen2 b - vdot a b * vdot a b = vlen2 (vcross a b).
Proof. destruct a as [ax ay az], b as [bx b_y bz]. vunf. ring. Qed.
(** Cauchy-Schwarz follows *)
Lemma cauchy_schwarz (a b : V) : vdot a b * vdot a b <= vlen2 a * vlen2 b.
Proof. pose proof (lagrange a b). pose proof (vlen2_nonneg (vcross a b)). lra. Qed.
Lemma psqdist_vsub (a p : V) : psqdist a p = vlen2 (vsub a p).
Proof. destruct a as [ax ay az], p as [px py pz]. vunf. ring. Qed.
Lemma pdist_vsub (a p : V) : pdist a p = vlen (vsub a p).
Proof. unfold pdist, vlen. rewrite psqdist_vsub. reflexivity. Qed.
Lemma pdist_sym (a p : V) : pdist a p = pdist p a.
Proof. unfold pdist. f_equal. destruct a as [ax ay az], p as [px py pz]. vunf. ring. Qed.
Lemma pdist_zero (a p : V) : pdist a p = 0 <-> a = p.
Proof.
  rewrite pdist_vsub. split.
  - intros H. assert (H2 : vlen2 (vsub a p) = 0) by (rewrite <- vlen_sqr, H; ring).
    apply vlen2_zero in H2. destruct a as [ax ay az], p as [px py pz]. vunf. inversion H2.
    apply v3_eq; cbn [vx vy vz]; lra.
  - intros ->. unfold vlen. rnum. replace (vlen2 (vsub p p)) with 0 by (destruct p as [px py pz]; vunf; ring). apply sqrt_0.
Qed.

(** [normalize] gives a unit vector in the same direction, for every non-zero vector *)
Lemma vnormalize_unit (a : V) : vlen2 a <> 0 -> vlen (vnormalize a) = 1 /\ vnormalize a = vscale a (/ vlen a) /\ 0 < / vlen a.
Proof.
  intros H. pose proof (vlen_pos a H) as Hp. split; [|split].
  - change (vnormalize a) with (vscale a (1 / vlen a)). rewrite vlen_vscale, Rabs_right; [field; lra|].
    apply Rle_ge. unfold Rdiv. rewrite Rmult_1_l. left. apply Rinv_0_lt_compat, Hp.
  - change (vnormalize a) with (vscale a (1 / vlen a)). f_equal. field. lra.
  - apply Rinv_0_lt_compat, Hp.
Qed.

(** ** is_parallel / is_same_direction *)
Lemma vis_parallel_spec (a b : V) :
  vis_parallel a b = true <-> ~ tiny a /\ ~ tiny b /\ vlen2 (vcross a b) < e5.
Proof.
  unfold vis_parallel. rewrite c1em5_R.
  destruct (vis_zero b) eqn:Eb; cbn [orb].
  - apply vis_zero_spec in Eb. split; [discriminate | tauto].
  - destruct (vis_zero a) eqn:Ea.
    + apply vis_zero_spec in Ea. split; [discriminate | tauto].
    + apply vis_zero_false in Ea. apply vis_zero_false in Eb. rnum. rewrite Rltb_true.
      replace (vdot a b * vdot a b - vlen2 a * vlen2 b) with (- vlen2 (vcross a b)) by (rewrite <- lagrange; ring).
      rewrite Rabs_Ropp, Rabs_right by (apply Rle_ge, vlen2_nonneg). tauto.
Qed.
Lemma vis_same_direction_spec (a b : V) :
  vis_same_direction a b = true <-> ~ tiny a /\ ~ tiny b /\ vlen2 (vcross a b) < e5 /\ 0 < vdot a b.
Proof.
  unfold vis_same_direction. destruct (vis_parallel a b) eqn:E; cbn [negb].
  - apply vis_parallel_spec in E. rnum. rewrite Rltb_true. tauto.
  - split; [discriminate|]. intros (H1 & H2 & H3 & _). assert (vis_parallel a b = true) by (apply vis_parallel_spec; tauto). congruence.
Qed.
(** exactly parallel non-tiny vectors are recognised whatever their length; and the tolerance is absolute:
    [|a x b|^2 = |a|^2 |b|^2 sin^2] is compared with 1e-5, so short vectors at a wide angle also pass *)
Lemma vis_parallel_scaled (a : V) (k : R) : ~ tiny a -> ~ tiny (vscale a k) -> vis_parallel a (vscale a k) = true.
Proof.
  intros Ha Hb. apply vis_parallel_spec. repeat split; try assumption.
  replace (vlen2 (vcross a (vscale a k))) with 0 by (destruct a as [ax ay az]; vunf; ring). apply e5_pos.
Qed.

(** ** get_perpendicular *)
Lemma Rabs_pos_neq (x t : R) : 0 < t -> t < Rabs x -> x <> 0.
Proof. intros Ht H E. subst. rewrite Rabs_R0 in H. lra. Qed.
Lemma perp_core (p q : R) : p <> 0 ->
  let s := sqrt (p * p + q * q) in
  0 < s /\ (- q * (p / s) / p) * (- q * (p / s) / p) + (p / s) * (p / s) = 1 /\ (- q * (p / s) / p) * p + (p / s) * q = 0.
Proof.
  intros Hp s. assert (Hpos : 0 < p * p + q * q) by nra.
  assert (Hs : 0 < s) by (apply sqrt_lt_R0; exact Hpos).
  assert (Hss : s * s = p * p + q * q) by (apply sqrt_sqrt; lra).
  split; [exact Hs|]. split.
  - replace (- q * (p / s) / p * (- q * (p / s) / p) + p / s * (p / s)) with ((p * p + q * q) / (s * s)) by (field; split; lra).
    rewrite Hss. field. lra.
  - field. split; lra.
Qed.
Lemma vget_perpendicular_ok (v w : V) : vget_perpendicular v = Ok w -> vdot w v = 0 /\ vlen w = 1.
Proof.
  destruct v as [px py pz]. unfold vget_perpendicular. cbn [vx vy vz]. rewrite ctiny_R. rnum. pose proof tinyR_pos as Ht.
  rcase tinyR (Rabs px) H1; [|rcase tinyR (Rabs py) H2; [|rcase tinyR (Rabs pz) H3; [|discriminate]]]; intros E; inversion E; subst; clear E.
  - destruct (perp_core px py (Rabs_pos_neq _ _ Ht H1)) as (Hs & Hu & Hd). cbv zeta in *.
    unfold vdot, vlen, vlen2. cbn [vx vy vz]. rnum. split.
    + rewrite Rmult_0_l, Rplus_0_r. exact Hd.
    + rewrite Rmult_0_l, Rplus_0_r, Hu. apply sqrt_1.
  - destruct (perp_core py px (Rabs_pos_neq _ _ Ht H2)) as (Hs & Hu & Hd). cbv zeta in *.
    rewrite (Rplus_comm (py * py)) in *.
    unfold vdot, vlen, vlen2. cbn [vx vy vz]. rnum. split.
    + rewrite Rmult_0_l, Rplus_0_r. lra.
    + rewrite Rmult_0_l, Rplus_0_r. rewrite Rplus_comm, Hu. apply sqrt_1.
  - destruct (perp_core pz px (Rabs_pos_neq _ _ Ht H3)) as (Hs & Hu & Hd). cbv zeta in *.
    unfold vdot, vlen, vlen2. cbn [vx vy vz]. rnum. split.
    + rewrite Rmult_0_l, Rplus_0_r. lra.
    + rewrite Rmult_0_l, Rplus_0_r. rewrite Rplus_comm, Hu. apply sqrt_1.
Qed.
Lemma vget_perpendicular_err (v : V) :
  (forall s, vget_perpendicular v <> Panic s) /\
  (forall c, vget_perpendicular v = Err c <-> (c = 2%N /\ Rabs (vx v) <= tinyR /\ Rabs (vy v) <= tinyR /\ Rabs (vz v) <= tinyR)).
Proof.
  destruct v as [px py pz]. unfold vget_perpendicular. cbn [vx vy vz]. rewrite ctiny_R. rnum.
  rcase tinyR (Rabs px) H1; [|rcase tinyR (Rabs py) H2; [|rcase tinyR (Rabs pz) H3]]; (split; [discriminate|]); intros c; split;
    try discriminate; try (intros (_ & ? & ? & ?); lra).
  - intros E. inversion E. auto.
  - intros (-> & _). reflexivity.
Qed.

(** ** is_collinear: the measure [|ab x bc|] is (distance of c from the line ab) x (length of ab) *)
Definition foot (a b c : V) : V := vadd a (vscale (vsub b a) (vdot (vsub c a) (vsub b a) / vlen2 (vsub b a))).
Lemma collinear_measure2 (a b c : V) : vlen2 (vsub b a) <> 0 ->
  vdot (vsub c (foot a b c)) (vsub b a) = 0 /\
  vlen2 (vcross (vsub b a) (vsub c b)) = vlen2 (vsub b a) * vlen2 (vsub c (foot a b c)).
Proof.
  destruct a as [ax ay az], b as [bx b_y bz], c as [cx cy cz]. unfold foot. vunf. intros H. split; field; exact H.
Qed.
Lemma collinear_measure (a b c : V) : vlen2 (vsub b a) <> 0 ->
  vlen (vcross (vsub b a) (vsub c b)) = vlen (vsub b a) * vlen (vsub c (foot a b c)).
Proof.
  intros H. destruct (collinear_measure2 a b c H) as (_ & E). unfold vlen. rnum. rewrite E. apply sqrt_mult; apply vlen2_nonneg.
Qed.
Lemma is_collinear_spec (a b c : V) :
  (forall s, is_collinear a b c <> Panic s) /\
  (forall e, is_collinear a b c = Err e <-> e = 1%N /\ vcompare a b = true /\ vcompare a c = true) /\
  (forall r, is_collinear a b c = Ok r <-> ~ (vcompare a b = true /\ vcompare a c = true) /\
     (r = true <-> vcompare a b = true \/ vcompare a c = true \/ vcompare b c = true \/
                   vlen (vcross (vsub b a) (vsub c b)) < e5)).
Proof.
  unfold is_collinear. rewrite c1em5_R. rnum.
  destruct (vcompare a b) eqn:E1, (vcompare a c) eqn:E2; cbn [andb orb].
  - split; [discriminate|]. split; [intros e; split; [intros H; inversion H; auto | intros (-> & _); reflexivity]|].
    intros r; split; [discriminate | intros (H & _); exfalso; apply H; auto].
  - split; [discriminate|]. split; [intros e; split; [discriminate | intros (_ & _ & ?); discriminate]|].
    intros r; split; [intros H; inversion H; split; [intros (_ & ?); discriminate | tauto] | intros (_ & H)].
    f_equal. symmetry. apply H. auto.
  - split; [discriminate|]. split; [intros e; split; [discriminate | intros (_ & ? & _); discriminate]|].
    intros r; split; [intros H; inversion H; split; [intros (? & _); discriminate | tauto] | intros (_ & H)].
    f_equal. symmetry. apply H. auto.
  - destruct (vcompare b c) eqn:E3.
    + split; [discriminate|]. split; [intros e; split; [discriminate | intros (_ & ? & _); discriminate]|].
      intros r; split; [intros H; inversion H; split; [intros (? & _); discriminate | tauto] | intros (_ & H)].
      f_equal. symmetry. apply H. auto.
    + split; [discriminate|]. split; [intros e; split; [discriminate | intros (_ & ? & _); discriminate]|].
      intros r; split.
      * intros H; inversion H; subst; clear H. split; [intros (? & _); discriminate|]. rewrite Rltb_true.
        split; [auto | intros [?|[?|[?|?]]]; try discriminate; assumption].
      * intros (_ & H). f_equal. destruct r.
        -- apply Rltb_true. destruct H as (H & _). destruct (H eq_refl) as [?|[?|[?|?]]]; try discriminate; assumption.
        -- apply Rltb_false. destruct H as (_ & H). apply Rnot_lt_le. intros Hlt. assert (false = true) by (apply H; auto). discriminate.
Qed.
