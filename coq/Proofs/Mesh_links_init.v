(** * Mesh_links_init (C08 / C01): the mesh produced by [from_polygon] satisfies the link-geometry invariant [LNKG].

    B1 (every number instance).  [EM M] ("edge-manifold"): no two different live slots hold the same DIRECTED edge
    (Leibniz equality of the two end points, in order).  With the separation hypothesis [SEP] this is all that
    [mark_neighbourhouds] needs: it scans the pairs this_i < other_i, for the first edge of [this] whose segment
    [seg_compare]s equal to an edge of [other] it calls [mark_as_neighbours this_i e other_i] and breaks.  Under SEP the
    comparison is an exact UNORDERED match ([seg_compare_exact]); by EM the match is REVERSED; a link already present on
    (this_i, e) can only point to other_i (two mates of one edge would hold the same directed edge), and then the call
    rewrites the two entries with the values they already have; otherwise it is a [G_mark_sep] with an empty exempt set
    (the possible victim of the overwritten entry of [other] would hold the directed edge of [this]).  Invariant over
    [mn_outer] / [mn_inner] / the edge loop: the skeleton is that of the initial mesh and LNKG holds (no "pairs visited"
    bookkeeping is needed: LNKG only speaks of the links that ARE set).  The clipping loop only pushes and constrains:
    before [mark_neighbourhouds] no link is set, and every live triangle is the value of [tri_new] on its own corners
    (so under SEP its corners are distinct: DIST).

    B2 (reals).  For a sanitize-stable successful run whose polygon normal is a positive multiple of e1 x e2 (all ears
    counter-clockwise in the plane coordinates: C01) and whose closed merged outline winds at most once around every
    point off the outline (Jordan hypothesis of C01), EM holds: two ears holding the same directed edge (u,v) both
    contain the points just left of its midpoint; one such point lies on no line through two different projected
    outline vertices ([common_point]: a generic direction, then finitely many excluded parameters), a generic ray from it
    exists ([generic_dir]), and [C01_tiling_no_overlap] gives the contradiction. *)
From Coq Require Import ZArith Bool List Arith Lia Reals Lra Psatz.
From G3 Require Import Model.Num Model.Base Model.Vec Model.Segment Model.Triangle Model.Loop Model.Polygon Model.Triangulation
  Proofs.Mesh_base Proofs.Mesh_wf Proofs.Mesh_sites Proofs.Mesh_conf Proofs.Mesh_fp Proofs.Mesh_init Proofs.Mesh_fp_sites
  Proofs.Mesh_region Proofs.Mesh_atomic Proofs.Mesh_links Proofs.Mesh_links_steps.
Import ListNotations.

(* ------------------------------------------------------------------------------------------------------------ *)
(** * B1: [mark_neighbourhouds] establishes LNKG on an edge-manifold skeleton (every number instance)            *)
Section InitLinks.
  Context {K : Type} {NK : Num K}.
  Notation V := (V3 K).
  Notation TP := (TriPiece K).
  Notation Mesh := (Mesh K).

  (** no two different live slots hold the same directed edge *)
  Definition EM (M : Mesh) : Prop :=
    forall i j Ti Tj e e', i <> j -> lvM M i Ti -> lvM M j Tj -> edge_pts Ti e <> edge_pts Tj e'.

  (** the formulation of the notes: edges of two different slots with the same end points are REVERSED ... *)
  Lemma EM_reversed (M : Mesh) (i j : nat) (Ti Tj : Tri K) (e e' : Edge) :
    EM M -> i <> j -> lvM M i Ti -> lvM M j Tj -> same_seg (edge_pts Ti e) (edge_pts Tj e') -> edge_pts Tj e' = rev2 (edge_pts Ti e).
  Proof.
    intros HE Hij Li Lj [E|E]; [exfalso; exact (HE i j Ti Tj e e' Hij Li Lj E) | rewrite E; symmetry; apply rev2_invol].
  Qed.
  (** ... and an (undirected) edge belongs to at most two slots *)
  Lemma EM_at_most_two (M : Mesh) (i j k : nat) (Ti Tj Tk : Tri K) (e e' e'' : Edge) :
    EM M -> DIST M -> i <> j -> lvM M i Ti -> lvM M j Tj -> lvM M k Tk ->
    same_seg (edge_pts Ti e) (edge_pts Tj e') -> same_seg (edge_pts Ti e) (edge_pts Tk e'') -> k = i \/ k = j.
  Proof.
    intros HE HD Hij Li Lj Lk S1 S2.
    destruct (Nat.eq_dec k i) as [Hki|Hki]; [left; exact Hki|]. destruct (Nat.eq_dec k j) as [Hkj|Hkj]; [right; exact Hkj|]. exfalso.
    pose proof (EM_reversed M i j Ti Tj e e' HE Hij Li Lj S1) as R1.
    assert (Hik : i <> k) by (intros Q; apply Hki; symmetry; exact Q).
    pose proof (EM_reversed M i k Ti Tk e e'' HE Hik Li Lk S2) as R2.
    assert (Hjk : j <> k) by (intros Q; apply Hkj; symmetry; exact Q).
    apply (HE j k Tj Tk e' e'' Hjk Lj Lk). rewrite R1, R2. reflexivity.
  Qed.
  (** conversely the reversed form gives EM on meshes whose triangles have distinct corners *)
  Lemma EM_of_reversed (M : Mesh) : DIST M ->
    (forall i j Ti Tj e e', i <> j -> lvM M i Ti -> lvM M j Tj -> same_seg (edge_pts Ti e) (edge_pts Tj e') -> edge_pts Tj e' = rev2 (edge_pts Ti e)) -> EM M.
  Proof.
    intros HD H i j Ti Tj e e' Hij Li Lj E.
    assert (R : edge_pts Tj e' = rev2 (edge_pts Ti e)) by (apply (H i j); try assumption; left; exact E).
    apply (edge_pts_neq Ti e (HD i Ti Li)). rewrite <- E in R. rewrite R at 1. reflexivity.
  Qed.

  (** EM, SEP, DIST only look at the skeleton *)
  Lemma EM_skel (M M' : Mesh) : skel (tris M') = skel (tris M) -> EM M -> EM M'.
  Proof. intros Hs H i j Ti Tj e e' Hij Li Lj. apply (H i j); [exact Hij | apply (lvM_skel _ _ Hs); exact Li | apply (lvM_skel _ _ Hs); exact Lj]. Qed.
  Lemma mesh_vert_skel (M M' : Mesh) : skel (tris M') = skel (tris M) -> forall x, mesh_vert M' x -> mesh_vert M x.
  Proof. intros Hs x (j & T & L & Hx). exists j, T. split; [apply (lvM_skel _ _ Hs); exact L | exact Hx]. Qed.
  Lemma SEP_skel (M M' : Mesh) : skel (tris M') = skel (tris M) -> SEP M -> SEP M'.
  Proof. intros Hs H x y Hx Hy. apply H; apply (mesh_vert_skel _ _ Hs); assumption. Qed.
  Lemma DIST_skel (M M' : Mesh) : skel (tris M') = skel (tris M) -> DIST M -> DIST M'.
  Proof. intros Hs H j T L. apply (H j). apply (lvM_skel _ _ Hs). exact L. Qed.

  (** an Ok outcome of [mark_as_neighbours]: two different live slots *)
  Lemma mark_ok_live (i1 i2 : nat) (e1 : Edge) (M M' : Mesh) :
    mark_as_neighbours i1 e1 i2 M = (M', Ok tt) ->
    i1 <> i2 /\ exists t1 t2, nth_error (tris M) i1 = Some t1 /\ tp_valid t1 = true /\ nth_error (tris M) i2 = Some t2 /\ tp_valid t2 = true.
  Proof.
    intros H. unfold mark_as_neighbours in H. destruct (Nat.eqb_spec i1 i2) as [Heq|Hne]; [unfold mlift in H; discriminate H|].
    split; [exact Hne|].
    apply bind_get_ok in H. destruct H as (t1 & E1 & H). destruct (tp_valid t1) eqn:V1; cbn [negb] in H; [|unfold mlift in H; discriminate H].
    apply bind_lift_ok in H. destruct H as (sg & Es & H).
    apply bind_get_ok in H. destruct H as (t2 & E2 & H). destruct (tp_valid t2) eqn:V2; cbn [negb] in H; [|unfold mlift in H; discriminate H].
    exists t1, t2. repeat split; assumption.
  Qed.
  (** under separation the edge of T2 found from the segment of (T1, e1) is THE reversed edge *)
  Lemma det_edge (P : V -> Prop) (T1 T2 : Tri K) (e1 k0 : Edge) :
    VSEP P -> tri_in P T1 -> tri_in P T2 -> tri_distinct T2 -> edge_pts T2 k0 = rev2 (edge_pts T1 e1) ->
    forall sg k, tri_segment T1 (edge_as_i e1) = Ok sg -> tri_get_edge_index_from_segment T2 sg = Some k -> k = edge_as_i k0.
  Proof.
    intros HP I1 I2 D2 Hgeo sg k Es Ek. destruct (tri_segment_pts T1 e1) as (sg' & Es' & Ep). rewrite Es in Es'. inversion Es'; subst sg'.
    destruct (edge_pts_in P T1 e1 I1) as [Q1 Q2]. rewrite <- Ep in Q1, Q2. cbn [pair_of fst snd] in Q1, Q2.
    apply (edge_index_exact P HP T2 sg k0 k I2 D2 Q1 Q2); [|exact Ek]. right. rewrite Ep, Hgeo, rev2_invol. reflexivity.
  Qed.

  (** one call of [mark_as_neighbours] as [mark_edge_pair] issues it *)
  Lemma mark_pair_step (M0 M M' : Mesh) (i1 i2 : nat) (e1 : Edge) (t1 t2 : TP) (sg : Seg K) (k : N) :
    SEP M0 -> DIST M0 -> EM M0 -> skel (tris M) = skel (tris M0) -> LNKG M ->
    nth_error (tris M) i1 = Some t1 -> nth_error (tris M) i2 = Some t2 ->
    tri_segment (tp_tri t1) (edge_as_i e1) = Ok sg ->
    tri_get_edge_index_from_segment (tp_tri t2) sg = Some k ->
    mark_as_neighbours i1 e1 i2 M = (M', Ok tt) ->
    skel (tris M') = skel (tris M0) /\ LNKG M'.
  Proof.
    intros HS HD HE Hsk HL E1 E2 Es Ek H.
    pose proof (sk_mark _ _ _ _ _ _ H) as Hsk'. unfold Rskel in Hsk'. split; [rewrite Hsk'; exact Hsk|].
    destruct (mark_ok_live _ _ _ _ _ H) as (Hne & u1 & u2 & F1 & V1 & F2 & V2).
    rewrite E1 in F1. inversion F1; subst u1. rewrite E2 in F2. inversion F2; subst u2. clear F1 F2.
    set (T1 := tp_tri t1) in *. set (T2 := tp_tri t2) in *.
    assert (L1 : lvM M i1 T1) by (apply slot_lvT; assumption). assert (L2 : lvM M i2 T2) by (apply slot_lvT; assumption).
    assert (L1' : lvM M0 i1 T1) by (apply (lvM_skel _ _ Hsk); exact L1). assert (L2' : lvM M0 i2 T2) by (apply (lvM_skel _ _ Hsk); exact L2).
    pose proof (mesh_vert_tri _ _ _ L1') as I1. pose proof (mesh_vert_tri _ _ _ L2') as I2.
    pose proof (HD _ _ L1') as D1. pose proof (HD _ _ L2') as D2.
    (* the edge of T2 that was found *)
    destruct (tri_segment_pts T1 e1) as (sg' & Es' & Ep). rewrite Es in Es'. inversion Es'; subst sg'. clear Es'.
    destruct (edge_pts_in _ T1 e1 I1) as [Q1 Q2]. rewrite <- Ep in Q1, Q2. cbn [pair_of fst snd] in Q1, Q2.
    destruct (edge_index_sound _ HS T2 sg k I2 Q1 Q2 Ek) as (k0 & -> & Hss). rewrite Ep in Hss.
    pose proof (EM_reversed M0 i1 i2 T1 T2 e1 k0 HE Hne L1' L2' Hss) as Hgeo.
    assert (EMM : EM M) by (apply (EM_skel M0 M Hsk); exact HE).
    destruct (lk M i1 e1) as [x|] eqn:Elk.
    - (* already linked: necessarily to i2, and the call rewrites what is there *)
      destruct (good_inv M i1 T1 e1 x HL L1 Elk) as (Hx1 & U & k' & LU & Elk' & EU).
      assert (Hx : x = i2).
      { destruct (Nat.eq_dec x i2) as [Q|Q]; [exact Q|]. exfalso. apply (EMM x i2 U T2 k' k0 Q LU L2). rewrite EU, Hgeo. reflexivity. }
      subst x. rewrite (lvM_fun _ _ _ _ LU L2) in EU.
      assert (Hk' : k' = k0) by (apply (edge_unique T2 (rev2 (edge_pts T1 e1)) k' k0 D2); left; [symmetry; exact EU | symmetry; exact Hgeo]).
      subst k'.
      destruct (mark_exact i1 e1 i2 T1 T2 k0 M M' L1 L2 Hne (det_edge _ T1 T2 e1 k0 HS I1 I2 D2 Hgeo) H) as (_ & A1 & A2 & A3).
      assert (Hlk : forall j e, lk M' j e = lk M j e).
      { intros j e. destruct (Nat.eq_dec j i1) as [->|Hj1]; [destruct (edge_eq_dec e e1) as [->|He1]; [rewrite A1, Elk; reflexivity|]|].
        - destruct (edge_eq_dec e k0) as [->|He0]; apply A3; intros [Q1' Q2']; try contradiction; apply Hne; exact Q1'.
        - destruct (Nat.eq_dec j i2) as [->|Hj2]; [destruct (edge_eq_dec e k0) as [->|He0]; [rewrite A2, Elk'; reflexivity|]|];
            apply A3; intros [Q1' Q2']; contradiction. }
      apply (G_LNKG (fun _ _ => False)); [|intros; intros Q; exact Q].
      apply (G_ext _ M M' Hsk' Hlk). apply LNKG_G. exact HL.
    - (* a fresh link *)
      destruct (G_mark_sep (mesh_vert M0) (fun _ _ => False) i1 e1 i2 T1 T2 k0 M M' HS I1 I2 D2 (LNKG_G M HL) L1 L2 Hne Hgeo Elk) as (A & _); [|exact H|].
      + intros x U e'' Ex LU EU. destruct (Nat.eq_dec x i1) as [->|Q].
        * split; [reflexivity|]. rewrite (lvM_fun _ _ _ _ LU L1) in EU.
          apply (edge_unique T1 (edge_pts T1 e1) e'' e1 D1); left; [symmetry; exact EU | reflexivity].
        * exfalso. exact (EMM x i1 U T1 e'' e1 Q LU L1 EU).
      + apply (G_LNKG _ M' A). intros j T e n _ _ (Q & _). exact Q.
  Qed.

  (** the edge loop of [mark_edge_pair], the two pair loops *)
  Lemma mep_go_links (M0 : Mesh) (a b : nat) : SEP M0 -> DIST M0 -> EM M0 -> forall (js : list N) (M M' : Mesh),
    skel (tris M) = skel (tris M0) -> LNKG M -> mep_go a b js M = (M', Ok tt) -> skel (tris M') = skel (tris M0) /\ LNKG M'.
  Proof.
    intros HS HD HE. induction js as [|j js IH]; intros M M' Hsk HL H; cbn [mep_go] in H.
    - unfold mret in H. inversion H; subst. split; assumption.
    - apply bind_get_ok in H. destruct H as (t & Et & H).
      apply bind_lift_ok in H. destruct H as (sg & Es & H).
      apply bind_get_ok in H. destruct H as (o & Eo & H).
      destruct (tri_get_edge_index_from_segment (tp_tri o) sg) as [k|] eqn:Ek.
      + apply bind_lift_ok in H. destruct H as (e & Ee & H).
        apply (mark_pair_step M0 M M' a b e t o sg k); try assumption. rewrite (edge_from_i_as_i _ _ Ee). exact Es.
      + apply (IH M M'); assumption.
  Qed.
  Lemma inner_links (M0 : Mesh) (a : nat) : SEP M0 -> DIST M0 -> EM M0 -> forall (cnt b : nat) (M M' : Mesh),
    skel (tris M) = skel (tris M0) -> LNKG M -> mn_inner a b cnt M = (M', Ok tt) -> skel (tris M') = skel (tris M0) /\ LNKG M'.
  Proof.
    intros HS HD HE. induction cnt as [|c IH]; intros b M M' Hsk HL H; cbn [mn_inner] in H.
    - unfold mret in H. inversion H; subst. split; assumption.
    - apply mbind_ok in H. destruct H as (u & M1 & H1 & H2). destruct u. rewrite mark_edge_pair_eq in H1.
      destruct (mep_go_links M0 a b HS HD HE _ M M1 Hsk HL H1) as [Hsk1 HL1]. apply (IH (S b) M1 M'); assumption.
  Qed.
  Lemma outer_links (M0 : Mesh) (n : nat) : SEP M0 -> DIST M0 -> EM M0 -> forall (cnt a : nat) (M M' : Mesh),
    skel (tris M) = skel (tris M0) -> LNKG M -> mn_outer n a cnt M = (M', Ok tt) -> skel (tris M') = skel (tris M0) /\ LNKG M'.
  Proof.
    intros HS HD HE. induction cnt as [|c IH]; intros a M M' Hsk HL H; cbn [mn_outer] in H.
    - unfold mret in H. inversion H; subst. split; assumption.
    - apply mbind_ok in H. destruct H as (u & M1 & H1 & H2). destruct u.
      destruct (inner_links M0 a HS HD HE _ _ M M1 Hsk HL H1) as [Hsk1 HL1]. apply (IH (S a) M1 M'); assumption.
  Qed.
  (** [mark_neighbourhouds] keeps LNKG (in particular: establishes it on a mesh without links) *)
  Theorem mark_neighbourhouds_links (M M' : Mesh) :
    SEP M -> DIST M -> EM M -> LNKG M -> mark_neighbourhouds M = (M', Ok tt) -> skel (tris M') = skel (tris M) /\ LNKG M'.
  Proof. intros HS HD HE HL H. unfold mark_neighbourhouds in H. exact (outer_links M _ HS HD HE _ _ M M' eq_refl HL H). Qed.

  (** ** the clipping loop: what holds of the mesh handed to [mark_neighbourhouds] *)
  Lemma fp_loop_reach (Q : Mesh -> Prop) (P : Poly K) :
    (forall a b c la M M' n, mesh_push a b c la M = (M', Ok n) -> Q M -> Q M') ->
    (forall M M', Meq M M' -> Q M -> Q M') ->
    forall fuel count anchor (L : Loop K) (t M : Mesh), fp_loop P fuel count anchor L t = Ok M -> Q t ->
      exists t', Q t' /\ mark_neighbourhouds t' = (M, Ok tt).
  Proof.
    intros Hpush Heq. induction fuel as [|fuel IH]; intros count anchor L t M H C; cbn [fp_loop] in H; [discriminate|].
    destruct (if Nat.eqb _ 0 then loop_sanitize L else Ok L) as [L1| |]; cbn [rbind] in H; try discriminate.
    destruct (Nat.eqb (llen L1) 2).
    { destruct (mark_neighbourhouds t) as [t' r] eqn:Em. destruct r as [u| |]; cbn [rbind] in H; try discriminate. inversion H; subst. destruct u.
      exists t. split; [exact C | exact Em]. }
    destruct (Nat.eqb (llen L1) 0); [discriminate|].
    destruct (loop_index L1 _) as [v0| |]; cbn [rbind] in H; try discriminate.
    destruct (loop_index L1 _) as [v1| |]; cbn [rbind] in H; try discriminate.
    destruct (loop_index L1 _) as [v2| |]; cbn [rbind] in H; try discriminate.
    destruct (is_collinear v0 v1 v2) as [is_line| |]; cbn [rbind] in H; try discriminate.
    destruct (loop_is_diagonal L1 _) as [is_diag| |]; cbn [rbind] in H; try discriminate.
    destruct (ear_test P L1 v0 v1 v2 is_line is_diag) as [is_ear| |]; cbn [rbind] in H; try discriminate.
    destruct is_ear; [|eapply IH; eassumption].
    destruct (mesh_push v0 v1 v2 (n_triangles t) t) as [t1 r] eqn:Ep.
    destruct r as [n| |]; cbn [rbind] in H; try discriminate.
    assert (C1 : Q t1) by (eapply Hpush; eassumption).
    assert (Hc : forall (sg : Seg K) (e : Edge) (m m' : Mesh) (r : res unit),
               (if poly_contains_segment P sg then mupd 95%N (n_triangles t) (tp_constrain e) m else (m, Ok tt)) = (m', r) -> Meq m m').
    { intros sg e m m' r Hm. destruct (poly_contains_segment P sg); [|inversion Hm; subst; apply Meq_refl].
      exact (Meq_constrain true _ _ _ _ _ _ Hm). }
    match type of H with context [let '(t2, r) := ?c in _] => destruct c as [t2 r2] eqn:Ec2 end. apply Hc in Ec2. destruct r2; cbn [rbind] in H; try discriminate.
    match type of H with context [let '(t3, r) := ?c in _] => destruct c as [t3 r3] eqn:Ec3 end. apply Hc in Ec3. destruct r3; cbn [rbind] in H; try discriminate.
    match type of H with context [let '(t4, r) := ?c in _] => destruct c as [t4 r4] eqn:Ec4 end. apply Hc in Ec4. destruct r4; cbn [rbind] in H; try discriminate.
    destruct (loop_remove L1 _) as [L2| |]; cbn [rbind] in H; try discriminate.
    eapply IH; [exact H|]. eapply Heq; [exact Ec4|]. eapply Heq; [exact Ec3|]. eapply Heq; [exact Ec2|]. exact C1.
  Qed.
  Lemma from_polygon_reach (Q : Mesh -> Prop) (P : Poly K) (M : Mesh) :
    (forall a b c la M M' n, mesh_push a b c la M = (M', Ok n) -> Q M -> Q M') ->
    (forall M M', Meq M M' -> Q M -> Q M') -> Q mesh_new ->
    from_polygon P = Ok M -> exists t', Q t' /\ mark_neighbourhouds t' = (M, Ok tt).
  Proof.
    intros Hpush Heq Q0. unfold from_polygon. destruct (poly_get_closed_loop P) as [Lm| |]; cbn [rbind]; try discriminate.
    destruct (loop_close Lm) as [L r]. destruct r; cbn [rbind]; try discriminate. destruct (Nat.ltb _ 2); [discriminate|].
    intros H. eapply fp_loop_reach; eassumption.
  Qed.

  (** no link is set; every live triangle is [tri_new] of its own corners *)
  Definition Fresh (M : Mesh) : Prop :=
    (forall j e, lk M j e = None) /\ (forall j T, lvM M j T -> tri_new (ta T) (tb T) (tc T) = Ok T).
  Lemma Fresh_new : Fresh mesh_new.
  Proof. split; [intros [|j] e; reflexivity | intros [|j] T L; unfold lvM, lvT in L; cbn in L; discriminate L]. Qed.
  Lemma Fresh_push a b c la (M M' : Mesh) n : mesh_push a b c la M = (M', Ok n) -> Fresh M -> Fresh M'.
  Proof.
    intros H [F1 F2]. destruct (push_lk_lv _ _ _ _ _ _ _ H) as (T & ET & LT & Hnone & _ & Hold). split.
    - intros j e. destruct (Nat.eq_dec j n) as [->|Hj]; [apply Hnone | rewrite (proj1 (Hold j Hj)); apply F1].
    - intros j U L. destruct (Nat.eq_dec j n) as [->|Hj].
      + rewrite (lvM_fun _ _ _ _ L LT). destruct (tri_new_verts _ _ _ _ ET) as (-> & -> & ->). exact ET.
      + apply (F2 j). apply (proj2 (Hold j Hj)). exact L.
  Qed.
  Lemma Fresh_Meq (M M' : Mesh) : Meq M M' -> Fresh M -> Fresh M'.
  Proof. intros [Hs Hl] [F1 F2]. split; [intros j e; rewrite Hl; apply F1 | intros j T L; apply (F2 j); apply (lvM_skel _ _ Hs); exact L]. Qed.
  Lemma Fresh_LNKG (M : Mesh) : Fresh M -> LNKG M.
  Proof. intros [F1 _] j T L e k E. rewrite F1 in E. discriminate E. Qed.
  Lemma Fresh_DIST (M : Mesh) : Fresh M -> SEP M -> DIST M.
  Proof.
    intros [_ F2] HS j T L. destruct (mesh_vert_tri _ _ _ L) as (A & B & C).
    exact (tri_new_distinct _ HS _ _ _ T A B C (F2 j T L)).
  Qed.

  (** [mark_neighbourhouds] keeps the skeleton, whatever the outcome *)
  Lemma sk_pair a b : Pres Rskel (mark_edge_pair (K:=K) a b).
  Proof.
    unfold mark_edge_pair.
    repeat match goal with
    | |- Pres Rskel (mbind _ _) => apply (pres_bind Rskel Rskel_trans); [|intros ?]
    | |- Pres Rskel (mret _) => apply (pres_ret Rskel Rskel_refl)
    | |- Pres Rskel (mlift _) => apply (pres_lift Rskel Rskel_refl)
    | |- Pres Rskel (mget _ _) => apply (pres_get Rskel Rskel_refl)
    | |- Pres Rskel (mark_as_neighbours _ _ _) => apply sk_mark
    | |- Pres Rskel (match ?x with _ => _ end) => destruct x
    end.
  Qed.
  Lemma sk_inner a : forall cnt b, Pres Rskel (mn_inner (K:=K) a b cnt).
  Proof. induction cnt as [|c IH]; intros b; cbn [mn_inner]; [apply (pres_ret Rskel Rskel_refl)|]. apply (pres_bind Rskel Rskel_trans); [apply sk_pair | intros _; apply IH]. Qed.
  Lemma sk_outer n : forall cnt a, Pres Rskel (mn_outer (K:=K) n a cnt).
  Proof. induction cnt as [|c IH]; intros a; cbn [mn_outer]; [apply (pres_ret Rskel Rskel_refl)|]. apply (pres_bind Rskel Rskel_trans); [apply sk_inner | intros _; apply IH]. Qed.
  Lemma sk_neighbourhouds : Pres Rskel (mark_neighbourhouds (K:=K)).
  Proof. intros M M' r H. unfold mark_neighbourhouds in H. eapply sk_outer. exact H. Qed.

  (** B1: the initial mesh has exact, reversed, reciprocal links, and triangles with distinct corners *)
  Theorem from_polygon_links (P : Poly K) (M : Mesh) :
    from_polygon P = Ok M -> SEP M -> EM M -> LNKG M /\ DIST M.
  Proof.
    intros H HS HE. destruct (from_polygon_reach Fresh P M Fresh_push Fresh_Meq Fresh_new H) as (t & Ft & Hm).
    assert (Hsk : skel (tris M) = skel (tris t)) by exact (sk_neighbourhouds _ _ _ Hm).
    assert (Hsk' : skel (tris t) = skel (tris M)) by (symmetry; exact Hsk).
    pose proof (SEP_skel M t Hsk' HS) as HSt. pose proof (EM_skel M t Hsk' HE) as HEt. pose proof (Fresh_DIST t Ft HSt) as HDt.
    destruct (mark_neighbourhouds_links t M HSt HDt HEt (Fresh_LNKG t Ft) Hm) as [_ HL].
    split; [exact HL | exact (DIST_skel t M Hsk HDt)].
  Qed.
  Corollary from_polygon_GEO_of_EM (P : Poly K) (M : Mesh) : from_polygon P = Ok M -> SEP M -> EM M -> GEO M.
  Proof. intros H HS HE. destruct (from_polygon_links P M H HS HE) as [HL HD]. split; [exact HL | split; [exact HD | exact HS]]. Qed.
End InitLinks.

(* ------------------------------------------------------------------------------------------------------------ *)
(** * B2: plane geometry -- two counter-clockwise triangles on one directed edge overlap at a generic point      *)
From G3 Require Import Theory.RInst Theory.Cyclic Theory.Winding Proofs.C05_pointtest Proofs.C01_tiling
  Proofs.Mesh_links_region Proofs.Mesh_refine_trace Proofs.Mesh_refine_region.
Local Open Scope R_scope.

Section Geo2.
  Notation PP := Winding.P2.

  (** finitely many reals miss a point of every interval (0, t0) *)
  Lemma avoid_reals (rs : list R) : forall t0 : R, 0 < t0 -> exists t : R, 0 < t < t0 /\ forall r, In r rs -> t <> r.
  Proof.
    induction rs as [|r rs IH]; intros t0 H0.
    - exists (t0 / 2). split; [lra | intros r []].
    - destruct (Rlt_dec 0 r) as [Hr|Hr].
      + destruct (IH (Rmin t0 r)) as (t & Ht & Hn); [apply Rmin_glb_lt; assumption|].
        exists t. pose proof (Rmin_l t0 r). pose proof (Rmin_r t0 r). split; [lra|]. intros r' [<-|Hin]; [lra | apply Hn; exact Hin].
      + destruct (IH t0 H0) as (t & Ht & Hn). exists t. split; [exact Ht|]. intros r' [<-|Hin]; [lra | apply Hn; exact Hin].
  Qed.
  (** an affine function positive at 0 stays positive on some (0, t0) *)
  Lemma affine_pos (f0 f1 : R) : 0 < f0 -> exists t0 : R, 0 < t0 /\ forall t, 0 < t < t0 -> 0 < f0 + t * f1.
  Proof.
    intros H. destruct (Rle_dec 0 f1) as [Hf|Hf].
    - exists 1. split; [lra|]. intros t Ht. nra.
    - assert (Hn : 0 < - f1) by lra. exists (f0 / - f1). split; [apply Rdiv_lt_0_compat; lra|]. intros t [Ht1 Ht2].
      assert (Hm : t * (- f1) < f0).
      { apply (Rmult_lt_compat_r (- f1)) in Ht2; [|exact Hn]. unfold Rdiv in Ht2. rewrite Rmult_assoc, Rinv_l in Ht2; lra. }
      lra.
  Qed.
  (** [Winding.avoid_directions] without the side condition: the zero vectors of the list are ignored *)
  Lemma avoid_directions_nz (ws : list PP) :
    exists t0 : R, forall t : R, t0 < t -> forall w, In w ws -> w <> (0, 0) -> snd w - t * fst w <> 0.
  Proof.
    induction ws as [|w ws IH].
    - exists 0. intros t _ w [].
    - destruct IH as [t0 Ht0]. destruct (Req_dec (fst w) 0) as [Hx|Hx].
      + exists t0. intros t Ht w' [Hw|Hw] Hnz; [subst w'|apply Ht0; assumption].
        rewrite Hx, Rmult_0_r, Rminus_0_r. intros Hy. apply Hnz. destruct w as [wx wy]; cbn [fst snd] in *; subst; reflexivity.
      + exists (Rmax t0 (snd w / fst w)). intros t Ht w' [Hw|Hw] Hnz.
        * subst w'. intros H.
          assert (Ht' : snd w / fst w < t) by (eapply Rle_lt_trans; [apply Rmax_r|exact Ht]).
          assert (t = snd w / fst w) by (field_simplify_eq; [lra|exact Hx]). lra.
        * apply Ht0; [|assumption|assumption]. eapply Rle_lt_trans; [apply Rmax_l|exact Ht].
  Qed.

  (** (v - u) x w *)
  Definition crs (u v w : PP) : R := (fst v - fst u) * snd w - (snd v - snd u) * fst w.
  Definition shift (m w : PP) (t : R) : PP := (fst m + t * fst w, snd m + t * snd w).
  Lemma orient_shift (u v m w : PP) (t : R) : orient u v (shift m w t) = orient u v m + t * crs u v w.
  Proof. unfold orient, shift, crs. cbn [fst snd]. ring. Qed.
  Lemma pp_eq_dec (u v : PP) : u = v \/ u <> v.
  Proof.
    destruct u as [ux uy], v as [vx vy]. destruct (Req_dec ux vx) as [->|Hx]; [destruct (Req_dec uy vy) as [->|Hy]|].
    - left; reflexivity.
    - right; intros E; inversion E; contradiction.
    - right; intros E; inversion E; contradiction.
  Qed.

  (** a direction to the left of a -> b that is parallel to no line through two different points of S *)
  Lemma generic_left (S : list PP) (a b : PP) : a <> b ->
    exists w : PP, 0 < crs a b w /\ forall u v, In u S -> In v S -> u <> v -> crs u v w <> 0.
  Proof.
    intros Hab.
    set (dv := fun uv : PP * PP => (fst (snd uv) - fst (fst uv), snd (snd uv) - snd (fst uv))).
    destruct (avoid_directions_nz (dv (a, b) :: map dv (list_prod S S))) as [t0 Ht0].
    specialize (Ht0 (t0 + 1) ltac:(lra)). set (tau := t0 + 1) in *.
    assert (Hnz : forall u v : PP, u <> v -> dv (u, v) <> (0, 0)).
    { intros u v Huv E. apply Huv. unfold dv in E. cbn [fst snd] in E. inversion E. destruct u, v; cbn [fst snd] in *. f_equal; lra. }
    assert (Hall : forall u v, (u = a /\ v = b) \/ (In u S /\ In v S) -> u <> v -> crs u v (1, tau) <> 0).
    { intros u v Hin Huv. assert (Hi : In (dv (u, v)) (dv (a, b) :: map dv (list_prod S S))).
      { destruct Hin as [[-> ->] | [Hu Hv]]; [left; reflexivity | right; apply in_map; apply in_prod; assumption]. }
      pose proof (Ht0 _ Hi (Hnz u v Huv)) as H. unfold dv in H. cbn [fst snd] in H. unfold crs. cbn [fst snd]. intros Q. apply H. lra. }
    pose proof (Hall a b (or_introl (conj eq_refl eq_refl)) Hab) as Hk.
    destruct (Rlt_dec 0 (crs a b (1, tau))) as [Hp|Hp].
    - exists (1, tau). split; [exact Hp|]. intros u v Hu Hv Huv. apply Hall; [right; split; assumption | exact Huv].
    - exists (-1, - tau). assert (E : forall u v, crs u v (-1, - tau) = - crs u v (1, tau)) by (intros; unfold crs; cbn [fst snd]; ring).
      split; [rewrite E; lra|]. intros u v Hu Hv Huv. rewrite E. pose proof (Hall u v (or_intror (conj Hu Hv)) Huv). lra.
  Qed.

  (** the point: strictly inside both triangles, on no line through two different points of S *)
  Lemma common_point (S : list PP) (a b c c' : PP) :
    0 < orient a b c -> 0 < orient a b c' ->
    exists q : PP, inside_tri a b c q /\ inside_tri a b c' q /\ forall u v, In u S -> In v S -> u <> v -> orient u v q <> 0.
  Proof.
    intros Hc Hc'.
    assert (Hab : a <> b) by (intros ->; rewrite orient_self in Hc; lra).
    destruct (generic_left S a b Hab) as (w & Hw & Hgen).
    set (m := lerp a b (/ 2)).
    assert (M0 : orient a b m = 0) by (unfold orient, m, lerp; cbn [fst snd]; field).
    assert (M1 : forall x, orient b x m = orient a b x / 2) by (intros x; unfold orient, m, lerp; cbn [fst snd]; field).
    assert (M2 : forall x, orient x a m = orient a b x / 2) by (intros x; unfold orient, m, lerp; cbn [fst snd]; field).
    destruct (affine_pos (orient b c m) (crs b c w)) as (t1 & P1 & Q1); [rewrite M1; lra|].
    destruct (affine_pos (orient c a m) (crs c a w)) as (t2 & P2 & Q2); [rewrite M2; lra|].
    destruct (affine_pos (orient b c' m) (crs b c' w)) as (t3 & P3 & Q3); [rewrite M1; lra|].
    destruct (affine_pos (orient c' a m) (crs c' a w)) as (t4 & P4 & Q4); [rewrite M2; lra|].
    set (t0 := Rmin (Rmin t1 t2) (Rmin t3 t4)).
    assert (B : 0 < t0 /\ t0 <= t1 /\ t0 <= t2 /\ t0 <= t3 /\ t0 <= t4).
    { unfold t0. pose proof (Rmin_l (Rmin t1 t2) (Rmin t3 t4)). pose proof (Rmin_r (Rmin t1 t2) (Rmin t3 t4)).
      pose proof (Rmin_l t1 t2). pose proof (Rmin_r t1 t2). pose proof (Rmin_l t3 t4). pose proof (Rmin_r t3 t4).
      split; [repeat apply Rmin_glb_lt; assumption | lra]. }
    destruct B as (B0 & B1 & B2 & B3 & B4).
    set (root := fun uv : PP * PP => - orient (fst uv) (snd uv) m / crs (fst uv) (snd uv) w).
    destruct (avoid_reals (map root (list_prod S S)) t0 B0) as (t & Ht & Hr).
    exists (shift m w t). split; [|split].
    - left. rewrite !orient_shift, M0. split; [nra | split; [apply Q1; lra | apply Q2; lra]].
    - left. rewrite !orient_shift, M0. split; [nra | split; [apply Q3; lra | apply Q4; lra]].
    - intros u v Hu Hv Huv. rewrite orient_shift. intros E. pose proof (Hgen u v Hu Hv Huv) as Hk.
      apply (Hr (root (u, v))); [apply in_map; apply in_prod; assumption|].
      unfold root. cbn [fst snd]. field_simplify_eq; [lra | exact Hk].
  Qed.

  (** a ray from q that is generic for the chain *)
  Lemma generic_dir (L : list PP) (q : PP) : (forall v, In v L -> v <> q) -> exists d : PP, generic d q L.
  Proof.
    intros Hq. destruct (avoid_directions (map (fun v : PP => (fst v - fst q, snd v - snd q)) L)) as [t0 Ht0].
    { intros w Hw. apply in_map_iff in Hw. destruct Hw as (v & <- & Hv). intros E. apply (Hq v Hv). inversion E. destruct v, q; cbn [fst snd] in *. f_equal; lra. }
    exists (1, t0 + 1). intros v Hv. pose proof (Ht0 (t0 + 1) ltac:(lra) _ (in_map _ _ _ Hv)) as H. cbn [fst snd] in H.
    unfold hgt. cbn [fst snd]. intros Q. apply H. lra.
  Qed.

  Lemma nth_split2 {A : Type} (l : list A) (i j : nat) (x y : A) :
    (i < j)%nat -> nth_error l i = Some x -> nth_error l j = Some y -> exists l1 l2 l3, l = l1 ++ x :: l2 ++ y :: l3.
  Proof.
    intros Hij Hi Hj. destruct (nth_error_split l i Hi) as (l1 & r & -> & Hl).
    rewrite nth_error_app2 in Hj by lia. rewrite Hl in Hj. destruct (j - i)%nat as [|k] eqn:Ek; [lia|]. cbn [nth_error] in Hj.
    destruct (nth_error_split r k Hj) as (l2 & l3 & -> & _). exists l1, l2, l3. reflexivity.
  Qed.
End Geo2.

(* ------------------------------------------------------------------------------------------------------------ *)
(** * B2: the ears of a sanitize-stable run on a Jordan outline are edge-manifold (reals)                        *)
Section Tiling.
  Notation PP := Winding.P2.
  Variables (o e1 e2 : V3 R).
  Notation pr := (plane2 o e1 e2).

  (** the Jordan hypothesis of C01 (upper half): off its edges, the chain winds at most once around every point *)
  Definition jordan_le1 (L2 : list PP) : Prop :=
    forall d q : PP, generic d q L2 -> off_edges L2 q -> (wn d L2 q <= 1)%Z.

  Lemma edge_pos (T : Tri R) (e : Edge) : 0 < orient (pr (ta T)) (pr (tb T)) (pr (tc T)) ->
    0 < orient (pr (fst (edge_pts T e))) (pr (snd (edge_pts T e))) (pr (opp_v T e)).
  Proof. intros H. destruct e; cbn [edge_pts opp_v fst snd]; [exact H | rewrite orient_rot; exact H | rewrite <- orient_rot; exact H]. Qed.
  Lemma edge_inside (T : Tri R) (e : Edge) (q : PP) :
    inside_tri (pr (fst (edge_pts T e))) (pr (snd (edge_pts T e))) (pr (opp_v T e)) q -> inside_tri (pr (ta T)) (pr (tb T)) (pr (tc T)) q.
  Proof.
    destruct e; cbn [edge_pts opp_v fst snd]; intros H; [exact H | exact (proj1 (inside_tri_rot _ _ _ _) H) | exact (proj2 (inside_tri_rot _ _ _ _) H)].
  Qed.

  Section Run.
    Variables (P : Poly R) (M : Mesh R) (L : Loop R).
    Hypothesis Hrun : stable_run P M.
    Hypothesis Hout : outline_of P L.
    Hypothesis Hn : frame_normal e1 e2 P.
    Hypothesis HJ : jordan_le1 (proj_outline o e1 e2 L).

    Lemma run_positive : forall a b c, In (a, b, c) (proj_tris o e1 e2 M) -> 0 < orient a b c.
    Proof. exact (ears_positive o e1 e2 P M (stable_run_ok P M Hrun) Hn). Qed.
    Lemma run_verts (t : TriPiece R) : In t (tris M) -> tri_in (fun x => In x (verts L)) (tp_tri t).
    Proof.
      intros Hin. destruct (stable_run_ears P M L Hrun Hout) as [D _].
      apply (ear_decomp2_In _ _ _ D (ta (tp_tri t)) (tb (tp_tri t)) (tc (tp_tri t))).
      change (ta (tp_tri t), tb (tp_tri t), tc (tp_tri t)) with (tri3 t). apply in_map. exact Hin.
    Qed.
    Lemma run_proj_in (t : TriPiece R) : In t (tris M) ->
      In (pr (ta (tp_tri t)), pr (tb (tp_tri t)), pr (tc (tp_tri t))) (proj_tris o e1 e2 M).
    Proof. intros Hin. apply proj_tris_In. exists t. repeat split. exact Hin. Qed.

    (** two different slots never hold the same directed edge *)
    Lemma tiling_no_shared (i j : nat) (ti tj : TriPiece R) (e e' : Edge) :
      (i < j)%nat -> nth_error (tris M) i = Some ti -> nth_error (tris M) j = Some tj ->
      edge_pts (tp_tri ti) e = edge_pts (tp_tri tj) e' -> False.
    Proof.
      intros Hij Ei Ej Heq. set (Ti := tp_tri ti) in *. set (Tj := tp_tri tj) in *. set (S := proj_outline o e1 e2 L).
      pose proof (nth_error_In _ _ Ei) as Ini. pose proof (nth_error_In _ _ Ej) as Inj.
      pose proof (edge_pos Ti e (run_positive _ _ _ (run_proj_in ti Ini))) as Pi.
      pose proof (edge_pos Tj e' (run_positive _ _ _ (run_proj_in tj Inj))) as Pj. rewrite <- Heq in Pj.
      destruct (edge_pts_in _ Ti e (run_verts ti Ini)) as [Vu Vv].
      set (u := fst (edge_pts Ti e)) in *. set (v := snd (edge_pts Ti e)) in *.
      assert (Su : In (pr u) S) by (apply in_map; exact Vu). assert (Sv : In (pr v) S) by (apply in_map; exact Vv).
      assert (Huv : pr u <> pr v) by (intros Q; rewrite Q, orient_self in Pi; lra).
      destruct (common_point S (pr u) (pr v) (pr (opp_v Ti e)) (pr (opp_v Tj e')) Pi Pj) as (q & I1 & I2 & Hoff).
      (* q is no vertex of the outline *)
      assert (Hq : forall x, In x S -> x <> q).
      { intros x Hx Q. subst q. destruct (pp_eq_dec (pr u) x) as [E|E].
        - subst x. apply (Hoff (pr u) (pr v) Su Sv Huv). unfold orient. ring.
        - apply (Hoff (pr u) x Su Hx E). unfold orient. ring. }
      destruct (generic_dir S q Hq) as [d Hg].
      (* q is on no edge line of a triangle, on no edge of the outline *)
      assert (Hsegs : forall a b c, In (a, b, c) (proj_tris o e1 e2 M) -> off_segs a b c q).
      { intros a b c Hin. pose proof (run_positive a b c Hin) as Hp. apply proj_tris_In in Hin. destruct Hin as (t & Hin & -> & -> & ->).
        destruct (run_verts t Hin) as (Va & Vb & Vc).
        assert (Sa : In (pr (ta (tp_tri t))) S) by (apply in_map; exact Va).
        assert (Sb : In (pr (tb (tp_tri t))) S) by (apply in_map; exact Vb).
        assert (Sc : In (pr (tc (tp_tri t))) S) by (apply in_map; exact Vc).
        repeat split; intros Z; exfalso; revert Z; apply Hoff; try assumption; intros Q; rewrite Q in Hp; unfold orient in Hp; lra. }
      assert (Hedges : off_edges S q).
      { intros a b Hin. destruct (edges_closed_In _ _ _ Hin) as [Sa Sb]. destruct (pp_eq_dec a b) as [E|E].
        - subst b. intros _. pose proof (Hq a Sa) as Hne. unfold dot2d.
          assert (Hd : fst a - fst q <> 0 \/ snd a - snd q <> 0).
          { destruct (Req_dec (fst a - fst q) 0) as [Z1|Z1]; [|left; exact Z1]. destruct (Req_dec (snd a - snd q) 0) as [Z2|Z2]; [|right; exact Z2].
            exfalso. apply Hne. destruct a, q; cbn [fst snd] in *. f_equal; lra. }
          pose proof (Rle_0_sqr (fst a - fst q)) as S1. pose proof (Rle_0_sqr (snd a - snd q)) as S2.
          destruct Hd as [Hd|Hd]; apply Rsqr_pos_lt in Hd; unfold Rsqr in *; lra.
        - intros Z. exfalso. exact (Hoff a b Sa Sb E Z). }
      pose proof (HJ d q Hg Hedges) as Hw.
      assert (Ni : nth_error (proj_tris o e1 e2 M) i = Some (pr (ta Ti), pr (tb Ti), pr (tc Ti))) by (unfold proj_tris; rewrite (map_nth_error _ _ _ Ei); reflexivity).
      assert (Nj : nth_error (proj_tris o e1 e2 M) j = Some (pr (ta Tj), pr (tb Tj), pr (tc Tj))) by (unfold proj_tris; rewrite (map_nth_error _ _ _ Ej); reflexivity).
      destruct (nth_split2 _ i j _ _ Hij Ni Nj) as (l1 & l2 & l3 & E).
      apply (ears_tiling_no_overlap o e1 e2 P M L Hrun Hout run_positive d q Hg Hsegs Hw l1 l2 l3 _ _ _ _ _ _ E).
      - apply (edge_inside Ti e). exact I1.
      - apply (edge_inside Tj e'). rewrite <- Heq. exact I2.
    Qed.

    Theorem EM_of_tiling : EM M.
    Proof.
      intros i j Ti Tj e e' Hij Li Lj Heq.
      destruct (lvT_slot _ _ _ Li) as (ti & Ei & _ & Qi). destruct (lvT_slot _ _ _ Lj) as (tj & Ej & _ & Qj). subst Ti Tj.
      destruct (Nat.lt_ge_cases i j) as [Hlt|Hge].
      - exact (tiling_no_shared i j ti tj e e' Hlt Ei Ej Heq).
      - assert (Hlt : (j < i)%nat) by lia. exact (tiling_no_shared j i tj ti e' e Hlt Ej Ei (eq_sym Heq)).
    Qed.
  End Run.
End Tiling.

(* ------------------------------------------------------------------------------------------------------------ *)
(** * Composition: the initial mesh satisfies GEO (and POS, INV); [mesh_polygon] starts from a proved state      *)
Section Compose.
  Notation PP := Winding.P2.
  Variables (o e1 e2 : V3 R).
  Notation pr := (plane2 o e1 e2).

  Section Run.
    Variables (P : Poly R) (M : Mesh R) (L : Loop R).
    Hypothesis Hrun : stable_run P M.
    Hypothesis Hout : outline_of P L.
    Hypothesis Hn : frame_normal e1 e2 P.
    Hypothesis HJ : jordan_le1 (proj_outline o e1 e2 L).
    Hypothesis HV : VSEP (fun x : V3 R => In x (verts L)).

    Lemma initial_verts (x : V3 R) : mesh_vert M x -> In x (verts L).
    Proof.
      intros (j & T & Lj & Hx). destruct (lvT_slot _ _ _ Lj) as (t & Et & _ & <-).
      destruct (run_verts P M L Hrun Hout t (nth_error_In _ _ Et)) as (A & B & C). destruct Hx as [-> | [-> | ->]]; assumption.
    Qed.
    Lemma initial_SEP : SEP M.
    Proof. intros x y Hx Hy. apply HV; apply initial_verts; assumption. Qed.
    Theorem initial_GEO : GEO M.
    Proof.
      apply (from_polygon_GEO_of_EM P M (stable_run_ok P M Hrun) initial_SEP).
      exact (EM_of_tiling o e1 e2 P M L Hrun Hout Hn HJ).
    Qed.
    Theorem initial_AllPos : AllPos o e1 e2 M.
    Proof.
      unfold AllPos, tris2. apply Forall_forall. intros x Hx. apply in_map_iff in Hx. destruct Hx as (T & <- & HT).
      unfold live_tris, live_l in HT. apply in_map_iff in HT. destruct HT as (t & <- & Ht). apply filter_In in Ht. destruct Ht as [Ht _].
      unfold pos3, t2. cbn [fst snd]. exact (run_positive o e1 e2 P M Hrun Hn _ _ _ (run_proj_in o e1 e2 M t Ht)).
    Qed.
    Hypothesis HP : forall v : V3 R, In v (verts L) -> in_plane o e1 e2 v.
    Theorem initial_POS : POS o e1 e2 M.
    Proof. split; [exact initial_GEO | split; [intros x Hx; apply HP; apply initial_verts; exact Hx | exact initial_AllPos]]. Qed.
    Theorem initial_INV : INV o e1 e2 M.
    Proof. destruct (from_polygon_invariants P M (stable_run_ok P M Hrun)) as [W C]. split; [exact W | split; [exact C | exact initial_POS]]. Qed.
  End Run.

  Hypothesis E11 : vdot e1 e1 = 1.
  Hypothesis E22 : vdot e2 e2 = 1.
  Hypothesis E12 : vdot e1 e2 = 0.
  Theorem mesh_polygon_region_from_polygon (fuel : nat) (P : Poly R) (a m : R) (M0 M' : Mesh R) (r : rres) (L : Loop R) :
    stable_run P M0 -> outline_of P L -> frame_normal e1 e2 P -> jordan_le1 (proj_outline o e1 e2 L) ->
    VSEP (fun x : V3 R => In x (verts L)) -> (forall v : V3 R, In v (verts L) -> in_plane o e1 e2 v) ->
    mesh_polygon fuel P a m = Ok (M', r) -> tr_ok (side o e1 e2 (fun _ => True)) M0 (refine_trace fuel a m M0) ->
    INV o e1 e2 M' /\ mesh_area2 o e1 e2 M' = mesh_area2 o e1 e2 M0.
  Proof.
    intros Hrun Hout Hn HJ HV HP H Htr.
    exact (mesh_polygon_region o e1 e2 E11 E22 E12 fuel P a m M0 M' r (stable_run_ok P M0 Hrun) (initial_INV P M0 L Hrun Hout Hn HJ HV HP) H Htr).
  Qed.
End Compose.
