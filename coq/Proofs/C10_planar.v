(** * C10 proofs: vectors of a plane with unit normal N -- their cross product is a multiple of N, and its
    normalisation is N or -N.  (Separate file: [nsatz].) *)
From Coq Require Import ZArith Reals Lra Nsatz.
From G3 Require Import Model.Num Model.Base Model.Vec Model.Segment Model.Loop Theory.RInst Theory.LoopGeom.
Local Open Scope R_scope.

Lemma cross_in_plane (N u w : V) : vdot N N = 1 -> vdot N u = 0 -> vdot N w = 0 ->
  vcross u w = vscale N (vdot N (vcross u w)).
Proof.
  destruct N as [n1 n2 n3], u as [u1 u2 u3], w as [w1 w2 w3]. vunf. rnum. intros H1 H2 H3.
  apply v3_eq; cbn [vx vy vz]; nsatz.
Qed.

Lemma vnormalize_scaled_unit (N : V) (k : R) : vdot N N = 1 -> k <> 0 ->
  vnormalize (vscale N k) = N \/ vnormalize (vscale N k) = vneg N.
Proof.
  intros HN Hk. unfold vnormalize, vlen.
  assert (E : vlen2 (vscale N k) = Rsqr k).
  { unfold Rsqr. destruct N as [n1 n2 n3]. vunf. rnum. nsatz. }
  rewrite E, sqrt_Rsqr_abs. rnum.
  destruct (Rlt_le_dec k 0) as [Hneg|Hpos].
  - right. rewrite Rabs_left by exact Hneg. destruct N as [n1 n2 n3]. apply v3_eq; vunf; rnum; field; lra.
  - left. rewrite Rabs_pos_eq by exact Hpos. destruct N as [n1 n2 n3]. apply v3_eq; vunf; rnum; field; lra.
Qed.

Lemma vdot_sub_origin (N a b o : V) : vdot N (vsub b a) = vdot N (vsub b o) - vdot N (vsub a o).
Proof. vunf. rnum. ring. Qed.
Lemma vdot_from_line_point (N a b : V) (s : R) :
  vdot N (vsub b (vadd a (vscale (vsub b a) s))) = (1 - s) * vdot N (vsub b a).
Proof. vunf. rnum. ring. Qed.
