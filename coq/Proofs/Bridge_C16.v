(** * Bridge_C16: the float-tier theorems of C16, transferred to the primitive-float run.
    The eight [*_with_error] / [*_propagate_error] functions and the four ray functions of Model/Transform.v on [NumF]
    (what Run/C06.v executes against the f64 build) return the [P2B]-preimages of what they return on [NumB64]
    ([Bridge_model.hom_pt_with_error] ... at [P2B_hom]); (S) and (M) of Proofs/C16_errbound.v at binary64 are read back
    through those equalities.  [FR x = B2R (P2B x)], [FV], [FM]: the real values of a float, a vector, a matrix. *)
From Coq Require Import ZArith Reals Bool Floats Lia.
From Flocq Require Import Core BinarySingleNaN.
From G3 Require Import Model.Num Model.NumF Model.Base Model.Vec Model.BBox Model.Transform Theory.PrimBridge Proofs.Bridge_model.
From G3 Require Import Proofs.C06_transform Proofs.C16_errbound Proofs.C16_ray.
Local Open Scope R_scope.

Notation prim := Coq.Floats.PrimFloat.float (only parsing).

Lemma FV_eq (v : V3 prim) : FV v = B2V 53 1024 (pV v). Proof. reflexivity. Qed.
Lemma FM_eq (m : M4 prim) : FM m = B2M 53 1024 (pM m). Proof. reflexivity. Qed.
Lemma Ffin3_eq (v : V3 prim) : Ffin3 v = fin3 53 1024 (pV v). Proof. reflexivity. Qed.
(** bottom row exactly (0,0,0,1) *)
Definition Faffine_last (m : M4 prim) : Prop := affine_last 53 1024 (pM m).
Lemma Hp8_53 : (8 <= 53)%Z. Proof. lia. Qed.

(** ** the run on primitive floats is the run on Flocq binary64: value and reported error *)
Theorem prim_pt_with_error (m : M4 prim) (p : V3 prim) :
  mapP pV pV (@pt_with_error _ NumF m p) = @pt_with_error _ NumB64 (pM m) (pV p).
Proof. symmetry. apply (hom_pt_with_error P2B). Qed.
Theorem prim_vec_with_error (m : M4 prim) (v : V3 prim) :
  mapP pV pV (@vec_with_error _ NumF m v) = @vec_with_error _ NumB64 (pM m) (pV v).
Proof. symmetry. apply (hom_vec_with_error P2B). Qed.
Theorem prim_pt_propagate_error (m : M4 prim) (p e : V3 prim) :
  mapP pV pV (@pt_propagate_error _ NumF m p e) = @pt_propagate_error _ NumB64 (pM m) (pV p) (pV e).
Proof. symmetry. apply (hom_pt_propagate_error P2B). Qed.
Theorem prim_vec_propagate_error (m : M4 prim) (v e : V3 prim) :
  mapP pV pV (@vec_propagate_error _ NumF m v e) = @vec_propagate_error _ NumB64 (pM m) (pV v) (pV e).
Proof. symmetry. apply (hom_vec_propagate_error P2B). Qed.
Theorem prim_mul4x4point (m : M4 prim) (p : V3 prim) : pV (@mul4x4point _ NumF m p) = @mul4x4point _ NumB64 (pM m) (pV p).
Proof. symmetry. apply (hom_mul4x4point P2B). Qed.
Theorem prim_mul4x4vec (m : M4 prim) (v : V3 prim) : pV (@mul4x4vec _ NumF m v) = @mul4x4vec _ NumB64 (pM m) (pV v).
Proof. symmetry. apply (hom_mul4x4vec P2B). Qed.
Theorem prim_mul4x4_abs (m : M4 prim) (x y z : prim) :
  pV (@mul4x4_abs _ NumF m x y z) = @mul4x4_abs _ NumB64 (pM m) (P2B x) (P2B y) (P2B z).
Proof. symmetry. apply (hom_mul4x4_abs P2B). Qed.
Theorem prim_mul3x3_abs (m : M4 prim) (x y z : prim) :
  pV (@mul3x3_abs _ NumF m x y z) = @mul3x3_abs _ NumB64 (pM m) (P2B x) (P2B y) (P2B z).
Proof. symmetry. apply (hom_mul3x3_abs P2B). Qed.
Theorem prim_mul4x4 (a b : M4 prim) : pM (@mul4x4 _ NumF a b) = @mul4x4 _ NumB64 (pM a) (pM b).
Proof. symmetry. apply (hom_mul4x4 P2B). Qed.
Theorem prim_nudge (o d e : V3 prim) : pV (@nudge _ NumF o d e) = @nudge _ NumB64 (pV o) (pV d) (pV e).
Proof. symmetry. apply (hom_nudge P2B). Qed.
Theorem prim_ray_by (m : M4 prim) (r : Ray prim) :
  mapRayRes P2B (@ray_by _ NumF m r) = @ray_by _ NumB64 (pM m) (pR r).
Proof. symmetry. apply (hom_ray_by P2B). Qed.
Theorem prim_ray_propagate_by (m : M4 prim) (r : Ray prim) (oe de : V3 prim) :
  mapRayRes P2B (@ray_propagate_by _ NumF m r oe de) = @ray_propagate_by _ NumB64 (pM m) (pR r) (pV oe) (pV de).
Proof. symmetry. apply (hom_ray_propagate_by P2B). Qed.
Theorem prim_bbox_by (m : M4 prim) (b : BBox prim) : pB (@bbox_by _ NumF m b) = @bbox_by _ NumB64 (pM m) (pB b).
Proof. symmetry. apply (hom_bbox_by P2B). Qed.

(** transfer: state the Flocq theorem on the images, replace the Flocq run by the image of the primitive run *)
Ltac transfer T E :=
  let X := fresh "X" in
  pose proof T as X; cbv zeta in X; change (NB16 53 1024 Hprec53 Hmax1024) with NumB64 in X;
  change (binary_float 53 1024) with b64 in X; rewrite <- E in X; unfold mapP in X; cbn [fst snd] in X; exact X.

(** ** (S) on primitive floats *)
Theorem prim_S_vec (m : M4 prim) (v : V3 prim) :
  let re := @vec_with_error _ NumF m v in
  Ffin3 (snd re) -> safe_prods 53 1024 (FM m) (FV v) ->
  Ffin3 (fst re) /\ within 1 (FV (fst re)) (img_vec (FM m) (FV v)) (FV (snd re)).
Proof. cbv zeta. transfer (S_vec 53 1024 Hprec53 Hmax1024 Hp8_53 (pM m) (pV v)) (prim_vec_with_error m v). Qed.

Theorem prim_S_point (m : M4 prim) (p : V3 prim) :
  let re := @pt_with_error _ NumF m p in
  Faffine_last m -> Ffin3 (snd re) -> safe_prods 53 1024 (FM m) (FV p) ->
  Ffin3 (fst re) /\ within 1 (FV (fst re)) (img_pt (FM m) (FV p)) (FV (snd re)).
Proof. cbv zeta. transfer (S_pt 53 1024 Hprec53 Hmax1024 Hp8_53 (pM m) (pV p)) (prim_pt_with_error m p). Qed.

Theorem prim_S_vec_box (m : M4 prim) (v e : V3 prim) :
  let re := @vec_propagate_error _ NumF m v e in
  Ffin3 (snd re) -> safe_prods 53 1024 (FM m) (FV v) -> safe_prods 53 1024 (FM m) (FV e) ->
  Ffin3 (fst re) /\
  forall x' : V3 R, inbox (FV v) (FV e) x' -> within (1 + 4 * uro 53) (FV (fst re)) (img_vec (FM m) x') (FV (snd re)).
Proof. cbv zeta. transfer (S_vec_box 53 1024 Hprec53 Hmax1024 Hp8_53 (pM m) (pV v) (pV e)) (prim_vec_propagate_error m v e). Qed.

Theorem prim_S_point_box (m : M4 prim) (p e : V3 prim) :
  let re := @pt_propagate_error _ NumF m p e in
  Faffine_last m -> Ffin3 (snd re) -> safe_prods 53 1024 (FM m) (FV p) -> safe_prods 53 1024 (FM m) (FV e) ->
  Ffin3 (fst re) /\
  forall x' : V3 R, inbox (FV p) (FV e) x' -> within (1 + 4 * uro 53) (FV (fst re)) (img_pt (FM m) x') (FV (snd re)).
Proof. cbv zeta. transfer (S_pt_box 53 1024 Hprec53 Hmax1024 Hp8_53 (pM m) (pV p) (pV e)) (prim_pt_propagate_error m p e). Qed.

(** ** (M) on primitive floats *)
Theorem prim_M_with_error (m : M4 prim) (p : V3 prim) :
  safe_prods 53 1024 (FM m) (FV p) -> safe_trans 53 1024 (FM m) ->
  Ffin3 (snd (@pt_with_error _ NumF m p)) ->
  vle (FV (snd (@pt_with_error _ NumF m p))) (vscaleR 2 (first_order (gamma3 53) (FM m) (FV p) V0)).
Proof. transfer (M_with_error 53 1024 Hprec53 Hmax1024 Hp8_53 (pM m) (pV p)) (prim_pt_with_error m p). Qed.

Theorem prim_M_vec_with_error (m : M4 prim) (v : V3 prim) :
  safe_prods 53 1024 (FM m) (FV v) -> Ffin3 (snd (@vec_with_error _ NumF m v)) ->
  vle (FV (snd (@vec_with_error _ NumF m v))) (vscaleR 2 (vscaleR (gamma3 53) (abs_img (FM m) (FV v)))).
Proof. transfer (M_vec_with_error 53 1024 Hprec53 Hmax1024 Hp8_53 (pM m) (pV v)) (prim_vec_with_error m v). Qed.

Theorem prim_M_propagate (m : M4 prim) (p e : V3 prim) :
  safe_prods 53 1024 (FM m) (FV p) -> safe_prods 53 1024 (FM m) (FV e) -> safe_trans 53 1024 (FM m) ->
  Ffin3 (snd (@pt_propagate_error _ NumF m p e)) ->
  vle (FV (snd (@pt_propagate_error _ NumF m p e))) (vscaleR 2 (first_order (gamma3 53) (FM m) (FV p) (FV e))).
Proof. transfer (M_propagate 53 1024 Hprec53 Hmax1024 Hp8_53 (pM m) (pV p) (pV e)) (prim_pt_propagate_error m p e). Qed.

Theorem prim_M_vec_propagate (m : M4 prim) (v e : V3 prim) :
  safe_prods 53 1024 (FM m) (FV v) -> safe_prods 53 1024 (FM m) (FV e) ->
  Ffin3 (snd (@vec_propagate_error _ NumF m v e)) ->
  vle (FV (snd (@vec_propagate_error _ NumF m v e))) (vscaleR 2 (first_order_vec (gamma3 53) (FM m) (FV v) (FV e))).
Proof. transfer (M_vec_propagate 53 1024 Hprec53 Hmax1024 Hp8_53 (pM m) (pV v) (pV e)) (prim_vec_propagate_error m v e). Qed.

(** ** the four ray functions on primitive floats: what they return, in terms of the point / vector functions the
    theorems above bound (the direction is the transformed vector, both reported errors are those of the point and vector
    functions, the origin is the nudged image) *)
Theorem prim_ray_by_parts (m : M4 prim) (r : Ray prim) :
  @ray_by _ NumF m r =
  (mkRay (@nudge _ NumF (fst (@pt_with_error _ NumF m (rorigin r))) (fst (@vec_with_error _ NumF m (rdir r)))
                        (snd (@pt_with_error _ NumF m (rorigin r))))
         (fst (@vec_with_error _ NumF m (rdir r))),
   snd (@pt_with_error _ NumF m (rorigin r)), snd (@vec_with_error _ NumF m (rdir r))).
Proof. unfold ray_by. destruct (pt_with_error m (rorigin r)), (vec_with_error m (rdir r)). reflexivity. Qed.
Theorem prim_ray_propagate_by_parts (m : M4 prim) (r : Ray prim) (oe de : V3 prim) :
  @ray_propagate_by _ NumF m r oe de =
  (mkRay (@nudge _ NumF (fst (@pt_propagate_error _ NumF m (rorigin r) oe)) (fst (@vec_propagate_error _ NumF m (rdir r) de))
                        (snd (@pt_propagate_error _ NumF m (rorigin r) oe)))
         (fst (@vec_propagate_error _ NumF m (rdir r) de)),
   snd (@pt_propagate_error _ NumF m (rorigin r) oe), snd (@vec_propagate_error _ NumF m (rdir r) de)).
Proof.
  unfold ray_propagate_by. destruct (pt_propagate_error m (rorigin r) oe), (vec_propagate_error m (rdir r) de). reflexivity.
Qed.

(** ** non-vacuity on primitive floats: the witness of the former (S) finding, as primitive floats *)
Notation pS s m e := (SF2Prim (S754_finite s m e)).
Notation pZ := (0%float).
Definition wF_m : M4 prim := mkM4
  (pS false 8463998673628444 (-53)) (pS true 5047030972679166 (-54)) (pS false 7067938265295672 (-55)) (pS false 7205759403792794 (-56))
  (pS false 6161287160138741 (-54)) (pS false 6933301816362055 (-53)) (pS true 4854750196499783 (-53)) pZ
  pZ (pS false 5166317250038136 (-53)) (pS false 7378265682839367 (-53)) pZ
  pZ pZ pZ (pS false 4503599627370496 (-52)).
Definition wF_p : V3 prim := mkV3 (pS false 4792630619583628 (-53)) (pS true 8037362843012956 (-52)) (pS false 5739845789036042 (-103)).
Definition wF_e : V3 prim := mkV3 (pS false 4835703278458517 (-82)) (pS false 4835703278458517 (-82)) (pS false 4835703278458517 (-82)).
Ltac p2b_consts :=
  repeat match goal with
  | |- context [P2B (SF2Prim ?s)] => rewrite (P2B_const (SF2Prim s) (B64ofSF s)) by (vm_compute; reflexivity)
  | |- context [P2B 0%float] => rewrite (P2B_const 0%float (B64ofSF (S754_zero false))) by (vm_compute; reflexivity)
  end.
Lemma wF_m_eq : pM wF_m = wS_m.
Proof. unfold wF_m, wS_m, mapM4. cbn [m00 m01 m02 m03 m10 m11 m12 m13 m20 m21 m22 m23 m30 m31 m32 m33].
  p2b_consts. reflexivity. Qed.
Lemma wF_p_eq : pV wF_p = wS_p.
Proof. unfold wF_p, wS_p, mapV3. cbn [vx vy vz]. p2b_consts. reflexivity. Qed.
Lemma wF_e_eq : pV wF_e = wS_e.
Proof. unfold wF_e, wS_e, mapV3. cbn [vx vy vz]. p2b_consts. reflexivity. Qed.

Lemma Ffin3_map (x : V3 prim * V3 prim) (y : V3 b64 * V3 b64) : mapP pV pV x = y -> fin3 53 1024 (snd y) -> Ffin3 (snd x).
Proof. intros <-. exact (fun H => H). Qed.

Lemma prim_C16_nonvacuous :
  Faffine_last wF_m /\ Ffin3 (snd (@pt_with_error _ NumF wF_m wF_p)) /\
  Ffin3 (snd (@vec_with_error _ NumF wF_m wF_p)) /\
  Ffin3 (snd (@pt_propagate_error _ NumF wF_m wF_p wF_e)) /\
  Ffin3 (snd (@vec_propagate_error _ NumF wF_m wF_p wF_e)) /\
  safe_prods 53 1024 (FM wF_m) (FV wF_p) /\ safe_prods 53 1024 (FM wF_m) (FV wF_e) /\
  safe_trans 53 1024 (FM wF_m) /\ inbox (FV wF_p) (FV wF_e) (FV wF_p).
Proof.
  destruct C16_nonvacuous_proof as (A & F1 & F2 & F3 & F4 & S1 & S2 & S3 & I).
  unfold Faffine_last. rewrite !FM_eq, !FV_eq, wF_m_eq, wF_p_eq, wF_e_eq.
  split; [exact A|].
  split; [apply (Ffin3_map _ _ (prim_pt_with_error wF_m wF_p)); rewrite wF_m_eq, wF_p_eq; exact F1|].
  split; [apply (Ffin3_map _ _ (prim_vec_with_error wF_m wF_p)); rewrite wF_m_eq, wF_p_eq; exact F2|].
  split; [apply (Ffin3_map _ _ (prim_pt_propagate_error wF_m wF_p wF_e)); rewrite wF_m_eq, wF_p_eq, wF_e_eq; exact F3|].
  split; [apply (Ffin3_map _ _ (prim_vec_propagate_error wF_m wF_p wF_e)); rewrite wF_m_eq, wF_p_eq, wF_e_eq; exact F4|].
  split; [exact S1|]. split; [exact S2|]. split; [exact S3|exact I].
Qed.
