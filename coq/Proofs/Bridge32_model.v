(** * Bridge32_model: the model functions on the executed binary32 instance ARE their Flocq binary32 runs.
    [of_b32 : b32 -> float] is a total homomorphism [NumB32 -> NumF32] (Theory/F32Bridge.v, [of_b32_hom]; the double
    rounding through binary64 is innocuous), so every generic lifting lemma of Proofs/Bridge_model.v and
    Proofs/Bridge_interval.v applies with [h := of_b32]:
      running a model function on [NumF32] (= [NumF32fast], what the f32 runners execute) on embedded binary32 inputs
      returns the embedding of what the Flocq instance [NumB32 = NumB 24 128] returns.
    [oV oR oB oM oT oI] = [of_b32] mapped over vectors, rays, boxes, matrices, transforms, intervals; [tV ...] = [to_b32]
    mapped likewise (left inverse: [tV (oV v) = v]; right inverse on binary32-valued floats: [is32V v -> oV (tV v) = v]). *)
From Coq Require Import ZArith Reals Bool Floats.
From Flocq Require Import Core BinarySingleNaN.
From G3 Require Import Model.Num Model.NumF Model.NumF32 Model.Base Model.Vec Model.BBox Model.Transform Model.RoundError.
From G3 Require Import Run.FastNum32 Run.FastNum32Proof Theory.PrimBridge Theory.F32Bridge Proofs.Bridge_model Proofs.Bridge_interval.

Notation prim := Coq.Floats.PrimFloat.float (only parsing).
Notation oV := (mapV3 of_b32).
Notation oR := (mapRay of_b32).
Notation oB := (mapBBox of_b32).
Notation oM := (mapM4 of_b32).
Notation oT := (mapTr of_b32).
Notation oI := (mapAF of_b32).
Notation tV := (mapV3 to_b32).
Notation tR := (mapRay to_b32).
Notation tB := (mapBBox to_b32).
Notation tM := (mapM4 to_b32).
Notation tI := (mapAF to_b32).

Lemma tV_oV (v : V3 b32) : tV (oV v) = v.
Proof. destruct v as [x y z]. unfold mapV3. cbn [vx vy vz]. rewrite !to_b32_of_b32. reflexivity. Qed.
Lemma tR_oR (r : Ray b32) : tR (oR r) = r.
Proof. destruct r as [o d]. unfold mapRay. cbn [rorigin rdir]. rewrite !tV_oV. reflexivity. Qed.
Lemma tB_oB (b : BBox b32) : tB (oB b) = b.
Proof. destruct b as [lo hi]. unfold mapBBox. cbn [bmin bmax]. rewrite !tV_oV. reflexivity. Qed.
Lemma tM_oM (m : M4 b32) : tM (oM m) = m.
Proof. destruct m as [a00 a01 a02 a03 a10 a11 a12 a13 a20 a21 a22 a23 a30 a31 a32 a33]. unfold mapM4. cbn [m00 m01 m02 m03 m10 m11 m12 m13 m20 m21 m22 m23 m30 m31 m32 m33].
  rewrite !to_b32_of_b32. reflexivity. Qed.
Lemma tI_oI (a : AF b32) : tI (oI a) = a.
Proof. destruct a as [l u]. unfold mapAF. cbn [low high]. rewrite !to_b32_of_b32. reflexivity. Qed.
Lemma tP_oP (x : V3 b32 * V3 b32) : mapP tV tV (mapP oV oV x) = x.
Proof. destruct x as [a c]. unfold mapP. cbn [fst snd]. rewrite !tV_oV. reflexivity. Qed.

(** binary32-valued inputs *)
Definition is32V (v : V3 prim) : Prop := is32 (vx v) /\ is32 (vy v) /\ is32 (vz v).
Definition is32R (r : Ray prim) : Prop := is32V (rorigin r) /\ is32V (rdir r).
Definition is32B (b : BBox prim) : Prop := is32V (bmin b) /\ is32V (bmax b).
Lemma oV_tV (v : V3 prim) : is32V v -> oV (tV v) = v.
Proof. destruct v as [x y z]. intros (Hx & Hy & Hz). unfold mapV3. cbn [vx vy vz] in *.
  rewrite (is32_back x Hx), (is32_back y Hy), (is32_back z Hz). reflexivity. Qed.
Lemma oR_tR (r : Ray prim) : is32R r -> oR (tR r) = r.
Proof. destruct r as [o d]. intros (Ho & Hd). unfold mapRay. cbn [rorigin rdir] in *. rewrite (oV_tV o Ho), (oV_tV d Hd). reflexivity. Qed.
Lemma oB_tB (b : BBox prim) : is32B b -> oB (tB b) = b.
Proof. destruct b as [lo hi]. intros (Hl & Hh). unfold mapBBox. cbn [bmin bmax] in *. rewrite (oV_tV lo Hl), (oV_tV hi Hh). reflexivity. Qed.
Lemma is32V_oV (v : V3 b32) : is32V (oV v).
Proof. repeat split; apply is32_of_b32. Qed.

(** ** BBox (C14) *)
Theorem f32_bbox_intersect (b : BBox b32) (r : Ray b32) (i : V3 b32) :
  @bbox_intersect _ NumF32 (oB b) (oR r) (oV i) = @bbox_intersect _ NumB32 b r i.
Proof. apply (hom_bbox_intersect of_b32). Qed.
Theorem f32_bbox_intersect_tag (b : BBox b32) (r : Ray b32) (i : V3 b32) :
  @bbox_intersect_tag _ NumF32 (oB b) (oR r) (oV i) = @bbox_intersect_tag _ NumB32 b r i.
Proof. apply (hom_bbox_intersect_tag of_b32). Qed.
Theorem f32_bbox_new (a c : V3 b32) : @bbox_new _ NumF32 (oV a) (oV c) = oB (@bbox_new _ NumB32 a c).
Proof. apply (hom_bbox_new of_b32). Qed.
Theorem f32_bbox_point_inside (b : BBox b32) (p : V3 b32) :
  @bbox_point_inside _ NumF32 (oB b) (oV p) = @bbox_point_inside _ NumB32 b p.
Proof. apply (hom_bbox_point_inside of_b32). Qed.
Theorem f32_ray_project (r : Ray b32) (t : b32) : @ray_project _ NumF32 (oR r) (of_b32 t) = oV (@ray_project _ NumB32 r t).
Proof. apply (hom_ray_project of_b32). Qed.

(** the same on binary32-VALUED primitive floats (what the runner holds), read back through [to_b32] *)
Theorem f32_bbox_intersect_is32 (b : BBox prim) (r : Ray prim) (i : V3 prim) : is32B b -> is32R r -> is32V i ->
  @bbox_intersect _ NumF32 b r i = @bbox_intersect _ NumB32 (tB b) (tR r) (tV i).
Proof. intros Hb Hr Hi. rewrite <- f32_bbox_intersect. rewrite (oB_tB b Hb), (oR_tR r Hr), (oV_tV i Hi). reflexivity. Qed.
Theorem f32_bbox_intersect_tag_is32 (b : BBox prim) (r : Ray prim) (i : V3 prim) : is32B b -> is32R r -> is32V i ->
  @bbox_intersect_tag _ NumF32 b r i = @bbox_intersect_tag _ NumB32 (tB b) (tR r) (tV i).
Proof. intros Hb Hr Hi. rewrite <- f32_bbox_intersect_tag. rewrite (oB_tB b Hb), (oR_tR r Hr), (oV_tV i Hi). reflexivity. Qed.

(** ** Transform (C16): value AND reported error *)
Theorem f32_pt_with_error (m : M4 b32) (p : V3 b32) :
  mapP tV tV (@pt_with_error _ NumF32 (oM m) (oV p)) = @pt_with_error _ NumB32 m p.
Proof. rewrite (hom_pt_with_error of_b32). apply tP_oP. Qed.
Theorem f32_vec_with_error (m : M4 b32) (v : V3 b32) :
  mapP tV tV (@vec_with_error _ NumF32 (oM m) (oV v)) = @vec_with_error _ NumB32 m v.
Proof. rewrite (hom_vec_with_error of_b32). apply tP_oP. Qed.
Theorem f32_pt_propagate_error (m : M4 b32) (p e : V3 b32) :
  mapP tV tV (@pt_propagate_error _ NumF32 (oM m) (oV p) (oV e)) = @pt_propagate_error _ NumB32 m p e.
Proof. rewrite (hom_pt_propagate_error of_b32). apply tP_oP. Qed.
Theorem f32_vec_propagate_error (m : M4 b32) (v e : V3 b32) :
  mapP tV tV (@vec_propagate_error _ NumF32 (oM m) (oV v) (oV e)) = @vec_propagate_error _ NumB32 m v e.
Proof. rewrite (hom_vec_propagate_error of_b32). apply tP_oP. Qed.
(** and in the embedding direction (nothing is lost: the executed result IS the embedded Flocq result) *)
Theorem f32_with_error_embedded (m : M4 b32) (p e : V3 b32) :
  @pt_with_error _ NumF32 (oM m) (oV p) = mapP oV oV (@pt_with_error _ NumB32 m p) /\
  @vec_with_error _ NumF32 (oM m) (oV p) = mapP oV oV (@vec_with_error _ NumB32 m p) /\
  @pt_propagate_error _ NumF32 (oM m) (oV p) (oV e) = mapP oV oV (@pt_propagate_error _ NumB32 m p e) /\
  @vec_propagate_error _ NumF32 (oM m) (oV p) (oV e) = mapP oV oV (@vec_propagate_error _ NumB32 m p e).
Proof.
  split; [apply (hom_pt_with_error of_b32)|]. split; [apply (hom_vec_with_error of_b32)|].
  split; [apply (hom_pt_propagate_error of_b32)|apply (hom_vec_propagate_error of_b32)].
Qed.
Theorem f32_blocks (m a : M4 b32) (p : V3 b32) (x y z : b32) (b : BBox b32) :
  @mul4x4point _ NumF32 (oM m) (oV p) = oV (@mul4x4point _ NumB32 m p) /\
  @mul4x4vec _ NumF32 (oM m) (oV p) = oV (@mul4x4vec _ NumB32 m p) /\
  @mul4x4_abs _ NumF32 (oM m) (of_b32 x) (of_b32 y) (of_b32 z) = oV (@mul4x4_abs _ NumB32 m x y z) /\
  @mul3x3_abs _ NumF32 (oM m) (of_b32 x) (of_b32 y) (of_b32 z) = oV (@mul3x3_abs _ NumB32 m x y z) /\
  @mul4x4 _ NumF32 (oM m) (oM a) = oM (@mul4x4 _ NumB32 m a) /\
  @bbox_by _ NumF32 (oM m) (oB b) = oB (@bbox_by _ NumB32 m b).
Proof.
  split; [apply (hom_mul4x4point of_b32)|]. split; [apply (hom_mul4x4vec of_b32)|].
  split; [apply (hom_mul4x4_abs of_b32)|]. split; [apply (hom_mul3x3_abs of_b32)|].
  split; [apply (hom_mul4x4 of_b32)|apply (hom_bbox_by of_b32)].
Qed.
Theorem f32_rays (m : M4 b32) (r : Ray b32) (oe de : V3 b32) :
  @ray_by _ NumF32 (oM m) (oR r) = mapRayRes of_b32 (@ray_by _ NumB32 m r) /\
  @ray_propagate_by _ NumF32 (oM m) (oR r) (oV oe) (oV de) = mapRayRes of_b32 (@ray_propagate_by _ NumB32 m r oe de) /\
  @nudge _ NumF32 (oV (rorigin r)) (oV (rdir r)) (oV oe) = oV (@nudge _ NumB32 (rorigin r) (rdir r) oe).
Proof.
  split; [apply (hom_ray_by of_b32)|]. split; [apply (hom_ray_propagate_by of_b32)|apply (hom_nudge of_b32)].
Qed.

(** ** ApproxFloat (C07 / C17) *)
Theorem f32_af_ops (I J : AF b32) (f e : b32) :
  (@af_neg _ NumF32 (oI I) = oI (@af_neg _ NumB32 I) /\ @af_sqrt _ NumF32 (oI I) = oI (@af_sqrt _ NumB32 I)) /\
  (@af_add _ NumF32 (oI I) (oI J) = oI (@af_add _ NumB32 I J) /\ @af_sub _ NumF32 (oI I) (oI J) = oI (@af_sub _ NumB32 I J) /\
   @af_mul _ NumF32 (oI I) (oI J) = oI (@af_mul _ NumB32 I J) /\ @af_div _ NumF32 (oI I) (oI J) = oI (@af_div _ NumB32 I J)) /\
  (@af_add_f _ NumF32 (oI I) (of_b32 f) = oI (@af_add_f _ NumB32 I f) /\ @af_sub_f _ NumF32 (oI I) (of_b32 f) = oI (@af_sub_f _ NumB32 I f) /\
   @af_mul_f _ NumF32 (oI I) (of_b32 f) = oI (@af_mul_f _ NumB32 I f) /\ @af_div_f _ NumF32 (oI I) (of_b32 f) = oI (@af_div_f _ NumB32 I f)) /\
  (@af_from _ NumF32 (of_b32 f) = oI (@af_from _ NumB32 f) /\
   @af_from_value_and_error _ NumF32 (of_b32 f) (of_b32 e) = oI (@af_from_value_and_error _ NumB32 f e) /\
   @af_midpoint _ NumF32 (oI I) = of_b32 (@af_midpoint _ NumB32 I) /\
   @af_absolute_error _ NumF32 (oI I) = of_b32 (@af_absolute_error _ NumB32 I)).
Proof.
  repeat split.
  - apply (hom_af_neg of_b32). - apply (hom_af_sqrt of_b32).
  - apply (hom_af_add of_b32). - apply (hom_af_sub of_b32). - apply (hom_af_mul of_b32). - apply (hom_af_div of_b32).
  - apply (hom_af_add_f of_b32). - apply (hom_af_sub_f of_b32). - apply (hom_af_mul_f of_b32). - apply (hom_af_div_f of_b32).
  - apply (hom_af_from of_b32). - apply (hom_af_from_value_and_error of_b32).
  - apply (hom_af_midpoint of_b32). - apply (hom_af_absolute_error of_b32).
Qed.
Theorem f32_af_solve_quadratic (a b c : AF b32) :
  @af_solve_quadratic _ NumF32 (oI a) (oI b) (oI c) = mapOpt (mapP oI oI) (@af_solve_quadratic _ NumB32 a b c).
Proof. apply (hom_af_solve_quadratic of_b32). Qed.

(** ** the instance that is executed *)
Theorem f32_executed_instance : NumF32fast = NumF32.
Proof. exact NumF32fast_eq. Qed.
