(** * Mesh_links_init_ex: non-vacuity of the hypotheses of Proofs/Mesh_links_init.v.
    binary64 (vm_compute): [from_polygon] of the unit square ([Mesh_witness.w4_poly]) succeeds, the run is sanitize-stable,
    its mesh satisfies SEP and EM -- hence, by B1, LNKG and DIST -- and two links are indeed set.
    reals: the outline of the same square (0,0,0) (1,0,0) (1,1,0) (0,1,0) in the frame ((0,0,0), (1,0,0), (0,1,0)) meets the
    hypotheses of B2 / of the composition that speak of the outline: orthonormal frame, Jordan hypothesis (any parallelogram
    winds at most once around any point, for any ray), separation of the vertices, vertices in the plane. *)
From Coq Require Import ZArith Reals Lra Lia List Bool Arith Floats.
Set Warnings "-inexact-float".
From G3 Require Import Model.Num Model.NumF Model.Base Model.Vec Model.Segment Model.Triangle Model.Loop Model.Polygon Model.Triangulation
  Theory.RInst Theory.Cyclic Theory.Winding
  Proofs.Mesh_base Proofs.Mesh_wf Proofs.Mesh_conf Proofs.Mesh_region Proofs.Mesh_atomic Proofs.Mesh_region_ex
  Proofs.Mesh_links Proofs.Mesh_links_steps Proofs.Mesh_links_region Proofs.Mesh_links_ex Proofs.Mesh_witness
  Proofs.C05_pointtest Proofs.C01_tiling Proofs.Mesh_links_init.
Import ListNotations.

(** ** binary64 *)
Definition w4_mesh : Mesh float := match from_polygon w4_poly with Ok m => m | _ => mesh_new end.
Lemma w4_run : from_polygon w4_poly = Ok w4_mesh.
Proof. vm_compute. reflexivity. Qed.
Lemma w4_stable : stable_run w4_poly w4_mesh.
Proof. eexists. split; [vm_compute; reflexivity | vm_compute; repeat constructor]. Qed.
Lemma w4_verts (x : V3 float) : mesh_vert w4_mesh x -> In x sq_pts.
Proof.
  intros (j & T & L & Hx). lv_cases L j; inversion L; subst T; cbn [ta tb tc] in Hx; destruct Hx as [-> | [-> | ->]]; vm_compute; auto.
Qed.
Lemma w4_SEP : SEP w4_mesh.
Proof. apply (vsep_in _ sq_pts_sep). intros x Hx. right. apply w4_verts. exact Hx. Qed.
Ltac pair_neq E :=
  match type of E with
  | ?X = _ => apply (f_equal (fun p : V3 float * V3 float => andb (vcompare (fst p) (fst X)) (vcompare (snd p) (snd X)))) in E; vm_compute in E; discriminate E
  end.
Lemma w4_EM : EM w4_mesh.
Proof.
  intros i j Ti Tj e e' Hij Li Lj E.
  lv_cases Li i; lv_cases Lj j; try (exfalso; apply Hij; reflexivity); inversion Li; inversion Lj; subst Ti Tj;
    destruct e, e'; cbn [edge_pts ta tb tc] in E; pair_neq E.
Qed.
Lemma init_links_float_nonvacuous :
  exists M : Mesh float, from_polygon w4_poly = Ok M /\ stable_run w4_poly M /\ SEP M /\ EM M /\ LNKG M /\ DIST M /\
    length (tris M) = 2%nat /\ (exists e e', lk M 0 e = Some 1%nat /\ lk M 1 e' = Some 0%nat).
Proof.
  exists w4_mesh. destruct (from_polygon_links w4_poly w4_mesh w4_run w4_SEP w4_EM) as [HL HD].
  split; [exact w4_run|]. split; [exact w4_stable|]. split; [exact w4_SEP|]. split; [exact w4_EM|]. split; [exact HL|]. split; [exact HD|].
  split; [vm_compute; reflexivity|]. exists Ca, Ab. split; vm_compute; reflexivity.
Qed.

(** ** reals *)
Local Open Scope R_scope.
Notation PP := Winding.P2.

(** the upward crossings alone bound the winding number *)
Definition up (ha hb : R) : Z := if rlt ha 0 && rlt 0 hb then 1%Z else 0%Z.
Lemma crdR_le_up (ha hb o : R) : (crdR ha hb o <= up ha hb)%Z.
Proof. unfold crdR, up. destruct (rlt ha 0), (rlt 0 hb), (rlt 0 o), (rlt hb 0), (rlt 0 ha), (rlt o 0); cbn [andb]; lia. Qed.
(** a parallelogram (p0 + p2 = p1 + p3) winds at most once around any point, whatever the ray *)
Lemma jordan_parallelogram (p0 p1 p2 p3 : PP) :
  fst p0 + fst p2 = fst p1 + fst p3 -> snd p0 + snd p2 = snd p1 + snd p3 -> jordan_le1 [p0; p1; p2; p3].
Proof.
  intros Hx Hy d q _ _. unfold wn, csum, edges_closed, edges_to, esum. cbn [fold_right hd fst snd]. unfold crd.
  pose proof (crdR_le_up (hgt d q p0) (hgt d q p1) (orient p0 p1 q)) as B0.
  pose proof (crdR_le_up (hgt d q p1) (hgt d q p2) (orient p1 p2 q)) as B1.
  pose proof (crdR_le_up (hgt d q p2) (hgt d q p3) (orient p2 p3 q)) as B2.
  pose proof (crdR_le_up (hgt d q p3) (hgt d q p0) (orient p3 p0 q)) as B3.
  assert (E : hgt d q p0 + hgt d q p2 = hgt d q p1 + hgt d q p3) by (unfold hgt; nra).
  assert (U : (up (hgt d q p0) (hgt d q p1) + up (hgt d q p1) (hgt d q p2) + up (hgt d q p2) (hgt d q p3) + up (hgt d q p3) (hgt d q p0) <= 1)%Z).
  { revert E. generalize (hgt d q p0) (hgt d q p1) (hgt d q p2) (hgt d q p3). intros h0 h1 h2 h3 E. unfold up, rlt.
    repeat match goal with |- context [Rlt_dec ?x ?y] => destruct (Rlt_dec x y) end; cbn [andb]; try lia; exfalso; lra. }
  lia.
Qed.

Definition r3 (x y : R) : V3 R := mkV3 x y 0.
Definition sqL : list (V3 R) := [r3 0 0; r3 1 0; r3 1 1; r3 0 1].
Lemma sqL_sep : forall x y, In x sqL -> In y sqL -> (vcompare x y = true <-> x = y).
Proof.
  assert (N : forall u v : V3 R, vcompare u v = false -> (vx u <> vx v \/ vy u <> vy v) -> (vcompare u v = true <-> u = v)).
  { intros u v E Hn. split; [rewrite E; discriminate | intros ->; destruct Hn as [Q | Q]; exfalso; apply Q; reflexivity]. }
  intros x y Hx Hy. cbn [In sqL] in Hx, Hy.
  repeat (destruct Hx as [<- | Hx]); try contradiction; repeat (destruct Hy as [<- | Hy]); try contradiction;
    first [ split; [intros _; reflexivity | intros _; apply vcompare_refl_R]
          | apply N; [unfold r3; vcdec | unfold r3; cbn [vx vy]; first [left; lra | right; lra]] ].
Qed.
Lemma init_links_real_nonvacuous :
  let o := r3 0 0 in let e1 := r3 1 0 in let e2 := r3 0 1 in
  vdot e1 e1 = 1 /\ vdot e2 e2 = 1 /\ vdot e1 e2 = 0 /\
  map (plane2 o e1 e2) sqL = [(0, 0); (1, 0); (1, 1); (0, 1)] /\
  jordan_le1 (map (plane2 o e1 e2) sqL) /\
  VSEP (fun x : V3 R => In x sqL) /\
  (forall v : V3 R, In v sqL -> in_plane o e1 e2 v).
Proof.
  cbn zeta.
  assert (Epr : map (plane2 (r3 0 0) (r3 1 0) (r3 0 1)) sqL = [(0, 0); (1, 0); (1, 1); (0, 1)]).
  { unfold sqL, plane2, r3, vdot, vsub. cbn [map vx vy vz]. rnum. repeat (f_equal; try (f_equal; ring)). }
  split; [unfold r3, vdot; cbn [vx vy vz]; rnum; ring|]. split; [unfold r3, vdot; cbn [vx vy vz]; rnum; ring|].
  split; [unfold r3, vdot; cbn [vx vy vz]; rnum; ring|]. split; [exact Epr|]. split; [|split].
  - rewrite Epr. apply jordan_parallelogram; cbn [fst snd]; ring.
  - intros x y Hx Hy. apply sqL_sep; assumption.
  - intros v Hv. cbn [In sqL] in Hv. unfold in_plane, emb.
    repeat (destruct Hv as [<- | Hv]); try contradiction;
      [exists 0, 0 | exists 1, 0 | exists 1, 1 | exists 0, 1]; unfold r3, vadd, vscale; cbn [vx vy vz]; rnum; f_equal; ring.
Qed.

(** ** EM is needed (binary64): three triangles on one edge, two of them holding it in the same direction.  SEP and DIST hold, no
    link is set, [mark_neighbourhouds] returns Ok -- and the links are not reciprocal: the pair (0,2) overwrote the entry
    (0, Ab) written by the pair (0,1), then the pair (1,2) overwrote (1, Ab) and (2, Ab). *)
Local Open Scope float_scope.
Definition fan_build : MR (K:=float) unit :=
  mbind (mesh_push (q2 0 0) (q2 1 0) (q2 0 1) 0) (fun _ =>
  mbind (mesh_push (q2 1 0) (q2 0 0) (q2 0 (-1)) 0) (fun _ =>
  mbind (mesh_push (q2 1 0) (q2 0 0) (q2 1 (-1)) 0) (fun _ => mret tt))).
Definition fanM : Mesh float := fst (fan_build mesh_new).
Definition fanM' : Mesh float := fst (mark_neighbourhouds fanM).
Definition fan_pts : list (V3 float) := [q2 0 0; q2 1 0; q2 0 1; q2 0 (-1); q2 1 (-1)].
Ltac v_neq E := match type of E with ?X = _ => apply (f_equal (fun v : V3 float => vcompare v X)) in E; vm_compute in E; discriminate E end.
Lemma fan_pts_sep : forall x y, In x fan_pts -> In y fan_pts -> (vcompare x y = true <-> x = y).
Proof.
  intros x y Hx Hy. cbn [In fan_pts] in Hx, Hy.
  repeat (destruct Hx as [<- | Hx]); try contradiction; repeat (destruct Hy as [<- | Hy]); try contradiction;
    first [ split; [intros _; reflexivity | intros _; vm_compute; reflexivity]
          | split; [vm_compute; intros Q; discriminate Q | intros E; exfalso; v_neq E] ].
Qed.
Lemma EM_is_needed :
  SEP fanM /\ DIST fanM /\ LNKG fanM /\ (forall j e, lk fanM j e = None) /\
  mark_neighbourhouds fanM = (fanM', Ok tt) /\ ~ LNKG fanM' /\ ~ EM fanM.
Proof.
  assert (HV : forall x, mesh_vert fanM x -> In x fan_pts).
  { intros x (j & T & L & Hx). lv_cases L j; inversion L; subst T; cbn [ta tb tc] in Hx; destruct Hx as [-> | [-> | ->]]; vm_compute; auto 10. }
  assert (HN : forall j e, lk fanM j e = None).
  { intros j e. destruct j as [|[|[|j]]]; destruct e; try (vm_compute; reflexivity);
      unfold lk; replace (nth_error (tris fanM) (S (S (S j)))) with (@None (TriPiece float)); try reflexivity;
      symmetry; apply nth_error_None; vm_compute; lia. }
  split; [apply (vsep_in _ fan_pts_sep); exact HV|]. split; [|split; [|split; [exact HN | split; [|split]]]].
  - intros j T L. lv_cases L j; inversion L; subst T; cbn [tri_distinct ta tb tc]; repeat split; intros E; v_neq E.
  - intros j T L e k E. rewrite HN in E. discriminate E.
  - vm_compute. reflexivity.
  - (* the link (0, Ab) -> 2 has no mate: no entry of slot 2 points to 0 *)
    intros H. assert (E : lk fanM' 0 Ab = Some 2%nat) by (vm_compute; reflexivity).
    assert (L0 : exists T, lvM fanM' 0 T) by (eexists; unfold lvM, lvT; vm_compute; reflexivity). destruct L0 as [T L0].
    destruct (H 0%nat T L0 Ab 2%nat E) as (_ & T' & U & e' & _ & _ & A4 & _). destruct e'; vm_compute in A4; discriminate A4.
  - (* slots 1 and 2 hold the directed edge (1,0) -> (0,0) *)
    intros H. assert (L1 : exists T, lvM fanM 1 T /\ edge_pts T Ab = (q2 1 0, q2 0 0)) by (eexists; split; [unfold lvM, lvT; vm_compute; reflexivity | reflexivity]).
    assert (L2 : exists T, lvM fanM 2 T /\ edge_pts T Ab = (q2 1 0, q2 0 0)) by (eexists; split; [unfold lvM, lvT; vm_compute; reflexivity | reflexivity]).
    destruct L1 as (T1 & L1 & E1). destruct L2 as (T2 & L2 & E2).
    apply (H 1%nat 2%nat T1 T2 Ab Ab); [discriminate | exact L1 | exact L2 | rewrite E1, E2; reflexivity].
Qed.
