(** * C04 proofs, part 3: the states that histories of push/close can reach with the LIVE (repaired) code.
    Every number instance.  The repaired [push] stores a vertex only after the corner before it was tested against it,
    and the repaired [close] sets the flag only on a loop of at least three vertices whose two wrap-around corners were
    tested on the final vertex list: so the invariant now contains the clauses of the property text. *)
From Coq Require Import ZArith Bool List Arith Lia.
From G3 Require Import Model.Num Model.Base Model.Vec Model.Segment Model.Loop Proofs.C04_loop Proofs.C04_reach.
Import ListNotations.

Section Live.
  Context {K : Type} {NK : Num K}.
  Notation V := (V3 K).
  Local Open Scope num_scope.

  (** the library's own reading of "b is a genuine corner between a and c" *)
  Definition corner_ok (a b c : V) : Prop := is_collinear a b c = Ok false.

  (** ** list facts *)
  Lemma rwin3_app_r (P : V -> V -> V -> Prop) (x y : list V) : rwin3 P (x ++ y) -> rwin3 P y.
  Proof. induction x as [|u x IH]; [trivial|]. cbn [app]. intros H. apply IH. exact (rwin3_tl _ _ _ H). Qed.
  Lemma corners_firstn (P : V -> V -> V -> Prop) (k : nat) (vs : list V) : corners P vs -> corners P (firstn k vs).
  Proof.
    unfold corners. intros H. rewrite <- (firstn_skipn k vs) in H. rewrite rev_app_distr in H. exact (rwin3_app_r _ _ _ H).
  Qed.
  Lemma nth_firstn_lt (k : nat) : forall (l : list V) (i : nat) d, (i < k)%nat -> nth i (firstn k l) d = nth i l d.
  Proof.
    induction k as [|k IH]; intros l i d Hi; [lia|]. destruct l as [|x l]; [destruct i; reflexivity|].
    cbn [firstn]. destruct i as [|i]; [reflexivity|]. cbn [nth]. apply IH. lia.
  Qed.
  Lemma rev_firstn_two (k : nat) (vs : list V) : (2 <= k)%nat -> (k <= length vs)%nat ->
    exists r, rev (firstn k vs) = vnth vs (k - 1) :: vnth vs (k - 2) :: r.
  Proof.
    intros H2 Hk. assert (Hl : length (firstn k vs) = k) by (rewrite firstn_length; lia).
    destruct (rev_last_two (firstn k vs) ltac:(lia)) as (r & E). exists r. rewrite E, Hl. unfold vnth.
    rewrite !nth_firstn_lt by lia. reflexivity.
  Qed.
  Lemma tri_normal_firstn_snoc (k : nat) (vs : list V) p : (3 <= k)%nat -> (k <= length vs)%nat ->
    tri_normal (firstn k vs ++ [p]) = tri_normal vs.
  Proof.
    intros H3 Hk. destruct vs as [|x [|y [|z t]]]; cbn [length] in Hk; try lia.
    destruct k as [|[|[|k]]]; try lia. reflexivity.
  Qed.

  (** ** the counting loop of push *)
  Lemma push_keep_spec (vs : list V) (p : V) (fuel : nat) : forall k keep, (k <= S fuel)%nat -> push_keep vs p k fuel = Ok keep ->
    (keep <= k)%nat /\ ((2 <= keep)%nat -> corner_ok (vnth vs (keep - 2)) (vnth vs (keep - 1)) p).
  Proof.
    induction fuel as [|f IH]; intros k keep Hk; cbn [push_keep].
    - intros H. inversion H; subst. split; [lia | intros; lia].
    - destruct (Nat.leb 2 k) eqn:E2; [|intros H; inversion H; subst; apply Nat.leb_gt in E2; split; [lia | intros; lia]].
      destruct (is_collinear _ _ p) as [[|]| |] eqn:Ec; cbn [rbind]; try discriminate.
      + intros H. apply Nat.leb_le in E2. destruct (IH (k - 1)%nat keep ltac:(lia) H) as (A & B). split; [lia | exact B].
      + intros H. inversion H; subst. split; [lia | intros _; exact Ec].
  Qed.

  (** ** the effect of an accepted push (live code) *)
  Inductive push_shape_live (vs : list V) (p : V) (vs' : list V) : Prop :=
  | PL_first : (length vs < 2)%nat -> vs' = vs ++ [p] -> push_shape_live vs p vs'
  | PL_pop (r : list V) (a b : V) : rev vs = b :: a :: r -> vcompare a p = true -> vs' = removelast vs -> push_shape_live vs p vs'
  | PL_keep (keep : nat) : (2 <= length vs)%nat -> (keep <= length vs)%nat ->
      ((2 <= keep)%nat -> corner_ok (vnth vs (keep - 2)) (vnth vs (keep - 1)) p) ->
      vs' = firstn keep vs ++ [p] -> push_shape_live vs p vs'.

  Lemma push_tail_live (L L' : Loop K) (vs : list V) :
    (if Nat.eqb (length vs) 3 then loop_set_normal (set_verts L vs)
     else if Nat.ltb (length vs) 3 then Ok (set_normal_field (set_verts L vs) vzero) else Ok (set_verts L vs)) = Ok L' ->
    L' = mkLoop vs (if Nat.eqb (length vs) 3 then tri_normal vs else if Nat.ltb (length vs) 3 then vzero else lnormal L)
                (lclosed L) (larea L) (lperim L).
  Proof.
    destruct (Nat.eqb (length vs) 3) eqn:E.
    - apply Nat.eqb_eq in E. destruct vs as [|x [|y [|z [|w t]]]]; cbn [length] in E; try discriminate.
      unfold loop_set_normal. cbn. intros H. inversion H. reflexivity.
    - destruct (Nat.ltb (length vs) 3); intros H; inversion H; reflexivity.
  Qed.

  Theorem push_live_effect (L L' : Loop K) (p : V) : loop_push L p = Ok L' ->
    lclosed L = false /\ push_shape_live (verts L) p (verts L') /\
    L' = mkLoop (verts L') (if Nat.eqb (llen L') 3 then tri_normal (verts L') else if Nat.ltb (llen L') 3 then vzero else lnormal L)
                false (larea L) (lperim L).
  Proof.
    unfold loop_push. destruct (valid_to_add L p) as [u| |] eqn:Ev; cbn [rbind]; try discriminate.
    pose proof (valid_to_add_open _ _ _ Ev) as Hc. unfold llen.
    destruct (Nat.leb 2 (length (verts L))) eqn:E2.
    - apply Nat.leb_le in E2. destruct (rev_last_two _ E2) as (r & Er).
      destruct (vcompare _ p) eqn:Ecmp; cbn [rbind].
      { intros H. apply push_tail_live in H. rewrite Hc in H. subst L'. cbn [verts]. split; [exact Hc|]. split; [|reflexivity].
        eapply PL_pop; [exact Er | exact Ecmp | reflexivity]. }
      destruct (push_keep _ p _ _) as [keep| |] eqn:Ek; cbn [rbind]; try discriminate.
      intros H. apply push_tail_live in H. rewrite Hc in H. subst L'. cbn [verts]. split; [exact Hc|]. split; [|reflexivity].
      destruct (push_keep_spec _ _ _ _ _ (Nat.le_succ_diag_r _) Ek) as (A & B).
      eapply PL_keep; [exact E2 | exact A | exact B | reflexivity].
    - apply Nat.leb_gt in E2. cbn [rbind]. intros H. apply push_tail_live in H. rewrite Hc in H. subst L'. cbn [verts].
      split; [exact Hc|]. split; [|reflexivity]. apply PL_first; [lia | reflexivity].
  Qed.

  (** ** the two loops of close *)
  Lemma corners_removelast P (vs : list V) : corners P vs -> corners P (removelast vs).
  Proof. unfold corners. rewrite rev_removelast. destruct (rev vs); [trivial|]. apply rwin3_tl. Qed.
  Lemma corners_tl P (vs : list V) : corners P vs -> corners P (tl vs).
  Proof. unfold corners. rewrite rev_tl. apply rwin3_removelast. Qed.

  Lemma pop_redundant_spec (fuel : nat) (P : V -> V -> V -> Prop) : forall vs : list V, (length vs <= fuel + 2)%nat ->
    let vs' := fst (pop_redundant vs fuel) in
    (corners P vs -> corners P vs') /\ (length vs' <= length vs)%nat /\
    (snd (pop_redundant vs fuel) = Ok tt -> last_is_redundant vs' = Ok false).
  Proof.
    induction fuel as [|f IH]; intros vs Hl; cbn [pop_redundant].
    - cbn [fst snd]. split; [auto|]. split; [lia|].
      intros _. unfold last_is_redundant. assert (E : Nat.ltb (length vs) 3 = true) by (apply Nat.ltb_lt; lia). rewrite E. reflexivity.
    - destruct (last_is_redundant vs) as [[|]| |s] eqn:El; cbn [fst snd].
      + destruct (IH (removelast vs)) as (A & B & C); [rewrite length_removelast; lia|].
        cbv zeta in *. rewrite length_removelast in B. split; [intros H; apply A, corners_removelast, H|]. split; [lia | exact C].
      + split; [auto|]. split; [lia|]. intros _; exact El.
      + split; [auto|]. split; [lia|]. discriminate.
      + split; [auto|]. split; [lia|]. discriminate.
  Qed.
  Definition first_corner_ok (vs : list V) : Prop :=
    (3 <= length vs)%nat -> corner_ok (vnth vs (length vs - 1)) (vnth vs 0) (vnth vs 1).
  Lemma drop_first_redundant_spec (fuel : nat) (P : V -> V -> V -> Prop) : forall vs : list V, (length vs <= fuel + 2)%nat ->
    last_is_redundant vs = Ok false ->
    let vs' := fst (drop_first_redundant vs fuel) in
    (corners P vs -> corners P vs') /\ (length vs' <= length vs)%nat /\
    (snd (drop_first_redundant vs fuel) = Ok tt -> last_is_redundant vs' = Ok false /\ first_corner_ok vs').
  Proof.
    induction fuel as [|f IH]; intros vs Hl Hlast; cbn [drop_first_redundant].
    - cbn [fst snd]. split; [auto|]. split; [lia|]. intros _. split; [exact Hlast | intros H3; lia].
    - destruct (Nat.ltb_spec (length vs) 3) as [C|C]; cbn [fst snd].
      { split; [auto|]. split; [lia|]. intros _. split; [exact Hlast | intros H3; lia]. }
      destruct (is_collinear _ _ _) as [[|]| |s] eqn:Ec; cbn [fst snd].
      + destruct (pop_redundant_spec (length vs) P (tl vs)) as (A1 & B1 & C1); [rewrite length_tl; lia|].
        destruct (pop_redundant (tl vs) (length vs)) as [vs1 r] eqn:Ep. cbn [fst snd] in A1, B1, C1. rewrite length_tl in B1.
        destruct r as [[]| |]; cbn [fst snd].
        * destruct (IH vs1 ltac:(lia) (C1 eq_refl)) as (A2 & B2 & C2). cbv zeta in *.
          split; [intros H; apply A2, A1, corners_tl, H|]. split; [lia | exact C2].
        * split; [intros H; apply A1, corners_tl, H|]. split; [lia | discriminate].
        * split; [intros H; apply A1, corners_tl, H|]. split; [lia | discriminate].
      + split; [auto|]. split; [lia|]. intros _. split; [exact Hlast | intros _; exact Ec].
      + split; [auto|]. split; [lia | discriminate].
      + split; [auto|]. split; [lia | discriminate].
  Qed.

  (** ** the invariant of reachable states (live code) *)
  Record Live_inv (L : Loop K) : Prop := {
    (** a loop marked closed has at least three vertices, and its two wrap-around corners pass the collinearity test *)
    li_closed : lclosed L = true -> (3 <= llen L)%nat /\ last_is_redundant (verts L) = Ok false /\ first_corner_ok (verts L);
    (** every interior corner of the stored outline passes the collinearity test (open and closed loops alike) *)
    li_corners : corners corner_ok (verts L);
    (** an open loop never had its area / perimeter set *)
    li_open_measures : lclosed L = false -> larea L = - n1 /\ lperim L = - n1
  }.
  Lemma live_inv_new : Live_inv (@loop_new K NK).
  Proof. split; cbn; intros; try discriminate; auto. Qed.

  Lemma live_inv_push (L L' : Loop K) (p : V) : Live_inv L -> loop_push L p = Ok L' -> Live_inv L'.
  Proof.
    intros [I1 I2 I3] H. destruct (push_live_effect _ _ _ H) as (Hc & Hs & HL).
    assert (Hcl : lclosed L' = false) by (rewrite HL; reflexivity).
    assert (Har : larea L' = larea L /\ lperim L' = lperim L) by (rewrite HL; split; reflexivity).
    split.
    - rewrite Hcl. discriminate.
    - unfold corners in *. destruct Hs as [Hl E| r a b Er _ E| keep H2 Hk Hck E]; rewrite E.
      + rewrite rev_snoc. destruct (verts L) as [|x [|y t]]; cbn [length] in Hl; try lia; cbn; auto.
      + rewrite rev_removelast. rewrite Er in *. exact (rwin3_tl _ _ _ I2).
      + rewrite rev_snoc. pose proof (corners_firstn corner_ok keep _ I2) as Hf. unfold corners in Hf.
        destruct (Nat.leb_spec 2 keep) as [G|G].
        * destruct (rev_firstn_two keep (verts L) G Hk) as (r & Er). rewrite Er in *. split; [exact (Hck G) | exact Hf].
        * assert (Hlen : (length (rev (firstn keep (verts L))) < 2)%nat) by (rewrite rev_length, firstn_length; lia).
          destruct (rev (firstn keep (verts L))) as [|x [|y t]]; cbn [length] in Hlen; try lia; cbn; auto.
    - intros _. destruct Har as (-> & ->). apply I3, Hc.
  Qed.

  Lemma live_inv_close (L : Loop K) : Live_inv L -> Live_inv (fst (loop_close L)).
  Proof.
    intros HI. pose proof HI as [I1 I2 I3]. unfold loop_close.
    destruct (lclosed L) eqn:Ecl; [exact HI|]. destruct (Nat.ltb_spec (llen L) 3) as [C3|C3]; [exact HI|].
    destruct (pop_redundant_spec (llen L) corner_ok (verts L) ltac:(unfold llen; lia)) as (A1 & B1 & C1).
    destruct (pop_redundant (verts L) (llen L)) as [vs1 r1]. cbn [fst snd] in A1, B1, C1.
    assert (Hopen : forall vs, corners corner_ok vs -> Live_inv (set_verts L vs)).
    { intros vs Hv. split; cbn [set_verts lclosed verts larea lperim]; [rewrite Ecl; discriminate | exact Hv | intros _; exact (I3 eq_refl)]. }
    destruct r1 as [[]| |]; cbn [fst]; try (apply Hopen, A1, I2).
    destruct (Nat.ltb_spec (length vs1) 3) as [D3|D3]; [apply Hopen, A1, I2|].
    destruct (valid_to_add _ _) as [u| |]; cbn [fst]; try (apply Hopen, A1, I2).
    destruct (drop_first_redundant_spec (length vs1) corner_ok vs1 ltac:(lia) (C1 eq_refl)) as (A2 & B2 & C2).
    destruct (drop_first_redundant vs1 (length vs1)) as [vs2 r2]. cbn [fst snd] in A2, B2, C2.
    assert (Hopen2 : Live_inv (set_verts (set_verts L vs1) vs2)).
    { split; cbn [set_verts lclosed verts larea lperim]; [rewrite Ecl; discriminate | apply A2, A1, I2 | intros _; exact (I3 eq_refl)]. }
    destruct r2 as [[]| |]; cbn [fst]; try exact Hopen2.
    destruct (Nat.ltb_spec (length vs2) 3) as [E3|E3]; [exact Hopen2|].
    destruct (C2 eq_refl) as (W1 & W2).
    assert (Hclosed : forall Lf, verts Lf = vs2 -> Live_inv Lf \/ True -> lclosed Lf = true -> Live_inv Lf).
    { intros Lf Hv _ Hf. split; [intros _; unfold llen; rewrite Hv; auto | rewrite Hv; apply A2, A1, I2 | rewrite Hf; discriminate]. }
    cbn [set_verts verts lnormal larea lperim].
    match goal with |- context [loop_set_area ?l] => set (L3 := l) end.
    destruct (set_area_cases L3 eq_refl) as [(L4 & E4 & Hv4 & Hc4 & _)|[E4|E4]]; rewrite E4; cbn [fst].
    - destruct (set_perimeter_cases L4 Hc4) as [(L5 & E5 & Hv5 & Hc5)|[E5|E5]]; rewrite E5; cbn [fst].
      + apply Hclosed; [rewrite Hv5, Hv4; reflexivity | right; exact I | exact Hc5].
      + apply Hclosed; [rewrite Hv4; reflexivity | right; exact I | exact Hc4].
      + apply Hclosed; [rewrite Hv4; reflexivity | right; exact I | exact Hc4].
    - apply Hclosed; [reflexivity | right; exact I | reflexivity].
    - apply Hclosed; [reflexivity | right; exact I | reflexivity].
  Qed.

  Lemma live_inv_step (L : Loop K) (op : lop K) : Live_inv L -> Live_inv (fst (loop_step L op)).
  Proof.
    intros HI. destruct op as [p|]; cbn [loop_step]; [|apply live_inv_close, HI].
    destruct (loop_push L p) as [L'| |] eqn:E; cbn [fst]; [eapply live_inv_push; eauto | exact HI ..].
  Qed.
  Theorem live_inv_run (ops : list (lop K)) : forall L : Loop K, Live_inv L -> Live_inv (fst (loop_run L ops)).
  Proof.
    induction ops as [|op ops IH]; intros L HI; cbn [loop_run]; [exact HI|].
    pose proof (live_inv_step L op HI) as H1. destruct (loop_step L op) as [L1 o]. cbn [fst] in H1.
    specialize (IH L1 H1). destruct (loop_run L1 ops) as [L2 os]. exact IH.
  Qed.
  Theorem live_reachable_invariant (ops : list (lop K)) : Live_inv (fst (loop_run (@loop_new K NK) ops)).
  Proof. apply live_inv_run, live_inv_new. Qed.

  (** closed states are absorbing, exactly: every operation is refused and the loop is unchanged *)
  Theorem live_closed_absorbing (L : Loop K) (op : lop K) : lclosed L = true ->
    fst (loop_step L op) = L /\ snd (loop_step L op) = Err 30%N.
  Proof.
    intros Hc. destruct op as [p|]; cbn [loop_step].
    - rewrite (push_on_closed_refused L p Hc). split; reflexivity.
    - unfold loop_close. rewrite Hc. split; reflexivity.
  Qed.
  (** a push that leaves fewer than three vertices leaves a zero normal; one that leaves exactly three the normal of the corner *)
  Theorem live_push_normal (L L' : Loop K) (p : V) : loop_push L p = Ok L' ->
    lnormal L' = if Nat.eqb (llen L') 3 then tri_normal (verts L') else if Nat.ltb (llen L') 3 then vzero else lnormal L.
  Proof. intros H. destruct (push_live_effect _ _ _ H) as (_ & _ & HL). apply (f_equal (@lnormal K)) in HL. exact HL. Qed.

  (** interior corners by index *)
  Lemma rwin3_nth_gen (P : V -> V -> V -> Prop) (vs : list V) : rwin3 P (rev vs) ->
    forall i, (S (S i) < length vs)%nat -> P (vnth vs i) (vnth vs (S i)) (vnth vs (S (S i))).
  Proof.
    induction vs as [|c l IH] using rev_ind; [cbn; intros; lia|].
    rewrite rev_snoc. intros H i Hi. rewrite app_length in Hi. cbn [length] in Hi. unfold vnth in *.
    destruct (Nat.eq_dec (S (S i)) (length l)) as [E|E].
    - destruct H as (H & _). clear IH. assert (Hne : l <> []) by (intros ->; cbn in E; lia).
      destruct (exists_last Hne) as (l1 & b & ->). clear Hne. rewrite app_length in E. cbn [length] in E.
      assert (Hne : l1 <> []) by (intros ->; cbn in E; lia).
      destruct (exists_last Hne) as (l2 & a & ->). clear Hne. rewrite app_length in E. cbn [length] in E.
      rewrite !rev_snoc in H.
      replace (List.nth i (((l2 ++ [a]) ++ [b]) ++ [c]) vzero) with a.
      2:{ rewrite app_nth1 by (rewrite !app_length; cbn; lia). rewrite app_nth1 by (rewrite !app_length; cbn; lia).
          rewrite app_nth2 by lia. replace (i - length l2)%nat with 0%nat by lia. reflexivity. }
      replace (List.nth (S i) (((l2 ++ [a]) ++ [b]) ++ [c]) vzero) with b.
      2:{ rewrite app_nth1 by (rewrite !app_length; cbn; lia). rewrite app_nth2 by (rewrite !app_length; cbn; lia).
          rewrite app_length. cbn [length]. replace (S i - (length l2 + 1))%nat with 0%nat by lia. reflexivity. }
      replace (List.nth (S (S i)) (((l2 ++ [a]) ++ [b]) ++ [c]) vzero) with c.
      2:{ rewrite app_nth2 by (rewrite !app_length; cbn; lia). rewrite !app_length. cbn [length].
          replace (S (S i) - (length l2 + 1 + 1))%nat with 0%nat by lia. reflexivity. }
      exact H.
    - rewrite !app_nth1 by lia. apply IH; [exact (rwin3_tl _ _ _ H) | lia].
  Qed.

  (** THE PROPERTY CLAUSE, in the library's own reading of "collinear", for every reachable closed loop:
      at least three vertices, and no vertex collinear with its two neighbours -- cyclically *)
  Theorem live_closed_no_collinear_vertex (ops : list (lop K)) :
    let L := fst (loop_run (@loop_new K NK) ops) in let n := llen L in
    lclosed L = true ->
    (3 <= n)%nat /\
    (forall i, (S (S i) < n)%nat -> is_collinear (vnth (verts L) i) (vnth (verts L) (S i)) (vnth (verts L) (S (S i))) = Ok false) /\
    is_collinear (vnth (verts L) (n - 2)) (vnth (verts L) (n - 1)) (vnth (verts L) 0) = Ok false /\
    is_collinear (vnth (verts L) (n - 1)) (vnth (verts L) 0) (vnth (verts L) 1) = Ok false.
  Proof.
    cbv zeta. intros Hc. destruct (live_reachable_invariant ops) as [I1 I2 _]. destruct (I1 Hc) as (H3 & W1 & W2).
    split; [exact H3|]. split; [exact (rwin3_nth_gen corner_ok _ I2)|]. split.
    - unfold last_is_redundant in W1. fold (llen (fst (loop_run (@loop_new K NK) ops))) in W1.
      destruct (Nat.ltb_spec (llen (fst (loop_run (@loop_new K NK) ops))) 3) as [C|C]; [lia | exact W1].
    - apply W2. exact H3.
  Qed.
  (** ... and every interior corner of every reachable state, open loops included *)
  Theorem live_interior_corners (ops : list (lop K)) :
    let L := fst (loop_run (@loop_new K NK) ops) in
    forall i, (S (S i) < llen L)%nat -> is_collinear (vnth (verts L) i) (vnth (verts L) (S i)) (vnth (verts L) (S (S i))) = Ok false.
  Proof. cbv zeta. exact (rwin3_nth_gen corner_ok _ (li_corners _ (live_reachable_invariant ops))). Qed.
End Live.
