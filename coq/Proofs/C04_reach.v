(** * C04 proofs, part 2: the states that histories of push/close could reach BEFORE the fix of push/close
    ([loop_push_pre], [loop_close_pre], [loop_run_pre] of Model/Loop.v: kept for the witnesses of the repaired findings).
    Part A (every number instance): the exact effect of an accepted [push] and of [close] on the state,
    and the invariant [Reach_inv] of all states reachable from [loop_new], by induction over operation lists.
    Part B (reals): interior corners stay genuine (non-zero cross product) as long as every collinear
    REPLACEMENT performed by [push] was an exact one. *)
From Coq Require Import ZArith Reals Lra Bool List Arith Lia.
From G3 Require Import Model.Num Model.Base Model.Vec Model.Segment Model.Loop Theory.RInst Proofs.C04_loop.
Import ListNotations.

Section AnyNum.
  Context {K : Type} {NK : Num K}.
  Notation V := (V3 K).

  (** *** the lemmas of Proofs/C04_loop.v as they were for the code before the fix *)
  Theorem push_on_closed_refused_pre (L : Loop K) (p : V) : lclosed L = true -> loop_push_pre L p = Err 30%N.
  Proof. intros H. unfold loop_push_pre, loop_push_gen, loop_push_gen2, valid_to_add. rewrite H. reflexivity. Qed.

  Definition accepts_pre (L : Loop K) (p : V) : bool :=
    negb (lclosed L) &&
    (if negb (vis_zero (lnormal L)) then match loop_is_coplanar L p with Ok b => b | _ => false end else true) &&
    (if Nat.leb 3 (llen L) then negb (crosses_any (seg_new (vnth (verts L) (llen L - 1)) p) (verts L) (llen L - 2)) else true) &&
    (if Nat.leb 2 (llen L) then vcompare (vnth (verts L) (llen L - 2)) p ||
                                is_ok (is_collinear (vnth (verts L) (llen L - 2)) (vnth (verts L) (llen L - 1)) p) else true).
  Lemma set_normal_tail_ok_pre (L : Loop K) (vs : list V) :
    is_ok (if Nat.eqb (length vs) 3 then loop_set_normal (set_verts L vs) else Ok (set_verts L vs)) = true.
  Proof.
    destruct (Nat.eqb (length vs) 3) eqn:El; [|reflexivity]. apply Nat.eqb_eq in El.
    unfold loop_set_normal. cbn [verts set_verts]. destruct vs as [|x [|y [|z w]]]; cbn [length] in El; try discriminate; reflexivity.
  Qed.
  Lemma push_tail_accepts_pre (L : Loop K) (p : V) :
    is_ok (do vs <- (if Nat.leb 2 (llen L) then
                if vcompare (vnth (verts L) (llen L - 2)) p then Ok (removelast (verts L)) else
                do col <- is_collinear (vnth (verts L) (llen L - 2)) (vnth (verts L) (llen L - 1)) p;
                Ok (if col then replace_last (verts L) p else verts L ++ [p])
              else Ok (verts L ++ [p]));
           if Nat.eqb (length vs) 3 then loop_set_normal (set_verts L vs) else Ok (set_verts L vs)) =
    (if Nat.leb 2 (llen L) then vcompare (vnth (verts L) (llen L - 2)) p ||
                                is_ok (is_collinear (vnth (verts L) (llen L - 2)) (vnth (verts L) (llen L - 1)) p) else true).
  Proof.
    destruct (Nat.leb 2 (llen L)).
    - destruct (vcompare _ p); cbn [orb rbind]; [apply set_normal_tail_ok_pre|].
      destruct (is_collinear _ _ p) as [c| |]; cbn [rbind is_ok]; try reflexivity. apply set_normal_tail_ok_pre.
    - cbn [rbind]. apply set_normal_tail_ok_pre.
  Qed.
  Theorem push_accepts_pre (L : Loop K) (p : V) : is_ok (loop_push_pre L p) = accepts_pre L p.
  Proof.
    unfold loop_push_pre, loop_push_gen, loop_push_gen2, accepts_pre. cbn [negb andb]. rewrite <- push_tail_accepts_pre.
    unfold valid_to_add. destruct (lclosed L); [reflexivity|]. cbn [negb andb].
    destruct (negb (vis_zero (lnormal L))).
    - destruct (loop_is_coplanar L p) as [c| |]; cbn [rbind]; try reflexivity. destruct c; cbn [negb andb]; [|reflexivity].
      destruct (Nat.leb 3 (llen L)); cbn [rbind]; [|reflexivity].
      destruct (crosses_any _ _ _); cbn [rbind negb andb]; reflexivity.
    - cbn [rbind negb andb]. destruct (Nat.leb 3 (llen L)); cbn [rbind]; [|reflexivity].
      destruct (crosses_any _ _ _); cbn [rbind negb andb]; reflexivity.
  Qed.

  Theorem close_ok_invariants_pre (L : Loop K) : snd (loop_close_pre L) = Ok tt ->
    let L' := fst (loop_close_pre L) in lclosed L' = true /\ 3 <= llen L'.
  Proof.
    unfold loop_close_pre. destruct (Nat.ltb (llen L) 3); [discriminate|].
    destruct (is_collinear _ _ _) as [c1| |]; cbn [snd]; try discriminate.
    destruct (valid_to_add _ _) as [u| |]; cbn [snd]; try discriminate.
    destruct (is_collinear _ _ _) as [c2| |]; cbn [snd]; try discriminate.
    match goal with |- context [match loop_set_area ?l with _ => _ end] => destruct (loop_set_area l) as [l4| |] eqn:E4 end; cbn [snd]; try discriminate.
    destruct (loop_set_perimeter l4) as [l5| |] eqn:E5; cbn [snd fst]; try discriminate. intros _.
    unfold loop_set_perimeter in E5. destruct (negb (lclosed l4)) eqn:Ec; [discriminate|]. destruct (vis_zero _); [discriminate|].
    destruct (Nat.ltb (llen l4) 3) eqn:El; [discriminate|]. inversion E5; subst. cbn [lclosed llen verts].
    split; [destruct (lclosed l4); [reflexivity | discriminate]|]. apply Nat.ltb_ge in El. exact El.
  Qed.

  (** the normal that [set_normal] computes from the first corner of a vertex list *)
  Definition tri_normal (vs : list V) : V :=
    match vs with a :: b :: c :: _ => vnormalize (vcross (vsub b a) (vsub c b)) | _ => vzero end.

  (** ** windows of two / three consecutive vertices, read on the REVERSED list (push works at the end) *)
  Fixpoint radj (r : list V) : Prop :=
    match r with
    | b :: tl => match tl with a :: _ => vcompare a b = false | [] => True end /\ radj tl
    | [] => True
    end.
  Fixpoint rwin3 (P : V -> V -> V -> Prop) (r : list V) : Prop :=
    match r with
    | c :: tl => match tl with b :: a :: _ => P a b c | _ => True end /\ rwin3 P tl
    | [] => True
    end.
  (** no two consecutive stored vertices are equal for [compare] *)
  Definition adj_distinct (vs : list V) : Prop := radj (rev vs).
  (** every three consecutive stored vertices satisfy P *)
  Definition corners (P : V -> V -> V -> Prop) (vs : list V) : Prop := rwin3 P (rev vs).

  Lemma radj_tl x r : radj (x :: r) -> radj r.
  Proof. cbn [radj]. tauto. Qed.
  Lemma rwin3_tl P x r : rwin3 P (x :: r) -> rwin3 P r.
  Proof. cbn [rwin3]. tauto. Qed.
  Lemma radj_removelast r : radj r -> radj (removelast r).
  Proof.
    induction r as [|b r IH]; [trivial|]. destruct r as [|a r]; [intros _; exact I|].
    destruct r as [|z r].
    - intros _. cbn. auto.
    - intros (H1 & H2). specialize (IH H2). change (removelast (b :: a :: z :: r)) with (b :: removelast (a :: z :: r)).
      change (removelast (a :: z :: r)) with (a :: removelast (z :: r)) in *. split; [exact H1 | exact IH].
  Qed.
  Lemma rwin3_removelast P r : rwin3 P r -> rwin3 P (removelast r).
  Proof.
    induction r as [|c r IH]; [trivial|]. destruct r as [|b r]; [intros _; exact I|].
    destruct r as [|a r]; [intros _; cbn; auto|]. destruct r as [|z r].
    - intros _. cbn. auto.
    - intros (H1 & H2). specialize (IH H2). change (removelast (c :: b :: a :: z :: r)) with (c :: removelast (b :: a :: z :: r)).
      change (removelast (b :: a :: z :: r)) with (b :: a :: removelast (z :: r)) in *. split; [exact H1 | exact IH].
  Qed.

  (** ** list facts about the end of the vertex list *)
  Lemma rev_removelast (vs : list V) : rev (removelast vs) = tl (rev vs).
  Proof.
    destruct vs as [|x vs]; [reflexivity|]. destruct (@exists_last _ (x :: vs)) as (l & y & E); [discriminate|].
    rewrite E, removelast_last, rev_app_distr. reflexivity.
  Qed.
  Lemma rev_tl (vs : list V) : rev (tl vs) = removelast (rev vs).
  Proof. destruct vs as [|x vs]; [reflexivity|]. cbn [tl rev]. rewrite removelast_last. reflexivity. Qed.
  Lemma rev_snoc (vs : list V) p : rev (vs ++ [p]) = p :: rev vs.
  Proof. rewrite rev_app_distr. reflexivity. Qed.
  Lemma rev_replace_last (vs : list V) p : rev (replace_last vs p) = p :: tl (rev vs).
  Proof. unfold replace_last. rewrite rev_snoc, rev_removelast. reflexivity. Qed.
  Lemma rev_last_two (vs : list V) : 2 <= length vs ->
    exists r, rev vs = vnth vs (length vs - 1) :: vnth vs (length vs - 2) :: r.
  Proof.
    intros Hn. destruct vs as [|x vs]; [cbn in Hn; lia|].
    destruct (@exists_last _ (x :: vs)) as (l & b & E); [discriminate|]. rewrite E in *. clear E x vs.
    rewrite app_length in Hn. cbn [length] in Hn. destruct l as [|x l]; [cbn in Hn; lia|].
    destruct (@exists_last _ (x :: l)) as (pre & a & E); [discriminate|]. rewrite E in *. clear E x l Hn.
    exists (rev pre). rewrite !rev_app_distr. cbn [rev app]. rewrite !app_length. cbn [length].
    unfold vnth. f_equal; [|f_equal].
    - rewrite app_nth2; rewrite app_length; cbn [length]; [|lia].
      replace (length pre + 1 + 1 - 1 - (length pre + 1)) with 0 by lia. reflexivity.
    - rewrite app_nth1 by (rewrite app_length; cbn [length]; lia). rewrite app_nth2 by lia.
      replace (length pre + 1 + 1 - 2 - length pre) with 0 by lia. reflexivity.
  Qed.
  Lemma rev_len3 (vs : list V) x y r : rev vs = x :: y :: r -> length vs = S (S (length r)).
  Proof. intros E. rewrite <- (rev_length vs), E. reflexivity. Qed.

  Lemma tri_normal_snoc (vs : list V) p : 3 <= length vs -> tri_normal (vs ++ [p]) = tri_normal vs.
  Proof. destruct vs as [|x [|y [|z t]]]; cbn [length]; try lia. reflexivity. Qed.
  Lemma tri_normal_removelast (vs : list V) : 4 <= length vs -> tri_normal (removelast vs) = tri_normal vs.
  Proof. destruct vs as [|x [|y [|z [|w t]]]]; cbn [length]; try lia. reflexivity. Qed.
  Lemma tri_normal_replace_last (vs : list V) p : 4 <= length vs -> tri_normal (replace_last vs p) = tri_normal vs.
  Proof. destruct vs as [|x [|y [|z [|w t]]]]; cbn [length]; try lia. reflexivity. Qed.
  Lemma length_replace_last (vs : list V) p : 1 <= length vs -> length (replace_last vs p) = length vs.
  Proof.
    intros H. rewrite <- (rev_length (replace_last vs p)), rev_replace_last, <- (rev_length vs).
    destruct (rev vs) eqn:E; [|reflexivity]. apply (f_equal (@length _)) in E. rewrite rev_length in E. cbn in E. lia.
  Qed.
  Lemma length_removelast (vs : list V) : length (removelast vs) = length vs - 1.
  Proof. rewrite <- (rev_length (removelast vs)), rev_removelast, <- (rev_length vs). destruct (rev vs); cbn; lia. Qed.
  Lemma length_tl (vs : list V) : length (tl vs) = length vs - 1.
  Proof. destruct vs; cbn; lia. Qed.

  (** ** the exact effect of an accepted push *)
  Inductive push_shape (vs : list V) (p : V) (vs' : list V) : Prop :=
  | PS_first : length vs < 2 -> vs' = vs ++ [p] -> push_shape vs p vs'
  | PS_pop (r : list V) (a b : V) : rev vs = b :: a :: r -> vcompare a p = true ->
      vs' = removelast vs -> push_shape vs p vs'
  | PS_replace (r : list V) (a b : V) : rev vs = b :: a :: r -> vcompare a p = false -> is_collinear a b p = Ok true ->
      vs' = replace_last vs p -> push_shape vs p vs'
  | PS_append (r : list V) (a b : V) : rev vs = b :: a :: r -> vcompare a p = false -> is_collinear a b p = Ok false ->
      vs' = vs ++ [p] -> push_shape vs p vs'.

  Lemma valid_to_add_open (L : Loop K) p u : valid_to_add L p = Ok u -> lclosed L = false.
  Proof. unfold valid_to_add. destruct (lclosed L); [discriminate | reflexivity]. Qed.

  Lemma push_tail_ok (L L' : Loop K) (vs : list V) :
    (if Nat.eqb (length vs) 3 then loop_set_normal (set_verts L vs) else Ok (set_verts L vs)) = Ok L' ->
    L' = mkLoop vs (if Nat.eqb (length vs) 3 then tri_normal vs else lnormal L) (lclosed L) (larea L) (lperim L).
  Proof.
    destruct (Nat.eqb (length vs) 3) eqn:E.
    - apply Nat.eqb_eq in E. destruct vs as [|x [|y [|z [|w t]]]]; cbn [length] in E; try discriminate.
      unfold loop_set_normal. cbn. intros H. inversion H. reflexivity.
    - intros H. inversion H. reflexivity.
  Qed.

  Theorem push_ok_effect (L L' : Loop K) (p : V) : loop_push_pre L p = Ok L' ->
    lclosed L = false /\ push_shape (verts L) p (verts L') /\
    L' = mkLoop (verts L') (if Nat.eqb (llen L') 3 then tri_normal (verts L') else lnormal L) false (larea L) (lperim L).
  Proof.
    unfold loop_push_pre, loop_push_gen, loop_push_gen2. cbn [negb andb].
    destruct (valid_to_add L p) as [u| |] eqn:Ev; cbn [rbind]; try discriminate.
    pose proof (valid_to_add_open _ _ _ Ev) as Hc. unfold llen.
    destruct (Nat.leb 2 (length (verts L))) eqn:E2.
    - apply Nat.leb_le in E2. destruct (rev_last_two _ E2) as (r & Er).
      destruct (vcompare _ p) eqn:Ecmp; cbn [rbind].
      { intros H. apply push_tail_ok in H. rewrite Hc in H. subst L'. cbn [verts]. split; [exact Hc|]. split; [|reflexivity].
        eapply PS_pop; [exact Er | exact Ecmp | reflexivity]. }
      destruct (is_collinear _ _ p) as [col| |] eqn:Ecol; cbn [rbind]; try discriminate.
      intros H. apply push_tail_ok in H. rewrite Hc in H. subst L'. cbn [verts]. split; [exact Hc|]. split; [|reflexivity].
      destruct col.
      + eapply PS_replace; [exact Er | exact Ecmp | exact Ecol | reflexivity].
      + eapply PS_append; [exact Er | exact Ecmp | exact Ecol | reflexivity].
    - apply Nat.leb_gt in E2. cbn [rbind]. intros H. apply push_tail_ok in H. rewrite Hc in H. subst L'. cbn [verts].
      split; [exact Hc|]. split; [|reflexivity]. apply PS_first; [lia | reflexivity].
  Qed.

  (** the vertex count moves by at most one, and the cached normal changes only when the push leaves exactly three vertices *)
  Corollary push_len_normal (L L' : Loop K) (p : V) : loop_push_pre L p = Ok L' ->
    (llen L' = llen L - 1 \/ llen L' = llen L \/ llen L' = S (llen L)) /\ (lnormal L' = lnormal L \/ llen L' = 3).
  Proof.
    intros H. destruct (push_ok_effect _ _ _ H) as (_ & Hs & HL). split.
    - unfold llen. destruct Hs as [Hl ->| r a b Er _ ->| r a b Er _ _ ->| r a b Er _ _ ->].
      + right; right. rewrite app_length. cbn. lia.
      + left. apply length_removelast.
      + right; left. apply length_replace_last. apply rev_len3 in Er. lia.
      + right; right. rewrite app_length. cbn. lia.
    - apply (f_equal (@lnormal K)) in HL. cbn [lnormal] in HL. rewrite HL.
      destruct (Nat.eqb (llen L') 3) eqn:E; [right; apply Nat.eqb_eq; exact E | left; reflexivity].
  Qed.

  (** ** the crossing test of [valid_to_add], read edge by edge *)
  Lemma crosses_any_false (e : Seg K) (vs : list V) (count : nat) :
    crosses_any e vs count = false <->
    (forall i, i < count -> S i < length vs -> seg_intersect e (seg_new (vnth vs i) (vnth vs (S i))) = None).
  Proof.
    revert vs. induction count as [|c IH]; intros vs.
    - split; [intros _ i Hi; lia | intros _; destruct vs; reflexivity].
    - destruct vs as [|v [|v1 tl]].
      + cbn. split; [intros _ i _ Hi; lia | reflexivity].
      + cbn. split; [intros _ i _ Hi; lia | reflexivity].
      + cbn [crosses_any]. destruct (seg_intersect e (seg_new v v1)) eqn:E.
        * split; [discriminate|]. intros H. specialize (H 0 ltac:(lia) ltac:(cbn; lia)). unfold vnth in H. cbn [nth] in H. congruence.
        * rewrite (IH (v1 :: tl)). split.
          -- intros H i Hi Hl. destruct i as [|i]; [exact E|]. apply (H i); [lia | cbn [length] in *; lia].
          -- intros H i Hi Hl. apply (H (S i)); [lia | cbn [length] in *; lia].
  Qed.

  (** an APPENDED vertex (not a replacement, not a spike pop) passed both tests of the library at that moment:
      the corner at the previous vertex is not collinear, and the new edge intersects none of the edges 0 .. n-3 *)
  Theorem push_append_checked (L L' : Loop K) (p : V) : loop_push_pre L p = Ok L' -> verts L' = verts L ++ [p] -> 2 <= llen L ->
    is_collinear (vnth (verts L) (llen L - 2)) (vnth (verts L) (llen L - 1)) p = Ok false /\
    (3 <= llen L -> forall i, i < llen L - 2 ->
       seg_intersect (seg_new (vnth (verts L) (llen L - 1)) p) (seg_new (vnth (verts L) i) (vnth (verts L) (S i))) = None).
  Proof.
    intros H Hv Hn. split.
    - destruct (push_ok_effect _ _ _ H) as (_ & Hs & _). unfold llen in *.
      destruct (rev_last_two _ Hn) as (r0 & Er0).
      assert (Hlen : forall l : list V, l = verts L ++ [p] -> length l = S (length (verts L))) by (intros l ->; rewrite app_length; cbn; lia).
      destruct Hs as [Hl _| r a b Er _ E| r a b Er _ _ E| r a b Er _ Hc _].
      + lia.
      + rewrite Hv in E. apply (f_equal (@length _)) in E. rewrite length_removelast, app_length in E. cbn in E. lia.
      + rewrite Hv in E. apply (f_equal (@rev _)) in E. rewrite rev_snoc, rev_replace_last, Er in E. cbn [tl] in E.
        inversion E. apply (f_equal (@length _)) in H2. cbn in H2. lia.
      + rewrite Er in Er0. inversion Er0. subst. exact Hc.
    - intros H3 i Hi. pose proof (push_accepts_pre L p) as Ha. rewrite H in Ha. cbn [is_ok] in Ha. symmetry in Ha.
      unfold accepts_pre in Ha. apply andb_prop in Ha. destruct Ha as (Ha & _). apply andb_prop in Ha. destruct Ha as (_ & Ha).
      apply Nat.leb_le in H3. rewrite H3 in Ha. apply negb_true_iff in Ha.
      apply (proj1 (crosses_any_false _ _ _) Ha i Hi). apply Nat.leb_le in H3. unfold llen in *. lia.
  Qed.

  (** ** the exact effect of close *)
  Lemma set_area_cases (L : Loop K) : lclosed L = true ->
    (exists L4, loop_set_area L = Ok L4 /\ verts L4 = verts L /\ lclosed L4 = true /\ 3 <= llen L) \/
    loop_set_area L = Err 36%N \/ loop_set_area L = Err 33%N.
  Proof.
    intros Hc. unfold loop_set_area. rewrite Hc. cbn [negb]. destruct (vis_zero (lnormal L)); [right; left; reflexivity|].
    destruct (Nat.ltb (llen L) 3) eqn:E; [right; right; reflexivity|]. left. eexists. split; [reflexivity|]. cbn [verts lclosed].
    apply Nat.ltb_ge in E. auto.
  Qed.
  Lemma set_perimeter_cases (L : Loop K) : lclosed L = true ->
    (exists L5, loop_set_perimeter L = Ok L5 /\ verts L5 = verts L /\ lclosed L5 = true) \/
    loop_set_perimeter L = Err 36%N \/ loop_set_perimeter L = Err 33%N.
  Proof.
    intros Hc. unfold loop_set_perimeter. rewrite Hc. cbn [negb]. destruct (vis_zero (lnormal L)); [right; left; reflexivity|].
    destruct (Nat.ltb (llen L) 3) eqn:E; [right; right; reflexivity|]. left. eexists. split; [reflexivity|]. cbn [verts lclosed]. auto.
  Qed.

  (** the three ways [close] can end:
      (1) nothing changed (an error);
      (2) an error after the last vertex was popped (it tested collinear with its cyclic neighbours): only the vertex list changed;
      (3) the closed flag was set: the outcome is Ok, or the error 33 / 36 of set_area / set_perimeter (the flag stays set);
          the vertex list is the old one minus (last if test 1) minus (first if test 2). *)
  Definition close_test1 (L : Loop K) := is_collinear (vnth (verts L) (llen L - 2)) (vnth (verts L) (llen L - 1)) (vnth (verts L) 0).
  Definition close_test2 (vs1 : list V) := is_collinear (vnth vs1 (length vs1 - 1)) (vnth vs1 0) (vnth vs1 1).
  Theorem close_effect (L : Loop K) :
    let L' := fst (loop_close_pre L) in let o := snd (loop_close_pre L) in
    (L' = L /\ o <> Ok tt) \/
    (3 <= llen L /\ close_test1 L = Ok true /\ L' = set_verts L (removelast (verts L)) /\ o <> Ok tt) \/
    (3 <= llen L /\ lclosed L = false /\ lclosed L' = true /\ (o = Ok tt \/ o = Err 33%N \/ o = Err 36%N) /\
     exists c1 c2, close_test1 L = Ok c1 /\
       let vs1 := if c1 then removelast (verts L) else verts L in
       close_test2 vs1 = Ok c2 /\ verts L' = (if c2 then tl vs1 else vs1)).
  Proof.
    cbv zeta. unfold loop_close_pre, close_test1, close_test2.
    destruct (Nat.ltb (llen L) 3) eqn:E3; [left; split; [reflexivity | discriminate]|]. apply Nat.ltb_ge in E3.
    destruct (is_collinear _ _ _) as [c1| |] eqn:E1; [|left; split; [reflexivity | discriminate] ..].
    set (L1 := if c1 then set_verts L (removelast (verts L)) else L).
    assert (HL1 : verts L1 = (if c1 then removelast (verts L) else verts L) /\ lclosed L1 = lclosed L) by (subst L1; destruct c1; split; reflexivity).
    destruct HL1 as (Hv1 & Hcl1).
    assert (Hfail : forall o, o <> Ok tt -> (L1 = L /\ o <> Ok tt) \/
        (3 <= llen L /\ Ok c1 = Ok true /\ L1 = set_verts L (removelast (verts L)) /\ o <> Ok tt)).
    { intros o Ho. subst L1. destruct c1; [right; auto | left; auto]. }
    destruct (valid_to_add L1 _) as [u| |] eqn:Ev; cbn [fst snd].
    2,3: match goal with |- (_ /\ ?o <> Ok tt) \/ _ => destruct (Hfail o ltac:(discriminate)) as [H|H] end; [left; exact H | right; left; exact H].
    pose proof (valid_to_add_open _ _ _ Ev) as Hopen.
    destruct (is_collinear (vnth (verts L1) (llen L1 - 1)) (vnth (verts L1) 0) (vnth (verts L1) 1)) as [c2| |] eqn:Ec2; cbn [fst snd].
    all: unfold llen in Ec2; rewrite Hv1 in Ec2.
    2,3: match goal with |- (_ /\ ?o <> Ok tt) \/ _ => destruct (Hfail o ltac:(discriminate)) as [H|H] end; [left; exact H | right; left; exact H].
    set (L2 := if c2 then set_verts L1 (tl (verts L1)) else L1).
    assert (Hv2 : verts L2 = if c2 then tl (verts L1) else verts L1) by (subst L2; destruct c2; reflexivity).
    set (L3 := mkLoop (verts L2) (lnormal L2) true (larea L2) (lperim L2)).
    right; right.
    assert (Hcommon : forall Lf o, lclosed Lf = true -> verts Lf = verts L3 -> (o = Ok tt \/ o = Err 33%N \/ o = Err 36%N) ->
       3 <= llen L /\ lclosed L = false /\ lclosed Lf = true /\ (o = Ok tt \/ o = Err 33%N \/ o = Err 36%N) /\
       exists c1' c2', Ok c1 = Ok c1' /\ Ok c2 = Ok c2' /\
         verts Lf = (if c2' then tl (if c1' then removelast (verts L) else verts L) else (if c1' then removelast (verts L) else verts L))).
    { intros Lf o Hf Hvf Ho. split; [exact E3|]. split; [congruence|]. split; [exact Hf|]. split; [exact Ho|].
      exists c1, c2. split; [reflexivity|]. split; [reflexivity|]. rewrite Hvf. subst L3. cbn [verts]. rewrite Hv2, Hv1. reflexivity. }
    destruct (set_area_cases L3 eq_refl) as [(L4 & E4 & Hv4 & Hc4 & _)|[E4|E4]]; rewrite E4; cbn [fst snd].
    - destruct (set_perimeter_cases L4 Hc4) as [(L5 & E5 & Hv5 & Hc5)|[E5|E5]]; rewrite E5; cbn [fst snd].
      + destruct (Hcommon L5 (Ok tt) Hc5 ltac:(congruence) ltac:(auto)) as (A & B & C & D & c1' & c2' & F1 & F2 & F3).
        split; [exact A|]. split; [exact B|]. split; [exact C|]. split; [exact D|]. exists c1', c2'. inversion F1; inversion F2; subst c1' c2'.
        split; [reflexivity|]. split; [exact Ec2 | exact F3].
      + destruct (Hcommon L4 (Err 36%N) Hc4 Hv4 ltac:(auto)) as (A & B & C & D & c1' & c2' & F1 & F2 & F3).
        split; [exact A|]. split; [exact B|]. split; [exact C|]. split; [exact D|]. exists c1', c2'. inversion F1; inversion F2; subst c1' c2'.
        split; [reflexivity|]. split; [exact Ec2 | exact F3].
      + destruct (Hcommon L4 (Err 33%N) Hc4 Hv4 ltac:(auto)) as (A & B & C & D & c1' & c2' & F1 & F2 & F3).
        split; [exact A|]. split; [exact B|]. split; [exact C|]. split; [exact D|]. exists c1', c2'. inversion F1; inversion F2; subst c1' c2'.
        split; [reflexivity|]. split; [exact Ec2 | exact F3].
    - destruct (Hcommon L3 (Err 36%N) eq_refl eq_refl ltac:(auto)) as (A & B & C & D & c1' & c2' & F1 & F2 & F3).
      split; [exact A|]. split; [exact B|]. split; [exact C|]. split; [exact D|]. exists c1', c2'. inversion F1; inversion F2; subst c1' c2'.
      split; [reflexivity|]. split; [exact Ec2 | exact F3].
    - destruct (Hcommon L3 (Err 33%N) eq_refl eq_refl ltac:(auto)) as (A & B & C & D & c1' & c2' & F1 & F2 & F3).
      split; [exact A|]. split; [exact B|]. split; [exact C|]. split; [exact D|]. exists c1', c2'. inversion F1; inversion F2; subst c1' c2'.
      split; [reflexivity|]. split; [exact Ec2 | exact F3].
  Qed.
End AnyNum.

Section Invariant.
  Context {K : Type} {NK : Num K}.
  Notation V := (V3 K).
  Local Open Scope num_scope.

  (** ** the invariant of reachable states *)
  Record Reach_inv (L : Loop K) : Prop := {
    (** a loop marked closed is not empty (NOT: has three vertices -- see C04_closed_has_three_refuted) *)
    ri_closed_nonempty : lclosed L = true -> 1 <= llen L;
    (** an open loop never had its area / perimeter set *)
    ri_open_measures : lclosed L = false -> larea L = - n1 /\ lperim L = - n1;
    (** the cached normal of an open loop with at least three vertices is the normal of its FIRST corner *)
    ri_open_normal : lclosed L = false -> 3 <= llen L -> lnormal L = tri_normal (verts L);
    (** consecutive stored vertices are distinct for [compare], except possibly in a two-vertex loop *)
    ri_adjacent : llen L <> 2 -> adj_distinct (verts L)
  }.

  Lemma reach_inv_new : Reach_inv (@loop_new K NK).
  Proof. split; cbn; intros; try lia; try discriminate; auto. Qed.

  Lemma is_collinear_false_distinct' (a b c : V) :
    is_collinear a b c = Ok false -> vcompare a b = false /\ vcompare a c = false /\ vcompare b c = false.
  Proof.
    unfold is_collinear. destruct (vcompare a b); destruct (vcompare a c); destruct (vcompare b c); cbn [andb orb]; try discriminate.
    intros _. repeat split.
  Qed.

  Lemma reach_inv_push (L L' : Loop K) (p : V) : Reach_inv L -> loop_push_pre L p = Ok L' -> Reach_inv L'.
  Proof.
    intros [I1 I2 I3 I4] H. destruct (push_ok_effect _ _ _ H) as (Hc & Hs & HL).
    assert (Hcl : lclosed L' = false) by (rewrite HL; reflexivity).
    assert (Har : larea L' = larea L /\ lperim L' = lperim L) by (rewrite HL; split; reflexivity).
    assert (Hno : lnormal L' = if Nat.eqb (llen L') 3 then tri_normal (verts L') else lnormal L).
    { apply (f_equal (@lnormal K)) in HL. exact HL. }
    split.
    - rewrite Hcl. discriminate.
    - intros _. destruct Har as (-> & ->). apply I2, Hc.
    - intros _ H3. rewrite Hno. destruct (Nat.eqb (llen L') 3) eqn:E3; [reflexivity|]. apply Nat.eqb_neq in E3.
      unfold llen in *.
      destruct Hs as [Hl E| r a b Er _ E| r a b Er _ _ E| r a b Er _ _ E]; rewrite E in *.
      + rewrite app_length in H3. cbn [length] in H3. lia.
      + rewrite length_removelast in H3, E3. rewrite tri_normal_removelast by lia. apply I3; [exact Hc | lia].
      + pose proof (rev_len3 _ _ _ _ Er) as Hlen. rewrite length_replace_last in H3, E3 by lia.
        rewrite tri_normal_replace_last by lia. apply I3; [exact Hc | lia].
      + rewrite app_length in H3, E3. cbn [length] in H3, E3. rewrite tri_normal_snoc by lia. apply I3; [exact Hc | lia].
    - intros Hn2. unfold adj_distinct, llen in *.
      destruct Hs as [Hl E| r a b Er Hcmp E| r a b Er Hcmp _ E| r a b Er _ Hcol E]; rewrite E in *.
      + rewrite app_length in Hn2. cbn [length] in Hn2. destruct (verts L) as [|x [|y t]]; cbn [length] in *; try lia. cbn. auto.
      + rewrite rev_removelast, Er. cbn [tl]. pose proof (rev_len3 _ _ _ _ Er) as Hlen.
        destruct r as [|z r]; [cbn; auto|]. assert (Hq : length (verts L) <> 2) by (cbn [length] in Hlen; lia).
        specialize (I4 Hq). rewrite Er in I4. exact (radj_tl _ _ I4).
      + rewrite rev_replace_last, Er. cbn [tl]. pose proof (rev_len3 _ _ _ _ Er) as Hlen. rewrite length_replace_last in Hn2 by lia.
        specialize (I4 Hn2). rewrite Er in I4. apply radj_tl in I4. cbn [radj] in *. split; [exact Hcmp | exact I4].
      + rewrite rev_snoc, Er. pose proof (rev_len3 _ _ _ _ Er) as Hlen.
        destruct (is_collinear_false_distinct' _ _ _ Hcol) as (Hab & _ & Hbp).
        destruct r as [|z r].
        * cbn. auto.
        * assert (Hq : length (verts L) <> 2) by (cbn [length] in Hlen; lia). specialize (I4 Hq). rewrite Er in I4.
          change (radj (p :: b :: a :: z :: r)) with (vcompare b p = false /\ radj (b :: a :: z :: r)). split; [exact Hbp | exact I4].
  Qed.

  Lemma adj_distinct_removelast (vs : list V) : adj_distinct vs -> adj_distinct (removelast vs).
  Proof. unfold adj_distinct. rewrite rev_removelast. destruct (rev vs); [trivial|]. apply radj_tl. Qed.
  Lemma adj_distinct_tl (vs : list V) : adj_distinct vs -> adj_distinct (tl vs).
  Proof. unfold adj_distinct. rewrite rev_tl. apply radj_removelast. Qed.

  Lemma reach_inv_close (L : Loop K) : Reach_inv L -> Reach_inv (fst (loop_close_pre L)).
  Proof.
    intros HI. pose proof HI as [I1 I2 I3 I4]. destruct (close_effect L) as [(-> & _)|[(H3 & _ & -> & _)|(H3 & Hop & Hcl & _ & c1 & c2 & _ & _ & Hv)]].
    - exact HI.
    - split; unfold llen in *; cbn [set_verts lclosed verts larea lperim lnormal].
      + intros Hc. rewrite length_removelast. lia.
      + exact I2.
      + intros Hc Hl. rewrite length_removelast in Hl. rewrite tri_normal_removelast by lia. apply I3; [exact Hc | lia].
      + intros _. apply adj_distinct_removelast, I4. lia.
    - assert (Hadj : adj_distinct (verts (fst (loop_close_pre L)))).
      { rewrite Hv. assert (A0 : adj_distinct (verts L)) by (apply I4; lia).
        assert (A1 : adj_distinct (if c1 then removelast (verts L) else verts L)) by (destruct c1; [apply adj_distinct_removelast|]; exact A0).
        destruct c2; [apply adj_distinct_tl|]; exact A1. }
      split.
      + intros _. unfold llen in *. rewrite Hv.
        assert (2 <= length (if c1 then removelast (verts L) else verts L)) by (destruct c1; [rewrite length_removelast|]; lia).
        destruct c2; [rewrite length_tl|]; lia.
      + rewrite Hcl. discriminate.
      + rewrite Hcl. discriminate.
      + intros _. exact Hadj.
  Qed.

  Lemma reach_inv_step (L : Loop K) (op : lop K) : Reach_inv L -> Reach_inv (fst (loop_step_pre L op)).
  Proof.
    intros HI. destruct op as [p|]; cbn [loop_step_pre]; [|apply reach_inv_close, HI].
    destruct (loop_push_pre L p) as [L'| |] eqn:E; cbn [fst]; [eapply reach_inv_push; eauto | exact HI ..].
  Qed.
  Theorem reach_inv_run (ops : list (lop K)) : forall L : Loop K, Reach_inv L -> Reach_inv (fst (loop_run_pre L ops)).
  Proof.
    induction ops as [|op ops IH]; intros L HI; cbn [loop_run_pre]; [exact HI|].
    pose proof (reach_inv_step L op HI) as H1. destruct (loop_step_pre L op) as [L1 o]. cbn [fst] in H1.
    specialize (IH L1 H1). destruct (loop_run_pre L1 ops) as [L2 os]. exact IH.
  Qed.
  Theorem reachable_invariant (ops : list (lop K)) : Reach_inv (fst (loop_run_pre (@loop_new K NK) ops)).
  Proof. apply reach_inv_run, reach_inv_new. Qed.

  (** the invariant on adjacent vertices, read by index *)
  Lemma radj_nth (vs : list V) : radj (rev vs) -> forall i, S i < length vs -> vcompare (vnth vs i) (vnth vs (S i)) = false.
  Proof.
    induction vs as [|c l IH] using rev_ind; [cbn; intros; lia|].
    rewrite rev_snoc. intros H i Hi. rewrite app_length in Hi. cbn [length] in Hi. unfold vnth in *.
    destruct (Nat.eq_dec (S i) (length l)) as [E|E].
    - destruct H as (H & _). clear IH. assert (Hne : l <> []) by (intros ->; cbn in E; lia).
      destruct (exists_last Hne) as (l' & x & ->). clear Hne. rename l' into l.
      rewrite rev_snoc in H. rewrite app_length in E. cbn [length] in E.
      rewrite app_nth1 by (rewrite app_length; cbn; lia). rewrite app_nth2 by lia. replace (i - length l)%nat with 0%nat by lia. cbn [nth].
      rewrite app_nth2 by (rewrite app_length; cbn; lia). rewrite app_length. cbn [length]. replace (S i - (length l + 1))%nat with 0%nat by lia. exact H.
    - rewrite !app_nth1 by lia. apply IH; [exact (radj_tl _ _ H) | lia].
  Qed.
  Corollary reachable_no_adjacent_duplicates (ops : list (lop K)) :
    let L := fst (loop_run_pre (@loop_new K NK) ops) in
    llen L <> 2 -> forall i, S i < llen L -> vcompare (vnth (verts L) i) (vnth (verts L) (S i)) = false.
  Proof. cbv zeta. intros H2 i Hi. apply radj_nth; [|exact Hi]. apply (ri_adjacent _ (reachable_invariant ops)), H2. Qed.

  (** ** closed states: every further operation is refused; nothing changes, except that a further [close] may pop
      the last vertex (when it tests collinear with its cyclic neighbours) before it fails *)
  Theorem closed_absorbing (L : Loop K) (op : lop K) : lclosed L = true ->
    let L' := fst (loop_step_pre L op) in
    snd (loop_step_pre L op) <> Ok tt /\ lclosed L' = true /\ lnormal L' = lnormal L /\ larea L' = larea L /\ lperim L' = lperim L /\
    (verts L' = verts L \/
     (op = LClose /\ 3 <= llen L /\ close_test1 L = Ok true /\ verts L' = removelast (verts L))).
  Proof.
    intros Hc. destruct op as [p|]; cbn [loop_step_pre].
    - rewrite (push_on_closed_refused_pre L p Hc). cbn [fst snd]. repeat split; try discriminate; auto.
    - destruct (close_effect L) as [(E & Ho)|[(H3 & Ht & E & Ho)|(_ & Hop & _)]].
      + cbv zeta. rewrite E. repeat split; auto.
      + cbv zeta. rewrite E. cbn [set_verts lclosed lnormal larea lperim verts]. repeat split; auto.
      + congruence.
  Qed.

  (** ** what a failed close may have changed (the property demands an unchanged state only for refused ADDITIONS) *)
  Theorem failed_close_effect (L : Loop K) : snd (loop_close_pre L) <> Ok tt ->
    let L' := fst (loop_close_pre L) in
    L' = L \/
    (3 <= llen L /\ close_test1 L = Ok true /\ L' = set_verts L (removelast (verts L))) \/
    (3 <= llen L /\ lclosed L = false /\ lclosed L' = true /\ (snd (loop_close_pre L) = Err 33%N \/ snd (loop_close_pre L) = Err 36%N)).
  Proof.
    intros Ho. cbv zeta. destruct (close_effect L) as [(E & _)|[(H3 & Ht & E & _)|(H3 & Hop & Hcl & Hout & _)]].
    - left. exact E.
    - right; left. auto.
    - right; right. repeat split; auto. destruct Hout as [E|[E|E]]; [contradiction | auto | auto].
  Qed.

  (** ** a successful close: which vertices it drops, exactly *)
  Theorem close_ok_effect (L : Loop K) : snd (loop_close_pre L) = Ok tt ->
    let L' := fst (loop_close_pre L) in
    lclosed L = false /\ lclosed L' = true /\ 3 <= llen L' /\
    exists c1 c2, close_test1 L = Ok c1 /\
      let vs1 := if c1 then removelast (verts L) else verts L in
      close_test2 vs1 = Ok c2 /\ verts L' = (if c2 then tl vs1 else vs1).
  Proof.
    intros Ho. cbv zeta. destruct (close_ok_invariants_pre L Ho) as (_ & Hl).
    destruct (close_effect L) as [(_ & E)|[(_ & _ & _ & E)|(H3 & Hop & Hcl & _ & Hex)]]; [contradiction | contradiction |].
    repeat split; auto.
  Qed.
  (** in particular: when close drops nothing, both wrap-around corners passed the library's collinearity test *)
  Corollary close_ok_nothing_dropped (L : Loop K) : snd (loop_close_pre L) = Ok tt -> verts (fst (loop_close_pre L)) = verts L ->
    is_collinear (vnth (verts L) (llen L - 2)) (vnth (verts L) (llen L - 1)) (vnth (verts L) 0) = Ok false /\
    is_collinear (vnth (verts L) (llen L - 1)) (vnth (verts L) 0) (vnth (verts L) 1) = Ok false.
  Proof.
    intros Ho Hv. destruct (close_ok_effect L Ho) as (_ & _ & H3 & c1 & c2 & E1 & E2 & E3). cbv zeta in *.
    rewrite Hv in E3. unfold llen in H3. rewrite Hv in H3.
    assert (c1 = false /\ c2 = false) as (-> & ->).
    { apply (f_equal (@length _)) in E3. destruct c1, c2; try rewrite length_tl in E3; try rewrite length_removelast in E3; try (split; reflexivity); lia. }
    split; [exact E1 | exact E2].
  Qed.
End Invariant.

(** * Part B (reals): interior corners stay genuine while every collinear replacement is exact *)
From Coq Require Import Nsatz.
Section RealTier.
  Local Open Scope R_scope.
  Notation VR := (V3 R).

  (** a genuine corner: the two edges at b are not parallel (in particular none of them is null) *)
  Definition genuine (a b c : VR) : Prop := vcross (vsub b a) (vsub c b) <> mkV3 0 0 0.
  Definition exactly_collinear (a b c : VR) : Prop := vcross (vsub b a) (vsub c b) = mkV3 0 0 0.

  Lemma is_collinear_false_genuine (a b c : VR) : is_collinear a b c = Ok false -> genuine a b c.
  Proof.
    unfold is_collinear. destruct (_ && _); [discriminate|]. destruct (_ || _); [discriminate|].
    intros H Hz. unfold genuine in Hz. injection H as H. cbv zeta in H.
    unfold vcross, vsub in Hz. cbn [vx vy vz] in Hz. rnum. injection Hz as Z1 Z2 Z3. rewrite Z1, Z2, Z3 in H.
    apply Rltb_false in H. replace (0 * 0 + 0 * 0 + 0 * 0) with 0 in H by ring. rewrite sqrt_0 in H. lra.
  Qed.
  Lemma vcompare_false_neq (a p : VR) : vcompare a p = false -> p <> a.
  Proof.
    intros H ->. unfold vcompare, c1em5 in H. rnum. rewrite !Rminus_diag_eq in H by reflexivity. rewrite Rabs_R0 in H.
    assert (E : Rltb 0 (1 / 100000) = true) by (apply Rltb_true; lra). rewrite E in H. discriminate.
  Qed.

  (** replacing the end c of a genuine corner (z, a, b) -> (z, a, p) with b, c := a, b exactly collinear with p keeps it genuine *)
  Lemma genuine_replace (z a b p : VR) : genuine z a b -> exactly_collinear a b p -> p <> a -> genuine z a p.
  Proof.
    destruct z as [zx zy zz], a as [ax ay az], b as [bx b_y bz], p as [px py pz].
    unfold genuine, exactly_collinear, vcross, vsub. cbn [vx vy vz]. rnum. intros Hg He Hne Hc. apply Hg.
    injection He as E1 E2 E3. injection Hc as C1 C2 C3.
    assert (Hs : px - ax <> 0 \/ py - ay <> 0 \/ pz - az <> 0).
    { destruct (Req_dec (px - ax) 0) as [X|X]; [|auto]. destruct (Req_dec (py - ay) 0) as [Y|Y]; [|auto].
      destruct (Req_dec (pz - az) 0) as [Z|Z]; [|auto]. exfalso. apply Hne. f_equal; lra. }
    assert (K1 : forall s, s <> 0 -> forall c, c * s = 0 -> c = 0) by (intros s Hs0 c Hcs; destruct (Rmult_integral _ _ Hcs); [assumption | contradiction]).
    destruct Hs as [S|[S|S]]; f_equal; apply (K1 _ S); nsatz.
  Qed.

  (** "every collinear replacement performed by this push is exact": the hypothesis under which corners are preserved *)
  Definition exact_push (L : Loop R) (p : VR) : Prop :=
    forall a b r, rev (verts L) = b :: a :: r -> vcompare a p = false -> is_collinear a b p = Ok true -> exactly_collinear a b p.
  Fixpoint exact_run (L : Loop R) (ops : list (lop R)) : Prop :=
    match ops with
    | [] => True
    | op :: tl => match op with LPush p => exact_push L p | LClose => True end /\ exact_run (fst (loop_step_pre L op)) tl
    end.

  Lemma corners_push (L L' : Loop R) (p : VR) : corners genuine (verts L) -> exact_push L p -> loop_push_pre L p = Ok L' ->
    corners genuine (verts L').
  Proof.
    unfold corners. intros HI Hex H. destruct (push_ok_effect _ _ _ H) as (_ & Hs & _).
    destruct Hs as [Hl E| r a b Er Hcmp E| r a b Er Hcmp Hcol E| r a b Er _ Hcol E]; rewrite E.
    - rewrite rev_snoc. destruct (verts L) as [|x [|y t]]; cbn [length] in Hl; try lia; cbn; auto.
    - rewrite rev_removelast. rewrite Er in *. exact (rwin3_tl _ _ _ HI).
    - rewrite rev_replace_last. rewrite Er in *. cbn [tl]. destruct r as [|z r]; [cbn; auto|].
      destruct HI as (Hg & HI). split; [|exact HI].
      apply (genuine_replace z a b p Hg); [exact (Hex a b (z :: r) Er Hcmp Hcol) | exact (vcompare_false_neq _ _ Hcmp)].
    - rewrite rev_snoc, Er. rewrite Er in HI. split; [exact (is_collinear_false_genuine _ _ _ Hcol) | exact HI].
  Qed.
  Lemma corners_close (L : Loop R) : (3 <= llen L)%nat -> corners genuine (verts L) -> corners genuine (verts (fst (loop_close_pre L))).
  Proof.
    unfold corners. intros _ HI. destruct (close_effect L) as [(-> & _)|[(_ & _ & -> & _)|(_ & _ & _ & _ & c1 & c2 & _ & _ & ->)]].
    - exact HI.
    - cbn [set_verts verts]. rewrite rev_removelast. destruct (rev (verts L)); [exact I|]. exact (rwin3_tl _ _ _ HI).
    - assert (H1 : rwin3 genuine (rev (if c1 then removelast (verts L) else verts L))).
      { destruct c1; [|exact HI]. rewrite rev_removelast. destruct (rev (verts L)); [exact I|]. exact (rwin3_tl _ _ _ HI). }
      destruct c2; [|exact H1]. rewrite rev_tl. apply rwin3_removelast, H1.
  Qed.
  Lemma corners_close' (L : Loop R) : corners genuine (verts L) -> corners genuine (verts (fst (loop_close_pre L))).
  Proof.
    intros HI. destruct (Nat.ltb (llen L) 3) eqn:E.
    - unfold loop_close_pre. rewrite E. exact HI.
    - apply corners_close; [apply Nat.ltb_ge; exact E | exact HI].
  Qed.
  Theorem corners_run (ops : list (lop R)) : forall L : Loop R, corners genuine (verts L) -> exact_run L ops ->
    corners genuine (verts (fst (loop_run_pre L ops))).
  Proof.
    induction ops as [|op ops IH]; intros L HI Hex; cbn [loop_run_pre]; [exact HI|]. destruct Hex as (Hop & Hex).
    assert (H1 : corners genuine (verts (fst (loop_step_pre L op)))).
    { destruct op as [p|]; cbn [loop_step_pre]; [|apply corners_close', HI].
      destruct (loop_push_pre L p) as [L'| |] eqn:E; cbn [fst]; [exact (corners_push _ _ _ HI Hop E) | exact HI ..]. }
    destruct (loop_step_pre L op) as [L1 o]. cbn [fst] in *. specialize (IH L1 H1 Hex). destruct (loop_run_pre L1 ops) as [L2 os]. exact IH.
  Qed.
  Theorem reachable_corners_genuine (ops : list (lop R)) : exact_run (@loop_new R NumR) ops ->
    corners genuine (verts (fst (loop_run_pre (@loop_new R NumR) ops))).
  Proof. apply corners_run. exact I. Qed.

  (** read by index *)
  Lemma rwin3_nth (P : VR -> VR -> VR -> Prop) (vs : list VR) : rwin3 P (rev vs) ->
    forall i, (S (S i) < length vs)%nat -> P (vnth vs i) (vnth vs (S i)) (vnth vs (S (S i))).
  Proof.
    induction vs as [|c l IH] using rev_ind; [cbn; intros; lia|].
    rewrite rev_snoc. intros H i Hi. rewrite app_length in Hi. cbn [length] in Hi. unfold vnth in *.
    destruct (Nat.eq_dec (S (S i)) (length l)) as [E|E].
    - destruct H as (H & _). clear IH. assert (Hne : l <> []) by (intros ->; cbn in E; lia).
      destruct (exists_last Hne) as (l1 & b & ->). clear Hne. rewrite app_length in E. cbn [length] in E.
      assert (Hne : l1 <> []) by (intros ->; cbn in E; lia).
      destruct (exists_last Hne) as (l2 & a & ->). clear Hne. rewrite app_length in E. cbn [length] in E.
      rewrite !rev_snoc in H.
      replace (List.nth i (((l2 ++ [a]) ++ [b]) ++ [c]) vzero) with a.
      2:{ rewrite app_nth1 by (rewrite !app_length; cbn; lia). rewrite app_nth1 by (rewrite !app_length; cbn; lia).
          rewrite app_nth2 by lia. replace (i - length l2)%nat with 0%nat by lia. reflexivity. }
      replace (List.nth (S i) (((l2 ++ [a]) ++ [b]) ++ [c]) vzero) with b.
      2:{ rewrite app_nth1 by (rewrite !app_length; cbn; lia). rewrite app_nth2 by (rewrite !app_length; cbn; lia).
          rewrite app_length. cbn [length]. replace (S i - (length l2 + 1))%nat with 0%nat by lia. reflexivity. }
      replace (List.nth (S (S i)) (((l2 ++ [a]) ++ [b]) ++ [c]) vzero) with c.
      2:{ rewrite app_nth2 by (rewrite !app_length; cbn; lia). rewrite !app_length. cbn [length].
          replace (S (S i) - (length l2 + 1 + 1))%nat with 0%nat by lia. reflexivity. }
      exact H.
    - rewrite !app_nth1 by lia. apply IH; [exact (rwin3_tl _ _ _ H) | lia].
  Qed.
  Corollary reachable_corners_genuine_nth (ops : list (lop R)) : exact_run (@loop_new R NumR) ops ->
    let L := fst (loop_run_pre (@loop_new R NumR) ops) in
    forall i, (S (S i) < llen L)%nat -> genuine (vnth (verts L) i) (vnth (verts L) (S i)) (vnth (verts L) (S (S i))).
  Proof. intros H. cbv zeta. apply rwin3_nth. exact (reachable_corners_genuine ops H). Qed.

  (** a closed loop none of whose vertices was dropped by [close]: ALL corners are genuine, the two wrap-around ones included *)
  Theorem closed_all_corners_genuine (ops : list (lop R)) :
    let L := fst (loop_run_pre (@loop_new R NumR) ops) in
    exact_run (@loop_new R NumR) ops -> snd (loop_close_pre L) = Ok tt -> verts (fst (loop_close_pre L)) = verts L ->
    let L' := fst (loop_close_pre L) in let n := llen L' in
    lclosed L' = true /\ (3 <= n)%nat /\
    (forall i, (S (S i) < n)%nat -> genuine (vnth (verts L') i) (vnth (verts L') (S i)) (vnth (verts L') (S (S i)))) /\
    genuine (vnth (verts L') (n - 2)) (vnth (verts L') (n - 1)) (vnth (verts L') 0) /\
    genuine (vnth (verts L') (n - 1)) (vnth (verts L') 0) (vnth (verts L') 1).
  Proof.
    cbv zeta. intros Hex Ho Hv. destruct (close_ok_invariants_pre _ Ho) as (Hc & H3).
    destruct (close_ok_nothing_dropped _ Ho Hv) as (T1 & T2). unfold llen in *. rewrite Hv in *.
    split; [exact Hc|]. split; [exact H3|]. split; [|split].
    - apply (reachable_corners_genuine_nth ops Hex).
    - exact (is_collinear_false_genuine _ _ _ T1).
    - exact (is_collinear_false_genuine _ _ _ T2).
  Qed.
End RealTier.
