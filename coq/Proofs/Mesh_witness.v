(** * Mesh_witness: concrete inputs (binary64, the executed instance) on which the faithful model -- and the
    crate, checked through the harness, see NOTES.md -- violates a property.  Each is evaluated by vm_compute. *)
From Coq Require Import ZArith Bool List Arith Floats.
From G3 Require Import Model.Num Model.NumF Model.Base Model.Vec Model.Segment Model.Triangle Model.Loop Model.Polygon Model.Triangulation Model.PinnedMesh.
Import ListNotations.
Local Open Scope float_scope.
Set Warnings "-inexact-float".

(** building a polygon through the model of the public API: push every point, close, Polygon3D::new, cut_hole *)
Section Build.
  Context {K : Type} {NK : Num K}.
  Fixpoint push_pts (L : Loop K) (pts : list (V3 K)) : res (Loop K) :=
    match pts with
    | [] => Ok L
    | p :: tl => do L' <- loop_push L p; push_pts L' tl
    end.
  Definition build_loop (pts : list (V3 K)) : res (Loop K) :=
    do L <- push_pts loop_new pts;
    let '(L', r) := loop_close L in do _ <- r; Ok L'.
  Fixpoint cut_holes (P : Poly K) (hs : list (list (V3 K))) : res (Poly K) :=
    match hs with
    | [] => Ok P
    | h :: tl => do hl <- build_loop h; do P' <- poly_cut_hole P hl; cut_holes P' tl
    end.
  Definition build_poly (outer : list (V3 K)) (holes : list (list (V3 K))) : res (Poly K) :=
    do o <- build_loop outer; do P <- poly_new o; cut_holes P holes.
End Build.

Definition p2 (x y : float) : V3 float := mkV3 x y 0.
Definition unit_square : list (V3 float) := [p2 0 0; p2 1 0; p2 1 1; p2 0 1].
Definition dummy_poly : Poly float := mkPoly loop_new [] 0 (mkV3 0 0 0).
Definition get {A} (d : A) (r : res A) : A := match r with Ok a => a | _ => d end.

(** W1: unit square with a triangular hole.  Before fix 4bb2ed8 (ear test = "interior chord" only) the ear clipped at the
    bridge vertex was REVERSED (it covered the hole).  from_polygon now clips only convex, empty corners: 7 = |L| - 2
    triangles, none reversed, areas summing to the polygon's net area. *)
Definition w1_poly : Poly float := get dummy_poly (build_poly unit_square [[p2 0.3 0.3; p2 0.45 0.6; p2 0.6 0.3]]).
Definition reversed_wrt (n : V3 float) (t : TriPiece float) : bool := vdot (tnormal (tp_tri t)) n <? 0.
Lemma w1_now_positive :
  exists M, from_polygon w1_poly = Ok M /\ existsb (reversed_wrt (pnormal w1_poly)) (tris M) = false /\ length (tris M) = 7%nat /\
            length (pinner w1_poly) = 1%nat.
Proof. eexists. split; [vm_compute; reflexivity|]. repeat split; vm_compute; reflexivity. Qed.

(** W2: an 8-vertex rectilinear outline.  With the pinned ear test the periodic sanitize met a vertex that had become
    collinear and dropped it, so only 5 = |L| - 3 triangles were produced (a T-junction); with the ear test of fix
    4bb2ed8 the clipping order differs and the run yields the 6 = |L| - 2 triangles.  (That sanitize CAN drop a
    vertex is unchanged: the exact count is a theorem only for sanitize-stable runs, Properties/C01_tiling.v.) *)
Definition w2_poly : Poly float :=
  get dummy_poly (build_poly [p2 2 5; p2 2 3; p2 5 3; p2 5 0; p2 0 0; p2 0 7; p2 1 7; p2 1 5] []).
Lemma w2_triangle_count :
  exists M Lm, from_polygon w2_poly = Ok M /\ poly_get_closed_loop w2_poly = Ok Lm /\ snd (loop_close Lm) = Ok tt /\
    llen (fst (loop_close Lm)) = 8%nat /\ length (tris M) = 6%nat.
Proof. eexists. eexists. split; [vm_compute; reflexivity|]. split; [vm_compute; reflexivity|]. repeat split; vm_compute; reflexivity. Qed.

(** W3: mesh_polygon on a plain triangle.  Before fix 361bbb9 it panicked ("... don't share a segment", site 64):
    refine swallowed the Err of a half-updated add_point and carried on with a corrupted mesh.  The steps now
    refuse before they mutate, and the call succeeds. *)
Definition w3_poly : Poly float := get dummy_poly (build_poly [p2 0 0; p2 1 0; p2 0.3 0.8] []).
Lemma w3_mesh_polygon_now_ok : exists M, mesh_polygon 4000 w3_poly (0.4 / 50) 3 = Ok (M, RDone) /\ forallb tp_valid (tris M) = true.
Proof. eexists. split; vm_compute; reflexivity. Qed.

(** W4: split_edge AS IT WAS BEFORE FIX 361bbb9 at a point 1e-7 from an end of the edge: Err after the base triangle
    has been invalidated; the live split_edge refuses with the mesh untouched *)
Definition w4_poly : Poly float := get dummy_poly (build_poly unit_square []).
Lemma w4_split_edge_half_update :
  exists M M', from_polygon w4_poly = Ok M /\ forallb tp_valid (tris M) = true /\
    split_edge_pinned 0 Ab (p2 1e-7 0) M = (M', Err 10%N) /\ forallb tp_valid (tris M') = false /\ nvalid M' = 1%nat /\ length (tris M') = 2%nat.
Proof. eexists. eexists. split; [vm_compute; reflexivity|]. split; [vm_compute; reflexivity|]. split; [vm_compute; reflexivity|]. repeat split; vm_compute; reflexivity. Qed.
Lemma w4_split_edge_now_atomic :
  exists M, from_polygon w4_poly = Ok M /\ split_edge 0 Ab (p2 1e-7 0) M = (M, Err 10%N).
Proof. eexists. split; vm_compute; reflexivity. Qed.

(** W5: unit square with a pentagonal hole (well conditioned).  Before fix df28df6 (Loop3D::push duplicated the
    last-but-one vertex when the outline went straight back to it, the normal of (a, b, b) became NaN) from_polygon
    returned Err "non-coplanar" (class 31) here; after that fix alone it returned Ok with 5 triangles instead of
    |L| - 2 = 9 (the first ear (0,0) (1,0) (1,1), clipped at the wrong occurrence of the bridge vertex (1,1), swallowed
    the hole).  With the ear test of fix 4bb2ed8 it returns the 9 triangles. *)
Definition w5_poly : Poly float :=
  get dummy_poly (build_poly unit_square [[p2 0.754 0.584; p2 0.637 0.577; p2 0.607 0.464; p2 0.706 0.4; p2 0.797 0.475]]).
Lemma w5_from_polygon_ok : exists M, from_polygon w5_poly = Ok M /\ length (tris M) = 9%nat /\ length (pinner w5_poly) = 1%nat.
Proof. eexists. split; [vm_compute; reflexivity|]. split; vm_compute; reflexivity. Qed.

(** non-vacuity: the unit square is triangulated, and refined *)
Lemma w_square_ok : exists M, from_polygon w4_poly = Ok M /\ length (tris M) = 2%nat /\ nvalid M = 2%nat.
Proof. eexists. split; [vm_compute; reflexivity|]. split; vm_compute; reflexivity. Qed.
Lemma w_square_refined : exists M, mesh_polygon 100 w4_poly 0.1 1.5 = Ok (M, RDone) /\ Nat.leb 10 (length (tris M)) = true.
Proof. eexists. split; [vm_compute; reflexivity|]. vm_compute; reflexivity. Qed.
