(** * C14, float tier (Thm 3, partial): completeness of [intersect] at the level of the COMPUTED
    plane parameters, for every Flocq binary format.

    What is proved: if the six computed products [(face - origin) * inv_dir] and their widened values
    are finite, the computed parameter intervals [lo_a, hi_a] of the three slabs share a parameter
    [t > 0] (no margin; [lo_a = hi_a] allowed: a flat slab computes both ends by the same operations,
    so they are bit-equal), and every far end is strictly increased by the widening (true of every
    positive normal number, lemma [widen_strict]), then the answer is [true].
    What is missing for the full Thm 3: the three roundings between the exact parameters
    [(face - o)/d] and the computed ones ([1/d], the subtraction, the product), i.e. deriving the
    hypothesis on computed parameters from a margin [t_exit_j >= t_enter_i (1 + 8u)] on exact ones. *)
From Coq Require Import ZArith Reals Bool Lra Lia Psatz.
From Coq Require Import Floats.SpecFloat.
From Flocq Require Import Core BinarySingleNaN.
From G3 Require Import Model.Num Model.Base Model.Vec Model.BBox Theory.RInst Proofs.C14_real.

(** ** the core with an abstract widening function *)
Section CoreW.
  Context {K : Type} {NK : Num K}.
  Variable wf : K -> K.
  Local Open Scope num_scope.
  Definition slab_core_w (x1 x2 y1 y2 z1 z2 : K) : bool * N :=
    let '(tx_min, tx_max) := if x1 >? x2 then (x2, x1) else (x1, x2) in
    if tx_max <? n0 then (false, 1%N) else
    let '(ty_min, ty_max) := if y1 >? y2 then (y2, y1) else (y1, y2) in
    if ty_max <? n0 then (false, 2%N) else
    let tx_max := wf tx_max in
    let ty_max := wf ty_max in
    if (tx_min >? ty_max) || (ty_min >? tx_max) then (false, 3%N) else
    let tx_min := if ty_min >? tx_min then ty_min else tx_min in
    let tx_max := if ty_max <? tx_max then ty_max else tx_max in
    let '(tz_min, tz_max) := if z1 >? z2 then (z2, z1) else (z1, z2) in
    if tz_max <? n0 then (false, 4%N) else
    let tz_max := wf tz_max in
    if (tx_min >? tz_max) || (tz_min >? tx_max) then (false, 5%N) else
    let tx_min := if tz_min >? tx_min then tz_min else tx_min in
    let tx_max := if tz_max <? tx_max then tz_max else tx_max in
    if (tx_max >? tx_min) && (tx_max >? n0) then (true, 7%N) else (false, 6%N).
End CoreW.
Lemma slab_core_is_w {K} {NK : Num K} (x1 x2 y1 y2 z1 z2 : K) :
  slab_core x1 x2 y1 y2 z1 z2 = slab_core_w (fun t => (t * widen)%num) x1 x2 y1 y2 z1 z2.
Proof. reflexivity. Qed.

Local Open Scope R_scope.

Ltac split_cmp :=
  match goal with
  | |- context [Rltb ?a ?b] =>
    lazymatch a with context [Rltb _ _] => fail | _ => idtac end;
    lazymatch b with context [Rltb _ _] => fail | _ => idtac end;
    let H := fresh "C" in rcase a b H; cbv beta iota zeta; cbn [orb andb fst snd]
  end.

(** real instance, any widening function that does not decrease non-negative far ends and keeps 0 at most 0 *)
Lemma core_w_true (wf : R -> R) (x1 x2 y1 y2 z1 z2 : R) :
  let ax := Rmin x1 x2 in let bx := Rmax x1 x2 in let ay := Rmin y1 y2 in let by_ := Rmax y1 y2 in
  let az := Rmin z1 z2 in let bz := Rmax z1 z2 in
  (0 <= bx -> bx <= wf bx) -> (0 <= by_ -> by_ <= wf by_) -> (0 <= bz -> bz <= wf bz) ->
  ((ax < wf bx /\ ax < wf by_ /\ ax < wf bz) /\ (ay < wf bx /\ ay < wf by_ /\ ay < wf bz) /\
   (az < wf bx /\ az < wf by_ /\ az < wf bz)) -> 0 < bx -> 0 < by_ -> 0 < bz ->
  fst (@slab_core_w R _ wf x1 x2 y1 y2 z1 z2) = true.
Proof.
  intros ax bx ay by_ az bz PX PY PZ.
  unfold slab_core_w. rnum.
  assert (SX : (if Rltb x2 x1 then (x2, x1) else (x1, x2)) = (ax, bx)).
  { unfold ax, bx, Rmin, Rmax. rcase x2 x1 H; destruct (Rle_dec x1 x2); try reflexivity; try lra. }
  assert (SY : (if Rltb y2 y1 then (y2, y1) else (y1, y2)) = (ay, by_)).
  { unfold ay, by_, Rmin, Rmax. rcase y2 y1 H; destruct (Rle_dec y1 y2); try reflexivity; try lra. }
  assert (SZ : (if Rltb z2 z1 then (z2, z1) else (z1, z2)) = (az, bz)).
  { unfold az, bz, Rmin, Rmax. rcase z2 z1 H; destruct (Rle_dec z1 z2); try reflexivity; try lra. }
  rewrite SX, SY, SZ. clearbody ax bx ay by_ az bz. clear SX SY SZ.
  set (Bx := wf bx) in *. set (By := wf by_) in *. set (Bz := wf bz) in *. clearbody Bx By Bz.
  intros ((X1 & X2 & X3) & (Y1 & Y2 & Y3) & (Z1 & Z2 & Z3)) Px Py Pz.
  specialize (PX (Rlt_le _ _ Px)). specialize (PY (Rlt_le _ _ Py)). specialize (PZ (Rlt_le _ _ Pz)).
  repeat split_cmp; try reflexivity; exfalso; lra.
Qed.

(** ** from floats to reals: on finite values the float core is the real core *)
Section Transfer.
  Variable prec emax : Z.
  Context (Hprec : FLX.Prec_gt_0 prec) (Hmax : Prec_lt_emax prec emax).
  Notation bf := (binary_float prec emax).
  Notation emin := (3 - emax - prec)%Z.
  Notation fexp := (FLT_exp emin prec).
  Local Instance NB : Num bf := NumB prec emax Hprec Hmax.
  Notation fin x := (is_finite x = true).
  Definition RN (r : R) : R := round radix2 fexp ZnearestE r.
  Definition wB : bf := @widen bf NB.
  (** the widening as executed, and its real reading *)
  Definition wfB (t : bf) : bf := Bmult mode_NE t wB.
  Definition wfR (r : R) : R := RN (r * B2R wB).

  Lemma ltb_R (x y : bf) : fin x -> fin y -> Bltb x y = Rltb (B2R x) (B2R y).
  Proof.
    intros Fx Fy. rewrite Bltb_correct by assumption. unfold Rltb.
    destruct (Rlt_bool_spec (B2R x) (B2R y)), (Rlt_dec (B2R x) (B2R y)); try reflexivity; lra.
  Qed.
  Lemma wf_R (x : bf) : fin (wfB x) -> B2R (wfB x) = wfR (B2R x).
  Proof.
    intros F. unfold wfB in *. generalize (Bmult_correct prec emax Hprec Hmax mode_NE x wB).
    destruct (Rlt_bool _ _).
    - intros (E & _). exact E.
    - intros E. unfold binary_overflow, overflow_to_inf in E. exfalso.
      destruct (Bmult mode_NE x wB); try discriminate.
  Qed.
  Lemma n0_R : B2R (@n0 bf NB) = 0 /\ fin (@n0 bf NB).
  Proof. split; reflexivity. Qed.

  Ltac fin_tac := first [assumption | exact (proj2 n0_R)].
  Ltac step :=
    match goal with
    | |- context [Bltb ?a ?b] =>
      lazymatch a with context [Bltb _ _] => fail | _ => idtac end;
      lazymatch b with context [Bltb _ _] => fail | _ => idtac end;
      rewrite (ltb_R a b) by fin_tac;
      rewrite ?wf_R by assumption; rewrite ?(proj1 n0_R);
      match goal with |- context [Rltb ?u ?v] =>
        lazymatch u with context [Rltb _ _] => fail | _ => idtac end;
        lazymatch v with context [Rltb _ _] => fail | _ => idtac end;
        destruct (Rltb u v); cbv beta iota zeta; cbn [orb andb fst snd] end
    end.

  Lemma core_transfer (x1 x2 y1 y2 z1 z2 : bf) :
    fin x1 -> fin x2 -> fin y1 -> fin y2 -> fin z1 -> fin z2 ->
    fin (wfB x1) -> fin (wfB x2) -> fin (wfB y1) -> fin (wfB y2) -> fin (wfB z1) -> fin (wfB z2) ->
    fst (slab_core x1 x2 y1 y2 z1 z2) = fst (@slab_core_w R _ wfR (B2R x1) (B2R x2) (B2R y1) (B2R y2) (B2R z1) (B2R z2)).
  Proof.
    intros F1 F2 F3 F4 F5 F6 G1 G2 G3 G4 G5 G6.
    rewrite slab_core_is_w. change (fun t : bf => (t * widen)%num) with wfB. unfold slab_core_w.
    cbn [nltb NB NumB]. cbn [nltb NumR]. change (@n0 R NumR) with 0. cbv beta.
    repeat step; reflexivity.
  Qed.

  (** the widening strictly increases every positive normal number, provided the constant is at least
      one ulp above 1 (binary64: 1 + 3 * 2^-52, binary32: 1 + 3 * 2^-23) *)
  Definition widen_big : Prop := 1 + bpow radix2 (1 - prec) <= B2R wB.
  Lemma widen_strict (b : R) : widen_big -> generic_format radix2 fexp b -> bpow radix2 (emin + prec - 1) <= b -> b < wfR b.
  Proof.
    intros W Fb Nb.
    assert (Pb : 0 < b) by (apply Rlt_le_trans with (2 := Nb); apply bpow_gt_0).
    assert (Hu : ulp radix2 fexp b <= b * bpow radix2 (1 - prec)).
    { rewrite <- (Rabs_pos_eq b) at 2 by lra. apply ulp_FLT_le. rewrite Rabs_pos_eq by lra. exact Nb. }
    assert (Hs : succ radix2 fexp b <= b * B2R wB).
    { rewrite succ_eq_pos by lra. unfold widen_big in W. nra. }
    apply Rlt_le_trans with (succ radix2 fexp b).
    - apply succ_gt_id. lra.
    - unfold wfR, RN. rewrite <- (round_generic radix2 fexp ZnearestE (succ radix2 fexp b)).
      + apply round_le; auto with typeclass_instances.
      + apply generic_format_succ; auto with typeclass_instances.
  Qed.

  (** Thm 3 (partial): completeness on the computed parameters *)
  Theorem param_complete (x1 x2 y1 y2 z1 z2 : bf) :
    fin x1 -> fin x2 -> fin y1 -> fin y2 -> fin z1 -> fin z2 ->
    fin (wfB x1) -> fin (wfB x2) -> fin (wfB y1) -> fin (wfB y2) -> fin (wfB z1) -> fin (wfB z2) ->
    let ax := Rmin (B2R x1) (B2R x2) in let bx := Rmax (B2R x1) (B2R x2) in
    let ay := Rmin (B2R y1) (B2R y2) in let by_ := Rmax (B2R y1) (B2R y2) in
    let az := Rmin (B2R z1) (B2R z2) in let bz := Rmax (B2R z1) (B2R z2) in
    (exists t, 0 < t /\ ax <= t <= bx /\ ay <= t <= by_ /\ az <= t <= bz) ->
    bx < wfR bx -> by_ < wfR by_ -> bz < wfR bz ->
    fst (slab_core x1 x2 y1 y2 z1 z2) = true.
  Proof.
    intros F1 F2 F3 F4 F5 F6 G1 G2 G3 G4 G5 G6 ax bx ay by_ az bz (t & Pt & Hx & Hy & Hz) Sx Sy Sz.
    rewrite core_transfer by assumption. apply core_w_true; fold ax bx ay by_ az bz; try lra; repeat split; lra.
  Qed.

  (** the same for normal far ends, the strictness being a lemma *)
  Corollary param_complete_normal (x1 x2 y1 y2 z1 z2 : bf) :
    widen_big ->
    fin x1 -> fin x2 -> fin y1 -> fin y2 -> fin z1 -> fin z2 ->
    fin (wfB x1) -> fin (wfB x2) -> fin (wfB y1) -> fin (wfB y2) -> fin (wfB z1) -> fin (wfB z2) ->
    let ax := Rmin (B2R x1) (B2R x2) in let bx := Rmax (B2R x1) (B2R x2) in
    let ay := Rmin (B2R y1) (B2R y2) in let by_ := Rmax (B2R y1) (B2R y2) in
    let az := Rmin (B2R z1) (B2R z2) in let bz := Rmax (B2R z1) (B2R z2) in
    (exists t, 0 < t /\ ax <= t <= bx /\ ay <= t <= by_ /\ az <= t <= bz) ->
    bpow radix2 (emin + prec - 1) <= bx -> bpow radix2 (emin + prec - 1) <= by_ -> bpow radix2 (emin + prec - 1) <= bz ->
    fst (slab_core x1 x2 y1 y2 z1 z2) = true.
  Proof.
    intros W F1 F2 F3 F4 F5 F6 G1 G2 G3 G4 G5 G6 ax bx ay by_ az bz Ht Nx Ny Nz.
    assert (Fmax : forall u v : bf, generic_format radix2 fexp (Rmax (B2R u) (B2R v))).
    { intros u v. unfold Rmax. destruct (Rle_dec (B2R u) (B2R v)); apply generic_format_B2R. }
    apply param_complete; try assumption; apply widen_strict; try assumption; apply Fmax.
  Qed.

  (** on boxes and rays: [raw face o i = (face - o) * i] are the six computed parameters *)
  Corollary intersect_complete_on_computed_parameters (b : BBox bf) (r : Ray bf) (i : V3 bf) :
    widen_big ->
    let o := rorigin r in
    let x1 := raw (vx (bmin b)) (vx o) (vx i) in let x2 := raw (vx (bmax b)) (vx o) (vx i) in
    let y1 := raw (vy (bmin b)) (vy o) (vy i) in let y2 := raw (vy (bmax b)) (vy o) (vy i) in
    let z1 := raw (vz (bmin b)) (vz o) (vz i) in let z2 := raw (vz (bmax b)) (vz o) (vz i) in
    fin x1 -> fin x2 -> fin y1 -> fin y2 -> fin z1 -> fin z2 ->
    fin (wfB x1) -> fin (wfB x2) -> fin (wfB y1) -> fin (wfB y2) -> fin (wfB z1) -> fin (wfB z2) ->
    (exists t, 0 < t /\ Rmin (B2R x1) (B2R x2) <= t <= Rmax (B2R x1) (B2R x2) /\
                        Rmin (B2R y1) (B2R y2) <= t <= Rmax (B2R y1) (B2R y2) /\
                        Rmin (B2R z1) (B2R z2) <= t <= Rmax (B2R z1) (B2R z2)) ->
    bpow radix2 (emin + prec - 1) <= Rmax (B2R x1) (B2R x2) ->
    bpow radix2 (emin + prec - 1) <= Rmax (B2R y1) (B2R y2) ->
    bpow radix2 (emin + prec - 1) <= Rmax (B2R z1) (B2R z2) ->
    bbox_intersect b r i = true.
  Proof.
    intros W o x1 x2 y1 y2 z1 z2. unfold bbox_intersect. rewrite intersect_is_core. fold o x1 x2 y1 y2 z1 z2.
    apply param_complete_normal. exact W.
  Qed.

  (** a slab of zero thickness computes both parameters by the same operations: bit-equal, so the
      hypothesis [lo <= t <= hi] needs no margin on that axis *)
  Lemma flat_slab_bit_equal (lo hi o i : bf) : lo = hi -> raw lo o i = raw hi o i.
  Proof. intros ->. reflexivity. Qed.
End Transfer.

(** binary64 and binary32 have a widening constant at least one ulp above 1 *)
Lemma widen_big_64 : widen_big 53 1024 Hprec53 Hmax1024.
Proof.
  unfold widen_big.
  assert (E : B2SF (wB 53 1024 Hprec53 Hmax1024) = S754_finite false 4503599627370499 (-52)) by (vm_compute; reflexivity).
  destruct (wB 53 1024 Hprec53 Hmax1024) as [s|s| |s m e H]; try discriminate. simpl in E. inversion E; subst.
  unfold B2R, F2R. simpl. lra.
Qed.
Lemma widen_big_32 : widen_big 24 128 Hprec24 Hmax128.
Proof.
  unfold widen_big.
  assert (E : B2SF (wB 24 128 Hprec24 Hmax128) = S754_finite false 8388611 (-23)) by (vm_compute; reflexivity).
  destruct (wB 24 128 Hprec24 Hmax128) as [s|s| |s m e H]; try discriminate. simpl in E. inversion E; subst.
  unfold B2R, F2R. simpl. lra.
Qed.
