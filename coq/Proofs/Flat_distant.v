(** * Flat_distant: the distant source (a cone of directions), exact tier. *)
From Coq Require Import ZArith Reals Lra Bool List Psatz Nsatz.
From G3 Require Import Model.Num Model.Base Model.Vec Model.BBox Model.Transform Model.Hit Model.Plane Model.Disk Model.Distant
  Theory.RInst Proofs.C06_transform Proofs.Flat_base Proofs.Flat_polar Proofs.Flat_triangle Proofs.Flat_disk.
Local Open Scope R_scope.

Lemma nmaxf_pos : 0 < @nmaxf R _.
Proof. rnum. apply IZR_lt. reflexivity. Qed.

(** ** C02 / C03: reported <=> the angle condition, exactly as the code implements it *)
Lemma distant_simple_local_iff (s : Distant R) (ray : Ray R) (p : V) :
  distant_simple_intersect_local_ray s ray = Some p <->
  ds_cos_half_alpha s <= vdot (vnormalize (rdir ray)) (ds_direction s) /\ p = ray_project ray nmaxf.
Proof.
  unfold distant_simple_intersect_local_ray, distant_simple_intersect_local_ray_tag. rnum.
  destruct (Rleb (ds_cos_half_alpha s) (vdot (vnormalize (rdir ray)) (ds_direction s))) eqn:B;
    [apply Rleb_true in B | apply Rleb_false in B]; cbn [fst]; split.
  - intros H. injection H as <-. split; [assumption | reflexivity].
  - intros [_ ->]. reflexivity.
  - discriminate.
  - intros [H _]. lra.
Qed.
Lemma distant_simple_local_none (s : Distant R) (ray : Ray R) :
  distant_simple_intersect_local_ray s ray = None <-> vdot (vnormalize (rdir ray)) (ds_direction s) < ds_cos_half_alpha s.
Proof.
  unfold distant_simple_intersect_local_ray, distant_simple_intersect_local_ray_tag. rnum.
  destruct (Rleb (ds_cos_half_alpha s) (vdot (vnormalize (rdir ray)) (ds_direction s))) eqn:B;
    [apply Rleb_true in B | apply Rleb_false in B]; cbn [fst]; split; try discriminate; try reflexivity; intros; try assumption; lra.
Qed.

(** the quantity compared is the cosine of the angle between the ray and the source direction *)
Lemma vnormalize_both_dot (a b : V) : vdot (vnormalize a) (vnormalize b) = vdot a b / (vlen a * vlen b).
Proof.
  destruct a as [ax ay az], b as [bx b_y bz]. unfold vnormalize, vdot. cbn [vx vy vz]. rnum.
  set (la := vlen _). set (lb := vlen _).
  destruct (Req_dec la 0) as [Ea|Ea]; [|destruct (Req_dec lb 0) as [Eb|Eb]].
  - rewrite Ea. unfold Rdiv. rewrite Rmult_0_l, !Rinv_0. ring.
  - rewrite Eb. unfold Rdiv. rewrite Rmult_0_r, !Rinv_0. ring.
  - field. split; assumption.
Qed.
Lemma distant_new_cone (direction : V) (angle : R) (ray : Ray R) :
  let s := distant_new direction angle in
  (exists p, distant_simple_intersect_local_ray s ray = Some p) <->
  cos (angle / 2) <= vdot (rdir ray) direction / (vlen (rdir ray) * vlen direction).
Proof.
  intros s. subst s. split.
  - intros [p H]. apply distant_simple_local_iff in H. destruct H as [H _].
    unfold distant_new in H. cbn [ds_cos_half_alpha ds_direction] in H. rewrite vnormalize_both_dot in H. rnum. exact H.
  - intros H. exists (ray_project ray nmaxf). apply distant_simple_local_iff. split; [|reflexivity].
    unfold distant_new. cbn [ds_cos_half_alpha ds_direction]. rewrite vnormalize_both_dot. rnum. exact H.
Qed.

(** [simple_intersect]: through Transform::new().inv_transform_ray -- same direction, so the same condition;
    the reported point is on the world ray, at the parameter MAX + nudge *)
Lemma distant_simple_spec (s : Distant R) (ray : Ray R) (p : V) :
  distant_simple_intersect s ray = Some p ->
  ds_cos_half_alpha s <= vdot (vnormalize (rdir ray)) (ds_direction s) /\ exists t, nmaxf <= t /\ p = ray_project ray t.
Proof.
  unfold distant_simple_intersect. pose proof (id_ray_spec ray) as (D & dt & P & O & Pr).
  set (r' := fst (fst (tr_inv_ray tr_new ray))) in *. intros H. apply distant_simple_local_iff in H. destruct H as [H ->].
  rewrite D in H. split; [assumption|]. exists (dt + nmaxf). split; [lra | apply Pr].
Qed.
Lemma distant_simple_some_iff (s : Distant R) (ray : Ray R) :
  (exists p, distant_simple_intersect s ray = Some p) <-> ds_cos_half_alpha s <= vdot (vnormalize (rdir ray)) (ds_direction s).
Proof.
  unfold distant_simple_intersect. pose proof (id_ray_spec ray) as (D & _).
  set (r' := fst (fst (tr_inv_ray tr_new ray))) in *. split.
  - intros [p H]. apply distant_simple_local_iff in H. rewrite D in H. tauto.
  - intros H. exists (ray_project r' nmaxf). apply distant_simple_local_iff. rewrite D. auto.
Qed.

(** ** C13: hit data = that of a proxy disk perpendicular to the source direction *)
Lemma get_perpendicular_spec (a pz : V) : vget_perpendicular a = Ok pz -> vlen2 pz = 1 /\ vdot a pz = 0.
Proof.
  pose proof ctiny_pos as Hc. destruct a as [x y z]. unfold vget_perpendicular. cbn [vx vy vz]. rnum.
  assert (Hq : forall p q, p <> 0 -> 0 < sqrt (p * p + q * q) /\ sqrt (p * p + q * q) * sqrt (p * p + q * q) = p * p + q * q).
  { intros p q Hp. split; [apply sqrt_lt_R0; nra | apply sqrt_sqrt; nra]. }
  destruct (Rltb ctiny (Rabs x)) eqn:B1; [apply Rltb_true in B1 | apply Rltb_false in B1].
  { assert (Hx : x <> 0) by (intros E; rewrite E, Rabs_R0 in B1; lra). destruct (Hq x y Hx) as (Q1 & Q2). set (q := sqrt (x * x + y * y)) in *.
    intros H. injection H as <-. vunf. split.
    - replace (- y * (x / q) / x * (- y * (x / q) / x) + x / q * (x / q) + 0 * 0) with ((x * x + y * y) / (q * q)) by (field; lra).
      rewrite Q2. field. nra.
    - field. lra. }
  destruct (Rltb ctiny (Rabs y)) eqn:B2; [apply Rltb_true in B2 | apply Rltb_false in B2].
  { assert (Hy : y <> 0) by (intros E; rewrite E, Rabs_R0 in B2; lra). destruct (Hq y x Hy) as (Q1 & Q2).
    replace (y * y + x * x) with (x * x + y * y) in * by ring. set (q := sqrt (x * x + y * y)) in *.
    intros H. injection H as <-. vunf. split.
    - replace (y / q * (y / q) + - x * (y / q) / y * (- x * (y / q) / y) + 0 * 0) with ((x * x + y * y) / (q * q)) by (field; lra).
      rewrite Q2. field. nra.
    - field. lra. }
  destruct (Rltb ctiny (Rabs z)) eqn:B3; [apply Rltb_true in B3 | discriminate].
  { assert (Hz : z <> 0) by (intros E; rewrite E, Rabs_R0 in B3; lra). destruct (Hq z x Hz) as (Q1 & Q2). set (q := sqrt (z * z + x * x)) in *.
    intros H. injection H as <-. vunf. split.
    - replace (z / q * (z / q) + 0 * 0 + - x * (z / q) / z * (- x * (z / q) / z)) with ((z * z + x * x) / (q * q)) by (field; lra).
      rewrite Q2. field. nra.
    - field. lra. }
Qed.
Lemma get_perpendicular_unit_ok (a : V) : vlen2 a = 1 -> exists pz, vget_perpendicular a = Ok pz.
Proof.
  intros H. pose proof ctiny_small as Hs. pose proof ctiny_pos as Hc. destruct a as [x y z]. unfold vget_perpendicular. cbn [vx vy vz]. rnum.
  destruct (Rltb ctiny (Rabs x)) eqn:B1; [eexists; reflexivity | apply Rltb_false in B1].
  destruct (Rltb ctiny (Rabs y)) eqn:B2; [eexists; reflexivity | apply Rltb_false in B2].
  destruct (Rltb ctiny (Rabs z)) eqn:B3; [eexists; reflexivity | apply Rltb_false in B3].
  exfalso. vunf.
  assert (forall w, Rabs w <= ctiny -> w * w <= / 4).
  { intros w Hw. assert (- ctiny <= w <= ctiny) by (split; [apply Ropp_le_cancel; rewrite Ropp_involutive; apply Rle_trans with (Rabs w); [rewrite <- Rabs_Ropp; apply Rle_abs | assumption] | apply Rle_trans with (Rabs w); [apply Rle_abs | assumption]]). nra. }
  pose proof (H0 x B1). pose proof (H0 y B2). pose proof (H0 z B3). lra.
Qed.

(** the proxy disk exists and is well formed when the direction is a unit vector and tan(alpha/2) > 0 *)
Lemma distant_proxy_ok (s : Distant R) (t : R) : vlen2 (ds_direction s) = 1 -> 0 < t * ds_tan_half_alpha s ->
  exists dk, distant_get_proxy_disk s t = Ok dk /\ disk_wf dk /\ dk_normal dk = ds_direction s /\ dk_transform dk = None.
Proof.
  intros Hu Hr. unfold distant_get_proxy_disk, disk_new.
  destruct (get_perpendicular_unit_ok _ Hu) as (pz & Epz). rewrite Epz. cbn [unwrap rbind].
  destruct (get_perpendicular_spec _ _ Epz) as (Pz1 & Pz2).
  assert (Hn0 : vlen2 (ds_direction s) <> 0) by lra.
  match goal with |- context [disk_new_detailed ?a1 ?a2 ?a3 ?a4 ?a5 ?a6 ?a7] => destruct (disk_new_detailed a1 a2 a3 a4 a5 a6 a7) as [dk|cls|site] eqn:E end.
  - exists dk. split; [reflexivity|].
    destruct (disk_new_detailed_wf _ _ _ _ _ _ _ _ Hn0 (unit_not_zero pz Pz1) E) as (W & _ & En & _ & _ & Et & _).
    rewrite vnormalize_of_unit in En by assumption. auto.
  - exfalso. unfold disk_new_detailed in E. repeat match type of E with (if ?b then _ else _) = _ => destruct b end; discriminate.
  - exfalso. unfold disk_new_detailed in E. rewrite vnormalize_of_unit in E by assumption.
    pose proof c1em5_pos as H5. assert (H5' : @c1em5 R _ < 1) by (unfold c1em5; rnum; lra).
    assert (Hpar : vis_parallel (ds_direction s) pz = false).
    { unfold vis_parallel. rewrite (unit_not_zero _ Pz1), (unit_not_zero _ Hu). cbn [orb]. rnum. apply Rltb_false.
      rewrite Pz2, Hu, Pz1. replace (0 * 0 - 1 * 1) with (- (1)) by ring. rewrite Rabs_Ropp, Rabs_R1. lra. }
    rewrite Hpar in E. rnum.
    assert (B1 : Rleb (t * ds_tan_half_alpha s) 0 = false) by (apply Rleb_false; lra).
    assert (B2 : Rltb (t * ds_tan_half_alpha s) 0 = false) by (apply Rltb_false; lra).
    assert (B3 : Rltb 0 0 = false) by (apply Rltb_false; lra).
    rewrite B1, B2, B3 in E. discriminate.
Qed.

Lemma distant_intersect_spec (s : Distant R) (ray : Ray R) (i : Info R) :
  vlen2 (ds_direction s) = 1 -> 0 < ds_cos_half_alpha s -> 0 < ds_tan_half_alpha s ->
  distant_intersect s ray = Ok (Some i) ->
  ds_cos_half_alpha s <= vdot (vnormalize (rdir ray)) (ds_direction s) /\
  ip i = ray_project ray nmaxf /\
  iside i = Back /\ inormal i = vneg (ds_direction s) /\ vdot (inormal i) (rdir ray) < 0 /\ vlen2 (inormal i) = 1 /\
  vdot (ds_direction s) (idpdu i) = 0 /\ vdot (ds_direction s) (idpdv i) = 0 /\
  vdot (inormal i) (idpdu i) = 0 /\ vdot (inormal i) (idpdv i) = 0.
Proof.
  intros Hu Hc Ht. unfold distant_intersect, distant_intersect_local_ray.
  destruct (distant_simple_intersect_local_ray s ray) as [phit|] eqn:E; [|discriminate].
  apply distant_simple_local_iff in E. destruct E as (Hcone & ->).
  assert (Hr : 0 < nofZ 10 * ds_tan_half_alpha s) by (rnum; lra).
  destruct (distant_proxy_ok s (nofZ 10) Hu Hr) as (dk & Edk & W & En & _). rewrite Edk. cbn [rbind].
  destruct (disk_intersection_info dk ray (ray_project ray (nofZ 10)) nhalf) as [info|] eqn:Ei; [|discriminate].
  intros H. injection H as <-. cbn [ip inormal iside idpdu idpdv].
  apply disk_info_spec in Ei; [|assumption]. destruct Ei as (_ & Hn & Hs & T1 & T2). rewrite En in *.
  (* the ray direction is not zero and points to the source's side *)
  assert (Hd : 0 < vdot (ds_direction s) (rdir ray)).
  { assert (Hd0 : vlen2 (rdir ray) <> 0).
    { intros Z. apply vlen2_zero in Z. rewrite Z in Hcone. unfold vnormalize, vdot in Hcone. cbn [vx vy vz] in Hcone. rnum. lra. }
    destruct (vnormalize_dot_sign (rdir ray) (ds_direction s) Hd0) as (_ & S2 & _). rewrite vdot_comm. apply S2. lra. }
  rewrite get_side_back in Hn, Hs by assumption. cbn [fst snd] in Hn, Hs.
  split; [assumption|]. split; [reflexivity|]. split; [assumption|]. split; [assumption|].
  rewrite Hn. split; [rewrite vdot_neg_l; lra|]. split; [rewrite vlen2_neg; assumption|].
  split; [assumption|]. split; [assumption|]. rewrite !vdot_neg_l, T1, T2. split; ring.
Qed.
