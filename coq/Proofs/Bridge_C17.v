(** * Bridge_C17: the enclosure theorems of C17 (binary64 instance) read on the primitive-float run of
    [ApproxFloat::solve_quadratic] ([Bridge_interval.prim_af_solve_quadratic]).  [pI] = [P2B] on both bounds. *)
From Coq Require Import ZArith Reals Floats.
From Flocq Require Import Core BinarySingleNaN.
From G3 Require Import Model.Num Model.NumF Model.Base Model.RoundError Model.Quadratic Theory.PrimBridge
  Theory.IntervalSpec Theory.QuadraticSpec Proofs.C07_interval Proofs.C17_quadratic Proofs.Bridge_interval.
Local Open Scope R_scope.
Notation prim := Coq.Floats.PrimFloat.float (only parsing).

Lemma prim_solve_some (A B C X1 X2 : AF prim) :
  @af_solve_quadratic _ NumF A B C = Some (X1, X2) ->
  @af_solve_quadratic _ NumB64 (pI A) (pI B) (pI C) = Some (pI X1, pI X2).
Proof. intros E. rewrite <- prim_af_solve_quadratic, E. reflexivity. Qed.

Theorem prim_roots_enclosed (A B C X1 X2 : AF prim) (a b c : R) :
  wf (pI A) -> wf (pI B) -> wf (pI C) -> no_zero (pI A) -> inter_ok 53 1024 Hprec53 Hmax1024 (pI A) (pI B) (pI C) ->
  @af_solve_quadratic _ NumF A B C = Some (X1, X2) ->
  contains (pI A) a -> contains (pI B) b -> contains (pI C) c ->
  0 <= qdisc a b c /\
  contains (pI X1) (root_lo a b c) /\
  (not_nested (pI X1) (pI X2) -> contains (pI X2) (root_hi a b c)) /\
  ext_wf (pI X1) /\ ext_wf (pI X2) /\ ext_le (low (pI X1)) (low (pI X2)).
Proof.
  intros WA WB WC NA IO E CA CB CC.
  exact (roots_enclosed_af 53 1024 Hprec53 Hmax1024 (pI A) (pI B) (pI C) (pI X1) (pI X2) a b c WA WB WC NA IO
           (prim_solve_some A B C X1 X2 E) CA CB CC).
Qed.

Theorem prim_each_root_enclosed (A B C X1 X2 : AF prim) (a b c : R) :
  wf (pI A) -> wf (pI B) -> wf (pI C) -> no_zero (pI A) -> inter_ok 53 1024 Hprec53 Hmax1024 (pI A) (pI B) (pI C) ->
  @af_solve_quadratic _ NumF A B C = Some (X1, X2) ->
  contains (pI A) a -> contains (pI B) b -> contains (pI C) c ->
  (contains (pI X1) (root_minus a b c) /\ contains (pI X2) (root_plus a b c)) \/
  (contains (pI X1) (root_plus a b c) /\ contains (pI X2) (root_minus a b c)).
Proof.
  intros WA WB WC NA IO E CA CB CC.
  exact (each_root_enclosed_af 53 1024 Hprec53 Hmax1024 (pI A) (pI B) (pI C) (pI X1) (pI X2) a b c WA WB WC NA IO
           (prim_solve_some A B C X1 X2 E) CA CB CC).
Qed.

(** non-vacuity: the coefficient intervals of [C17_nonvacuous] as primitive floats *)
Notation pS s m e := (SF2Prim (S754_finite s m e)).
Definition fA : AF prim := mkAF (pS false 4503599627370496 (-52)) (pS false 4503604130970123 (-52)).
Definition fB : AF prim := mkAF (pS true 6755406196455185 (-51)) (pS true 6755399441055744 (-51)).
Definition fC : AF prim := mkAF (pS false 4503599627370496 (-51)) (pS false 4503604130970123 (-51)).
Ltac p2b_consts :=
  repeat match goal with
  | |- context [P2B (SF2Prim ?s)] => rewrite (P2B_const (SF2Prim s) (B64ofSF s)) by (vm_compute; reflexivity)
  end.
Lemma fA_eq : pI fA = pA. Proof. unfold fA, pA, mk64, mapAF. cbn [low high]. p2b_consts. reflexivity. Qed.
Lemma fB_eq : pI fB = pB. Proof. unfold fB, pB, mk64, mapAF. cbn [low high]. p2b_consts. reflexivity. Qed.
Lemma fC_eq : pI fC = pC. Proof. unfold fC, pC, mk64, mapAF. cbn [low high]. p2b_consts. reflexivity. Qed.
Lemma prim_C17_nonvacuous :
  wf (pI fA) /\ wf (pI fB) /\ wf (pI fC) /\ no_zero (pI fA) /\ inter_ok 53 1024 Hprec53 Hmax1024 (pI fA) (pI fB) (pI fC) /\
  (exists X1 X2 : AF prim, @af_solve_quadratic _ NumF fA fB fC = Some (X1, X2)) /\
  contains (pI fA) 1 /\ contains (pI fB) (- 6755406196455185 / 2251799813685248) /\ contains (pI fC) 2.
Proof.
  rewrite fA_eq, fB_eq, fC_eq.
  destruct nonvacuous_proof as (H1 & H2 & H3 & H4 & H5 & _ & H7 & H8 & H9).
  split; [exact H1|]. split; [exact H2|]. split; [exact H3|]. split; [exact H4|]. split; [exact H5|].
  split; [|split; [exact H7|split; [exact H8|exact H9]]].
  destruct (@af_solve_quadratic _ NumF fA fB fC) as [[X1 X2]|] eqn:E; [exists X1, X2; reflexivity|].
  exfalso. revert E. vm_compute. discriminate.
Qed.
