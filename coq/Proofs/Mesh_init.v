(** * Mesh_init: the mesh returned by [from_polygon] is well formed ([WF]) and its counter is right ([CNT]):
    the invariants under which the refinement steps were analysed hold initially.  Every number instance. *)
From Coq Require Import ZArith Bool List Arith Lia.
From G3 Require Import Model.Num Model.Base Model.Vec Model.Segment Model.Triangle Model.Loop Model.Polygon Model.Triangulation
  Proofs.Mesh_base Proofs.Mesh_wf Proofs.Mesh_sites Proofs.Mesh_conf.
Import ListNotations.

Section Init.
  Context {K : Type} {NK : Num K}.
  Notation V := (V3 K).
  Notation TP := (TriPiece K).
  Notation Mesh := (Mesh K).

  Definition Rinv (M M' : Mesh) : Prop := (WF M -> WF M') /\ (CNT M -> CNT M').
  Lemma Rinv_refl M : Rinv M M. Proof. split; tauto. Qed.
  Lemma Rinv_trans M1 M2 M3 : Rinv M1 M2 -> Rinv M2 M3 -> Rinv M1 M3. Proof. unfold Rinv; tauto. Qed.
  Lemma inv_of {A} (m : MR A) : Pres Rwf m -> Pres Rcnt m -> Pres Rinv m.
  Proof. intros H1 H2 M M' r H. split; [apply (H1 _ _ _ H) | apply (H2 _ _ _ H)]. Qed.
  Lemma inv_mark i1 e1 i2 : Pres Rinv (mark_as_neighbours (K:=K) i1 e1 i2).
  Proof. apply inv_of; [apply wf_mark | apply cnt_mark]. Qed.
  Ltac iv_step :=
    match goal with
    | |- Pres Rinv (mbind _ _) => apply (pres_bind Rinv Rinv_trans); [|intros ?]
    | |- Pres Rinv (mret _) => apply (pres_ret Rinv Rinv_refl)
    | |- Pres Rinv (mlift _) => apply (pres_lift Rinv Rinv_refl)
    | |- Pres Rinv (mget _ _) => apply (pres_get Rinv Rinv_refl)
    | |- Pres Rinv (mark_as_neighbours _ _ _) => apply inv_mark
    | |- Pres Rinv (if ?b then _ else _) => destruct b
    | |- Pres Rinv (match ?x with _ => _ end) => destruct x
    end.
  Lemma inv_pair a b : Pres Rinv (mark_edge_pair (K:=K) a b).
  Proof. unfold mark_edge_pair. repeat iv_step. Qed.
  Lemma inv_inner a : forall cnt b, Pres Rinv (mn_inner (K:=K) a b cnt).
  Proof. induction cnt as [|c IH]; intros b; cbn [mn_inner]; repeat iv_step; [apply inv_pair | apply IH]. Qed.
  Lemma inv_outer n : forall cnt a, Pres Rinv (mn_outer (K:=K) n a cnt).
  Proof. induction cnt as [|c IH]; intros a; cbn [mn_outer]; repeat iv_step; [apply inv_inner | apply IH]. Qed.
  Lemma inv_neighbourhouds : Pres Rinv (mark_neighbourhouds (K:=K)).
  Proof. intros M M' r H. unfold mark_neighbourhouds in H. eapply inv_outer. exact H. Qed.

  Lemma inv_fp_loop (P : Poly K) : forall fuel count anchor (L : Loop K) (t M : Mesh),
    fp_loop P fuel count anchor L t = Ok M -> WF t /\ CNT t -> WF M /\ CNT M.
  Proof.
    induction fuel as [|fuel IH]; intros count anchor L t M H C; cbn [fp_loop] in H; [discriminate|].
    destruct (if Nat.eqb _ 0 then loop_sanitize L else Ok L) as [L1| |]; cbn [rbind] in H; try discriminate.
    destruct (Nat.eqb (llen L1) 2).
    { destruct (mark_neighbourhouds t) as [t' r] eqn:Em. destruct r; cbn [rbind] in H; try discriminate. inversion H; subst.
      apply inv_neighbourhouds in Em. destruct Em as [E1 E2]. destruct C. split; auto. }
    destruct (Nat.eqb (llen L1) 0); [discriminate|].
    destruct (loop_index L1 _) as [v0| |]; cbn [rbind] in H; try discriminate.
    destruct (loop_index L1 _) as [v1| |]; cbn [rbind] in H; try discriminate.
    destruct (loop_index L1 _) as [v2| |]; cbn [rbind] in H; try discriminate.
    destruct (is_collinear v0 v1 v2) as [is_line| |]; cbn [rbind] in H; try discriminate.
    destruct (loop_is_diagonal L1 _) as [is_diag| |]; cbn [rbind] in H; try discriminate.
    destruct (ear_test P L1 v0 v1 v2 is_line is_diag) as [is_ear| |]; cbn [rbind] in H; try discriminate.
    destruct is_ear; [|eapply IH; eassumption].
    destruct (mesh_push v0 v1 v2 (n_triangles t) t) as [t1 r] eqn:Ep.
    assert (I1 : Rinv t t1) by (eapply (inv_of _ (wf_push _ _ _ _) (cnt_push _ _ _ _)); exact Ep).
    destruct r; cbn [rbind] in H; try discriminate.
    assert (Hc : forall (sg : Seg K) (e : Edge) (m m' : Mesh) (r : res unit),
               (if poly_contains_segment P sg then mupd 95%N (n_triangles t) (tp_constrain e) m else (m, Ok tt)) = (m', r) -> Rinv m m').
    { intros sg e m m' r Hm. destruct (poly_contains_segment P sg); [|inversion Hm; subst; apply Rinv_refl].
      eapply (inv_of _ (wf_constrain _ _ _) (cnt_mupd _ _ _ (constrain_valid e))); exact Hm. }
    match type of H with context [let '(t2, r) := ?c in _] => destruct c as [t2 r2] eqn:Ec2 end. apply Hc in Ec2. destruct r2; cbn [rbind] in H; try discriminate.
    match type of H with context [let '(t3, r) := ?c in _] => destruct c as [t3 r3] eqn:Ec3 end. apply Hc in Ec3. destruct r3; cbn [rbind] in H; try discriminate.
    match type of H with context [let '(t4, r) := ?c in _] => destruct c as [t4 r4] eqn:Ec4 end. apply Hc in Ec4. destruct r4; cbn [rbind] in H; try discriminate.
    destruct (loop_remove L1 _) as [L2| |]; cbn [rbind] in H; try discriminate.
    eapply IH; [exact H|]. destruct C as [C1 C2], I1, Ec2, Ec3, Ec4. split; auto.
  Qed.
  Theorem from_polygon_invariants (P : Poly K) (M : Mesh) : from_polygon P = Ok M -> WF M /\ CNT M.
  Proof.
    unfold from_polygon. destruct (poly_get_closed_loop P) as [Lm| |]; cbn [rbind]; try discriminate.
    destruct (loop_close Lm) as [L r]. destruct r; cbn [rbind]; try discriminate. destruct (Nat.ltb _ 2); [discriminate|].
    intros H. eapply inv_fp_loop; [exact H|]. split; [apply WF_new | reflexivity].
  Qed.
End Init.
