(** * Bridge32_C14: the float-tier theorems of C14 at binary32, transferred to the EXECUTED f32 instance.
    [bbox_intersect] on [NumF32] (= [NumF32fast], what the f32 runners execute: primitive binary64 floats holding
    binary32 values, every operation rounded to binary32) returns what [bbox_intersect] on the Flocq instance
    [NumB32 = NumB 24 128] returns ([Bridge32_model.f32_bbox_intersect], from [F32Bridge.of_b32_hom]: the double rounding is
    innocuous).  Thm 2 / Thm 3 of Properties/C14.v instantiated at (24,128) are read back through that equality, for
    binary32-valued primitive floats ([is32B b], [is32R r]); [tB tR tV] = [to_b32] mapped over box, ray, vector. *)
From Coq Require Import ZArith Reals Bool Floats Lia Lra.
From Flocq Require Import Core BinarySingleNaN.
From G3 Require Import Model.Num Model.NumF Model.NumF32 Model.Base Model.Vec Model.BBox Run.FastNum32 Run.FastNum32Proof.
From G3 Require Import Theory.PrimBridge Theory.F32Bridge Proofs.Bridge_model Proofs.Bridge32_model.
From G3 Require Import Proofs.C14_real Proofs.C14_special Proofs.C14_float Proofs.C14_margin Proofs.Bridge_C14.
Local Open Scope R_scope.

Notation inv32 := (inv_dirB 24 128 Hprec24 Hmax128).
Lemma inv_dirN_B32 (d : V3 b32) : inv_dirN d = inv32 d. Proof. reflexivity. Qed.
Lemma known_x_slab_nanN_B32 (b : BBox b32) (r : Ray b32) :
  known_x_slab_nanN b r = known_x_slab_nan 24 128 Hprec24 Hmax128 b r.
Proof. reflexivity. Qed.

Theorem f32_inv_dir (d : V3 b32) : @inv_dirN _ NumF32 (oV d) = oV (inv32 d).
Proof. rewrite <- inv_dirN_B32. apply (hom_inv_dirN of_b32). Qed.
Lemma is32V_inv_dir (d : V3 prim) : is32V (@inv_dirN _ NumF32 d).
Proof. repeat split; apply is32_ndiv. Qed.
Theorem f32_inv_dir_is32 (d : V3 prim) : is32V d -> tV (@inv_dirN _ NumF32 d) = inv32 (tV d).
Proof. intros Hd. rewrite <- (oV_tV d Hd) at 1. rewrite f32_inv_dir. apply tV_oV. Qed.
Theorem f32_known_x_slab_nanN (b : BBox b32) (r : Ray b32) :
  @known_x_slab_nanN _ NumF32 (oB b) (oR r) = known_x_slab_nan 24 128 Hprec24 Hmax128 b r.
Proof. rewrite <- known_x_slab_nanN_B32. apply (hom_known_x_slab_nanN of_b32). Qed.

(** the run with the caller's reciprocal, on binary32-valued floats *)
Lemma f32_run_recip (b : BBox prim) (r : Ray prim) : is32B b -> is32R r ->
  @bbox_intersect _ NumF32 b r (@inv_dirN _ NumF32 (rdir r)) = @bbox_intersect _ NumB32 (tB b) (tR r) (inv32 (rdir (tR r))).
Proof.
  intros Hb Hr. rewrite (f32_bbox_intersect_is32 b r _ Hb Hr (is32V_inv_dir _)).
  rewrite (f32_inv_dir_is32 _ (proj2 Hr)). reflexivity.
Qed.

(** ** Thm 2 (special values) on the executed f32 instance *)
Theorem f32_known_class_is_lost (b : BBox prim) (r : Ray prim) : is32B b -> is32R r ->
  fin3 24 128 (bmin (tB b)) -> fin3 24 128 (bmax (tB b)) -> fin3 24 128 (rorigin (tR r)) ->
  @known_x_slab_nanN _ NumF32 b r = true ->
  @bbox_intersect _ NumF32 b r (@inv_dirN _ NumF32 (rdir r)) = false.
Proof.
  intros Hb Hr F1 F2 Fo Hk. rewrite (f32_run_recip b r Hb Hr).
  apply (known_x_slab_nan_lost 24 128 Hprec24 Hmax128 (tB b) (tR r) format_ok_32 F1 F2 Fo).
  rewrite <- f32_known_x_slab_nanN. rewrite (oB_tB b Hb), (oR_tR r Hr). exact Hk.
Qed.

Theorem f32_neg_zero_face_loses_the_ray (b : BBox prim) (r : Ray prim) : is32B b -> is32R r ->
  fin3 24 128 (bmin (tB b)) -> fin3 24 128 (bmax (tB b)) -> fin3 24 128 (rorigin (tR r)) ->
  B2R (vy (bmin (tB b))) <= B2R (vy (bmax (tB b))) -> B2R (vz (bmin (tB b))) <= B2R (vz (bmax (tB b))) ->
  known_neg_zero_face 24 128 Hprec24 Hmax128 (tB b) (tR r) = true ->
  @bbox_intersect _ NumF32 b r (@inv_dirN _ NumF32 (rdir r)) = false.
Proof.
  intros Hb Hr F1 F2 Fo Wy Wz Hk. rewrite (f32_run_recip b r Hb Hr).
  exact (known_neg_zero_face_lost 24 128 Hprec24 Hmax128 (tB b) (tR r) format_ok_32 F1 F2 Fo Wy Wz Hk).
Qed.

(** ** Thm 3 (completeness with the margin [1 + 2u], u = 2^-24) on the executed f32 instance *)
Notation side32 := (side 24 128 Hprec24 Hmax128).
Notation okb32 := (margin_okb 24 128 Hprec24 Hmax128).

Theorem f32_float_complete_margin (b : BBox prim) (r : Ray prim) (i : V3 prim) : is32B b -> is32R r -> is32V i ->
  side32 (tB b) (tR r) (tV i) -> clear_by 24 2 (boxR 24 128 (tB b)) (rayR 24 128 (tR r)) ->
  @bbox_intersect _ NumF32 b r i = true.
Proof.
  intros Hb Hr Hi S C. rewrite (f32_bbox_intersect_is32 b r i Hb Hr Hi).
  exact (float_complete_margin 24 128 Hprec24 Hmax128 (tB b) (tR r) (tV i) margin_format_32 S C).
Qed.

Theorem f32_margin_side_conditions_checked (b : BBox prim) (r : Ray prim) : is32R r ->
  okb32 (tB b) (tR r) = true -> side32 (tB b) (tR r) (tV (@inv_dirN _ NumF32 (rdir r))).
Proof.
  intros Hr Hk. rewrite (f32_inv_dir_is32 _ (proj2 Hr)).
  exact (margin_okb_side 24 128 Hprec24 Hmax128 (tB b) (tR r) Hk).
Qed.

Theorem f32_float_complete_binary32 (b : BBox prim) (r : Ray prim) : is32B b -> is32R r ->
  okb32 (tB b) (tR r) = true -> clear_by 24 2 (boxR 24 128 (tB b)) (rayR 24 128 (tR r)) ->
  @bbox_intersect _ NumF32 b r (@inv_dirN _ NumF32 (rdir r)) = true.
Proof.
  intros Hb Hr Hk C. rewrite (f32_run_recip b r Hb Hr).
  exact (float_complete_okb 24 128 Hprec24 Hmax128 (tB b) (tR r) margin_format_32 Hk C).
Qed.

(** the same on the instance with the fast rounding (what is executed, literally) *)
Theorem f32fast_float_complete_binary32 (b : BBox prim) (r : Ray prim) : is32B b -> is32R r ->
  okb32 (tB b) (tR r) = true -> clear_by 24 2 (boxR 24 128 (tB b)) (rayR 24 128 (tR r)) ->
  @bbox_intersect _ NumF32fast b r (@inv_dirN _ NumF32fast (rdir r)) = true.
Proof. rewrite NumF32fast_eq. exact (f32_float_complete_binary32 b r). Qed.

(** ** non-vacuity on the f32 instance: unit cube, origin (-1, 1/4, 1/2), direction (3, 1/2, -1/4), as primitive floats
    (all seven numbers are binary32 numbers) *)
Local Open Scope float_scope.
Definition m32_box : BBox prim := mkBBox (pP 0 0 0) (pP 1 1 1).
Definition m32_ray : Ray prim := mkRay (pP (-1) 0.25 0.5) (pP 3 0.5 (-0.25)).
Local Close Scope float_scope.

Definition q32 (m : Z) (e : Z) : b32 := binary_normalize 24 128 Hprec24 Hmax128 mode_NE m e false.
Definition m32_boxB : BBox b32 := mkBBox (mkV3 (q32 0 0) (q32 0 0) (q32 0 0)) (mkV3 (q32 1 0) (q32 1 0) (q32 1 0)).
Definition m32_rayB : Ray b32 := mkRay (mkV3 (q32 (-1) 0) (q32 1 (-2)) (q32 1 (-1))) (mkV3 (q32 3 0) (q32 1 (-1)) (q32 (-1) (-2))).

Lemma to_b32_const (c : prim) (b : b32) : Prim2SF c = Prim2SF (of_b32 b) -> to_b32 c = b.
Proof. intros E. rewrite (of_b32_const c b E). apply to_b32_of_b32. Qed.
Lemma is32_const (c : prim) (b : b32) : Prim2SF c = Prim2SF (of_b32 b) -> is32 c.
Proof. intros E. rewrite (of_b32_const c b E). apply is32_of_b32. Qed.

Lemma m32_box_eq : tB m32_box = m32_boxB.
Proof.
  unfold m32_box, m32_boxB, mapBBox, mapV3, pP. cbn [bmin bmax vx vy vz].
  rewrite (to_b32_const 0%float (q32 0 0)), (to_b32_const 1%float (q32 1 0)) by (vm_compute; reflexivity). reflexivity.
Qed.
Lemma m32_ray_eq : tR m32_ray = m32_rayB.
Proof.
  unfold m32_ray, m32_rayB, mapRay, mapV3, pP. cbn [rorigin rdir vx vy vz].
  rewrite (to_b32_const (-1)%float (q32 (-1) 0)), (to_b32_const 0.25%float (q32 1 (-2))), (to_b32_const 0.5%float (q32 1 (-1))),
    (to_b32_const 3%float (q32 3 0)), (to_b32_const (-0.25)%float (q32 (-1) (-2))) by (vm_compute; reflexivity).
  reflexivity.
Qed.
Lemma m32_is32 : is32B m32_box /\ is32R m32_ray.
Proof.
  assert (H0 : is32 0%float) by (apply (is32_const _ (q32 0 0)); vm_compute; reflexivity).
  assert (H1 : is32 1%float) by (apply (is32_const _ (q32 1 0)); vm_compute; reflexivity).
  assert (Hm1 : is32 (-1)%float) by (apply (is32_const _ (q32 (-1) 0)); vm_compute; reflexivity).
  assert (Hq : is32 0.25%float) by (apply (is32_const _ (q32 1 (-2))); vm_compute; reflexivity).
  assert (Hh : is32 0.5%float) by (apply (is32_const _ (q32 1 (-1))); vm_compute; reflexivity).
  assert (H3 : is32 3%float) by (apply (is32_const _ (q32 3 0)); vm_compute; reflexivity).
  assert (Hmq : is32 (-0.25)%float) by (apply (is32_const _ (q32 (-1) (-2))); vm_compute; reflexivity).
  repeat split; assumption.
Qed.

Lemma B2R_SF32 (x : b32) s : B2SF x = s -> B2R x = SF2R radix2 s.
Proof. intros <-. symmetry. apply SF2R_B2SF. Qed.
Ltac b2r_const32 c s := rewrite (B2R_SF32 c s) by (vm_compute; reflexivity).

Lemma m32_values : B2R (q32 0 0) = 0 /\ B2R (q32 1 0) = 1 /\ B2R (q32 (-1) 0) = -1 /\ B2R (q32 1 (-1)) = / 2 /\
  B2R (q32 1 (-2)) = / 4 /\ B2R (q32 3 0) = 3 /\ B2R (q32 (-1) (-2)) = - / 4.
Proof.
  b2r_const32 (q32 0 0) (S754_zero false).
  b2r_const32 (q32 1 0) (S754_finite false 8388608 (-23)).
  b2r_const32 (q32 (-1) 0) (S754_finite true 8388608 (-23)).
  b2r_const32 (q32 1 (-1)) (S754_finite false 8388608 (-24)).
  b2r_const32 (q32 1 (-2)) (S754_finite false 8388608 (-25)).
  b2r_const32 (q32 3 0) (S754_finite false 12582912 (-22)).
  b2r_const32 (q32 (-1) (-2)) (S754_finite true 8388608 (-25)).
  unfold SF2R, F2R. simpl.
  repeat match goal with |- context [Z.pow_pos 2 ?e] =>
    let v := eval vm_compute in (Z.pow_pos 2 e) in change (Z.pow_pos 2 e) with v end.
  repeat split. all: lra.
Qed.

Lemma f32_margin_nonvacuous :
  (is32B m32_box /\ is32R m32_ray) /\
  okb32 (tB m32_box) (tR m32_ray) = true /\
  clear_by 24 2 (boxR 24 128 (tB m32_box)) (rayR 24 128 (tR m32_ray)) /\
  @bbox_intersect _ NumF32 m32_box m32_ray (@inv_dirN _ NumF32 (rdir m32_ray)) = true /\
  @bbox_intersect _ NumF32fast m32_box m32_ray (@inv_dirN _ NumF32fast (rdir m32_ray)) = true.
Proof.
  split; [exact m32_is32|]. rewrite m32_box_eq, m32_ray_eq.
  split; [vm_compute; reflexivity|]. split; [|split; vm_compute; reflexivity].
  destruct m32_values as (V0 & V1 & Vm1 & Vh & Vq & V3 & Vmq).
  pose proof (uR_pos 24) as U0. pose proof (uR_small 24 ltac:(lia)) as U1.
  unfold clear_by, t_near, t_far, t_lo, t_hi, boxR, rayR, B2V, m32_boxB, m32_rayB.
  assert (I2 : / / 2 = 2) by field. assert (I4 : / - / 4 = - 4) by field.
  split.
  - intros a; destruct a; cbn [crd bmin bmax rorigin rdir vx vy vz]; rewrite ?V0, ?V1, ?Vm1, ?Vh, ?Vq, ?V3, ?Vmq;
      unfold Rdiv; rewrite ?I2, ?I4; unfold Rmax; destruct (Rle_dec _ _); lra.
  - intros a a' Ne; destruct a, a'; try (exfalso; apply Ne; reflexivity);
      cbn [crd bmin bmax rorigin rdir vx vy vz]; rewrite ?V0, ?V1, ?Vm1, ?Vh, ?Vq, ?V3, ?Vmq;
      unfold Rdiv; rewrite ?I2, ?I4; unfold Rmin, Rmax; repeat destruct (Rle_dec _ _); intros; lra.
Qed.
