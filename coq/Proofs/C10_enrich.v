(** * C10 proofs, part 3: redundant collinear points IN GENERAL through the pipeline push* / close (live code,
    after fix 1ef6368: [push] drops every trailing vertex the new point makes redundant, [close] drops redundant
    vertices repeatedly at both ends of the seam).

    An outline l all of whose corners are genuine is ENRICHED by inserting finitely many points exactly on its open
    edges (any number per edge, the first and the closing edge included) and the enriched cycle may be entered anywhere
    (at a vertex of l or at an inserted point).  If every push and the close are accepted, the stored vertex list of the
    enriched input is a cyclic shift of l -- hence the same perimeter, vertex mean, Newell vector ... (the measures).

    Mechanism: while the points of the edge a -> b are pushed the stored list is
        (start point) :: (vertices of l passed so far) ++ (at most ONE pending point of the current edge);
    a point of the same edge replaces the pending one (cross product exactly 0 < 1e-5), the corner at a is tested against
    every point pushed on a -> b (hypothesis: it stays genuine), and the two seam loops of [close] remove a pending point of
    the closing edge and a start point that is not a vertex of l.

    Contents: [pushv_list] (vertex-list effect of pushes) .. [push_edge_points] / [push_start] / [push_chain] (the push
    invariant) .. [pop_seam] / [drop_first_*] / [close_ok_verts] (the seam loops) .. [build_enriched_at_vertex] /
    [build_enriched_at_inserted] (the stored outline) .. [enrich], [pipeline_enrichment], [enrichment_measures] ..
    [push_list_normal_inv], [enrichment_normals_agree], [enrichment_area_normal_planar] (normal and area, exactly planar
    outlines) .. [enrich_square] (non-vacuity) .. [cyc_good_rot1] (the conditions are cyclic), [enrich_at_inserted_succ]
    (the start point need only differ from its successor). *)
From Coq Require Import ZArith Reals Lra Lia Bool List Arith Psatz Sorted.
From G3 Require Import Model.Num Model.Base Model.Vec Model.Segment Model.Loop Theory.RInst Theory.LoopGeom
  Proofs.C04_loop Proofs.C04_reach Proofs.C04_reach_live Proofs.C10_measures Proofs.C10_pipeline Proofs.C10_planar.
Import ListNotations.
Local Open Scope R_scope.

(** ** the vertex-list effect of a sequence of accepted pushes *)
Fixpoint pushv_list (vs : list V) (pts : list V) : res (list V) :=
  match pts with [] => Ok vs | p :: tl => do vs' <- push_verts vs p; pushv_list vs' tl end.

Lemma push_list_verts (pts : list V) : forall (L L' : Loop R),
  push_list L pts = Ok L' -> pushv_list (verts L) pts = Ok (verts L').
Proof.
  induction pts as [|p pts IH]; intros L L' H; cbn [push_list pushv_list] in *.
  - injection H as H. subst. reflexivity.
  - destruct (loop_push L p) as [L1| |] eqn:E; cbn [rbind] in H; try discriminate.
    apply push_ok_verts in E. rewrite E. cbn [rbind]. apply IH. exact H.
Qed.

Lemma pushv_list_app (l1 l2 : list V) : forall (vs vs1 : list V),
  pushv_list vs l1 = Ok vs1 -> pushv_list vs (l1 ++ l2) = pushv_list vs1 l2.
Proof.
  induction l1 as [|p l1 IH]; intros vs vs1 H; cbn [pushv_list app] in *.
  - injection H as H. subst. reflexivity.
  - destruct (push_verts vs p) as [v| |]; cbn [rbind] in *; try discriminate. apply IH. exact H.
Qed.

(** ** points of a line *)
Definition pt_on (a b : V) (s : R) : V := vadd a (vscale (vsub b a) s).
Definition on_line (a b p : V) : Prop := exists s : R, p = pt_on a b s.

Lemma on_line_start (a b : V) : on_line a b a.
Proof. exists 0. unfold pt_on. vring. Qed.
Lemma on_line_end (a b : V) : on_line a b b.
Proof. exists 1. unfold pt_on. vring. Qed.
Lemma on_line_cross3 (a b o q p : V) : on_line a b o -> on_line a b q -> on_line a b p ->
  vcross (vsub q o) (vsub p q) = vzero.
Proof. intros [r ->] [s ->] [t ->]. unfold pt_on. vring. Qed.

(** three points with cross product exactly zero are collinear for the library's test, unless the test refuses to
    answer (all three within 1e-5) *)
Lemma is_collinear_cross0 (a q p : V) :
  vcross (vsub q a) (vsub p q) = vzero -> vcompare a q && vcompare a p = false -> is_collinear a q p = Ok true.
Proof.
  intros Hc Hd. unfold is_collinear. rewrite Hd.
  destruct (vcompare a q || vcompare a p || vcompare q p); [reflexivity|].
  cbv zeta. f_equal. rewrite Hc.
  unfold vlen, vlen2, vzero. cbn [vx vy vz]. rnum. replace (0 * 0 + 0 * 0 + 0 * 0)%R with 0%R by ring. rewrite sqrt_0.
  apply Rltb_true. unfold c1em5. rnum. lra.
Qed.
Lemma is_collinear_on_line3 (a b o q p : V) : on_line a b o -> on_line a b q -> on_line a b p ->
  vcompare o q && vcompare o p = false -> is_collinear o q p = Ok true.
Proof. intros Ho Hq Hp Hd. apply is_collinear_cross0; [exact (on_line_cross3 a b o q p Ho Hq Hp) | exact Hd]. Qed.

(** ** the pending point *)
Fixpoint lastl (pend : list V) (ms : list V) : list V := match ms with [] => pend | p :: r => lastl [p] r end.
Lemma lastl_snoc (ms : list V) : forall (pend : list V) (b : V), lastl pend (ms ++ [b]) = [b].
Proof. induction ms as [|m ms IH]; intros pend b; cbn [app lastl]; [reflexivity | apply IH]. Qed.
Lemma lastl_cases (ms : list V) : forall pend : list V,
  lastl pend ms = pend \/ exists q, lastl pend ms = [q] /\ In q ms.
Proof.
  induction ms as [|m ms IH]; intros pend; cbn [lastl]; [left; reflexivity|].
  right. destruct (IH [m]) as [E|(q & E & Hq)]; [exists m; split; [exact E | left; reflexivity] | exists q; split; [exact E | right; exact Hq]].
Qed.

(** a pending point q of the edge a -> b: on the line, and distinguishable from a *)
Definition pend_ok (a b : V) (pend : list V) : Prop :=
  pend = [] \/ exists q, pend = [q] /\ on_line a b q /\ vcompare a q = false.

(** pushing points of the line a -> b on a list that ends with x, a and (possibly) a pending point of that line:
    each point replaces the pending one, as long as the corner (x, a, .) stays genuine *)
Lemma push_edge_points (b : V) (ms : list V) : forall (st : list V) (x a : V) (pend : list V),
  pend_ok a b pend ->
  Forall (on_line a b) ms -> Forall (fun p => is_collinear x a p = Ok false) ms ->
  pushv_list (st ++ [x; a] ++ pend) ms = Ok (st ++ [x; a] ++ lastl pend ms) /\ pend_ok a b (lastl pend ms).
Proof.
  induction ms as [|p ms IH]; intros st x a pend Hp Hl Hg; cbn [pushv_list lastl]; [split; [reflexivity | exact Hp]|].
  inversion Hl as [|? ? Hl1 Hl2]; subst. inversion Hg as [|? ? Hg1 Hg2]; subst.
  destruct (is_collinear_false_distinct _ _ _ Hg1) as (_ & Dxp & Dap).
  assert (Hp' : pend_ok a b [p]) by (right; exists p; split; [reflexivity | split; [exact Hl1 | exact Dap]]).
  assert (E : push_verts (st ++ [x; a] ++ pend) p = Ok (st ++ [x; a] ++ [p])).
  { destruct Hp as [->|(q & -> & Hq & Dq)]; cbn [app].
    - apply push_verts_last2; assumption.
    - apply push_verts_last3; [exact Dap | | exact Hg1].
      apply (is_collinear_on_line3 a b); [apply on_line_start | exact Hq | exact Hl1 | rewrite Dq; reflexivity]. }
  rewrite E. cbn [rbind]. apply IH; assumption.
Qed.

(** the first edge: the start point p0 and the following points of its line, up to the next vertex *)
Lemma push_start_points (a b p0 : V) (qs : list V) : forall q : V,
  on_line a b p0 -> on_line a b q -> Forall (on_line a b) qs -> Forall (fun q' => vcompare p0 q' = false) qs ->
  pushv_list [p0; q] qs = Ok (p0 :: lastl [q] qs).
Proof.
  induction qs as [|q' qs IH]; intros q H0 Hq Hl Hd; cbn [pushv_list lastl]; [reflexivity|].
  inversion Hl as [|? ? Hl1 Hl2]; subst. inversion Hd as [|? ? Hd1 Hd2]; subst.
  assert (E : push_verts [p0; q] q' = Ok [p0; q']).
  { unfold push_verts. cbn [length Nat.leb Nat.sub vnth nth]. rewrite Hd1. cbn [push_keep Nat.leb Nat.sub vnth nth].
    rewrite (is_collinear_on_line3 a b p0 q q' H0 Hq Hl1) by (rewrite Hd1; apply andb_false_r).
    cbn [rbind firstn app]. reflexivity. }
  rewrite E. cbn [rbind]. apply IH; assumption.
Qed.
Lemma push_start (a b p0 : V) (ps : list V) :
  on_line a b p0 -> Forall (on_line a b) ps -> Forall (fun q' => vcompare p0 q' = false) ps ->
  pushv_list [] (p0 :: ps) = Ok (p0 :: lastl [] ps).
Proof.
  intros H0 Hl Hd. destruct ps as [|q qs]; [reflexivity|].
  inversion Hl; subst. inversion Hd; subst.
  change (pushv_list [] (p0 :: q :: qs)) with (pushv_list [p0; q] qs). cbn [lastl]. apply (push_start_points a b); assumption.
Qed.

(** ** enriched outlines.  An entry = a vertex of the outline together with the points inserted on the edge that leaves it *)
Notation entry := (V * list V)%type.
Definition base (es : list entry) : list V := map fst es.
Definition flat (es : list entry) : list V := flat_map (fun e => fst e :: snd e) es.
Definition next_vertex (tl : list entry) (bend : V) : V := match tl with [] => bend | e :: _ => fst e end.
Fixpoint last_entry (d : entry) (tl : list entry) : entry := match tl with [] => d | e :: r => last_entry e r end.

(** ms = points EXACTLY on the open edge a -> b, in increasing order of the parameter *)
Definition on_edge (a b : V) (ms : list V) : Prop :=
  exists ss : list R, ms = map (pt_on a b) ss /\ Forall (fun s => 0 < s < 1) ss /\ StronglySorted Rlt ss.
Lemma on_edge_on_line (a b : V) (ms : list V) : on_edge a b ms -> Forall (on_line a b) ms.
Proof. intros (ss & -> & _ & _). induction ss as [|s ss IH]; cbn [map]; constructor; [exists s; reflexivity | exact IH]. Qed.

(** the corner (x, a, b) of the outline stays genuine for the library's test whichever point of the enriched edge
    x -> a (x itself or a point inserted on it) and whichever point of the enriched edge a -> b (an inserted point or b)
    are taken as its neighbours.  Forced: a point m on a -> b with is_collinear x a m = Ok true REPLACES the vertex a. *)
Definition corner_kept (x : V) (xs : list V) (a : V) (ms : list V) (b : V) : Prop :=
  forall p q : V, In p (x :: xs) -> In q (ms ++ [b]) -> is_collinear p a q = Ok false.

(** a chain of entries, entered from the vertex x with inserted points xs, ending at the vertex bend *)
Fixpoint chain_good (x : V) (xs : list V) (es : list entry) (bend : V) : Prop :=
  match es with
  | [] => True
  | e :: tl => on_edge (fst e) (next_vertex tl bend) (snd e) /\ corner_kept x xs (fst e) (snd e) (next_vertex tl bend)
               /\ chain_good (fst e) (snd e) tl bend
  end.
(** cyclically: every edge and every corner of the closed outline  e0 :: es  exactly once *)
Definition cyc_good (e0 : entry) (es : list entry) : Prop :=
  chain_good (fst (last_entry e0 es)) (snd (last_entry e0 es)) (e0 :: es) (fst e0).

Lemma flat_cons (a : V) (ms : list V) (tl : list entry) : flat ((a, ms) :: tl) = a :: ms ++ flat tl.
Proof. reflexivity. Qed.

(** pushing the points of a good chain (the vertex a already stored, after x'): the vertices stay, at most one point of
    the last edge is pending; the last corner (y, z) is reported for the seam *)
Lemma push_chain (bend : V) : forall (tl : list entry) (st : list V) (x : V) (xs : list V) (x' a : V) (ms : list V),
  chain_good x xs ((a, ms) :: tl) bend -> In x' (x :: xs) ->
  exists (G : list V) (y z : V) (zs : list V),
    st ++ x' :: a :: base tl = G ++ [y; z] /\ (z, zs) = last_entry (a, ms) tl /\
    (forall q, In q (zs ++ [bend]) -> is_collinear y z q = Ok false) /\
    Forall (on_line z bend) zs /\
    pushv_list (st ++ [x'; a]) (ms ++ flat tl) = Ok (G ++ [y; z] ++ lastl [] zs).
Proof.
  induction tl as [|[b mb] tl IH]; intros st x xs x' a ms H Hx'.
  - cbn [chain_good fst snd next_vertex] in H. destruct H as (He & Hc & _).
    exists st, x', a, ms. split; [reflexivity|]. split; [reflexivity|].
    split; [intros q Hq; apply Hc; assumption|]. split; [apply on_edge_on_line, He|].
    cbn [flat flat_map]. rewrite app_nil_r.
    destruct (push_edge_points bend ms st x' a [] (or_introl eq_refl)) as (E & _).
    + apply on_edge_on_line, He.
    + apply Forall_forall. intros q Hq. apply Hc; [exact Hx' | apply in_or_app; left; exact Hq].
    + cbn [app] in E |- *. exact E.
  - cbn [chain_good fst snd next_vertex] in H. destruct H as (He & Hc & Hrest).
    destruct (push_edge_points b (ms ++ [b]) st x' a [] (or_introl eq_refl)) as (E & _).
    + apply Forall_app. split; [apply on_edge_on_line, He | constructor; [apply on_line_end | constructor]].
    + apply Forall_forall. intros q Hq. apply Hc; [exact Hx' | exact Hq].
    + rewrite lastl_snoc in E. cbn [app] in E.
      destruct (IH (st ++ [x']) a ms a b mb Hrest (or_introl eq_refl)) as (G & y & z & zs & E1 & E2 & E3 & E4 & E5).
      exists G, y, z, zs. rewrite <- app_assoc in E1, E5. cbn [app] in E1, E5.
      split; [exact E1|]. split; [exact E2|]. split; [exact E3|]. split; [exact E4|].
      rewrite flat_cons. replace (ms ++ b :: mb ++ flat tl) with ((ms ++ [b]) ++ (mb ++ flat tl)) by (rewrite <- app_assoc; reflexivity).
      rewrite (pushv_list_app _ _ _ _ E). exact E5.
Qed.

(** ** the two seam loops of [close] on explicit shapes *)
Lemma vnth_last1 (P : list V) (w : V) : vnth (P ++ [w]) (length (P ++ [w]) - 1) = w.
Proof.
  unfold vnth. rewrite app_length. cbn [length]. replace (length P + 1 - 1)%nat with (length P + 0)%nat by lia.
  rewrite app_nth2_plus. reflexivity.
Qed.
Lemma last_red_shape (P : list V) (u w : V) : P <> [] -> last_is_redundant (P ++ [u; w]) = is_collinear u w (hd vzero P).
Proof.
  intros HP. unfold last_is_redundant. cbv zeta. destruct (vnth_last2 P u w) as [E1 E2]. rewrite E1, E2.
  assert (Hn : Nat.ltb (length (P ++ [u; w])) 3 = false).
  { apply Nat.ltb_ge. rewrite app_length. destruct P; [congruence|]. cbn [length]. lia. }
  rewrite Hn. destruct P; [congruence|]. reflexivity.
Qed.
Lemma pop_red_true (vs : list V) (f : nat) : last_is_redundant vs = Ok true -> pop_redundant vs (S f) = pop_redundant (removelast vs) f.
Proof. intros H. cbn [pop_redundant]. rewrite H. reflexivity. Qed.
Lemma pop_red_false (vs : list V) (f : nat) : last_is_redundant vs = Ok false -> pop_redundant vs (S f) = (vs, Ok tt).
Proof. intros H. cbn [pop_redundant]. rewrite H. reflexivity. Qed.

(** the trailing loop: a pending point of the closing edge goes, the corner before it stays *)
Lemma pop_seam (P : list V) (y z : V) (pend : list V) (f : nat) : P <> [] ->
  is_collinear y z (hd vzero P) = Ok false ->
  (pend = [] \/ exists q, pend = [q] /\ is_collinear z q (hd vzero P) = Ok true) -> (2 <= f)%nat ->
  pop_redundant (P ++ [y; z] ++ pend) f = (P ++ [y; z], Ok tt).
Proof.
  intros HP C1 Hpend Hf. destruct f as [|[|f]]; try lia.
  destruct Hpend as [->|(q & -> & C2)]; cbn [app].
  - apply pop_red_false. rewrite last_red_shape by exact HP. exact C1.
  - replace (P ++ [y; z; q]) with ((P ++ [y]) ++ [z; q]) by (rewrite <- app_assoc; reflexivity).
    rewrite pop_red_true.
    2:{ rewrite last_red_shape by (destruct P; discriminate). destruct P; [congruence|]. exact C2. }
    rewrite removelast_app by discriminate. cbn [removelast]. rewrite <- app_assoc. cbn [app].
    apply pop_red_false. rewrite last_red_shape by exact HP. exact C1.
Qed.

Lemma drop_first_false (vs : list V) (f : nat) :
  is_collinear (vnth vs (length vs - 1)) (vnth vs 0) (vnth vs 1) = Ok false -> drop_first_redundant vs (S f) = (vs, Ok tt).
Proof. intros H. cbn [drop_first_redundant]. destruct (Nat.ltb (length vs) 3); [reflexivity|]. rewrite H. reflexivity. Qed.
Lemma drop_first_true (vs vs1 : list V) (f : nat) : (3 <= length vs)%nat ->
  is_collinear (vnth vs (length vs - 1)) (vnth vs 0) (vnth vs 1) = Ok true ->
  pop_redundant (tl vs) (length vs) = (vs1, Ok tt) -> drop_first_redundant vs (S f) = drop_first_redundant vs1 f.
Proof.
  intros H3 H Hp. cbn [drop_first_redundant]. apply Nat.ltb_ge in H3. rewrite H3, H, Hp. reflexivity.
Qed.

(** what [close] leaves, in terms of its two loops *)
Lemma close_ok_verts (L : Loop R) : snd (loop_close L) = Ok tt ->
  exists vs1 vs2, pop_redundant (verts L) (llen L) = (vs1, Ok tt) /\
                  drop_first_redundant vs1 (length vs1) = (vs2, Ok tt) /\ verts (fst (loop_close L)) = vs2.
Proof.
  unfold loop_close. destruct (lclosed L); [discriminate|]. destruct (Nat.ltb (llen L) 3); [discriminate|].
  destruct (pop_redundant (verts L) (llen L)) as [vs1 r1] eqn:P1. destruct r1 as [[]| |]; cbn [snd]; try discriminate.
  destruct (Nat.ltb (length vs1) 3); [discriminate|].
  destruct (valid_to_add _ _) as [u| |]; cbn [snd]; try discriminate.
  destruct (drop_first_redundant vs1 (length vs1)) as [vs2 r2] eqn:P2. destruct r2 as [[]| |]; cbn [snd]; try discriminate.
  destruct (Nat.ltb (length vs2) 3); [discriminate|].
  match goal with |- context [match loop_set_area ?l with _ => _ end] => destruct (loop_set_area l) as [L4| |] eqn:E4 end; cbn [snd]; try discriminate.
  destruct (loop_set_perimeter L4) as [L5| |] eqn:E5; cbn [snd fst]; try discriminate. intros _.
  exists vs1, vs2. split; [reflexivity|]. split; [exact P2|].
  unfold loop_set_perimeter in E5. destruct (negb (lclosed L4)); [discriminate|]. destruct (vis_zero (lnormal L4)); [discriminate|].
  destruct (Nat.ltb (llen L4) 3); [discriminate|]. injection E5 as E5. subst L5. cbn [verts].
  unfold loop_set_area in E4. cbn [lclosed negb lnormal llen verts set_verts] in E4.
  match type of E4 with (if ?b then _ else _) = _ => destruct b end; [discriminate|].
  match type of E4 with (if ?b then _ else _) = _ => destruct b end; [discriminate|]. injection E4 as E4. subst L4. reflexivity.
Qed.

(** ** the enriched outline entered at a vertex of the outline *)
Lemma corner_third_distinct (p a q : V) : is_collinear p a q = Ok false -> vcompare a q = false.
Proof. intros H. exact (proj2 (proj2 (is_collinear_false_distinct _ _ _ H))). Qed.

Lemma build_enriched_at_vertex (v0 : V) (ms0 : list V) (es : list entry) (L' : Loop R) :
  (2 <= length es)%nat -> cyc_good (v0, ms0) es ->
  push_list loop_new (flat ((v0, ms0) :: es)) = Ok L' -> snd (loop_close L') = Ok tt ->
  verts (fst (loop_close L')) = v0 :: base es.
Proof.
  intros Hn Hg P Cl. destruct es as [|[v1 ms1] tl]; [cbn in Hn; lia|].
  assert (Htl : (1 <= length tl)%nat) by (cbn [length] in Hn; lia). clear Hn.
  unfold cyc_good in Hg. cbn [last_entry fst] in Hg. destruct Hg as (He0 & Hc0 & Hch). cbn [fst snd next_vertex] in He0, Hc0.
  pose proof (on_edge_on_line _ _ _ He0) as Hl0.
  apply push_list_verts in P. cbn [verts loop_new] in P. rewrite !flat_cons in P.
  replace (v0 :: ms0 ++ v1 :: ms1 ++ flat tl) with ((v0 :: ms0 ++ [v1]) ++ (ms1 ++ flat tl)) in P
    by (cbn [app]; rewrite <- app_assoc; reflexivity).
  assert (S0 : pushv_list [] (v0 :: ms0 ++ [v1]) = Ok [v0; v1]).
  { rewrite (push_start v0 v1 v0 (ms0 ++ [v1])); [rewrite lastl_snoc; reflexivity | apply on_line_start | |].
    - apply Forall_app. split; [exact Hl0 | constructor; [apply on_line_end | constructor]].
    - apply Forall_forall. intros q Hq. apply (corner_third_distinct (fst (last_entry (v1, ms1) tl))). apply Hc0; [left; reflexivity | exact Hq]. }
  rewrite (pushv_list_app _ _ _ _ S0) in P.
  destruct (push_chain v0 tl [] v0 ms0 v0 v1 ms1 Hch (or_introl eq_refl)) as (G & y & z & zs & E1 & E2 & E3 & E4 & E5).
  cbn [app] in E1, E5. rewrite E5 in P. injection P as P.
  assert (HG : G <> []).
  { intros ->. apply (f_equal (@length V)) in E1. unfold base in E1. cbn [length app] in E1. rewrite map_length in E1. lia. }
  assert (Hhd : hd vzero G = v0) by (destruct G as [|g G]; [congruence | cbn [app] in E1; injection E1 as E1 _; symmetry; exact E1]).
  destruct (close_ok_verts L' Cl) as (vs1 & vs2 & P1 & P2 & ->).
  assert (Q1 : pop_redundant (verts L') (llen L') = (G ++ [y; z], Ok tt)).
  { unfold llen. rewrite <- P. apply pop_seam; [exact HG | rewrite Hhd; apply E3, in_or_app; right; left; reflexivity | |].
    - destruct (lastl_cases zs []) as [->|(q & -> & Hq)]; [left; reflexivity|]. right. exists q. split; [reflexivity|]. rewrite Hhd.
      assert (Hzq : vcompare z q = false) by (apply (corner_third_distinct y), E3, in_or_app; left; exact Hq).
      apply (is_collinear_on_line3 z v0); [apply on_line_start | exact (proj1 (Forall_forall _ _) E4 q Hq) | apply on_line_end | rewrite Hzq; reflexivity].
    - rewrite !app_length. cbn [length]. lia. }
  rewrite Q1 in P1. injection P1 as P1. subst vs1. rewrite <- E1 in P2.
  assert (Hz : vnth (v0 :: v1 :: base tl) (length (v0 :: v1 :: base tl) - 1) = z).
  { rewrite E1. replace (G ++ [y; z]) with ((G ++ [y]) ++ [z]) by (rewrite <- app_assoc; reflexivity). apply vnth_last1. }
  change (length (v0 :: v1 :: base tl)) with (S (length (v1 :: base tl))) in P2 at 1.
  rewrite drop_first_false in P2; [injection P2 as P2; symmetry; exact P2|].
  rewrite Hz. cbn [vnth nth]. rewrite <- E2 in Hc0. cbn [fst snd] in Hc0.
  apply Hc0; [left; reflexivity | apply in_or_app; right; left; reflexivity].
Qed.

(** ** ... and entered at an inserted point p0 of the edge v0 -> v1 (the points [pre] of that edge before p0 come last) *)
Lemma build_enriched_at_inserted (v0 : V) (pre : list V) (p0 : V) (post : list V) (es : list entry) (L' : Loop R) :
  (2 <= length es)%nat -> cyc_good (v0, pre ++ p0 :: post) es -> Forall (fun q => vcompare p0 q = false) post ->
  push_list loop_new (p0 :: post ++ flat es ++ v0 :: pre) = Ok L' -> snd (loop_close L') = Ok tt ->
  verts (fst (loop_close L')) = base es ++ [v0].
Proof.
  intros Hn Hg Hd P Cl. destruct es as [|[v1 ms1] tl]; [cbn in Hn; lia|]. destruct tl as [|[v2 ms2] tl']; [cbn in Hn; lia|]. clear Hn.
  unfold cyc_good in Hg. cbn [last_entry fst] in Hg. destruct Hg as (He0 & Hc0 & Hch). cbn [fst snd next_vertex] in He0, Hc0.
  pose proof Hch as (_ & Hc1 & _). cbn [fst snd next_vertex] in Hc1.
  remember ((v2, ms2) :: tl') as tl eqn:Etl.
  pose proof (on_edge_on_line _ _ _ He0) as Hl0. apply Forall_app in Hl0. destruct Hl0 as (Hlpre & Hl0). inversion Hl0 as [|? ? Hlp0 Hlpost]; subst x l.
  assert (Hin0 : In p0 (v0 :: pre ++ p0 :: post)) by (right; apply in_or_app; right; left; reflexivity).
  apply push_list_verts in P. cbn [verts loop_new] in P. rewrite flat_cons in P.
  replace (p0 :: post ++ (v1 :: ms1 ++ flat tl) ++ v0 :: pre) with ((p0 :: post ++ [v1]) ++ ((ms1 ++ flat tl) ++ ([v0] ++ pre))) in P
    by (cbn [app]; rewrite <- !app_assoc; reflexivity).
  assert (S0 : pushv_list [] (p0 :: post ++ [v1]) = Ok [p0; v1]).
  { rewrite (push_start v0 v1 p0 (post ++ [v1])); [rewrite lastl_snoc; reflexivity | exact Hlp0 | |].
    - apply Forall_app. split; [exact Hlpost | constructor; [apply on_line_end | constructor]].
    - apply Forall_app. split; [exact Hd|]. constructor; [|constructor].
      assert (C : is_collinear p0 v1 v2 = Ok false) by (apply Hc1; [exact Hin0 | apply in_or_app; right; left; reflexivity]).
      exact (proj1 (is_collinear_false_distinct _ _ _ C)). }
  rewrite (pushv_list_app _ _ _ _ S0) in P.
  destruct (push_chain v0 tl [] v0 (pre ++ p0 :: post) p0 v1 ms1 Hch Hin0) as (G & y & z & zs & E1 & E2 & E3 & E4 & E5).
  cbn [app] in E1, E5. rewrite (pushv_list_app _ _ _ _ E5) in P.
  pose proof E2 as E2'. rewrite Etl in E2'. cbn [last_entry] in E2'. rewrite <- E2' in Hc0. cbn [fst snd] in Hc0.
  (* the vertex v0 *)
  assert (S1 : pushv_list (G ++ [y; z] ++ lastl [] zs) [v0] = Ok ((G ++ [y]) ++ [z; v0] ++ [])).
  { destruct (push_edge_points v0 [v0] G y z (lastl [] zs)) as (E & _).
    - destruct (lastl_cases zs []) as [->|(q & -> & Hq)]; [left; reflexivity|]. right. exists q. split; [reflexivity|].
      split; [exact (proj1 (Forall_forall _ _) E4 q Hq) | apply (corner_third_distinct y), E3, in_or_app; left; exact Hq].
    - constructor; [apply on_line_end | constructor].
    - constructor; [apply E3, in_or_app; right; left; reflexivity | constructor].
    - rewrite E. cbn [lastl app]. rewrite <- app_assoc. reflexivity. }
  rewrite (pushv_list_app _ _ _ _ S1) in P.
  assert (Hzpre : forall q, In q pre -> is_collinear z v0 q = Ok false).
  { intros q Hq. apply Hc0; [left; reflexivity | apply in_or_app; left; apply in_or_app; left; exact Hq]. }
  destruct (push_edge_points v1 pre (G ++ [y]) z v0 [] (or_introl eq_refl) Hlpre) as (S2 & _).
  { apply Forall_forall. exact Hzpre. }
  rewrite S2 in P. injection P as P.
  assert (HG : G <> []).
  { intros ->. apply (f_equal (@length V)) in E1. rewrite Etl in E1. cbn [length app base map] in E1. lia. }
  destruct G as [|g G']; [congruence|]. cbn [app] in E1. injection E1 as Eg E1. subst g.
  destruct (close_ok_verts L' Cl) as (vs1 & vs2 & P1 & P2 & ->).
  assert (Czp0 : is_collinear z v0 p0 = Ok false) by (apply Hc0; [left; reflexivity | apply in_or_app; left; apply in_or_app; right; left; reflexivity]).
  assert (Q1 : pop_redundant (verts L') (llen L') = (((p0 :: G') ++ [y]) ++ [z; v0], Ok tt)).
  { unfold llen. rewrite <- P. apply pop_seam; [discriminate | exact Czp0 | |].
    - destruct (lastl_cases pre []) as [->|(q & -> & Hq)]; [left; reflexivity|]. right. exists q. split; [reflexivity|]. cbn [app hd].
      assert (Hvq : vcompare v0 q = false) by (apply (corner_third_distinct z), Hzpre, Hq).
      apply (is_collinear_on_line3 v0 v1); [apply on_line_start | exact (proj1 (Forall_forall _ _) Hlpre q Hq) | exact Hlp0 | rewrite Hvq; reflexivity].
    - rewrite !app_length. cbn [length]. lia. }
  rewrite Q1 in P1. injection P1 as P1.
  assert (EM : ((p0 :: G') ++ [y]) ++ [z; v0] = p0 :: (v1 :: base tl) ++ [v0]).
  { rewrite E1. cbn [app]. rewrite <- !app_assoc. reflexivity. }
  change (((p0 :: G') ++ [y]) ++ [z; v0] = vs1) in P1. rewrite EM in P1. subst vs1.
  set (M := (v1 :: base tl) ++ [v0]) in *.
  assert (HlenM : (3 <= length M)%nat) by (unfold M; rewrite app_length, Etl; unfold base; cbn [length map]; lia).
  assert (Cz01 : is_collinear z v0 v1 = Ok false) by (apply Hc0; [left; reflexivity | apply in_or_app; right; left; reflexivity]).
  assert (Q2 : pop_redundant (List.tl (p0 :: M)) (length (p0 :: M)) = (M, Ok tt)).
  { cbn [List.tl length]. apply pop_red_false. unfold M. rewrite E1.
    replace ((G' ++ [y; z]) ++ [v0]) with ((G' ++ [y]) ++ [z; v0]) by (rewrite <- !app_assoc; reflexivity).
    rewrite last_red_shape by (destruct G'; discriminate).
    replace (hd vzero (G' ++ [y])) with v1; [exact Cz01|].
    destruct G' as [|g G'']; cbn [app] in E1 |- *; injection E1; intros; subst; reflexivity. }
  assert (Cp0 : is_collinear v0 p0 v1 = Ok true).
  { assert (Hv : vcompare v0 p0 = false) by (apply (corner_third_distinct z), Czp0).
    apply (is_collinear_on_line3 v0 v1); [apply on_line_start | exact Hlp0 | apply on_line_end | rewrite Hv; reflexivity]. }
  assert (Hlast : vnth (p0 :: M) (length (p0 :: M) - 1) = v0).
  { unfold M. change (p0 :: (v1 :: base tl) ++ [v0]) with ((p0 :: v1 :: base tl) ++ [v0]). apply vnth_last1. }
  change (length (p0 :: M)) with (S (length M)) in P2 at 1.
  rewrite (drop_first_true (p0 :: M) M) in P2; [| cbn [length]; lia | rewrite Hlast; exact Cp0 | exact Q2].
  destruct (length M) as [|f] eqn:Elen; [lia|].
  rewrite drop_first_false in P2; [injection P2 as P2; symmetry; exact P2|].
  unfold M at 1 2. rewrite vnth_last1. unfold M. rewrite Etl. cbn [base map app vnth nth fst].
  apply Hc1; [left; reflexivity | apply in_or_app; right; left; reflexivity].
Qed.

(** ** the enrichment relation and the pipeline theorem *)
(** equal as cyclic sequences *)
Definition cyc_shift (l m : list V) : Prop := exists r1 r2 : list V, l = r1 ++ r2 /\ m = r2 ++ r1.
Lemma cyc_shift_refl (l : list V) : cyc_shift l l.
Proof. exists [], l. split; [reflexivity | rewrite app_nil_r; reflexivity]. Qed.
Lemma cyc_shift_rot1 (l m : list V) (a : V) : cyc_shift l (a :: m) -> cyc_shift l (m ++ [a]).
Proof.
  intros (r1 & r2 & E1 & E2). destruct r2 as [|b r2].
  - cbn [app] in E2. rewrite app_nil_r in E1. subst r1. subst l. exists [a], m. split; reflexivity.
  - cbn [app] in E2. injection E2 as Ea Em. subst b m l. exists (r1 ++ [a]), r2. split; rewrite <- app_assoc; reflexivity.
Qed.

(** [enrich l l']: l is an outline whose corners are all genuine (cyclically), and l' is obtained from it by inserting points
    exactly on its open edges -- [cyc_good]: on every edge a -> b finitely many points a + s (b - a), 0 < s < 1, in increasing
    order of s, such that every corner stays genuine towards the inserted points ([corner_kept]) -- and then entering the
    enriched cycle anywhere:
    - at a vertex v0 of l (the outline read from v0 on is  v0 :: base es;  points on the closing edge allowed), or
    - at an inserted point p0 of the edge v0 -> v1, whose points are pre ++ p0 :: post; then the input is
      p0 :: post ++ (the rest of the cycle) ++ v0 :: pre,  and p0 must be distinguishable (Point3D::compare, 1e-5 in some
      coordinate) from the points of its edge that follow it: otherwise [push] takes the third input point for a spike. *)
Inductive enrich (l : list V) : list V -> Prop :=
| enrich_at_vertex (v0 : V) (ms0 : list V) (es : list entry) :
    genuine_cycle l -> (2 <= length es)%nat -> cyc_shift l (v0 :: base es) -> cyc_good (v0, ms0) es ->
    enrich l (flat ((v0, ms0) :: es))
| enrich_at_inserted (v0 : V) (pre : list V) (p0 : V) (post : list V) (es : list entry) :
    genuine_cycle l -> (2 <= length es)%nat -> cyc_shift l (v0 :: base es) -> cyc_good (v0, pre ++ p0 :: post) es ->
    Forall (fun q => vcompare p0 q = false) post ->
    enrich l (p0 :: post ++ flat es ++ v0 :: pre).

Lemma enrich_genuine (l l' : list V) : enrich l l' -> genuine_cycle l.
Proof. intros [? ? ? H|? ? ? ? ? H]; exact H. Qed.

Theorem pipeline_enrichment (l l' : list V) (L L' : Loop R) :
  enrich l l' ->
  push_list loop_new l = Ok L -> snd (loop_close L) = Ok tt ->
  push_list loop_new l' = Ok L' -> snd (loop_close L') = Ok tt ->
  verts (fst (loop_close L)) = l /\ cyc_shift l (verts (fst (loop_close L'))).
Proof.
  intros He P C P' C'. split; [apply build_genuine; [exact (enrich_genuine _ _ He) | exact P | exact C]|].
  destruct He as [v0 ms0 es _ Hn Hs Hg | v0 pre p0 post es _ Hn Hs Hg Hd].
  - rewrite (build_enriched_at_vertex v0 ms0 es L' Hn Hg P' C'). exact Hs.
  - rewrite (build_enriched_at_inserted v0 pre p0 post es L' Hn Hg Hd P' C'). apply cyc_shift_rot1. exact Hs.
Qed.

(** same start vertex (points on the closing edge allowed): the very same vertex list *)
Theorem pipeline_enrichment_same_start (v0 : V) (ms0 : list V) (es : list entry) (L L' : Loop R) :
  genuine_cycle (v0 :: base es) -> (2 <= length es)%nat -> cyc_good (v0, ms0) es ->
  push_list loop_new (v0 :: base es) = Ok L -> snd (loop_close L) = Ok tt ->
  push_list loop_new (flat ((v0, ms0) :: es)) = Ok L' -> snd (loop_close L') = Ok tt ->
  verts (fst (loop_close L')) = v0 :: base es /\ verts (fst (loop_close L')) = verts (fst (loop_close L)).
Proof.
  intros G Hn Hg P C P' C'. rewrite (build_genuine _ L G P C). rewrite (build_enriched_at_vertex v0 ms0 es L' Hn Hg P' C'). split; reflexivity.
Qed.

(** ** the measures.  Perimeter, centroid (= mean of the stored vertices), number of vertices and the Newell vector
    S = sum v_i x v_{i+1} (twice the vector area: area = |n . S| / 2, orientation = sign of n . S) coincide. *)
Theorem enrichment_measures (l l' : list V) (L L' : Loop R) :
  enrich l l' ->
  push_list loop_new l = Ok L -> snd (loop_close L) = Ok tt ->
  push_list loop_new l' = Ok L' -> snd (loop_close L') = Ok tt ->
  let C := fst (loop_close L) in let C' := fst (loop_close L') in
  loop_perimeter C' = loop_perimeter C /\ loop_centroid C' = loop_centroid C /\ llen C' = llen C /\
  newell (verts C') = newell (verts C) /\
  loop_area C = Ok (Rabs (vdot (lnormal L) (newell l)) / 2) /\ loop_area C' = Ok (Rabs (vdot (lnormal L') (newell l)) / 2) /\
  0 <= vdot (lnormal C) (newell l) /\ 0 <= vdot (lnormal C') (newell l).
Proof.
  intros He P Cl P' Cl'. cbv zeta.
  destruct (pipeline_enrichment l l' L L' He P Cl P' Cl') as (E & r1 & r2 & E1 & E2).
  destruct (close_measures L Cl) as (Hc & _ & Ha & _ & Ho & Hp). destruct (close_measures L' Cl') as (Hc' & _ & Ha' & _ & Ho' & Hp').
  cbv zeta in *. unfold loop_perimeter, loop_area. rewrite Hc, Hc', (centroid_spec _ Hc), (centroid_spec _ Hc'). unfold llen.
  rewrite Hp, Hp', Ha, Ha'. rewrite E, E2 in *. clear E. subst l.
  assert (Hlen : length (r2 ++ r1) = length (r1 ++ r2)) by (rewrite !app_length; apply Nat.add_comm).
  rewrite (perimeter_rot r2 r1), (vsum_rot r2 r1), (newell_rot r2 r1), Hlen. rewrite (newell_rot r2 r1) in Ho'.
  repeat split; try reflexivity; assumption.
Qed.

(** area and normal: the normal field before [close] is the unit normal of the first stored corner at the moment the third
    vertex arrived -- the corner (l0, l1, l2) for l, the corner (p0, v1, m) for l' (m the first point pushed after v1).  For an
    exactly planar outline both are +- the unit normal of the plane; GIVEN that the two agree up to sign, the areas coincide
    and (non-zero area) so do the normals after the right-hand-rule flip of [set_area]. *)
Lemma vneg_neg (a : V) : vneg (vneg a) = a.
Proof. destruct a as [a1 a2 a3]. vring. Qed.
Theorem enrichment_area_normal (l l' : list V) (L L' : Loop R) :
  enrich l l' ->
  push_list loop_new l = Ok L -> snd (loop_close L) = Ok tt ->
  push_list loop_new l' = Ok L' -> snd (loop_close L') = Ok tt ->
  (lnormal L' = lnormal L \/ lnormal L' = vneg (lnormal L)) ->
  let C := fst (loop_close L) in let C' := fst (loop_close L') in
  loop_area C' = loop_area C /\ (vdot (lnormal L) (newell l) <> 0 -> lnormal C' = lnormal C).
Proof.
  intros He P Cl P' Cl' Hn. cbv zeta.
  destruct (enrichment_measures l l' L L' He P Cl P' Cl') as (_ & _ & _ & _ & Ha & Ha' & Ho & Ho'). cbv zeta in *.
  destruct (close_measures L Cl) as (_ & _ & _ & Hs & _). destruct (close_measures L' Cl') as (_ & _ & _ & Hs' & _). cbv zeta in *.
  rewrite Ha, Ha'. split.
  - destruct Hn as [->| ->]; [reflexivity|]. rewrite vdot_neg_l, Rabs_Ropp. reflexivity.
  - intros Hnz. destruct Hs as [Es|Es]; destruct Hs' as [Es'|Es']; destruct Hn as [En|En]; rewrite Es in *; rewrite Es' in *; rewrite En in *;
      rewrite ?vneg_neg in *; rewrite ?vdot_neg_l in *; try reflexivity; exfalso; lra.
Qed.

(** ** the normal held before close.  The stored list before close (the outline, possibly followed by one pending point) *)
Lemma stored_at_vertex (v0 : V) (ms0 : list V) (es : list entry) (L' : Loop R) :
  (2 <= length es)%nat -> cyc_good (v0, ms0) es ->
  push_list loop_new (flat ((v0, ms0) :: es)) = Ok L' -> exists pend : list V, verts L' = (v0 :: base es) ++ pend.
Proof.
  intros Hn Hg P. destruct es as [|[v1 ms1] tl]; [cbn in Hn; lia|].
  assert (Htl : (1 <= length tl)%nat) by (cbn [length] in Hn; lia). clear Hn.
  unfold cyc_good in Hg. cbn [last_entry fst] in Hg. destruct Hg as (He0 & Hc0 & Hch). cbn [fst snd next_vertex] in He0, Hc0.
  pose proof (on_edge_on_line _ _ _ He0) as Hl0.
  apply push_list_verts in P. cbn [verts loop_new] in P. rewrite !flat_cons in P.
  replace (v0 :: ms0 ++ v1 :: ms1 ++ flat tl) with ((v0 :: ms0 ++ [v1]) ++ (ms1 ++ flat tl)) in P
    by (cbn [app]; rewrite <- app_assoc; reflexivity).
  assert (S0 : pushv_list [] (v0 :: ms0 ++ [v1]) = Ok [v0; v1]).
  { rewrite (push_start v0 v1 v0 (ms0 ++ [v1])); [rewrite lastl_snoc; reflexivity | apply on_line_start | |].
    - apply Forall_app. split; [exact Hl0 | constructor; [apply on_line_end | constructor]].
    - apply Forall_forall. intros q Hq. apply (corner_third_distinct (fst (last_entry (v1, ms1) tl))). apply Hc0; [left; reflexivity | exact Hq]. }
  rewrite (pushv_list_app _ _ _ _ S0) in P.
  destruct (push_chain v0 tl [] v0 ms0 v0 v1 ms1 Hch (or_introl eq_refl)) as (G & y & z & zs & E1 & E2 & E3 & E4 & E5).
  cbn [app] in E1, E5. rewrite E5 in P. injection P as P.
  exists (lastl [] zs). rewrite <- P. cbn [base map fst]. fold (base tl). rewrite E1, <- app_assoc. reflexivity.
Qed.
Lemma stored_at_inserted (v0 : V) (pre : list V) (p0 : V) (post : list V) (es : list entry) (L' : Loop R) :
  (2 <= length es)%nat -> cyc_good (v0, pre ++ p0 :: post) es -> Forall (fun q => vcompare p0 q = false) post ->
  push_list loop_new (p0 :: post ++ flat es ++ v0 :: pre) = Ok L' -> exists pend : list V, verts L' = (p0 :: base es ++ [v0]) ++ pend.
Proof.
  intros Hn Hg Hd P. destruct es as [|[v1 ms1] tl]; [cbn in Hn; lia|]. destruct tl as [|[v2 ms2] tl']; [cbn in Hn; lia|]. clear Hn.
  unfold cyc_good in Hg. cbn [last_entry fst] in Hg. destruct Hg as (He0 & Hc0 & Hch). cbn [fst snd next_vertex] in He0, Hc0.
  pose proof Hch as (_ & Hc1 & _). cbn [fst snd next_vertex] in Hc1.
  remember ((v2, ms2) :: tl') as tl eqn:Etl.
  pose proof (on_edge_on_line _ _ _ He0) as Hl0. apply Forall_app in Hl0. destruct Hl0 as (Hlpre & Hl0). inversion Hl0 as [|? ? Hlp0 Hlpost]; subst x l.
  assert (Hin0 : In p0 (v0 :: pre ++ p0 :: post)) by (right; apply in_or_app; right; left; reflexivity).
  apply push_list_verts in P. cbn [verts loop_new] in P. rewrite flat_cons in P.
  replace (p0 :: post ++ (v1 :: ms1 ++ flat tl) ++ v0 :: pre) with ((p0 :: post ++ [v1]) ++ ((ms1 ++ flat tl) ++ ([v0] ++ pre))) in P
    by (cbn [app]; rewrite <- !app_assoc; reflexivity).
  assert (S0 : pushv_list [] (p0 :: post ++ [v1]) = Ok [p0; v1]).
  { rewrite (push_start v0 v1 p0 (post ++ [v1])); [rewrite lastl_snoc; reflexivity | exact Hlp0 | |].
    - apply Forall_app. split; [exact Hlpost | constructor; [apply on_line_end | constructor]].
    - apply Forall_app. split; [exact Hd|]. constructor; [|constructor].
      assert (C : is_collinear p0 v1 v2 = Ok false) by (apply Hc1; [exact Hin0 | apply in_or_app; right; left; reflexivity]).
      exact (proj1 (is_collinear_false_distinct _ _ _ C)). }
  rewrite (pushv_list_app _ _ _ _ S0) in P.
  destruct (push_chain v0 tl [] v0 (pre ++ p0 :: post) p0 v1 ms1 Hch Hin0) as (G & y & z & zs & E1 & E2 & E3 & E4 & E5).
  cbn [app] in E1, E5. rewrite (pushv_list_app _ _ _ _ E5) in P.
  pose proof E2 as E2'. rewrite Etl in E2'. cbn [last_entry] in E2'. rewrite <- E2' in Hc0. cbn [fst snd] in Hc0.
  (* the vertex v0 *)
  assert (S1 : pushv_list (G ++ [y; z] ++ lastl [] zs) [v0] = Ok ((G ++ [y]) ++ [z; v0] ++ [])).
  { destruct (push_edge_points v0 [v0] G y z (lastl [] zs)) as (E & _).
    - destruct (lastl_cases zs []) as [->|(q & -> & Hq)]; [left; reflexivity|]. right. exists q. split; [reflexivity|].
      split; [exact (proj1 (Forall_forall _ _) E4 q Hq) | apply (corner_third_distinct y), E3, in_or_app; left; exact Hq].
    - constructor; [apply on_line_end | constructor].
    - constructor; [apply E3, in_or_app; right; left; reflexivity | constructor].
    - rewrite E. cbn [lastl app]. rewrite <- app_assoc. reflexivity. }
  rewrite (pushv_list_app _ _ _ _ S1) in P.
  assert (Hzpre : forall q, In q pre -> is_collinear z v0 q = Ok false).
  { intros q Hq. apply Hc0; [left; reflexivity | apply in_or_app; left; apply in_or_app; left; exact Hq]. }
  destruct (push_edge_points v1 pre (G ++ [y]) z v0 [] (or_introl eq_refl) Hlpre) as (S2 & _).
  { apply Forall_forall. exact Hzpre. }
  rewrite S2 in P. injection P as P.
  exists (lastl [] pre). rewrite <- P.
  assert (EB : p0 :: base ((v1, ms1) :: tl) ++ [v0] = (G ++ [y; z]) ++ [v0]) by (rewrite <- E1; reflexivity).
  rewrite EB, <- !app_assoc. reflexivity.
Qed.

(** ** non-vacuity over the reals: the unit square with two extra points on its first edge and one on its closing edge,
    the input starting at an inserted point of the first edge *)
Lemma vcompare_false_intro (a b : V) :
  1 / 100000 <= Rabs (vx a - vx b) \/ 1 / 100000 <= Rabs (vy a - vy b) \/ 1 / 100000 <= Rabs (vz a - vz b) -> vcompare a b = false.
Proof.
  intros H. unfold vcompare, c1em5. rnum. destruct H as [H|[H|H]]; apply Rltb_false in H; rewrite H;
    rewrite ?andb_false_r; reflexivity.
Qed.
Lemma col_false_intro (a b c : V) :
  vcompare a b = false -> vcompare a c = false -> vcompare b c = false ->
  (1 / 100000) * (1 / 100000) <= vlen2 (vcross (vsub b a) (vsub c b)) -> is_collinear a b c = Ok false.
Proof.
  intros H1 H2 H3 H. unfold is_collinear. rewrite H1, H2, H3. cbn [andb orb]. cbv zeta. f_equal. apply Rltb_false.
  unfold vlen, c1em5. rnum. rewrite <- (sqrt_square (1 / 100000)) by lra. apply sqrt_le_1_alt. exact H.
Qed.
Ltac vcmp_false := apply vcompare_false_intro; cbn [vx vy vz];
  first [ left; solve [unfold Rabs; destruct (Rcase_abs _); lra]
        | right; left; solve [unfold Rabs; destruct (Rcase_abs _); lra]
        | right; right; solve [unfold Rabs; destruct (Rcase_abs _); lra] ].
Ltac col_false := apply col_false_intro; [vcmp_false | vcmp_false | vcmp_false | unfold vlen2, vcross, vsub; cbn [vx vy vz]; rnum; lra].

Definition ex_input : list V :=
  [mkV3 (1/2) 0 0; mkV3 1 0 0; mkV3 1 1 0; mkV3 0 1 0; mkV3 0 (1/2) 0; mkV3 0 0 0; mkV3 (1/4) 0 0].
Example enrich_square : enrich square_pts ex_input.
Proof.
  apply (enrich_at_inserted square_pts (mkV3 0 0 0) [mkV3 (1/4) 0 0] (mkV3 (1/2) 0 0) []
           [(mkV3 1 0 0, []); (mkV3 1 1 0, []); (mkV3 0 1 0, [mkV3 0 (1/2) 0])]).
  - unfold genuine_cycle, square_pts. cbn [app genuine_chain]. repeat split; col_false.
  - cbn [length]. lia.
  - exists [], square_pts. split; reflexivity.
  - unfold cyc_good. cbn [last_entry chain_good fst snd next_vertex app].
    assert (E0 : on_edge (mkV3 0 0 0) (mkV3 1 0 0) [mkV3 (1/4) 0 0; mkV3 (1/2) 0 0]).
    { exists [1/4; 1/2]. split; [|split; [repeat constructor; lra | repeat constructor; lra]].
      cbn [map]. unfold pt_on. f_equal; [apply v3_eq; vunf; rnum; lra | f_equal; apply v3_eq; vunf; rnum; lra]. }
    assert (E3 : on_edge (mkV3 0 1 0) (mkV3 0 0 0) [mkV3 0 (1/2) 0]).
    { exists [1/2]. split; [|split; [repeat constructor; lra | repeat constructor]].
      cbn [map]. unfold pt_on. f_equal. apply v3_eq; vunf; rnum; lra. }
    assert (En : forall a b : V, on_edge a b []) by (intros a b; exists []; repeat split; constructor).
    repeat split; try exact E0; try exact E3; try apply En;
      intros p q Hp Hq; cbn [In app] in Hp, Hq;
      repeat match goal with H : _ \/ _ |- _ => destruct H | H : False |- _ => destruct H end; subst; col_false.
  - constructor.
Qed.

(** ** the normal field: once three vertices are stored, it is the unit normal of the FIRST stored corner (live push:
    recomputed whenever the list has exactly three vertices, zeroed below three, kept above) *)
Lemma push_normal_inv (L L' : Loop R) (p : V) : loop_push L p = Ok L' ->
  ((3 <= llen L)%nat -> lnormal L = tri_normal (verts L)) -> (3 <= llen L')%nat -> lnormal L' = tri_normal (verts L').
Proof.
  intros H I H3. pose proof (live_push_normal _ _ _ H) as HL. destruct (push_live_effect _ _ _ H) as (_ & Hs & _).
  rewrite HL. destruct (Nat.eqb (llen L') 3) eqn:E3; [reflexivity|]. apply Nat.eqb_neq in E3.
  destruct (Nat.ltb (llen L') 3) eqn:El; [apply Nat.ltb_lt in El; lia|]. clear HL El.
  unfold llen in *. destruct Hs as [Hl E| r a b Er _ E| keep H2 Hk Hck E]; rewrite E in *.
  - rewrite app_length in H3. cbn [length] in H3. lia.
  - rewrite length_removelast in *. rewrite tri_normal_removelast by lia. apply I. lia.
  - rewrite app_length, firstn_length in *. cbn [length] in *. rewrite tri_normal_firstn_snoc by lia. apply I. lia.
Qed.
Lemma push_list_normal_inv (pts : list V) : forall (L L' : Loop R), push_list L pts = Ok L' ->
  ((3 <= llen L)%nat -> lnormal L = tri_normal (verts L)) -> (3 <= llen L')%nat -> lnormal L' = tri_normal (verts L').
Proof.
  induction pts as [|p pts IH]; intros L L' H I; cbn [push_list] in H.
  - injection H as H. subst. exact I.
  - destruct (loop_push L p) as [L1| |] eqn:E; cbn [rbind] in H; try discriminate.
    apply (IH L1 L' H). apply (push_normal_inv L L1 p E I).
Qed.

(** an exactly planar outline: unit normal N, every vertex in the plane through o *)
Definition planar (N o : V) (l : list V) : Prop := vdot N N = 1 /\ forall v : V, In v l -> vdot N (vsub v o) = 0.

Lemma corner_normal_planar (N a b c : V) : vdot N N = 1 -> vdot N (vsub b a) = 0 -> vdot N (vsub c b) = 0 ->
  is_collinear a b c = Ok false ->
  tri_normal [a; b; c] = N \/ tri_normal [a; b; c] = vneg N.
Proof.
  intros HN H1 H2 C. cbn [tri_normal]. rewrite (cross_in_plane N _ _ HN H1 H2).
  apply vnormalize_scaled_unit; [exact HN|]. intros Hk.
  assert (Z : vcross (vsub b a) (vsub c b) = vzero).
  { rewrite (cross_in_plane N _ _ HN H1 H2), Hk. destruct N as [n1 n2 n3]. vring. }
  destruct (is_collinear_false_distinct _ _ _ C) as (D1 & _ & _).
  rewrite (is_collinear_cross0 a b c Z) in C by (rewrite D1; reflexivity). discriminate.
Qed.
Lemma tri_normal_3 (a b c : V) (r : list V) : tri_normal (a :: b :: c :: r) = tri_normal [a; b; c].
Proof. reflexivity. Qed.

Lemma cyc_shift_in (l m : list V) (v : V) : cyc_shift l m -> In v m -> In v l.
Proof. intros (r1 & r2 & -> & ->) H. apply in_or_app. apply in_app_or in H. tauto. Qed.
Lemma cyc_shift_length (l m : list V) : cyc_shift l m -> length l = length m.
Proof. intros (r1 & r2 & -> & ->). rewrite !app_length. apply Nat.add_comm. Qed.

(** for an exactly planar outline the normals held before close agree up to sign *)
Theorem enrichment_normals_agree (l l' : list V) (L L' : Loop R) (N o : V) :
  enrich l l' -> planar N o l ->
  push_list loop_new l = Ok L -> snd (loop_close L) = Ok tt ->
  push_list loop_new l' = Ok L' -> snd (loop_close L') = Ok tt ->
  (lnormal L = N \/ lnormal L = vneg N) /\ (lnormal L' = N \/ lnormal L' = vneg N).
Proof.
  intros He (HN & Hpl) P Cl P' Cl'.
  assert (Hin : forall a b : V, In a l -> In b l -> vdot N (vsub b a) = 0).
  { intros a b Ha Hb. rewrite (vdot_sub_origin N a b o), (Hpl a Ha), (Hpl b Hb). ring. }
  assert (H3 : forall X : Loop R, snd (loop_close X) = Ok tt -> (3 <= llen X)%nat).
  { intros X HX. unfold loop_close in HX. destruct (lclosed X); [discriminate|]. destruct (Nat.ltb (llen X) 3) eqn:E; [discriminate|]. apply Nat.ltb_ge in E. exact E. }
  assert (Inew : (3 <= llen (@loop_new R _))%nat -> lnormal (@loop_new R _) = tri_normal (verts (@loop_new R _))) by (cbn; lia).
  pose proof (push_list_normal_inv l _ L P Inew (H3 L Cl)) as NL.
  pose proof (push_list_normal_inv l' _ L' P' Inew (H3 L' Cl')) as NL'.
  split.
  - (* l itself *)
    pose proof (enrich_genuine _ _ He) as G.
    assert (Hl3 : (3 <= length l)%nat) by (destruct He as [? ? ? _ Hn Hs _|? ? ? ? ? _ Hn Hs _ _]; rewrite (cyc_shift_length _ _ Hs); unfold base; cbn [length]; rewrite map_length; lia).
    destruct l as [|a [|b [|c r]]]; cbn [length] in Hl3; try lia.
    assert (E : verts L = a :: b :: c :: r).
    { apply (push_list_genuine (a :: b :: c :: r) loop_new L); [|exact P]. cbn [verts loop_new app]. apply (genuine_chain_prefix _ [a; b]). exact G. }
    rewrite NL, E, tri_normal_3. unfold genuine_cycle in G. cbn [app genuine_chain] in G. destruct G as (C & _).
    apply corner_normal_planar; [exact HN | apply Hin; cbn; tauto | apply Hin; cbn; tauto | exact C].
  - destruct He as [v0 ms0 es _ Hn Hs Hg | v0 pre p0 post es _ Hn Hs Hg Hd].
    + destruct (stored_at_vertex v0 ms0 es L' Hn Hg P') as (pend & E).
      destruct es as [|[v1 ms1] [|[v2 ms2] tl']]; cbn [length] in Hn; try lia.
      rewrite NL', E. cbn [base map fst app]. rewrite tri_normal_3.
      assert (I0 : In v0 l) by (apply (cyc_shift_in _ _ _ Hs); cbn; tauto).
      assert (I1 : In v1 l) by (apply (cyc_shift_in _ _ _ Hs); cbn; tauto).
      assert (I2 : In v2 l) by (apply (cyc_shift_in _ _ _ Hs); cbn; tauto).
      unfold cyc_good in Hg. destruct Hg as (_ & _ & _ & Hc1 & _). cbn [fst snd next_vertex] in Hc1.
      apply corner_normal_planar; [exact HN | apply Hin; assumption | apply Hin; assumption|].
      apply Hc1; [left; reflexivity | apply in_or_app; right; left; reflexivity].
    + destruct (stored_at_inserted v0 pre p0 post es L' Hn Hg Hd P') as (pend & E).
      destruct es as [|[v1 ms1] [|[v2 ms2] tl']]; cbn [length] in Hn; try lia.
      rewrite NL', E. cbn [base map fst app]. rewrite tri_normal_3.
      assert (I0 : In v0 l) by (apply (cyc_shift_in _ _ _ Hs); cbn; tauto).
      assert (I1 : In v1 l) by (apply (cyc_shift_in _ _ _ Hs); cbn; tauto).
      assert (I2 : In v2 l) by (apply (cyc_shift_in _ _ _ Hs); cbn; tauto).
      unfold cyc_good in Hg. destruct Hg as (He0 & _ & _ & Hc1 & _). cbn [fst snd next_vertex] in He0, Hc1.
      pose proof (on_edge_on_line _ _ _ He0) as Hl0.
      assert (Hp0 : on_line v0 v1 p0) by (apply (proj1 (Forall_forall _ _) Hl0); apply in_or_app; right; left; reflexivity).
      destruct Hp0 as (s & ->).
      apply corner_normal_planar; [exact HN | | apply Hin; assumption|].
      * unfold pt_on. rewrite vdot_from_line_point, (Hin v0 v1 I0 I1). ring.
      * apply Hc1; [right; apply in_or_app; right; left; reflexivity | apply in_or_app; right; left; reflexivity].
Qed.

(** hence: same area, and (non-zero area) same normal *)
Theorem enrichment_area_normal_planar (l l' : list V) (L L' : Loop R) (N o : V) :
  enrich l l' -> planar N o l ->
  push_list loop_new l = Ok L -> snd (loop_close L) = Ok tt ->
  push_list loop_new l' = Ok L' -> snd (loop_close L') = Ok tt ->
  let C := fst (loop_close L) in let C' := fst (loop_close L') in
  loop_area C' = loop_area C /\ (vdot N (newell l) <> 0 -> lnormal C' = lnormal C).
Proof.
  intros He Hp P Cl P' Cl'. cbv zeta.
  destruct (enrichment_normals_agree l l' L L' N o He Hp P Cl P' Cl') as (A & A').
  assert (Hn : lnormal L' = lnormal L \/ lnormal L' = vneg (lnormal L)).
  { destruct A as [-> | ->]; destruct A' as [-> | ->]; rewrite ?vneg_neg; auto. }
  destruct (enrichment_area_normal l l' L L' He P Cl P' Cl' Hn) as (B1 & B2). cbv zeta in *.
  split; [exact B1|]. intros Hnz. apply B2. destruct A as [-> | ->]; [exact Hnz|]. rewrite vdot_neg_l. lra.
Qed.

Example square_planar :
  let N : V := mkV3 0 0 1 in
  vdot N N = 1 /\ (forall v : V, In v [mkV3 0 0 0; mkV3 1 0 0; mkV3 1 1 0; mkV3 0 1 0] -> vdot N (vsub v (mkV3 0 0 0)) = 0).
Proof.
  cbv zeta. split; [vunf; rnum; ring|]. intros v Hv. cbn [In] in Hv.
  repeat match goal with H : _ \/ _ |- _ => destruct H | H : False |- _ => destruct H end; subst; vunf; rnum; ring.
Qed.

(** ** the conditions are those of the CYCLE: [cyc_good] does not depend on the entry the cycle is read from *)
Lemma next_vertex_snoc (tl : list entry) (e : entry) (b : V) :
  next_vertex (tl ++ [e]) b = next_vertex tl (fst e).
Proof. destruct tl; reflexivity. Qed.
Lemma last_entry_snoc (tl : list entry) : forall d e : entry, last_entry d (tl ++ [e]) = e.
Proof. induction tl as [|u tl IH]; intros d e; cbn [app last_entry]; [reflexivity | apply IH]. Qed.
Lemma chain_good_snoc (es : list entry) : forall (x : V) (xs : list V) (e : entry) (b : V),
  chain_good x xs es (fst e) ->
  on_edge (fst e) b (snd e) ->
  corner_kept (fst (last_entry (x, xs) es)) (snd (last_entry (x, xs) es)) (fst e) (snd e) b ->
  chain_good x xs (es ++ [e]) b.
Proof.
  induction es as [|u es IH]; intros x xs e b H He Hc.
  - cbn [app chain_good next_vertex]. cbn [last_entry fst snd] in Hc. repeat split; assumption.
  - cbn [app]. destruct H as (H1 & H2 & H3). cbn [chain_good]. rewrite next_vertex_snoc. split; [exact H1|]. split; [exact H2|].
    apply IH; [exact H3 | exact He|]. cbn [last_entry] in Hc. destruct u as [u1 u2]. exact Hc.
Qed.
Theorem cyc_good_rot1 (e0 e1 : entry) (tl : list entry) : cyc_good e0 (e1 :: tl) -> cyc_good e1 (tl ++ [e0]).
Proof.
  unfold cyc_good. rewrite last_entry_snoc. cbn [last_entry]. intros (H1 & H2 & H3). cbn [next_vertex] in H1, H2.
  change (e1 :: tl ++ [e0]) with ((e1 :: tl) ++ [e0]). destruct e0 as [v0 ms0]. cbn [fst snd] in *.
  apply chain_good_snoc; cbn [fst snd last_entry]; assumption.
Qed.

(** ** the start point only needs to be distinguishable from its SUCCESSOR: the later points of the edge are farther *)
Lemma vcompare_false_elim (a b : V) : vcompare a b = false ->
  1 / 100000 <= Rabs (vx a - vx b) \/ 1 / 100000 <= Rabs (vy a - vy b) \/ 1 / 100000 <= Rabs (vz a - vz b).
Proof.
  unfold vcompare, c1em5. rnum. intros H.
  destruct (Rltb (Rabs (vx a - vx b)) (1 / 100000)) eqn:E1; [|left; apply Rltb_false; exact E1].
  destruct (Rltb (Rabs (vy a - vy b)) (1 / 100000)) eqn:E2; [|right; left; apply Rltb_false; exact E2].
  destruct (Rltb (Rabs (vz a - vz b)) (1 / 100000)) eqn:E3; [discriminate|right; right; apply Rltb_false; exact E3].
Qed.
Lemma vcompare_farther (a b : V) (s t t' : R) : s < t -> t <= t' ->
  vcompare (pt_on a b s) (pt_on a b t) = false -> vcompare (pt_on a b s) (pt_on a b t') = false.
Proof.
  intros Hst Htt H. apply vcompare_false_elim in H. apply vcompare_false_intro.
  assert (M : forall d : R, Rabs ((s - t) * d) <= Rabs ((s - t') * d)).
  { intros d. rewrite !Rabs_mult. apply Rmult_le_compat_r; [apply Rabs_pos|]. rewrite !Rabs_left1 by lra. lra. }
  unfold pt_on in *. revert H. vunf. rnum. intros H.
  destruct H as [H|[H|H]]; [left | right; left | right; right]; eapply Rle_trans; try exact H.
  - replace (vx a + (vx b - vx a) * s - (vx a + (vx b - vx a) * t)) with ((s - t) * (vx b - vx a)) by ring.
    replace (vx a + (vx b - vx a) * s - (vx a + (vx b - vx a) * t')) with ((s - t') * (vx b - vx a)) by ring. apply M.
  - replace (vy a + (vy b - vy a) * s - (vy a + (vy b - vy a) * t)) with ((s - t) * (vy b - vy a)) by ring.
    replace (vy a + (vy b - vy a) * s - (vy a + (vy b - vy a) * t')) with ((s - t') * (vy b - vy a)) by ring. apply M.
  - replace (vz a + (vz b - vz a) * s - (vz a + (vz b - vz a) * t)) with ((s - t) * (vz b - vz a)) by ring.
    replace (vz a + (vz b - vz a) * s - (vz a + (vz b - vz a) * t')) with ((s - t') * (vz b - vz a)) by ring. apply M.
Qed.

Lemma start_distinct_from_successor (a b : V) (pre : list V) (p0 : V) (post : list V) :
  on_edge a b (pre ++ p0 :: post) ->
  match post with [] => True | q :: _ => vcompare p0 q = false end ->
  Forall (fun q => vcompare p0 q = false) post.
Proof.
  intros (ss & E & _ & Hs) H. symmetry in E. apply map_eq_app in E. destruct E as (s1 & s2 & -> & _ & E).
  apply map_eq_cons in E. destruct E as (s0 & ts & -> & <- & <-).
  assert (Hs2 : StronglySorted Rlt (s0 :: ts)).
  { clear H. induction s1 as [|u s1 IH]; [exact Hs|]. apply IH. cbn [app] in Hs. apply StronglySorted_inv in Hs. tauto. }
  apply StronglySorted_inv in Hs2. destruct Hs2 as (Hts & Hlt).
  destruct ts as [|t1 ts]; [constructor|]. cbn [map] in *.
  constructor; [exact H|]. apply StronglySorted_inv in Hts. destruct Hts as (_ & Ht1). inversion Hlt as [|? ? Hs01 _]; subst.
  apply Forall_forall. intros q Hq. apply in_map_iff in Hq. destruct Hq as (t & <- & Ht).
  apply (vcompare_farther a b s0 t1 t); [exact Hs01 | | exact H].
  apply Rlt_le. exact (proj1 (Forall_forall _ _) Ht1 t Ht).
Qed.

(** [enrich_at_inserted] with the weaker hypothesis *)
Theorem enrich_at_inserted_succ (l : list V) (v0 : V) (pre : list V) (p0 : V) (post : list V) (es : list entry) :
  genuine_cycle l -> (2 <= length es)%nat -> cyc_shift l (v0 :: base es) -> cyc_good (v0, pre ++ p0 :: post) es ->
  match post with [] => True | q :: _ => vcompare p0 q = false end ->
  enrich l (p0 :: post ++ flat es ++ v0 :: pre).
Proof.
  intros G Hn Hs Hg Hd. apply enrich_at_inserted; try assumption.
  unfold cyc_good in Hg. destruct Hg as (He0 & _). cbn [fst snd] in He0. exact (start_distinct_from_successor _ _ _ _ _ He0 Hd).
Qed.
