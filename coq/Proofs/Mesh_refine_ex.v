(** * Mesh_refine_ex: non-vacuity for Properties/C08_refine.v. *)
From Coq Require Import ZArith Reals Lra Lia List Bool Arith Permutation Floats.
Set Warnings "-inexact-float".
From G3 Require Import Model.Num Model.NumF Model.Base Model.Vec Model.Segment Model.Triangle Model.Loop Model.Polygon Model.Triangulation
  Theory.RInst Theory.Cyclic Theory.Winding
  Proofs.Mesh_base Proofs.Mesh_wf Proofs.Mesh_conf Proofs.Mesh_region Proofs.Mesh_atomic Proofs.Mesh_region_ex
  Proofs.Mesh_links Proofs.Mesh_links_steps Proofs.Mesh_links_region Proofs.Mesh_links_ex Proofs.Mesh_refine_trace Proofs.Mesh_refine_region.
From G3 Require Proofs.C05_pointtest.
Import ListNotations.

(** ** binary64: refine of the unit-square mesh performs a non-trivial trace and returns Ok (the trace machinery runs on
    every number instance; the side conditions of the region theorems are about the real instance) *)
Lemma refine_trace_float_nonvacuous :
  exists M' : Mesh float, refine 50 0.1%float 1.5%float sqM = (M', Ok RDone) /\
    Nat.leb 10 (length (refine_trace 50 0.1%float 1.5%float sqM)) = true /\ Nat.leb 8 (length (live_tris M')) = true.
Proof. eexists. split; [vm_compute; reflexivity|]. split; vm_compute; reflexivity. Qed.

(** ** reals: the hypotheses of the refine theorems hold on the one-triangle mesh [xM]; its cached circumcentre is the vertex
    (0,0,0), so the pass locates it at VertexA and performs the (no-op) step [OAddPoint]: a one-event trace *)
Local Open Scope R_scope.
Lemma tt_vertexA : tri_test_point xT0 wA = VertexA.
Proof.
  unfold tri_test_point, xT0, wA, wB, wC. cbn [ta tb tc]. unfold vsub, vdot. cbn [vx vy vz]. unfold ctiny. rnum. fold weps.
  pose proof weps_bounds as He. generalize dependent weps. intros e He.
  set (det := ((1 - 0) * (1 - 0) + (0 - 0) * (0 - 0) + (0 - 0) * (0 - 0)) * ((0 - 0) * (0 - 0) + (1 - 0) * (1 - 0) + (0 - 0) * (0 - 0)) -
              ((0 - 0) * (1 - 0) + (1 - 0) * (0 - 0) + (0 - 0) * (0 - 0)) * ((0 - 0) * (1 - 0) + (1 - 0) * (0 - 0) + (0 - 0) * (0 - 0))).
  replace det with 1 by (unfold det; ring). rdecb. reflexivity.
Qed.
Lemma x_add_point : add_point wA xM = (xM, Ok false).
Proof. unfold add_point, xM. cbn [tris find_container xt0 tp_valid negb tp_tri]. rewrite tt_vertexA. reflexivity. Qed.
Definition x_a : R := / 4.
Definition x_m : R := 1.
Lemma x_refine_pass : refine_pass x_a x_m 1 0 [xt0] false xM = (xM, Ok false) /\ refine_pass_trace x_a x_m 1 0 [xt0] xM = [TStep (OAddPoint wA)].
Proof.
  assert (B1 : nltb (tarea (tp_tri xt0)) c1em3 = false) by (cbn [xt0 tp_tri xT0 tarea]; unfold c1em3; rnum; apply Rltb_false; lra).
  assert (B2 : nltb x_m (tp_ar xt0) = false) by (cbn [xt0 tp_ar]; unfold x_m; rnum; apply Rltb_false; lra).
  assert (B3 : nltb x_a (tarea (tp_tri xt0)) = true) by (cbn [xt0 tp_tri xT0 tarea]; unfold x_a; rnum; apply Rltb_true; lra).
  assert (Ecc : tp_cc xt0 = wA) by reflexivity.
  split.
  - cbn [refine_pass]. change (tp_valid xt0) with true. cbn [negb]. rewrite B1, B2, B3, Ecc, x_add_point. reflexivity.
  - cbn [refine_pass_trace]. change (tp_valid xt0) with true. cbn [negb]. rewrite B1, B2, B3, Ecc, x_add_point. reflexivity.
Qed.
Lemma x_refine : refine 1 x_a x_m xM = (xM, Ok RDone) /\ refine_trace 1 x_a x_m xM = [TStep (OAddPoint wA)].
Proof.
  destruct x_refine_pass as [H1 H2]. change (tris xM) with [xt0]. split.
  - cbn [refine]. change (length (tris xM)) with 1%nat. change (tris xM) with [xt0]. unfold mbind. rewrite H1. reflexivity.
  - cbn [refine_trace]. change (length (tris xM)) with 1%nat. change (tris xM) with [xt0]. rewrite H1, H2. reflexivity.
Qed.
Lemma x_in_plane (p : V3 R) : vz p = 0 -> in_plane wA wB wC p.
Proof. intros Hz. exists (vx p), (vy p). destruct p as [p1 p2 p3]. cbn [vz vx vy] in *. subst p3. unfold emb, wA, wB, wC, vadd, vscale. cbn [vx vy vz]. rnum. f_equal; ring. Qed.
Lemma xM_INV : INV wA wB wC xM.
Proof.
  destruct xM_GEO as [G0 _]. split; [|split; [reflexivity|]].
  - intros i t H e j Hn. destruct i as [|[|i]]; cbn in H; try discriminate. inversion H; subst t. destruct e; discriminate.
  - split; [exact G0|]. split.
    + intros x Hx. apply x_in_plane. destruct (xM_verts _ Hx) as [-> | [-> | ->]]; reflexivity.
    + unfold AllPos, tris2, live_tris, live_l, xM, xt0. cbn [tris filter tp_valid map tp_tri]. constructor; [|constructor].
      unfold pos3, t2, xT0. cbn [ta tb tc fst snd]. unfold C05_pointtest.plane2, orient, wA, wB, wC, vsub, vdot. cbn [vx vy vz fst snd]. rnum. lra.
Qed.
Lemma refine_hyp_nonvacuous :
  exists (M M' : Mesh R) (o e1 e2 : V3 R) (a m : R) (d q : P2),
    vdot e1 e1 = 1 /\ vdot e2 e2 = 1 /\ vdot e1 e2 = 0 /\ INV o e1 e2 M /\ refine 1 a m M = (M', Ok RDone) /\ refine_trace 1 a m M <> [] /\
    tr_ok (side o e1 e2 (fun p => hgt d q (C05_pointtest.plane2 o e1 e2 p) <> 0)) M (refine_trace 1 a m M).
Proof.
  destruct x_refine as [H1 H2]. destruct xM_GEO as [G0 S0].
  exists xM, xM, wA, wB, wC, x_a, x_m, (1, 0), (/ 2, / 3).
  split; [unfold vdot, wB; cbn [vx vy vz]; rnum; ring|]. split; [unfold vdot, wC; cbn [vx vy vz]; rnum; ring|]. split; [unfold vdot, wB, wC; cbn [vx vy vz]; rnum; ring|].
  split; [exact xM_INV|]. split; [exact H1|]. split; [rewrite H2; discriminate|]. rewrite H2. cbn [tr_ok side]. split; [|exact I].
  split; [|split; [apply x_in_plane; reflexivity | split; [|split]]].
  - intros x y Hx Hy. apply x_pts_sep; [destruct Hx as [Q | ->] | destruct Hy as [Q | ->]]; cbn [In]; try (destruct (xM_verts _ Q) as [-> | [-> | ->]]); auto.
  - intros i loc E. unfold xM in E. cbn [tris find_container xt0 tp_valid negb tp_tri] in E. rewrite tt_vertexA in E. inversion E; subst. exact I.
  - intros i E. unfold xM in E. cbn [tris find_container xt0 tp_valid negb tp_tri] in E. rewrite tt_vertexA in E. inversion E.
  - unfold hgt, C05_pointtest.plane2, wA, wB, wC, vsub, vdot. cbn [vx vy vz fst snd]. rnum. lra.
Qed.
