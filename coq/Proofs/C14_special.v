(** * C14, IEEE special values (Thm 2): what [intersect] does with the +-inf and NaN that
    axis-parallel rays produce ([inv_dirB = 1/+-0 = +-inf], [0 * inf = NaN] when the origin lies in a
    face plane).

    Part 1 is a complete table, proved once for any number instance whose NaN and infinities behave
    as in IEEE-754 (section hypotheses); Part 2 discharges these hypotheses for every Flocq binary
    format and derives which *inputs* produce which row of the table; Part 3 = witnesses by
    [vm_compute] on binary64. *)
From Coq Require Import ZArith Reals Bool List Lra Lia.
From Coq Require Import Floats.SpecFloat.
From Flocq Require Import Core BinarySingleNaN Plus_error.
From G3 Require Import Model.Num Model.Base Model.Vec Model.BBox Proofs.C14_real.
Local Open Scope num_scope.

(** ** Part 1: the table, for an abstract IEEE-like instance *)
Section Table.
  Context {K : Type} {NK : Num K}.
  Variables (nan pinf minf : K).
  Hypothesis lt_nan_l : forall x, nan <? x = false.
  Hypothesis lt_nan_r : forall x, x <? nan = false.
  Hypothesis nan_mul : forall x, nan * x = nan.
  Hypothesis lt_pinf_l : forall x, pinf <? x = false.          (* nothing is above +inf *)
  Hypothesis lt_minf_r : forall x, x <? minf = false.          (* nothing is below -inf *)
  Hypothesis top : forall x, x <? pinf = false -> forall y, x <? y = false.   (* not below +inf: +inf or NaN *)
  Hypothesis minf_neg : minf <? n0 = true.
  Hypothesis pinf_pos : pinf <? n0 = false.
  Hypothesis minf_pinf : minf <? pinf = true.
  Hypothesis pinf_widen : pinf * widen = pinf.

  Ltac cmp1 :=
    match goal with
    | |- context [?a <? ?b] =>
      lazymatch a with context [_ <? _] => fail | _ => idtac end;
      lazymatch b with context [_ <? _] => fail | _ => idtac end;
      let E := fresh "E" in destruct (a <? b) eqn:E; cbv beta iota zeta; cbn [orb andb fst snd]
    end.
  Ltac norm := repeat first [rewrite lt_nan_l | rewrite lt_nan_r | rewrite nan_mul | rewrite lt_pinf_l | rewrite lt_minf_r
                            | rewrite minf_neg | rewrite pinf_pos | rewrite minf_pinf | rewrite pinf_widen];
               cbv beta iota zeta; cbn [orb andb fst snd].
  Ltac usetop := repeat match goal with E : (?x <? pinf) = false |- context [?x <? _] => rewrite !(top x E) end.
  Ltac go := unfold slab_core; norm; repeat (cmp1; norm; usetop; norm); try reflexivity; try congruence.

  Definition ans (x1 x2 y1 y2 z1 z2 : K) : bool := fst (slab_core x1 x2 y1 y2 z1 z2).

  (** *** rows that lose the ray although the origin is inside the slab *)
  (** a NaN anywhere in the x slab survives to the final comparison *)
  Lemma x_nan_min x2 y1 y2 z1 z2 : ans nan x2 y1 y2 z1 z2 = false.
  Proof. unfold ans. go. Qed.
  Lemma x_nan_max x1 y1 y2 z1 z2 : ans x1 nan y1 y2 z1 z2 = false.
  Proof. unfold ans. go. Qed.
  (** y or z slab, inv = -inf, origin in a face plane: the NaN blocks the near/far swap *)
  Lemma y_nan_minf x1 x2 z1 z2 : ans x1 x2 nan minf z1 z2 = false.
  Proof. unfold ans. go. Qed.
  Lemma z_nan_minf x1 x2 y1 y2 : ans x1 x2 y1 y2 nan minf = false.
  Proof. unfold ans. go. Qed.
  Lemma y_pinf_nan x1 x2 z1 z2 : ans x1 x2 pinf nan z1 z2 = false.
  Proof. unfold ans. go. Qed.
  Lemma z_pinf_nan x1 x2 y1 y2 : ans x1 x2 y1 y2 pinf nan = false.
  Proof. unfold ans. go. Qed.

  (** *** rows that reject correctly: the origin is outside the slab of a zero direction component *)
  Lemma x_behind y1 y2 z1 z2 : ans minf minf y1 y2 z1 z2 = false.
  Proof. unfold ans. go. Qed.
  Lemma y_behind x1 x2 z1 z2 : ans x1 x2 minf minf z1 z2 = false.
  Proof. unfold ans. go. Qed.
  Lemma z_behind x1 x2 y1 y2 : ans x1 x2 y1 y2 minf minf = false.
  Proof. unfold ans. go. Qed.
  Lemma x_never y1 y2 z1 z2 : ans pinf pinf y1 y2 z1 z2 = false.
  Proof. unfold ans. go. Qed.
  Lemma y_never x1 x2 z1 z2 : ans x1 x2 pinf pinf z1 z2 = false.
  Proof. unfold ans. go. Qed.
  Lemma z_never x1 x2 y1 y2 : ans x1 x2 y1 y2 pinf pinf = false.
  Proof. unfold ans. go. Qed.

  (** *** rows where the degenerate slab is ignored: same answer as with the IEEE encoding
      (-inf, +inf) of "inside this slab for every t" *)
  Lemma x_swap y1 y2 z1 z2 : ans pinf minf y1 y2 z1 z2 = ans minf pinf y1 y2 z1 z2.
  Proof. unfold ans. go. Qed.
  Lemma y_swap x1 x2 z1 z2 : ans x1 x2 pinf minf z1 z2 = ans x1 x2 minf pinf z1 z2.
  Proof. unfold ans. go. Qed.
  Lemma z_swap x1 x2 y1 y2 : ans x1 x2 y1 y2 pinf minf = ans x1 x2 y1 y2 minf pinf.
  Proof. unfold ans. go. Qed.
  Lemma y_nan_pinf x1 x2 z1 z2 : ans x1 x2 nan pinf z1 z2 = ans x1 x2 minf pinf z1 z2.
  Proof. unfold ans. go. Qed.
  Lemma y_minf_nan x1 x2 z1 z2 : ans x1 x2 minf nan z1 z2 = ans x1 x2 minf pinf z1 z2.
  Proof. unfold ans. go. Qed.
  Lemma y_nan_nan x1 x2 z1 z2 : ans x1 x2 nan nan z1 z2 = ans x1 x2 minf pinf z1 z2.
  Proof. unfold ans. go. Qed.
  Lemma z_nan_pinf x1 x2 y1 y2 : ans x1 x2 y1 y2 nan pinf = ans x1 x2 y1 y2 minf pinf.
  Proof. unfold ans. go. Qed.
  Lemma z_minf_nan x1 x2 y1 y2 : ans x1 x2 y1 y2 minf nan = ans x1 x2 y1 y2 minf pinf.
  Proof. unfold ans. go. Qed.
  Lemma z_nan_nan x1 x2 y1 y2 : ans x1 x2 y1 y2 nan nan = ans x1 x2 y1 y2 minf pinf.
  Proof. unfold ans. go. Qed.
End Table.

(** ** Part 2: every Flocq binary format *)
Section Flocq.
  Variable prec emax : Z.
  Context (Hprec : FLX.Prec_gt_0 prec) (Hmax : Prec_lt_emax prec emax).
  Notation bf := (binary_float prec emax).
  Notation emin := (3 - emax - prec)%Z.
  Notation fexp := (FLT_exp emin prec).
  Local Instance NB : Num bf := NumB prec emax Hprec Hmax.
  Notation nan := (B754_nan : bf).
  Notation pinf := (B754_infinity false : bf).
  Notation minf := (B754_infinity true : bf).
  Local Open Scope R_scope.

  (** the widening constant [1 + 2 gamma(3)] of the format is a positive finite number
      (true of binary32 and binary64 by computation, see Part 3) *)
  Definition widen_ok : Prop := exists m e H, (@widen bf NB) = B754_finite false m e H.

  Lemma lt_nan_l (x : bf) : Bltb nan x = false. Proof. destruct x; reflexivity. Qed.
  Lemma lt_nan_r (x : bf) : Bltb x nan = false. Proof. destruct x; reflexivity. Qed.
  Lemma nan_mul (x : bf) : Bmult mode_NE nan x = nan. Proof. destruct x; reflexivity. Qed.
  Lemma lt_pinf_l (x : bf) : Bltb pinf x = false. Proof. destruct x as [|[]| |]; reflexivity. Qed.
  Lemma lt_minf_r (x : bf) : Bltb x minf = false. Proof. destruct x as [|[]| |[]]; reflexivity. Qed.
  Lemma top (x : bf) : Bltb x pinf = false -> forall y, Bltb x y = false.
  Proof.
    destruct x as [s|[]| |[] m e H]; try discriminate; intros _ y.
    - apply lt_pinf_l. - apply lt_nan_l.
  Qed.
  Lemma minf_neg : Bltb minf (@n0 bf NB) = true. Proof. reflexivity. Qed.
  Lemma pinf_pos : Bltb pinf (@n0 bf NB) = false. Proof. reflexivity. Qed.
  Lemma minf_pinf : Bltb minf pinf = true. Proof. reflexivity. Qed.
  Lemma pinf_widen : widen_ok -> Bmult mode_NE pinf (@widen bf NB) = pinf.
  Proof. intros (m & e & H & ->). reflexivity. Qed.

  (** *** the sign class of [face - origin] for finite operands *)
  Definition pos_nz (f : bf) : Prop := f = pinf \/ exists m e H, f = B754_finite false m e H.
  Definition neg_nz (f : bf) : Prop := f = minf \/ exists m e H, f = B754_finite true m e H.
  Definition is_zero (f : bf) : Prop := exists s, f = B754_zero s.

  Lemma finite_B2R_0 (f : bf) : is_finite f = true -> B2R f = 0 -> is_zero f.
  Proof.
    destruct f as [s|s| |s m e H]; try discriminate; intros _ E; [exists s; reflexivity|].
    exfalso. simpl in E. apply eq_0_F2R in E. destruct s; discriminate.
  Qed.
  Lemma sign_pos (f : bf) : is_finite f = true -> Bsign f = true -> B2R f <= 0.
  Proof.
    destruct f as [s|s| |s m e H]; try discriminate; simpl; intros _ Hs; [lra|]. subst s.
    apply F2R_le_0. simpl. lia.
  Qed.
  Lemma sign_neg (f : bf) : is_finite f = true -> Bsign f = false -> 0 <= B2R f.
  Proof.
    destruct f as [s|s| |s m e H]; try discriminate; simpl; intros _ Hs; [lra|]. subst s.
    apply F2R_ge_0. simpl. lia.
  Qed.

  Lemma sub_eq (a o : bf) : is_finite a = true -> is_finite o = true -> B2R a = B2R o ->
    is_zero (Bminus mode_NE a o).
  Proof.
    intros Fa Fo E. generalize (Bminus_correct prec emax Hprec Hmax mode_NE a o Fa Fo).
    rewrite E, Rminus_diag_eq by reflexivity. rewrite round_0 by auto with typeclass_instances.
    rewrite Rabs_R0, Rlt_bool_true by apply bpow_gt_0. intros (B & F & _). apply finite_B2R_0; assumption.
  Qed.

  Lemma round_sub_neq_0 (a o : bf) : B2R a <> B2R o ->
    round radix2 fexp (round_mode mode_NE) (B2R a - B2R o) <> 0.
  Proof.
    intros N. unfold Rminus. apply round_plus_neq_0; auto with typeclass_instances.
    - apply generic_format_B2R.
    - apply generic_format_opp, generic_format_B2R.
    - lra.
  Qed.

  Lemma sub_gt (a o : bf) : is_finite a = true -> is_finite o = true -> B2R o < B2R a ->
    pos_nz (Bminus mode_NE a o).
  Proof.
    intros Fa Fo L. generalize (Bminus_correct prec emax Hprec Hmax mode_NE a o Fa Fo).
    pose proof (round_sub_neq_0 a o ltac:(lra)) as NZ.
    destruct (Rlt_bool _ _).
    - rewrite Rcompare_Gt by lra. intros (B & F & S). right.
      destruct (Bminus mode_NE a o) as [s|s| |s m e H]; try discriminate.
      + exfalso. apply NZ. exact (eq_sym B).
      + simpl in S. subst s. eauto.
    - intros (B & S). unfold binary_overflow, overflow_to_inf in B. left.
      assert (Sa : Bsign a = false).
      { destruct (Bsign a) eqn:Sa; [|reflexivity]. exfalso.
        pose proof (sign_pos a Fa Sa). assert (So : Bsign o = false) by (destruct (Bsign o); [discriminate | reflexivity]).
        pose proof (sign_neg o Fo So). lra. }
      rewrite Sa in B. destruct (Bminus mode_NE a o) as [s|s| |s m e H]; try discriminate. inversion B. reflexivity.
  Qed.

  Lemma sub_lt (a o : bf) : is_finite a = true -> is_finite o = true -> B2R a < B2R o ->
    neg_nz (Bminus mode_NE a o).
  Proof.
    intros Fa Fo L. generalize (Bminus_correct prec emax Hprec Hmax mode_NE a o Fa Fo).
    pose proof (round_sub_neq_0 a o ltac:(lra)) as NZ.
    destruct (Rlt_bool _ _).
    - rewrite Rcompare_Lt by lra. intros (B & F & S). right.
      destruct (Bminus mode_NE a o) as [s|s| |s m e H]; try discriminate.
      + exfalso. apply NZ. exact (eq_sym B).
      + simpl in S. subst s. eauto.
    - intros (B & S). unfold binary_overflow, overflow_to_inf in B. left.
      assert (Sa : Bsign a = true).
      { destruct (Bsign a) eqn:Sa; [reflexivity|]. exfalso.
        pose proof (sign_neg a Fa Sa). assert (So : Bsign o = true) by (destruct (Bsign o); [reflexivity | discriminate]).
        pose proof (sign_pos o Fo So). lra. }
      rewrite Sa in B. destruct (Bminus mode_NE a o) as [s|s| |s m e H]; try discriminate. inversion B. reflexivity.
  Qed.

  Lemma zero_mul_inf (f : bf) s : is_zero f -> Bmult mode_NE f (B754_infinity s) = nan.
  Proof. intros (z & ->). reflexivity. Qed.
  Lemma pos_mul_inf (f : bf) s : pos_nz f -> Bmult mode_NE f (B754_infinity s) = B754_infinity s.
  Proof. intros [->|(m & e & H & ->)]; destruct s; reflexivity. Qed.
  Lemma neg_mul_inf (f : bf) s : neg_nz f -> Bmult mode_NE f (B754_infinity s) = B754_infinity (negb s).
  Proof. intros [->|(m & e & H & ->)]; destruct s; reflexivity. Qed.

  (** the raw plane parameter [(face - origin) * inv] when [inv = +-inf] *)
  Lemma raw_on (f o : bf) s : is_finite f = true -> is_finite o = true -> B2R o = B2R f ->
    raw f o (B754_infinity s) = nan.
  Proof. intros Ff Fo E. unfold raw. apply zero_mul_inf, sub_eq; auto. Qed.
  Lemma raw_above (f o : bf) s : is_finite f = true -> is_finite o = true -> B2R o < B2R f ->
    raw f o (B754_infinity s) = B754_infinity s.
  Proof. intros Ff Fo E. unfold raw. apply pos_mul_inf, sub_gt; auto. Qed.
  Lemma raw_below (f o : bf) s : is_finite f = true -> is_finite o = true -> B2R f < B2R o ->
    raw f o (B754_infinity s) = B754_infinity (negb s).
  Proof. intros Ff Fo E. unfold raw. apply neg_mul_inf, sub_lt; auto. Qed.

  (** *** which inputs fall in which row: boxes, rays and reciprocal directions with an infinite component *)
  Definition fin (f : bf) : Prop := is_finite f = true.
  Definition format_ok : Prop := widen_ok /\ exists m e H, (@n1 bf NB) = B754_finite false m e H.

  Ltac table L W :=
    eapply L; first [exact lt_nan_l | exact lt_nan_r | exact nan_mul | exact lt_pinf_l | exact lt_minf_r | exact top
                    | exact minf_neg | exact pinf_pos | exact minf_pinf | exact (pinf_widen W)].

  Section Inputs.
    Variables (b : BBox bf) (r : Ray bf) (i : V3 bf).
    Notation o := (rorigin r).
    Notation X1 := (raw (vx (bmin b)) (vx o) (vx i)). Notation X2 := (raw (vx (bmax b)) (vx o) (vx i)).
    Notation Y1 := (raw (vy (bmin b)) (vy o) (vy i)). Notation Y2 := (raw (vy (bmax b)) (vy o) (vy i)).
    Notation Z1 := (raw (vz (bmin b)) (vz o) (vz i)). Notation Z2 := (raw (vz (bmax b)) (vz o) (vz i)).

    (** (A) x slab, origin in a face plane [x = min.x] or [x = max.x], direction.x = +-0: LOST *)
    Theorem x_face_lost s : vx i = B754_infinity s -> fin (vx o) ->
      (fin (vx (bmin b)) /\ B2R (vx o) = B2R (vx (bmin b))) \/ (fin (vx (bmax b)) /\ B2R (vx o) = B2R (vx (bmax b))) ->
      bbox_intersect b r i = false.
    Proof.
      unfold bbox_intersect. rewrite intersect_is_core. intros -> Fo [[F E]|[F E]].
      - rewrite (raw_on _ _ s F Fo E). table (@x_nan_min bf NB) I.
      - rewrite (raw_on (vx (bmax b)) _ s F Fo E). table (@x_nan_max bf NB) I.
    Qed.

    (** (B) y or z slab of positive thickness, origin in one of its face planes, direction = -0: LOST *)
    Theorem y_face_neg_zero_lost : vy i = minf -> fin (vy o) -> fin (vy (bmin b)) -> fin (vy (bmax b)) ->
      B2R (vy (bmin b)) < B2R (vy (bmax b)) ->
      B2R (vy o) = B2R (vy (bmin b)) \/ B2R (vy o) = B2R (vy (bmax b)) ->
      bbox_intersect b r i = false.
    Proof.
      unfold bbox_intersect. rewrite intersect_is_core. intros -> Fo F1 F2 L [E|E].
      - rewrite (raw_on _ _ true F1 Fo E), (raw_above _ _ true F2 Fo) by lra. table (@y_nan_minf bf NB) I.
      - rewrite (raw_on (vy (bmax b)) _ true F2 Fo E), (raw_below _ _ true F1 Fo) by lra. table (@y_pinf_nan bf NB) I.
    Qed.
    Theorem z_face_neg_zero_lost : vz i = minf -> fin (vz o) -> fin (vz (bmin b)) -> fin (vz (bmax b)) ->
      B2R (vz (bmin b)) < B2R (vz (bmax b)) ->
      B2R (vz o) = B2R (vz (bmin b)) \/ B2R (vz o) = B2R (vz (bmax b)) ->
      bbox_intersect b r i = false.
    Proof.
      unfold bbox_intersect. rewrite intersect_is_core. intros -> Fo F1 F2 L [E|E].
      - rewrite (raw_on _ _ true F1 Fo E), (raw_above _ _ true F2 Fo) by lra. table (@z_nan_minf bf NB) I.
      - rewrite (raw_on (vz (bmax b)) _ true F2 Fo E), (raw_below _ _ true F1 Fo) by lra. table (@z_pinf_nan bf NB) I.
    Qed.

    (** origin outside the slab of a zero direction component: rejected (correct) *)
    Theorem x_outside_rejected s : widen_ok -> vx i = B754_infinity s -> fin (vx o) -> fin (vx (bmin b)) -> fin (vx (bmax b)) ->
      B2R (vx (bmin b)) <= B2R (vx (bmax b)) -> B2R (vx o) < B2R (vx (bmin b)) \/ B2R (vx (bmax b)) < B2R (vx o) ->
      bbox_intersect b r i = false.
    Proof.
      unfold bbox_intersect. rewrite intersect_is_core. intros W -> Fo F1 F2 L [E|E].
      - rewrite (raw_above _ _ s F1 Fo), (raw_above _ _ s F2 Fo) by lra.
        destruct s; [table (@x_behind bf NB) W | table (@x_never bf NB) W].
      - rewrite (raw_below _ _ s F1 Fo), (raw_below _ _ s F2 Fo) by lra.
        destruct s; [table (@x_never bf NB) W | table (@x_behind bf NB) W].
    Qed.
    Theorem y_outside_rejected s : widen_ok -> vy i = B754_infinity s -> fin (vy o) -> fin (vy (bmin b)) -> fin (vy (bmax b)) ->
      B2R (vy (bmin b)) <= B2R (vy (bmax b)) -> B2R (vy o) < B2R (vy (bmin b)) \/ B2R (vy (bmax b)) < B2R (vy o) ->
      bbox_intersect b r i = false.
    Proof.
      unfold bbox_intersect. rewrite intersect_is_core. intros W -> Fo F1 F2 L [E|E].
      - rewrite (raw_above _ _ s F1 Fo), (raw_above _ _ s F2 Fo) by lra.
        destruct s; [table (@y_behind bf NB) W | table (@y_never bf NB) W].
      - rewrite (raw_below _ _ s F1 Fo), (raw_below _ _ s F2 Fo) by lra.
        destruct s; [table (@y_never bf NB) W | table (@y_behind bf NB) W].
    Qed.
    Theorem z_outside_rejected s : widen_ok -> vz i = B754_infinity s -> fin (vz o) -> fin (vz (bmin b)) -> fin (vz (bmax b)) ->
      B2R (vz (bmin b)) <= B2R (vz (bmax b)) -> B2R (vz o) < B2R (vz (bmin b)) \/ B2R (vz (bmax b)) < B2R (vz o) ->
      bbox_intersect b r i = false.
    Proof.
      unfold bbox_intersect. rewrite intersect_is_core. intros W -> Fo F1 F2 L [E|E].
      - rewrite (raw_above _ _ s F1 Fo), (raw_above _ _ s F2 Fo) by lra.
        destruct s; [table (@z_behind bf NB) W | table (@z_never bf NB) W].
      - rewrite (raw_below _ _ s F1 Fo), (raw_below _ _ s F2 Fo) by lra.
        destruct s; [table (@z_never bf NB) W | table (@z_behind bf NB) W].
    Qed.

    (** origin inside the slab of a zero direction component, NaN or not: the slab is ignored, i.e. the answer is
        the one obtained with the IEEE encoding (-inf, +inf) of "inside for every t" *)
    Definition y_slab_inside : Prop :=
      (vy i = pinf /\ B2R (vy (bmin b)) <= B2R (vy o) <= B2R (vy (bmax b))) \/
      (vy i = minf /\ (B2R (vy (bmin b)) < B2R (vy o) < B2R (vy (bmax b)) \/
                       B2R (vy (bmin b)) = B2R (vy o) /\ B2R (vy o) = B2R (vy (bmax b)))).
    Definition z_slab_inside : Prop :=
      (vz i = pinf /\ B2R (vz (bmin b)) <= B2R (vz o) <= B2R (vz (bmax b))) \/
      (vz i = minf /\ (B2R (vz (bmin b)) < B2R (vz o) < B2R (vz (bmax b)) \/
                       B2R (vz (bmin b)) = B2R (vz o) /\ B2R (vz o) = B2R (vz (bmax b)))).

    Theorem y_inside_ignored : widen_ok -> fin (vy o) -> fin (vy (bmin b)) -> fin (vy (bmax b)) -> y_slab_inside ->
      bbox_intersect b r i = fst (slab_core X1 X2 minf pinf Z1 Z2).
    Proof.
      intros W Fo F1 F2 H. unfold bbox_intersect. rewrite intersect_is_core.
      destruct H as [[Ei [L U]]|[Ei [[L U]|[L U]]]]; rewrite Ei.
      - destruct (Rle_lt_or_eq_dec _ _ L) as [L'|L']; destruct (Rle_lt_or_eq_dec _ _ U) as [U'|U'].
        + rewrite (raw_below _ _ false F1 Fo L'), (raw_above _ _ false F2 Fo U'). reflexivity.
        + rewrite (raw_below _ _ false F1 Fo L'), (raw_on _ _ false F2 Fo U'). table (@y_minf_nan bf NB) W.
        + rewrite (raw_on _ _ false F1 Fo (eq_sym L')), (raw_above _ _ false F2 Fo U'). table (@y_nan_pinf bf NB) W.
        + rewrite (raw_on _ _ false F1 Fo (eq_sym L')), (raw_on _ _ false F2 Fo U'). table (@y_nan_nan bf NB) W.
      - rewrite (raw_below _ _ true F1 Fo L), (raw_above _ _ true F2 Fo U). table (@y_swap bf NB) W.
      - rewrite (raw_on _ _ true F1 Fo (eq_sym L)), (raw_on _ _ true F2 Fo U). table (@y_nan_nan bf NB) W.
    Qed.
    Theorem z_inside_ignored : widen_ok -> fin (vz o) -> fin (vz (bmin b)) -> fin (vz (bmax b)) -> z_slab_inside ->
      bbox_intersect b r i = fst (slab_core X1 X2 Y1 Y2 minf pinf).
    Proof.
      intros W Fo F1 F2 H. unfold bbox_intersect. rewrite intersect_is_core.
      destruct H as [[Ei [L U]]|[Ei [[L U]|[L U]]]]; rewrite Ei.
      - destruct (Rle_lt_or_eq_dec _ _ L) as [L'|L']; destruct (Rle_lt_or_eq_dec _ _ U) as [U'|U'].
        + rewrite (raw_below _ _ false F1 Fo L'), (raw_above _ _ false F2 Fo U'). reflexivity.
        + rewrite (raw_below _ _ false F1 Fo L'), (raw_on _ _ false F2 Fo U'). table (@z_minf_nan bf NB) W.
        + rewrite (raw_on _ _ false F1 Fo (eq_sym L')), (raw_above _ _ false F2 Fo U'). table (@z_nan_pinf bf NB) W.
        + rewrite (raw_on _ _ false F1 Fo (eq_sym L')), (raw_on _ _ false F2 Fo U'). table (@z_nan_nan bf NB) W.
      - rewrite (raw_below _ _ true F1 Fo L), (raw_above _ _ true F2 Fo U). table (@z_swap bf NB) W.
      - rewrite (raw_on _ _ true F1 Fo (eq_sym L)), (raw_on _ _ true F2 Fo U). table (@z_nan_nan bf NB) W.
    Qed.
    Theorem x_strictly_inside_ignored s : widen_ok -> vx i = B754_infinity s ->
      fin (vx o) -> fin (vx (bmin b)) -> fin (vx (bmax b)) ->
      B2R (vx (bmin b)) < B2R (vx o) < B2R (vx (bmax b)) ->
      bbox_intersect b r i = fst (slab_core minf pinf Y1 Y2 Z1 Z2).
    Proof.
      intros W Ei Fo F1 F2 [L U]. unfold bbox_intersect. rewrite intersect_is_core, Ei.
      rewrite (raw_below _ _ s F1 Fo L), (raw_above _ _ s F2 Fo U). destruct s; [table (@x_swap bf NB) W | reflexivity].
    Qed.
  End Inputs.

  (** *** the recorded finding as a decidable predicate on the inputs (IEEE [==]: +0 == -0) *)
  Definition known_x_slab_nan (b : BBox bf) (r : Ray bf) : bool :=
    ((vx (rdir r) =? n0) && ((vx (rorigin r) =? vx (bmin b)) || (vx (rorigin r) =? vx (bmax b))))%num.
  (** the second class found while proving the table *)
  Definition known_neg_zero_face (b : BBox bf) (r : Ray bf) : bool :=
    let neg0 (d : bf) := match d with B754_zero true => true | _ => false end in
    ((neg0 (vy (rdir r)) && negb (vy (bmin b) =? vy (bmax b)) && ((vy (rorigin r) =? vy (bmin b)) || (vy (rorigin r) =? vy (bmax b)))) ||
     (neg0 (vz (rdir r)) && negb (vz (bmin b) =? vz (bmax b)) && ((vz (rorigin r) =? vz (bmin b)) || (vz (rorigin r) =? vz (bmax b)))))%num.
  Definition fin3 (v : V3 bf) : Prop := fin (vx v) /\ fin (vy v) /\ fin (vz v).
  Definition inv_dirB (d : V3 bf) : V3 bf := mkV3 (n1 / vx d)%num (n1 / vy d)%num (n1 / vz d)%num.

  Lemma eqb_R (a c : bf) : fin a -> fin c -> Beqb a c = true -> B2R a = B2R c.
  Proof. intros Fa Fc. rewrite Beqb_correct by assumption. case Req_bool_spec; [auto | discriminate]. Qed.
  Lemma eqb_false_R (a c : bf) : fin a -> fin c -> Beqb a c = false -> B2R a <> B2R c.
  Proof. intros Fa Fc. rewrite Beqb_correct by assumption. case Req_bool_spec; [discriminate | auto]. Qed.
  Lemma recip_zero (d : bf) : format_ok -> Beqb d (@n0 bf NB) = true -> exists s, Bdiv mode_NE (@n1 bf NB) d = B754_infinity s.
  Proof.
    intros (_ & m & e & H & ->). destruct d as [s|s| |s m' e' H']; intros E.
    - exists s. destruct s; reflexivity.
    - destruct s; discriminate E.
    - discriminate E.
    - destruct s; discriminate E.
  Qed.
  Lemma recip_neg_zero : format_ok -> Bdiv mode_NE (@n1 bf NB) (B754_zero true) = minf.
  Proof. intros (_ & m & e & H & ->). reflexivity. Qed.

  Theorem known_x_slab_nan_lost (b : BBox bf) (r : Ray bf) : format_ok ->
    fin3 (bmin b) -> fin3 (bmax b) -> fin3 (rorigin r) ->
    known_x_slab_nan b r = true -> bbox_intersect b r (inv_dirB (rdir r)) = false.
  Proof.
    intros Ok (F1 & _) (F2 & _) (Fo & _) H. unfold known_x_slab_nan in H. cbn [neqb NB NumB] in H.
    apply andb_prop in H. destruct H as [Hd Hf]. destruct (recip_zero _ Ok Hd) as [s Es].
    apply (x_face_lost b r (inv_dirB (rdir r)) s Es Fo).
    apply orb_prop in Hf. destruct Hf as [E|E]; [left | right]; split; try assumption; apply eqb_R; assumption.
  Qed.

  Theorem known_neg_zero_face_lost (b : BBox bf) (r : Ray bf) : format_ok ->
    fin3 (bmin b) -> fin3 (bmax b) -> fin3 (rorigin r) ->
    B2R (vy (bmin b)) <= B2R (vy (bmax b)) -> B2R (vz (bmin b)) <= B2R (vz (bmax b)) ->
    known_neg_zero_face b r = true -> bbox_intersect b r (inv_dirB (rdir r)) = false.
  Proof.
    intros Ok (_ & F1y & F1z) (_ & F2y & F2z) (_ & Foy & Foz) Wy Wz H. unfold known_neg_zero_face in H.
    cbn [neqb NB NumB] in H. apply orb_prop in H. destruct H as [H|H];
      apply andb_prop in H; destruct H as [H Hf]; apply andb_prop in H; destruct H as [Hd Hn];
      apply negb_true_iff in Hn.
    - apply y_face_neg_zero_lost; try assumption.
      + cbn [inv_dirB vy]. destruct (vy (rdir r)) as [[]|?| |? ? ? ?]; try discriminate. apply recip_neg_zero, Ok.
      + pose proof (eqb_false_R _ _ F1y F2y Hn). lra.
      + apply orb_prop in Hf. destruct Hf as [E|E]; [left | right]; apply eqb_R; assumption.
    - apply z_face_neg_zero_lost; try assumption.
      + cbn [inv_dirB vz]. destruct (vz (rdir r)) as [[]|?| |? ? ? ?]; try discriminate. apply recip_neg_zero, Ok.
      + pose proof (eqb_false_R _ _ F1z F2z Hn). lra.
      + apply orb_prop in Hf. destruct Hf as [E|E]; [left | right]; apply eqb_R; assumption.
  Qed.
End Flocq.

(** ** Part 3: binary64 / binary32 instances and executable witnesses *)
Lemma finite_of_SF {prec emax} (f : binary_float prec emax) m e :
  B2SF f = S754_finite false m e -> exists H, f = B754_finite false m e H.
Proof. destruct f as [s|s| |s m' e' H]; try discriminate. simpl. intros E. inversion E. subst. eauto. Qed.

Lemma format_ok_64 : format_ok 53 1024 Hprec53 Hmax1024.
Proof.
  split.
  - assert (E : B2SF (@widen b64 NumB64) = S754_finite false 4503599627370499 (-52)) by (vm_compute; reflexivity).
    destruct (finite_of_SF _ _ _ E) as [H EH]. do 3 eexists. exact EH.
  - assert (E : B2SF (@n1 b64 NumB64) = S754_finite false 4503599627370496 (-52)) by (vm_compute; reflexivity).
    destruct (finite_of_SF _ _ _ E) as [H EH]. do 3 eexists. exact EH.
Qed.
Lemma format_ok_32 : format_ok 24 128 Hprec24 Hmax128.
Proof.
  split.
  - assert (E : B2SF (@widen b32 NumB32) = S754_finite false 8388611 (-23)) by (vm_compute; reflexivity).
    destruct (finite_of_SF _ _ _ E) as [H EH]. do 3 eexists. exact EH.
  - assert (E : B2SF (@n1 b32 NumB32) = S754_finite false 8388608 (-23)) by (vm_compute; reflexivity).
    destruct (finite_of_SF _ _ _ E) as [H EH]. do 3 eexists. exact EH.
Qed.

(** binary64 literals *)
Definition q (m : Z) (e : Z) : b64 := binary_normalize 53 1024 Hprec53 Hmax1024 mode_NE m e false.
Definition inv64 := inv_dirB 53 1024 Hprec53 Hmax1024.
Definition P (x y z : b64) : V3 b64 := mkV3 x y z.
Definition zero64 : b64 := B754_zero false.
Definition nzero64 : b64 := B754_zero true.
Definition one64 : b64 := q 1 0.
Definition half64 : b64 := q 1 (-1).
Definition mone64 : b64 := q (-1) 0.

(** F10: box {0} x [0,1] x [0,1] (and the unit cube), origin (0, 0.5, -1), direction (0, 0, 1):
    the point at t = 1.5 is (0, 0.5, 0.5), inside the box, yet [intersect] answers false. *)
Definition w_flat : BBox b64 := bbox_new (P zero64 zero64 zero64) (P zero64 one64 one64).
Definition w_cube : BBox b64 := bbox_new (P zero64 zero64 zero64) (P one64 one64 one64).
Definition w_ray : Ray b64 := mkRay (P zero64 half64 mone64) (P zero64 zero64 one64).
Definition w_t : b64 := q 3 (-1).

Lemma x_slab_nan_witness :
  (known_x_slab_nan 53 1024 Hprec53 Hmax1024 w_flat w_ray = true /\
   (n0 <? w_t)%num = true /\ bbox_point_inside w_flat (ray_project w_ray w_t) = true /\
   bbox_intersect w_flat w_ray (inv64 (rdir w_ray)) = false) /\
  (known_x_slab_nan 53 1024 Hprec53 Hmax1024 w_cube w_ray = true /\
   bbox_point_inside w_cube (ray_project w_ray w_t) = true /\
   bbox_intersect w_cube w_ray (inv64 (rdir w_ray)) = false).
Proof. vm_compute. repeat split; reflexivity. Qed.

(** the mirror cases: the same ray geometry in the y = 0 face / a box flat in y or z is accepted *)
Lemma mirror_cases_accepted :
  bbox_intersect (bbox_new (P zero64 zero64 zero64) (P one64 zero64 one64)) (mkRay (P half64 zero64 mone64) (P zero64 zero64 one64))
                 (inv64 (P zero64 zero64 one64)) = true /\
  bbox_intersect w_cube (mkRay (P half64 zero64 mone64) (P zero64 zero64 one64)) (inv64 (P zero64 zero64 one64)) = true /\
  bbox_intersect w_cube (mkRay (P half64 one64 mone64) (P zero64 zero64 one64)) (inv64 (P zero64 zero64 one64)) = true /\
  bbox_intersect (bbox_new (P zero64 zero64 zero64) (P one64 one64 zero64)) (mkRay (P mone64 half64 zero64) (P one64 zero64 zero64))
                 (inv64 (P one64 zero64 zero64)) = true.
Proof. vm_compute. repeat split; reflexivity. Qed.

(** second class: direction.y = -0 (or direction.z = -0), origin in a face plane of a slab of positive thickness *)
Definition w_ray_y : Ray b64 := mkRay (P half64 zero64 mone64) (P zero64 nzero64 one64).
Definition w_ray_z : Ray b64 := mkRay (P mone64 half64 one64) (P one64 zero64 nzero64).
Lemma neg_zero_face_witness :
  (known_neg_zero_face 53 1024 Hprec53 Hmax1024 w_cube w_ray_y = true /\
   known_x_slab_nan 53 1024 Hprec53 Hmax1024 w_cube w_ray_y = false /\
   bbox_point_inside w_cube (ray_project w_ray_y w_t) = true /\
   bbox_intersect w_cube w_ray_y (inv64 (rdir w_ray_y)) = false) /\
  (known_neg_zero_face 53 1024 Hprec53 Hmax1024 w_cube w_ray_z = true /\
   known_x_slab_nan 53 1024 Hprec53 Hmax1024 w_cube w_ray_z = false /\
   bbox_point_inside w_cube (ray_project w_ray_z w_t) = true /\
   bbox_intersect w_cube w_ray_z (inv64 (rdir w_ray_z)) = false).
Proof. vm_compute. repeat split; reflexivity. Qed.
