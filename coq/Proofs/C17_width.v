(** * C17_width: how far the computed bounds of [b*b] and [a*c*4.] can be from the exact products,
    hence a sufficient margin on the discriminant for the solver to return roots.
    Every format; underflow is covered by the absolute term [eta]. *)
From Coq Require Import ZArith Reals Bool Lra Lia Psatz.
From Flocq Require Import Core BinarySingleNaN.
From G3 Require Import Model.Num Model.Base Model.RoundError Model.Quadratic
  Theory.IntervalSpec Theory.QuadraticSpec Proofs.C07_interval Proofs.C17_quadratic.
Local Open Scope R_scope.

Section Width.
  Variable prec emax : Z.
  Context (Hprec : FLX.Prec_gt_0 prec) (Hmax : Prec_lt_emax prec emax).
  Notation bf := (binary_float prec emax).
  Notation emin := (3 - emax - prec)%Z.
  Notation fexp := (FLT_exp emin prec).
  Local Instance NBw : Num bf := NumB prec emax Hprec Hmax.
  Implicit Types I J A B C : AF bf.
  Implicit Types v w p f : bf.
  Implicit Types t x y c : R.

  (** one rounding, or one step to the neighbouring float, moves a value by at most [u |t| + eta] *)
  Notation uu := (rel_u prec emax).
  Notation eta := (abs_eta prec emax).
  Notation upf := (QuadraticSpec.upf prec emax).
  Notation dnf := (QuadraticSpec.dnf prec emax).

  Lemma uu_pos : 0 < uu. Proof. apply bpow_gt_0. Qed.
  Lemma uu_le_1 : uu <= 1.
  Proof.
    unfold rel_u. replace 1 with (bpow radix2 0) by reflexivity. apply bpow_le.
    pose proof Hprec as P. unfold FLX.Prec_gt_0 in P. lia.
  Qed.
  Lemma eta_pos : 0 < eta. Proof. apply bpow_gt_0. Qed.

  Lemma upf_mono : forall t t', t <= t' -> upf t <= upf t'.
  Proof.
    intros t t' H. unfold QuadraticSpec.upf. pose proof uu_pos. pose proof uu_le_1.
    unfold Rabs. destruct (Rcase_abs t); destruct (Rcase_abs t'); nra.
  Qed.
  Lemma dnf_mono : forall t t', t <= t' -> dnf t <= dnf t'.
  Proof.
    intros t t' H. unfold QuadraticSpec.dnf. pose proof uu_pos. pose proof uu_le_1.
    unfold Rabs. destruct (Rcase_abs t); destruct (Rcase_abs t'); nra.
  Qed.
  Lemma upf_ge : forall t, t <= upf t.
  Proof. intros t. unfold QuadraticSpec.upf. pose proof uu_pos. pose proof eta_pos. pose proof (Rabs_pos t). nra. Qed.
  Lemma dnf_le : forall t, dnf t <= t.
  Proof. intros t. unfold QuadraticSpec.dnf. pose proof uu_pos. pose proof eta_pos. pose proof (Rabs_pos t). nra. Qed.

  Lemma ulp_bound : forall x, ulp radix2 fexp x <= uu * Rabs x + eta.
  Proof.
    intros x. pose proof uu_pos. pose proof eta_pos. pose proof (Rabs_pos x).
    destruct (Rle_lt_dec (bpow radix2 (emin + prec - 1)) (Rabs x)) as [N|S].
    - pose proof (ulp_FLT_le radix2 emin prec x N). unfold rel_u. nra.
    - rewrite (ulp_FLT_small radix2 emin prec x).
      + change (bpow radix2 emin) with eta. nra.
      + apply Rlt_trans with (1 := S). apply bpow_lt. lia.
  Qed.

  Lemma succ_upf : forall x, succ radix2 fexp x <= upf x.
  Proof.
    intros x. apply Rle_trans with (x + ulp radix2 fexp x).
    - apply succ_le_plus_ulp. apply FLT_exp_monotone.
    - pose proof (ulp_bound x). unfold QuadraticSpec.upf. lra.
  Qed.
  Lemma pred_dnf : forall x, dnf x <= pred radix2 fexp x.
  Proof.
    intros x. unfold pred. pose proof (succ_upf (- x)). unfold QuadraticSpec.upf in H. rewrite Rabs_Ropp in H.
    unfold QuadraticSpec.dnf. lra.
  Qed.
  Lemma RN_upf : forall c, RN prec emax c <= upf c.
  Proof.
    intros c. pose proof (error_le_ulp radix2 fexp ZnearestE c) as E. pose proof (ulp_bound c).
    unfold RN. unfold QuadraticSpec.upf. apply Rabs_le_inv in E. lra.
  Qed.
  Lemma RN_dnf : forall c, dnf c <= RN prec emax c.
  Proof.
    intros c. pose proof (error_le_ulp radix2 fexp ZnearestE c) as E. pose proof (ulp_bound c).
    unfold RN. unfold QuadraticSpec.dnf. apply Rabs_le_inv in E. lra.
  Qed.

  (** stepping a finite float to a finite neighbour *)
  Lemma Bsucc_val : forall v, is_finite v = true -> is_finite (Bsucc v) = true ->
    B2R (Bsucc v) = succ radix2 fexp (B2R v).
  Proof.
    intros v Fv Fs. generalize (Bsucc_correct prec emax Hprec Hmax v Fv). case Rlt_bool.
    - intros (H & _). exact H.
    - intros H. apply B2SF_inf in H. rewrite H in Fs. discriminate.
  Qed.
  Lemma Bpred_val : forall v, is_finite v = true -> is_finite (Bpred v) = true ->
    B2R (Bpred v) = pred radix2 fexp (B2R v).
  Proof.
    intros v Fv Fs. generalize (Bpred_correct prec emax Hprec Hmax v Fv). case Rlt_bool.
    - intros (H & _). exact H.
    - intros H. apply B2SF_inf in H. rewrite H in Fs. discriminate.
  Qed.
  Lemma Bsucc_fin_inv : forall v, is_finite (Bsucc v) = true -> is_finite v = true \/ v = B754_infinity true.
  Proof. intros [s|[|]| |s m e H] F; simpl in *; try discriminate; auto. Qed.
  Lemma Bpred_fin_inv : forall v, is_finite (Bpred v) = true -> is_finite v = true \/ v = B754_infinity false.
  Proof. intros [s|[|]| |s m e H] F; simpl in *; try discriminate; auto. Qed.

  Lemma Bsucc_not_minf : forall v, Bsucc v <> B754_infinity true.
  Proof.
    intros v E. destruct (is_finite v) eqn:F.
    - generalize (Bsucc_correct prec emax Hprec Hmax v F). case Rlt_bool.
      + intros (_ & Ff & _). rewrite E in Ff. discriminate.
      + intros E'. apply B2SF_inf in E'. rewrite E' in E. discriminate.
    - destruct v as [s|[|]| |s m e H]; try discriminate F.
      + assert (T : is_finite (Bsucc (B754_infinity true : bf)) = true) by reflexivity.
        rewrite E in T. discriminate.
      + simpl in E. discriminate.
      + simpl in E. discriminate.
  Qed.
  Lemma Bpred_not_pinf : forall v, Bpred v <> B754_infinity false.
  Proof.
    intros v E. destruct (is_finite v) eqn:F.
    - generalize (Bpred_correct prec emax Hprec Hmax v F). case Rlt_bool.
      + intros (_ & Ff & _). rewrite E in Ff. discriminate.
      + intros E'. apply B2SF_inf in E'. rewrite E' in E. discriminate.
    - destruct v as [s|[|]| |s m e H]; try discriminate F.
      + simpl in E. discriminate.
      + assert (T : is_finite (Bpred (B754_infinity false : bf)) = true) by reflexivity.
        rewrite E in T. discriminate.
      + simpl in E. discriminate.
  Qed.

  Lemma bmax_cases : forall v w, bmax prec emax v w = v \/ bmax prec emax v w = w.
  Proof. intros v w. unfold bmax. destruct (Bltb v w); auto. Qed.
  Lemma bmin_cases : forall v w, bmin prec emax v w = v \/ bmin prec emax v w = w.
  Proof. intros v w. unfold bmin. destruct (Bltb w v); auto. Qed.

  (** the largest of several non-NaN floats is finite only if none of them is +inf *)
  Lemma le_ub_inf : forall v, is_nan v = false -> le_ub prec emax (B754_infinity false) v -> v = B754_infinity false.
  Proof.
    intros v N H. destruct v as [s|[|]| |s m e Hb]; try discriminate; try reflexivity; exfalso.
    - pose proof (H 1 I) as U. simpl in U. lra.
    - exact (H 0 I).
    - pose proof (H (B2R (B754_finite s m e Hb) + 1) I) as U. simpl in U. lra.
  Qed.
  Lemma le_lb_inf : forall v, is_nan v = false -> le_lb prec emax v (B754_infinity true) -> v = B754_infinity true.
  Proof.
    intros v N H. destruct v as [s|[|]| |s m e Hb]; try discriminate; try reflexivity; exfalso.
    - pose proof (H (-1) I) as U. simpl in U. lra.
    - exact (H 0 I).
    - pose proof (H (B2R (B754_finite s m e Hb) - 1) I) as U. simpl in U. lra.
  Qed.

  (** *** the four-corner selection: value bounds for the selected extreme *)
  Section Corners.
    Variables p0 p1 p2 p3 : bf.
    Variables c0 c1 c2 c3 : R.
    Hypothesis R0 : is_rnd prec emax p0 c0.
    Hypothesis R1 : is_rnd prec emax p1 c1.
    Hypothesis R2 : is_rnd prec emax p2 c2.
    Hypothesis R3 : is_rnd prec emax p3 c3.

    Let hi := Bsucc (bmax prec emax (bmax prec emax (bmax prec emax (Bsucc p0) (Bsucc p1)) (Bsucc p2)) (Bsucc p3)).
    Let lo := Bpred (bmin prec emax (bmin prec emax (bmin prec emax (Bpred p0) (Bpred p1)) (Bpred p2)) (Bpred p3)).

    (** a rounded corner that is stepped up and selected, then stepped up again, finite at the end *)
    Lemma corner_hi : forall p c, is_rnd prec emax p c -> is_finite (Bsucc (Bsucc p)) = true -> p <> B754_infinity true ->
      B2R (Bsucc (Bsucc p)) <= upf (upf (upf c)).
    Proof.
      intros p c Rp F2 NI.
      destruct (Bsucc_fin_inv _ F2) as [F1|E1].
      2:{ exfalso. exact (Bsucc_not_minf _ E1). }
      destruct (Bsucc_fin_inv _ F1) as [F0|E0]; [|exfalso; apply NI; exact E0].
      rewrite (Bsucc_val _ F1 F2), (Bsucc_val _ F0 F1).
      destruct Rp as (_ & _ & [[_ V]|[s [E _]]]); [|rewrite E in F0; discriminate].
      rewrite V.
      apply Rle_trans with (1 := succ_upf _). apply upf_mono.
      apply Rle_trans with (1 := succ_upf _). apply upf_mono. apply RN_upf.
    Qed.
    Lemma corner_lo : forall p c, is_rnd prec emax p c -> is_finite (Bpred (Bpred p)) = true -> p <> B754_infinity false ->
      dnf (dnf (dnf c)) <= B2R (Bpred (Bpred p)).
    Proof.
      intros p c Rp F2 NI.
      destruct (Bpred_fin_inv _ F2) as [F1|E1].
      2:{ exfalso. exact (Bpred_not_pinf _ E1). }
      destruct (Bpred_fin_inv _ F1) as [F0|E0]; [|exfalso; apply NI; exact E0].
      rewrite (Bpred_val _ F1 F2), (Bpred_val _ F0 F1).
      destruct Rp as (_ & _ & [[_ V]|[s [E _]]]); [|rewrite E in F0; discriminate].
      rewrite V.
      apply Rle_trans with (2 := pred_dnf _). apply dnf_mono.
      apply Rle_trans with (2 := pred_dnf _). apply dnf_mono. apply RN_dnf.
    Qed.

    Lemma corners_hi_le : forall Mx, is_finite hi = true -> is_finite lo = true ->
      c0 <= Mx -> c1 <= Mx -> c2 <= Mx -> c3 <= Mx -> B2R hi <= upf (upf (upf Mx)).
    Proof.
      intros Mx Fh Fl H0 H1 H2 H3.
      (* no corner is -inf, otherwise lo = -inf *)
      assert (NI : forall p c, is_rnd prec emax p c ->
                     le_lb prec emax (bmin prec emax (bmin prec emax (bmin prec emax (Bpred p0) (Bpred p1)) (Bpred p2)) (Bpred p3)) (Bpred p) ->
                     p <> B754_infinity true).
      { intros p c Rp Hle E. subst p. simpl in Hle.
        pose proof (rnd_lb0 prec emax Hprec Hmax _ _ R0) as L0. pose proof (rnd_lb0 prec emax Hprec Hmax _ _ R1) as L1.
        pose proof (rnd_lb0 prec emax Hprec Hmax _ _ R2) as L2. pose proof (rnd_lb0 prec emax Hprec Hmax _ _ R3) as L3.
        destruct (min4_spec prec emax _ _ _ _ (lb_not_nan _ _ _ _ L0) (lb_not_nan _ _ _ _ L1) (lb_not_nan _ _ _ _ L2) (lb_not_nan _ _ _ _ L3)) as (Nm & _).
        pose proof (le_lb_inf _ Nm Hle) as Em. unfold lo in Fl. rewrite Em in Fl. discriminate. }
      pose proof (rnd_lb0 prec emax Hprec Hmax _ _ R0) as L0. pose proof (rnd_lb0 prec emax Hprec Hmax _ _ R1) as L1.
      pose proof (rnd_lb0 prec emax Hprec Hmax _ _ R2) as L2. pose proof (rnd_lb0 prec emax Hprec Hmax _ _ R3) as L3.
      destruct (min4_spec prec emax _ _ _ _ (lb_not_nan _ _ _ _ L0) (lb_not_nan _ _ _ _ L1) (lb_not_nan _ _ _ _ L2) (lb_not_nan _ _ _ _ L3)) as (_ & M0 & M1 & M2 & M3).
      unfold hi in *.
      destruct (bmax_cases (bmax prec emax (bmax prec emax (Bsucc p0) (Bsucc p1)) (Bsucc p2)) (Bsucc p3)) as [E|E]; rewrite E in *.
      2:{ apply Rle_trans with (upf (upf (upf c3))). apply corner_hi; auto. exact (NI _ _ R3 M3).
          repeat apply upf_mono. exact H3. }
      destruct (bmax_cases (bmax prec emax (Bsucc p0) (Bsucc p1)) (Bsucc p2)) as [E'|E']; rewrite E' in *.
      2:{ apply Rle_trans with (upf (upf (upf c2))). apply corner_hi; auto. exact (NI _ _ R2 M2).
          repeat apply upf_mono. exact H2. }
      destruct (bmax_cases (Bsucc p0) (Bsucc p1)) as [E''|E'']; rewrite E'' in *.
      - apply Rle_trans with (upf (upf (upf c0))). apply corner_hi; auto. exact (NI _ _ R0 M0).
        repeat apply upf_mono. exact H0.
      - apply Rle_trans with (upf (upf (upf c1))). apply corner_hi; auto. exact (NI _ _ R1 M1).
        repeat apply upf_mono. exact H1.
    Qed.

    Lemma corners_lo_ge : forall mn, is_finite hi = true -> is_finite lo = true ->
      mn <= c0 -> mn <= c1 -> mn <= c2 -> mn <= c3 -> dnf (dnf (dnf mn)) <= B2R lo.
    Proof.
      intros mn Fh Fl H0 H1 H2 H3.
      assert (NI : forall p c, is_rnd prec emax p c ->
                     le_ub prec emax (Bsucc p) (bmax prec emax (bmax prec emax (bmax prec emax (Bsucc p0) (Bsucc p1)) (Bsucc p2)) (Bsucc p3)) ->
                     p <> B754_infinity false).
      { intros p c Rp Hle E. subst p. simpl in Hle.
        pose proof (rnd_ub0 prec emax Hprec Hmax _ _ R0) as L0. pose proof (rnd_ub0 prec emax Hprec Hmax _ _ R1) as L1.
        pose proof (rnd_ub0 prec emax Hprec Hmax _ _ R2) as L2. pose proof (rnd_ub0 prec emax Hprec Hmax _ _ R3) as L3.
        destruct (max4_spec prec emax _ _ _ _ (ub_not_nan _ _ _ _ L0) (ub_not_nan _ _ _ _ L1) (ub_not_nan _ _ _ _ L2) (ub_not_nan _ _ _ _ L3)) as (Nm & _).
        pose proof (le_ub_inf _ Nm Hle) as Em. unfold hi in Fh. rewrite Em in Fh. discriminate. }
      pose proof (rnd_ub0 prec emax Hprec Hmax _ _ R0) as L0. pose proof (rnd_ub0 prec emax Hprec Hmax _ _ R1) as L1.
      pose proof (rnd_ub0 prec emax Hprec Hmax _ _ R2) as L2. pose proof (rnd_ub0 prec emax Hprec Hmax _ _ R3) as L3.
      destruct (max4_spec prec emax _ _ _ _ (ub_not_nan _ _ _ _ L0) (ub_not_nan _ _ _ _ L1) (ub_not_nan _ _ _ _ L2) (ub_not_nan _ _ _ _ L3)) as (_ & M0 & M1 & M2 & M3).
      unfold lo in *.
      destruct (bmin_cases (bmin prec emax (bmin prec emax (Bpred p0) (Bpred p1)) (Bpred p2)) (Bpred p3)) as [E|E]; rewrite E in *.
      2:{ apply Rle_trans with (dnf (dnf (dnf c3))). repeat apply dnf_mono. exact H3.
          apply corner_lo; auto. exact (NI _ _ R3 M3). }
      destruct (bmin_cases (bmin prec emax (Bpred p0) (Bpred p1)) (Bpred p2)) as [E'|E']; rewrite E' in *.
      2:{ apply Rle_trans with (dnf (dnf (dnf c2))). repeat apply dnf_mono. exact H2.
          apply corner_lo; auto. exact (NI _ _ R2 M2). }
      destruct (bmin_cases (Bpred p0) (Bpred p1)) as [E''|E'']; rewrite E'' in *.
      - apply Rle_trans with (dnf (dnf (dnf c0))). repeat apply dnf_mono. exact H0.
        apply corner_lo; auto. exact (NI _ _ R0 M0).
      - apply Rle_trans with (dnf (dnf (dnf c1))). repeat apply dnf_mono. exact H1.
        apply corner_lo; auto. exact (NI _ _ R1 M1).
    Qed.
  End Corners.

  (** *** the operators: computed bounds against exact products *)
  Lemma wf_bounds : forall I, wf I -> contains I (B2R (low I)) /\ contains I (B2R (high I)).
  Proof.
    intros I (Fl & Fh & L). split; split.
    - apply lb_finite. exact Fl. lra.
    - apply ub_finite. exact Fh. exact L.
    - apply lb_finite. exact Fl. exact L.
    - apply ub_finite. exact Fh. lra.
  Qed.

  Lemma af_mul_low_ge : forall I J mn, wf I -> wf J -> wf (af_mul I J) ->
    (forall x y, contains I x -> contains J y -> mn <= x * y) ->
    dnf (dnf (dnf mn)) <= B2R (low (af_mul I J)).
  Proof.
    intros I J mn WI WJ (Fl & Fh & _) Hc.
    destruct (wf_bounds I WI) as [CIl CIh]. destruct (wf_bounds J WJ) as [CJl CJh].
    destruct WI as (FIl & FIh & _). destruct WJ as (FJl & FJh & _).
    pose proof (is_rnd_mult prec emax Hprec Hmax _ _ FIl FJl) as R0.
    pose proof (is_rnd_mult prec emax Hprec Hmax _ _ FIh FJl) as R1.
    pose proof (is_rnd_mult prec emax Hprec Hmax _ _ FIl FJh) as R2.
    pose proof (is_rnd_mult prec emax Hprec Hmax _ _ FIh FJh) as R3.
    revert Fl Fh. unfold af_mul. rewrite !(max_min4_eq prec emax Hprec Hmax). cbn [low high]. intros Fl Fh.
    apply (corners_lo_ge _ _ _ _ _ _ _ _ R0 R1 R2 R3 mn Fh Fl).
    apply (Hc _ _ CIl CJl). apply (Hc _ _ CIh CJl). apply (Hc _ _ CIl CJh). apply (Hc _ _ CIh CJh).
  Qed.
  Lemma af_mul_high_le : forall I J Mx, wf I -> wf J -> wf (af_mul I J) ->
    (forall x y, contains I x -> contains J y -> x * y <= Mx) ->
    B2R (high (af_mul I J)) <= upf (upf (upf Mx)).
  Proof.
    intros I J Mx WI WJ (Fl & Fh & _) Hc.
    destruct (wf_bounds I WI) as [CIl CIh]. destruct (wf_bounds J WJ) as [CJl CJh].
    destruct WI as (FIl & FIh & _). destruct WJ as (FJl & FJh & _).
    pose proof (is_rnd_mult prec emax Hprec Hmax _ _ FIl FJl) as R0.
    pose proof (is_rnd_mult prec emax Hprec Hmax _ _ FIh FJl) as R1.
    pose proof (is_rnd_mult prec emax Hprec Hmax _ _ FIl FJh) as R2.
    pose proof (is_rnd_mult prec emax Hprec Hmax _ _ FIh FJh) as R3.
    revert Fl Fh. unfold af_mul. rewrite !(max_min4_eq prec emax Hprec Hmax). cbn [low high]. intros Fl Fh.
    apply (corners_hi_le _ _ _ _ _ _ _ _ R0 R1 R2 R3 Mx Fh Fl).
    apply (Hc _ _ CIl CJl). apply (Hc _ _ CIh CJl). apply (Hc _ _ CIl CJh). apply (Hc _ _ CIh CJh).
  Qed.

  Lemma af_mul_f_high_le : forall I f Mx, wf I -> is_finite f = true -> wf (af_mul_f I f) ->
    (forall x, contains I x -> x * B2R f <= Mx) ->
    B2R (high (af_mul_f I f)) <= upf (upf Mx).
  Proof.
    intros I f Mx WI Ff (Fl & Fh & _) Hc.
    destruct (wf_bounds I WI) as [CIl CIh]. destruct WI as (FIl & FIh & _).
    pose proof (is_rnd_mult prec emax Hprec Hmax _ _ FIl Ff) as Rl.
    pose proof (is_rnd_mult prec emax Hprec Hmax _ _ FIh Ff) as Rh.
    pose proof (is_rnd_not_nan _ _ _ _ Rl) as Nl. pose proof (is_rnd_not_nan _ _ _ _ Rh) as Nh.
    revert Fl Fh. rewrite (af_mul_f_eq prec emax Hprec Hmax). cbn [low high]. intros Fl Fh.
    destruct (bmin_spec prec emax _ _ Nl Nh) as (Nm & Ml & Mh).
    (* neither product is -inf, otherwise the lower bound is -inf *)
    assert (NI : forall p, le_lb prec emax (bmin prec emax (Bmult mode_NE (low I) f) (Bmult mode_NE (high I) f)) p ->
                 p <> B754_infinity true).
    { intros p Hle E. subst p. pose proof (le_lb_inf _ Nm Hle) as Em. rewrite Em in Fl. discriminate. }
    assert (K : forall p c, is_rnd prec emax p c -> p <> B754_infinity true -> is_finite (Bsucc p) = true -> c <= Mx ->
                B2R (Bsucc p) <= upf (upf Mx)).
    { intros p c Rp NIp Fs Hle.
      destruct (Bsucc_fin_inv _ Fs) as [F0|E0]; [|exfalso; exact (NIp E0)].
      rewrite (Bsucc_val _ F0 Fs).
      destruct Rp as (_ & _ & [[_ V]|[s [E _]]]); [|rewrite E in F0; discriminate].
      rewrite V. apply Rle_trans with (1 := succ_upf _). apply upf_mono.
      apply Rle_trans with (1 := RN_upf _). apply upf_mono. exact Hle. }
    destruct (bmax_cases (Bmult mode_NE (high I) f) (Bmult mode_NE (low I) f)) as [E|E]; rewrite E in *.
    - apply K with (1 := Rh); auto.
    - apply K with (1 := Rl); auto.
  Qed.

  (** *** acceptance under a margin: the solver returns roots as soon as the smallest exact [b*b']
      (b, b' in B) exceeds four times the largest exact [a*c] by the accumulated rounding slack:
      three roundings/steps below for [b*b], three above for [a*c], two more for [* 4.] *)
  Theorem some_when_margin : (2 < emax)%Z -> forall A B C (Mx mn : R),
    wf A -> wf B -> wf C -> disc_ok prec emax Hprec Hmax A B C ->
    (forall a c, contains A a -> contains C c -> a * c <= Mx) ->
    (forall b b', contains B b -> contains B b' -> mn <= b * b') ->
    upf (upf (upf (upf (upf Mx)) * 4)) < dnf (dnf (dnf mn)) ->
    exists XX : AF bf * AF bf, af_solve_quadratic A B C = Some XX.
  Proof.
    intros H3 A B C Mx mn WA WB WC DO Hac Hbb Hm.
    apply (some_iff_operands prec emax Hprec Hmax A B C DO).
    destruct DO as (Wbb & Wac & Wac4). cbv zeta.
    unfold quad_steps in *. cbn [q_bb q_ac q_ac4] in *.
    destruct (const_four prec emax Hprec Hmax H3) as [F4 V4].
    assert (Lbb : dnf (dnf (dnf mn)) <= B2R (low (af_mul B B))) by (apply af_mul_low_ge; assumption).
    assert (Uac : B2R (high (af_mul A C)) <= upf (upf (upf Mx))) by (apply af_mul_high_le; assumption).
    (* upper bound of a*c*4 *)
    assert (Uac4 : B2R (high (af_mul_f (af_mul A C) (nofZ 4))) <= upf (upf (upf (upf (upf Mx)) * 4))).
    { apply af_mul_f_high_le; try assumption.
      intros x Cx. replace (B2R (nofZ 4 : bf)) with 4 by (symmetry; exact V4). destruct (wf_contains _ _ _ _ Wac Cx) as (_ & _ & Hx).
      apply Rmult_le_compat_r; [lra|]. apply Rle_trans with (1 := proj2 Hx). exact Uac. }
    apply Rle_lt_trans with (1 := Uac4). apply Rlt_le_trans with (1 := Hm). exact Lbb.
  Qed.

  (** *** the same margin in closed form, for formats with at least 4 bits of precision *)
  Lemma upf_step : forall t V Bd, t <= V -> Rabs t <= Bd ->
    upf t <= V + uu * Bd + eta /\ Rabs (upf t) <= (1 + uu) * Bd + eta.
  Proof.
    intros t V Bd HV HB. pose proof uu_pos. pose proof eta_pos. pose proof (Rabs_pos t).
    split.
    - unfold QuadraticSpec.upf. nra.
    - unfold QuadraticSpec.upf. apply Rle_trans with (Rabs t + Rabs (uu * Rabs t) + Rabs eta).
      + apply Rle_trans with (1 := Rabs_triang _ _). apply Rplus_le_compat_r. apply Rabs_triang.
      + rewrite (Rabs_pos_eq (uu * Rabs t)) by nra. rewrite (Rabs_pos_eq eta) by lra. nra.
  Qed.
  Lemma dnf_step : forall t V Bd, V <= t -> Rabs t <= Bd ->
    V - uu * Bd - eta <= dnf t /\ Rabs (dnf t) <= (1 + uu) * Bd + eta.
  Proof.
    intros t V Bd HV HB. pose proof uu_pos. pose proof eta_pos. pose proof (Rabs_pos t).
    split.
    - unfold QuadraticSpec.dnf. nra.
    - unfold QuadraticSpec.dnf. replace (t - uu * Rabs t - eta) with (t + (- (uu * Rabs t)) + (- eta)) by ring.
      apply Rle_trans with (Rabs t + Rabs (- (uu * Rabs t)) + Rabs (- eta)).
      + apply Rle_trans with (1 := Rabs_triang _ _). apply Rplus_le_compat_r. apply Rabs_triang.
      + rewrite !Rabs_Ropp. rewrite (Rabs_pos_eq (uu * Rabs t)) by nra. rewrite (Rabs_pos_eq eta) by lra. nra.
  Qed.

  Lemma margin_closed_form : uu <= / 8 -> forall Mx mn : R,
    7 * uu * (Rabs mn + 4 * Rabs Mx) + 24 * eta < mn - 4 * Mx ->
    upf (upf (upf (upf (upf Mx)) * 4)) < dnf (dnf (dnf mn)).
  Proof.
    intros Hu Mx mn Hm. pose proof uu_pos as Up. pose proof eta_pos as Ep.
    set (u := uu) in *. set (h := eta) in *.
    set (a0 := Rabs Mx) in *. set (b0 := Rabs mn) in *.
    assert (A0 : 0 <= a0) by apply Rabs_pos. assert (B0 : 0 <= b0) by apply Rabs_pos.
    (* upper chain *)
    destruct (upf_step Mx Mx a0 (Rle_refl _) (Rle_refl _)) as [V1 B1]. fold u h in V1, B1.
    destruct (upf_step _ _ _ V1 B1) as [V2 B2]. fold u h in V2, B2.
    destruct (upf_step _ _ _ V2 B2) as [V3 B3]. fold u h in V3, B3.
    set (x3 := upf (upf (upf Mx))) in *.
    assert (V4 : x3 * 4 <= (Mx + u * a0 + h + u * ((1 + u) * a0 + h) + h + u * ((1 + u) * ((1 + u) * a0 + h) + h) + h) * 4) by lra.
    assert (B4 : Rabs (x3 * 4) <= ((1 + u) * ((1 + u) * ((1 + u) * a0 + h) + h) + h) * 4).
    { rewrite Rabs_mult, (Rabs_pos_eq 4) by lra. lra. }
    destruct (upf_step _ _ _ V4 B4) as [V5 B5]. fold u h in V5, B5.
    destruct (upf_step _ _ _ V5 B5) as [V6 _]. fold u h in V6.
    (* lower chain *)
    destruct (dnf_step mn mn b0 (Rle_refl _) (Rle_refl _)) as [W1 C1]. fold u h in W1, C1.
    destruct (dnf_step _ _ _ W1 C1) as [W2 C2]. fold u h in W2, C2.
    destruct (dnf_step _ _ _ W2 C2) as [W3 _]. fold u h in W3.
    apply Rle_lt_trans with (1 := V6). apply Rlt_le_trans with (2 := W3).
    (* a polynomial inequality in u, linear in a0, b0, h *)
    assert (P5 : (1 + u) * (1 + u) * (1 + u) * (1 + u) * (1 + u) - 1 <= 7 * u) by nra.
    assert (P3 : (1 + u) * (1 + u) * (1 + u) - 1 <= 4 * u) by nra.
    assert (Q : 4 * (1 + (1 + u) + (1 + u) * (1 + u)) * ((1 + u) * (1 + u)) + (1 + (1 + u)) + (1 + (1 + u) + (1 + u) * (1 + u)) <= 24) by nra.
    assert (T1 : a0 * ((1 + u) * (1 + u) * (1 + u) * (1 + u) * (1 + u) - 1) <= a0 * (7 * u)) by (apply Rmult_le_compat_l; assumption).
    assert (T2 : b0 * ((1 + u) * (1 + u) * (1 + u) - 1) <= b0 * (4 * u)) by (apply Rmult_le_compat_l; assumption).
    assert (T3 : h * (4 * (1 + (1 + u) + (1 + u) * (1 + u)) * ((1 + u) * (1 + u)) + (1 + (1 + u)) + (1 + (1 + u) + (1 + u) * (1 + u))) <= h * 24)
      by (apply Rmult_le_compat_l; [lra|assumption]).
    nra.
  Qed.

  (** acceptance, closed form: with [m] a lower bound of every product of two members of B (for a B
      that excludes zero: the smaller squared bound) and [M] an upper bound of every a*c, the solver
      returns roots whenever  m - 4 M > 7 u (|m| + 4 |M|) + 24 eta,
      u = 2^(1-prec) (2.2e-16 in binary64), eta = 2^emin (4.9e-324). *)
  Theorem some_when_relative_margin : (2 < emax)%Z -> (4 <= prec)%Z -> forall A B C (Mx mn : R),
    wf A -> wf B -> wf C -> disc_ok prec emax Hprec Hmax A B C ->
    (forall a c, contains A a -> contains C c -> a * c <= Mx) ->
    (forall b b', contains B b -> contains B b' -> mn <= b * b') ->
    7 * uu * (Rabs mn + 4 * Rabs Mx) + 24 * eta < mn - 4 * Mx ->
    exists XX : AF bf * AF bf, af_solve_quadratic A B C = Some XX.
  Proof.
    intros H3 H4 A B C Mx mn WA WB WC DO Hac Hbb Hm.
    apply (some_when_margin H3 A B C Mx mn); try assumption.
    apply margin_closed_form; [|exact Hm].
    unfold rel_u. replace (/ 8) with (bpow radix2 (-3)) by (simpl; lra). apply bpow_le. lia.
  Qed.

  Theorem some_when_margin_af : forall A B C (Mx mn : R),
    wf A -> wf B -> wf C -> disc_ok prec emax Hprec Hmax A B C ->
    (forall a c, contains A a -> contains C c -> a * c <= Mx) ->
    (forall b b', contains B b -> contains B b' -> mn <= b * b') ->
    upf (upf (upf (upf (upf Mx)) * 4)) < dnf (dnf (dnf mn)) ->
    exists XX : AF bf * AF bf, af_solve_quadratic A B C = Some XX.
  Proof.
    intros A B C Mx mn WA WB WC DO.
    exact (some_when_margin (disc_ok_fmt prec emax Hprec Hmax A B C WA WC DO) A B C Mx mn WA WB WC DO).
  Qed.
  Theorem some_when_relative_margin_af : (4 <= prec)%Z -> forall A B C (Mx mn : R),
    wf A -> wf B -> wf C -> disc_ok prec emax Hprec Hmax A B C ->
    (forall a c, contains A a -> contains C c -> a * c <= Mx) ->
    (forall b b', contains B b -> contains B b' -> mn <= b * b') ->
    7 * uu * (Rabs mn + 4 * Rabs Mx) + 24 * eta < mn - 4 * Mx ->
    exists XX : AF bf * AF bf, af_solve_quadratic A B C = Some XX.
  Proof.
    intros H4 A B C Mx mn WA WB WC DO.
    exact (some_when_relative_margin (disc_ok_fmt prec emax Hprec Hmax A B C WA WC DO) H4 A B C Mx mn WA WB WC DO).
  Qed.
End Width.
