(** * C19 proofs, part 3: Triangle3D (non-ray part) on the real instance. *)
From Coq Require Import ZArith Reals Lra Bool List Psatz.
From G3 Require Import Model.Num Model.Base Model.Vec Model.BBox Model.Transform Model.Hit Model.Segment Model.Triangle Theory.RInst Proofs.C19_vec.
Local Open Scope R_scope.

Notation T := (Tri R).

(** ** barycentric coordinates *)
Definition tri_e1 (t : T) : V := vsub (tb t) (ta t).
Definition tri_e2 (t : T) : V := vsub (tc t) (ta t).
Definition tri_det (t : T) : R := vdot (tri_e1 t) (tri_e1 t) * vdot (tri_e2 t) (tri_e2 t) - vdot (tri_e2 t) (tri_e1 t) * vdot (tri_e2 t) (tri_e1 t).
Definition tri_alpha (t : T) (p : V) : R :=
  (vdot (tri_e2 t) (tri_e2 t) * vdot (tri_e1 t) (vsub p (ta t)) - vdot (tri_e2 t) (tri_e1 t) * vdot (tri_e2 t) (vsub p (ta t))) / tri_det t.
Definition tri_beta (t : T) (p : V) : R :=
  (- vdot (tri_e2 t) (tri_e1 t) * vdot (tri_e1 t) (vsub p (ta t)) + vdot (tri_e1 t) (tri_e1 t) * vdot (tri_e2 t) (vsub p (ta t))) / tri_det t.
Definition tri_w (t : T) (p : V) : R := 1 - tri_alpha t p - tri_beta t p.
(** the point of the triangle's plane with coordinates (al, be) *)
Definition tri_pt (t : T) (al be : R) : V := vadd (vadd (ta t) (vscale (tri_e1 t) al)) (vscale (tri_e2 t) be).

(** the determinant is |e1 x e2|^2 = (2 area)^2: non-zero exactly for a non-degenerate triangle *)
Lemma tri_det_cross (t : T) : tri_det t = vlen2 (vcross (tri_e1 t) (tri_e2 t)).
Proof. unfold tri_det. rewrite <- lagrange, !vlen2_vdot, (vdot_comm (tri_e2 t) (tri_e1 t)). ring. Qed.
(** (alpha, beta) solve the normal equations: p - (a + alpha e1 + beta e2) is orthogonal to e1 and e2,
    i.e. they are the barycentric coordinates of the orthogonal projection of p on the plane *)
Lemma tri_bary_projection (t : T) (p : V) : tri_det t <> 0 ->
  let q := tri_pt t (tri_alpha t p) (tri_beta t p) in
  vdot (vsub p q) (tri_e1 t) = 0 /\ vdot (vsub p q) (tri_e2 t) = 0.
Proof.
  unfold tri_pt, tri_alpha, tri_beta, tri_det, tri_e1, tri_e2.
  destruct t as [[ax ay az] [bx b_y bz] [cx cy cz] n ar], p as [px py pz]. cbn [ta tb tc]. vunf. intros H. split; field; exact H.
Qed.
(** for a point of the plane they are its coordinates *)
Lemma tri_bary_in_plane (t : T) (al be : R) : tri_det t <> 0 ->
  tri_alpha t (tri_pt t al be) = al /\ tri_beta t (tri_pt t al be) = be /\ tri_w t (tri_pt t al be) = 1 - al - be.
Proof.
  intros H. assert (A : tri_alpha t (tri_pt t al be) = al /\ tri_beta t (tri_pt t al be) = be).
  { revert H. unfold tri_pt, tri_alpha, tri_beta, tri_det, tri_e1, tri_e2.
    destruct t as [[ax ay az] [bx b_y bz] [cx cy cz] n ar]. cbn [ta tb tc]. vunf. intros H. split; field; exact H. }
  destruct A as (A1 & A2). unfold tri_w. rewrite A1, A2. auto.
Qed.
(** and the projection is unique: any (al, be) whose residual is orthogonal to both edges is (alpha, beta) *)
Lemma tri_bary_unique (t : T) (p : V) (al be : R) : tri_det t <> 0 ->
  vdot (vsub p (tri_pt t al be)) (tri_e1 t) = 0 -> vdot (vsub p (tri_pt t al be)) (tri_e2 t) = 0 ->
  al = tri_alpha t p /\ be = tri_beta t p.
Proof.
  unfold tri_pt, tri_alpha, tri_beta, tri_det, tri_e1, tri_e2.
  destruct t as [[ax ay az] [bx b_y bz] [cx cy cz] n ar], p as [px py pz]. cbn [ta tb tc]. vunf. intros H E1 E2.
  set (e11 := (bx - ax) * (bx - ax) + (b_y - ay) * (b_y - ay) + (bz - az) * (bz - az)) in *.
  set (e22 := (cx - ax) * (cx - ax) + (cy - ay) * (cy - ay) + (cz - az) * (cz - az)) in *.
  set (e12 := (cx - ax) * (bx - ax) + (cy - ay) * (b_y - ay) + (cz - az) * (bz - az)) in *.
  set (l1 := (bx - ax) * (px - ax) + (b_y - ay) * (py - ay) + (bz - az) * (pz - az)).
  set (l2 := (cx - ax) * (px - ax) + (cy - ay) * (py - ay) + (cz - az) * (pz - az)).
  assert (N1 : l1 = al * e11 + be * e12) by (unfold l1, e11, e12; lra).
  assert (N2 : l2 = al * e12 + be * e22) by (unfold l2, e12, e22; lra).
  rewrite N1, N2. split; field; exact H.
Qed.

(** ** the classification cascade, as a sign pattern of (alpha, beta, w) at tolerance 100 eps *)
Lemma tri_test_point_coords (t : T) (p : V) :
  tri_test_point t p =
  let al := tri_alpha t p in let be := tri_beta t p in let w := tri_w t p in
  if Rleb (- tinyR) al && Rleb (- tinyR) be && Rleb (- tinyR) w then
    if Rleb al tinyR && Rleb be tinyR then VertexA
    else if Rleb al tinyR && Rleb w tinyR then VertexC
    else if Rleb be tinyR && Rleb w tinyR then VertexB
    else if Rleb al tinyR then EdgeAC
    else if Rleb w tinyR then EdgeBC
    else if Rleb be tinyR then EdgeAB
    else Inside
  else Outside.
Proof. reflexivity. Qed.

Definition nonneg3 (al be w : R) : Prop := - tinyR <= al /\ - tinyR <= be /\ - tinyR <= w.
Lemma tri_test_point_spec (t : T) (p : V) :
  let al := tri_alpha t p in let be := tri_beta t p in let w := tri_w t p in
  (tri_test_point t p = Outside <-> (al < - tinyR \/ be < - tinyR \/ w < - tinyR)) /\
  (tri_test_point t p = Inside  <-> (tinyR < al /\ tinyR < be /\ tinyR < w)) /\
  (tri_test_point t p = VertexA <-> (nonneg3 al be w /\ al <= tinyR /\ be <= tinyR)) /\
  (tri_test_point t p = VertexC <-> (nonneg3 al be w /\ al <= tinyR /\ tinyR < be /\ w <= tinyR)) /\
  (tri_test_point t p = VertexB <-> (nonneg3 al be w /\ tinyR < al /\ be <= tinyR /\ w <= tinyR)) /\
  (tri_test_point t p = EdgeAC  <-> (nonneg3 al be w /\ al <= tinyR /\ tinyR < be /\ tinyR < w)) /\
  (tri_test_point t p = EdgeBC  <-> (nonneg3 al be w /\ tinyR < al /\ tinyR < be /\ w <= tinyR)) /\
  (tri_test_point t p = EdgeAB  <-> (nonneg3 al be w /\ tinyR < al /\ be <= tinyR /\ tinyR < w)).
Proof.
  rewrite tri_test_point_coords. cbv zeta. unfold nonneg3. pose proof tinyR_pos as Ht.
  set (al := tri_alpha t p). set (be := tri_beta t p). set (w := tri_w t p).
  destruct (Rleb (- tinyR) al) eqn:A0; [apply Rleb_true in A0 | apply Rleb_false in A0];
  destruct (Rleb (- tinyR) be) eqn:B0; [apply Rleb_true in B0 | apply Rleb_false in B0 | apply Rleb_true in B0 | apply Rleb_false in B0];
  destruct (Rleb (- tinyR) w) eqn:W0; try (apply Rleb_true in W0); try (apply Rleb_false in W0); cbn [andb];
  try (repeat split; intros; try discriminate; try tauto; try lra; fail).
  destruct (Rleb al tinyR) eqn:A1; [apply Rleb_true in A1 | apply Rleb_false in A1];
  destruct (Rleb be tinyR) eqn:B1; [apply Rleb_true in B1 | apply Rleb_false in B1 | apply Rleb_true in B1 | apply Rleb_false in B1];
  destruct (Rleb w tinyR) eqn:W1; try (apply Rleb_true in W1); try (apply Rleb_false in W1); cbn [andb];
  repeat split; intros; try discriminate; try tauto; try lra.
Qed.
(** in exact arithmetic alpha + beta + w = 1, so two "zero" coordinates force the third to be 1:
    the vertex classes are the points with two coordinates within 100 eps of 0 *)
Lemma tri_w_sum (t : T) (p : V) : tri_alpha t p + tri_beta t p + tri_w t p = 1.
Proof. unfold tri_w. ring. Qed.

(** ** area: Heron's formula equals half the norm of the cross product *)
Lemma heron_sq (x y z : R) :
  (z + y + x) * ((z + y + x) / 2 - x) * ((z + y + x) / 2 - y) * ((z + y + x) / 2 - z) / 2 =
  (2 * (x * x) * (y * y) + 2 * (y * y) * (z * z) + 2 * (z * z) * (x * x) - (x * x) * (x * x) - (y * y) * (y * y) - (z * z) * (z * z)) / 16.
Proof. field. Qed.
Lemma tri_area_heron (a b c : V) :
  heron (pdist a b) (pdist b c) (pdist c a) = vlen (vcross (vsub b a) (vsub c a)) / 2.
Proof.
  unfold heron. rnum. rewrite heron_sq.
  rewrite !pdist_vsub, !vlen_sqr.
  replace (vlen (vcross (vsub b a) (vsub c a)) / 2) with (sqrt (vlen2 (vcross (vsub b a) (vsub c a)) / 4)).
  - f_equal. destruct a as [ax ay az], b as [bx b_y bz], c as [cx cy cz]. vunf. field.
  - unfold vlen. rnum. unfold Rdiv. rewrite sqrt_mult by (try apply vlen2_nonneg; lra). f_equal.
    replace (/ 4) with (Rsqr (/ 2)) by (unfold Rsqr; lra). apply sqrt_Rsqr. lra.
Qed.
Lemma tri_new_ok (a b c : V) (t : T) : tri_new a b c = Ok t ->
  ta t = a /\ tb t = b /\ tc t = c /\ tarea t = vlen (vcross (vsub b a) (vsub c a)) / 2 /\ tnormal t = tri_normal_of a b c /\
  vcompare a b = false /\ vcompare a c = false /\ vcompare b c = false /\ e5 <= vlen (vcross (vsub b a) (vsub c b)).
Proof.
  unfold tri_new. destruct (vcompare a b) eqn:E1; [discriminate|]. destruct (vcompare a c) eqn:E2; [discriminate|].
  destruct (vcompare b c) eqn:E3; [discriminate|]. cbn [orb].
  unfold is_collinear. rewrite E1, E2, E3. cbn [andb orb unwrap rbind]. rewrite c1em5_R. rnum.
  rcase (vlen (vcross (vsub b a) (vsub c b))) e5 H; [discriminate|]. intros E. inversion E. cbn [ta tb tc tarea tnormal].
  repeat split; try reflexivity; try assumption. apply tri_area_heron.
Qed.
Lemma tri_new_accepts (a b c : V) :
  vcompare a b = false -> vcompare a c = false -> vcompare b c = false -> e5 <= vlen (vcross (vsub b a) (vsub c b)) ->
  exists t, tri_new a b c = Ok t.
Proof.
  intros E1 E2 E3 H. unfold tri_new. rewrite E1, E2, E3. cbn [orb]. unfold is_collinear. rewrite E1, E2, E3. cbn [andb orb unwrap rbind].
  rewrite c1em5_R. rnum. replace (Rltb _ e5) with false by (symmetry; apply Rltb_false; exact H). eauto.
Qed.
(** [Triangle3D::new] never panics (the unwrap is dead) and fails exactly on the two documented classes *)
Lemma tri_new_total (a b c : V) :
  (forall s, tri_new a b c <> Panic s) /\
  (tri_new a b c = Err 10%N <-> (vcompare a b = true \/ vcompare a c = true \/ vcompare b c = true)) /\
  (tri_new a b c = Err 11%N <-> (vcompare a b = false /\ vcompare a c = false /\ vcompare b c = false /\ vlen (vcross (vsub b a) (vsub c b)) < e5)).
Proof.
  unfold tri_new. destruct (vcompare a b) eqn:E1; [cbn [orb]; repeat split; try discriminate; try tauto; intros (?&_); discriminate|].
  destruct (vcompare a c) eqn:E2; [cbn [orb]; repeat split; try discriminate; try tauto; intros (_&?&_); discriminate|].
  destruct (vcompare b c) eqn:E3; [cbn [orb]; repeat split; try discriminate; try tauto; intros (_&_&?&_); discriminate|].
  cbn [orb]. unfold is_collinear. rewrite E1, E2, E3. cbn [andb orb unwrap rbind]. rewrite c1em5_R. rnum.
  rcase (vlen (vcross (vsub b a) (vsub c b))) e5 H; repeat split; try discriminate; try tauto; try (intros [?|[?|?]]; discriminate).
  intros (_ & _ & _ & ?). lra.
Qed.

(** ** normal: unit, right-handed ((b - a) x (c - a) scaled by a positive factor) *)
Lemma cross_shift (a b c : V) : vcross (vsub b a) (vsub c b) = vcross (vsub b a) (vsub c a).
Proof. destruct a as [ax ay az], b as [bx b_y bz], c as [cx cy cz]. vunf. apply v3_eq; cbn [vx vy vz]; ring. Qed.
Lemma tri_normal_spec (a b c : V) : vlen2 (vcross (vsub b a) (vsub c a)) <> 0 ->
  let n := vcross (vsub b a) (vsub c a) in
  vlen (tri_normal_of a b c) = 1 /\ tri_normal_of a b c = vscale n (/ vlen n) /\ 0 < / vlen n /\
  vdot (tri_normal_of a b c) (vsub b a) = 0 /\ vdot (tri_normal_of a b c) (vsub c a) = 0.
Proof.
  intros H n. unfold tri_normal_of. rewrite cross_shift. fold n. destruct (vnormalize_unit n H) as (U & E & P).
  split; [exact U|]. split; [exact E|]. split; [exact P|]. rewrite E, !vdot_vscale_l.
  destruct (vcross_perp (vsub b a) (vsub c a)) as (P1 & P2). fold n in P1, P2. rewrite P1, P2. split; ring.
Qed.

(** ** circumcentre, circumradius, centroid, aspect ratio *)
Definition tri_nondeg (t : T) : Prop := vlen2 (vcross (tri_e1 t) (tri_e2 t)) <> 0.
(** the offset a -> circumcentre, as the code writes it, for edge vectors u = b - a, v = c - a *)
Definition cc_w (u v : V) : V :=
  vdivs (vadd (vscale (vcross (vcross u v) u) (vlen2 v)) (vscale (vcross v (vcross u v)) (vlen2 u))) (2 * vlen2 (vcross u v)).
(** ... it is the combination al u + be v with the textbook coefficients *)
Lemma cc_comb (u v : V) : vlen2 (vcross u v) <> 0 ->
  let N := vlen2 (vcross u v) in
  cc_w u v = vadd (vscale u (vlen2 v * (vlen2 u - vdot u v) / (2 * N))) (vscale v (vlen2 u * (vlen2 v - vdot u v) / (2 * N))).
Proof.
  intros H N. unfold cc_w. fold N. apply v3_eq; destruct u as [ux uy uz], v as [wx wy wz]; unfold N in *; vunf; field; exact H.
Qed.
Lemma comb_dots (u v : V) (al be : R) :
  let w := vadd (vscale u al) (vscale v be) in
  vdot w u = al * vlen2 u + be * vdot u v /\ vdot w v = al * vdot u v + be * vlen2 v /\
  vlen2 w = al * al * vlen2 u + 2 * al * be * vdot u v + be * be * vlen2 v /\ vdot w (vcross u v) = 0.
Proof. destruct u as [ux uy uz], v as [wx wy wz]. vunf. repeat split; ring. Qed.
Lemma vlen2_vsub_expand (w u : V) : vlen2 (vsub w u) = vlen2 w - 2 * vdot w u + vlen2 u.
Proof. destruct u as [ux uy uz], w as [wx wy wz]. vunf. ring. Qed.
Lemma cc_core (u v : V) : vlen2 (vcross u v) <> 0 ->
  let w := cc_w u v in
  vlen2 w = vlen2 (vsub w u) /\ vlen2 w = vlen2 (vsub w v) /\ vdot w (vcross u v) = 0 /\
  vlen2 w * (4 * vlen2 (vcross u v)) = vlen2 u * vlen2 v * vlen2 (vsub v u).
Proof.
  intros H w. unfold w. rewrite (cc_comb u v H). cbv zeta.
  set (N := vlen2 (vcross u v)) in *.
  set (al := vlen2 v * (vlen2 u - vdot u v) / (2 * N)). set (be := vlen2 u * (vlen2 v - vdot u v) / (2 * N)).
  destruct (comb_dots u v al be) as (D1 & D2 & L & P). cbv zeta in *.
  rewrite !vlen2_vsub_expand, D1, D2, L, P.
  assert (EN : N = vlen2 u * vlen2 v - vdot u v * vdot u v) by (unfold N; rewrite <- lagrange; reflexivity).
  rewrite (vdot_comm v u).
  set (p := vlen2 u) in *. set (q := vlen2 v) in *. set (r := vdot u v) in *.
  assert (Hn : p * q - r * r <> 0) by (rewrite <- EN; exact H).
  unfold al, be. rewrite EN. repeat split; try reflexivity; field; exact Hn.
Qed.
Lemma tri_circumcenter_cc (t : T) : tri_circumcenter t = vadd (ta t) (cc_w (tri_e1 t) (tri_e2 t)).
Proof. unfold tri_circumcenter, cc_w, tri_e1, tri_e2. cbv zeta. rewrite !vlen_sqr. reflexivity. Qed.
Lemma vsub_shift (a w b : V) : vsub (vadd a w) b = vsub w (vsub b a).
Proof. destruct a as [ax ay az], b as [bx b_y bz], w as [wx wy wz]. vunf. apply v3_eq; cbn [vx vy vz]; ring. Qed.
Lemma tri_circumcenter_spec (t : T) : tri_nondeg t ->
  let o := tri_circumcenter t in
  psqdist o (ta t) = psqdist o (tb t) /\ psqdist o (ta t) = psqdist o (tc t) /\
  vdot (vsub o (ta t)) (vcross (tri_e1 t) (tri_e2 t)) = 0.
Proof.
  intros H. cbv zeta. rewrite tri_circumcenter_cc, !psqdist_vsub, vsub_vadd, !vsub_shift.
  destruct (cc_core _ _ H) as (E1 & E2 & E3 & _). cbv zeta in *. auto.
Qed.
Lemma tri_circumradius_sq (t : T) : tri_nondeg t ->
  tri_circumradius t * tri_circumradius t = psqdist (tri_circumcenter t) (ta t) /\ 0 <= tri_circumradius t.
Proof.
  intros H. destruct (cc_core _ _ H) as (_ & _ & _ & E4). cbv zeta in E4. unfold tri_nondeg in H.
  rewrite tri_circumcenter_cc, psqdist_vsub, vsub_vadd.
  unfold tri_circumradius, tri_ab, tri_bc, tri_ca, seg_new. cbn [slength]. rnum.
  set (x := pdist (ta t) (tb t)). set (y := pdist (tb t) (tc t)). set (z := pdist (tc t) (ta t)).
  assert (Hx : x * x = vlen2 (tri_e1 t)).
  { unfold x. rewrite pdist_sym, pdist_vsub. apply vlen_sqr. }
  assert (Hy : y * y = vlen2 (vsub (tri_e2 t) (tri_e1 t))).
  { unfold y. rewrite pdist_sym, pdist_vsub, vlen_sqr. f_equal. unfold tri_e1, tri_e2.
    destruct (ta t) as [ax ay az], (tb t) as [bx b_y bz], (tc t) as [cx cy cz]. vunf. apply v3_eq; cbn [vx vy vz]; ring. }
  assert (Hz : z * z = vlen2 (tri_e2 t)) by (unfold z; rewrite pdist_vsub; apply vlen_sqr).
  assert (Px : 0 <= x) by (unfold x, pdist; rnum; apply sqrt_pos).
  assert (Py : 0 <= y) by (unfold y, pdist; rnum; apply sqrt_pos).
  assert (Pz : 0 <= z) by (unfold z, pdist; rnum; apply sqrt_pos).
  set (u := tri_e1 t) in *. set (v := tri_e2 t) in *. set (N := vlen2 (vcross u v)) in *.
  assert (HN : 0 < N) by (pose proof (vlen2_nonneg (vcross u v)) as Q; fold N in Q; lra).
  assert (Hs : (x + y + z) * (y + z - x) * (z + x - y) * (x + y - z) = 4 * N).
  { replace ((x + y + z) * (y + z - x) * (z + x - y) * (x + y - z)) with
      (2 * (x * x) * (y * y) + 2 * (y * y) * (z * z) + 2 * (z * z) * (x * x) - (x * x) * (x * x) - (y * y) * (y * y) - (z * z) * (z * z)) by ring.
    rewrite Hx, Hy, Hz, vlen2_vsub_expand, (vdot_comm v u). unfold N. rewrite <- lagrange. ring. }
  rewrite Hs. assert (Hq : 0 < sqrt (4 * N)) by (apply sqrt_lt_R0; lra).
  split.
  - replace (x * y * z / sqrt (4 * N) * (x * y * z / sqrt (4 * N))) with ((x * x) * (y * y) * (z * z) / (sqrt (4 * N) * sqrt (4 * N))) by (field; lra).
    rewrite sqrt_sqrt by lra. rewrite Hx, Hy, Hz.
    apply Rmult_eq_reg_r with (4 * N); [|lra]. rewrite E4. field. lra.
  - apply Rmult_le_pos; [repeat apply Rmult_le_pos; assumption | left; apply Rinv_0_lt_compat; exact Hq].
Qed.
(** circumradius = distance from the circumcentre to each vertex *)
Lemma tri_circumradius_spec (t : T) : tri_nondeg t ->
  tri_circumradius t = pdist (tri_circumcenter t) (ta t) /\
  tri_circumradius t = pdist (tri_circumcenter t) (tb t) /\
  tri_circumradius t = pdist (tri_circumcenter t) (tc t).
Proof.
  intros H. destruct (tri_circumradius_sq t H) as (E & P). destruct (tri_circumcenter_spec t H) as (E1 & E2 & _). cbv zeta in *.
  assert (A : tri_circumradius t = pdist (tri_circumcenter t) (ta t)).
  { unfold pdist. rnum. rewrite <- E. replace (tri_circumradius t * tri_circumradius t) with (Rsqr (tri_circumradius t)) by reflexivity.
    rewrite sqrt_Rsqr by exact P. reflexivity. }
  split; [exact A|]. unfold pdist in *. rnum. rewrite <- E1, <- E2. auto.
Qed.
Lemma tri_centroid_spec (t : T) :
  tri_centroid t = vdivs (vadd (vadd (ta t) (tb t)) (tc t)) 3 /\
  vadd (vadd (vsub (ta t) (tri_centroid t)) (vsub (tb t) (tri_centroid t))) (vsub (tc t) (tri_centroid t)) = mkV3 0 0 0.
Proof.
  split; [reflexivity|]. unfold tri_centroid. destruct t as [[ax ay az] [bx b_y bz] [cx cy cz] n ar]. cbn [ta tb tc]. vunf.
  apply v3_eq; cbn [vx vy vz]; field.
Qed.
Definition e19 : R := 10000000000 * 1000000000.
Lemma tri_aspect_ratio_spec (t : T) :
  tri_aspect_ratio t = tri_circumradius t / Rmin (Rmin (Rmin e19 (pdist (ta t) (tb t))) (pdist (tb t) (tc t))) (pdist (tc t) (ta t)).
Proof.
  unfold tri_aspect_ratio, tri_ab, tri_bc, tri_ca, seg_new, c1e19. cbn [slength]. rnum. fold e19. f_equal.
  assert (M : forall l m : R, (if Rltb l m then l else m) = Rmin m l).
  { intros l m. unfold Rmin. rcase l m H; destruct (Rle_dec m l); try reflexivity; lra. }
  rewrite !M. reflexivity.
Qed.
(** metre-scale triangles: the sentinel 1e19 never wins *)
Lemma tri_aspect_ratio_shortest (t : T) : pdist (ta t) (tb t) <= e19 ->
  tri_aspect_ratio t = tri_circumradius t / Rmin (Rmin (pdist (ta t) (tb t)) (pdist (tb t) (tc t))) (pdist (tc t) (ta t)).
Proof. intros H. rewrite tri_aspect_ratio_spec. rewrite (Rmin_right e19) by exact H. reflexivity. Qed.

(** edge lookup and comparison are tolerance comparisons of end points *)
Lemma tri_has_vertex_spec (t : T) (p : V) :
  tri_has_vertex t p = true <-> (vcompare (ta t) p = true \/ vcompare (tb t) p = true \/ vcompare (tc t) p = true).
Proof. unfold tri_has_vertex. rewrite !orb_true_iff. tauto. Qed.
Lemma tri_compare_spec (t u : T) :
  tri_compare t u = true <-> (tri_has_vertex u (ta t) = true /\ tri_has_vertex u (tb t) = true /\ tri_has_vertex u (tc t) = true).
Proof. unfold tri_compare. rewrite !andb_true_iff. tauto. Qed.
Lemma seg_compare_spec (s o : Seg R) :
  seg_compare s o = true <-> ((vcompare (sstart s) (sstart o) = true /\ vcompare (send s) (send o) = true) \/
                              (vcompare (send s) (sstart o) = true /\ vcompare (sstart s) (send o) = true)).
Proof. unfold seg_compare. rewrite orb_true_iff, !andb_true_iff. tauto. Qed.
Lemma tri_edge_index_spec (t : T) (a b : V) (k : N) :
  tri_get_edge_index_from_points t a b = Some k ->
  (k = 0%N /\ seg_compare (seg_new a b) (tri_ab t) = true) \/
  (k = 1%N /\ seg_compare (seg_new a b) (tri_ab t) = false /\ seg_compare (seg_new a b) (tri_bc t) = true) \/
  (k = 2%N /\ seg_compare (seg_new a b) (tri_ab t) = false /\ seg_compare (seg_new a b) (tri_bc t) = false /\ seg_compare (seg_new a b) (tri_ca t) = true).
Proof.
  unfold tri_get_edge_index_from_points, tri_get_edge_index_from_segment.
  destruct (seg_compare _ (tri_ab t)); [intros E; inversion E; auto|].
  destruct (seg_compare _ (tri_bc t)); [intros E; inversion E; auto|].
  destruct (seg_compare _ (tri_ca t)); [intros E; inversion E; auto 10|discriminate].
Qed.
