(** * C20 proofs: the deserialisers never panic, malformed documents are errors, and the round trip at the
    level of serde_json::Value.  Instance-generic (reals, Flocq floats, primitive floats alike). *)
From Coq Require Import ZArith Bool List Arith Lia.
From G3 Require Import Model.Num Model.Base Model.Vec Model.Segment Model.Loop Model.Polygon Model.Json Model.PolyAux
  Proofs.C04_loop Proofs.C11_cut_hole Proofs.C12_merge.
Import ListNotations.

Section AnyNum.
  Context {K : Type} {NK : Num K}.
  Notation V := (V3 K).

  (** ** never Panic *)
  Lemma np_push (L : Loop K) (p : V) : no_panic (loop_push L p).
  Proof. intros s. apply push_no_panic. Qed.
  Lemma np_de_points : forall fuel (a : list (Value K)) (L : Loop K), no_panic (de_points a fuel L).
  Proof.
    induction fuel as [|f IH]; intros a L; [destruct a; apply np_ok|].
    destruct a as [|[| |x| | |] [|[| |y| | |] [|[| |z| | |] tl]]]; cbn [de_points]; try apply np_ok; try apply np_err.
    apply np_bind; [apply np_push | intros L'; apply IH].
  Qed.
  Theorem de_loop_no_panic (v : Value K) : forall s, de_loop v <> Panic s.
  Proof.
    unfold de_loop. apply np_bind.
    - destruct v; try apply np_ok. apply np_de_points.
    - intros L. pose proof (close_no_panic L) as H. destruct (loop_close L) as [L' r]. cbn [snd] in H.
      apply np_bind; [exact H | intros u; apply np_ok].
  Qed.
  (** what the deserialiser returns is a closed loop, so the `expect` of From<Loop3D> cannot fire *)
  Lemma de_loop_closed (v : Value K) (L : Loop K) : de_loop v = Ok L -> lclosed L = true /\ 3 <= llen L.
  Proof.
    unfold de_loop. destruct (match v with JArray a => _ | _ => _ end) as [L0| |]; cbn [rbind]; try discriminate.
    pose proof (close_ok_invariants L0) as H. destruct (loop_close L0) as [L' r]. cbn [fst snd] in H.
    destruct r as [u| |]; cbn [rbind]; try discriminate. destruct u. intros E; inversion E; subst. apply H. reflexivity.
  Qed.
  Theorem de_poly_no_panic (v : Value K) : forall s, de_poly v <> Panic s.
  Proof.
    intros s. unfold de_poly. pose proof (de_loop_no_panic v) as Hn. pose proof (de_loop_closed v) as Hc.
    destruct (de_loop v) as [L| |s']; cbn [rbind]; [|discriminate | intros _; exact (Hn s' eq_refl)].
    destruct (Hc L eq_refl) as [Hcl _]. unfold poly_from, loop_area. rewrite Hcl. cbn. discriminate.
  Qed.

  (** ** close never adds vertices; if it keeps their number it keeps them all *)
  Definition shr (l' l : list V) : Prop := length l' <= length l /\ (length l' = length l -> l' = l).
  Lemma shr_refl l : shr l l. Proof. split; [lia | reflexivity]. Qed.
  Lemma shr_trans a b c : shr a b -> shr b c -> shr a c.
  Proof. intros [H1 H2] [H3 H4]. split; [lia|]. intros E. rewrite H2 by lia. apply H4. lia. Qed.
  Lemma shr_removelast (l : list V) : shr (removelast l) l.
  Proof.
    destruct l as [|x l]; [apply shr_refl|]. assert (N : x :: l <> []) by discriminate. set (l0 := x :: l) in *.
    assert (H : length l0 = S (length (removelast l0))) by (rewrite (app_removelast_last vzero N) at 1; rewrite app_length; cbn; lia).
    split; [lia | intros E; lia].
  Qed.
  Lemma shr_tl (l : list V) : shr (tl l) l.
  Proof. destruct l; [apply shr_refl|]. unfold shr. cbn [tl length]. split; [lia | intros E; lia]. Qed.
  Lemma set_area_verts (L L' : Loop K) : loop_set_area L = Ok L' -> verts L' = verts L /\ lclosed L' = lclosed L.
  Proof. unfold loop_set_area. destruct (negb _); [discriminate|]. destruct (vis_zero _); [discriminate|]. destruct (Nat.ltb _ _); [discriminate|]. intros E; inversion E; subst. split; reflexivity. Qed.
  Lemma set_perimeter_verts (L L' : Loop K) : loop_set_perimeter L = Ok L' -> verts L' = verts L.
  Proof. unfold loop_set_perimeter. destruct (negb _); [discriminate|]. destruct (vis_zero _); [discriminate|]. destruct (Nat.ltb _ _); [discriminate|]. intros E; inversion E; subst. reflexivity. Qed.
  Lemma shr_pop_redundant (fuel : nat) : forall vs : list V, shr (fst (pop_redundant vs fuel)) vs.
  Proof.
    induction fuel as [|f IH]; intros vs; cbn [pop_redundant]; [apply shr_refl|].
    destruct (last_is_redundant vs) as [[|]| |]; cbn [fst]; try apply shr_refl.
    apply shr_trans with (removelast vs); [apply IH | apply shr_removelast].
  Qed.
  Lemma shr_drop_first_redundant (fuel : nat) : forall vs : list V, shr (fst (drop_first_redundant vs fuel)) vs.
  Proof.
    induction fuel as [|f IH]; intros vs; cbn [drop_first_redundant]; [apply shr_refl|].
    destruct (Nat.ltb (length vs) 3); [apply shr_refl|].
    destruct (is_collinear _ _ _) as [[|]| |]; cbn [fst]; try apply shr_refl.
    pose proof (shr_pop_redundant (length vs) (tl vs)) as S1. destruct (pop_redundant (tl vs) (length vs)) as [vs1 r]. cbn [fst] in S1.
    assert (S2 : shr vs1 vs) by (apply shr_trans with (tl vs); [exact S1 | apply shr_tl]).
    destruct r; cbn [fst]; try exact S2. apply shr_trans with vs1; [apply IH | exact S2].
  Qed.
  Lemma close_verts (L : Loop K) : shr (verts (fst (loop_close L))) (verts L).
  Proof.
    unfold loop_close. destruct (lclosed L); [apply shr_refl|]. destruct (Nat.ltb (llen L) 3); [apply shr_refl|].
    pose proof (shr_pop_redundant (llen L) (verts L)) as S1. destruct (pop_redundant (verts L) (llen L)) as [vs1 r1]. cbn [fst] in S1.
    set (L1 := set_verts L vs1). assert (S1' : shr (verts L1) (verts L)) by exact S1.
    destruct r1; cbn [fst]; try exact S1'.
    destruct (Nat.ltb (length vs1) 3); [exact S1'|].
    destruct (valid_to_add L1 _) as [u1| |]; cbn [fst]; try exact S1'.
    pose proof (shr_drop_first_redundant (length vs1) vs1) as S2. destruct (drop_first_redundant vs1 (length vs1)) as [vs2 r2]. cbn [fst] in S2.
    set (L2 := set_verts L1 vs2). assert (S2' : shr (verts L2) (verts L)) by (apply shr_trans with vs1; [exact S2 | exact S1]).
    destruct r2; cbn [fst]; try exact S2'.
    destruct (Nat.ltb (length vs2) 3); [exact S2'|].
    set (L3 := mkLoop (verts L2) (lnormal L2) true (larea L2) (lperim L2)).
    destruct (loop_set_area L3) as [l4| |] eqn:E4; cbn [fst]; try exact S2'.
    destruct (set_area_verts _ _ E4) as [V4 _].
    destruct (loop_set_perimeter l4) as [l5| |] eqn:E5; cbn [fst]; try (rewrite V4; exact S2').
    rewrite (set_perimeter_verts _ _ E5), V4. exact S2'.
  Qed.

  (** ** malformed documents are errors *)
  Definition is_array (v : Value K) : bool := match v with JArray _ => true | _ => false end.
  Definition is_number (v : Value K) : bool := match v with JNumber _ => true | _ => false end.
  Theorem non_array_is_error (v : Value K) : is_array v = false -> de_loop v = Err 33%N.
  Proof. destruct v; cbn [is_array]; try discriminate; intros _; reflexivity. Qed.

  (** a successful reading loop consumed only numbers, three at a time, and pushed one point per triple *)
  Lemma de_points_ok : forall fuel (a : list (Value K)) (L L' : Loop K), length a < fuel -> de_points a fuel L = Ok L' ->
    forallb is_number a = true /\ Nat.modulo (length a) 3 = 0 /\ 3 * llen L' <= 3 * llen L + length a.
  Proof.
    induction fuel as [|f IH]; intros a L L' Hf; [lia|].
    destruct a as [|[| |x| | |] [|[| |y| | |] [|[| |z| | |] tl]]]; cbn [de_points]; try discriminate.
    - intros E; inversion E; subst. cbn. repeat split; lia.
    - destruct (loop_push L (mkV3 x y z)) as [L1| |] eqn:Ep; cbn [rbind]; try discriminate. intros E.
      cbn [length] in Hf. destruct (IH tl L1 L' ltac:(lia) E) as (H1 & H2 & H3).
      destruct (push_len _ _ _ Ep) as (P1 & _ & _). cbn [forallb is_number andb length]. split; [exact H1|]. split; [|lia].
      replace (S (S (S (length tl)))) with (length tl + 1 * 3) by lia. rewrite Nat.mod_add by lia. exact H2.
  Qed.
  Lemma de_loop_array_ok (a : list (Value K)) (L : Loop K) : de_loop (JArray a) = Ok L ->
    forallb is_number a = true /\ Nat.modulo (length a) 3 = 0 /\ 9 <= length a.
  Proof.
    intros E. destruct (de_loop_closed _ _ E) as [_ H3]. revert E. unfold de_loop.
    destruct (de_points a (S (length a)) loop_new) as [L0| |] eqn:Ed; cbn [rbind]; try discriminate.
    destruct (de_points_ok _ _ _ _ (Nat.lt_succ_diag_r _) Ed) as (H1 & H2 & Hl). cbn [llen verts loop_new length] in Hl.
    destruct (loop_close L0) as [L' r] eqn:Ec. destruct r as [u| |]; cbn [rbind]; try discriminate. intros E; inversion E; subst L'.
    split; [exact H1|]. split; [exact H2|].
    pose proof (close_verts L0) as [Hs _]. rewrite Ec in Hs. cbn [fst] in Hs. unfold llen in *. lia.
  Qed.
  (** an array containing a non-number, or whose length is not a multiple of 3, or with fewer than 9
      elements is an error (whatever else it contains) *)
  Theorem bad_array_is_error (a : list (Value K)) :
    forallb is_number a = false \/ Nat.modulo (length a) 3 <> 0 \/ length a < 9 -> exists c, de_loop (JArray a) = Err c.
  Proof.
    intros H. pose proof (de_loop_no_panic (JArray a)) as Hn. pose proof (de_loop_array_ok a) as Ho.
    destruct (de_loop (JArray a)) as [L|c|s]; [|exists c; reflexivity | exfalso; exact (Hn s eq_refl)].
    destruct (Ho L eq_refl) as (H1 & H2 & H3). exfalso. destruct H as [H|[H|H]]; [congruence | contradiction | lia].
  Qed.
  (** ** the round trip at the level of serde_json::Value *)
  Lemma v3_eta (v : V) : mkV3 (vx v) (vy v) (vz v) = v. Proof. destruct v; reflexivity. Qed.
  Lemma ser_length (vs : list V) : length (flat_map (fun v : V => [JNumber (vx v); JNumber (vy v); JNumber (vz v)]) vs) = 3 * length vs.
  Proof. induction vs as [|v tl IH]; [reflexivity|]. cbn [flat_map app length]. rewrite IH. lia. Qed.
  (** reading a serialised vertex list = pushing the vertices *)
  Lemma de_points_ser : forall (vs : list V) fuel (L : Loop K), length vs < fuel ->
    de_points (flat_map (fun v : V => [JNumber (vx v); JNumber (vy v); JNumber (vz v)]) vs) fuel L = push_try L vs.
  Proof.
    induction vs as [|v tl IH]; intros fuel L Hf; (destruct fuel as [|f]; [cbn in Hf; lia|]); [reflexivity|].
    cbn [flat_map app de_points push_try]. rewrite v3_eta. destruct (loop_push L v); cbn [rbind]; [apply IH; cbn in Hf; lia | reflexivity..].
  Qed.
  Lemma de_loop_ser (L : Loop K) :
    de_loop (ser_loop L) = rbind (push_try loop_new (verts L)) (fun L1 => let '(L', r) := loop_close L1 in rbind r (fun _ => Ok L')).
  Proof. unfold de_loop, ser_loop. rewrite de_points_ser by (rewrite ser_length; lia). reflexivity. Qed.

  (** a loop built by pushing [vs] and closing, in which every point became a vertex (nothing replaced,
      refused or dropped): serialising and reading it back returns exactly the same loop state *)
  Theorem round_trip_clean (vs : list V) (L1 L : Loop K) :
    push_try loop_new vs = Ok L1 -> loop_close L1 = (L, Ok tt) -> llen L = length vs -> de_loop (ser_loop L) = Ok L.
  Proof.
    intros Hp Hc Hl. destruct (push_try_len _ _ _ Hp) as [H1 H2]. cbn [llen verts loop_new length] in H1, H2.
    pose proof (close_verts L1) as [H3 H4]. rewrite Hc in H3, H4. cbn [fst] in H3, H4. unfold llen in *.
    assert (E1 : verts L1 = vs) by (rewrite H2 by lia; reflexivity).
    assert (E2 : verts L = vs) by (rewrite H4 by lia; exact E1).
    rewrite de_loop_ser, E2, Hp. cbn [rbind]. rewrite Hc. reflexivity.
  Qed.
  (** any loop that [rebuilds]: the round trip succeeds with the same vertices in the same order, closed.
      Area and normal of the result are those the crate computes when this vertex list is pushed and
      closed ([L'] below depends on [verts L] only). *)
  Theorem round_trip_rebuilds (L : Loop K) : rebuilds L = true ->
    exists L1 L', push_try loop_new (verts L) = Ok L1 /\ loop_close L1 = (L', Ok tt) /\
                  de_loop (ser_loop L) = Ok L' /\ verts L' = verts L /\ lclosed L' = true /\ 3 <= llen L'.
  Proof.
    unfold rebuilds. destruct (push_try loop_new (verts L)) as [L1| |] eqn:Hp; try discriminate.
    destruct (loop_close L1) as [L2 r] eqn:Hc. destruct r as [u| |]; try discriminate. destruct u. intros Hl. apply Nat.eqb_eq in Hl.
    exists L1, L2. split; [reflexivity|]. split; [exact Hc|].
    destruct (push_try_len _ _ _ Hp) as [H1 H2]. cbn [llen verts loop_new length] in H1, H2.
    pose proof (close_verts L1) as [H3 H4]. rewrite Hc in H3, H4. cbn [fst] in H3, H4. unfold llen in *.
    assert (E1 : verts L1 = verts L) by (rewrite H2 by lia; reflexivity).
    assert (E2 : verts L2 = verts L) by (rewrite H4 by lia; exact E1).
    split; [rewrite de_loop_ser, Hp; cbn [rbind]; rewrite Hc; reflexivity|]. split; [exact E2|].
    pose proof (close_ok_invariants L1) as Hi. rewrite Hc in Hi. cbn [fst snd] in Hi. apply Hi. reflexivity.
  Qed.
  (** two loops with the same vertices have the same round-trip image *)
  Corollary round_trip_depends_on_vertices (L M : Loop K) : verts L = verts M -> de_loop (ser_loop L) = de_loop (ser_loop M).
  Proof. intros E. rewrite !de_loop_ser, E. reflexivity. Qed.
End AnyNum.
