(** * Mesh_fp (C01 structural part, C09 a): facts about [from_polygon] that need no geometry.
    On [Ok], with [L] the closed merged outline: at most [|L| - 2] triangles (exactly one per clipped vertex;
    vertices dropped by the periodic [sanitize] produce none), every triangle's vertices are vertices of [L],
    at most 1000 triangles (the code's own iteration cap).  Every number instance. *)
From Coq Require Import ZArith Bool List Arith Lia.
From G3 Require Import Model.Num Model.Base Model.Vec Model.Segment Model.Triangle Model.Loop Model.Polygon Model.Triangulation Proofs.Mesh_base.
Import ListNotations.

Section FP.
  Context {K : Type} {NK : Num K}.
  Notation V := (V3 K).
  Notation TP := (TriPiece K).
  Notation Mesh := (Mesh K).

  (** ** the loop side: push / close / sanitize / remove only keep vertices they were given *)
  Lemma removelast_incl {A} (l : list A) : incl (removelast l) l.
  Proof. induction l as [|x [|y l] IH]; cbn [removelast]; [apply incl_refl | intros z [] | ]. intros z [<-|Hz]; [left; reflexivity | right; apply IH; exact Hz]. Qed.
  Lemma removelast_length {A} (l : list A) : length (removelast l) = length l - 1.
  Proof. induction l as [|x [|y l] IH]; cbn [removelast length] in *; try reflexivity. rewrite IH. cbn. lia. Qed.
  Lemma set_normal_verts (L L' : Loop K) : loop_set_normal L = Ok L' -> verts L' = verts L.
  Proof. unfold loop_set_normal. destruct (verts L) as [|a [|b [|c l]]] eqn:E; try discriminate. intros H; inversion H; subst. cbn [verts set_normal_field]. exact E. Qed.
  Lemma firstn_incl' {A} (k : nat) (l : list A) : incl (firstn k l) l.
  Proof. revert l. induction k as [|k IH]; intros [|x l]; cbn [firstn]; try (intros w []; fail). intros w [<-|Hw]; [left; reflexivity | right; apply (IH l); exact Hw]. Qed.
  Lemma push_verts (L L' : Loop K) (p : V) : loop_push L p = Ok L' -> incl (verts L') (p :: verts L) /\ llen L' <= S (llen L).
  Proof.
    unfold loop_push. destruct (valid_to_add L p); cbn [rbind]; try discriminate.
    assert (G : forall vs, incl vs (p :: verts L) -> length vs <= S (llen L) ->
                (if Nat.eqb (length vs) 3 then loop_set_normal (set_verts L vs)
                 else if Nat.ltb (length vs) 3 then Ok (set_normal_field (set_verts L vs) vzero) else Ok (set_verts L vs)) = Ok L' ->
                incl (verts L') (p :: verts L) /\ llen L' <= S (llen L)).
    { intros vs Hi Hl H. destruct (Nat.eqb (length vs) 3).
      - apply set_normal_verts in H. unfold llen. rewrite H. cbn [verts set_verts]. split; assumption.
      - destruct (Nat.ltb (length vs) 3); inversion H; subst; unfold llen; cbn [verts set_verts set_normal_field]; split; assumption. }
    destruct (Nat.leb 2 (llen L)) eqn:E2.
    - destruct (vcompare _ p).
      { cbn [rbind]. apply G; [intros z Hz; right; apply removelast_incl; exact Hz | rewrite removelast_length; unfold llen; lia]. }
      destruct (push_keep _ p _ _) as [keep| |]; cbn [rbind]; try discriminate. apply G.
      + intros z Hz. apply in_app_or in Hz. destruct Hz as [Hz|[<-|[]]]; [right; apply (firstn_incl' keep); exact Hz | left; reflexivity].
      + rewrite app_length, firstn_length. cbn [length]. unfold llen. lia.
    - cbn [rbind]. apply G.
      + intros z Hz. apply in_app_or in Hz. destruct Hz as [Hz|[<-|[]]]; [right; exact Hz | left; reflexivity].
      + rewrite app_length; cbn [length]; unfold llen; lia.
  Qed.
  Lemma set_area_verts (L L' : Loop K) : loop_set_area L = Ok L' -> verts L' = verts L.
  Proof. unfold loop_set_area. destruct (negb _); [discriminate|]. destruct (vis_zero _); [discriminate|]. destruct (Nat.ltb _ _); [discriminate|]. intros H; inversion H; reflexivity. Qed.
  Lemma set_perimeter_verts (L L' : Loop K) : loop_set_perimeter L = Ok L' -> verts L' = verts L.
  Proof. unfold loop_set_perimeter. destruct (negb _); [discriminate|]. destruct (vis_zero _); [discriminate|]. destruct (Nat.ltb _ _); [discriminate|]. intros H; inversion H; reflexivity. Qed.
  Lemma tl_incl {A} (l : list A) : incl (tl l) l.
  Proof. destruct l; [apply incl_refl | intros z Hz; right; exact Hz]. Qed.
  Lemma pop_redundant_verts (fuel : nat) : forall vs : list V,
    incl (fst (pop_redundant vs fuel)) vs /\ length (fst (pop_redundant vs fuel)) <= length vs.
  Proof.
    induction fuel as [|f IH]; intros vs; cbn [pop_redundant]; [cbn [fst]; split; [apply incl_refl | lia]|].
    destruct (last_is_redundant vs) as [[|]| |]; cbn [fst]; try (split; [apply incl_refl | lia]).
    destruct (IH (removelast vs)) as [I N]. split; [eapply incl_tran; [exact I | apply removelast_incl] | rewrite removelast_length in N; lia].
  Qed.
  Lemma drop_first_redundant_verts (fuel : nat) : forall vs : list V,
    incl (fst (drop_first_redundant vs fuel)) vs /\ length (fst (drop_first_redundant vs fuel)) <= length vs.
  Proof.
    induction fuel as [|f IH]; intros vs; cbn [drop_first_redundant]; [cbn [fst]; split; [apply incl_refl | lia]|].
    destruct (Nat.ltb (length vs) 3); [cbn [fst]; split; [apply incl_refl | lia]|].
    destruct (is_collinear _ _ _) as [[|]| |]; cbn [fst]; try (split; [apply incl_refl | lia]).
    pose proof (pop_redundant_verts (length vs) (tl vs)) as [I1 N1]. destruct (pop_redundant (tl vs) (length vs)) as [vs1 r]. cbn [fst] in I1, N1.
    assert (N0 : length (tl vs) <= length vs) by (destruct vs; cbn; lia).
    assert (G1 : incl vs1 vs /\ length vs1 <= length vs) by (split; [eapply incl_tran; [exact I1 | apply tl_incl] | lia]).
    destruct r; cbn [fst]; try exact G1.
    destruct (IH vs1) as [I2 N2]. split; [eapply incl_tran; [exact I2 | apply G1] | lia].
  Qed.
  Lemma close_verts (L : Loop K) : incl (verts (fst (loop_close L))) (verts L) /\ llen (fst (loop_close L)) <= llen L.
  Proof.
    unfold loop_close. destruct (lclosed L); [cbn [fst]; split; [apply incl_refl | lia]|].
    destruct (Nat.ltb (llen L) 3); [cbn [fst]; split; [apply incl_refl | lia]|].
    pose proof (pop_redundant_verts (llen L) (verts L)) as G1. destruct (pop_redundant (verts L) (llen L)) as [vs1 r1]. cbn [fst] in G1.
    set (L1 := set_verts L vs1).
    assert (G1' : incl (verts L1) (verts L) /\ llen L1 <= llen L) by exact G1.
    destruct r1; cbn [fst]; try exact G1'.
    destruct (Nat.ltb (length vs1) 3); [exact G1'|].
    destruct (valid_to_add L1 _); cbn [fst]; try exact G1'.
    pose proof (drop_first_redundant_verts (length vs1) vs1) as G2. destruct (drop_first_redundant vs1 (length vs1)) as [vs2 r2]. cbn [fst] in G2.
    set (L2 := set_verts L1 vs2).
    assert (G2' : incl (verts L2) (verts L) /\ llen L2 <= llen L).
    { unfold L2, llen. cbn [verts set_verts]. destruct G1 as [I1 N1], G2 as [I2 N2]. split; [eapply incl_tran; eassumption | unfold llen; lia]. }
    destruct r2; cbn [fst]; try exact G2'.
    destruct (Nat.ltb (length vs2) 3); [exact G2'|].
    match goal with |- context [loop_set_area ?l] => destruct (loop_set_area l) as [L4| |] eqn:E4 end; cbn [fst]; try exact G2'.
    destruct (loop_set_perimeter L4) as [L5| |] eqn:E5; cbn [fst].
    - apply set_perimeter_verts in E5. apply set_area_verts in E4. unfold llen. rewrite E5, E4. exact G2'.
    - apply set_area_verts in E4. unfold llen. rewrite E4. exact G2'.
    - apply set_area_verts in E4. unfold llen. rewrite E4. exact G2'.
  Qed.
  Lemma push_all_verts : forall (vs : list V) (L L' : Loop K), push_all L vs = Ok L' ->
    incl (verts L') (verts L ++ vs) /\ llen L' <= llen L + length vs.
  Proof.
    induction vs as [|v vs IH]; intros L L' H; cbn [push_all] in H.
    - inversion H; subst. rewrite app_nil_r. split; [apply incl_refl | cbn; lia].
    - destruct (loop_push L v) as [L1| |] eqn:E1; cbn [unwrap rbind] in H; try discriminate.
      apply push_verts in E1. apply IH in H. destruct E1 as [I1 N1], H as [I2 N2]. split; [|cbn [length]; lia].
      intros z Hz. apply I2 in Hz. apply in_app_or in Hz. destruct Hz as [Hz|Hz].
      + apply I1 in Hz. destruct Hz as [<-|Hz]; apply in_or_app; [right; left; reflexivity | left; exact Hz].
      + apply in_or_app. right. right. exact Hz.
  Qed.
  Lemma sanitize_verts (L L' : Loop K) : loop_sanitize L = Ok L' -> incl (verts L') (verts L) /\ llen L' <= llen L.
  Proof.
    unfold loop_sanitize. destruct (push_all loop_new (verts L)) as [nw| |] eqn:E; cbn [rbind]; try discriminate.
    apply push_all_verts in E. cbn [verts loop_new app llen length] in E. unfold llen in *. cbn [verts loop_new length] in E.
    destruct (lclosed L && Nat.leb 3 (length (verts nw))).
    - pose proof (close_verts nw) as C. destruct (loop_close nw) as [nw' r]. cbn [fst] in C. destruct r; cbn [rbind]; try discriminate.
      intros H; inversion H; subst. unfold llen in C. split; [eapply incl_tran; [apply C | apply E] | lia].
    - intros H; inversion H; subst. split; [apply E | lia].
  Qed.
  Lemma remove_nth_incl (i : nat) (l : list V) : incl (remove_nth i l) l.
  Proof. revert i; induction l as [|x l IH]; intros [|i]; cbn [remove_nth]; try apply incl_refl; [intros z Hz; right; exact Hz|]. intros z [<-|Hz]; [left; reflexivity | right; eapply IH; exact Hz]. Qed.
  Lemma remove_nth_length (i : nat) (l : list V) : i < length l -> S (length (remove_nth i l)) = length l.
  Proof. revert i; induction l as [|x l IH]; intros [|i] H; cbn [remove_nth length] in *; try lia. rewrite IH; lia. Qed.
  Lemma loop_remove_verts (L L' : Loop K) (i : nat) : loop_remove L i = Ok L' -> incl (verts L') (verts L) /\ S (llen L') = llen L.
  Proof.
    unfold loop_remove. destruct (Nat.ltb i (llen L)) eqn:E; [|discriminate]. intros H; inversion H; subst. unfold llen in *. cbn [verts set_verts].
    split; [apply remove_nth_incl | apply remove_nth_length; apply Nat.ltb_lt; exact E].
  Qed.
  Lemma loop_index_in (L : Loop K) (i : nat) (v : V) : loop_index L i = Ok v -> In v (verts L).
  Proof. unfold loop_index. destruct (nth_error (verts L) i) eqn:E; [|discriminate]. intros H; inversion H; subst. eapply nth_error_In; exact E. Qed.

  (** ** the mesh side *)
  Definition tri_verts_in (VS : list V) (t : TP) : Prop := In (ta (tp_tri t)) VS /\ In (tb (tp_tri t)) VS /\ In (tc (tp_tri t)) VS.
  (** operations that only touch the adjacency / constraint fields keep the list of triangles *)
  Definition Rtri (M M' : Mesh) : Prop := map tp_tri (tris M') = map tp_tri (tris M).
  Lemma Rtri_refl M : Rtri M M. Proof. reflexivity. Qed.
  Lemma Rtri_trans M1 M2 M3 : Rtri M1 M2 -> Rtri M2 M3 -> Rtri M1 M3.
  Proof. unfold Rtri. intros H1 H2. rewrite H2. exact H1. Qed.
  Lemma map_upd_tri (i : nat) (f : TP -> TP) (l : list TP) : (forall t, tp_tri (f t) = tp_tri t) -> map tp_tri (upd i f l) = map tp_tri l.
  Proof. intros Hf. revert i; induction l as [|t l IH]; intros [|i]; cbn [upd map]; try reflexivity; [rewrite Hf; reflexivity | rewrite IH; reflexivity]. Qed.
  Lemma rtri_mupd s i (f : TP -> TP) : (forall t, tp_tri (f t) = tp_tri t) -> Pres Rtri (mupd s i f).
  Proof. intros Hf M M' r H. unfold mupd in H. destruct (Nat.ltb _ _); inversion H; subst; [|reflexivity]. unfold Rtri; cbn [tris]. apply map_upd_tri. exact Hf. Qed.
  Lemma set_neighbour_tri e i (t : TP) : tp_tri (tp_set_neighbour e i t) = tp_tri t. Proof. destruct e; reflexivity. Qed.
  Lemma constrain_tri e (t : TP) : tp_tri (tp_constrain e t) = tp_tri t. Proof. destruct e; reflexivity. Qed.
  Ltac rt_step :=
    match goal with
    | |- Pres Rtri (mbind _ _) => apply (pres_bind Rtri Rtri_trans); [|intros ?]
    | |- Pres Rtri (mret _) => apply (pres_ret Rtri Rtri_refl)
    | |- Pres Rtri (mlift _) => apply (pres_lift Rtri Rtri_refl)
    | |- Pres Rtri (mget _ _) => apply (pres_get Rtri Rtri_refl)
    | |- Pres Rtri (mupd _ _ (tp_set_neighbour _ _)) => apply rtri_mupd; intros ?; apply set_neighbour_tri
    | |- Pres Rtri (mupd _ _ (tp_constrain _)) => apply rtri_mupd; intros ?; apply constrain_tri
    | |- Pres Rtri (if ?b then _ else _) => destruct b
    | |- Pres Rtri (match ?x with _ => _ end) => destruct x
    end.
  Lemma rtri_mark i1 e1 i2 : Pres Rtri (mark_as_neighbours (K:=K) i1 e1 i2).
  Proof. unfold mark_as_neighbours. repeat rt_step. Qed.
  Lemma rtri_pair a b : Pres Rtri (mark_edge_pair (K:=K) a b).
  Proof.
    unfold mark_edge_pair. repeat rt_step; try apply rtri_mark.
  Qed.
  Lemma rtri_inner a : forall cnt b, Pres Rtri (mn_inner (K:=K) a b cnt).
  Proof. induction cnt as [|c IH]; intros b; cbn [mn_inner]; repeat rt_step; [apply rtri_pair | apply IH]. Qed.
  Lemma rtri_outer n : forall cnt a, Pres Rtri (mn_outer (K:=K) n a cnt).
  Proof. induction cnt as [|c IH]; intros a; cbn [mn_outer]; repeat rt_step; [apply rtri_inner | apply IH]. Qed.
  Lemma rtri_neighbourhouds : Pres Rtri (mark_neighbourhouds (K:=K)).
  Proof. intros M M' r H. unfold mark_neighbourhouds in H. eapply rtri_outer. exact H. Qed.

  Lemma Forall_map_tri (P : Tri K -> Prop) (l l' : list TP) :
    map tp_tri l' = map tp_tri l -> Forall (fun t => P (tp_tri t)) l -> Forall (fun t => P (tp_tri t)) l'.
  Proof.
    revert l'; induction l as [|t l IH]; intros [|t' l'] E H; cbn [map] in E; try discriminate; [constructor|].
    inversion E. inversion H; subst. constructor; [congruence | apply IH; assumption].
  Qed.
  Lemma tri_new_verts (a b c : V) (t : Tri K) : tri_new a b c = Ok t -> ta t = a /\ tb t = b /\ tc t = c.
  Proof.
    unfold tri_new. destruct (_ || _); [discriminate|]. destruct (unwrap _ _) as [col| |]; cbn [rbind]; try discriminate.
    destruct col; [discriminate|]. intros H; inversion H; subst. repeat split.
  Qed.
  (** [push] with [last_added] = the current length appends *)
  Lemma push_at_end (a b c : V) (M M' : Mesh) (n : nat) :
    mesh_push a b c (length (tris M)) M = (M', Ok n) ->
    exists t, tris M' = tris M ++ [t] /\ ta (tp_tri t) = a /\ tb (tp_tri t) = b /\ tc (tp_tri t) = c.
  Proof.
    unfold mesh_push, get_first_invalid. rewrite Nat.ltb_irrefl.
    destruct (tp_new a b c (length (tris M))) as [t| |] eqn:E; intros H; inversion H; subst.
    exists t. split; [reflexivity|]. unfold tp_new in E. destruct (tri_new a b c) as [tt'| |] eqn:E'; cbn [rbind] in E; try discriminate.
    inversion E; subst. cbn [tp_tri]. apply tri_new_verts. exact E'.
  Qed.

  (** ** the capped loop *)
  Lemma fp_loop_inv (P : Poly K) (VS : list V) : forall (fuel count anchor : nat) (L : Loop K) (t M : Mesh),
    fp_loop P fuel count anchor L t = Ok M ->
    incl (verts L) VS -> Forall (tri_verts_in VS) (tris t) ->
    Forall (tri_verts_in VS) (tris M) /\ length (tris M) + 2 <= length (tris t) + llen L /\ length (tris M) <= length (tris t) + fuel.
  Proof.
    induction fuel as [|fuel IH]; intros count anchor L t M H HL Ht; cbn [fp_loop] in H; [discriminate|].
    set (L1r := if Nat.eqb (Nat.modulo (S count) 10) 0 then loop_sanitize L else Ok L) in H.
    destruct L1r as [L1| |] eqn:EL1; cbn [rbind] in H; try discriminate.
    assert (G1 : incl (verts L1) VS /\ llen L1 <= llen L).
    { unfold L1r in EL1. destruct (Nat.eqb _ 0).
      - apply sanitize_verts in EL1. split; [eapply incl_tran; [apply EL1 | exact HL] | apply EL1].
      - inversion EL1; subst. split; [exact HL | lia]. }
    destruct G1 as [HL1 N1].
    destruct (Nat.eqb (llen L1) 2) eqn:E2.
    { destruct (mark_neighbourhouds t) as [t' r] eqn:Em. destruct r; cbn [rbind] in H; try discriminate. inversion H; subst t'.
      apply rtri_neighbourhouds in Em. unfold Rtri in Em. apply Nat.eqb_eq in E2.
      assert (Hlen : length (tris M) = length (tris t)) by (rewrite <- (map_length tp_tri), Em, map_length; reflexivity).
      split; [|lia].
      unfold tri_verts_in. eapply (Forall_map_tri (fun tr => In (ta tr) VS /\ In (tb tr) VS /\ In (tc tr) VS)); [exact Em | exact Ht]. }
    destruct (Nat.eqb (llen L1) 0); [discriminate|].
    destruct (loop_index L1 _) as [v0| |] eqn:E0; cbn [rbind] in H; try discriminate.
    destruct (loop_index L1 _) as [v1| |] eqn:Ev1 in H; cbn [rbind] in H; try discriminate.
    destruct (loop_index L1 _) as [v2| |] eqn:Ev2 in H; cbn [rbind] in H; try discriminate.
    destruct (is_collinear v0 v1 v2) as [is_line| |]; cbn [rbind] in H; try discriminate.
    destruct (loop_is_diagonal L1 _) as [is_diag| |]; cbn [rbind] in H; try discriminate.
    destruct (ear_test P L1 v0 v1 v2 is_line is_diag) as [is_ear| |]; cbn [rbind] in H; try discriminate.
    destruct is_ear.
    - destruct (mesh_push v0 v1 v2 (n_triangles t) t) as [t1 r] eqn:Ep. destruct r as [n| |]; cbn [rbind] in H; try discriminate.
      unfold n_triangles in Ep. apply push_at_end in Ep. destruct Ep as (tp & Etp & Ea & Eb & Ec).
      (* the three constrain steps keep the triangles *)
      assert (Hc : forall (sg : Seg K) (e : Edge) (m m' : Mesh) (r : res unit),
                 (if poly_contains_segment P sg then mupd 95%N (n_triangles t) (tp_constrain e) m else (m, Ok tt)) = (m', r) -> Rtri m m').
      { intros sg e m m' r Hm. destruct (poly_contains_segment P sg); [|inversion Hm; subst; reflexivity].
        eapply rtri_mupd; [intros ?; apply constrain_tri | exact Hm]. }
      match type of H with context [let '(t2, r) := ?c in _] => destruct c as [t2 r2] eqn:Ec2 end. apply Hc in Ec2.
      destruct r2; cbn [rbind] in H; try discriminate.
      match type of H with context [let '(t3, r) := ?c in _] => destruct c as [t3 r3] eqn:Ec3 end. apply Hc in Ec3.
      destruct r3; cbn [rbind] in H; try discriminate.
      match type of H with context [let '(t4, r) := ?c in _] => destruct c as [t4 r4] eqn:Ec4 end. apply Hc in Ec4.
      destruct r4; cbn [rbind] in H; try discriminate.
      destruct (loop_remove L1 _) as [L2| |] eqn:Er; cbn [rbind] in H; try discriminate.
      apply loop_remove_verts in Er. destruct Er as [I2 N2].
      assert (E4 : map tp_tri (tris t4) = map tp_tri (tris t) ++ [tp_tri tp]).
      { unfold Rtri in *. rewrite Ec4, Ec3, Ec2, Etp, map_app. reflexivity. }
      assert (Hlen4 : length (tris t4) = S (length (tris t))).
      { rewrite <- (map_length tp_tri), E4, app_length, map_length. cbn. lia. }
      apply IH in H.
      + destruct H as (F & B1 & B2). split; [exact F|]. split; lia.
      + eapply incl_tran; [exact I2 | exact HL1].
      + unfold tri_verts_in.
        eapply (Forall_map_tri (fun tr => In (ta tr) VS /\ In (tb tr) VS /\ In (tc tr) VS) (tris t ++ [tp])); [rewrite map_app; exact E4|].
        apply Forall_app. split; [exact Ht|]. constructor; [|constructor].
        rewrite Ea, Eb, Ec. repeat split; apply HL1; eapply loop_index_in; eassumption.
    - apply IH in H; [|exact HL1 | exact Ht]. destruct H as (F & B1 & B2). split; [exact F|]. split; lia.
  Qed.

  (** C01 (structural) and C09 (a) for [from_polygon] *)
  Theorem from_polygon_structure (P : Poly K) (M : Mesh) :
    from_polygon P = Ok M ->
    exists Lm : Loop K, poly_get_closed_loop P = Ok Lm /\ snd (loop_close Lm) = Ok tt /\
      let L := fst (loop_close Lm) in
      length (tris M) + 2 <= llen L /\
      Forall (tri_verts_in (verts L)) (tris M) /\
      length (tris M) <= MAX_ITER.
  Proof.
    unfold from_polygon. destruct (poly_get_closed_loop P) as [Lm| |]; cbn [rbind]; try discriminate.
    destruct (loop_close Lm) as [L r] eqn:Ec. destruct r as [[]| |]; cbn [rbind]; try discriminate.
    destruct (Nat.ltb (llen L) 2); [discriminate|]. intros H. exists Lm. split; [reflexivity|]. rewrite Ec. cbn [fst snd]. split; [reflexivity|].
    apply (fp_loop_inv P (verts L)) in H; [|apply incl_refl | constructor]. cbn [tris mesh_new length] in H.
    destruct H as (F & B1 & B2). repeat split; [lia | exact F | lia].
  Qed.
End FP.
