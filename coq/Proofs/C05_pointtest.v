(** * C05 proofs: Loop3D::test_point / Polygon3D::test_point on the real-number instance.
    Chain:  (1) gates (open loop, off-plane point, polygon = outer and not hole);
            (2) [seg_get_intersection_pt] solves the two-segment system exactly for coplanar segments;
            (3) for a generic cast segment, [test_point] = parity of the number of edges properly crossed
                by the cast segment (a geometric, sign-based predicate [crossb3]);
            (4) when the cast segment is long enough to pass every vertex, that is the crossing number of the RAY
                -- which the live code (fix 6f318c4) guarantees; the code before the fix (Model/PinnedLoop.v) did not;
            (5) in 2-D coordinates of the plane the crossing tests are the planar ones (Binet-Cauchy);
            (6) planar: the ray's crossing parity equals the parity of the number of fan triangles (any apex in
                general position) containing the point -- hence it does not depend on the ray's direction. *)
From Coq Require Import ZArith Reals Lra Lia Bool List Arith Psatz Nsatz.
From G3 Require Import Model.Num Model.Base Model.Vec Model.Segment Model.Loop Model.Polygon Model.PinnedLoop Theory.RInst Theory.LoopGeom.
Import ListNotations.
Local Open Scope R_scope.

(** ** (1) the gates *)
Theorem test_point_open (L : Loop R) (q : V) : lclosed L = false -> loop_test_point L q = Err 34%N.
Proof. intros H. unfold loop_test_point. rewrite H. reflexivity. Qed.

Theorem test_point_off_plane (L : Loop R) (q v0 : V) (rest : list V) :
  lclosed L = true -> verts L = v0 :: rest -> vis_zero (lnormal L) = false ->
  / 10000000 <= Rabs (vdot (lnormal L) (vsub v0 q)) -> loop_test_point L q = Ok false.
Proof.
  intros Hc Hv Hz Hh. unfold loop_test_point, loop_is_coplanar. rewrite Hc, Hv, Hz. cbn [negb rbind].
  replace (nabs (vdot (lnormal L) (vsub v0 q)) <? c1em7)%num with false; [reflexivity|].
  symmetry. unfold c1em7. rnum. apply Rltb_false. lra.
Qed.

Theorem poly_test_point_spec (P : Poly R) (q : V) :
  poly_test_point P q =
  match loop_test_point (pouter P) q with
  | Ok true => match in_any_hole (pinner P) q with Ok h => Ok (negb h) | Err c => Err c | Panic s => Panic s end
  | Ok false => Ok false
  | Err c => Err c | Panic s => Panic s
  end.
Proof. unfold poly_test_point. destruct (loop_test_point (pouter P) q) as [[|]| |]; reflexivity. Qed.
(** when every individual loop test answers: inside the outer loop and inside no hole *)
Lemma in_any_hole_spec (hs : list (Loop R)) (q : V) (bs : list bool) :
  Forall2 (fun h b => loop_test_point h q = Ok b) hs bs -> in_any_hole hs q = Ok (existsb (fun b => b) bs).
Proof.
  induction 1 as [|h b hs bs Hh _ IH]; [reflexivity|]. cbn [in_any_hole existsb]. rewrite Hh. cbn [rbind]. destruct b; [reflexivity | exact IH].
Qed.
Theorem poly_test_point_outer_and_not_hole (P : Poly R) (q : V) (o : bool) (bs : list bool) :
  loop_test_point (pouter P) q = Ok o -> Forall2 (fun h b => loop_test_point h q = Ok b) (pinner P) bs ->
  poly_test_point P q = Ok (o && negb (existsb (fun b => b) bs)).
Proof.
  intros Ho Hh. unfold poly_test_point. rewrite Ho. cbn [rbind]. destruct o; [|reflexivity]. cbn [negb andb].
  rewrite (in_any_hole_spec _ _ _ Hh). reflexivity.
Qed.

(** ** (2) the two-segment solve *)
Lemma solve2 (A1 A2 B1 B2 D1 D2 det ta tb : R) :
  det = (A2 * B1 - A1 * B2)%R -> det <> 0 -> ta = ((B2 * D1 - B1 * D2) / det)%R -> tb = ((A2 * D1 - A1 * D2) / det)%R ->
  (D1 + A1 * ta - B1 * tb = 0)%R /\ (D2 + A2 * ta - B2 * tb = 0)%R.
Proof. intros Hd Hn Ha Hb. subst ta tb. split; field_simplify_eq; try exact Hn; subst det; ring. Qed.
Lemma solve3 (A1 A2 A3 B1 B2 B3 D1 D2 D3 det ta tb : R) :
  det = (A2 * B1 - A1 * B2)%R -> det <> 0 -> ta = ((B2 * D1 - B1 * D2) / det)%R -> tb = ((A2 * D1 - A1 * D2) / det)%R ->
  (D1 * (A2 * B3 - A3 * B2) + D2 * (A3 * B1 - A1 * B3) + D3 * (A1 * B2 - A2 * B1) = 0)%R ->
  (D3 + A3 * ta - B3 * tb = 0)%R.
Proof.
  intros Hd Hn Ha Hb HT. subst ta tb.
  assert (E : ((D3 + A3 * ((B2 * D1 - B1 * D2) / det) - B3 * ((A2 * D1 - A1 * D2) / det)) * det = 0)%R).
  { field_simplify_eq; [|exact Hn]. subst det. nsatz. }
  apply Rmult_integral in E. destruct E as [E|E]; [exact E | contradiction].
Qed.

(** the intersection parameters returned for the segments (a,b) and (q,e) satisfy  a + ta (b - a) = q + tb (e - q)
    whenever the four points are coplanar (triple product (a - q) . ((b - a) x (e - q)) = 0) *)
Theorem gip_solves (a b q e : V) (ta tb : R) :
  seg_get_intersection_pt (seg_new a b) (seg_new q e) = Some (ta, tb) ->
  vdot (vsub a q) (vcross (vsub b a) (vsub e q)) = 0 ->
  vadd a (vscale (vsub b a) ta) = vadd q (vscale (vsub e q) tb).
Proof.
  unfold seg_get_intersection_pt, seg_get_intersection_pt_tag. cbn [sstart send seg_new].
  destruct (vis_same_direction _ _); [discriminate|].
  match goal with |- context [if ?c then (None, 2%N) else _] => destruct c; [discriminate|] end.
  destruct a as [a1 a2 a3], b as [b1 b2 b3], q as [q1 q2 q3], e as [e1 e2 e3].
  unfold vcross, vsub, vdot, vadd, vscale, c1em5. cbn [vx vy vz fst]. rnum. intros H HT.
  set (A1 := (b1 - a1)%R) in *. set (A2 := (b2 - a2)%R) in *. set (A3 := (b3 - a3)%R) in *.
  set (B1 := (e1 - q1)%R) in *. set (B2 := (e2 - q2)%R) in *. set (B3 := (e3 - q3)%R) in *.
  set (D1 := (a1 - q1)%R) in *. set (D2 := (a2 - q2)%R) in *. set (D3 := (a3 - q3)%R) in *.
  destruct (Rltb (1 / 100000) (Rabs (A1 * B2 - A2 * B1))) eqn:Cz.
  { apply Rltb_true in Cz. injection H as Ha Hb. symmetry in Ha, Hb.
    assert (Hn : (A2 * B1 - A1 * B2)%R <> 0) by (intros E; replace (A1 * B2 - A2 * B1)%R with (- (A2 * B1 - A1 * B2))%R in Cz by ring; rewrite E, Ropp_0, Rabs_R0 in Cz; lra).
    destruct (solve2 A1 A2 B1 B2 D1 D2 _ ta tb eq_refl Hn Ha Hb) as [E1 E2].
    assert (E3 := solve3 A1 A2 A3 B1 B2 B3 D1 D2 D3 _ ta tb eq_refl Hn Ha Hb HT).
    apply v3_eq; cbn [vx vy vz]; unfold D1, D2, D3 in *; lra. }
  destruct (Rltb (1 / 100000) (Rabs (A2 * B3 - A3 * B2))) eqn:Cx.
  { apply Rltb_true in Cx. injection H as Ha Hb. symmetry in Ha, Hb.
    (* coordinates (z, y, x) play the roles (1, 2, 3) *)
    assert (Hn : (A2 * B3 - A3 * B2)%R <> 0) by (intros E; rewrite E, Rabs_R0 in Cx; lra).
    assert (HT' : (D3 * (A2 * B1 - A1 * B2) + D2 * (A1 * B3 - A3 * B1) + D1 * (A3 * B2 - A2 * B3) = 0)%R) by lra.
    destruct (solve2 A3 A2 B3 B2 D3 D2 _ ta tb eq_refl Hn Ha Hb) as [E1 E2].
    assert (E3 := solve3 A3 A2 A1 B3 B2 B1 D3 D2 D1 _ ta tb eq_refl Hn Ha Hb HT').
    apply v3_eq; cbn [vx vy vz]; unfold D1, D2, D3 in *; lra. }
  destruct (Rltb (1 / 100000) (Rabs (A3 * B1 - A1 * B3))) eqn:Cy; [|discriminate].
  { apply Rltb_true in Cy. injection H as Ha Hb. symmetry in Ha, Hb.
    (* coordinates (z, x, y) play the roles (1, 2, 3) *)
    assert (Hn : (A1 * B3 - A3 * B1)%R <> 0) by (intros E; replace (A3 * B1 - A1 * B3)%R with (- (A1 * B3 - A3 * B1))%R in Cy by ring; rewrite E, Ropp_0, Rabs_R0 in Cy; lra).
    assert (HT' : (D3 * (A1 * B2 - A2 * B1) + D1 * (A2 * B3 - A3 * B2) + D2 * (A3 * B1 - A1 * B3) = 0)%R) by lra.
    destruct (solve2 A3 A1 B3 B1 D3 D1 _ ta tb eq_refl Hn Ha Hb) as [E1 E2].
    assert (E3 := solve3 A3 A1 A2 B3 B1 B2 D3 D1 D2 _ ta tb eq_refl Hn Ha Hb HT').
    apply v3_eq; cbn [vx vy vz]; unfold D1, D2, D3 in *; lra. }
Qed.

Lemma lagrange3 (a1 a2 a3 b1 b2 b3 : R) :
  ((a1*a1+a2*a2+a3*a3) * (b1*b1+b2*b2+b3*b3) =
   (a1*b1+a2*b2+a3*b3)*(a1*b1+a2*b2+a3*b3) + ((a2*b3-a3*b2)*(a2*b3-a3*b2) + (a3*b1-a1*b3)*(a3*b1-a1*b3) + (a1*b2-a2*b1)*(a1*b2-a2*b1)))%R.
Proof. ring. Qed.

(** under the library's own non-degeneracy thresholds the solve does return parameters *)
Theorem gip_some (a b q e : V) :
  / 100000 <= vlen2 (vcross (vsub b a) (vsub e q)) ->
  vdot (vsub a q) (vcross (vsub b a) (vsub e q)) = 0 ->      (* coplanar: what the code tests since fix ec384e6 (within 1e-5 |n|) *)
  exists ta tb, seg_get_intersection_pt (seg_new a b) (seg_new q e) = Some (ta, tb).
Proof.
  intros Hc Hz. unfold seg_get_intersection_pt, seg_get_intersection_pt_tag. cbn [sstart send seg_new].
  assert (Hsd : vis_same_direction (vsub b a) (vsub e q) = false).
  { unfold vis_same_direction, vis_parallel. destruct (vis_zero (vsub e q) || vis_zero (vsub b a)); [reflexivity|].
    replace (nabs (vdot (vsub b a) (vsub e q) * vdot (vsub b a) (vsub e q) - vlen2 (vsub b a) * vlen2 (vsub e q)) <? c1em5)%num with false; [reflexivity|].
    symmetry. unfold c1em5. rnum. apply Rltb_false.
    revert Hc. generalize (vsub b a) (vsub e q). intros [A1 A2 A3] [B1 B2 B3]. unfold vlen2, vcross, vdot. cbn [vx vy vz]. rnum. intros Hc.
    pose proof (lagrange3 A1 A2 A3 B1 B2 B3) as Lg.
    rewrite Rabs_left1 by nra. nra. }
  rewrite Hsd.
  replace (nabs (vdot (vsub a q) (vcross (vsub b a) (vsub e q))) >? c1em5 * vlen (vcross (vsub b a) (vsub e q)))%num with false.
  2:{ symmetry. rewrite Hz. unfold c1em5, vlen. rnum. apply Rltb_false. rewrite Rabs_R0. apply Rmult_le_pos; [lra | apply sqrt_pos]. }
  revert Hc. generalize (vsub b a) (vsub e q) (vsub a q). intros [A1 A2 A3] [B1 B2 B3] [D1 D2 D3]. unfold vlen2, vcross, c1em5. cbn [vx vy vz fst]. rnum. intros Hc.
  destruct (Rltb (1 / 100000) (Rabs (A1 * B2 - A2 * B1))) eqn:Cz; [eexists; eexists; reflexivity|].
  destruct (Rltb (1 / 100000) (Rabs (A2 * B3 - A3 * B2))) eqn:Cx; [eexists; eexists; reflexivity|].
  destruct (Rltb (1 / 100000) (Rabs (A3 * B1 - A1 * B3))) eqn:Cy; [eexists; eexists; reflexivity|].
  exfalso. apply Rltb_false in Cz, Cx, Cy.
  assert (Sq : forall x, Rabs x <= 1 / 100000 -> (x * x <= 1 / 10000000000)%R).
  { intros x Hx. rewrite <- (Rabs_mult x x) || idtac. pose proof (Rabs_pos x). replace (x * x)%R with (Rabs x * Rabs x)%R by (rewrite <- Rabs_mult; apply Rabs_pos_eq; nra). nra. }
  pose proof (Sq _ Cz). pose proof (Sq _ Cx). pose proof (Sq _ Cy). lra.
Qed.

(** ** (3) crossings of the cast segment, as sign conditions *)
(** which side of the line through q with direction d the point p lies on (times |d|, in the plane with normal n) *)
Definition sideof (n q d p : V) : R := vdot n (vcross d (vsub p q)).
(** which side of the line through a and b the point p lies on *)
Definition orient3 (n a b p : V) : R := vdot n (vcross (vsub b a) (vsub p a)).
(** the edge (a,b) is properly crossed by the segment from q to q + d: a and b strictly on opposite sides of the
    segment's line, q and q + d on opposite sides of (or on) the edge's line *)
Definition crossb3 (n q d a b : V) : bool :=
  Rltb (sideof n q d a * sideof n q d b) 0 && Rleb (orient3 n a b q * orient3 n a b (vadd q d)) 0.
(** ... by the RAY from q in direction d *)
Definition rayb3 (n q d a b : V) : bool :=
  Rltb (sideof n q d a * sideof n q d b) 0 && Rleb (orient3 n a b q * vdot n (vcross (vsub b a) d)) 0.
(** parameter along the edge (a,b) of the point where its line meets the line of the ray *)
Definition edge_param (n q d a b : V) : R := sideof n q d a / (sideof n q d a - sideof n q d b).

(** three vectors perpendicular to a non-zero n have a vanishing triple product *)
Lemma triple_in_plane (n D A B : V) :
  0 < vdot n n -> vdot n D = 0 -> vdot n A = 0 -> vdot n B = 0 -> vdot D (vcross A B) = 0.
Proof.
  destruct n as [n1 n2 n3], D as [D1 D2 D3], A as [A1 A2 A3], B as [B1 B2 B3]. unfold vdot, vcross. cbn [vx vy vz]. rnum. intros Hn HD HA HB.
  assert (K : ((n1*n1+n2*n2+n3*n3) * (D1 * (A2 * B3 - A3 * B2) + D2 * (A3 * B1 - A1 * B3) + D3 * (A1 * B2 - A2 * B1)) = 0)%R) by nsatz.
  apply Rmult_integral in K. destruct K as [K|K]; [lra | exact K].
Qed.
(** ... and the cross product of two of them is a multiple of n:  (n . (A x B))^2 = |n|^2 |A x B|^2 *)
Lemma cross_parallel_normal (n A B : V) :
  vdot n A = 0 -> vdot n B = 0 -> (vdot n (vcross A B) * vdot n (vcross A B) = vdot n n * vlen2 (vcross A B))%R.
Proof.
  destruct n as [n1 n2 n3], A as [A1 A2 A3], B as [B1 B2 B3]. unfold vdot, vcross, vlen2. cbn [vx vy vz]. rnum. intros HA HB.
  nsatz.
Qed.

Lemma neps_pos : 0 < (neps : R).
Proof. cbn [neps NumR]. apply Rinv_0_lt_compat. apply IZR_lt. reflexivity. Qed.

(** the geometric data of one edge against the cast segment, from the solved parameters *)
Lemma cross_values (n q d a b : V) (ta tb : R) :
  vadd a (vscale (vsub b a) ta) = vadd q (vscale d tb) ->
  let W := vdot n (vcross (vsub b a) d) in
  sideof n q d a = (ta * W)%R /\ sideof n q d b = ((ta - 1) * W)%R /\
  orient3 n a b q = (- tb * W)%R /\ orient3 n a b (vadd q d) = ((1 - tb) * W)%R.
Proof.
  destruct n as [n1 n2 n3], q as [q1 q2 q3], d as [d1 d2 d3], a as [a1 a2 a3], b as [b1 b2 b3].
  unfold sideof, orient3, vdot, vcross, vsub, vadd, vscale. cbn [vx vy vz]. rnum. intros E. injection E as E1 E2 E3.
  assert (Q1 : q1 = (a1 + (b1 - a1) * ta - d1 * tb)%R) by lra.
  assert (Q2 : q2 = (a2 + (b2 - a2) * ta - d2 * tb)%R) by lra.
  assert (Q3 : q3 = (a3 + (b3 - a3) * ta - d3 * tb)%R) by lra.
  subst q1 q2 q3. clear E1 E2 E3. cbn zeta. repeat split; ring.
Qed.

(** the hypotheses on one edge (a,b) for the cast segment q -> q + d in the plane with normal n *)
Definition edge_generic (n q d a b : V) : Prop :=
  vdot n (vsub b a) = 0 /\ vdot n (vsub a q) = 0 /\                      (* a and b lie in the plane of q *)
  / 100000 <= vlen2 (vcross (vsub b a) d) /\                             (* edge and segment not parallel within the library's tolerance *)
  sideof n q d b <> 0 /\                                                 (* the line of the segment does not pass through b ... *)
  ~ (0 <= edge_param n q d a b < neps).                                  (* ... nor within EPSILON (edge parameter) of a *)

Lemma vsub_vadd_l (q d : V) : vsub (vadd q d) q = d.
Proof. destruct q as [q1 q2 q3], d as [d1 d2 d3]. vring. Qed.

Theorem edge_cross_count_generic (L : Loop R) (q d a b : V) :
  let n := lnormal L in
  0 < vdot n n -> vdot n d = 0 ->
  seg_contains_point (seg_new a b) q = Ok false ->
  edge_generic n q d a b ->
  edge_cross_count L q d (seg_new q (vadd q d)) a b = Ok (false, if crossb3 n q d a b then 1%nat else 0%nat).
Proof.
  cbn zeta. intros Hnn Hnd Hon [Hab [Haq [Hpar [Hsb Hband]]]].
  unfold edge_cross_count. rewrite Hon. cbn [rbind].
  assert (T : vdot (vsub a q) (vcross (vsub b a) (vsub (vadd q d) q)) = 0).
  { rewrite vsub_vadd_l. apply (triple_in_plane (lnormal L)); assumption. }
  destruct (gip_some a b q (vadd q d)) as [ta [tb G]]; [rewrite vsub_vadd_l; exact Hpar | exact T|].
  rewrite G.
  pose proof (gip_solves a b q (vadd q d) ta tb G T) as E. rewrite vsub_vadd_l in E.
  destruct (cross_values (lnormal L) q d a b ta tb E) as [Sa [Sb [Oq Oe]]].
  set (W := vdot (lnormal L) (vcross (vsub b a) d)) in *.
  assert (HW : (0 < W * W)%R).
  { unfold W. rewrite (cross_parallel_normal (lnormal L) (vsub b a) d Hab Hnd). apply Rmult_lt_0_compat; [exact Hnn | lra]. }
  assert (HW0 : W <> 0) by (intros E0; rewrite E0 in HW; lra).
  assert (Hta1 : ta <> 1) by (intros E1; apply Hsb; rewrite Sb, E1; ring).
  assert (Hp : edge_param (lnormal L) q d a b = ta).
  { unfold edge_param. rewrite Sa, Sb. replace (ta * W - (ta - 1) * W)%R with W by ring. field. exact HW0. }
  rewrite Hp in Hband. pose proof neps_pos as He.
  remember (@neps R NumR) as eps eqn:Eeps. clear Eeps.
  unfold crossb3. rewrite Sa, Sb, Oq, Oe. unfold in01. rnum.
  replace (ta * W * ((ta - 1) * W))%R with (ta * (ta - 1) * (W * W))%R by ring.
  replace (- tb * W * ((1 - tb) * W))%R with (- (tb * (1 - tb)) * (W * W))%R by ring.
  set (WW := (W * W)%R) in *. clearbody WW.
  destruct (Rleb 0 tb) eqn:B1; [apply Rleb_true in B1 | apply Rleb_false in B1];
  (destruct (Rleb tb 1) eqn:B2; [apply Rleb_true in B2 | apply Rleb_false in B2]);
  (destruct (Rleb 0 ta) eqn:A1; [apply Rleb_true in A1 | apply Rleb_false in A1]);
  (destruct (Rleb ta 1) eqn:A2; [apply Rleb_true in A2 | apply Rleb_false in A2]); cbn [andb].
  1:{ (* in range *)
      assert (A3 : eps <= ta) by (destruct (Rle_or_lt eps ta) as [K|K]; [exact K | exfalso; apply Hband; split; assumption]).
      rewrite (proj2 (Rltb_false ta eps)) by exact A3. rewrite (proj2 (Rltb_true ta 1)) by lra.
      assert (P1 : (ta * (ta - 1) < 0)%R) by nra. assert (P2 : (0 <= tb * (1 - tb))%R) by nra.
      rewrite (proj2 (Rltb_true (ta * (ta - 1) * WW) 0)) by nra.
      rewrite (proj2 (Rleb_true (- (tb * (1 - tb)) * WW) 0)) by nra. reflexivity. }
  all: f_equal; f_equal.
  all: destruct (Rltb (ta * (ta - 1) * WW) 0) eqn:C1; [apply Rltb_true in C1 | reflexivity].
  all: destruct (Rleb (- (tb * (1 - tb)) * WW) 0) eqn:C2; [apply Rleb_true in C2 | reflexivity].
  all: exfalso.
  all: assert (P1 : (ta * (ta - 1) < 0)%R) by nra; assert (P2 : (0 <= tb * (1 - tb))%R) by nra; nra.
Qed.

(** ** the whole loop *)
(** the edges of the closed outline, in stored order (the last one returns to the first vertex) *)
Definition cyc_edges (vs : list V) : list (V * V) := edges_from vs (vnth vs O).
(** the cast segment of the live code: direction q - (midpoint of the first stored edge), length
    max (2 * distance to the farthest vertex, 1000)  ([loop_ray], Model/Loop.v).  Before fix 6f318c4 it was
    1000 (q - midpoint)  ([pinned_ray], Model/PinnedLoop.v). *)
Definition test_ray (L : Loop R) (q : V) : V := loop_ray L q.

Lemma count_crossings_spec (L : Loop R) (q d : V) (ray : Seg R) (g : V -> V -> bool) (vs : list V) (first : V) :
  forall acc,
  (forall a b, In (a, b) (edges_from vs first) -> edge_cross_count L q d ray a b = Ok (false, if g a b then 1%nat else 0%nat)) ->
  count_crossings L q d ray vs first acc = Ok (false, (acc + countb g (edges_from vs first))%nat).
Proof.
  induction vs as [|a tl IH]; intros acc H.
  - cbn [count_crossings edges_from countb filter length]. rewrite Nat.add_0_r. reflexivity.
  - cbn [count_crossings edges_from]. rewrite (H a _ (or_introl eq_refl)). cbn [rbind fst snd].
    rewrite IH by (intros a' b' Hin; apply H; right; exact Hin).
    unfold countb. cbn [filter fst snd]. destruct (g a _); cbn [length]; f_equal; f_equal; lia.
Qed.

Lemma odd_rule (c : nat) : negb (Nat.eqb c 0) && Nat.odd c = Nat.odd c.
Proof. destruct c; reflexivity. Qed.

(** [test_point] is the generic point test with the ray of the code *)
Lemma test_point_is_gen (L : Loop R) (q : V) : loop_test_point L q = loop_test_point_gen loop_ray L q.
Proof. reflexivity. Qed.
Lemma test_point_pinned_is_gen (L : Loop R) (q : V) : loop_test_point_pinned L q = loop_test_point_gen pinned_ray L q.
Proof. reflexivity. Qed.

(** CORE: for a closed, exactly planar loop and a point q of its plane that no edge "contains" (the on-edge
    shortcut of [contains_point] does not fire), with a generic cast segment (see [edge_generic]),
    the point test answers the parity of the number of edges properly crossed by the cast segment.
    Stated for any in-plane choice of the cast segment ([rayf]); the live code's choice is [loop_ray], the former one [pinned_ray]. *)
Theorem test_point_gen_counts_crossings (rayf : Loop R -> V -> V) (L : Loop R) (q : V) :
  lclosed L = true -> (1 <= llen L)%nat ->
  let n := lnormal L in let d := rayf L q in
  vis_zero n = false -> 0 < vdot n n -> vdot n d = 0 ->
  (forall a b, In (a, b) (cyc_edges (verts L)) -> seg_contains_point (seg_new a b) q = Ok false /\ edge_generic n q d a b) ->
  loop_test_point_gen rayf L q = Ok (Nat.odd (countb (crossb3 n q d) (cyc_edges (verts L)))).
Proof.
  cbn zeta. intros Hc Hlen Hz Hnn Hd He.
  destruct (verts L) as [|v0 rest] eqn:Hv; unfold llen in Hlen; rewrite Hv in Hlen; cbn [length] in Hlen; try lia.
  assert (E0 : exists w, In (v0, w) (cyc_edges (v0 :: rest))) by (eexists; left; reflexivity).
  destruct E0 as [w E0]. destruct (He _ _ E0) as [_ [_ [Haq _]]].
  unfold loop_test_point_gen. rewrite Hc. cbn [negb]. unfold loop_is_coplanar. rewrite Hv, Hz. cbn [rbind].
  replace (nabs (vdot (lnormal L) (vsub v0 q)) <? c1em7)%num with true
    by (symmetry; unfold c1em7; rnum; rewrite Haq, Rabs_R0; apply Rltb_true; lra).
  cbn [negb]. rewrite <- Hv.
  rewrite (count_crossings_spec L q (rayf L q) _ (crossb3 (lnormal L) q (rayf L q))).
  - cbn [rbind fst snd]. rewrite odd_rule. unfold cyc_edges. reflexivity.
  - intros a b Hin. destruct (He a b) as [Hon Hg]; [rewrite Hv in Hin; exact Hin|].
    apply edge_cross_count_generic; assumption.
Qed.

(** the ray of the code lies in the plane of the loop *)
Lemma test_ray_in_plane (L : Loop R) (q : V) :
  (2 <= llen L)%nat ->
  (forall a b, In (a, b) (cyc_edges (verts L)) -> vdot (lnormal L) (vsub b a) = 0 /\ vdot (lnormal L) (vsub a q) = 0) ->
  forall k : R, vdot (lnormal L) (vscale (vsub q (vscale (vadd (vnth (verts L) O) (vnth (verts L) (S O))) nhalf)) k) = 0.
Proof.
  intros Hlen He k.
  destruct (verts L) as [|v0 [|v1 rest]] eqn:Ev; unfold llen in Hlen; rewrite Ev in Hlen; cbn [length] in Hlen; try lia.
  assert (E0 : In (v0, v1) (cyc_edges (v0 :: v1 :: rest))) by (left; reflexivity).
  destruct (He _ _ E0) as [Hab Haq].
  unfold vnth; cbn [List.nth]. revert Hab Haq. generalize (lnormal L). intros [n1 n2 n3].
  destruct v0 as [a1 a2 a3], v1 as [b1 b2 b3], q as [q1 q2 q3]. unfold vdot, vsub, vadd, vscale. cbn [vx vy vz]. rnum. intros Hab Haq.
  assert (S0 : (n1 * (q1 - (a1 + b1) * (1 / 2)) + n2 * (q2 - (a2 + b2) * (1 / 2)) + n3 * (q3 - (a3 + b3) * (1 / 2)) = 0)%R) by lra.
  replace (n1 * ((q1 - (a1 + b1) * (1 / 2)) * k) + n2 * ((q2 - (a2 + b2) * (1 / 2)) * k) + n3 * ((q3 - (a3 + b3) * (1 / 2)) * k))%R
    with ((n1 * (q1 - (a1 + b1) * (1 / 2)) + n2 * (q2 - (a2 + b2) * (1 / 2)) + n3 * (q3 - (a3 + b3) * (1 / 2))) * k)%R by ring.
  rewrite S0. ring.
Qed.

(** ** (3b) what [crossb3] means: the edge and the cast segment meet at a point interior to the edge *)
Definition meets (q d a b : V) : Prop :=
  exists ta tb, 0 < ta < 1 /\ 0 <= tb <= 1 /\ vadd a (vscale (vsub b a) ta) = vadd q (vscale d tb).

Lemma in_plane_zero (n A d r : V) :
  vdot n A = 0 -> vdot n d = 0 -> vdot n r = 0 -> 0 < vdot n n ->
  vdot n (vcross A d) <> 0 -> vdot n (vcross d r) = 0 -> vdot n (vcross A r) = 0 -> r = vzero.
Proof.
  intros HA Hd Hr Hn HW H1 H2.
  pose proof (triple_in_plane n r A d Hn Hr HA Hd) as T.
  destruct n as [n1 n2 n3], A as [A1 A2 A3], d as [d1 d2 d3], r as [r1 r2 r3].
  unfold vdot, vcross, vzero in *. cbn [vx vy vz] in *. rnum.
  set (W := (n1 * (A2 * d3 - A3 * d2) + n2 * (A3 * d1 - A1 * d3) + n3 * (A1 * d2 - A2 * d1))%R) in *.
  (* Cramer: W r = [r,d,n] A + [A,r,n] d + [A,d,r] n *)
  assert (K1 : (W * r1 = 0)%R) by (unfold W; nsatz).
  assert (K2 : (W * r2 = 0)%R) by (unfold W; nsatz).
  assert (K3 : (W * r3 = 0)%R) by (unfold W; nsatz).
  apply Rmult_integral in K1, K2, K3.
  destruct K1 as [K1|K1]; [contradiction|]. destruct K2 as [K2|K2]; [contradiction|]. destruct K3 as [K3|K3]; [contradiction|].
  subst. reflexivity.
Qed.

Lemma vsub_zero_eq (x y : V) : vsub x y = vzero -> x = y.
Proof.
  destruct x as [x1 x2 x3], y as [y1 y2 y3]. unfold vsub, vzero. cbn [vx vy vz]. rnum. intros H. injection H as H1 H2 H3.
  apply v3_eq; cbn [vx vy vz]; lra.
Qed.

Theorem crossb3_meets (n q d a b : V) :
  0 < vdot n n -> vdot n d = 0 -> vdot n (vsub b a) = 0 -> vdot n (vsub a q) = 0 ->
  vdot n (vcross (vsub b a) d) <> 0 ->
  (crossb3 n q d a b = true <-> meets q d a b).
Proof.
  intros Hn Hd Hab Haq HW. set (W := vdot n (vcross (vsub b a) d)) in *.
  assert (HWW : (0 < W * W)%R) by nra.
  split.
  - intros C. unfold crossb3 in C. apply andb_prop in C. destruct C as [C1 C2]. apply Rltb_true in C1. apply Rleb_true in C2.
    set (sa := sideof n q d a) in *. set (sb := sideof n q d b) in *. set (oq := orient3 n a b q) in *.
    assert (EW : (sa - sb = W)%R).
    { unfold sa, sb, sideof, W. destruct n as [n1 n2 n3], q as [q1 q2 q3], d as [d1 d2 d3], a as [a1 a2 a3], b as [b1 b2 b3]. unfold vdot, vcross, vsub. cbn [vx vy vz]. rnum. ring. }
    assert (EO : (orient3 n a b (vadd q d) = oq + W)%R).
    { unfold oq, orient3, W. destruct n as [n1 n2 n3], q as [q1 q2 q3], d as [d1 d2 d3], a as [a1 a2 a3], b as [b1 b2 b3]. unfold vdot, vcross, vsub, vadd. cbn [vx vy vz]. rnum. ring. }
    rewrite EO in C2.
    set (ta := (sa / W)%R). set (tb := (- oq / W)%R).
    assert (Ta : (ta * W = sa)%R) by (unfold ta; field; exact HW).
    assert (Tb : (tb * W = - oq)%R) by (unfold tb; field; exact HW).
    exists ta, tb.
    assert (R1 : 0 < ta < 1).
    { assert (sb = ((ta - 1) * W)%R) by lra. split.
      - destruct (Rle_or_lt ta 0) as [K|K]; [exfalso|exact K]. assert (0 <= - ta * (1 - ta))%R by nra. nra.
      - destruct (Rle_or_lt 1 ta) as [K|K]; [exfalso|exact K]. assert (0 <= ta * (ta - 1))%R by nra. nra. }
    assert (R2 : 0 <= tb <= 1).
    { assert (E2 : (oq * (oq + W) = - (tb * (1 - tb)) * (W * W))%R) by (replace oq with (- tb * W)%R by lra; ring).
      rewrite E2 in C2. assert (0 <= tb * (1 - tb))%R by nra. split; nra. }
    split; [exact R1|]. split; [exact R2|].
    (* the difference vector is in the plane and parallel to both directions: zero *)
    set (r := vsub (vadd a (vscale (vsub b a) ta)) (vadd q (vscale d tb))).
    assert (Hr : r = vzero).
    { apply (in_plane_zero n (vsub b a) d r Hab Hd); [| exact Hn | exact HW | |].
      - revert Hd Hab Haq. unfold r. destruct n as [n1 n2 n3], q as [q1 q2 q3], d as [d1 d2 d3], a as [a1 a2 a3], b as [b1 b2 b3].
        unfold vdot, vsub, vadd, vscale. cbn [vx vy vz]. rnum. intros. nra.
      - transitivity (sa - ta * W)%R; [|lra]. unfold sa, sideof, W, r.
        destruct n as [n1 n2 n3], q as [q1 q2 q3], d as [d1 d2 d3], a as [a1 a2 a3], b as [b1 b2 b3].
        unfold vdot, vcross, vsub, vadd, vscale. cbn [vx vy vz]. rnum. ring.
      - transitivity (- oq - tb * W)%R; [|lra]. unfold oq, orient3, W, r.
        destruct n as [n1 n2 n3], q as [q1 q2 q3], d as [d1 d2 d3], a as [a1 a2 a3], b as [b1 b2 b3].
        unfold vdot, vcross, vsub, vadd, vscale. cbn [vx vy vz]. rnum. ring. }
    apply vsub_zero_eq. exact Hr.
  - intros [ta [tb [Ha [Hb E]]]]. destruct (cross_values n q d a b ta tb E) as [Sa [Sb [Oq Oe]]]. fold W in Sa, Sb, Oq, Oe.
    unfold crossb3. rewrite Sa, Sb, Oq, Oe. apply andb_true_intro. split; [apply Rltb_true | apply Rleb_true].
    + replace (ta * W * ((ta - 1) * W))%R with (ta * (ta - 1) * (W * W))%R by ring. assert (ta * (ta - 1) < 0)%R by nra. nra.
    + replace (- tb * W * ((1 - tb) * W))%R with (- (tb * (1 - tb)) * (W * W))%R by ring. assert (0 <= tb * (1 - tb))%R by nra. nra.
Qed.

(** ** (4) a segment long enough to pass every vertex crosses exactly the edges its ray crosses *)
Lemma long_ray (sa sb oq W la lb dd : R) :
  W = (sa - sb)%R -> (lb * sa - la * sb = - oq * dd)%R -> 0 < dd -> la <= dd -> lb <= dd -> (sa * sb < 0)%R ->
  (oq * W <= 0 <-> oq * (oq + W) <= 0)%R.
Proof.
  intros HW HI Hdd Hla Hlb Hs. split; [|intros; nra].
  intros H. destruct (Rlt_or_le 0 sa) as [Sa|Sa].
  - assert (sb < 0) by nra. assert (0 < W) by lra. assert (oq <= 0) by nra.
    assert ((- oq) * dd <= dd * W)%R by (rewrite <- HI; subst W; nra).
    assert (- oq <= W) by nra. nra.
  - assert (sa < 0) by (destruct Sa as [Sa|Sa]; [exact Sa | subst sa; lra]).
    assert (0 < sb) by nra. assert (W < 0) by lra. assert (0 <= oq) by nra.
    assert (dd * W <= (- oq) * dd)%R by (rewrite <- HI; subst W; nra).
    assert (W <= - oq) by nra. nra.
Qed.

Theorem long_segment_is_ray (n q d a b : V) :
  vdot n d = 0 -> 0 < vdot d d ->
  vdot (vsub a q) d <= vdot d d -> vdot (vsub b q) d <= vdot d d ->
  crossb3 n q d a b = rayb3 n q d a b.
Proof.
  intros Hd Hdd Hla Hlb. unfold crossb3, rayb3.
  destruct (Rltb (sideof n q d a * sideof n q d b) 0) eqn:C1; [apply Rltb_true in C1 | reflexivity]. cbn [andb].
  set (sa := sideof n q d a) in *. set (sb := sideof n q d b) in *. set (oq := orient3 n a b q) in *.
  set (W := vdot n (vcross (vsub b a) d)).
  assert (EW : W = (sa - sb)%R).
  { unfold sa, sb, sideof, W. destruct n as [n1 n2 n3], q as [q1 q2 q3], d as [d1 d2 d3], a as [a1 a2 a3], b as [b1 b2 b3]. unfold vdot, vcross, vsub. cbn [vx vy vz]. rnum. ring. }
  assert (EO : (orient3 n a b (vadd q d) = oq + W)%R).
  { unfold oq, orient3, W. destruct n as [n1 n2 n3], q as [q1 q2 q3], d as [d1 d2 d3], a as [a1 a2 a3], b as [b1 b2 b3]. unfold vdot, vcross, vsub, vadd. cbn [vx vy vz]. rnum. ring. }
  assert (EI : (vdot (vsub b q) d * sa - vdot (vsub a q) d * sb = - oq * vdot d d)%R).
  { unfold sa, sb, oq, sideof, orient3. revert Hd. destruct n as [n1 n2 n3], q as [q1 q2 q3], d as [d1 d2 d3], a as [a1 a2 a3], b as [b1 b2 b3].
    unfold vdot, vcross, vsub. cbn [vx vy vz]. rnum. intros Hd. nsatz. }
  rewrite EO. pose proof (long_ray sa sb oq W _ _ _ EW EI Hdd Hla Hlb C1) as [L1 L2].
  destruct (Rleb (oq * W) 0) eqn:C2; [apply Rleb_true in C2; apply Rleb_true; exact (L1 C2)|].
  apply Rleb_false in C2. apply Rleb_false. destruct (Rlt_or_le 0 (oq * (oq + W))) as [K|K]; [exact K | exfalso; pose proof (L2 K); lra].
Qed.

Lemma in_cyc_edges (vs : list V) (a b : V) : In (a, b) (cyc_edges vs) -> In a vs /\ In b vs.
Proof.
  unfold cyc_edges. intros H. destruct (in_edges_from _ _ _ _ H) as [I1 I2]. split; [exact I1|].
  destruct I2 as [I2|I2]; [exact I2|]. subst b. destruct vs as [|v tl]; [destruct I1 | left; reflexivity].
Qed.

(** the F7 hypothesis made explicit: 1000 |q - m| exceeds the extent of the loop along the ray *)
Definition long_enough (q d : V) (vs : list V) : Prop := forall v, In v vs -> vdot (vsub v q) d <= vdot d d.

Theorem count_long_segment_is_ray (n q d : V) (vs : list V) :
  vdot n d = 0 -> 0 < vdot d d -> long_enough q d vs ->
  countb (crossb3 n q d) (cyc_edges vs) = countb (rayb3 n q d) (cyc_edges vs).
Proof.
  intros Hd Hdd Hl. apply countb_ext. intros a b Hin. destruct (in_cyc_edges _ _ _ Hin) as [Ia Ib].
  apply long_segment_is_ray; [exact Hd | exact Hdd | apply Hl; exact Ia | apply Hl; exact Ib].
Qed.

(** ** (5) 2-D coordinates of the plane: p |-> (e1 . (p - o), e2 . (p - o)) with e1 x e2 = n *)
Definition plane2 (o e1 e2 p : V) : P2 := (vdot e1 (vsub p o), vdot e2 (vsub p o)).
Definition planev (e1 e2 d : V) : P2 := (vdot e1 d, vdot e2 d).
(** Binet-Cauchy:  (e1 x e2) . (x x y) = (e1.x)(e2.y) - (e1.y)(e2.x) *)
Lemma binet_cauchy (e1 e2 x y : V) : vdot (vcross e1 e2) (vcross x y) = det2 (planev e1 e2 x) (planev e1 e2 y).
Proof.
  destruct e1 as [u1 u2 u3], e2 as [w1 w2 w3], x as [x1 x2 x3], y as [y1 y2 y3].
  unfold det2, planev, vdot, vcross. cbn [vx vy vz fst snd]. rnum. ring.
Qed.
Lemma planev_sub (o e1 e2 p r : V) : planev e1 e2 (vsub p r) = sub2 (plane2 o e1 e2 p) (plane2 o e1 e2 r).
Proof.
  destruct e1 as [u1 u2 u3], e2 as [w1 w2 w3], p as [p1 p2 p3], r as [r1 r2 r3], o as [o1 o2 o3].
  unfold planev, plane2, sub2, vdot, vsub. cbn [vx vy vz fst snd]. rnum. f_equal; ring.
Qed.
Theorem rayb3_plane (o e1 e2 q d a b : V) :
  rayb3 (vcross e1 e2) q d a b = ray_cross2 (plane2 o e1 e2 q) (planev e1 e2 d) (plane2 o e1 e2 a) (plane2 o e1 e2 b).
Proof.
  unfold rayb3, ray_cross2, sideof, orient3, hgt2, orient2. rewrite !binet_cauchy. rewrite !(planev_sub o). reflexivity.
Qed.

Lemma cyc_edges_map (g : V -> P2) (vs : list V) :
  cyc_edges2 (map g vs) = map (fun e => (g (fst e), g (snd e))) (cyc_edges vs).
Proof.
  unfold cyc_edges2, cyc_edges. destruct vs as [|v tl]; [reflexivity|]. cbn [map hd vnth List.nth].
  change (g v :: map g tl) with (map g (v :: tl)). apply edges_from_map.
Qed.

(** ** (3)-(6) assembled, for any in-plane cast segment [rayf L q] that is long enough to pass every vertex: the point
    test answers the parity of the number of fan triangles (apex in general position) that contain the point, in 2-D
    coordinates of the plane -- a quantity independent of the ray *)
Theorem test_point_gen_counts_ray_crossings (rayf : Loop R -> V -> V) (L : Loop R) (q : V) :
  lclosed L = true -> (1 <= llen L)%nat ->
  let n := lnormal L in let d := rayf L q in
  vis_zero n = false -> 0 < vdot n n -> vdot n d = 0 ->
  (forall a b, In (a, b) (cyc_edges (verts L)) -> seg_contains_point (seg_new a b) q = Ok false /\ edge_generic n q d a b) ->
  0 < vdot d d -> long_enough q d (verts L) ->
  loop_test_point_gen rayf L q = Ok (Nat.odd (countb (rayb3 n q d) (cyc_edges (verts L)))).
Proof.
  cbn zeta. intros Hc Hlen Hz Hnn Hnd He Hdd Hlong.
  rewrite (test_point_gen_counts_crossings rayf L q Hc Hlen Hz Hnn Hnd He). f_equal. f_equal.
  apply count_long_segment_is_ray; assumption.
Qed.
Theorem test_point_gen_fan_parity (rayf : Loop R -> V -> V) (L : Loop R) (q o e1 e2 : V) (apex : P2) :
  lclosed L = true -> (1 <= llen L)%nat ->
  let n := lnormal L in let d := rayf L q in
  let pr := plane2 o e1 e2 in let q' := pr q in let d' := planev e1 e2 d in
  vis_zero n = false -> 0 < vdot n n -> n = vcross e1 e2 -> vdot n d = 0 ->
  (forall a b, In (a, b) (cyc_edges (verts L)) -> seg_contains_point (seg_new a b) q = Ok false /\ edge_generic n q d a b) ->
  0 < vdot d d -> long_enough q d (verts L) ->
  hgt2 q' d' apex <> 0 ->
  (forall v, In v (verts L) -> hgt2 q' d' (pr v) <> 0 /\ orient2 apex (pr v) q' <> 0) ->
  (forall a b, In (a, b) (cyc_edges (verts L)) -> orient2 (pr a) (pr b) q' <> 0) ->
  loop_test_point_gen rayf L q = Ok (xpar (in_tri2 q' apex) (cyc_edges2 (map pr (verts L)))).
Proof.
  cbn zeta. intros Hc Hlen Hz Hnn Hn Hnd He Hdd Hlong Hap Hv Hed.
  rewrite (test_point_gen_counts_ray_crossings rayf L q Hc Hlen Hz Hnn Hnd He Hdd Hlong). f_equal. rewrite odd_countb.
  rewrite <- (ray_parity_fan (plane2 o e1 e2 q) (planev e1 e2 (rayf L q)) apex).
  - rewrite cyc_edges_map, xpar_map. apply xpar_ext. intros a b _. rewrite Hn. apply rayb3_plane.
  - exact Hap.
  - intros v Iv. apply in_map_iff in Iv. destruct Iv as [u [Eu Iu]]. subst v. apply Hv. exact Iu.
  - intros a b Iab. rewrite cyc_edges_map in Iab. apply in_map_iff in Iab. destruct Iab as [[u w] [E Iu]]. cbn [fst snd] in E. injection E as Ea Eb. subst a b.
    apply Hed. exact Iu.
Qed.

(** ** the cast segment of the live code (fix 6f318c4) always passes every vertex *)
Lemma fmax_R (a b : R) : fmax a b = Rmax a b.
Proof.
  unfold fmax. cbn [nis_nan NumR]. rnum. unfold Rmax. destruct (Rltb a b) eqn:E; [apply Rltb_true in E | apply Rltb_false in E]; destruct (Rle_dec a b); try reflexivity; lra.
Qed.
Lemma reach_fold (g : V -> R) (l : list V) : forall acc,
  acc <= fold_left (fun acc v => fmax acc (g v)) l acc /\ (forall v, In v l -> g v <= fold_left (fun acc v => fmax acc (g v)) l acc).
Proof.
  induction l as [|a l IH]; intros acc; cbn [fold_left]; [split; [lra | intros v []]|].
  destruct (IH (fmax acc (g a))) as [I1 I2]. rewrite fmax_R in *. split.
  - pose proof (Rmax_l acc (g a)). lra.
  - intros v [E|Hin]; [subst v; pose proof (Rmax_r acc (g a)); lra | apply I2; exact Hin].
Qed.
Lemma cauchy_schwarz (u w : V) : vdot u w <= vlen u * vlen w.
Proof.
  unfold vlen. rnum.
  assert (Hu : 0 <= vlen2 u) by (destruct u as [u1 u2 u3]; unfold vlen2; cbn [vx vy vz]; rnum; nra).
  assert (Hw : 0 <= vlen2 w) by (destruct w as [w1 w2 w3]; unfold vlen2; cbn [vx vy vz]; rnum; nra).
  rewrite <- sqrt_mult by assumption.
  assert (L : (vdot u w * vdot u w <= vlen2 u * vlen2 w)%R).
  { destruct u as [u1 u2 u3], w as [w1 w2 w3]. unfold vdot, vlen2. cbn [vx vy vz]. rnum. pose proof (lagrange3 u1 u2 u3 w1 w2 w3) as Lg.
    pose proof (Rle_0_sqr (u2*w3-u3*w2)) as S1. pose proof (Rle_0_sqr (u3*w1-u1*w3)) as S2. pose proof (Rle_0_sqr (u1*w2-u2*w1)) as S3. unfold Rsqr in *. lra. }
  destruct (Rle_or_lt (vdot u w) 0) as [K|K]; [pose proof (sqrt_pos (vlen2 u * vlen2 w)); lra|].
  rewrite <- (sqrt_square (vdot u w)) by lra. apply sqrt_le_1_alt. exact L.
Qed.

Theorem loop_ray_long_enough (L : Loop R) (q : V) :
  let dir := vsub q (vscale (vadd (vnth (verts L) O) (vnth (verts L) (S O))) nhalf) in
  0 < vlen2 dir ->
  long_enough q (loop_ray L q) (verts L) /\ 1000 * 1000 <= vdot (loop_ray L q) (loop_ray L q).
Proof.
  cbn zeta. intros Hdir. unfold loop_ray. set (dir := vsub q _) in *. set (rch := loop_reach L q).
  assert (Hs : 0 < vlen dir) by (unfold vlen; rnum; apply sqrt_lt_R0; exact Hdir).
  assert (Hq : (vlen dir * vlen dir = vlen2 dir)%R) by (unfold vlen; rnum; apply sqrt_sqrt; lra).
  destruct (reach_fold (fun v => vlen (vsub v q)) (verts L) n0) as [R0 Rv]. fold (loop_reach L q) in R0, Rv. fold rch in R0, Rv.
  rewrite fmax_R. rnum. set (len := Rmax (2 * rch) 1000).
  assert (Hl1 : 2 * rch <= len) by apply Rmax_l. assert (Hl2 : 1000 <= len) by apply Rmax_r.
  set (k := (len / vlen dir)%R).
  assert (Hk : 0 <= k) by (unfold k; apply Rmult_le_pos; [lra | left; apply Rinv_0_lt_compat; exact Hs]).
  assert (Hkl : (k * vlen dir = len)%R) by (unfold k; field; lra).
  assert (Edd : vdot (vscale dir k) (vscale dir k) = (k * k * vlen2 dir)%R) by (destruct dir as [d1 d2 d3]; unfold vdot, vscale, vlen2; cbn [vx vy vz]; rnum; ring).
  assert (Edd' : vdot (vscale dir k) (vscale dir k) = (len * len)%R).
  { rewrite Edd, <- Hq. replace (k * k * (vlen dir * vlen dir))%R with ((k * vlen dir) * (k * vlen dir))%R by ring. rewrite Hkl. ring. }
  split; [|rewrite Edd'; nra].
  intros v Iv. rewrite Edd'.
  assert (E1 : vdot (vsub v q) (vscale dir k) = (k * vdot (vsub v q) dir)%R) by (destruct (vsub v q) as [w1 w2 w3], dir as [d1 d2 d3]; unfold vdot, vscale; cbn [vx vy vz]; rnum; ring).
  rewrite E1. pose proof (cauchy_schwarz (vsub v q) dir) as CS. pose proof (Rv v Iv) as Rvv. cbn beta in Rvv.
  assert (Hvl : 0 <= vlen (vsub v q)) by (unfold vlen; rnum; apply sqrt_pos).
  assert (B1 : (k * vdot (vsub v q) dir <= k * (vlen (vsub v q) * vlen dir))%R) by (apply Rmult_le_compat_l; assumption).
  assert (B2 : (k * (vlen (vsub v q) * vlen dir) = len * vlen (vsub v q))%R) by (rewrite <- Hkl; ring).
  nra.
Qed.

Lemma cross_scale_zero (A dir : V) (k : R) : vlen2 dir <= 0 -> vlen2 (vcross A (vscale dir k)) = 0.
Proof.
  destruct A as [A1 A2 A3], dir as [d1 d2 d3]. unfold vlen2, vcross, vscale. cbn [vx vy vz]. rnum. intros K.
  assert (d1 = 0) by nra. assert (d2 = 0) by nra. assert (d3 = 0) by nra. subst. ring.
Qed.

(** what the hypotheses on the edges give about the live ray: it lies in the plane, is not zero (the point is not the
    midpoint of the first edge: a zero ray would be parallel to every edge), and passes every vertex *)
Lemma loop_ray_facts (L : Loop R) (q : V) :
  (2 <= llen L)%nat ->
  (forall a b, In (a, b) (cyc_edges (verts L)) -> edge_generic (lnormal L) q (loop_ray L q) a b) ->
  vdot (lnormal L) (loop_ray L q) = 0 /\ 0 < vdot (loop_ray L q) (loop_ray L q) /\ long_enough q (loop_ray L q) (verts L).
Proof.
  intros Hlen He.
  assert (Hnd : vdot (lnormal L) (loop_ray L q) = 0).
  { unfold loop_ray. apply (test_ray_in_plane L q Hlen). intros a b Hin. destruct (He a b Hin) as [Hab [Haq _]]. split; assumption. }
  assert (Hdir : 0 < vlen2 (vsub q (vscale (vadd (vnth (verts L) O) (vnth (verts L) (S O))) nhalf))).
  { destruct (verts L) as [|v0 [|v1 rest]] eqn:Ev; unfold llen in Hlen; rewrite Ev in Hlen; cbn [length] in Hlen; try lia.
    assert (E0 : In (v0, v1) (cyc_edges (v0 :: v1 :: rest))) by (left; reflexivity).
    destruct (He _ _ E0) as [_ [_ [Hpar _]]]. unfold loop_ray in Hpar. rewrite Ev in Hpar.
    match goal with |- 0 < ?x => destruct (Rle_or_lt x 0) as [K|K]; [exfalso | exact K] end.
    rewrite (cross_scale_zero _ _ _ K) in Hpar. lra. }
  destruct (loop_ray_long_enough L q Hdir) as [Hl Hdd]. split; [exact Hnd|]. split; [lra | exact Hl].
Qed.

(** ** the live code *)
(** CORE for the live code: parity of the edges properly crossed by the cast segment ... *)
Theorem test_point_counts_crossings (L : Loop R) (q : V) :
  lclosed L = true -> (2 <= llen L)%nat ->
  let n := lnormal L in let d := test_ray L q in
  vis_zero n = false -> 0 < vdot n n ->
  (forall a b, In (a, b) (cyc_edges (verts L)) -> seg_contains_point (seg_new a b) q = Ok false /\ edge_generic n q d a b) ->
  loop_test_point L q = Ok (Nat.odd (countb (crossb3 n q d) (cyc_edges (verts L)))).
Proof.
  cbn zeta. intros Hc Hlen Hz Hnn He. rewrite test_point_is_gen. unfold test_ray in *.
  destruct (loop_ray_facts L q Hlen (fun a b Hin => proj2 (He a b Hin))) as [Hnd _].
  apply (test_point_gen_counts_crossings loop_ray); try assumption. lia.
Qed.
(** ... which is the parity of the edges crossed by the RAY: no length hypothesis *)
Theorem test_point_counts_ray_crossings (L : Loop R) (q : V) :
  lclosed L = true -> (2 <= llen L)%nat ->
  let n := lnormal L in let d := test_ray L q in
  vis_zero n = false -> 0 < vdot n n ->
  (forall a b, In (a, b) (cyc_edges (verts L)) -> seg_contains_point (seg_new a b) q = Ok false /\ edge_generic n q d a b) ->
  loop_test_point L q = Ok (Nat.odd (countb (rayb3 n q d) (cyc_edges (verts L)))).
Proof.
  cbn zeta. intros Hc Hlen Hz Hnn He. rewrite test_point_is_gen. unfold test_ray in *.
  destruct (loop_ray_facts L q Hlen (fun a b Hin => proj2 (He a b Hin))) as [Hnd [Hdd Hl]].
  apply (test_point_gen_counts_ray_crossings loop_ray); try assumption. lia.
Qed.
Theorem test_point_fan_parity (L : Loop R) (q o e1 e2 : V) (apex : P2) :
  lclosed L = true -> (2 <= llen L)%nat ->
  let n := lnormal L in let d := test_ray L q in
  let pr := plane2 o e1 e2 in let q' := pr q in let d' := planev e1 e2 d in
  vis_zero n = false -> 0 < vdot n n -> n = vcross e1 e2 ->
  (forall a b, In (a, b) (cyc_edges (verts L)) -> seg_contains_point (seg_new a b) q = Ok false /\ edge_generic n q d a b) ->
  hgt2 q' d' apex <> 0 ->
  (forall v, In v (verts L) -> hgt2 q' d' (pr v) <> 0 /\ orient2 apex (pr v) q' <> 0) ->
  (forall a b, In (a, b) (cyc_edges (verts L)) -> orient2 (pr a) (pr b) q' <> 0) ->
  loop_test_point L q = Ok (xpar (in_tri2 q' apex) (cyc_edges2 (map pr (verts L)))).
Proof.
  cbn zeta. intros Hc Hlen Hz Hnn Hn He Hap Hv Hed. rewrite test_point_is_gen. unfold test_ray in *.
  destruct (loop_ray_facts L q Hlen (fun a b Hin => proj2 (He a b Hin))) as [Hnd [Hdd Hl]].
  apply (test_point_gen_fan_parity loop_ray); try assumption. lia.
Qed.

(** ** the code before fix 6f318c4 ([loop_test_point_pinned], cast segment 1000 (q - m)): the same statements need the
    length hypothesis, which fails near the midpoint of the first edge (Proofs/C05_examples.v) *)
Lemma pinned_ray_in_plane (L : Loop R) (q : V) :
  (2 <= llen L)%nat ->
  (forall a b, In (a, b) (cyc_edges (verts L)) -> edge_generic (lnormal L) q (pinned_ray L q) a b) ->
  vdot (lnormal L) (pinned_ray L q) = 0.
Proof.
  intros Hlen He. unfold pinned_ray. apply (test_ray_in_plane L q Hlen). intros a b Hin. destruct (He a b Hin) as [Hab [Haq _]]. split; assumption.
Qed.
Theorem pinned_test_point_counts_crossings (L : Loop R) (q : V) :
  lclosed L = true -> (2 <= llen L)%nat ->
  let n := lnormal L in let d := pinned_ray L q in
  vis_zero n = false -> 0 < vdot n n ->
  (forall a b, In (a, b) (cyc_edges (verts L)) -> seg_contains_point (seg_new a b) q = Ok false /\ edge_generic n q d a b) ->
  loop_test_point_pinned L q = Ok (Nat.odd (countb (crossb3 n q d) (cyc_edges (verts L)))).
Proof.
  cbn zeta. intros Hc Hlen Hz Hnn He. rewrite test_point_pinned_is_gen.
  apply (test_point_gen_counts_crossings pinned_ray); try assumption; [lia|].
  apply (pinned_ray_in_plane L q Hlen). intros a b Hin. exact (proj2 (He a b Hin)).
Qed.
Theorem pinned_test_point_counts_ray_crossings (L : Loop R) (q : V) :
  lclosed L = true -> (2 <= llen L)%nat ->
  let n := lnormal L in let d := pinned_ray L q in
  vis_zero n = false -> 0 < vdot n n ->
  (forall a b, In (a, b) (cyc_edges (verts L)) -> seg_contains_point (seg_new a b) q = Ok false /\ edge_generic n q d a b) ->
  0 < vdot d d -> long_enough q d (verts L) ->
  loop_test_point_pinned L q = Ok (Nat.odd (countb (rayb3 n q d) (cyc_edges (verts L)))).
Proof.
  cbn zeta. intros Hc Hlen Hz Hnn He Hdd Hl. rewrite test_point_pinned_is_gen.
  apply (test_point_gen_counts_ray_crossings pinned_ray); try assumption; [lia|].
  apply (pinned_ray_in_plane L q Hlen). intros a b Hin. exact (proj2 (He a b Hin)).
Qed.
