(** * C10 proofs, part 2: through the construction pipeline (push* / close).
    What the stored vertex list is after pushing a sequence of points, in the two situations the
    property speaks about: an outline all of whose corners are genuine (then the stored list IS the
    input, so a cyclically shifted input gives the cyclically shifted list), and a redundant point
    lying exactly on the edge being drawn (then the state is the same as without it). *)
From Coq Require Import ZArith Reals Lra Lia Bool List Arith Psatz.
From G3 Require Import Model.Num Model.Base Model.Vec Model.Segment Model.Loop Theory.RInst Theory.LoopGeom.
Import ListNotations.
Local Open Scope R_scope.

(** the effect of an accepted [push] on the vertex list alone *)
Definition push_verts (vs : list V) (p : V) : res (list V) :=
  let n := length vs in
  if Nat.leb 2 n then
    if vcompare (vnth vs (n - 2)) p then Ok (removelast vs) else
    do keep <- push_keep vs p n n; Ok (firstn keep vs ++ [p])
  else Ok (vs ++ [p]).

(** a corner that fails the collinearity test has three pairwise distinct points (for [compare]) *)
Lemma is_collinear_false_distinct (a b c : V) :
  is_collinear a b c = Ok false -> vcompare a b = false /\ vcompare a c = false /\ vcompare b c = false.
Proof.
  unfold is_collinear. destruct (vcompare a b); destruct (vcompare a c); destruct (vcompare b c); cbn [andb orb]; try discriminate.
  intros _. repeat split.
Qed.

Lemma set_normal_verts (L L' : Loop R) : loop_set_normal L = Ok L' -> verts L' = verts L.
Proof. unfold loop_set_normal. destruct (verts L) as [|a [|b [|c r]]] eqn:E; try discriminate. intros H. injection H as H. subst L'. cbn [verts set_normal_field]. exact E. Qed.

Lemma push_tail_verts (L L' : Loop R) (vs : list V) :
  (if Nat.eqb (length vs) 3 then loop_set_normal (set_verts L vs)
   else if Nat.ltb (length vs) 3 then Ok (set_normal_field (set_verts L vs) vzero) else Ok (set_verts L vs)) = Ok L' -> verts L' = vs.
Proof.
  destruct (Nat.eqb _ 3); [intros H; apply set_normal_verts in H; exact H|].
  destruct (Nat.ltb _ 3); intros H; injection H as H; subst L'; reflexivity.
Qed.
Lemma push_ok_verts (L L' : Loop R) (p : V) : loop_push L p = Ok L' -> push_verts (verts L) p = Ok (verts L').
Proof.
  unfold loop_push, push_verts, llen. destruct (valid_to_add L p); cbn [rbind]; try discriminate.
  destruct (Nat.leb 2 (length (verts L))).
  - destruct (vcompare _ p).
    { cbn [rbind]. intros H. apply push_tail_verts in H. rewrite H. reflexivity. }
    destruct (push_keep _ p _ _) as [keep| |]; cbn [rbind]; try discriminate.
    intros H. apply push_tail_verts in H. rewrite H. reflexivity.
  - cbn [rbind]. intros H. apply push_tail_verts in H. rewrite H. reflexivity.
Qed.

(** the last two entries of a list *)
Lemma vnth_last2 (l : list V) (x a : V) :
  vnth (l ++ [x; a]) (length (l ++ [x; a]) - 2) = x /\ vnth (l ++ [x; a]) (length (l ++ [x; a]) - 1) = a.
Proof.
  unfold vnth. rewrite app_length. cbn [length]. split.
  - replace (length l + 2 - 2)%nat with (length l + 0)%nat by lia. rewrite app_nth2_plus. reflexivity.
  - replace (length l + 2 - 1)%nat with (length l + 1)%nat by lia. rewrite app_nth2_plus. reflexivity.
Qed.
Lemma push_keep_step (vs : list V) (p : V) (keep f : nat) : (2 <= keep)%nat ->
  push_keep vs p keep (S f) = do col <- is_collinear (vnth vs (keep - 2)) (vnth vs (keep - 1)) p;
                             if col then push_keep vs p (keep - 1) f else Ok keep.
Proof. intros H. cbn [push_keep]. apply Nat.leb_le in H. rewrite H. reflexivity. Qed.
(** the corner at the last vertex is genuine: the point is appended *)
Lemma push_verts_last2 (l : list V) (x a p : V) : vcompare x p = false -> is_collinear x a p = Ok false ->
  push_verts (l ++ [x; a]) p = Ok (l ++ [x; a; p]).
Proof.
  intros Hxp C. unfold push_verts. destruct (vnth_last2 l x a) as [E1 E2]. rewrite E1.
  assert (Hn : length (l ++ [x; a]) = S (S (length l))) by (rewrite app_length; cbn [length]; lia).
  assert (Hl : Nat.leb 2 (length (l ++ [x; a])) = true) by (apply Nat.leb_le; lia).
  rewrite Hl, Hxp. rewrite Hn at 2. rewrite push_keep_step by lia. rewrite E1, E2, C. cbn [rbind].
  rewrite firstn_all. rewrite <- app_assoc. reflexivity.
Qed.
(** the last vertex is redundant and the corner it exposes is genuine: the point replaces the last vertex *)
Lemma push_verts_last3 (l : list V) (w x a p : V) : vcompare x p = false -> is_collinear x a p = Ok true -> is_collinear w x p = Ok false ->
  push_verts (l ++ [w; x; a]) p = Ok (l ++ [w; x; p]).
Proof.
  intros Hxp C1 C2. unfold push_verts.
  replace (l ++ [w; x; a]) with ((l ++ [w]) ++ [x; a]) by (rewrite <- app_assoc; reflexivity).
  destruct (vnth_last2 (l ++ [w]) x a) as [E1 E2]. rewrite E1.
  assert (Hn : length ((l ++ [w]) ++ [x; a]) = S (S (S (length l)))) by (rewrite !app_length; cbn [length]; lia).
  assert (Hl : Nat.leb 2 (length ((l ++ [w]) ++ [x; a])) = true) by (apply Nat.leb_le; lia).
  rewrite Hl, Hxp. rewrite Hn at 2. rewrite push_keep_step by lia. rewrite E1, E2, C1. cbn [rbind].
  rewrite Hn. replace (S (S (S (length l))) - 1)%nat with (S (S (length l))) by lia. rewrite push_keep_step by lia.
  replace ((l ++ [w]) ++ [x; a]) with ((l ++ [w; x]) ++ [a]) by (rewrite <- !app_assoc; reflexivity).
  assert (F1 : vnth ((l ++ [w; x]) ++ [a]) (S (S (length l)) - 2) = w).
  { unfold vnth. rewrite app_nth1 by (rewrite app_length; cbn [length]; lia). replace (S (S (length l)) - 2)%nat with (length l + 0)%nat by lia. rewrite app_nth2_plus. reflexivity. }
  assert (F2 : vnth ((l ++ [w; x]) ++ [a]) (S (S (length l)) - 1) = x).
  { unfold vnth. rewrite app_nth1 by (rewrite app_length; cbn [length]; lia). replace (S (S (length l)) - 1)%nat with (length l + 1)%nat by lia. rewrite app_nth2_plus. reflexivity. }
  rewrite F1, F2, C2. cbn [rbind].
  replace (S (S (length l))) with (length (l ++ [w; x]) + 0)%nat by (rewrite app_length; cbn [length]; lia).
  rewrite firstn_app_2. cbn [firstn]. rewrite app_nil_r, <- app_assoc. reflexivity.
Qed.

(** ** a point exactly on the segment from a towards b is collinear for the library's test
    (unless all three points coincide within 1e-5, the one case in which the test refuses to answer) *)
Lemma is_collinear_on_line (a b : V) (s : R) :
  let m := vadd a (vscale (vsub b a) s) in
  vcompare a m && vcompare a b = false -> is_collinear a m b = Ok true.
Proof.
  cbn zeta. intros Hc. unfold is_collinear. rewrite Hc.
  destruct (vcompare a _ || vcompare a b || vcompare _ b); [reflexivity|].
  f_equal. set (m := vadd a (vscale (vsub b a) s)).
  replace (vcross (vsub m a) (vsub b m)) with (vzero : V) by (unfold m; vring).
  unfold vlen, vlen2, vzero. cbn [vx vy vz]. rnum. replace (0 * 0 + 0 * 0 + 0 * 0)%R with 0%R by ring. rewrite sqrt_0.
  apply Rltb_true. unfold c1em5. rnum. lra.
Qed.

(** ** a redundant point m exactly on the edge a -> b being drawn: pushing m and then b leaves the loop in
    exactly the state that pushing b alone produces (x = the vertex before a).  Hypotheses: the corner at a
    is genuine for the library's test, towards m as well as towards b (|cross| >= 1e-5, the collinearity
    tolerance -- otherwise m REPLACES a and the outline loses a vertex), and the pushes are accepted. *)
Theorem push_via_edge_point (L L1 L2 L2' : Loop R) (l : list V) (x a b : V) (s : R) :
  let m := vadd a (vscale (vsub b a) s) in
  verts L = l ++ [x; a] ->
  is_collinear x a m = Ok false -> is_collinear x a b = Ok false ->
  vcompare a m && vcompare a b = false ->
  loop_push L m = Ok L1 -> loop_push L1 b = Ok L2 -> loop_push L b = Ok L2' ->
  verts L2 = l ++ [x; a; b] /\ verts L2' = verts L2.
Proof.
  cbn zeta. intros Hv C1 C2 Hc P1 P2 P3.
  apply push_ok_verts in P1. apply push_ok_verts in P2. apply push_ok_verts in P3.
  destruct (is_collinear_false_distinct _ _ _ C1) as (_ & Dxm & _). destruct (is_collinear_false_distinct _ _ _ C2) as (_ & Dxb & Dab).
  rewrite Hv in P1, P3. rewrite (push_verts_last2 _ _ _ _ Dxm C1) in P1. rewrite (push_verts_last2 _ _ _ _ Dxb C2) in P3.
  injection P1 as P1. injection P3 as P3.
  rewrite <- P1 in P2. rewrite (push_verts_last3 l x a _ b Dab (is_collinear_on_line a b s Hc) C2) in P2. injection P2 as P2.
  split; [symmetry; exact P2|]. rewrite <- P3, <- P2. reflexivity.
Qed.

(** ** an outline all of whose corners are genuine: every accepted push appends *)
Fixpoint push_list (L : Loop R) (pts : list V) : res (Loop R) :=
  match pts with [] => Ok L | p :: tl => do L' <- loop_push L p; push_list L' tl end.

(** every consecutive triple of the open chain [l] fails the library's collinearity test *)
Fixpoint genuine_chain (l : list V) : Prop :=
  match l with
  | a :: ((b :: c :: _) as tl) => is_collinear a b c = Ok false /\ genuine_chain tl
  | _ => True
  end.

Lemma genuine_chain_app_last2 (l : list V) (x a p : V) :
  genuine_chain (l ++ [x; a; p]) -> is_collinear x a p = Ok false.
Proof.
  induction l as [|u l IH]; cbn [app].
  - cbn [genuine_chain]. tauto.
  - destruct l as [|v l]; cbn [app] in *; [cbn [genuine_chain]; tauto|].
    destruct l as [|w l]; cbn [app] in *.
    + intros H. cbn [genuine_chain] in H. apply IH. cbn [genuine_chain]. tauto.
    + intros H. apply IH. cbn [genuine_chain] in H. destruct H as [_ H]. exact H.
Qed.
Lemma genuine_chain_prefix (l1 l2 : list V) : genuine_chain (l1 ++ l2) -> genuine_chain l1.
Proof.
  revert l2. induction l1 as [|a l1 IH]; intros l2 H; [exact I|].
  destruct l1 as [|b l1]; [exact I|]. destruct l1 as [|c l1]; [exact I|].
  cbn [app genuine_chain] in *. destruct H as [H1 H2]. split; [exact H1|]. apply (IH l2). exact H2.
Qed.

Lemma push_list_genuine (pts : list V) : forall (L L' : Loop R),
  genuine_chain (verts L ++ pts) -> push_list L pts = Ok L' -> verts L' = verts L ++ pts.
Proof.
  induction pts as [|p pts IH]; intros L L' G H.
  - cbn [push_list] in H. injection H as H. subst. rewrite app_nil_r. reflexivity.
  - cbn [push_list] in H. destruct (loop_push L p) as [L1| |] eqn:E; cbn [rbind] in H; try discriminate.
    apply push_ok_verts in E.
    assert (E1 : verts L1 = verts L ++ [p]).
    { destruct (verts L) as [|u vs] eqn:Ev; [cbn in E; injection E as E; symmetry; exact E|].
      destruct (exists_last (l := u :: vs)) as [l' [a Ea]]; [discriminate|].
      destruct l' as [|u' l'].
      - (* one vertex *) cbn [app] in Ea. rewrite Ea in E. cbn in E. injection E as E. rewrite Ea. symmetry. exact E.
      - destruct (exists_last (l := u' :: l')) as [l'' [x Ex]]; [discriminate|].
        rewrite Ex in Ea. rewrite <- app_assoc in Ea. cbn [app] in Ea. rewrite Ea in E, G |- *.
        assert (C : is_collinear x a p = Ok false).
        { apply (genuine_chain_app_last2 l''). apply (genuine_chain_prefix _ pts).
          rewrite <- !app_assoc in G |- *. cbn [app] in G |- *. exact G. }
        rewrite (push_verts_last2 _ _ _ _ (proj1 (proj2 (is_collinear_false_distinct _ _ _ C))) C) in E.
        injection E as E. rewrite <- E. rewrite <- app_assoc. reflexivity. }
    rewrite (IH L1 L'); [rewrite E1, <- app_assoc; reflexivity | rewrite E1, <- app_assoc; exact G | exact H].
Qed.

(** closing: when the two wrap-around corners are genuine as well, [close] keeps every vertex *)
Lemma close_genuine (L : Loop R) :
  snd (loop_close L) = Ok tt ->
  is_collinear (vnth (verts L) (llen L - 2)) (vnth (verts L) (llen L - 1)) (vnth (verts L) 0) = Ok false ->
  is_collinear (vnth (verts L) (llen L - 1)) (vnth (verts L) 0) (vnth (verts L) 1) = Ok false ->
  verts (fst (loop_close L)) = verts L.
Proof.
  unfold loop_close. destruct (lclosed L) eqn:Ecl; [discriminate|]. destruct (Nat.ltb (llen L) 3) eqn:E3; [discriminate|]. intros H C1 C2. revert H.
  assert (P1 : pop_redundant (verts L) (llen L) = (verts L, Ok tt)).
  { unfold llen in *. destruct (length (verts L)) as [|f] eqn:En; [discriminate|]. cbn [pop_redundant]. unfold last_is_redundant. rewrite En, E3.
    rewrite C1. reflexivity. }
  rewrite P1. fold (llen L). rewrite E3.
  assert (EL : set_verts L (verts L) = L) by (destruct L; reflexivity). rewrite EL.
  destruct (valid_to_add L _) as [u| |]; cbn [snd]; try discriminate.
  assert (P2 : drop_first_redundant (verts L) (llen L) = (verts L, Ok tt)).
  { unfold llen in *. destruct (length (verts L)) as [|f] eqn:En; [discriminate|]. cbn [drop_first_redundant]. rewrite En, E3.
    rewrite C2. reflexivity. }
  rewrite P2. fold (llen L). rewrite E3, EL.
  match goal with |- context [match loop_set_area ?l with _ => _ end] => destruct (loop_set_area l) as [L4| |] eqn:E4 end; cbn [snd]; try discriminate.
  destruct (loop_set_perimeter L4) as [L5| |] eqn:E5; cbn [snd fst]; try discriminate. intros _.
  unfold loop_set_perimeter in E5. destruct (negb (lclosed L4)); [discriminate|]. destruct (vis_zero (lnormal L4)); [discriminate|].
  destruct (Nat.ltb (llen L4) 3); [discriminate|]. injection E5 as E5. subst L5. cbn [verts].
  unfold loop_set_area in E4. cbn [lclosed negb lnormal llen verts] in E4. destruct (vis_zero (lnormal L)); [discriminate|].
  match type of E4 with (if ?b then _ else _) = _ => destruct b end; [discriminate|]. injection E4 as E4. subst L4. reflexivity.
Qed.

(** all corners genuine, cyclically: the chain  pts ++ [p0; p1]  is genuine *)
Definition genuine_cycle (pts : list V) : Prop :=
  match pts with a :: b :: _ => genuine_chain (pts ++ [a; b]) | _ => True end.

(** PIPELINE (corners all genuine): if push* / close succeeds on such an outline, the stored vertex list is the
    input list itself *)
Theorem build_genuine (pts : list V) (L : Loop R) :
  genuine_cycle pts -> push_list loop_new pts = Ok L -> snd (loop_close L) = Ok tt ->
  verts (fst (loop_close L)) = pts.
Proof.
  intros G P Cl.
  assert (Hlen : (3 <= llen L)%nat).
  { unfold loop_close in Cl. destruct (lclosed L); [discriminate|]. destruct (Nat.ltb (llen L) 3) eqn:E; [discriminate|]. apply Nat.ltb_ge in E. exact E. }
  destruct pts as [|a [|b pts]].
  - cbn in P. injection P as P. subst L. cbn in Hlen. lia.
  - assert (E : verts L = [a]) by (apply (push_list_genuine [a] loop_new L); [exact I | exact P]). unfold llen in Hlen. rewrite E in Hlen. cbn in Hlen. lia.
  - unfold genuine_cycle in G.
    assert (E : verts L = a :: b :: pts).
    { apply (push_list_genuine (a :: b :: pts) loop_new L); [|exact P]. cbn [verts loop_new app]. apply (genuine_chain_prefix _ [a; b]). exact G. }
    rewrite <- E. apply close_genuine; [exact Cl | |]; unfold llen; rewrite E.
    + (* corner (p_{n-2}, p_{n-1}, p_0) *)
      destruct (exists_last (l := b :: pts)) as [l' [z Ez]]; [discriminate|].
      destruct l' as [|y l'].
      * cbn [app] in Ez. injection Ez as Eb Ep. subst. cbn. cbn [genuine_chain app] in G. tauto.
      * destruct (exists_last (l := y :: l')) as [l'' [x Ex]]; [discriminate|]. rewrite Ex in Ez. rewrite <- app_assoc in Ez. cbn [app] in Ez.
        replace (a :: b :: pts) with ((a :: l'') ++ [x; z]) by (cbn [app]; rewrite <- Ez; reflexivity).
        destruct (vnth_last2 (a :: l'') x z) as [N1 N2]. rewrite N1, N2. cbn [app vnth nth].
        apply (genuine_chain_app_last2 (a :: l'')). apply (genuine_chain_prefix _ [b]).
        assert (EE : ((a :: l'') ++ [x; z; a]) ++ [b] = (a :: b :: pts) ++ [a; b]) by (rewrite Ez; cbn [app]; rewrite <- !app_assoc; reflexivity).
        rewrite EE. exact G.
    + (* corner (p_{n-1}, p_0, p_1) *)
      destruct (exists_last (l := b :: pts)) as [l' [z Ez]]; [discriminate|].
      replace (vnth (a :: b :: pts) (length (a :: b :: pts) - 1)) with z.
      2:{ rewrite Ez. change (a :: l' ++ [z]) with ((a :: l') ++ [z]). unfold vnth. rewrite app_length.
          replace (length (a :: l') + length [z] - 1)%nat with (length (a :: l') + 0)%nat by (cbn [length]; lia). rewrite app_nth2_plus. reflexivity. }
      cbn [vnth nth]. apply (genuine_chain_app_last2 (a :: l')).
      assert (EE : (a :: l') ++ [z; a; b] = (a :: b :: pts) ++ [a; b]) by (rewrite Ez; cbn [app]; rewrite <- !app_assoc; reflexivity).
      rewrite EE. exact G.
Qed.

(** hence: a cyclically shifted input gives the cyclically shifted vertex list (when both constructions are accepted) *)
Theorem build_shift (l1 l2 : list V) (L L' : Loop R) :
  genuine_cycle (l1 ++ l2) -> genuine_cycle (l2 ++ l1) ->
  push_list loop_new (l1 ++ l2) = Ok L -> snd (loop_close L) = Ok tt ->
  push_list loop_new (l2 ++ l1) = Ok L' -> snd (loop_close L') = Ok tt ->
  exists r1 r2, verts (fst (loop_close L)) = r1 ++ r2 /\ verts (fst (loop_close L')) = r2 ++ r1.
Proof.
  intros G1 G2 P1 C1 P2 C2. exists l1, l2. split; [apply build_genuine | apply build_genuine]; assumption.
Qed.
