(** * Mesh_sites (C09 b): the certified enumeration of the panic sites each operation of the model can reach.
    [NP okb op] says: whenever [op] ends in [Panic s], [okb s] holds.  Each lemma lists, as hypotheses on [okb],
    exactly the sites that occur; site 60 (Edge::from_i with an index > 2) and site 10 (the unwrap of
    is_collinear in Triangle3D::new) occur in none of them: they are unreachable.  Every number instance. *)
From Coq Require Import ZArith Bool List Arith Lia.
From G3 Require Import Model.Num Model.Base Model.Vec Model.Segment Model.Triangle Model.Loop Model.Polygon Model.Triangulation Proofs.Mesh_base.
Import ListNotations.

Section Sites.
  Context {K : Type} {NK : Num K}.
  Notation V := (V3 K).
  Notation TP := (TriPiece K).
  Notation Mesh := (Mesh K).
  Variable okb : N -> bool.

  Lemma np_bind_lift {A B} (x : res A) (f : A -> MR (K:=K) B) :
    np_res okb x -> (forall a, x = Ok a -> NP okb (f a)) -> NP okb (mbind (mlift x) f).
  Proof.
    intros Hx Hf M M' s H. unfold mbind, mlift in H. destruct x as [a| |s'].
    - eapply Hf; [reflexivity | exact H].
    - discriminate.
    - inversion H; subst. apply Hx. reflexivity.
  Qed.

  (** *** leaves that never panic *)
  Lemma np_tri_vertex (t : Tri K) (i : N) : np_res okb (tri_vertex t i).
  Proof. intros s. unfold tri_vertex. destruct i as [|[[]|[]|]]; discriminate. Qed.
  Lemma np_tri_segment (t : Tri K) (i : N) : np_res okb (tri_segment t i).
  Proof. intros s. unfold tri_segment. destruct i as [|[[]|[]|]]; discriminate. Qed.
  Lemma np_opposite (t : Tri K) (sg : Seg K) : np_res okb (get_opposite_vertex t sg).
  Proof.
    intros s. unfold get_opposite_vertex. destruct (tri_get_edge_index_from_segment t sg) as [i|]; [|discriminate].
    destruct i as [|[[]|[]|]]; try discriminate; apply np_tri_vertex.
  Qed.
  Lemma np_edge_add (e : Edge) (k : N) : np_res okb (edge_add e k).
  Proof. intros s. destruct (edge_add_ok e k) as [e' ->]. discriminate. Qed.
  Lemma np_edge_from_lt (i : N) : (i < 3)%N -> np_res okb (edge_from_i i).
  Proof. intros H s. destruct (edge_from_i_lt i H) as [e ->]. discriminate. Qed.
  Lemma np_edge_of_points (site : N) (t : Tri K) (a b : V) : okb site = true -> np_res okb (edge_of_points site t a b).
  Proof.
    intros Hs s. unfold edge_of_points, tri_get_edge_index_from_points.
    destruct (tri_get_edge_index_from_segment t (seg_new a b)) as [i|] eqn:E.
    - apply np_edge_from_lt. eapply edge_index_lt. exact E.
    - intros H; inversion H; subst. exact Hs.
  Qed.
  Lemma np_edge_of_points_err (t : Tri K) (a b : V) : np_res okb (edge_of_points_err t a b).
  Proof.
    intros s. unfold edge_of_points_err, tri_get_edge_index_from_points.
    destruct (tri_get_edge_index_from_segment t (seg_new a b)) as [i|] eqn:E; [|discriminate].
    apply np_edge_from_lt. eapply edge_index_lt. exact E.
  Qed.
  (** Triangle3D::new never reaches its unwrap: the three [compare] tests come first *)
  Lemma tri_new_no_panic (a b c : V) : forall s, tri_new a b c <> Panic s.
  Proof.
    intros s. unfold tri_new. destruct (vcompare a b) eqn:E1; [discriminate|]. destruct (vcompare a c) eqn:E2; [discriminate|].
    destruct (vcompare b c) eqn:E3; [discriminate|]. cbn [orb].
    unfold is_collinear. rewrite E1, E2, E3. cbn [andb orb unwrap rbind]. destruct (nltb _ _); discriminate.
  Qed.
  Lemma tp_new_no_panic (a b c : V) (n : nat) : forall s, tp_new a b c n <> Panic s.
  Proof. intros s. unfold tp_new. pose proof (tri_new_no_panic a b c) as H. destruct (tri_new a b c) as [t| |s']; cbn [rbind]; try discriminate. intros E; inversion E; subst. eapply H; reflexivity. Qed.
  Lemma np_tri_new (a b c : V) : np_res okb (tri_new a b c).
  Proof. intros s H. exfalso. eapply tri_new_no_panic; exact H. Qed.
  Lemma np_tp_new (a b c : V) (n : nat) : np_res okb (tp_new a b c n).
  Proof. intros s H. exfalso. eapply tp_new_no_panic; exact H. Qed.
  Lemma np_push (a b c : V) (la : nat) : NP okb (mesh_push a b c la).
  Proof.
    intros M M' s H. unfold mesh_push in H. exfalso.
    destruct (get_first_invalid M la) as [n|].
    - pose proof (tp_new_no_panic a b c n) as G. destruct (tp_new a b c n) as [t| |s']; inversion H; subst. eapply G; reflexivity.
    - pose proof (tp_new_no_panic a b c (length (tris M))) as G. destruct (tp_new a b c (length (tris M))) as [t| |s']; inversion H; subst. eapply G; reflexivity.
  Qed.
  Lemma np_mupd (site : N) (i : nat) (f : TP -> TP) : okb site = true -> NP okb (mupd site i f).
  Proof. intros Hs M M' s H. unfold mupd in H. destruct (Nat.ltb i (length (tris M))); inversion H; subst. exact Hs. Qed.
  Lemma np_invalidate (i : nat) : okb 61%N = true -> NP okb (mesh_invalidate (K:=K) i).
  Proof. intros Hs M M' s H. unfold mesh_invalidate in H. destruct (Nat.ltb i (length (tris M))); [|discriminate]. destruct (nvalid M); inversion H; subst. exact Hs. Qed.

  Ltac np_step :=
    match goal with
    | |- NP _ (mbind (mlift _) _) => apply np_bind_lift; [|intros ? ?]
    | |- NP _ (mbind _ _) => apply np_bind; [|intros ?]
    | |- NP _ (mret _) => apply np_ret
    | |- NP _ (mget _ _) => apply np_get; assumption
    | |- NP _ (mwhen _ _) => apply np_when
    | |- NP _ (mupd _ _ _) => apply np_mupd; assumption
    | |- NP _ (mesh_invalidate _) => apply np_invalidate; assumption
    | |- NP _ (mesh_push _ _ _ _) => apply np_push
    | |- NP _ (mlift _) => apply np_lift
    | |- np_res _ (Ok _) => apply np_res_ok
    | |- np_res _ (Err _) => apply np_res_err
    | |- np_res _ (Panic _) => apply np_res_panic; assumption
    | |- np_res _ (tri_vertex _ _) => apply np_tri_vertex
    | |- np_res _ (tri_segment _ _) => apply np_tri_segment
    | |- np_res _ (get_opposite_vertex _ _) => apply np_opposite
    | |- np_res _ (edge_add _ _) => apply np_edge_add
    | |- np_res _ (edge_of_points _ _ _ _) => apply np_edge_of_points; assumption
    | |- np_res _ (edge_of_points_err _ _ _) => apply np_edge_of_points_err
    | |- np_res _ (tp_new _ _ _ _) => apply np_tp_new
    | |- np_res _ (tri_new _ _ _) => apply np_tri_new
    | |- NP _ (if ?b then _ else _) => destruct b
    | |- np_res _ (if ?b then _ else _) => destruct b
    | |- NP _ (match ?x with _ => _ end) => destruct x eqn:?
    | |- np_res _ (match ?x with _ => _ end) => destruct x eqn:?
    | |- NP _ (let '(_, _) := ?x in _) => destruct x
    end.

  (** *** mark_as_neighbours: 62 63 64 *)
  Hypothesis H62 : okb 62%N = true.
  Hypothesis H63 : okb 63%N = true.
  Hypothesis H64 : okb 64%N = true.
  Lemma np_mark (i1 : nat) (e1 : Edge) (i2 : nat) : NP okb (mark_as_neighbours (K:=K) i1 e1 i2).
  Proof.
    unfold mark_as_neighbours. repeat np_step.
    match goal with H : match tri_get_edge_index_from_segment ?t ?s with _ => _ end = Ok _ |- _ =>
      destruct (tri_get_edge_index_from_segment t s) eqn:E; inversion H; subst end.
    apply np_edge_from_lt. eapply edge_index_lt. eassumption.
  Qed.

  (** *** get_flipped_aspect_ratio (read only): 65 66 67 68 69 *)
  Hypothesis H65 : okb 65%N = true.
  Hypothesis H66 : okb 66%N = true.
  Hypothesis H67 : okb 67%N = true.
  Hypothesis H68 : okb 68%N = true.
  Hypothesis H69 : okb 69%N = true.
  Lemma np_gfar (M : Mesh) (i : nat) (e : Edge) : np_res okb (get_flipped_aspect_ratio M i e).
  Proof.
    unfold get_flipped_aspect_ratio.
    repeat first [np_step | apply np_res_bind; [|intros ?]].
  Qed.

  (** *** flip_diagonal: 70..79, 61, and those of mark_as_neighbours *)
  Hypothesis H61 : okb 61%N = true.
  Hypothesis H70 : okb 70%N = true.
  Hypothesis H71 : okb 71%N = true.
  Hypothesis H72 : okb 72%N = true.
  Hypothesis H73 : okb 73%N = true.
  Hypothesis H74 : okb 74%N = true.
  Hypothesis H75 : okb 75%N = true.
  Hypothesis H76 : okb 76%N = true.
  Hypothesis H77 : okb 77%N = true.
  Hypothesis H78 : okb 78%N = true.
  Hypothesis H79 : okb 79%N = true.
  Lemma np_flip (i : nat) (e : Edge) : NP okb (flip_diagonal (K:=K) i e).
  Proof. unfold flip_diagonal. repeat first [apply np_mark | np_step]. Qed.

  (** *** split_edge: 80 81 82 61 + mark; split_triangle: 83 84 61 + mark *)
  Hypothesis H80 : okb 80%N = true.
  Hypothesis H81 : okb 81%N = true.
  Hypothesis H82 : okb 82%N = true.
  Hypothesis H83 : okb 83%N = true.
  Hypothesis H84 : okb 84%N = true.
  Lemma np_hemisphere (s : Seg K) (p : V) (i : nat) : NP okb (process_hemisphere s p i).
  Proof.
    unfold process_hemisphere. repeat first [apply np_mark | np_step].
    all: try (match goal with H : match tri_get_edge_index_from_segment ?t ?s with _ => _ end = Ok _ |- np_res _ (edge_from_i _) =>
      destruct (tri_get_edge_index_from_segment t s) eqn:E; inversion H; subst; apply np_edge_from_lt; eapply edge_index_lt; eassumption end).
  Qed.
  Lemma np_precheck (s : Seg K) (p : V) (i : nat) : NP okb (split_precheck s p i).
  Proof. unfold split_precheck. repeat np_step. Qed.
  Lemma np_split_edge (i : nat) (e : Edge) (p : V) : NP okb (split_edge i e p).
  Proof. unfold split_edge. repeat first [apply np_mark | apply np_hemisphere | apply np_precheck | np_step]. Qed.
  Lemma np_split_triangle (i : nat) (p : V) : NP okb (split_triangle i p).
  Proof. unfold split_triangle. repeat first [apply np_mark | np_step]. Qed.

  (** *** restore_delaunay: 85 + get_flipped_aspect_ratio + flip_diagonal *)
  Hypothesis H85 : okb 85%N = true.
  Lemma np_rd_best (M : Mesh) (i : nat) (ar : K) : forall js best, (forall j, In j js -> (j < 3)%N) -> np_res okb (rd_best M i ar js best).
  Proof.
    induction js as [|j js IH]; intros best Hj; cbn [rd_best]; [apply np_res_ok|].
    apply np_res_bind; [apply np_edge_from_lt; apply Hj; left; reflexivity|]. intros ed.
    apply np_res_bind; [apply np_gfar|]. intros r. apply IH. intros j' Hj'. apply Hj. right. exact Hj'.
  Qed.
  Lemma np_rd_pass (m : K) : forall cnt i l any, NP okb (rd_pass m cnt i l any).
  Proof.
    induction cnt as [|cnt IH]; intros i l any; cbn [rd_pass]; [apply np_ret|].
    destruct l as [|t l']; [apply np_lift, np_res_panic; assumption|].
    destruct (negb (tp_valid t)); [apply IH|]. destruct (nltb (tp_ar t) m); [apply IH|].
    apply np_bind.
    - apply np_read. intros M. apply np_rd_best. intros j [<-|[<-|[<-|[]]]]; lia.
    - intros b. destruct (fst b); [|apply IH]. apply np_bind; [apply np_flip|]. intros _ M M' s H. exact (IH _ _ _ M M' s H).
  Qed.
  Lemma np_rd_loops (m : K) (n : nat) : forall loops, NP okb (rd_loops m n loops).
  Proof.
    induction loops as [|l IH]; cbn [rd_loops]; [apply np_ret|].
    apply np_bind; [intros M M' s H; exact (np_rd_pass m _ _ _ _ M M' s H)|]. intros any. destruct any; [apply IH | apply np_ret].
  Qed.
  Lemma np_restore (m : K) : NP okb (restore_delaunay m).
  Proof. unfold restore_delaunay. intros M M' s H. exact (np_rd_loops m _ _ M M' s H). Qed.

  (** *** add_point: 86 87 + split_edge + split_triangle.  Sites 88 and 89 are unreachable from [add_point]
      (the location it passes is never [Outside]) and from [refine] (which passes [Inside]). *)
  Hypothesis H86 : okb 86%N = true.
  Hypothesis H87 : okb 87%N = true.
  Lemma np_aptt (i : nat) (p : V) (loc : PIT) : loc <> Outside -> NP okb (add_point_to_triangle i p loc).
  Proof.
    intros Hloc. unfold add_point_to_triangle. apply np_bind; [apply np_get; assumption|]. intros t.
    destruct (negb (tp_valid t)); [apply np_lift, np_res_panic; assumption|].
    destruct loc; cbn [pit_is_vertex pit_is_edge]; try apply np_ret;
      try (apply np_bind_lift; [apply np_res_ok|]; intros ed _; apply np_bind; [apply np_split_edge | intros _; apply np_ret]).
    - apply np_bind; [apply np_split_triangle | intros _; apply np_ret].
    - exfalso. apply Hloc. reflexivity.
  Qed.
  Lemma find_container_not_outside (p : V) : forall l i k loc, find_container l i p = Some (k, loc) -> loc <> Outside.
  Proof.
    induction l as [|t l IH]; intros i k loc; cbn [find_container]; [discriminate|].
    destruct (negb (tp_valid t)); [apply IH|].
    destruct (tri_test_point (tp_tri t) p) eqn:E; try (intros H; inversion H; subst; discriminate). apply IH.
  Qed.
  Lemma np_add_point (p : V) : NP okb (add_point p).
  Proof.
    intros M M' s H. unfold add_point in H. destruct (find_container (tris M) 0 p) as [[i loc]|] eqn:E; [|discriminate].
    eapply np_aptt; [eapply find_container_not_outside; exact E | exact H].
  Qed.

  (** *** refine: 90 91 + split_edge + restore_delaunay + add_point *)
  Hypothesis H90 : okb 90%N = true.
  Hypothesis H91 : okb 91%N = true.
  Lemma np_refine_pass (a m : K) : forall cnt i l any, NP okb (refine_pass a m cnt i l any).
  Proof.
    induction cnt as [|cnt IH]; intros i l any; cbn [refine_pass]; [apply np_ret|].
    destruct l as [|t l']; [apply np_lift, np_res_panic; assumption|].
    destruct (negb (tp_valid t)); [apply np_lift, np_res_panic; assumption|].
    destruct (nltb (tarea (tp_tri t)) c1em3); [apply IH|].
    assert (Hc : forall b, NP okb (fun M : Mesh => refine_pass a m cnt (S i) (skipn (S i) (tris M)) b M))
      by (intros b M M' s H; exact (IH _ _ _ M M' s H)).
    destruct (nltb m (tp_ar t)).
    { apply np_bind_lift.
      - intros s. unfold longest_edge. cbn [tri_segment rbind]. destruct (nltb _ _); destruct (nltb _ _); discriminate.
      - intros [s_i sg] Hl. apply np_bind_lift; [apply np_edge_from_lt; eapply longest_edge_lt; exact Hl|]. intros ed _.
        apply np_bind; [apply np_split_edge|]. intros _. apply np_bind; [apply np_restore|]. intros _. apply Hc. }
    destruct (nltb a (tarea (tp_tri t))); [|apply IH].
    intros M M' s H. destruct (add_point (tp_cc t) M) as [M1 [did| c | s']] eqn:Eadd.
    - destruct did; [|eapply Hc; exact H]. revert H. apply np_bind; [apply np_restore|]. intros _. apply Hc.
    - revert H. apply np_bind; [apply np_get; assumption|]. intros t'.
      apply np_bind; [apply np_aptt; discriminate|]. intros did. destruct did; [|apply Hc].
      apply np_bind; [apply np_restore|]. intros _. apply Hc.
    - inversion H; subst. eapply np_add_point. exact Eadd.
  Qed.
  Lemma np_refine (a m : K) : forall fuel, NP okb (refine fuel a m).
  Proof.
    induction fuel as [|f IH]; cbn [refine]; [apply np_ret|].
    intros M M' s H. revert H. apply np_bind; [apply np_refine_pass|]. intros any. destruct any; [apply IH | apply np_ret].
  Qed.
End Sites.

(** the same stepping tactic for use outside the section ([okb] concrete: side conditions by [reflexivity]) *)
Ltac np_step_g :=
  match goal with
  | |- NP _ (mbind (mlift _) _) => apply np_bind_lift; [|intros ? ?]
  | |- NP _ (mbind _ _) => apply np_bind; [|intros ?]
  | |- NP _ (mret _) => apply np_ret
  | |- NP _ (mget _ _) => apply np_get; reflexivity
  | |- NP _ (mwhen _ _) => apply np_when
  | |- NP _ (mupd _ _ _) => apply np_mupd; reflexivity
  | |- NP _ (mesh_invalidate _) => apply np_invalidate; reflexivity
  | |- NP _ (mesh_push _ _ _ _) => apply np_push
  | |- NP _ (mark_as_neighbours _ _ _) => apply np_mark; reflexivity
  | |- NP _ (mlift _) => apply np_lift
  | |- np_res _ (Ok _) => apply np_res_ok
  | |- np_res _ (Err _) => apply np_res_err
  | |- np_res _ (Panic _) => apply np_res_panic; reflexivity
  | |- np_res _ (tri_vertex _ _) => apply np_tri_vertex
  | |- np_res _ (tri_segment _ _) => apply np_tri_segment
  | |- np_res _ (get_opposite_vertex _ _) => apply np_opposite
  | |- np_res _ (edge_add _ _) => apply np_edge_add
  | |- np_res _ (edge_of_points _ _ _ _) => apply np_edge_of_points; reflexivity
  | |- np_res _ (edge_of_points_err _ _ _) => apply np_edge_of_points_err
  | |- NP _ (if ?b then _ else _) => destruct b
  | |- np_res _ (if ?b then _ else _) => destruct b
  | |- NP _ (match ?x with _ => _ end) => destruct x eqn:?
  | |- np_res _ (match ?x with _ => _ end) => destruct x eqn:?
  | |- NP _ (let '(_, _) := ?x in _) => destruct x
  end.
