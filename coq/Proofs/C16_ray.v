(** * C16 (R), exact tier: the origin of a transformed ray is advanced along its direction by no more than the
    reported origin error, and far enough that no point of the origin's error box lies ahead of it. *)
From Coq Require Import ZArith Reals Lra Bool List Psatz.
From G3 Require Import Model.Num Model.Base Model.Vec Model.BBox Model.Transform Theory.RInst Proofs.C06_transform.
Local Open Scope R_scope.

Definition nonneg3 (e : V) : Prop := 0 <= vx e /\ 0 <= vy e /\ 0 <= vz e.
(** [x] lies in the axis-aligned box of half-widths [e] around [o] *)
Definition in_box (o e x : V) : Prop :=
  Rabs (vx x - vx o) <= vx e /\ Rabs (vy x - vy o) <= vy e /\ Rabs (vz x - vz o) <= vz e.

Lemma nudge_eq (o d e : V) : 0 < vlen2 d ->
  nudge o d e = vadd o (vscale d (vdot (vabs d) e / vlen2 d)).
Proof.
  intros H. unfold nudge. rnum. destruct (Rltb 0 (vlen2 d)) eqn:E. reflexivity.
  apply Rltb_false in E. lra.
Qed.
Lemma nudge_zero (o d e : V) : ~ 0 < vlen2 d -> nudge o d e = o.
Proof.
  intros H. unfold nudge. rnum. destruct (Rltb 0 (vlen2 d)) eqn:E. apply Rltb_true in E. contradiction. reflexivity.
Qed.

(** no point of the error box lies ahead of the nudged origin *)
Lemma no_box_point_ahead (o d e x : V) : nonneg3 e -> 0 < vlen2 d -> in_box o e x ->
  vdot (vsub x (nudge o d e)) d <= 0.
Proof.
  intros (E1 & E2 & E3) Hd (B1 & B2 & B3). rewrite nudge_eq by exact Hd.
  destruct o as [ox oy oz], d as [dx dy dz], e as [e1 e2 e3], x as [x1 x2 x3].
  unfold vdot, vsub, vadd, vscale, vabs, vlen2 in *. cbn [vx vy vz] in *. rnum.
  set (l2 := dx * dx + dy * dy + dz * dz) in *.
  set (s := Rabs dx * e1 + Rabs dy * e2 + Rabs dz * e3).
  assert (Hl : l2 <> 0) by lra.
  replace ((x1 - (ox + dx * (s / l2))) * dx + (x2 - (oy + dy * (s / l2))) * dy + (x3 - (oz + dz * (s / l2))) * dz)
    with (((x1 - ox) * dx + (x2 - oy) * dy + (x3 - oz) * dz) - s) by (unfold l2; field; exact Hl).
  assert (A : forall a b c, Rabs a <= c -> a * b <= Rabs b * c).
  { intros a b c H. apply Rle_trans with (Rabs (a * b)). apply RRle_abs. rewrite Rabs_mult, Rmult_comm.
    apply Rmult_le_compat_l. apply Rabs_pos. exact H. }
  pose proof (A _ dx _ B1). pose proof (A _ dy _ B2). pose proof (A _ dz _ B3). unfold s. lra.
Qed.

(** the worst corner of the box is reached exactly: the advance is the smallest one with that property *)
Lemma nudge_tight (o d e : V) : nonneg3 e -> 0 < vlen2 d ->
  vdot (vsub (nudge o d e) o) d = vdot (vabs d) e.
Proof.
  intros _ Hd. rewrite nudge_eq by exact Hd.
  destruct o as [ox oy oz], d as [dx dy dz], e as [e1 e2 e3].
  unfold vdot, vsub, vadd, vscale, vabs, vlen2 in *. cbn [vx vy vz] in *. rnum. field. lra.
Qed.

(** advanced by no more than the bound, in the Euclidean norm (Cauchy-Schwarz); component-wise the claim would be
    false: d = (1,1,0), e = (1,0,0) moves the origin by (1/2,1/2,0) *)
Lemma advance_bounded (o d e : V) : nonneg3 e -> vlen2 (vsub (nudge o d e) o) <= vlen2 e.
Proof.
  intros (E1 & E2 & E3).
  destruct (Rlt_dec 0 (vlen2 d)) as [Hd|Hd].
  - rewrite nudge_eq by exact Hd.
    destruct o as [ox oy oz], d as [dx dy dz], e as [e1 e2 e3].
    unfold vdot, vsub, vadd, vscale, vabs, vlen2 in *. cbn [vx vy vz] in *. rnum.
    set (l2 := dx * dx + dy * dy + dz * dz) in *.
    set (s := Rabs dx * e1 + Rabs dy * e2 + Rabs dz * e3).
    assert (Hl : l2 <> 0) by lra.
    replace ((ox + dx * (s / l2) - ox) * (ox + dx * (s / l2) - ox) + (oy + dy * (s / l2) - oy) * (oy + dy * (s / l2) - oy) +
             (oz + dz * (s / l2) - oz) * (oz + dz * (s / l2) - oz)) with (s * s / l2) by (unfold l2; field; exact Hl).
    apply Rmult_le_reg_r with l2. exact Hd.
    replace (s * s / l2 * l2) with (s * s) by (field; exact Hl).
    (* Cauchy-Schwarz with |d_i| in place of d_i *)
    assert (Q : l2 = Rabs dx * Rabs dx + Rabs dy * Rabs dy + Rabs dz * Rabs dz).
    { unfold l2. rewrite <- !Rabs_mult. rewrite !Rabs_pos_eq by nra. reflexivity. }
    rewrite Q. unfold s. generalize (Rabs dx) (Rabs dy) (Rabs dz). intros a b c.
    pose proof (Rle_0_sqr (a * e2 - b * e1)) as S1. pose proof (Rle_0_sqr (a * e3 - c * e1)) as S2.
    pose proof (Rle_0_sqr (b * e3 - c * e2)) as S3. unfold Rsqr in S1, S2, S3.
    replace ((e1 * e1 + e2 * e2 + e3 * e3) * (a * a + b * b + c * c)) with
      ((a * e1 + b * e2 + c * e3) * (a * e1 + b * e2 + c * e3) + (a * e2 - b * e1) * (a * e2 - b * e1)
       + (a * e3 - c * e1) * (a * e3 - c * e1) + (b * e3 - c * e2) * (b * e3 - c * e2)) by ring.
    lra.
  - rewrite nudge_zero by exact Hd.
    destruct o as [ox oy oz], e as [e1 e2 e3]. unfold vsub, vlen2. cbn [vx vy vz]. rnum. nra.
Qed.

(** ** the four [*_ray*] functions: their reported origin error is non-negative, so the three facts apply *)
Lemma gamma3_R_pos : 0 <= @ngamma R _ 3.
Proof. left. apply gamma_pos. lia. Qed.
Lemma gamma4_R_pos : 0 <= @ngamma R _ 4.
Proof. left. apply gamma_pos. lia. Qed.
(** [mul3x3_abs] scaled by a non-negative factor is non-negative *)
Lemma abs3_err_nonneg (m : M) (x y z g : R) : 0 <= g ->
  let e := vscale (mul3x3_abs m x y z) g in 0 <= vx e /\ 0 <= vy e /\ 0 <= vz e.
Proof.
  intros Hg. unfold mul3x3_abs, vscale. cbn [vx vy vz]. rnum.
  repeat split; apply Rmult_le_pos; try assumption;
    repeat apply Rplus_le_le_0_compat; apply Rabs_pos.
Qed.
Lemma err_pt_nonneg (m : M) (p : V) : nonneg3 (snd (pt_with_error m p)).
Proof. unfold pt_with_error. cbn [snd]. apply abs_err_nonneg. apply gamma4_R_pos. Qed.
Lemma err_prop_nonneg (m : M) (p e : V) : nonneg3 (snd (pt_propagate_error m p e)).
Proof.
  unfold pt_propagate_error, pt_with_error. cbn [snd].
  pose proof gamma4_R_pos as Hg. pose proof gamma3_R_pos as Hg3.
  destruct (abs_err_nonneg m (vx p) (vy p) (vz p) (ngamma 4) Hg) as (A1 & A2 & A3).
  assert (Hg1 : 0 <= (@n1 R _ + @ngamma R _ 3)%num) by (change (0 <= 1 + @ngamma R _ 3); lra).
  destruct (abs3_err_nonneg m (vx e) (vy e) (vz e) (n1 + ngamma 3)%num Hg1) as (B1 & B2 & B3).
  unfold nonneg3, vadd. cbn [vx vy vz]. rnum. repeat split; lra.
Qed.

Lemma ray_by_R (m : M) (r : Ray R) :
  let '(r', oe, de) := ray_by m r in
  let o := fst (pt_with_error m (rorigin r)) in
  oe = snd (pt_with_error m (rorigin r)) /\ rdir r' = mul4x4vec m (rdir r) /\ nonneg3 oe /\
  (exists dt, 0 <= dt /\ rorigin r' = vadd o (vscale (rdir r') dt)) /\
  vlen2 (vsub (rorigin r') o) <= vlen2 oe /\
  (0 < vlen2 (rdir r') -> forall x, in_box o oe x -> vdot (vsub x (rorigin r')) (rdir r') <= 0).
Proof.
  unfold ray_by, pt_with_error, vec_with_error. cbn [rorigin rdir fst snd].
  pose proof (err_pt_nonneg m (rorigin r)) as N. unfold pt_with_error in N. cbn [snd] in N.
  split. reflexivity. split. reflexivity. split. exact N.
  split. destruct N as (N1 & N2 & N3). apply nudge_spec; assumption.
  split. apply advance_bounded. exact N.
  intros Hd x Hx. apply no_box_point_ahead; assumption.
Qed.
Lemma ray_propagate_by_R (m : M) (r : Ray R) (oe_in de_in : V) :
  let '(r', oe, de) := ray_propagate_by m r oe_in de_in in
  let o := fst (pt_propagate_error m (rorigin r) oe_in) in
  oe = snd (pt_propagate_error m (rorigin r) oe_in) /\ rdir r' = mul4x4vec m (rdir r) /\ nonneg3 oe /\
  (exists dt, 0 <= dt /\ rorigin r' = vadd o (vscale (rdir r') dt)) /\
  vlen2 (vsub (rorigin r') o) <= vlen2 oe /\
  (0 < vlen2 (rdir r') -> forall x, in_box o oe x -> vdot (vsub x (rorigin r')) (rdir r') <= 0).
Proof.
  pose proof (err_prop_nonneg m (rorigin r) oe_in) as N.
  unfold ray_propagate_by, pt_propagate_error, vec_propagate_error, pt_with_error, vec_with_error in *. cbn [rorigin rdir fst snd] in *.
  split. reflexivity. split. reflexivity. split. exact N.
  split. destruct N as (N1 & N2 & N3). apply nudge_spec; assumption.
  split. apply advance_bounded. exact N.
  intros Hd x Hx. apply no_box_point_ahead; assumption.
Qed.
