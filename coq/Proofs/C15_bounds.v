(** * C15 proofs, real instance: box constructors and predicates, the image of a box under an
    affine map (device D5: all eight corners), the box round trip, and the local / world bounds of
    triangles, spheres and cylinders. *)
From Coq Require Import ZArith Reals Lra Bool List Psatz.
From G3 Require Import Model.Num Model.Base Model.Vec Model.BBox Model.Transform Model.Bounds Theory.RInst.
From G3 Require Import Proofs.C06_transform.
Import ListNotations.
Local Open Scope R_scope.

Notation B := (BBox R).

Definition Vle (a b : V) : Prop := vx a <= vx b /\ vy a <= vy b /\ vz a <= vz b.
Definition Vlt (a b : V) : Prop := vx a < vx b /\ vy a < vy b /\ vz a < vz b.
(** [p] is a point of the closed box [b] *)
Definition Rin (b : B) (p : V) : Prop := Vle (bmin b) p /\ Vle p (bmax b).
Definition Rwf (b : B) : Prop := Vle (bmin b) (bmax b).
(** box [outer] contains box [inner] *)
Definition Rcontains (outer inner : B) : Prop := Vle (bmin outer) (bmin inner) /\ Vle (bmax inner) (bmax outer).

Ltac bx := unfold Rin, Rwf, Rcontains, Vle, Vlt in *; cbn [bmin bmax vx vy vz fst snd] in *.

(** ** [get_mins_maxs] on the reals is (min, max) component-wise *)
Lemma mm_R (a b : V) :
  mm a b = (mkV3 (Rmin (vx a) (vx b)) (Rmin (vy a) (vy b)) (Rmin (vz a) (vz b)),
            mkV3 (Rmax (vx a) (vx b)) (Rmax (vy a) (vy b)) (Rmax (vz a) (vz b))).
Proof.
  unfold mm, get_mins_maxs. rnum.
  rcase (vx b) (vx a) Hx; rcase (vy b) (vy a) Hy; rcase (vz b) (vz a) Hz;
    unfold Rmin, Rmax; destruct (Rle_dec (vx a) (vx b)), (Rle_dec (vy a) (vy b)), (Rle_dec (vz a) (vz b));
    try reflexivity; exfalso; lra.
Qed.

Lemma new_R (a b : V) : bbox_new a b = mkBBox (fst (mm a b)) (snd (mm a b)).
Proof. unfold bbox_new. destruct (mm a b). reflexivity. Qed.

Ltac mmR := rewrite ?new_R; unfold bbox_from_union, bbox_from_union_point, bbox_from_intersection, bbox_from_point in *;
            rewrite ?mm_R in *; cbn [fst snd bmin bmax vx vy vz] in *.
(** ** constructors *)
Lemma new_normalises (a b : V) :
  Rwf (bbox_new a b) /\ Rin (bbox_new a b) a /\ Rin (bbox_new a b) b /\
  (forall c : B, Rin c a -> Rin c b -> Rcontains c (bbox_new a b)).
Proof.
  mmR. bx. repeat split; intros;
    repeat match goal with H : _ /\ _ |- _ => destruct H end;
    try apply Rmin_l; try apply Rmin_r; try apply Rmax_l; try apply Rmax_r;
    try (apply Rle_trans with (2 := Rmax_l _ _); apply Rmin_l);
    try (apply Rmin_glb; assumption); try (apply Rmax_lub; assumption).
Qed.

Lemma new_corner_order_irrelevant (a b : V) : bbox_new a b = bbox_new b a.
Proof.
  mmR. f_equal; f_equal; first [apply Rmin_comm | apply Rmax_comm].
Qed.

Lemma from_point_R (p : V) : Rin (bbox_from_point p) p /\ Rwf (bbox_from_point p).
Proof. unfold bbox_from_point. bx. lra. Qed.

Lemma union_contains_both (b1 b2 : B) :
  Rcontains (bbox_from_union b1 b2) b1 /\ Rcontains (bbox_from_union b1 b2) b2 /\
  (forall c : B, Rcontains c b1 -> Rcontains c b2 -> Rcontains c (bbox_from_union b1 b2)).
Proof.
  mmR. bx. repeat split; intros;
    repeat match goal with H : _ /\ _ |- _ => destruct H end;
    try apply Rmin_l; try apply Rmin_r; try apply Rmax_l; try apply Rmax_r;
    try (apply Rmin_glb; assumption); try (apply Rmax_lub; assumption).
Qed.

Lemma union_point_contains (b : B) (p : V) :
  Rcontains (bbox_from_union_point b p) b /\ Rin (bbox_from_union_point b p) p /\
  (forall q, Rin b q -> Rin (bbox_from_union_point b p) q).
Proof.
  mmR. bx. repeat split; intros;
    repeat match goal with H : _ /\ _ |- _ => destruct H end;
    try apply Rmin_l; try apply Rmin_r; try apply Rmax_l; try apply Rmax_r;
    try (eapply Rle_trans; [apply Rmin_l | assumption]); try (eapply Rle_trans; [eassumption | apply Rmax_l]).
Qed.

Lemma intersection_contained (b1 b2 : B) :
  Rcontains b1 (bbox_from_intersection b1 b2) /\ Rcontains b2 (bbox_from_intersection b1 b2) /\
  (forall p, Rin (bbox_from_intersection b1 b2) p <-> Rin b1 p /\ Rin b2 p).
Proof.
  mmR. bx. repeat split; intros;
    repeat match goal with H : _ /\ _ |- _ => destruct H end;
    try apply Rmin_l; try apply Rmin_r; try apply Rmax_l; try apply Rmax_r;
    try (apply Rmin_glb; assumption); try (apply Rmax_lub; assumption);
    try (eapply Rle_trans; [apply Rmax_l | eassumption]); try (eapply Rle_trans; [apply Rmax_r | eassumption]);
    try (eapply Rle_trans; [eassumption | apply Rmin_l]); try (eapply Rle_trans; [eassumption | apply Rmin_r]).
Qed.

(** ** predicates *)
Lemma overlaps_sym (a b : B) : bbox_overlaps a b = bbox_overlaps b a.
Proof.
  unfold bbox_overlaps.
  rewrite (andb_comm (nleb (vx (bmin b)) (vx (bmax a)))), (andb_comm (nleb (vy (bmin b)) (vy (bmax a)))),
          (andb_comm (nleb (vz (bmin b)) (vz (bmax a)))). reflexivity.
Qed.

Lemma overlaps_spec (a b : B) :
  bbox_overlaps a b = true <->
  (vx (bmin b) <= vx (bmax a) /\ vx (bmin a) <= vx (bmax b)) /\
  (vy (bmin b) <= vy (bmax a) /\ vy (bmin a) <= vy (bmax b)) /\
  (vz (bmin b) <= vz (bmax a) /\ vz (bmin a) <= vz (bmax b)).
Proof. unfold bbox_overlaps. rnum. rewrite !andb_true_iff, !Rleb_true. tauto. Qed.

Lemma overlaps_iff_common_point (a b : B) : Rwf a -> Rwf b ->
  (bbox_overlaps a b = true <-> exists p, Rin a p /\ Rin b p).
Proof.
  intros Wa Wb. rewrite overlaps_spec. split.
  - intros ((X1 & X2) & (Y1 & Y2) & (Z1 & Z2)).
    exists (mkV3 (Rmax (vx (bmin a)) (vx (bmin b))) (Rmax (vy (bmin a)) (vy (bmin b))) (Rmax (vz (bmin a)) (vz (bmin b)))).
    bx. repeat split; try apply Rmax_l; try apply Rmax_r; apply Rmax_lub; lra.
  - intros (p & Ha & Hb). bx. lra.
Qed.

Lemma overlaps_iff_intersection_wf (a b : B) : Rwf a -> Rwf b ->
  (bbox_overlaps a b = true <-> Rwf (bbox_from_intersection a b)).
Proof.
  intros Wa Wb. rewrite overlaps_spec. mmR. bx. split.
  - intros ((X1 & X2) & (Y1 & Y2) & (Z1 & Z2)). repeat split; apply Rmax_lub; apply Rmin_glb; lra.
  - intros (X & Y & Z).
    pose proof (Rmax_l (vx (bmin a)) (vx (bmin b))). pose proof (Rmax_r (vx (bmin a)) (vx (bmin b))).
    pose proof (Rmin_l (vx (bmax a)) (vx (bmax b))). pose proof (Rmin_r (vx (bmax a)) (vx (bmax b))).
    pose proof (Rmax_l (vy (bmin a)) (vy (bmin b))). pose proof (Rmax_r (vy (bmin a)) (vy (bmin b))).
    pose proof (Rmin_l (vy (bmax a)) (vy (bmax b))). pose proof (Rmin_r (vy (bmax a)) (vy (bmax b))).
    pose proof (Rmax_l (vz (bmin a)) (vz (bmin b))). pose proof (Rmax_r (vz (bmin a)) (vz (bmin b))).
    pose proof (Rmin_l (vz (bmax a)) (vz (bmax b))). pose proof (Rmin_r (vz (bmax a)) (vz (bmax b))).
    lra.
Qed.

Lemma point_inside_spec (b : B) (p : V) : bbox_point_inside b p = true <-> Rin b p.
Proof. unfold bbox_point_inside. rnum. rewrite !andb_true_iff, !Rleb_true. bx. tauto. Qed.
Lemma point_inside_exclusive_spec (b : B) (p : V) :
  bbox_point_inside_exclusive b p = true <-> Vle (bmin b) p /\ Vlt p (bmax b).
Proof. unfold bbox_point_inside_exclusive. rnum. rewrite !andb_true_iff, !Rleb_true, !Rltb_true. bx. tauto. Qed.

(** ** device D5: an affine function on a box is bounded by its values at the eight corners *)
Lemma affine_le_corners (a b c d x0 x1 y0 y1 z0 z1 x y z M : R) :
  x0 <= x <= x1 -> y0 <= y <= y1 -> z0 <= z <= z1 ->
  a * x0 + b * y0 + c * z0 + d <= M -> a * x1 + b * y0 + c * z0 + d <= M ->
  a * x0 + b * y1 + c * z0 + d <= M -> a * x0 + b * y0 + c * z1 + d <= M ->
  a * x0 + b * y1 + c * z1 + d <= M -> a * x1 + b * y1 + c * z0 + d <= M ->
  a * x1 + b * y0 + c * z1 + d <= M -> a * x1 + b * y1 + c * z1 + d <= M ->
  a * x + b * y + c * z + d <= M.
Proof.
  intros Hx Hy Hz C0 C1 C2 C3 C4 C5 C6 C7.
  assert (Ax : a * x <= a * x0 \/ a * x <= a * x1) by (destruct (Rle_dec 0 a); [right | left]; nra).
  assert (Ay : b * y <= b * y0 \/ b * y <= b * y1) by (destruct (Rle_dec 0 b); [right | left]; nra).
  assert (Az : c * z <= c * z0 \/ c * z <= c * z1) by (destruct (Rle_dec 0 c); [right | left]; nra).
  destruct Ax, Ay, Az; lra.
Qed.
Lemma affine_ge_corners (a b c d x0 x1 y0 y1 z0 z1 x y z M : R) :
  x0 <= x <= x1 -> y0 <= y <= y1 -> z0 <= z <= z1 ->
  M <= a * x0 + b * y0 + c * z0 + d -> M <= a * x1 + b * y0 + c * z0 + d ->
  M <= a * x0 + b * y1 + c * z0 + d -> M <= a * x0 + b * y0 + c * z1 + d ->
  M <= a * x0 + b * y1 + c * z1 + d -> M <= a * x1 + b * y1 + c * z0 + d ->
  M <= a * x1 + b * y0 + c * z1 + d -> M <= a * x1 + b * y1 + c * z1 + d ->
  M <= a * x + b * y + c * z + d.
Proof.
  intros Hx Hy Hz C0 C1 C2 C3 C4 C5 C6 C7.
  assert (Ax : a * x0 <= a * x \/ a * x1 <= a * x) by (destruct (Rle_dec 0 a); [left | right]; nra).
  assert (Ay : b * y0 <= b * y \/ b * y1 <= b * y) by (destruct (Rle_dec 0 b); [left | right]; nra).
  assert (Az : c * z0 <= c * z \/ c * z1 <= c * z) by (destruct (Rle_dec 0 c); [left | right]; nra).
  destruct Ax, Ay, Az; lra.
Qed.

(** coordinates of the image of a point under an affine matrix *)
Lemma pt_affine_coords (m : M) (p : V) : affine m ->
  vx (mul4x4point m p) = m00 m * vx p + m01 m * vy p + m02 m * vz p + m03 m /\
  vy (mul4x4point m p) = m10 m * vx p + m11 m * vy p + m12 m * vz p + m13 m /\
  vz (mul4x4point m p) = m20 m * vx p + m21 m * vy p + m22 m * vz p + m23 m.
Proof.
  destruct m, p as [px py pz]. unf. intros (?&?&?&?); subst. repeat split; field; lra.
Qed.

(** the eight corners, in the order in which [transform_bbox] visits them *)
Definition corners (b : B) : list V :=
  let mn := bmin b in let mx := bmax b in
  [mkV3 (vx mn) (vy mn) (vz mn); mkV3 (vx mx) (vy mn) (vz mn); mkV3 (vx mn) (vy mx) (vz mn); mkV3 (vx mn) (vy mn) (vz mx);
   mkV3 (vx mn) (vy mx) (vz mx); mkV3 (vx mx) (vy mx) (vz mn); mkV3 (vx mx) (vy mn) (vz mx); mkV3 (vx mx) (vy mx) (vz mx)].
(** the bounding box of a non-empty list of points, built like [transform_bbox] builds it *)
Definition hull (p0 : V) (l : list V) : B := fold_left bbox_from_union_point l (bbox_from_point p0).
Definition hull_of (l : list V) : B := match l with p0 :: l' => hull p0 l' | [] => bbox_from_point (mkV3 0 0 0) end.
Lemma bbox_by_is_hull (m : M) (b : B) : bbox_by m b = hull_of (map (mul4x4point m) (corners b)).
Proof. reflexivity. Qed.

Lemma up_grows (r : B) (x q : V) : Rin r q -> Rin (bbox_from_union_point r x) q.
Proof. intros H. exact (proj2 (proj2 (union_point_contains r x)) q H). Qed.
Lemma up_new (r : B) (x : V) : Rin (bbox_from_union_point r x) x.
Proof. exact (proj1 (proj2 (union_point_contains r x))). Qed.
Lemma fold_union_point_grows (l : list V) : forall (r : B) (q : V), Rin r q -> Rin (fold_left bbox_from_union_point l r) q.
Proof.
  induction l as [|x l IH]; intros r q H; cbn [fold_left]; [exact H|].
  apply IH. apply up_grows. exact H.
Qed.
Lemma fold_union_point_all (l : list V) : forall (r : B) (q : V), In q l -> Rin (fold_left bbox_from_union_point l r) q.
Proof.
  induction l as [|x l IH]; intros r q Hq; cbn [fold_left]; [destruct Hq|].
  destruct Hq as [->|Hq]; [apply fold_union_point_grows, up_new | apply IH; exact Hq].
Qed.
Lemma hull_contains_points (p0 : V) (l : list V) : forall q, q = p0 \/ In q l -> Rin (hull p0 l) q.
Proof.
  intros q [->|Hq]; unfold hull.
  - apply fold_union_point_grows. apply from_point_R.
  - apply fold_union_point_all. exact Hq.
Qed.

(** a box that contains the images of the eight corners contains the image of every point of the box *)
Lemma corners_suffice (m : M) (b c : B) (p : V) : affine m -> Rin b p ->
  (forall q, In q (corners b) -> Rin c (mul4x4point m q)) -> Rin c (mul4x4point m p).
Proof.
  intros Ha Hp Hc.
  assert (H8 : forall k, (k < 8)%nat -> Rin c (mul4x4point m (nth k (corners b) (mkV3 0 0 0)))).
  { intros k Hk. apply Hc. apply nth_In. exact Hk. }
  pose proof (H8 0%nat ltac:(lia)) as C0. pose proof (H8 1%nat ltac:(lia)) as C1.
  pose proof (H8 2%nat ltac:(lia)) as C2. pose proof (H8 3%nat ltac:(lia)) as C3.
  pose proof (H8 4%nat ltac:(lia)) as C4. pose proof (H8 5%nat ltac:(lia)) as C5.
  pose proof (H8 6%nat ltac:(lia)) as C6. pose proof (H8 7%nat ltac:(lia)) as C7.
  clear H8 Hc. cbn [nth corners] in *.
  unfold Rin, Vle in C0, C1, C2, C3, C4, C5, C6, C7 |- *.
  repeat match goal with H : context [mul4x4point m ?q] |- _ =>
    let E1 := fresh in let E2 := fresh in let E3 := fresh in
    destruct (pt_affine_coords m q Ha) as (E1 & E2 & E3); rewrite E1, E2, E3 in H; clear E1 E2 E3 end.
  destruct (pt_affine_coords m p Ha) as (Ex & Ey & Ez). rewrite Ex, Ey, Ez. clear Ex Ey Ez.
  destruct Hp as ((X0 & Y0 & Z0) & (X1 & Y1 & Z1)).
  cbn [vx vy vz] in *.
  repeat match goal with H : _ /\ _ |- _ => destruct H end.
  repeat split.
  all: first [ eapply affine_ge_corners with (x0 := vx (bmin b)) (x1 := vx (bmax b)) (y0 := vy (bmin b)) (y1 := vy (bmax b))
                 (z0 := vz (bmin b)) (z1 := vz (bmax b)); [split; assumption | split; assumption | split; assumption | lra ..]
             | eapply affine_le_corners with (x0 := vx (bmin b)) (x1 := vx (bmax b)) (y0 := vy (bmin b)) (y1 := vy (bmax b))
                 (z0 := vz (bmin b)) (z1 := vz (bmax b)); [split; assumption | split; assumption | split; assumption | lra ..] ].
Qed.

(** ** the transformed box contains the image of every point of the box *)
Theorem bbox_by_contains_image (m : M) (b : B) (p : V) : affine m -> Rin b p -> Rin (bbox_by m b) (mul4x4point m p).
Proof.
  intros Ha Hp. apply corners_suffice with (b := b); try assumption.
  intros q Hq. rewrite bbox_by_is_hull. cbn [map corners hull_of] in *.
  apply hull_contains_points. cbn [In] in *.
  repeat (destruct Hq as [<-|Hq]; [tauto|]). destruct Hq.
Qed.
Corollary tr_bbox_contains (t : T) (b : B) (p : V) : affine (elements t) -> Rin b p -> Rin (tr_bbox t b) (tr_pt t p).
Proof. apply bbox_by_contains_image. Qed.
Corollary tr_inv_bbox_contains (t : T) (b : B) (p : V) : affine (inv_elements t) -> Rin b p -> Rin (tr_inv_bbox t b) (tr_inv_pt t p).
Proof. apply bbox_by_contains_image. Qed.

Lemma bbox_by_wf (m : M) (b : B) : affine m -> Rwf b -> Rwf (bbox_by m b).
Proof.
  intros Ha Wb. assert (H : Rin b (bmin b)) by (bx; lra).
  pose proof (bbox_by_contains_image m b (bmin b) Ha H) as (L & U). bx. lra.
Qed.

(** round trip of boxes: transform then inverse transform contains the box we started from *)
Theorem bbox_round_trip_contains (t : T) (b : B) (p : V) : Inv t -> Rin b p -> Rin (tr_inv_bbox t (tr_bbox t b)) p.
Proof.
  intros Hi Hp. pose proof Hi as (_ & _ & A3 & A4).
  rewrite <- (inv_pt_pt t p Hi). apply tr_inv_bbox_contains; [exact A4|]. apply tr_bbox_contains; assumption.
Qed.
Corollary bbox_round_trip_contains_box (t : T) (b : B) : Inv t -> Rwf b -> Rcontains (tr_inv_bbox t (tr_bbox t b)) b.
Proof.
  intros Hi Wb.
  assert (H0 : Rin b (bmin b)) by (bx; lra). assert (H1 : Rin b (bmax b)) by (bx; lra).
  pose proof (bbox_round_trip_contains t b _ Hi H0) as (L0 & U0).
  pose proof (bbox_round_trip_contains t b _ Hi H1) as (L1 & U1). split; assumption.
Qed.

(** ** all eight corners are needed: dropping the k-th one breaks containment for some affine map *)
Fixpoint drop {A} (k : nat) (l : list A) : list A :=
  match k, l with O, _ :: l' => l' | S k', x :: l' => x :: drop k' l' | _, [] => [] end.
Definition bbox_by_without (k : nat) (m : M) (b : B) : B := hull_of (map (mul4x4point m) (drop k (corners b))).
Definition sgn_row (sx sy sz : R) : M := mkM4 sx sy sz 0  0 1 0 0  0 0 1 0  0 0 0 1.
Lemma sgn_row_x (sx sy sz : R) (q : V) : vx (mul4x4point (sgn_row sx sy sz) q) = sx * vx q + sy * vy q + sz * vz q.
Proof. destruct q as [qx qy qz]. unfold sgn_row, mul4x4point, vdivs. cbn [m00 m01 m02 m03 m30 m31 m32 m33 vx vy vz]. rnum. field; lra. Qed.
Lemma fold_upper (l : list V) (U : R) : forall r : B, vx (bmax r) <= U -> (forall q, In q l -> vx q <= U) ->
  vx (bmax (fold_left bbox_from_union_point l r)) <= U.
Proof.
  induction l as [|x l IH]; intros r Hr Hl; cbn [fold_left]; [exact Hr|].
  apply IH; [|intros q Hq; apply Hl; right; exact Hq].
  mmR. apply Rmax_lub; [exact Hr | apply Hl; left; reflexivity].
Qed.
Lemma hull_of_upper (l : list V) (U : R) : l <> [] -> (forall q, In q l -> vx q <= U) -> vx (bmax (hull_of l)) <= U.
Proof.
  destruct l as [|p0 l]; [congruence|]. intros _ H. unfold hull_of, hull.
  apply fold_upper; [apply H; left; reflexivity | intros q Hq; apply H; right; exact Hq].
Qed.

Lemma every_corner_is_needed : forall k, (k < 8)%nat ->
  exists (m : M) (b : B) (p : V), affine m /\ Rwf b /\ Rin b p /\ ~ Rin (bbox_by_without k m b) (mul4x4point m p).
Proof.
  intros k Hk.
  set (u := mkBBox (mkV3 0 0 0) (mkV3 1 1 1)).
  assert (W : Rwf u) by (unfold u; bx; lra).
  assert (A : forall sx sy sz, affine (sgn_row sx sy sz)) by (intros; unfold affine, sgn_row; cbn; tauto).
  assert (Key : forall sx sy sz (p : V) (U : R), U < sx * vx p + sy * vy p + sz * vz p ->
            (forall q, In q (drop k (corners u)) -> sx * vx q + sy * vy q + sz * vz q <= U) ->
            ~ Rin (bbox_by_without k (sgn_row sx sy sz) u) (mul4x4point (sgn_row sx sy sz) p)).
  { intros sx sy sz p U HU Hq (_ & (Ux & _)). rewrite sgn_row_x in Ux.
    assert (Hb : vx (bmax (bbox_by_without k (sgn_row sx sy sz) u)) <= U).
    { unfold bbox_by_without. apply hull_of_upper.
      - destruct k as [|[|[|[|[|[|[|[|k]]]]]]]]; try lia; discriminate.
      - intros q Hin. apply in_map_iff in Hin. destruct Hin as (c & <- & Hc). rewrite sgn_row_x. apply Hq. exact Hc. }
    lra. }
  destruct k as [|[|[|[|[|[|[|[|k]]]]]]]]; [..| exfalso; lia]; clear Hk.
  1: exists (sgn_row (-1) (-1) (-1)), u, (mkV3 0 0 0).
  2: exists (sgn_row 1 (-1) (-1)), u, (mkV3 1 0 0).
  3: exists (sgn_row (-1) 1 (-1)), u, (mkV3 0 1 0).
  4: exists (sgn_row (-1) (-1) 1), u, (mkV3 0 0 1).
  5: exists (sgn_row (-1) 1 1), u, (mkV3 0 1 1).
  6: exists (sgn_row 1 1 (-1)), u, (mkV3 1 1 0).
  7: exists (sgn_row 1 (-1) 1), u, (mkV3 1 0 1).
  8: exists (sgn_row 1 1 1), u, (mkV3 1 1 1).
  all: split; [apply A|]; split; [exact W|]; split; [unfold u; bx; lra|].
  1: apply Key with (U := -1). 3: apply Key with (U := 0). 5: apply Key with (U := 0). 7: apply Key with (U := 0).
  9: apply Key with (U := 1). 11: apply Key with (U := 1). 13: apply Key with (U := 1). 15: apply Key with (U := 2).
  all: cbn [vx vy vz]; try lra.
  all: unfold u, corners; cbn [drop bmin bmax vx vy vz In]; intros q Hq;
       repeat (destruct Hq as [<-|Hq]; [cbn [vx vy vz]; lra|]); destruct Hq.
Qed.

(** ** primitives *)
(** every convex combination of the vertices lies in the triangle's bounds *)
Theorem triangle_bounds_contain (a b c : V) (wa wb wc : R) :
  0 <= wa -> 0 <= wb -> 0 <= wc -> wa + wb + wc = 1 ->
  Rin (triangle_bounds a b c)
      (mkV3 (wa * vx a + wb * vx b + wc * vx c) (wa * vy a + wb * vy b + wc * vy c) (wa * vz a + wb * vz b + wc * vz c)).
Proof.
  intros Ha Hb Hc Hs. unfold triangle_bounds. mmR. bx.
  assert (L : forall x y z, Rmin (Rmin x y) z <= wa * x + wb * y + wc * z).
  { intros x y z. pose proof (Rmin_l (Rmin x y) z). pose proof (Rmin_r (Rmin x y) z). pose proof (Rmin_l x y). pose proof (Rmin_r x y).
    set (m := Rmin (Rmin x y) z) in *. assert (m <= x) by lra. assert (m <= y) by lra. nra. }
  assert (U : forall x y z, wa * x + wb * y + wc * z <= Rmax (Rmax x y) z).
  { intros x y z. pose proof (Rmax_l (Rmax x y) z). pose proof (Rmax_r (Rmax x y) z). pose proof (Rmax_l x y). pose proof (Rmax_r x y).
    set (m := Rmax (Rmax x y) z) in *. assert (x <= m) by lra. assert (y <= m) by lra. nra. }
  repeat split; first [apply L | apply U].
Qed.
Lemma triangle_world_bounds_eq (a b c : V) : triangle_world_bounds a b c = triangle_bounds a b c.
Proof. reflexivity. Qed.

Lemma sq_le_abs (x r : R) : x * x <= r * r -> Rmin (- r) r <= x <= Rmax (- r) r.
Proof.
  intros H. unfold Rmin, Rmax. destruct (Rle_dec (- r) r); split; nra.
Qed.

(** every point of the sphere of radius [r] between the clipping planes lies in [sphere_bounds] (any sign of [r]) *)
Theorem sphere_bounds_contain (r zmin zmax : R) (p : V) :
  vx p * vx p + vy p * vy p + vz p * vz p = r * r -> zmin <= vz p <= zmax -> Rin (sphere_bounds r zmin zmax) p.
Proof.
  intros E Hz. unfold sphere_bounds. mmR. rnum. bx.
  assert (Hx : vx p * vx p <= r * r) by nra. assert (Hy : vy p * vy p <= r * r) by nra.
  destruct (sq_le_abs _ _ Hx), (sq_le_abs _ _ Hy).
  pose proof (Rmin_l zmin zmax). pose proof (Rmax_r zmin zmax). repeat split; lra.
Qed.
(** every point of the cylinder of radius [r] about the z axis between [zmin] and [zmax] lies in [cylinder_bounds] *)
Theorem cylinder_bounds_contain (r zmin zmax : R) (p : V) :
  vx p * vx p + vy p * vy p = r * r -> zmin <= vz p <= zmax -> Rin (cylinder_bounds r zmin zmax) p.
Proof.
  intros E Hz. unfold cylinder_bounds. mmR. rnum. bx.
  assert (Hx : vx p * vx p <= r * r) by nra. assert (Hy : vy p * vy p <= r * r) by nra.
  destruct (sq_le_abs _ _ Hx), (sq_le_abs _ _ Hy).
  pose proof (Rmin_l zmin zmax). pose proof (Rmax_r zmin zmax). repeat split; lra.
Qed.

(** the constructors only ever shrink the z range of a sphere to [-r, r], where the surface lives anyway *)
Lemma fclamp_R (s : N) (x lo hi : R) : lo <= hi -> @fclamp R _ s x lo hi = Ok (Rmin (Rmax x lo) hi).
Proof.
  intros H. unfold fclamp. rnum. destruct (Rleb lo hi) eqn:E; [|apply Rleb_false in E; lra]. cbn [negb].
  f_equal. unfold Rmin, Rmax. rcase x lo H1; [rcase hi lo H2 | rcase hi x H2]; destruct (Rle_dec x lo);
    repeat match goal with |- context [Rle_dec ?a ?b] => destruct (Rle_dec a b) end; lra.
Qed.
Theorem sphere_constructor_bounds_contain (r zmin zmax phi : R) (b : B) (p : V) :
  0 <= r -> sphere_new_bounds r zmin zmax phi = Ok b ->
  vx p * vx p + vy p * vy p + vz p * vz p = r * r -> zmin <= vz p <= zmax -> Rin b p.
Proof.
  intros Hr. unfold sphere_new_bounds, sphere_stored_z. rnum.
  destruct (Rltb zmax zmin); [discriminate|].
  rewrite !fclamp_R by lra. cbn [rbind]. destruct (negb (phi_ok phi)); [discriminate|]. cbn [rbind fst snd].
  intros E; inversion E; subst b; clear E. intros Hs Hz. apply sphere_bounds_contain; [exact Hs|].
  assert (Hzz : vz p * vz p <= r * r) by nra. destruct (sq_le_abs _ _ Hzz) as [L U].
  rewrite Rmin_left in L by lra. rewrite Rmax_right in U by lra.
  split.
  - eapply Rle_trans; [apply Rmin_l | apply Rmax_lub; lra].
  - apply Rmin_glb; [eapply Rle_trans; [|apply Rmax_l]; lra | lra].
Qed.
Theorem cylinder_constructor_bounds_contain (r zmin zmax phi : R) (b : B) (p : V) :
  cylinder_new_bounds r zmin zmax phi = Ok b ->
  vx p * vx p + vy p * vy p = r * r -> zmin <= vz p <= zmax -> Rin b p.
Proof.
  unfold cylinder_new_bounds, cylinder_stored_z.
  destruct (nltb zmax zmin); [discriminate|]. destruct (negb (phi_ok phi)); [discriminate|]. cbn [rbind fst snd].
  intros E; inversion E; subst b. apply cylinder_bounds_contain.
Qed.

(** world bounds: the image, under the attached transform, of every point of the local bounds - in
    particular of every surface point - lies in the world bounds *)
Definition place (t : option T) (p : V) : V := match t with Some t => tr_pt t p | None => p end.
Definition affine_opt (t : option T) : Prop := match t with Some t => affine (elements t) | None => True end.
Theorem world_bounds_contain (t : option T) (local_b : B) (p : V) :
  affine_opt t -> Rin local_b p -> Rin (world_bounds t local_b) (place t p).
Proof. destruct t as [t|]; cbn [world_bounds place affine_opt]; intros Ha Hp; [apply tr_bbox_contains; assumption | exact Hp]. Qed.
Lemma world_bounds_is_transformed_local (t : T) (local_b : B) : world_bounds (Some t) local_b = bbox_by (elements t) local_b.
Proof. reflexivity. Qed.

(** link with C14's notion of a well-formed box *)
Lemma new_is_wellformed (a b : V) : Rwf (bbox_new a b).
Proof. apply new_normalises. Qed.

(** non-vacuity *)
Lemma nonvacuous_transform :
  let t := tr_mul_assign (tr_translate 1 2 3) (tr_scale 2 (-1) (1/2)) in
  let b := bbox_new (mkV3 1 1 1) (mkV3 0 0 0) in Inv t /\ Rwf b /\ Rin b (mkV3 (1/2) (1/3) 1).
Proof.
  cbv zeta. split; [apply Inv_mul_assign; [apply Inv_translate | apply Inv_scale; lra]|].
  split; [apply new_is_wellformed|]. mmR. bx. unfold Rmin, Rmax. repeat match goal with |- context [Rle_dec ?a ?b] => destruct (Rle_dec a b) end; lra.
Qed.
