(** * Mesh_refine_region (C08): [refine] (and [mesh_polygon]) preserve the region, over the reals.
    From a mesh with WF, CNT, GEO, planar and positively oriented ([INV]), if [refine] returns Ok and every step of its trace
    (Proofs/Mesh_refine_trace.v) meets the side conditions [side] on the mesh it is applied to -- each inserted point separated
    from the then-current vertices; every add_point located Inside (strictly, in the plane coordinates) or EXACTLY on the located
    edge; inserted points in the plane -- then area, coverage, positive orientation and the invariants are those of the start.
    The midpoint at which an edge is split needs only the separation: it is exactly on the edge and in the plane.
    A swallowed Err of add_point left the mesh unchanged (split_*_struct, Proofs/Mesh_atomic.v). *)
From Coq Require Import ZArith Bool List Arith Lia Permutation Reals Lra.
From G3 Require Import Model.Num Model.Base Model.Vec Model.Segment Model.Triangle Model.Loop Model.Polygon Model.Triangulation
  Theory.RInst Theory.Cyclic Theory.Winding
  Proofs.Mesh_base Proofs.Mesh_wf Proofs.Mesh_sites Proofs.Mesh_conf Proofs.Mesh_region Proofs.Mesh_atomic
  Proofs.Mesh_links Proofs.Mesh_links_steps Proofs.Mesh_links_region Proofs.Mesh_refine_trace.
From G3 Require Proofs.C05_pointtest.
Import ListNotations.

Section RefineRegion.
  Local Open Scope R_scope.
  Notation VR := (V3 R).
  Variables o e1 e2 : V3 R.
  Notation pr := (C05_pointtest.plane2 o e1 e2).
  Hypothesis E11 : vdot e1 e1 = 1.
  Hypothesis E22 : vdot e2 e2 = 1.
  Hypothesis E12 : vdot e1 e2 = 0.

  Definition INV (M : Mesh R) : Prop := WF M /\ CNT M /\ POS o e1 e2 M.
  (** what is asked of each step of the trace, on the mesh it is applied to; [Gn p]: the ray avoids the inserted point *)
  Definition side (Gn : VR -> Prop) (M : Mesh R) (op : mop R) : Prop :=
    match op with
    | OSplitEdge _ _ p => SEPp M p /\ Gn p
    | ORestore _ => True
    | OAddPoint p => SEPp M p /\ in_plane o e1 e2 p /\ add_point_hyp between M p /\
                     (forall i, find_container (tris M) 0 p = Some (i, Inside) -> inside_hyp o e1 e2 M i p) /\ Gn p
    | OSplitTriangle i p => SEPp M p /\ in_plane o e1 e2 p /\ inside_hyp o e1 e2 M i p
    | _ => False
    end.

  Lemma INV_LNK M : INV M -> LNK M.
  Proof. intros (_ & _ & (HL & _) & _). apply LNKG_LNK. exact HL. Qed.
  Lemma skipn_cons {A} (i : nat) (x : A) (l' : list A) : forall L, skipn i L = x :: l' -> nth_error L i = Some x /\ l' = skipn (S i) L.
  Proof. induction i as [|i IH]; intros [|y L] H; cbn [skipn] in H; try discriminate; [inversion H; split; reflexivity | apply IH; exact H]. Qed.
  Lemma emb_mid (u1 v1 u2 v2 : R) : vscale (vadd (emb o e1 e2 u1 v1) (emb o e1 e2 u2 v2)) nhalf = emb o e1 e2 ((u1 + u2) / 2) ((v1 + v2) / 2).
  Proof. unfold emb, vscale, vadd, nhalf. apply v3_eq; cbn [vx vy vz]; rnum; field. Qed.
  Lemma midpoint_in_plane (M : Mesh R) (i : nat) (t : TriPiece R) (s_i : N) (s : Seg R) :
    InPlane o e1 e2 M -> nth_error (tris M) i = Some t -> tp_valid t = true -> longest_edge (tp_tri t) = Ok (s_i, s) -> in_plane o e1 e2 (seg_midpoint s).
  Proof.
    intros HI Et Ev H. assert (Lt : lvM M i (tp_tri t)) by (apply slot_lvT; assumption). destruct (mesh_vert_tri _ _ _ Lt) as (Pa & Pb & Pc).
    apply HI in Pa. apply HI in Pb. apply HI in Pc. destruct Pa as (ua & va & Ea). destruct Pb as (ub & vb & Eb). destruct Pc as (uc & vc & Ec).
    unfold longest_edge in H. cbn [tri_segment rbind] in H.
    destruct (nltb (slength (tri_ab (tp_tri t))) (slength (tri_bc (tp_tri t)))); destruct (nltb _ (slength (tri_ca (tp_tri t)))); inversion H; subst;
      unfold seg_midpoint, tri_ab, tri_bc, tri_ca, seg_new; cbn [sstart send]; rewrite ?Ea, ?Eb, ?Ec, emb_mid; eexists; eexists; reflexivity.
  Qed.

  (** the first projection of the replayed steps *)
  Lemma step_se_fst (i : nat) (e : N) (ed : Edge) (p : VR) (M M1 : Mesh R) (u : unit) :
    edge_from_i e = Ok ed -> split_edge i ed p M = (M1, Ok u) -> fst (mesh_step (OSplitEdge i e p) M) = M1.
  Proof. intros E H. cbn [mesh_step]. unfold mbind, mlift. rewrite E, H. reflexivity. Qed.
  Lemma step_rd_fst (m : R) (M M1 : Mesh R) (u : unit) : restore_delaunay m M = (M1, Ok u) -> fst (mesh_step (ORestore m) M) = M1.
  Proof. intros H. cbn [mesh_step]. unfold mbind. rewrite H. reflexivity. Qed.
  Lemma step_ap_fst (p : VR) (M M1 : Mesh R) (b : bool) : add_point p M = (M1, Ok b) -> fst (mesh_step (OAddPoint p) M) = M1.
  Proof. intros H. cbn [mesh_step]. unfold mbind. rewrite H. reflexivity. Qed.
  Lemma step_st_fst (i : nat) (p : VR) (M M1 : Mesh R) (u : unit) : split_triangle i p M = (M1, Ok u) -> fst (mesh_step (OSplitTriangle i p) M) = M1.
  Proof. intros H. cbn [mesh_step]. unfold mbind. rewrite H. reflexivity. Qed.

  Section Measure.
    (** a quantity that the elementary steps keep *)
    Context {X : Type}.
    Variable phi : Mesh R -> X.
    Variable Gn : VR -> Prop.
    Hypothesis Hse : forall M i ed p M', GEO M -> SEPp M p -> edge_hyp between M i ed p -> Gn p -> split_edge i ed p M = (M', Ok tt) -> phi M' = phi M.
    Hypothesis Hst : forall M i p M', split_triangle i p M = (M', Ok tt) -> phi M' = phi M.
    Hypothesis Hrd : forall M m M', GEO M -> restore_delaunay m M = (M', Ok tt) -> phi M' = phi M.
    Hypothesis Hap : forall M p M' b, GEO M -> add_point_hyp between M p -> Gn p -> add_point p M = (M', Ok b) -> phi M' = phi M.

    Lemma L_se (M M1 : Mesh R) (i : nat) (t : TriPiece R) (s_i : N) (s : Seg R) (ed : Edge) :
      INV M -> nth_error (tris M) i = Some t -> tp_valid t = true -> longest_edge (tp_tri t) = Ok (s_i, s) -> edge_from_i s_i = Ok ed ->
      SEPp M (seg_midpoint s) -> Gn (seg_midpoint s) -> split_edge i ed (seg_midpoint s) M = (M1, Ok tt) -> INV M1 /\ phi M1 = phi M.
    Proof.
      intros (W & C & HP) Et Ev Hl He S1 S2 H. pose proof HP as (HG & HI & HA).
      assert (Hb : edge_hyp between M i ed (seg_midpoint s)).
      { intros t' Et' _. rewrite Et in Et'. inversion Et'; subst t'. eapply refine_midpoint_between; eassumption. }
      split; [|eapply Hse; eassumption].
      split; [exact (proj2 (wf_split_edge _ _ _ _ _ _ H) W)|]. split.
      - destruct (split_edge_struct _ _ _ _ _ _ W C (LNKG_LNK _ (proj1 HG)) H) as [(_ & _ & Q & _) | [Q | Q]]; [exact Q | subst; exact C | discriminate].
      - eapply (split_edge_POS o e1 e2); try eassumption. eapply midpoint_in_plane; eassumption.
    Qed.
    Lemma L_rd (M M1 : Mesh R) (m : R) : INV M -> restore_delaunay m M = (M1, Ok tt) -> INV M1 /\ phi M1 = phi M.
    Proof.
      intros (W & C & HP) H. destruct (cnt_restore _ _ _ _ W C H) as (C1 & W1 & _). split; [|eapply Hrd; [exact (proj1 HP) | exact H]].
      split; [exact W1 | split; [exact C1 | eapply (restore_POS o e1 e2); eassumption]].
    Qed.
    Lemma L_st (M M1 : Mesh R) (i : nat) (p : VR) : INV M -> side Gn M (OSplitTriangle i p) -> split_triangle i p M = (M1, Ok tt) -> INV M1 /\ phi M1 = phi M.
    Proof.
      intros (W & C & HP) (S1 & S2 & S3) H. split; [|eapply Hst; exact H].
      split; [exact (proj2 (wf_split_triangle _ _ _ _ _ H) W)|]. split; [exact (proj1 (cnt_split_triangle _ _ _ _ _ C H))|].
      eapply (split_triangle_POS o e1 e2); eassumption.
    Qed.
    Lemma L_ap (M M1 : Mesh R) (p : VR) (b : bool) : INV M -> side Gn M (OAddPoint p) -> add_point p M = (M1, Ok b) -> INV M1 /\ phi M1 = phi M.
    Proof.
      intros HV (S1 & S2 & S3 & S4 & S5) H. pose proof HV as (W & C & HP). pose proof HP as (HG & _).
      split; [|eapply Hap; eassumption].
      destruct (add_point_ok_struct _ _ _ _ W C (INV_LNK _ HV) H) as [W1 C1]. split; [exact W1 | split; [exact C1|]].
      apply (step_POS o e1 e2 E11 E22 E12 (OAddPoint p) M M1 (Some b) HP); [exact (conj S1 (conj S2 (conj S3 S4)))|].
      cbn [mesh_step]. unfold mbind. rewrite H. reflexivity.
    Qed.

    Lemma refine_pass_region (a m : R) : forall cnt i l any M M' b rest,
      INV M -> l = skipn i (tris M) -> refine_pass a m cnt i l any M = (M', Ok b) ->
      tr_ok (side Gn) M (refine_pass_trace a m cnt i l M ++ rest) -> INV M' /\ phi M' = phi M /\ tr_ok (side Gn) M' rest.
    Proof.
      induction cnt as [|cnt IH]; intros i l any M M' b rest HV Hl H Htr; cbn [refine_pass refine_pass_trace] in H, Htr.
      - inversion H; subst. split; [exact HV | split; [reflexivity | exact Htr]].
      - destruct l as [|t l']; [discriminate|]. symmetry in Hl. destruct (skipn_cons _ _ _ _ Hl) as [Et Hl'].
        destruct (tp_valid t) eqn:Ev; cbn [negb] in H, Htr; [|discriminate].
        destruct (nltb (tarea (tp_tri t)) c1em3); [eapply IH; eassumption|].
        destruct (nltb m (tp_ar t)).
        { apply bind_lift_ok in H. destruct H as ([s_i s] & Els & H). apply bind_lift_ok in H. destruct H as (ed & Eed & H).
          apply mbind_ok in H. destruct H as ([] & M1 & H1 & H). apply mbind_ok in H. destruct H as ([] & M2 & H2 & H).
          rewrite Els, Eed, H1, H2 in Htr. cbn [app tr_ok] in Htr. destruct Htr as ((S1 & S2) & _ & Htr).
          rewrite (step_se_fst _ _ _ _ _ _ _ Eed H1), (step_rd_fst _ _ _ _ H2) in Htr.
          destruct (L_se M M1 i t s_i s ed HV Et Ev Els Eed S1 S2 H1) as [HV1 P1]. destruct (L_rd M1 M2 m HV1 H2) as [HV2 P2].
          destruct (IH _ _ _ _ _ _ _ HV2 eq_refl H Htr) as (A & B & D). split; [exact A | split; [congruence | exact D]]. }
        destruct (nltb a (tarea (tp_tri t))); [|eapply IH; eassumption].
        destruct (add_point (tp_cc t) M) as [M1 [did | c | s]] eqn:Eadd; [| |discriminate].
        + cbn [app tr_ok] in Htr. destruct Htr as (Sd & Htr). rewrite (step_ap_fst _ _ _ _ Eadd) in Htr.
          destruct (L_ap M M1 _ did HV Sd Eadd) as [HV1 P1]. destruct did.
          * apply mbind_ok in H. destruct H as ([] & M2 & H2 & H). rewrite H2 in Htr. cbn [app tr_ok] in Htr. destruct Htr as (_ & Htr).
            rewrite (step_rd_fst _ _ _ _ H2) in Htr. destruct (L_rd M1 M2 m HV1 H2) as [HV2 P2].
            destruct (IH _ _ _ _ _ _ _ HV2 eq_refl H Htr) as (A & B & D). split; [exact A | split; [congruence | exact D]].
          * destruct (IH _ _ _ _ _ _ _ HV1 eq_refl H Htr) as (A & B & D). split; [exact A | split; [congruence | exact D]].
        + pose proof HV as (W & C & _). assert (M1 = M) by (eapply add_point_err_struct; [exact W | exact C | apply INV_LNK; exact HV | exact Eadd]). subst M1.
          cbn [app tr_ok] in Htr. rewrite Eadd in Htr. cbn [fst] in Htr.
          apply bind_get_ok in H. destruct H as (t' & Et' & H). rewrite Et' in Htr.
          apply mbind_ok in H. destruct H as (did & M2 & H2 & H). rewrite H2 in Htr.
          destruct (aptt_inside_ok _ _ _ _ _ H2) as [Hst' ->]. cbn [app tr_ok] in Htr. destruct Htr as (Sd & Htr). rewrite (step_st_fst _ _ _ _ _ Hst') in Htr.
          destruct (L_st M M2 i _ HV Sd Hst') as [HV2 P2].
          apply mbind_ok in H. destruct H as ([] & M3 & H3 & H). rewrite H3 in Htr. cbn [app tr_ok] in Htr. destruct Htr as (_ & Htr).
          rewrite (step_rd_fst _ _ _ _ H3) in Htr. destruct (L_rd M2 M3 m HV2 H3) as [HV3 P3].
          destruct (IH _ _ _ _ _ _ _ HV3 eq_refl H Htr) as (A & B & D). split; [exact A | split; [congruence | exact D]].
    Qed.
    Theorem refine_region (a m : R) : forall fuel M M' r, INV M -> refine fuel a m M = (M', Ok r) ->
      tr_ok (side Gn) M (refine_trace fuel a m M) -> INV M' /\ phi M' = phi M.
    Proof.
      induction fuel as [|f IH]; intros M M' r HV H Htr; cbn [refine refine_trace] in H, Htr.
      - inversion H; subst. split; [exact HV | reflexivity].
      - apply mbind_ok in H. destruct H as (any & M1 & H1 & H). rewrite H1 in Htr.
        destruct (refine_pass_region a m _ _ _ _ _ _ _ _ HV eq_refl H1 Htr) as (HV1 & P1 & Htr1).
        destruct any; [|inversion H; subst; split; assumption].
        destruct (IH _ _ _ HV1 H Htr1) as [A B]. split; [exact A | congruence].
    Qed.
  End Measure.

  (** ** the four instances *)
  Notation area2 := (mesh_area2 o e1 e2).
  Notation coverM := (mesh_cover o e1 e2).
  Theorem refine_area (fuel : nat) (a m : R) (M M' : Mesh R) (r : rres) :
    INV M -> refine fuel a m M = (M', Ok r) -> tr_ok (side (fun _ => True)) M (refine_trace fuel a m M) -> area2 M' = area2 M.
  Proof.
    intros HV H Htr. apply (refine_region area2 (fun _ => True)) with (a := a) (m := m) (fuel := fuel) (r := r); try assumption.
    - intros M0 i ed p M1 HG S1 Hb _ H1. apply (proj2 (region_split_edge_geo_area o e1 e2 _ _ _ _ _ HG S1 (fun t Et Ev => between_on_line _ _ _ (Hb t Et Ev)) H1)).
    - intros M0 i p M1 H1. apply (region_split_triangle o e1 e2 _ _ _ _ H1).
    - intros M0 m0 M1 HG H1. apply (proj1 (proj2 (region_restore_geo o e1 e2 _ _ _ HG H1))).
    - intros M0 p M1 b HG Hh _ H1. eapply region_add_point_area; [|exact H1].
      apply add_point_ok_geo; [exact on_line_sym | exact HG|]. intros i loc E. specialize (Hh i loc E). destruct loc; try exact I; intros t Et Ev; apply between_on_line; apply Hh; assumption.
  Qed.
  Theorem refine_cover (d q : P2) (fuel : nat) (a m : R) (M M' : Mesh R) (r : rres) :
    INV M -> refine fuel a m M = (M', Ok r) -> tr_ok (side (fun p => hgt d q (pr p) <> 0)) M (refine_trace fuel a m M) -> coverM d M' q = coverM d M q.
  Proof.
    intros HV H Htr. apply (refine_region (fun M => coverM d M q) (fun p => hgt d q (pr p) <> 0)) with (a := a) (m := m) (fuel := fuel) (r := r); try assumption.
    - intros M0 i ed p M1 HG S1 Hb Hg H1. apply (region_split_edge_geo_cover o e1 e2 _ _ _ _ _ d q HG Hb Hg H1).
    - intros M0 i p M1 H1. apply (region_split_triangle o e1 e2 _ _ _ _ H1).
    - intros M0 m0 M1 HG H1. apply (proj2 (proj2 (region_restore_geo o e1 e2 _ _ _ HG H1))).
    - intros M0 p M1 b HG Hh Hg H1. eapply region_add_point_cover; [apply add_point_ok_geo; [exact between_sym | exact HG | exact Hh] | exact Hg | exact H1].
  Qed.
  Theorem refine_INV (fuel : nat) (a m : R) (M M' : Mesh R) (r : rres) :
    INV M -> refine fuel a m M = (M', Ok r) -> tr_ok (side (fun _ => True)) M (refine_trace fuel a m M) -> INV M'.
  Proof.
    intros HV H Htr. apply (proj1 (refine_region (fun _ : Mesh R => tt) (fun _ => True) (fun _ _ _ _ _ _ _ _ _ _ => eq_refl) (fun _ _ _ _ _ => eq_refl)
      (fun _ _ _ _ _ => eq_refl) (fun _ _ _ _ _ _ _ _ => eq_refl) a m fuel M M' r HV H Htr)).
  Qed.
  (** mesh_polygon = from_polygon then refine *)
  Corollary mesh_polygon_region (fuel : nat) (P : Poly R) (a m : R) (M0 M' : Mesh R) (r : rres) :
    from_polygon P = Ok M0 -> INV M0 -> mesh_polygon fuel P a m = Ok (M', r) -> tr_ok (side (fun _ => True)) M0 (refine_trace fuel a m M0) ->
    INV M' /\ area2 M' = area2 M0.
  Proof.
    intros H0 HV H Htr. unfold mesh_polygon in H. rewrite H0 in H. cbn [rbind] in H. destruct (refine fuel a m M0) as [M1 r1] eqn:E.
    destruct r1 as [x| |]; cbn [rbind] in H; try discriminate. inversion H; subst.
    split; [eapply refine_INV; eassumption | eapply refine_area; eassumption].
  Qed.
End RefineRegion.
