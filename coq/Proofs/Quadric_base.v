(** * Quadric_base: the interval arithmetic and the quadratic solver on the real instance.
    On [NumR] the outward-rounding steps [nnext_up]/[nnext_dn] are the identity, so every [af_*] operation
    applied to point intervals [pt x = [x,x]] is the real operation; [af_solve_quadratic] then returns the
    two real roots in increasing order; and the shared root selection [select_hit] picks the first root
    that is positive and not clipped away. *)
From Coq Require Import ZArith Reals Lra Bool List Psatz.
From G3 Require Import Model.Num Model.Base Model.Vec Model.BBox Model.RoundError Model.Transform Model.Hit Model.Sphere.
From G3 Require Import Theory.RInst.
Local Open Scope R_scope.

Notation V := (V3 R).
Definition pt (x : R) : AF R := mkAF x x.

(** ** bridging lemmas: the stepping functions and the interval operations on point intervals *)
Lemma nnext_up_R (x : R) : nnext_up x = x. Proof. reflexivity. Qed.
Lemma nnext_dn_R (x : R) : nnext_dn x = x. Proof. reflexivity. Qed.

Lemma Rltb_irrefl x : Rltb x x = false.
Proof. apply Rltb_false. lra. Qed.

Lemma af_from_ve_0 (v : R) : af_from_value_and_error v 0 = pt v.
Proof. unfold af_from_value_and_error, pt. rnum. f_equal; ring. Qed.
Lemma af_from_pt (v : R) : af_from v = pt v.
Proof. unfold af_from, n0. rnum. apply af_from_ve_0. Qed.
Lemma af_add_pt (a b : R) : af_add (pt a) (pt b) = pt (a + b).
Proof. reflexivity. Qed.
Lemma af_sub_pt (a b : R) : af_sub (pt a) (pt b) = pt (a - b).
Proof. reflexivity. Qed.
Lemma af_neg_pt (a : R) : af_neg (pt a) = pt (- a).
Proof. reflexivity. Qed.
Lemma af_sqrt_pt (a : R) : af_sqrt (pt a) = pt (sqrt a).
Proof. reflexivity. Qed.
Lemma max_min4_same (p : R) : max_min4 p p p p = (p, p).
Proof. unfold max_min4. rnum. rewrite !Rltb_irrefl. reflexivity. Qed.
Lemma af_mul_pt (a b : R) : af_mul (pt a) (pt b) = pt (a * b).
Proof. unfold af_mul, pt. cbn [low high]. rnum. rewrite max_min4_same. reflexivity. Qed.
Lemma af_div_pt (a b : R) : af_div (pt a) (pt b) = pt (a / b).
Proof. unfold af_div, pt. cbn [low high]. rnum. rewrite max_min4_same. reflexivity. Qed.
Lemma af_mul_f_pt (a f : R) : af_mul_f (pt a) f = pt (a * f).
Proof. unfold af_mul_f, pt. cbn [low high]. rnum. rewrite Rltb_irrefl. reflexivity. Qed.
Lemma af_sub_f_pt (a f : R) : af_sub_f (pt a) f = pt (a - f).
Proof. unfold af_sub_f. rewrite af_from_pt. reflexivity. Qed.
Lemma af_mul_assign_pt (a b : R) : af_mul_assign (pt a) (pt b) = pt (a * b).
Proof. unfold af_mul_assign, pt. cbn [low high]. rnum. rewrite max_min4_same. reflexivity. Qed.
Lemma af_div_assign_pt (a b : R) : af_div_assign (pt a) (pt b) = pt (a / b).
Proof. unfold af_div_assign, pt. cbn [low high]. rnum. rewrite max_min4_same. reflexivity. Qed.
Lemma af_as_float_pt (a : R) : af_as_float (pt a) = a.
Proof. unfold af_as_float, af_midpoint, pt. cbn [low high]. rnum. field. Qed.
Lemma low_pt (a : R) : low (pt a) = a. Proof. reflexivity. Qed.
Lemma high_pt (a : R) : high (pt a) = a. Proof. reflexivity. Qed.

(** ** the solver on point intervals *)
Definition disc (a b c : R) : R := b * b - a * c * 4.
Definition root0 (a b c : R) : R := (- b - sqrt (disc a b c)) / (2 * a).
Definition root1 (a b c : R) : R := (- b + sqrt (disc a b c)) / (2 * a).

Lemma solve_pt_raw (a b c : R) :
  af_solve_quadratic (pt a) (pt b) (pt c) =
  if Rltb (disc a b c) 0 then None else
  let q := if Rltb b 0 then - (b - sqrt (disc a b c)) * (1 / 2) else - (b + sqrt (disc a b c)) * (1 / 2) in
  if Rltb (c / q) (q / a) then Some (pt (c / q), pt (q / a)) else Some (pt (q / a), pt (c / q)).
Proof.
  unfold af_solve_quadratic. rewrite !af_mul_pt, af_mul_f_pt, af_sub_pt, af_as_float_pt. cbn [low].
  unfold n0, nhalf, nofQ. rnum. fold (disc a b c). rewrite low_pt.
  destruct (Rltb (disc a b c) 0); [reflexivity|].
  rewrite af_sqrt_pt.
  destruct (Rltb b 0).
  - rewrite af_sub_pt, af_neg_pt, af_mul_f_pt, !af_div_pt, !low_pt. reflexivity.
  - rewrite af_add_pt, af_neg_pt, af_mul_f_pt, !af_div_pt, !low_pt. reflexivity.
Qed.

(** the guard under which the float code divides by a non-zero [q]: [b = 0 /\ c = 0] is a ray that starts
    on the quadric and is tangent to it (then [q = 0] and the code computes [0/0]) *)
Definition solvable (a b c : R) : Prop := 0 < a /\ ~ (b = 0 /\ c = 0).

Lemma sqrt_disc_sq a b c : 0 <= disc a b c -> sqrt (disc a b c) * sqrt (disc a b c) = disc a b c.
Proof. intros. apply sqrt_sqrt. assumption. Qed.

Lemma div_eq_cross (x y z w : R) : y <> 0 -> w <> 0 -> x * w = z * y -> x / y = z / w.
Proof.
  intros Hy Hw E. apply (Rmult_eq_reg_r (y * w)); [|apply Rmult_integral_contrapositive_currified; assumption].
  replace (x / y * (y * w)) with (x * w) by (field; assumption).
  replace (z / w * (y * w)) with (z * y) by (field; assumption). exact E.
Qed.

Lemma solve_pt (a b c : R) : solvable a b c ->
  af_solve_quadratic (pt a) (pt b) (pt c) =
  if Rltb (disc a b c) 0 then None else Some (pt (root0 a b c), pt (root1 a b c)).
Proof.
  intros [Ha Hq]. rewrite solve_pt_raw. rcase (disc a b c) 0 HD; [reflexivity|].
  pose proof (sqrt_disc_sq a b c HD) as Hs. pose proof (sqrt_pos (disc a b c)) as Hp.
  set (s := sqrt (disc a b c)) in *.
  assert (Hprod : (- b - s) * (- b + s) = 4 * a * c) by (unfold disc in Hs; nra).
  cbv zeta. rcase b 0 Hb.
  - (* b < 0: q > 0, q/a is the larger root *)
    assert (Hq0 : - (b - s) * (1 / 2) <> 0) by nra.
    assert (E1 : - (b - s) * (1 / 2) / a = root1 a b c) by (unfold root1; fold s; field; lra).
    assert (E0 : c / (- (b - s) * (1 / 2)) = root0 a b c).
    { unfold root0; fold s. apply div_eq_cross; nra. }
    rewrite E1, E0.
    assert (Hle : root0 a b c <= root1 a b c).
    { unfold root0, root1; fold s. apply Rmult_le_compat_r; [left; apply Rinv_0_lt_compat; lra | lra]. }
    rcase (root0 a b c) (root1 a b c) Hlt; [reflexivity|].
    assert (root0 a b c = root1 a b c) as -> by lra. reflexivity.
  - (* 0 <= b: q <= 0, q/a is the smaller root *)
    assert (E0 : - (b + s) * (1 / 2) / a = root0 a b c) by (unfold root0; fold s; field; lra).
    assert (Hq0 : - (b + s) * (1 / 2) <> 0).
    { intros E. apply Hq. assert (b = 0) by nra. assert (s = 0) by nra. split; [assumption|]. subst b. nra. }
    assert (E1 : c / (- (b + s) * (1 / 2)) = root1 a b c).
    { unfold root1; fold s. apply div_eq_cross; nra. }
    rewrite E1, E0.
    assert (Hle : root0 a b c <= root1 a b c).
    { unfold root0, root1; fold s. apply Rmult_le_compat_r; [left; apply Rinv_0_lt_compat; lra | lra]. }
    rcase (root1 a b c) (root0 a b c) Hlt; [lra | reflexivity].
Qed.

Lemma root_le a b c : 0 < a -> 0 <= disc a b c -> root0 a b c <= root1 a b c.
Proof.
  intros Ha HD. pose proof (sqrt_pos (disc a b c)). unfold root0, root1.
  apply Rmult_le_compat_r; [left; apply Rinv_0_lt_compat; lra | lra].
Qed.

(** the two roots are exactly the zeros of the quadratic *)
Lemma eq_div (x y z : R) : z <> 0 -> x * z = y -> x = y / z.
Proof. intros Hz E. subst y. field. assumption. Qed.
Lemma root0_eq a b c : 0 < a -> root0 a b c * (2 * a) = - b - sqrt (disc a b c).
Proof. intros. unfold root0. field. lra. Qed.
Lemma root1_eq a b c : 0 < a -> root1 a b c * (2 * a) = - b + sqrt (disc a b c).
Proof. intros. unfold root1. field. lra. Qed.
Lemma roots_complete (a b c t : R) : 0 < a ->
  (a * t * t + b * t + c = 0 <-> 0 <= disc a b c /\ (t = root0 a b c \/ t = root1 a b c)).
Proof.
  intros Ha. split.
  - intros E. assert (HD : 0 <= disc a b c).
    { unfold disc. assert (b * b - a * c * 4 = (2 * a * t + b) * (2 * a * t + b)) as -> by nra.
      pose proof (Rle_0_sqr (2 * a * t + b)) as Q. unfold Rsqr in Q. exact Q. }
    split; [exact HD|]. pose proof (sqrt_disc_sq a b c HD) as Hs. set (s := sqrt (disc a b c)) in *.
    assert (F : (2 * a * t + b - s) * (2 * a * t + b + s) = 0) by (unfold disc in Hs; nra).
    apply Rmult_integral in F. destruct F as [F|F]; [right | left]; unfold root0, root1; fold s; apply eq_div; lra.
  - intros [HD Ht]. pose proof (sqrt_disc_sq a b c HD) as Hs.
    pose proof (root0_eq a b c Ha) as R0. pose proof (root1_eq a b c Ha) as R1.
    set (s := sqrt (disc a b c)) in *. unfold disc in Hs.
    assert (G : 4 * a * (a * t * t + b * t + c) = 0) by (destruct Ht as [-> | ->]; nra).
    apply Rmult_integral in G. destruct G as [G|G]; [lra | exact G].
Qed.

(** ** the shared root selection on point intervals *)
Section Select.
  Lemma select_hit_pt (t0 t1 : R) (calc : AF R -> V * R) (miss : V * R -> bool) :
    fst (select_hit (pt t0) (pt t1) calc miss) =
    if Rleb t1 0 then None else
    if Rltb 0 t0 then
      (if miss (calc (pt t0)) then (if miss (calc (pt t1)) then None else Some (calc (pt t1))) else Some (calc (pt t0)))
    else (if miss (calc (pt t1)) then None else Some (calc (pt t1))).
  Proof.
    unfold select_hit. cbn [low pt]. unfold n0. rnum.
    destruct (Rleb t1 0); [reflexivity|].
    destruct (Rltb 0 t0).
    - destruct (miss (calc (pt t0))); [|reflexivity]. destruct (miss (calc (pt t1))); reflexivity.
    - destruct (miss (calc (pt t1))); reflexivity.
  Qed.
End Select.

(** what "the first valid crossing" means: [res] is the hit at the smallest positive parameter among [t0], [t1]
    that is not clipped away, and [None] when there is none *)
Definition first_valid (hit : R -> V * R) (miss : V * R -> bool) (t0 t1 : R) (res : option (V * R)) : Prop :=
  match res with
  | Some h => exists t, (t = t0 \/ t = t1) /\ 0 < t /\ h = hit t /\ miss (hit t) = false /\
                        forall t', (t' = t0 \/ t' = t1) -> 0 < t' -> miss (hit t') = false -> t <= t'
  | None => forall t', (t' = t0 \/ t' = t1) -> 0 < t' -> miss (hit t') = true
  end.

Lemma select_first_valid (t0 t1 : R) (calc : AF R -> V * R) (miss : V * R -> bool) (hit : R -> V * R) :
  t0 <= t1 -> calc (pt t0) = hit t0 -> calc (pt t1) = hit t1 ->
  first_valid hit miss t0 t1 (fst (select_hit (pt t0) (pt t1) calc miss)).
Proof.
  intros Hle E0 E1. rewrite select_hit_pt, E0, E1. unfold first_valid.
  destruct (Rleb t1 0) eqn:L1.
  { apply Rleb_true in L1. intros t' [->| ->] Hp; lra. }
  apply Rleb_false in L1.
  rcase 0 t0 L0.
  - destruct (miss (hit t0)) eqn:M0.
    + destruct (miss (hit t1)) eqn:M1.
      * intros t' [->| ->] _; assumption.
      * exists t1. repeat split; try tauto; try lra. intros t' [->| ->] Hp Hm; [congruence | lra].
    + exists t0. repeat split; try tauto; try lra. intros t' [->| ->] Hp Hm; lra.
  - destruct (miss (hit t1)) eqn:M1.
    + intros t' [->| ->] Hp; [lra | assumption].
    + exists t1. repeat split; try tauto; try lra. intros t' [->| ->] Hp Hm; lra.
Qed.
