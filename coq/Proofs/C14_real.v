(** * C14, exact tier: the slab test of [bbox_intersect] read on the real instance (Thm 1).
    [slab_core] is the body of [bbox_intersect_tag] as a function of the six raw plane parameters;
    it is generic over [Num] and shared with the IEEE special-value analysis (Proofs/C14_special.v). *)
From Coq Require Import ZArith Reals Lra Bool List Psatz.
From G3 Require Import Model.Num Model.Base Model.Vec Model.BBox Theory.RInst.

Section Core.
  Context {K : Type} {NK : Num K}.
  Local Open Scope num_scope.
  (** the body of [intersect] after the six products [(face - origin) * inv_dir] *)
  Definition slab_core (x1 x2 y1 y2 z1 z2 : K) : bool * N :=
    let '(tx_min, tx_max) := if x1 >? x2 then (x2, x1) else (x1, x2) in
    if tx_max <? n0 then (false, 1%N) else
    let '(ty_min, ty_max) := if y1 >? y2 then (y2, y1) else (y1, y2) in
    if ty_max <? n0 then (false, 2%N) else
    let tx_max := tx_max * widen in
    let ty_max := ty_max * widen in
    if (tx_min >? ty_max) || (ty_min >? tx_max) then (false, 3%N) else
    let tx_min := if ty_min >? tx_min then ty_min else tx_min in
    let tx_max := if ty_max <? tx_max then ty_max else tx_max in
    let '(tz_min, tz_max) := if z1 >? z2 then (z2, z1) else (z1, z2) in
    if tz_max <? n0 then (false, 4%N) else
    let tz_max := tz_max * widen in
    if (tx_min >? tz_max) || (tz_min >? tx_max) then (false, 5%N) else
    let tx_min := if tz_min >? tx_min then tz_min else tx_min in
    let tx_max := if tz_max <? tx_max then tz_max else tx_max in
    if (tx_max >? tx_min) && (tx_max >? n0) then (true, 7%N) else (false, 6%N).

  Definition raw (face o i : K) : K := (face - o) * i.
  Lemma intersect_is_core (b : BBox K) (r : Ray K) (i : V3 K) :
    bbox_intersect_tag b r i =
    slab_core (raw (vx (bmin b)) (vx (rorigin r)) (vx i)) (raw (vx (bmax b)) (vx (rorigin r)) (vx i))
              (raw (vy (bmin b)) (vy (rorigin r)) (vy i)) (raw (vy (bmax b)) (vy (rorigin r)) (vy i))
              (raw (vz (bmin b)) (vz (rorigin r)) (vz i)) (raw (vz (bmax b)) (vz (rorigin r)) (vz i)).
  Proof. reflexivity. Qed.
End Core.

Local Open Scope R_scope.
Notation V := (V3 R).

(** ** the widening constant on the reals *)
Definition gR : R := @gamma3 R _.
Definition wR : R := @widen R _.
Lemma gR_pos : 0 < gR.
Proof.
  unfold gR, gamma3, ngamma. rnum.
  assert (E : 0 < / IZR (2 ^ 52)) by (apply Rinv_0_lt_compat, IZR_lt; reflexivity).
  assert (E2 : / IZR (2 ^ 52) < / 1000).
  { apply Rinv_lt_contravar; [apply Rmult_lt_0_compat; [lra | apply IZR_lt; reflexivity] | apply IZR_lt; reflexivity]. }
  apply Rdiv_lt_0_compat; lra.
Qed.
Lemma wR_eq : wR = 1 + 2 * gR.
Proof. unfold wR, widen, gR. rnum. reflexivity. Qed.
Lemma wR_gt1 : 1 < wR.
Proof. rewrite wR_eq. pose proof gR_pos. lra. Qed.
Lemma gR_small : gR < / 1000.
Proof.
  unfold gR, gamma3, ngamma. rnum.
  assert (E : 0 < / IZR (2 ^ 52)) by (apply Rinv_0_lt_compat, IZR_lt; reflexivity).
  assert (E2 : / IZR (2 ^ 52) < / 100000).
  { apply Rinv_lt_contravar; [apply Rmult_lt_0_compat; [lra | apply IZR_lt; reflexivity] | apply IZR_lt; reflexivity]. }
  set (e := / IZR (2 ^ 52)) in *.
  apply Rmult_lt_reg_r with (1 - e / 2 * 3); [lra|]. unfold Rdiv at 1. rewrite Rmult_assoc, Rinv_l by lra. lra.
Qed.
Lemma wR_lt2 : wR < 2.
Proof. rewrite wR_eq. pose proof gR_small. lra. Qed.

(** ** the core on six real parameters *)
Ltac split_cmp :=
  match goal with
  | |- context [Rltb ?a ?b] =>
    lazymatch a with context [Rltb _ _] => fail | _ => idtac end;
    lazymatch b with context [Rltb _ _] => fail | _ => idtac end;
    let H := fresh "C" in rcase a b H; cbv beta iota zeta; cbn [orb andb fst snd]
  end.

Definition lo2 (a b : R) := Rmin a b.
Definition hi2 (a b : R) := Rmax a b.

Lemma core_true_iff (x1 x2 y1 y2 z1 z2 : R) :
  let ax := lo2 x1 x2 in let bx := hi2 x1 x2 in let ay := lo2 y1 y2 in let by_ := hi2 y1 y2 in
  let az := lo2 z1 z2 in let bz := hi2 z1 z2 in
  fst (slab_core x1 x2 y1 y2 z1 z2) = true <->
  ((ax < wR * bx /\ ax < wR * by_ /\ ax < wR * bz) /\ (ay < wR * bx /\ ay < wR * by_ /\ ay < wR * bz) /\
   (az < wR * bx /\ az < wR * by_ /\ az < wR * bz)) /\ 0 < bx /\ 0 < by_ /\ 0 < bz.
Proof.
  intros ax bx ay by_ az bz.
  pose proof wR_gt1 as W. unfold slab_core. fold wR. rnum.
  (* resolve the three swaps first *)
  assert (SX : (if Rltb x2 x1 then (x2, x1) else (x1, x2)) = (ax, bx)).
  { unfold ax, bx, lo2, hi2, Rmin, Rmax. rcase x2 x1 H; destruct (Rle_dec x1 x2); try reflexivity; try lra. }
  assert (SY : (if Rltb y2 y1 then (y2, y1) else (y1, y2)) = (ay, by_)).
  { unfold ay, by_, lo2, hi2, Rmin, Rmax. rcase y2 y1 H; destruct (Rle_dec y1 y2); try reflexivity; try lra. }
  assert (SZ : (if Rltb z2 z1 then (z2, z1) else (z1, z2)) = (az, bz)).
  { unfold az, bz, lo2, hi2, Rmin, Rmax. rcase z2 z1 H; destruct (Rle_dec z1 z2); try reflexivity; try lra. }
  rewrite SX, SY, SZ. clearbody ax bx ay by_ az bz. clear SX SY SZ.
  (* products with the widening factor: atoms with linear bounds (1 < w < 2) *)
  pose proof wR_lt2 as W2.
  assert (PX : 0 <= bx -> bx <= bx * wR <= 2 * bx) by (intros; split; nra).
  assert (PY : 0 <= by_ -> by_ <= by_ * wR <= 2 * by_) by (intros; split; nra).
  assert (PZ : 0 <= bz -> bz <= bz * wR <= 2 * bz) by (intros; split; nra).
  rewrite !(Rmult_comm wR).
  set (Bx := bx * wR) in *. set (By := by_ * wR) in *. set (Bz := bz * wR) in *.
  clearbody Bx By Bz.
  repeat split_cmp;
  repeat match goal with P : 0 <= ?b -> _, H : 0 <= ?b |- _ => specialize (P H) end;
  split; intros; try discriminate; try reflexivity; try (exfalso; lra); try (repeat split; lra).
Qed.

(** ** boxes and rays *)
Inductive axis := AX | AY | AZ.
Definition crd (a : axis) (v : V) : R := match a with AX => vx v | AY => vy v | AZ => vz v end.
(** what the caller supplies: the component-wise reciprocal, computed with the model's division *)
Definition inv_dir (d : V) : V := mkV3 (n1 / vx d)%num (n1 / vy d)%num (n1 / vz d)%num.
Definition generic_dir (r : Ray R) : Prop := forall a, crd a (rdir r) <> 0.
Definition In_box (b : BBox R) (p : V) : Prop := forall a, crd a (bmin b) <= crd a p <= crd a (bmax b).
Definition wellformed (b : BBox R) : Prop := forall a, crd a (bmin b) <= crd a (bmax b).
(** parameters at which the ray crosses the two planes of slab [a], sorted *)
Definition t_lo (b : BBox R) (r : Ray R) (a : axis) : R := (crd a (bmin b) - crd a (rorigin r)) / crd a (rdir r).
Definition t_hi (b : BBox R) (r : Ray R) (a : axis) : R := (crd a (bmax b) - crd a (rorigin r)) / crd a (rdir r).
Definition t_near b r a := Rmin (t_lo b r a) (t_hi b r a).
Definition t_far b r a := Rmax (t_lo b r a) (t_hi b r a).
(** the box with every face pushed outwards by 2 gamma3 |face - origin| *)
Definition push_lo (m o : R) := m - 2 * gR * Rabs (m - o).
Definition push_hi (m o : R) := m + 2 * gR * Rabs (m - o).
Definition widened (b : BBox R) (o : V) : BBox R :=
  mkBBox (mkV3 (push_lo (vx (bmin b)) (vx o)) (push_lo (vy (bmin b)) (vy o)) (push_lo (vz (bmin b)) (vz o)))
         (mkV3 (push_hi (vx (bmax b)) (vx o)) (push_hi (vy (bmax b)) (vy o)) (push_hi (vz (bmax b)) (vz o))).

Lemma raw_R (f o d : R) : raw f o (n1 / d)%num = (f - o) / d.
Proof. unfold raw. rnum. unfold Rdiv. ring. Qed.

Lemma all_axes (P : axis -> Prop) : (forall a, P a) <-> P AX /\ P AY /\ P AZ.
Proof. split; [intros H; repeat split; apply H | intros (?&?&?) []; assumption]. Qed.

Theorem intersect_characterised (b : BBox R) (r : Ray R) :
  bbox_intersect b r (inv_dir (rdir r)) = true <->
  exists t, 0 < t /\ forall a, t_near b r a <= t < wR * t_far b r a.
Proof.
  unfold bbox_intersect. rewrite intersect_is_core. unfold inv_dir. cbn [vx vy vz]. rewrite !raw_R.
  rewrite core_true_iff. unfold lo2, hi2.
  change (Rmin ((vx (bmin b) - vx (rorigin r)) / vx (rdir r)) ((vx (bmax b) - vx (rorigin r)) / vx (rdir r))) with (t_near b r AX).
  change (Rmin ((vy (bmin b) - vy (rorigin r)) / vy (rdir r)) ((vy (bmax b) - vy (rorigin r)) / vy (rdir r))) with (t_near b r AY).
  change (Rmin ((vz (bmin b) - vz (rorigin r)) / vz (rdir r)) ((vz (bmax b) - vz (rorigin r)) / vz (rdir r))) with (t_near b r AZ).
  change (Rmax ((vx (bmin b) - vx (rorigin r)) / vx (rdir r)) ((vx (bmax b) - vx (rorigin r)) / vx (rdir r))) with (t_far b r AX).
  change (Rmax ((vy (bmin b) - vy (rorigin r)) / vy (rdir r)) ((vy (bmax b) - vy (rorigin r)) / vy (rdir r))) with (t_far b r AY).
  change (Rmax ((vz (bmin b) - vz (rorigin r)) / vz (rdir r)) ((vz (bmax b) - vz (rorigin r)) / vz (rdir r))) with (t_far b r AZ).
  set (ax := t_near b r AX). set (ay := t_near b r AY). set (az := t_near b r AZ).
  set (bx := t_far b r AX). set (by_ := t_far b r AY). set (bz := t_far b r AZ). pose proof wR_gt1 as W.
  split.
  - intros (((X1&X2&X3)&(Y1&Y2&Y3)&(Z1&Z2&Z3))&Px&Py&Pz).
    set (m := Rmax (Rmax ax ay) az). set (M := Rmin (Rmin (wR * bx) (wR * by_)) (wR * bz)).
    assert (Hm : ax <= m /\ ay <= m /\ az <= m /\ (m = ax \/ m = ay \/ m = az)).
    { unfold m, Rmax. destruct (Rle_dec ax ay), (Rle_dec ay az), (Rle_dec ax az); repeat split; try lra; auto. }
    assert (HM : M <= wR * bx /\ M <= wR * by_ /\ M <= wR * bz /\ (M = wR * bx \/ M = wR * by_ \/ M = wR * bz)).
    { unfold M, Rmin. destruct (Rle_dec (wR * bx) (wR * by_)), (Rle_dec (wR * by_) (wR * bz)), (Rle_dec (wR * bx) (wR * bz)); repeat split; try lra; auto. }
    assert (mM : m < M) by (destruct Hm as (_&_&_&[->|[->| ->]]), HM as (_&_&_&[->|[->| ->]]); assumption).
    assert (M0 : 0 < M) by (destruct HM as (_&_&_&[->|[->| ->]]); nra).
    clearbody m M.
    destruct (Rlt_dec 0 m) as [P|P].
    + exists m. split; [exact P|]. apply all_axes. fold ax ay az bx by_ bz. repeat split; lra.
    + exists (M / 2). split; [lra|]. apply all_axes. fold ax ay az bx by_ bz. repeat split; lra.
  - intros (t & Pt & H). apply all_axes in H. fold ax ay az bx by_ bz in H. destruct H as ((X1&X2)&(Y1&Y2)&(Z1&Z2)).
    repeat split; try lra; nra.
Qed.

(** one slab: a point of the ray inside the closed slab at [t > 0] is inside the widened parameter interval *)
Lemma slab_complete (mn mx o d t : R) : d <> 0 -> 0 < t -> mn <= o + d * t <= mx ->
  Rmin ((mn - o) / d) ((mx - o) / d) <= t < wR * Rmax ((mn - o) / d) ((mx - o) / d).
Proof.
  intros Hd Ht [H1 H2]. pose proof wR_gt1 as W.
  set (T1 := (mn - o) / d). set (T2 := (mx - o) / d).
  assert (E1 : T1 * d = mn - o) by (unfold T1; field; exact Hd).
  assert (E2 : T2 * d = mx - o) by (unfold T2; field; exact Hd).
  clearbody T1 T2.
  assert (Hc : (T1 <= t <= T2) \/ (T2 <= t <= T1)).
  { destruct (Rlt_dec 0 d); [left | right]; split; nra. }
  unfold Rmin, Rmax. destruct (Rle_dec T1 T2); destruct Hc as [[? ?]|[? ?]]; split; try lra; nra.
Qed.

Theorem complete (b : BBox R) (r : Ray R) (t : R) :
  generic_dir r -> 0 < t -> In_box b (ray_project r t) -> bbox_intersect b r (inv_dir (rdir r)) = true.
Proof.
  intros G Ht Hin. apply intersect_characterised. exists t. split; [exact Ht|].
  intros a. specialize (G a). specialize (Hin a).
  unfold t_near, t_far, t_lo, t_hi. apply slab_complete; try assumption.
  destruct a; unfold ray_project, vadd, vscale in Hin; cbn [crd vx vy vz] in *; rnum; exact Hin.
Qed.

(** one slab, soundness: a parameter inside the widened interval gives a point inside the widened slab *)
Lemma slab_sound (mn mx o d t : R) : mn <= mx -> d <> 0 -> 0 < t ->
  Rmin ((mn - o) / d) ((mx - o) / d) <= t < wR * Rmax ((mn - o) / d) ((mx - o) / d) ->
  push_lo mn o <= o + d * t <= push_hi mx o.
Proof.
  intros Hb Hd Ht. pose proof gR_pos as G. rewrite wR_eq. unfold push_lo, push_hi.
  set (T1 := (mn - o) / d). set (T2 := (mx - o) / d).
  assert (E1 : T1 * d = mn - o) by (unfold T1; field; exact Hd).
  assert (E2 : T2 * d = mx - o) by (unfold T2; field; exact Hd).
  clearbody T1 T2.
  pose proof (Rabs_pos (mn - o)) as A1. pose proof (Rabs_pos (mx - o)) as A2.
  destruct (Rlt_dec 0 d) as [Dp|Dn].
  - assert (T12 : T1 <= T2) by nra.
    rewrite Rmin_left, Rmax_right by lra. intros [L U].
    assert (T2p : 0 < T2) by nra. assert (Mp : 0 < mx - o) by nra.
    rewrite (Rabs_pos_eq (mx - o)) by lra. split; [nra|].
    assert (d * t <= (1 + 2 * gR) * (mx - o)); [|lra]. rewrite <- E2. nra.
  - assert (Dn' : d < 0) by lra. assert (T12 : T2 <= T1) by nra.
    rewrite Rmin_right, Rmax_left by lra. intros [L U].
    assert (T1p : 0 < T1) by nra. assert (Mp : mn - o < 0) by nra.
    rewrite (Rabs_left (mn - o)) by lra. split; [|nra].
    assert ((1 + 2 * gR) * (mn - o) <= d * t); [|lra]. rewrite <- E1. nra.
Qed.

Theorem sound (b : BBox R) (r : Ray R) :
  wellformed b -> generic_dir r -> bbox_intersect b r (inv_dir (rdir r)) = true ->
  exists t, 0 < t /\ In_box (widened b (rorigin r)) (ray_project r t).
Proof.
  intros Wf G H. apply intersect_characterised in H. destruct H as (t & Ht & H). exists t. split; [exact Ht|].
  intros a. specialize (G a). specialize (H a). specialize (Wf a).
  unfold t_near, t_far, t_lo, t_hi in H.
  pose proof (slab_sound _ _ _ _ _ Wf G Ht H) as S.
  destruct a; unfold widened, ray_project, vadd, vscale; cbn [crd vx vy vz bmin bmax] in *; rnum; exact S.
Qed.

(** completeness cannot be extended to [t = 0]: a ray that only touches the box at its origin
    (origin on a flat box, or on a face and leaving) is rejected *)
Lemma touching_at_origin_rejected :
  exists (b : BBox R) (r : Ray R), generic_dir r /\ wellformed b /\ In_box b (ray_project r 0) /\
    bbox_intersect b r (inv_dir (rdir r)) = false.
Proof.
  exists (mkBBox (mkV3 0 0 0) (mkV3 0 1 1)), (mkRay (mkV3 0 (/2) (/2)) (mkV3 1 1 1)).
  split; [intros []; cbn; lra|]. split; [intros []; cbn; lra|].
  split; [intros []; unfold ray_project, vadd, vscale; cbn; rnum; lra|].
  destruct (bbox_intersect _ _ _) eqn:E; [|reflexivity]. exfalso.
  apply intersect_characterised in E. destruct E as (t & Ht & H). specialize (H AX).
  unfold t_far, t_near, t_lo, t_hi in H. cbn [crd vx bmin bmax rorigin rdir] in H.
  replace ((0 - 0) / 1) with 0 in H by field. rewrite Rmax_left in H by lra. lra.
Qed.

(** non-vacuity: a concrete flat box and a ray through it *)
Lemma nonvacuous :
  let b := mkBBox (mkV3 0 0 0) (mkV3 0 1 1) in let r := mkRay (mkV3 (-1) (/2) (/4)) (mkV3 1 (/8) (/8)) in
  generic_dir r /\ wellformed b /\ 0 < 1 /\ In_box b (ray_project r 1).
Proof.
  cbv zeta. split; [intros []; cbn; lra|]. split; [intros []; cbn; lra|]. split; [lra|].
  intros []; unfold ray_project, vadd, vscale; cbn; rnum; lra.
Qed.
