(** * C19: concrete witnesses -- non-vacuity of the hypotheses, and refutations, on the real instance
    and (executed by [vm_compute]) on the primitive-float instance that runs against the crate. *)
From Coq Require Import ZArith Reals Lra Bool List Psatz Floats.
From G3 Require Import Model.Num Model.NumF Model.Base Model.Vec Model.BBox Model.Transform Model.Hit Model.Segment Model.PinnedSegment
  Model.Triangle Model.Areas Theory.RInst Proofs.C19_vec Proofs.C19_segment Proofs.C19_triangle Proofs.C19_areas.
Local Open Scope R_scope.

Lemma not_tiny_unit (a : V) : 1 <= vx a \/ 1 <= vy a \/ 1 <= vz a -> ~ tiny a.
Proof.
  intros H (A & B & C). pose proof tinyR_small. revert A B C. unfold Rabs. repeat destruct (Rcase_abs _); intros; lra.
Qed.

(** ** vectors *)
Lemma ex_parallel : vis_parallel (mkV3 1 0 0 : V) (mkV3 2 0 0) = true /\ vis_same_direction (mkV3 1 0 0 : V) (mkV3 2 0 0) = true
                    /\ vis_same_direction (mkV3 1 0 0 : V) (mkV3 (-2) 0 0) = false /\ vis_parallel (mkV3 1 0 0 : V) (mkV3 0 1 0) = false.
Proof.
  split; [|split; [|split]].
  - apply vis_parallel_spec. repeat split; try (apply not_tiny_unit; cbn [vx vy vz]; lra). unfold e5. vunf. lra.
  - apply vis_same_direction_spec. repeat split; try (apply not_tiny_unit; cbn [vx vy vz]; lra); unfold e5; vunf; lra.
  - destruct (vis_same_direction _ _) eqn:E; [|reflexivity]. apply vis_same_direction_spec in E. destruct E as (_ & _ & _ & E). revert E. vunf. lra.
  - destruct (vis_parallel _ _) eqn:E; [|reflexivity]. apply vis_parallel_spec in E. destruct E as (_ & _ & E). revert E. unfold e5. vunf. lra.
Qed.
Lemma ex_perpendicular : exists w, vget_perpendicular (mkV3 3 4 0 : V) = Ok w.
Proof.
  destruct (vget_perpendicular (mkV3 3 4 0 : V)) as [w|e|q] eqn:E; [eauto| |].
  - apply (proj2 (vget_perpendicular_err _)) in E. destruct E as (_ & A & _). exfalso. revert A. cbn [vx]. pose proof tinyR_small.
    unfold Rabs. destruct (Rcase_abs 3); lra.
  - exfalso. exact (proj1 (vget_perpendicular_err _) q E).
Qed.
(** finding F11: the parallelism tolerance is absolute; two 5 cm edges at 26.6 degrees are "same direction" *)
Definition f11_a : V := mkV3 (5/100) 0 0.
Definition f11_b : V := mkV3 (4/100) (2/100) 0.
Lemma not_tiny_cm (a : V) : 1/100 <= vx a -> ~ tiny a.
Proof. intros H (A & _). pose proof tinyR_small. revert A. unfold Rabs. destruct (Rcase_abs _); lra. Qed.
Lemma f11_parallel : vis_same_direction f11_a f11_b = true /\ vlen2 (vcross f11_a f11_b) = vlen2 f11_a * vlen2 f11_b * (1 / 5).
Proof.
  split.
  - apply vis_same_direction_spec. unfold f11_a, f11_b. repeat split; try (apply not_tiny_cm; cbn [vx]; lra); unfold e5; vunf; lra.
  - unfold f11_a, f11_b. vunf. lra.
Qed.
Definition f11_s : S := seg_new (mkV3 0 0 0) (mkV3 (5/100) 0 0).
Definition f11_r : S := seg_new (mkV3 0 (-1/100) 0) (mkV3 (4/100) (1/100) 0).
Lemma f11_refuted :
  seg_at f11_s (2/5) = seg_at f11_r (1/2) /\ crossing_window (2/5) (1/2) /\
  seg_get_intersection_pt f11_s f11_r = None /\ seg_intersect f11_s f11_r = None /\ seg_touches f11_s f11_r = None.
Proof.
  assert (G : seg_get_intersection_pt f11_s f11_r = None).
  { rewrite gip_unfold. replace (vis_same_direction _ _) with true; [reflexivity|]. symmetry.
    replace (seg_as_vec f11_s) with f11_a by (unfold f11_s, f11_a, seg_as_vec, seg_new; cbn [sstart send]; vunf; apply v3_eq; cbn [vx vy vz]; lra).
    replace (seg_as_vec f11_r) with f11_b by (unfold f11_r, f11_b, seg_as_vec, seg_new; cbn [sstart send]; vunf; apply v3_eq; cbn [vx vy vz]; lra).
    apply f11_parallel. }
  split; [|split; [|split; [exact G|]]].
  - unfold seg_at, f11_s, f11_r, seg_as_vec, seg_new. cbn [sstart send]. vunf. apply v3_eq; cbn [vx vy vz]; lra.
  - unfold crossing_window, e8. lra.
  - unfold seg_intersect, seg_touches. rewrite G. auto.
Qed.

(** ** segments: a coplanar crossing that is reported, with the right parameters *)
Definition x_s : S := seg_new (mkV3 (-1) 0 0) (mkV3 1 0 0).
Definition x_r : S := seg_new (mkV3 0 (-1) 0) (mkV3 0 3 0).
Lemma ex_crossing : seg_get_intersection_pt x_s x_r = Some (1/2, 1/4) /\ coplanar x_s x_r /\
                    seg_intersect x_s x_r = Some (mkV3 0 0 0).
Proof.
  assert (P : seg_at x_s (1/2) = seg_at x_r (1/4)).
  { unfold seg_at, x_s, x_r, seg_as_vec, seg_new. cbn [sstart send]. vunf. apply v3_eq; cbn [vx vy vz]; lra. }
  assert (G : seg_get_intersection_pt x_s x_r = Some (1/2, 1/4)).
  { apply gip_reports; [exact P | |].
    - destruct (vis_same_direction _ _) eqn:E; [|reflexivity]. apply vis_same_direction_spec in E. destruct E as (_ & _ & E & _).
      revert E. unfold x_s, x_r, seg_as_vec, seg_new, e5. cbn [sstart send]. vunf. nra.
    - left. unfold x_s, x_r, seg_normal, seg_as_vec, seg_new, e5. cbn [sstart send]. vunf. unfold Rabs. destruct (Rcase_abs _); nra. }
  split; [exact G|]. split.
  - exact (common_point_coplanar _ _ _ _ P).
  - apply seg_intersect_spec. exists (1/2), (1/4). split; [exact G|]. split; [unfold crossing_window, e8; lra|].
    unfold seg_at, x_s, seg_as_vec, seg_new. cbn [sstart send]. vunf. apply v3_eq; cbn [vx vy vz]; lra.
Qed.
Lemma ex_long : long_enough (mkV3 0 0 0 : V) (mkV3 1 2 3).
Proof. left. cbn [vx]. unfold e5, Rabs. destruct (Rcase_abs _); lra. Qed.

(** ** triangles: the unit right triangle is accepted and non-degenerate *)
Definition t_a : V := mkV3 0 0 0.
Definition t_b : V := mkV3 1 0 0.
Definition t_c : V := mkV3 0 1 0.
Lemma vcompare_far (a p : V) : 1 <= vx a - vx p \/ 1 <= vx p - vx a \/ 1 <= vy a - vy p \/ 1 <= vy p - vy a -> vcompare a p = false.
Proof.
  intros H. destruct (vcompare a p) eqn:E; [|reflexivity]. apply vcompare_spec in E. destruct E as (A & B & _). revert A B.
  unfold e5, Rabs. repeat destruct (Rcase_abs _); intros; lra.
Qed.
Lemma ex_triangle : exists t, tri_new t_a t_b t_c = Ok t /\ tri_nondeg t /\ tri_det t <> 0.
Proof.
  assert (L : vlen (vcross (vsub t_b t_a) (vsub t_c t_b)) = 1).
  { unfold vlen, t_a, t_b, t_c. vunf. transitivity (R_sqrt.sqrt 1); [f_equal; ring | apply R_sqrt.sqrt_1]. }
  destruct (tri_new_accepts t_a t_b t_c) as (t & E).
  - apply vcompare_far; unfold t_a, t_b; cbn [vx vy]; lra.
  - apply vcompare_far; unfold t_a, t_c; cbn [vx vy]; lra.
  - apply vcompare_far; unfold t_b, t_c; cbn [vx vy]; lra.
  - rewrite L. unfold e5. lra.
  - exists t. split; [exact E|]. destruct (tri_new_ok _ _ _ _ E) as (Ea & Eb & Ec & _).
    assert (N : tri_nondeg t) by (unfold tri_nondeg, tri_e1, tri_e2; rewrite Ea, Eb, Ec; unfold t_a, t_b, t_c; vunf; lra).
    split; [exact N|]. rewrite tri_det_cross. exact N.
Qed.

(** ** executed witnesses on primitive floats (what runs against the crate) *)
Local Open Scope float_scope.
Definition fs (a b c d e f : float) : Seg float := seg_new (mkV3 a b c) (mkV3 d e f).
(** F5 (fixed by ec384e6): skew segments one unit apart "crossed" at (0.5, 0, 0) in the pinned code; the live code rejects them *)
Lemma f5_float :
  seg_intersect_pinned (fs 0 0 0 1 0 0) (fs 0.5 (-1) 1 0.5 1 1) = Some (mkV3 0.5 0 0) /\
  seg_touches_pinned (fs 0 0 0 1 0 0) (fs 0.5 (-1) 1 0.5 1 1) = Some (mkV3 0.5 0 0) /\
  seg_get_intersection_pt_pinned (fs 0 0 0 1 0 0) (fs 0.5 (-1) 1 0.5 1 1) = Some (0.5, 0.5) /\
  seg_get_intersection_pt (fs 0 0 0 1 0 0) (fs 0.5 (-1) 1 0.5 1 1) = None /\
  seg_intersect (fs 0 0 0 1 0 0) (fs 0.5 (-1) 1 0.5 1 1) = None /\ seg_touches (fs 0 0 0 1 0 0) (fs 0.5 (-1) 1 0.5 1 1) = None.
Proof. repeat split; vm_compute; reflexivity. Qed.
(** F5 (fixed): common start point -- pinned: never reported; live: a touch at the common point, not a crossing *)
Lemma common_start_float :
  seg_get_intersection_pt_pinned (fs 0 0 0 1 0 0) (fs 0 0 0 0 1 0) = None /\ seg_touches_pinned (fs 0 0 0 1 0 0) (fs 0 0 0 0 1 0) = None /\
  seg_touches (fs 0 0 0 1 0 0) (fs 0 0 0 0 1 0) = Some (mkV3 0 0 0) /\ seg_intersect (fs 0 0 0 1 0 0) (fs 0 0 0 0 1 0) = None.
Proof. repeat split; vm_compute; reflexivity. Qed.
(** contains_point reads the parameter along x as soon as |dx| > EPSILON: (0,2,0) "is on" (0,0,0)-(1e-15,1,0) *)
Lemma noise_axis_float :
  seg_contains_point (fs 0 0 0 0x1.203af9ee75616p-50 1 0) (mkV3 0 2 0) = Ok true /\
  seg_contains_point (fs 0 0 0 0 1 0) (mkV3 0 2 0) = Ok false.
Proof. split; vm_compute; reflexivity. Qed.
