(** * Flat_disk: plane and disk / annulus / sector (with the generic transform wrapper), exact tier. *)
From Coq Require Import ZArith Reals Lra Bool List Psatz Nsatz.
From G3 Require Import Model.Num Model.Base Model.Vec Model.BBox Model.Transform Model.Hit Model.Plane Model.Disk
  Theory.RInst Proofs.C06_transform Proofs.Flat_base Proofs.Flat_polar Proofs.Flat_triangle.
Local Open Scope R_scope.

(** ** Plane3D *)
Definition plane_den (pl : Plane R) (ray : Ray R) : R := vdot (pl_normal pl) (rdir ray).
Definition plane_t (pl : Plane R) (ray : Ray R) : R := (pl_d pl - vdot (pl_normal pl) (rorigin ray)) / plane_den pl ray.

Lemma plane_intersect_eq (pl : Plane R) (ray : Ray R) :
  plane_intersect pl ray =
    if Rltb (Rabs (plane_den pl ray)) neps then None else if Rleb (plane_t pl ray) 0 then None else Some (plane_t pl ray).
Proof.
  unfold plane_intersect, plane_intersect_tag, plane_t, plane_den. rnum.
  repeat match goal with |- context [if ?b then _ else _] => destruct b end; reflexivity.
Qed.
Lemma vdot_project (n : V) (ray : Ray R) (t : R) : vdot n (ray_project ray t) = vdot n (rorigin ray) + t * vdot n (rdir ray).
Proof. destruct n as [nx ny nz], ray as [[ox oy oz] [dx dy dz]]. vunf. ring. Qed.

(** C02: the reported distance is > 0 (since fix fb7e7b9 the code tests [t <= 0]) and the point is on the plane *)
Lemma plane_intersect_sound (pl : Plane R) (ray : Ray R) (t : R) :
  plane_intersect pl ray = Some t ->
  0 < t /\ vdot (pl_normal pl) (ray_project ray t) = pl_d pl /\ neps <= Rabs (plane_den pl ray) /\ t = plane_t pl ray.
Proof.
  rewrite plane_intersect_eq. pose proof neps_pos as He.
  destruct (Rltb (Rabs (plane_den pl ray)) neps) eqn:B; [discriminate | apply Rltb_false in B].
  destruct (Rleb (plane_t pl ray) 0) eqn:B2; [discriminate | apply Rleb_false in B2].
  intros H. injection H as <-. repeat split; try assumption.
  rewrite vdot_project. unfold plane_t. fold (plane_den pl ray).
  assert (plane_den pl ray <> 0) by (intros E; rewrite E, Rabs_R0 in B; lra). field. assumption.
Qed.
(** C03: a crossing of the ray's line with the plane at t > 0, outside the parallel band, is reported ... *)
Lemma plane_intersect_complete (pl : Plane R) (ray : Ray R) (t : R) :
  neps <= Rabs (plane_den pl ray) -> vdot (pl_normal pl) (ray_project ray t) = pl_d pl -> 0 < t ->
  plane_intersect pl ray = Some t.
Proof.
  intros B H Ht. pose proof neps_pos as He. rewrite plane_intersect_eq.
  assert (Hd : plane_den pl ray <> 0) by (intros E; rewrite E, Rabs_R0 in B; lra).
  assert (Et : plane_t pl ray = t).
  { rewrite vdot_project in H. unfold plane_t. rewrite <- H. fold (plane_den pl ray). field. assumption. }
  rewrite Et. assert (B1 : Rltb (Rabs (plane_den pl ray)) neps = false) by (apply Rltb_false; lra).
  assert (B2 : Rleb t 0 = false) by (apply Rleb_false; lra). rewrite B1, B2. reflexivity.
Qed.
(** ... a crossing behind or AT the origin is not, nor anything in the parallel band *)
Lemma plane_intersect_behind (pl : Plane R) (ray : Ray R) (t : R) :
  vdot (pl_normal pl) (ray_project ray t) = pl_d pl -> t <= 0 -> plane_intersect pl ray = None.
Proof.
  intros H Ht. pose proof neps_pos as He. rewrite plane_intersect_eq.
  destruct (Rltb (Rabs (plane_den pl ray)) neps) eqn:B; [reflexivity | apply Rltb_false in B].
  assert (Hd : plane_den pl ray <> 0) by (intros E; rewrite E, Rabs_R0 in B; lra).
  assert (Et : plane_t pl ray = t).
  { rewrite vdot_project in H. unfold plane_t. rewrite <- H. fold (plane_den pl ray). field. assumption. }
  rewrite Et. assert (B2 : Rleb t 0 = true) by (apply Rleb_true; lra). rewrite B2. reflexivity.
Qed.
Lemma plane_intersect_parallel (pl : Plane R) (ray : Ray R) :
  Rabs (plane_den pl ray) < neps -> plane_intersect pl ray = None.
Proof. intros H. rewrite plane_intersect_eq. apply Rltb_true in H. rewrite H. reflexivity. Qed.

(** Plane3D::new: unit normal; the plane is the one through [point] perpendicular to [normal] *)
Lemma plane_new_spec (point normal : V) : vlen2 normal <> 0 ->
  let pl := plane_new point normal in
  vlen2 (pl_normal pl) = 1 /\ forall x : V, vdot (pl_normal pl) x = pl_d pl <-> vdot normal (vsub x point) = 0.
Proof.
  intros Hn pl. subst pl. unfold plane_new. cbn [pl_normal pl_d]. split; [apply vnormalize_unit; exact Hn|].
  intros x. rewrite !vnormalize_dot. pose proof (vlen_pos normal Hn) as Hl. set (l := vlen normal) in *.
  assert (E : vdot normal (vsub x point) = vdot normal x - vdot normal point)
    by (destruct normal as [nx ny nz], x as [xx xy xz], point as [px py pz]; vunf; ring).
  rewrite E. unfold Rdiv. split; intros H.
  - assert (vdot normal x * / l * l = vdot normal point * / l * l) by (rewrite H; reflexivity). field_simplify in H0; lra.
  - assert (vdot normal x = vdot normal point) by lra. rewrite H0. reflexivity.
Qed.

(** ** Disk3D *)
(** the in-plane axis a quarter turn (counter-clockwise about the normal) after phi_zero *)
Definition disk_e2 (d : Disk R) : V := vcross (dk_normal d) (dk_phi_zero d).
(** what the constructor establishes: unit normal, unit phi_zero perpendicular to it, 0 <= inner < radius *)
Record disk_wf (d : Disk R) : Prop := mk_disk_wf {
  wf_n : vlen2 (dk_normal d) = 1; wf_pz : vlen2 (dk_phi_zero d) = 1; wf_perp : vdot (dk_phi_zero d) (dk_normal d) = 0;
  wf_in : 0 <= dk_inner d; wf_r : dk_inner d < dk_radius d }.
(** the point of the disk's plane at polar coordinates (rho, phi) *)
Definition disk_point (d : Disk R) (rho phi : R) : V :=
  vadd (dk_centre d) (vadd (vscale (dk_phi_zero d) (rho * cos phi)) (vscale (disk_e2 d) (rho * sin phi))).

Lemma vnormalize_of_unit (a : V) : vlen2 a = 1 -> vnormalize a = a.
Proof.
  intros H. unfold vnormalize, vlen. rewrite H. rnum. rewrite sqrt_1. destruct a as [ax ay az]. cbn [vx vy vz].
  apply v3_eq; cbn [vx vy vz]; field.
Qed.
Lemma disk_xy_eq (d : Disk R) (p : V) :
  disk_xy d p = (vdot (vsub p (dk_centre d)) (dk_phi_zero d), vdot (vsub p (dk_centre d)) (disk_e2 d)).
Proof.
  unfold disk_xy, disk_e2. f_equal.
  destruct (vsub p (dk_centre d)) as [rx ry rz], (dk_phi_zero d) as [zx zy zz], (dk_normal d) as [nx ny nz]. vunf. ring.
Qed.
Lemma disk_phi_eq (d : Disk R) (p : V) :
  disk_phi d p = polar_phi (vdot (vsub p (dk_centre d)) (dk_phi_zero d)) (vdot (vsub p (dk_centre d)) (disk_e2 d)).
Proof. unfold disk_phi. rewrite disk_xy_eq. unfold polar_phi. rnum. reflexivity. Qed.

(** (phi_zero, e2, normal) is an orthonormal frame: a vector of the plane is x phi_zero + y e2, of squared length x^2 + y^2 *)
Lemma disk_frame (d : Disk R) (r : V) : disk_wf d -> vdot (dk_normal d) r = 0 ->
  let x := vdot r (dk_phi_zero d) in let y := vdot r (disk_e2 d) in
  r = vadd (vscale (dk_phi_zero d) x) (vscale (disk_e2 d) y) /\ vlen2 r = x * x + y * y.
Proof.
  intros [Hn Hz Hp _ _] Hr. unfold disk_e2 in *.
  destruct r as [rx ry rz], (dk_phi_zero d) as [zx zy zz], (dk_normal d) as [nx ny nz]. vunf. cbv zeta.
  split; [apply v3_eq; cbn [vx vy vz]|]; nsatz.
Qed.
Lemma disk_frame_perp (d : Disk R) : disk_wf d ->
  vdot (dk_normal d) (dk_phi_zero d) = 0 /\ vdot (dk_normal d) (disk_e2 d) = 0 /\
  vlen2 (disk_e2 d) = 1 /\ vdot (dk_phi_zero d) (disk_e2 d) = 0.
Proof.
  intros [Hn Hz Hp _ _]. unfold disk_e2 in *.
  destruct (dk_phi_zero d) as [zx zy zz], (dk_normal d) as [nx ny nz]. vunf. repeat split; nsatz.
Qed.

Lemma sqrt_between (a b s : R) : 0 <= a -> a <= b -> a * a <= s <= b * b -> a <= sqrt s <= b.
Proof.
  intros Ha Hab [H1 H2]. split.
  - rewrite <- (sqrt_square a) by assumption. apply sqrt_le_1; nra.
  - rewrite <- (sqrt_square b) by lra. apply sqrt_le_1; nra.
Qed.

Lemma disk_basic_eq (d : Disk R) (ray : Ray R) :
  disk_basic_intersection d ray =
    match plane_intersect (plane_new (dk_centre d) (dk_normal d)) ray with
    | None => None
    | Some t =>
      let phit := ray_project ray t in
      let r2 := vlen2 (vsub phit (dk_centre d)) in
      if Rltb (dk_radius d * dk_radius d) r2 || Rltb r2 (dk_inner d * dk_inner d) then None else
      if Rltb (dk_phi_max d) (disk_phi d phit) then None else Some (phit, disk_phi d phit)
    end.
Proof.
  unfold disk_basic_intersection, disk_basic_intersection_tag. rnum.
  destruct (plane_intersect _ ray); [|reflexivity]. cbv zeta.
  repeat match goal with |- context [if ?b then _ else _] => destruct b end; reflexivity.
Qed.

(** membership in the annulus sector, as the code decides it *)
Definition on_disk (d : Disk R) (p : V) : Prop :=
  vdot (dk_normal d) (vsub p (dk_centre d)) = 0 /\
  dk_inner d * dk_inner d <= vlen2 (vsub p (dk_centre d)) <= dk_radius d * dk_radius d /\
  disk_phi d p <= dk_phi_max d.
(** ... and geometrically: p = centre + rho (cos phi . phi_zero + sin phi . e2), inner <= rho <= radius, 0 <= phi <= phi_max *)
Lemma on_disk_polar (d : Disk R) (p : V) : disk_wf d -> on_disk d p ->
  exists rho, dk_inner d <= rho <= dk_radius d /\ 0 <= disk_phi d p < 2 * PI /\ disk_phi d p <= dk_phi_max d /\
    p = disk_point d rho (disk_phi d p).
Proof.
  intros W (Hpl & Hr & Hphi). pose proof W as [Hn Hz Hp Hin Hrad]. pose proof PI_RGT_0 as Hpi.
  set (r := vsub p (dk_centre d)) in *.
  destruct (disk_frame d r W Hpl) as (Er & El). cbv zeta in Er, El.
  set (x := vdot r (dk_phi_zero d)) in *. set (y := vdot r (disk_e2 d)) in *.
  assert (Ep : p = vadd (dk_centre d) r) by (subst r; destruct p as [px py pz], (dk_centre d) as [cx cy cz]; vunf; apply v3_eq; cbn [vx vy vz]; ring).
  exists (sqrt (vlen2 r)). rewrite disk_phi_eq in *. fold r x y in Hphi |- *.
  split; [apply sqrt_between; lra|].
  destruct (Req_dec x 0) as [Ex|Ex]; [destruct (Req_dec y 0) as [Ey|Ey]|].
  - (* the centre *) rewrite Ex, Ey in *. rewrite polar_phi_origin in *.
    split; [lra|]. split; [assumption|]. rewrite El. replace (0 * 0 + 0 * 0) with 0 by ring. rewrite sqrt_0.
    rewrite Ep at 1. rewrite Er. unfold disk_point. f_equal. f_equal; f_equal; ring.
  - destruct (polar_phi_spec x y (or_intror Ey)) as (Px & Py & Pb). cbv zeta in Px, Py, Pb.
    split; [assumption|]. split; [assumption|]. rewrite El. rewrite Ep at 1. rewrite Er. unfold disk_point. rewrite <- Px, <- Py. reflexivity.
  - destruct (polar_phi_spec x y (or_introl Ex)) as (Px & Py & Pb). cbv zeta in Px, Py, Pb.
    split; [assumption|]. split; [assumption|]. rewrite El. rewrite Ep at 1. rewrite Er. unfold disk_point. rewrite <- Px, <- Py. reflexivity.
Qed.

(** C02: a reported hit is on the ray at t > 0, in the disk's plane, inside the annulus and the angular range *)
Lemma disk_basic_sound (d : Disk R) (ray : Ray R) (p : V) (phi : R) : disk_wf d ->
  disk_basic_intersection d ray = Some (p, phi) ->
  (exists t, 0 < t /\ p = ray_project ray t) /\ neps <= Rabs (vdot (dk_normal d) (rdir ray)) /\
  on_disk d p /\ phi = disk_phi d p.
Proof.
  intros W. pose proof W as [Hn Hz Hp Hin Hrad]. rewrite disk_basic_eq.
  destruct (plane_intersect (plane_new (dk_centre d) (dk_normal d)) ray) as [t|] eqn:E; [|discriminate].
  apply plane_intersect_sound in E. destruct E as (Ht & Hon & Hden & _). cbv zeta.
  assert (Hn0 : vlen2 (dk_normal d) <> 0) by lra.
  destruct (plane_new_spec (dk_centre d) (dk_normal d) Hn0) as (_ & Hpl). cbv zeta in Hpl. apply Hpl in Hon.
  unfold plane_den, plane_new in Hden. cbn [pl_normal] in Hden. rewrite vnormalize_of_unit in Hden by assumption.
  destruct (Rltb (dk_radius d * dk_radius d) _) eqn:B1; [discriminate | apply Rltb_false in B1].
  destruct (Rltb _ (dk_inner d * dk_inner d)) eqn:B2; [discriminate | apply Rltb_false in B2]. cbn [orb].
  destruct (Rltb (dk_phi_max d) _) eqn:B3; [discriminate | apply Rltb_false in B3].
  intros H. injection H as <- <-. split; [exists t; split; [assumption|reflexivity]|]. split; [assumption|].
  split; [|reflexivity]. repeat split; assumption.
Qed.

(** C03: the crossing of the ray's line with the disk's plane at t > 0, outside the parallel band, inside the
    annulus sector, is reported; anything else is not *)
Lemma disk_basic_complete (d : Disk R) (ray : Ray R) (t : R) : disk_wf d ->
  neps <= Rabs (vdot (dk_normal d) (rdir ray)) -> 0 < t -> on_disk d (ray_project ray t) ->
  disk_basic_intersection d ray = Some (ray_project ray t, disk_phi d (ray_project ray t)).
Proof.
  intros W Hden Ht (Hpl & (Hr1 & Hr2) & Hphi). pose proof W as [Hn Hz Hp Hin Hrad]. rewrite disk_basic_eq.
  assert (Hn0 : vlen2 (dk_normal d) <> 0) by lra.
  destruct (plane_new_spec (dk_centre d) (dk_normal d) Hn0) as (_ & Hpln). cbv zeta in Hpln. apply Hpln in Hpl.
  rewrite (plane_intersect_complete _ ray t); try assumption.
  - cbv zeta. assert (B1 : Rltb (dk_radius d * dk_radius d) (vlen2 (vsub (ray_project ray t) (dk_centre d))) = false) by (apply Rltb_false; lra).
    assert (B2 : Rltb (vlen2 (vsub (ray_project ray t) (dk_centre d))) (dk_inner d * dk_inner d) = false) by (apply Rltb_false; lra).
    assert (B3 : Rltb (dk_phi_max d) (disk_phi d (ray_project ray t)) = false) by (apply Rltb_false; lra).
    rewrite B1, B2, B3. reflexivity.
  - unfold plane_den, plane_new. cbn [pl_normal]. rewrite vnormalize_of_unit by assumption. exact Hden.
Qed.
Lemma disk_basic_miss (d : Disk R) (ray : Ray R) (t : R) : disk_wf d ->
  vdot (dk_normal d) (vsub (ray_project ray t) (dk_centre d)) = 0 ->
  (t <= 0 \/ dk_radius d * dk_radius d < vlen2 (vsub (ray_project ray t) (dk_centre d)) \/
   vlen2 (vsub (ray_project ray t) (dk_centre d)) < dk_inner d * dk_inner d \/ dk_phi_max d < disk_phi d (ray_project ray t)) ->
  disk_basic_intersection d ray = None.
Proof.
  intros W Hpl Hout. pose proof W as [Hn Hz Hp Hin Hrad]. rewrite disk_basic_eq. pose proof neps_pos as He.
  assert (Hn0 : vlen2 (dk_normal d) <> 0) by lra.
  destruct (plane_new_spec (dk_centre d) (dk_normal d) Hn0) as (_ & Hpln). cbv zeta in Hpln. apply Hpln in Hpl.
  destruct (plane_intersect (plane_new (dk_centre d) (dk_normal d)) ray) as [t'|] eqn:E; [|reflexivity].
  pose proof E as E'. apply plane_intersect_sound in E'. destruct E' as (Ht' & Hon' & Hden & _).
  assert (Ht : 0 < t).
  { destruct (Rlt_dec 0 t); [assumption|]. rewrite (plane_intersect_behind _ ray t) in E by (try assumption; lra). discriminate. }
  rewrite (plane_intersect_complete _ ray t Hden Hpl Ht) in E. injection E as <-. cbv zeta.
  destruct Hout as [H|[H|[H|H]]]; [lra| | |].
  - apply Rltb_true in H. rewrite H. reflexivity.
  - apply Rltb_true in H. rewrite H, orb_true_r. reflexivity.
  - apply Rltb_true in H. rewrite H. destruct (_ || _); reflexivity.
Qed.
Lemma disk_basic_parallel (d : Disk R) (ray : Ray R) : disk_wf d ->
  Rabs (vdot (dk_normal d) (rdir ray)) < neps -> disk_basic_intersection d ray = None.
Proof.
  intros W H. pose proof W as [Hn Hz Hp Hin Hrad]. rewrite disk_basic_eq, plane_intersect_parallel; [reflexivity|].
  unfold plane_den, plane_new. cbn [pl_normal]. rewrite vnormalize_of_unit by assumption. exact H.
Qed.
(** the geometric reading of the sector test: a point at polar angle phi in [0, 2 pi), rho > 0, has disk_phi = phi *)
Lemma disk_phi_of_point (d : Disk R) (rho phi : R) : disk_wf d -> 0 < rho -> 0 <= phi < 2 * PI ->
  disk_phi d (disk_point d rho phi) = phi /\ vdot (dk_normal d) (vsub (disk_point d rho phi) (dk_centre d)) = 0 /\
  vlen2 (vsub (disk_point d rho phi) (dk_centre d)) = rho * rho.
Proof.
  intros W Hr Hp. destruct (disk_frame_perp d W) as (F1 & F2 & F3 & F4). pose proof W as [Hn Hz Hpp _ _].
  pose proof (sin2_cos2 phi) as H2. unfold Rsqr in H2.
  assert (Ex : vdot (vsub (disk_point d rho phi) (dk_centre d)) (dk_phi_zero d) = rho * cos phi).
  { unfold disk_point. destruct (dk_centre d) as [cx cy cz], (dk_phi_zero d) as [zx zy zz], (disk_e2 d) as [ex ey ez]. vunf. nsatz. }
  assert (Ey : vdot (vsub (disk_point d rho phi) (dk_centre d)) (disk_e2 d) = rho * sin phi).
  { unfold disk_point. destruct (dk_centre d) as [cx cy cz], (dk_phi_zero d) as [zx zy zz], (disk_e2 d) as [ex ey ez]. vunf. nsatz. }
  split; [|split].
  - rewrite disk_phi_eq, Ex, Ey. apply (polar_phi_unique _ _ rho phi); auto.
  - unfold disk_point. destruct (dk_centre d) as [cx cy cz], (dk_phi_zero d) as [zx zy zz], (disk_e2 d) as [ex ey ez], (dk_normal d) as [nx ny nz]. vunf. nsatz.
  - unfold disk_point. destruct (dk_centre d) as [cx cy cz], (dk_phi_zero d) as [zx zy zz], (disk_e2 d) as [ex ey ez]. vunf. nsatz.
Qed.

(** ** the constructor establishes [disk_wf] *)
Lemma c1em5_pos : 0 < @c1em5 R _.
Proof. unfold c1em5. rnum. apply Rdiv_lt_0_compat; apply IZR_lt; reflexivity. Qed.
Lemma ctiny_small : @ctiny R _ < / 2.
Proof. unfold ctiny. pose proof neps_small. rnum. lra. Qed.
Lemma unit_not_zero (a : V) : vlen2 a = 1 -> vis_zero a = false.
Proof.
  intros H. unfold vis_zero. rnum. pose proof ctiny_small as Hs. pose proof ctiny_pos as Hp.
  destruct (Rltb (Rabs (vx a)) ctiny) eqn:B1; [apply Rltb_true in B1 | reflexivity].
  destruct (Rltb (Rabs (vy a)) ctiny) eqn:B2; [apply Rltb_true in B2 | reflexivity].
  destruct (Rltb (Rabs (vz a)) ctiny) eqn:B3; [apply Rltb_true in B3 | reflexivity].
  exfalso. destruct a as [ax ay az]. vunf.
  assert (forall x, Rabs x < ctiny -> x * x < / 4).
  { intros x Hx. apply Rabs_def2 in Hx. nra. }
  pose proof (H0 ax B1). pose proof (H0 ay B2). pose proof (H0 az B3). lra.
Qed.
Lemma fclamp_range (x lo hi : R) : lo <= hi -> lo <= fclamp x lo hi <= hi.
Proof.
  intros H. unfold fclamp. rnum.
  destruct (Rltb x lo) eqn:B1; [apply Rltb_true in B1 | apply Rltb_false in B1];
  match goal with |- context [Rltb ?a ?b] => destruct (Rltb a b) eqn:B2; [apply Rltb_true in B2 | apply Rltb_false in B2] end; lra.
Qed.

Lemma proj_perp (n z : V) : vlen2 n = 1 ->
  let w := vsub z (vscale n (vdot n z)) in
  vlen2 w = vlen2 n * vlen2 z - vdot n z * vdot n z /\ vdot w n = 0.
Proof. destruct n as [nx ny nz], z as [zx zy zz]. vunf. intros H. cbv zeta. split; nsatz. Qed.

Lemma disk_new_detailed_wf (centre normal : V) (radius inner : R) (phi_zero : V) (phi_max : R) (tr : option T) (d : Disk R) :
  vlen2 normal <> 0 -> vis_zero phi_zero = false ->
  disk_new_detailed centre normal radius inner phi_zero phi_max tr = Ok d ->
  disk_wf d /\ dk_centre d = centre /\ dk_normal d = vnormalize normal /\ dk_radius d = radius /\ dk_inner d = inner /\
  dk_transform d = tr /\ 0 <= dk_phi_max d <= 2 * PI /\
  exists s, 0 < s /\ dk_phi_zero d = vscale (vsub phi_zero (vscale (vnormalize normal) (vdot (vnormalize normal) phi_zero))) s.
Proof.
  intros Hn Hz. unfold disk_new_detailed.
  pose proof (vnormalize_unit normal Hn) as Hu. set (n := vnormalize normal) in *.
  destruct (vis_parallel n phi_zero) eqn:Hpar; [discriminate|].
  unfold vis_parallel in Hpar. rewrite Hz, (unit_not_zero n Hu) in Hpar. cbn [orb] in Hpar. rnum. apply Rltb_false in Hpar.
  destruct (Rleb radius inner) eqn:B1; [discriminate | apply Rleb_false in B1].
  destruct (Rltb radius 0) eqn:B2; [discriminate | apply Rltb_false in B2].
  destruct (Rltb inner 0) eqn:B3; [discriminate | apply Rltb_false in B3].
  intros H. injection H as <-. cbn [dk_centre dk_normal dk_radius dk_inner dk_phi_zero dk_phi_max dk_transform].
  pose proof c1em5_pos as H5.
  set (w := vsub phi_zero (vscale n (vdot n phi_zero))) in *.
  destruct (proj_perp n phi_zero Hu) as (Hw & Hwn). cbv zeta in Hw, Hwn. fold w in Hw, Hwn.
  pose proof (vlen2_nonneg w) as Hw0.
  assert (Hwpos : vlen2 w <> 0).
  { intros E. replace (vdot n phi_zero * vdot n phi_zero - vlen2 n * vlen2 phi_zero) with (- vlen2 w) in Hpar by lra.
    rewrite E, Ropp_0, Rabs_R0 in Hpar. lra. }
  unfold disk_project_phi_zero. fold w.
  split; [|repeat split; try reflexivity].
  - constructor; cbn [dk_centre dk_normal dk_radius dk_inner dk_phi_zero dk_phi_max dk_transform]; try assumption; try lra.
    + apply vnormalize_unit; assumption.
    + rewrite vnormalize_dot, Hwn. unfold Rdiv. ring.
  - unfold to_radians. rnum. pose proof (fclamp_range phi_max 0 360 ltac:(lra)) as [F1 F2]. pose proof PI_RGT_0.
    apply Rmult_le_pos; [assumption|]. apply Rlt_le, Rdiv_lt_0_compat; lra.
  - unfold to_radians. rnum. pose proof (fclamp_range phi_max 0 360 ltac:(lra)) as [F1 F2]. pose proof PI_RGT_0.
    replace (2 * PI) with (360 * (PI / 180)) by field. apply Rmult_le_compat_r; [|assumption]. apply Rlt_le, Rdiv_lt_0_compat; lra.
  - exists (1 / vlen w). split; [|reflexivity]. apply Rdiv_lt_0_compat; [lra | apply vlen_pos; assumption].
Qed.

(** ** hit data of a disk (C13) *)
Lemma vdot_lin2 (n a b : V) (s1 s2 : R) : vdot n (vadd (vscale a s1) (vscale b s2)) = s1 * vdot n a + s2 * vdot n b.
Proof. destruct n as [nx ny nz], a as [ax ay az], b as [bx b_y bz]. vunf. ring. Qed.
Lemma disk_info_spec (d : Disk R) (ray : Ray R) (phit : V) (phi : R) (i : Info R) : disk_wf d ->
  disk_intersection_info d ray phit phi = Some i ->
  ip i = phit /\ inormal i = fst (get_side (dk_normal d) (rdir ray)) /\ iside i = snd (get_side (dk_normal d) (rdir ray)) /\
  vdot (dk_normal d) (idpdu i) = 0 /\ vdot (dk_normal d) (idpdv i) = 0.
Proof.
  intros W. destruct (disk_frame_perp d W) as (F1 & F2 & _ & _). unfold disk_intersection_info.
  destruct (get_side (dk_normal d) (rdir ray)) as [nn ss]. intros H. injection H as <-.
  cbn [ip inormal iside idpdu idpdv fst snd].
  assert (Z : vdot (dk_normal d) (vcross (dk_phi_zero d) (dk_normal d)) = 0) by (rewrite vdot_comm; apply vcross_perp_r).
  repeat split; rewrite vdot_lin2, F1, Z; ring.
Qed.

Lemma disk_local_spec (d : Disk R) (ray : Ray R) (i : Info R) : disk_wf d ->
  disk_intersect_local_ray d ray = Some i ->
  (exists t, 0 < t /\ ip i = ray_project ray t) /\ on_disk d (ip i) /\
  vdot (dk_normal d) (rdir ray) <> 0 /\
  vdot (inormal i) (rdir ray) < 0 /\ vlen2 (inormal i) = 1 /\
  vdot (inormal i) (idpdu i) = 0 /\ vdot (inormal i) (idpdv i) = 0 /\
  vdot (dk_normal d) (idpdu i) = 0 /\ vdot (dk_normal d) (idpdv i) = 0 /\
  (vdot (dk_normal d) (rdir ray) < 0 -> iside i = Front /\ inormal i = dk_normal d) /\
  (0 < vdot (dk_normal d) (rdir ray) -> iside i = Back /\ inormal i = vneg (dk_normal d)).
Proof.
  intros W. pose proof W as [Hn _ _ _ _]. unfold disk_intersect_local_ray.
  destruct (disk_basic_intersection d ray) as [[p phi]|] eqn:E; [|discriminate].
  apply disk_basic_sound in E; [|assumption]. destruct E as (Ht & Hden & Hon & _).
  intros H. apply disk_info_spec in H; [|assumption]. destruct H as (Hp & Hnn & Hs & T1 & T2).
  pose proof neps_pos as He.
  assert (Hd : vdot (dk_normal d) (rdir ray) <> 0) by (intros Z; rewrite Z, Rabs_R0 in Hden; lra).
  rewrite Hp. split; [assumption|]. split; [assumption|]. split; [assumption|].
  destruct (get_side_parallel (dk_normal d) (rdir ray)) as (s & Es & Hs1). rewrite <- Hnn in Es.
  split; [rewrite Hnn; apply get_side_faces; assumption|].
  split; [rewrite Hnn, get_side_unit by assumption; exact Hn|].
  assert (P : forall v, vdot (dk_normal d) v = 0 -> vdot (inormal i) v = 0).
  { intros v Hv. rewrite Es. destruct (dk_normal d) as [nx ny nz], v as [wx wy wz]. vunf. nra. }
  split; [apply P; assumption|]. split; [apply P; assumption|]. split; [assumption|]. split; [assumption|].
  split; intros Sg.
  - rewrite get_side_front in Hnn, Hs by assumption. auto.
  - rewrite get_side_back in Hnn, Hs by assumption. auto.
Qed.

Lemma disk_two_sided (d : Disk R) (r1 r2 : Ray R) (i1 i2 : Info R) : disk_wf d ->
  disk_intersect_local_ray d r1 = Some i1 -> disk_intersect_local_ray d r2 = Some i2 ->
  vdot (dk_normal d) (rdir r1) < 0 -> 0 < vdot (dk_normal d) (rdir r2) ->
  iside i1 = Front /\ iside i2 = Back /\ inormal i2 = vneg (inormal i1).
Proof.
  intros W H1 H2 L G. apply disk_local_spec in H1, H2; try assumption.
  destruct H1 as (_&_&_&_&_&_&_&_&_&F1&_), H2 as (_&_&_&_&_&_&_&_&_&_&B2).
  destruct (F1 L) as (S1 & N1), (B2 G) as (S2 & N2). rewrite N1, N2. auto.
Qed.

(** ** the generic wrapper: world ray -> object space by the stored inverse, hit -> world by the matrix *)
(** the local ray: direction = M^-1 d; its points map back onto the world ray, moved forward by the nudge dt >= 0 *)
Lemma inv_ray_spec (t : T) (ray : Ray R) : Inv t ->
  let r' := fst (fst (tr_inv_ray t ray)) in
  rdir r' = tr_inv_vec t (rdir ray) /\
  exists dt, 0 <= dt /\ forall s, tr_pt t (ray_project r' s) = ray_project ray (dt + s).
Proof.
  intros Hi. pose proof Hi as (A1 & A2 & A3 & A4). unfold tr_inv_ray.
  pose proof (ray_by_spec (inv_elements t) ray A4) as H. destruct (ray_by (inv_elements t) ray) as [[r' oe] de]. cbn [fst].
  destruct H as (D & dt & P & O). split; [exact D|]. exists dt. split; [exact P|]. intros s.
  unfold ray_project. rewrite O, D, vadd_assoc_scale. unfold tr_pt. rewrite pt_affine_comb by assumption.
  change (mul4x4point (elements t) (mul4x4point (inv_elements t) (rorigin ray))) with (tr_pt t (tr_inv_pt t (rorigin ray))).
  change (mul4x4vec (elements t) (mul4x4vec (inv_elements t) (rdir ray))) with (tr_vec t (tr_inv_vec t (rdir ray))).
  rewrite pt_inv_pt, vec_inv_vec by assumption. reflexivity.
Qed.

Definition disk_tr_ok (d : Disk R) : Prop := forall t, dk_transform d = Some t -> Inv t.
Definition disk_to_world (d : Disk R) (p : V) : V := match dk_transform d with Some t => tr_pt t p | None => p end.
Definition disk_rigid (d : Disk R) : Prop := forall t, dk_transform d = Some t -> rigid t.

(** C02 for [simple_intersect]: the reported world point is the image of a point of the local disk, and lies on the
    world ray at a non-negative parameter *)
Lemma disk_simple_intersect_sound (d : Disk R) (ray : Ray R) (pw : V) : disk_wf d -> disk_tr_ok d ->
  disk_simple_intersect d ray = Some pw ->
  exists pl, pw = disk_to_world d pl /\ on_disk d pl /\ exists s, 0 < s /\ pw = ray_project ray s.
Proof.
  intros W Ok. unfold disk_simple_intersect, disk_to_world, disk_simple_intersect_local_ray, disk_tr_ok in *.
  destruct (dk_transform d) as [t|] eqn:Et.
  - pose proof (inv_ray_spec t ray (Ok t eq_refl)) as (D & dt & P & Pr).
    set (r' := fst (fst (tr_inv_ray t ray))) in *.
    destruct (disk_basic_intersection d r') as [[p phi]|] eqn:E; [|discriminate].
    intros H. injection H as <-. apply disk_basic_sound in E; [|assumption]. destruct E as ((s & Hs & Hp) & _ & Hon & _).
    exists p. split; [reflexivity|]. split; [assumption|]. exists (dt + s). split; [lra|]. rewrite Hp. apply Pr.
  - pose proof (id_ray_spec ray) as (D & dt & P & O & Pr).
    set (r' := fst (fst (tr_inv_ray tr_new ray))) in *.
    destruct (disk_basic_intersection d r') as [[p phi]|] eqn:E; [|discriminate].
    intros H. injection H as <-. apply disk_basic_sound in E; [|assumption]. destruct E as ((s & Hs & Hp) & _ & Hon & _).
    exists p. split; [reflexivity|]. split; [assumption|]. exists (dt + s). split; [lra|]. rewrite Hp. apply Pr.
Qed.

(** C02 + C13 for [intersect] with a transform *)
Lemma disk_intersect_tr_spec (d : Disk R) (t : T) (ray : Ray R) (i : Info R) : disk_wf d -> dk_transform d = Some t -> Inv t ->
  disk_intersect d ray = Some i ->
  exists il, disk_intersect_local_ray d (fst (fst (tr_inv_ray t ray))) = Some il /\ i = info_transform il t /\
    on_disk d (ip il) /\ ip i = tr_pt t (ip il) /\ (exists s, 0 < s /\ ip i = ray_project ray s) /\
    vdot (inormal i) (rdir ray) < 0 /\ vdot (inormal i) (idpdu i) = 0 /\ vdot (inormal i) (idpdv i) = 0 /\
    iside i = iside il /\ (rigid t -> vlen2 (inormal i) = 1) /\
    (vdot (tr_normal t (dk_normal d)) (rdir ray) < 0 -> iside i = Front /\ inormal i = tr_normal t (dk_normal d)) /\
    (0 < vdot (tr_normal t (dk_normal d)) (rdir ray) -> iside i = Back /\ inormal i = vneg (tr_normal t (dk_normal d))).
Proof.
  intros W Et Hi. unfold disk_intersect. rewrite Et.
  pose proof (inv_ray_spec t ray Hi) as (D & dt & P & Pr). set (r' := fst (fst (tr_inv_ray t ray))) in *.
  destruct (disk_intersect_local_ray d r') as [il|] eqn:E; [|discriminate].
  intros H. injection H as <-. exists il. split; [reflexivity|]. split; [reflexivity|].
  pose proof (disk_local_spec d r' il W E) as ((s & Hs & Hp) & Hon & Hd & Hf & Hu & T1 & T2 & _ & _ & Fr & Bk).
  destruct (info_transform_spec t il (rdir ray) Hi) as (I1 & I2 & I3 & I4 & I5 & I6). cbv zeta in *.
  rewrite <- D in I5.
  split; [assumption|]. split; [assumption|]. split; [exists (dt + s); split; [lra|]; rewrite I1, Hp; apply Pr|].
  split; [rewrite I5; assumption|]. split; [rewrite I3; assumption|]. split; [rewrite I4; assumption|].
  split; [assumption|]. split; [intros Hr; rewrite (I6 Hr); assumption|].
  rewrite normal_dot_world, <- D. split; intros Sg.
  - destruct (Fr Sg) as (S1 & N1). split; [rewrite I2; assumption|]. unfold info_transform. cbn [inormal]. rewrite N1. reflexivity.
  - destruct (Bk Sg) as (S1 & N1). split; [rewrite I2; assumption|]. unfold info_transform. cbn [inormal]. rewrite N1. apply tr_normal_neg.
Qed.
Lemma disk_intersect_notr (d : Disk R) (ray : Ray R) : dk_transform d = None -> disk_intersect d ray = disk_intersect_local_ray d ray.
Proof. intros E. unfold disk_intersect. rewrite E. destruct (disk_intersect_local_ray d ray); reflexivity. Qed.

(** C03 for the wrapper: a crossing of the local ray with the local disk is reported, at the image point,
    which is the point of the world ray at parameter dt + s *)
Lemma disk_simple_intersect_complete (d : Disk R) (t : T) (ray : Ray R) (s : R) : disk_wf d -> dk_transform d = Some t -> Inv t ->
  let r' := fst (fst (tr_inv_ray t ray)) in
  neps <= Rabs (vdot (dk_normal d) (rdir r')) -> 0 < s -> on_disk d (ray_project r' s) ->
  disk_simple_intersect d ray = Some (tr_pt t (ray_project r' s)) /\
  exists dt, 0 <= dt /\ tr_pt t (ray_project r' s) = ray_project ray (dt + s).
Proof.
  intros W Et Hi r' Hden Hs Hon. unfold disk_simple_intersect, disk_simple_intersect_local_ray. rewrite Et. fold r'.
  rewrite (disk_basic_complete d r' s W Hden Hs Hon). split; [reflexivity|].
  pose proof (inv_ray_spec t ray Hi) as (D & dt & P & Pr). exists dt. split; [assumption|]. apply Pr.
Qed.
Lemma disk_simple_intersect_none (d : Disk R) (ray : Ray R) : 
  let r' := match dk_transform d with Some t => fst (fst (tr_inv_ray t ray)) | None => fst (fst (tr_inv_ray tr_new ray)) end in
  disk_basic_intersection d r' = None -> disk_simple_intersect d ray = None.
Proof. intros r' H. unfold disk_simple_intersect, disk_simple_intersect_local_ray. fold r'. rewrite H. reflexivity. Qed.
