(** * C01, geometric half: the triangles returned by [from_polygon] are the ears of an EAR DECOMPOSITION of the closed
    merged outline, hence (over the reals) their signed areas sum to the outline's signed area and their signed
    indicator functions sum to the outline's winding number; if moreover every ear has the polygon's orientation, the
    winding number COUNTS the triangles containing a point: nothing outside is covered, no two triangles overlap,
    every interior point is covered, the areas add up -- the triangles tile exactly the polygon's region.

    ** Part A (every number instance [Num K])
    [fp_loop_tr] is [fp_loop] plus a trace: the clipped ears (v0, v1, v2) in clipping order, and for every call of
    [loop_sanitize] the pair (vertex list before, vertex list after).  [fp_loop_erase]: erasing the trace gives back
    [fp_loop] (same outcome, same mesh).  [from_polygon_ears]: when the call succeeds and no recorded sanitize call
    changed the vertex list, the ears form an ear decomposition of the outline DOWN TO TWO VERTICES ([ear_decomp2];
    the code clips the last ear off a 3-vertex loop and stops at 2 vertices), the triangles of the mesh are exactly
    the ears, in push order, and there are |L| - 2 of them.  [ear_decomp2_to_ear_decomp] relates this to the
    [Cyclic.ear_decomp] of the theory library (which stops at a triangle): the two lists of ears agree up to a cyclic
    rotation of the corners of ears (only the LAST ear is actually rotated).
    General form, no hypothesis on [sanitize] ([from_polygon_clip_run]): every successful run is a sequence of ear steps
    and of recorded replacements (loop before, loop after) of the outline ([clip_run]), and the triangles of the mesh are
    exactly the ears.  [from_polygon_normals]: the stored normal of each triangle is the one computed from its corners.

    ** Part B (the reals, exact tier)
    for ANY plane frame (o, e1, e2) and the coordinates [plane2 o e1 e2] of Proofs/C05_pointtest.v (no
    orthonormality is needed for the identities; it only matters for reading [area2] as the true area):
    [ears_area_identity], [ears_winding_identity], [ears_winding_index], the reduction [ears_tiling_count] and its
    consequences [ears_tiling_outside], [ears_tiling_no_overlap], [ears_tiling_cover], [ears_area_sum];
    [negative_ear_breaks_count] shows that the reduction needs the orientation of the ears (pure geometry).
    [run_identities_general]: for EVERY successful run the two identities hold with one explicit defect term per recorded
    sanitize call (area, resp. winding number, of the loop before minus after).

    ** The orientation of the ears is PROVED (since fix 4bb2ed8 of the crate)
    The ear test of [from_polygon] now also requires the corner to be convex for the polygon's normal ([ear_convex])
    and the triangle to contain no other vertex of the loop ([ear_blocked]).  [from_polygon_ears_checked]: in every
    successful run, on every number instance, every clipped ear -- every triangle of the mesh -- is non-collinear, its
    chord was a diagonal of the loop at that moment, [ear_convex] holds and [ear_blocked] is false for the loop at that
    moment ([clip_runP (ear_ok P)]).  Over the reals, when the polygon's normal is a positive multiple of the frame
    normal e1 x e2 ([frame_normal]), [ear_convex] IS 0 < orient of the projected ear ([ear_convex_orient],
    [ears_positive]; no planarity hypothesis); hence [ears_tiling_count_proved], [ears_tile_exactly_proved],
    [ears_area_sum_proved] without any orientation hypothesis.  [ear_blocked_false], [tri_test_point_outside]: what
    [ear_blocked] = false says over the reals.  (On the pinned tree before the fix the implication "is_diagonal =>
    positively oriented ear" was false: a reversed ear was clipped at the bridge vertex of a merged hole; the
    witness [w1_poly] of Proofs/Mesh_witness.v is now the second non-vacuity example, section 5.)

    ** NOT proved (hypotheses of the theorems, see Properties/C01_tiling.v)
    - the Jordan property of the input (winding number of the merged outline in {0, 1} off the outline) is a
      hypothesis on the input polygon;
    - runs in which a periodic [sanitize] drops a vertex are excluded from the tiling statement (the hypothesis on the
      trace); there the number of triangles is smaller ([ex3_sanitize_changes], section 5) and the dropped vertex is only
      collinear up to the code's tolerance (finding C01:area-sum:collinear-tolerance).  For them only the general
      identities with the defect terms are proved; that the defect terms are small / vanish is NOT proved;
    - floating-point evaluation of the geometric predicates (part B is about the exact tier [K = R]; part A holds
      for the floats too, being purely combinatorial). *)
From Coq Require Import ZArith Reals Lra Lia Bool List Arith Psatz Ring.
From Coq Require Nsatz.
From G3 Require Import Model.Num Model.Base Model.Vec Model.Segment Model.Triangle Model.Loop Model.Polygon Model.Triangulation
  Proofs.Mesh_base Proofs.Mesh_fp.
From G3 Require Theory.Cyclic.
Import ListNotations.

(* ------------------------------------------------------------------------------------------------------------ *)
(** * 1. Ear decompositions down to two vertices (any vertex type)                                              *)
Section Ears2.
  Variable A : Type.
  Notation T3 := (A * A * A)%type.

  (** as [Cyclic.ear_decomp], but the recursion stops at a 2-vertex chain with no ear left *)
  Inductive ear_decomp2 : list A -> list T3 -> Prop :=
  | ed2_two : forall a b : A, ear_decomp2 [a; b] []
  | ed2_step : forall (pre post : list A) (v : A) (Ts : list T3),
      ear_decomp2 (pre ++ post) Ts ->
      ear_decomp2 (pre ++ v :: post) ((last (post ++ pre) v, v, hd v (post ++ pre)) :: Ts).

  Lemma ear_decomp2_length (L : list A) (Ts : list T3) : ear_decomp2 L Ts -> length L = length Ts + 2.
  Proof. intros H; induction H; [reflexivity|]. rewrite app_length in *. cbn [length] in *. lia. Qed.

  (** the step by index, neighbours by cyclic indexing *)
  Lemma ear_decomp2_idx (dflt : A) (L : list A) (i : nat) (Ts : list T3) :
    i < length L -> ear_decomp2 (Cyclic.remove_at i L) Ts ->
    ear_decomp2 L ((Cyclic.cprev dflt L i, nth i L dflt, Cyclic.cnext dflt L i) :: Ts).
  Proof.
    intros Hi H. pose proof (Cyclic.split_at dflt L Hi) as HL.
    set (pre := firstn i L) in *. set (post := skipn (S i) L) in *. set (v := nth i L dflt) in *.
    assert (Hlen : length pre = i) by (unfold pre; rewrite firstn_length; lia).
    unfold Cyclic.remove_at in H. fold pre in H. fold post in H.
    rewrite HL. rewrite <- Hlen. rewrite Cyclic.cprev_middle, Cyclic.cnext_middle. apply ed2_step. exact H.
  Qed.

  (** the step as the code takes it: the three consecutive vertices at cyclic positions a, a+1, a+2; the middle one goes *)
  Lemma anchor_split (L : list A) (a : nat) (v0 v1 v2 : A) :
    length L <> 0 ->
    nth_error L (a mod length L) = Some v0 -> nth_error L ((a + 1) mod length L) = Some v1 ->
    nth_error L ((a + 2) mod length L) = Some v2 ->
    exists pre post : list A, L = pre ++ v1 :: post /\ Cyclic.remove_at ((a + 1) mod length L) L = pre ++ post /\
      last (post ++ pre) v1 = v0 /\ hd v1 (post ++ pre) = v2.
  Proof.
    intros Hn E0 E1 E2. set (n := length L) in *.
    assert (Hi : (a + 1) mod n < n) by (apply Nat.mod_upper_bound; exact Hn).
    assert (P0 : Cyclic.cprev v0 L ((a + 1) mod n) = v0).
    { unfold Cyclic.cprev, Cyclic.cnth. fold n.
      replace ((a + 1) mod n + n - 1) with ((a + 1) mod n + (n - 1)) by lia.
      rewrite Nat.add_mod_idemp_l by exact Hn. replace (a + 1 + (n - 1)) with (a + 1 * n) by lia.
      rewrite Nat.mod_add by exact Hn. apply nth_error_nth. exact E0. }
    assert (P2 : Cyclic.cnext v0 L ((a + 1) mod n) = v2).
    { unfold Cyclic.cnext, Cyclic.cnth. fold n. rewrite Nat.add_mod_idemp_l by exact Hn.
      replace (a + 1 + 1) with (a + 2) by lia. apply nth_error_nth. exact E2. }
    pose proof (Cyclic.split_at v0 L Hi) as HL. rewrite (nth_error_nth _ _ v0 E1) in HL.
    set (pre := firstn ((a + 1) mod n) L) in *. set (post := skipn (S ((a + 1) mod n)) L) in *.
    assert (Hlen : length pre = (a + 1) mod n) by (unfold pre; rewrite firstn_length; lia).
    exists pre, post. split; [exact HL|]. split; [reflexivity|]. split.
    - rewrite <- P0. rewrite <- (Cyclic.cprev_middle v0 pre post v1). rewrite <- HL, Hlen. reflexivity.
    - rewrite <- P2. rewrite <- (Cyclic.cnext_middle v0 pre post v1). rewrite <- HL, Hlen. reflexivity.
  Qed.
  Lemma ear_decomp2_anchor (L : list A) (a : nat) (v0 v1 v2 : A) (Ts : list T3) :
    length L <> 0 ->
    nth_error L (a mod length L) = Some v0 -> nth_error L ((a + 1) mod length L) = Some v1 ->
    nth_error L ((a + 2) mod length L) = Some v2 ->
    ear_decomp2 (Cyclic.remove_at ((a + 1) mod length L) L) Ts -> ear_decomp2 L ((v0, v1, v2) :: Ts).
  Proof.
    intros Hn E0 E1 E2 H. destruct (anchor_split L a v0 v1 v2 Hn E0 E1 E2) as (pre & post & HL & HR & <- & <-).
    rewrite HR in H. rewrite HL. apply ed2_step. exact H.
  Qed.

  (** ** the general run: ear steps interleaved with arbitrary replacements of the chain (the periodic [sanitize]),
      each recorded as (chain before, chain after) *)
  Inductive clip_run : list A -> list T3 -> list (list A * list A) -> Prop :=
  | cr_two : forall a b : A, clip_run [a; b] [] []
  | cr_ear : forall (pre post : list A) (v : A) (Ts : list T3) (S : list (list A * list A)),
      clip_run (pre ++ post) Ts S ->
      clip_run (pre ++ v :: post) ((last (post ++ pre) v, v, hd v (post ++ pre)) :: Ts) S
  | cr_san : forall (l l' : list A) (Ts : list T3) (S : list (list A * list A)),
      clip_run l' Ts S -> clip_run l Ts ((l, l') :: S).
  Lemma clip_run_anchor (L : list A) (a : nat) (v0 v1 v2 : A) (Ts : list T3) (S : list (list A * list A)) :
    length L <> 0 ->
    nth_error L (a mod length L) = Some v0 -> nth_error L ((a + 1) mod length L) = Some v1 ->
    nth_error L ((a + 2) mod length L) = Some v2 ->
    clip_run (Cyclic.remove_at ((a + 1) mod length L) L) Ts S -> clip_run L ((v0, v1, v2) :: Ts) S.
  Proof.
    intros Hn E0 E1 E2 H. destruct (anchor_split L a v0 v1 v2 Hn E0 E1 E2) as (pre & post & HL & HR & <- & <-).
    rewrite HR in H. rewrite HL. apply cr_ear. exact H.
  Qed.
  (** the same, every ear step carrying a property [ok chain ear] of the chain at that moment and of the ear *)
  Inductive clip_runP (ok : list A -> T3 -> Prop) : list A -> list T3 -> list (list A * list A) -> Prop :=
  | crp_two : forall a b : A, clip_runP ok [a; b] [] []
  | crp_ear : forall (pre post : list A) (v : A) (Ts : list T3) (S : list (list A * list A)),
      ok (pre ++ v :: post) (last (post ++ pre) v, v, hd v (post ++ pre)) ->
      clip_runP ok (pre ++ post) Ts S ->
      clip_runP ok (pre ++ v :: post) ((last (post ++ pre) v, v, hd v (post ++ pre)) :: Ts) S
  | crp_san : forall (l l' : list A) (Ts : list T3) (S : list (list A * list A)),
      clip_runP ok l' Ts S -> clip_runP ok l Ts ((l, l') :: S).
  Lemma clip_runP_forget (ok : list A -> T3 -> Prop) (L : list A) (Ts : list T3) (S : list (list A * list A)) :
    clip_runP ok L Ts S -> clip_run L Ts S.
  Proof. intros H; induction H; [apply cr_two | apply cr_ear; assumption | apply cr_san; assumption]. Qed.
  Lemma clip_runP_Forall (ok : list A -> T3 -> Prop) (Q : T3 -> Prop) (L : list A) (Ts : list T3) (S : list (list A * list A)) :
    (forall l e, ok l e -> Q e) -> clip_runP ok L Ts S -> Forall Q Ts.
  Proof. intros HQ H; induction H; [constructor | constructor; [eapply HQ; eassumption | assumption] | assumption]. Qed.
  Lemma clip_runP_anchor (ok : list A -> T3 -> Prop) (L : list A) (a : nat) (v0 v1 v2 : A) (Ts : list T3) (S : list (list A * list A)) :
    length L <> 0 ->
    nth_error L (a mod length L) = Some v0 -> nth_error L ((a + 1) mod length L) = Some v1 ->
    nth_error L ((a + 2) mod length L) = Some v2 ->
    ok L (v0, v1, v2) ->
    clip_runP ok (Cyclic.remove_at ((a + 1) mod length L) L) Ts S -> clip_runP ok L ((v0, v1, v2) :: Ts) S.
  Proof.
    intros Hn E0 E1 E2 Hok H. destruct (anchor_split L a v0 v1 v2 Hn E0 E1 E2) as (pre & post & HL & HR & <- & <-).
    rewrite HR in H. rewrite HL in *. apply crp_ear; assumption.
  Qed.
  (** when no replacement changed the chain, the run is an ear decomposition *)
  Lemma clip_run_unchanged (L : list A) (Ts : list T3) (S : list (list A * list A)) :
    clip_run L Ts S -> Forall (fun p => fst p = snd p) S -> ear_decomp2 L Ts.
  Proof.
    intros H; induction H as [a b | pre post v Ts S H IH | l l' Ts S H IH]; intros F.
    - apply ed2_two.
    - apply ed2_step. apply IH. exact F.
    - inversion F; subst. cbn [fst snd] in *. subst l'. apply IH. assumption.
  Qed.

  (** ** relation to [Cyclic.ear_decomp]: the same ears up to a rotation of the corners (of the last ear) *)
  Definition trot (t t' : T3) : Prop :=
    let '(a, b, c) := t in t' = (a, b, c) \/ t' = (b, c, a) \/ t' = (c, a, b).
  Lemma trot_refl (t : T3) : trot t t. Proof. destruct t as [[a b] c]. left. reflexivity. Qed.
  Lemma Forall2_trot_refl (Ts : list T3) : Forall2 trot Ts Ts.
  Proof. induction Ts; constructor; [apply trot_refl | assumption]. Qed.

  Lemma ear_decomp2_to_ear_decomp (L : list A) (Ts : list T3) :
    ear_decomp2 L Ts -> 3 <= length L -> exists Ts', Cyclic.ear_decomp L Ts' /\ Forall2 trot Ts Ts'.
  Proof.
    intros H; induction H as [a b | pre post v Ts H IH]; intros Hlen; [cbn in Hlen; lia|].
    destruct (Nat.le_gt_cases 3 (length (pre ++ post))) as [H3|H3].
    - destruct (IH H3) as (Ts' & E & F). eexists. split; [apply Cyclic.ed_step; exact E|]. constructor; [apply trot_refl | exact F].
    - (* the last ear: pre ++ post has two vertices *)
      pose proof (ear_decomp2_length _ _ H) as HL. rewrite app_length in *. cbn [length] in Hlen.
      assert (HT : Ts = []) by (destruct Ts; [reflexivity | cbn [length] in HL; lia]). subst Ts.
      destruct pre as [|p1 [|p2 [|p3 pre]]]; cbn [length app] in *.
      + destruct post as [|x [|y [|z post]]]; cbn [length] in *; try lia.
        exists [(v, x, y)]. split; [apply Cyclic.ed_tri|]. constructor; [|constructor]. cbn. right; left; reflexivity.
      + destruct post as [|x [|y post]]; cbn [length] in *; try lia.
        exists [(p1, v, x)]. split; [apply Cyclic.ed_tri|]. constructor; [|constructor]. cbn. left; reflexivity.
      + destruct post as [|x post]; cbn [length] in *; try lia.
        exists [(p1, p2, v)]. split; [apply Cyclic.ed_tri|]. constructor; [|constructor]. cbn. right; right; reflexivity.
      + lia.
  Qed.

  (** the corners of all ears are vertices of the chain *)
  Lemma ear_decomp2_In (L : list A) (Ts : list T3) :
    ear_decomp2 L Ts -> forall a b c : A, In (a, b, c) Ts -> In a L /\ In b L /\ In c L.
  Proof.
    intros H; induction H as [x y | pre post v Ts H IH]; intros a' b' c' Hin; [destruct Hin|].
    assert (Hsub : forall x, In x (v :: post ++ pre) -> In x (pre ++ v :: post)).
    { intros x [Hx|Hx]; [subst; apply in_elt|]. apply in_app_or in Hx. apply in_or_app. destruct Hx; [right; right; assumption | left; assumption]. }
    assert (Hs2 : forall x, In x (pre ++ post) -> In x (pre ++ v :: post)).
    { intros x Hx. apply in_app_or in Hx. apply in_or_app. destruct Hx; [left; assumption | right; right; assumption]. }
    destruct Hin as [Hin|Hin].
    - inversion Hin; subst. repeat split; [apply Hsub, Cyclic.last_In | apply in_elt | apply Hsub, Cyclic.hd_In].
    - destruct (IH _ _ _ Hin) as (Ha & Hb & Hc). auto.
  Qed.
End Ears2.
Arguments ear_decomp2 {A}.
Arguments clip_run {A}.
Arguments clip_runP {A}.
Arguments trot {A}.

(** image under a map of the vertices *)
Definition map3 {A B : Type} (h : A -> B) (t : A * A * A) : B * B * B := (h (fst (fst t)), h (snd (fst t)), h (snd t)).
Lemma last_map {A B : Type} (h : A -> B) (l : list A) (d : A) : last (map h l) (h d) = h (last l d).
Proof. induction l as [|x [|y l] IH]; try reflexivity. exact IH. Qed.
Lemma hd_map {A B : Type} (h : A -> B) (l : list A) (d : A) : hd (h d) (map h l) = h (hd d l).
Proof. destruct l; reflexivity. Qed.
Lemma ear_decomp2_map {A B : Type} (h : A -> B) (L : list A) (Ts : list (A * A * A)) :
  ear_decomp2 L Ts -> ear_decomp2 (map h L) (map (map3 h) Ts).
Proof.
  intros H; induction H as [a b | pre post v Ts H IH]; [apply ed2_two|].
  rewrite map_app in *. cbn [map]. unfold map3 at 1. cbn [fst snd].
  rewrite <- last_map, <- hd_map, !map_app. apply ed2_step. exact IH.
Qed.

Definition map_pair {A B : Type} (h : A -> B) (p : list A * list A) : list B * list B := (map h (fst p), map h (snd p)).
Lemma clip_run_map {A B : Type} (h : A -> B) (L : list A) (Ts : list (A * A * A)) (S : list (list A * list A)) :
  clip_run L Ts S -> clip_run (map h L) (map (map3 h) Ts) (map (map_pair h) S).
Proof.
  intros H; induction H as [a b | pre post v Ts S H IH | l l' Ts S H IH]; [apply cr_two | | apply cr_san; exact IH].
  rewrite map_app in *. cbn [map]. unfold map3 at 1. cbn [fst snd].
  rewrite <- last_map, <- hd_map, !map_app. apply cr_ear. exact IH.
Qed.

(** sums of an antisymmetric edge functional: the chain's sum is the sum over the ears (the 2-vertex chain sums to 0) *)
Section CSum2.
  Variables (A G : Type).
  Variables (rO rI : G) (radd rmul rsub : G -> G -> G) (ropp : G -> G).
  Hypothesis Gth : ring_theory rO rI radd rmul rsub ropp (@eq G).
  Add Ring Gring2 : Gth.
  Variable f : A -> A -> G.
  Hypothesis f_anti : forall a b : A, f a b = ropp (f b a).
  Hypothesis f_self : forall a : A, f a a = rO.
  Lemma csum_ear_decomp2 (L : list A) (Ts : list (A * A * A)) :
    ear_decomp2 L Ts -> Cyclic.csum rO radd f L = Cyclic.tsum rO radd (Cyclic.tri rO radd f) Ts.
  Proof.
    intros H; induction H as [a b | pre post v Ts H IH].
    - unfold Cyclic.csum, Cyclic.edges_closed. cbn [Cyclic.edges_to hd]. rewrite !Cyclic.esum_cons, Cyclic.esum_nil, Cyclic.tsum_nil.
      rewrite (f_anti b a). ring.
    - rewrite (Cyclic.csum_remove Gth f f_anti f_self), IH, Cyclic.tsum_cons. ring.
  Qed.
  (** the general run: plus, for every recorded replacement, the difference of the two chains' sums *)
  Definition san_defect (S : list (list A * list A)) : G :=
    fold_right (fun p acc => radd (rsub (Cyclic.csum rO radd f (fst p)) (Cyclic.csum rO radd f (snd p))) acc) rO S.
  Lemma csum_clip_run (L : list A) (Ts : list (A * A * A)) (S : list (list A * list A)) :
    clip_run L Ts S -> Cyclic.csum rO radd f L = radd (Cyclic.tsum rO radd (Cyclic.tri rO radd f) Ts) (san_defect S).
  Proof.
    intros H; induction H as [a b | pre post v Ts S H IH | l l' Ts S H IH].
    - unfold Cyclic.csum, Cyclic.edges_closed, san_defect. cbn [Cyclic.edges_to hd fold_right]. rewrite !Cyclic.esum_cons, Cyclic.esum_nil, Cyclic.tsum_nil.
      rewrite (f_anti b a). ring.
    - rewrite (Cyclic.csum_remove Gth f f_anti f_self), IH, Cyclic.tsum_cons. ring.
    - unfold san_defect in *. cbn [fold_right fst snd]. rewrite IH. ring.
  Qed.
End CSum2.

(* ------------------------------------------------------------------------------------------------------------ *)
(** * 2. The instrumented clipping loop (every number instance)                                                  *)
Definition rmap {A B : Type} (g : A -> B) (r : res A) : res B :=
  match r with Ok a => Ok (g a) | Err c => Err c | Panic s => Panic s end.

Section Trace.
  Context {K : Type} {NK : Num K}.
  Notation V := (V3 K).
  Notation TP := (TriPiece K).
  Notation Mesh := (Mesh K).

  (** the trace: clipped ears in order; (vertex list before, after) of every [loop_sanitize] call in order *)
  Definition Trace : Type := (list (V * V * V) * list (list V * list V))%type.
  Definition tr_san (b : bool) (x : list V * list V) (tr : Trace) : Trace := if b then (fst tr, x :: snd tr) else tr.
  Definition tr_ear (e : V * V * V) (tr : Trace) : Trace := (e :: fst tr, snd tr).
  (** "no sanitize call changed the vertex list" *)
  Definition sanitize_unchanged (tr : Trace) : Prop := Forall (fun p => fst p = snd p) (snd tr).

  (** [fp_loop] of Model/Triangulation.v, line by line, returning the trace as well *)
  Fixpoint fp_loop_tr (P : Poly K) (fuel : nat) (count anchor : nat) (the_loop : Loop K) (t : Mesh) : res (Mesh * Trace) :=
    match fuel with
    | O => Err 100%N
    | S fuel' =>
      let count := S count in
      let san := Nat.eqb (Nat.modulo count 10) 0 in
      let before := verts the_loop in
      do the_loop <- (if Nat.eqb (Nat.modulo count 10) 0 then loop_sanitize the_loop else Ok the_loop);
      let rec_san := tr_san san (before, verts the_loop) in
      let n := llen the_loop in
      let last_added := n_triangles t in
      if Nat.eqb n 2 then
        let '(t', r) := mark_neighbourhouds t in
        do _ <- r; Ok (t', rec_san ([], []))
      else
      if Nat.eqb n 0 then Panic 93%N else
      do v0 <- loop_index the_loop (Nat.modulo anchor n);
      do v1 <- loop_index the_loop (Nat.modulo (anchor + 1) n);
      do v2 <- loop_index the_loop (Nat.modulo (anchor + 2) n);
      let potential_diag := seg_new v0 v2 in
      do is_line <- is_collinear v0 v1 v2;
      do is_diagonal <- loop_is_diagonal the_loop potential_diag;
      do is_ear <- ear_test P the_loop v0 v1 v2 is_line is_diagonal;
      if is_ear then
        let '(t1, r) := mesh_push v0 v1 v2 last_added t in
        do _ <- r;
        let c (s : Seg K) (e : Edge) (m : Mesh) : Mesh * res unit :=
          if poly_contains_segment P s then mupd 95%N last_added (tp_constrain e) m else (m, Ok tt) in
        let '(t2, r) := c (seg_new v0 v1) Ab t1 in do _ <- r;
        let '(t3, r) := c (seg_new v1 v2) Bc t2 in do _ <- r;
        let '(t4, r) := c (seg_new v2 v0) Ca t3 in do _ <- r;
        do the_loop' <- loop_remove the_loop (Nat.modulo (anchor + 1) n);
        do R <- fp_loop_tr P fuel' count anchor the_loop' t4;
        Ok (fst R, rec_san (tr_ear (v0, v1, v2) (snd R)))
      else
        do R <- fp_loop_tr P fuel' count (S anchor) the_loop t;
        Ok (fst R, rec_san (snd R))
    end.
  Definition from_polygon_tr (P : Poly K) : res (Mesh * Trace) :=
    do the_loop <- poly_get_closed_loop P;
    let '(the_loop, r) := loop_close the_loop in
    do _ <- r;
    if Nat.ltb (llen the_loop) 2 then Panic 92%N else
    fp_loop_tr P MAX_ITER 0 0 the_loop mesh_new.

  (** ** (i) erasure: forgetting the trace gives the modelled function *)
  Lemma fp_loop_erase (P : Poly K) : forall (fuel count anchor : nat) (L : Loop K) (t : Mesh),
    fp_loop P fuel count anchor L t = rmap fst (fp_loop_tr P fuel count anchor L t).
  Proof.
    induction fuel as [|fuel IH]; intros count anchor L t; [reflexivity|]. cbn [fp_loop fp_loop_tr].
    destruct (if Nat.eqb (Nat.modulo (S count) 10) 0 then loop_sanitize L else Ok L) as [L1| |]; cbn [rbind rmap]; try reflexivity.
    destruct (Nat.eqb (llen L1) 2).
    { destruct (mark_neighbourhouds t) as [t' [[]| |]]; reflexivity. }
    destruct (Nat.eqb (llen L1) 0); [reflexivity|].
    destruct (loop_index L1 (Nat.modulo anchor (llen L1))) as [v0| |]; cbn [rbind rmap]; try reflexivity.
    destruct (loop_index L1 (Nat.modulo (anchor + 1) (llen L1))) as [v1| |]; cbn [rbind rmap]; try reflexivity.
    destruct (loop_index L1 (Nat.modulo (anchor + 2) (llen L1))) as [v2| |]; cbn [rbind rmap]; try reflexivity.
    destruct (is_collinear v0 v1 v2) as [is_line| |]; cbn [rbind rmap]; try reflexivity.
    destruct (loop_is_diagonal L1 (seg_new v0 v2)) as [is_diag| |]; cbn [rbind rmap]; try reflexivity.
    destruct (ear_test P L1 v0 v1 v2 is_line is_diag) as [is_ear| |]; cbn [rbind rmap]; try reflexivity.
    destruct is_ear.
    - destruct (mesh_push v0 v1 v2 (n_triangles t) t) as [t1 [n1| |]]; cbn [rbind rmap]; try reflexivity.
      destruct (if poly_contains_segment P (seg_new v0 v1) then mupd 95%N (n_triangles t) (tp_constrain Ab) t1 else (t1, Ok tt)) as [t2 [[]| |]];
        cbn [rbind rmap]; try reflexivity.
      destruct (if poly_contains_segment P (seg_new v1 v2) then mupd 95%N (n_triangles t) (tp_constrain Bc) t2 else (t2, Ok tt)) as [t3 [[]| |]];
        cbn [rbind rmap]; try reflexivity.
      destruct (if poly_contains_segment P (seg_new v2 v0) then mupd 95%N (n_triangles t) (tp_constrain Ca) t3 else (t3, Ok tt)) as [t4 [[]| |]];
        cbn [rbind rmap]; try reflexivity.
      destruct (loop_remove L1 (Nat.modulo (anchor + 1) (llen L1))) as [L2| |]; cbn [rbind rmap]; try reflexivity.
      rewrite IH. destruct (fp_loop_tr P fuel (S count) anchor L2 t4) as [[M tr]| |]; reflexivity.
    - rewrite IH. destruct (fp_loop_tr P fuel (S count) (S anchor) L1 t) as [[M tr]| |]; reflexivity.
  Qed.
  Theorem from_polygon_erase (P : Poly K) : from_polygon P = rmap fst (from_polygon_tr P).
  Proof.
    unfold from_polygon, from_polygon_tr. destruct (poly_get_closed_loop P) as [Lm| |]; cbn [rbind rmap]; try reflexivity.
    destruct (loop_close Lm) as [L [[]| |]]; cbn [rbind rmap]; try reflexivity.
    destruct (Nat.ltb (llen L) 2); [reflexivity|]. apply fp_loop_erase.
  Qed.
  (** every successful call has a trace, every traced success is a success of the modelled function with the same mesh *)
  Corollary from_polygon_has_trace (P : Poly K) (M : Mesh) :
    from_polygon P = Ok M <-> exists tr : Trace, from_polygon_tr P = Ok (M, tr).
  Proof.
    rewrite from_polygon_erase. destruct (from_polygon_tr P) as [[M' tr]| |]; cbn [rmap fst]; split.
    - intros H; inversion H; subst. exists tr. reflexivity.
    - intros [tr' H]. inversion H; subst. reflexivity.
    - discriminate.
    - intros [tr' H]; discriminate.
    - discriminate.
    - intros [tr' H]; discriminate.
  Qed.

  (** ** (ii) the run is an ear decomposition *)
  Definition tri3 (t : TP) : V * V * V := (ta (tp_tri t), tb (tp_tri t), tc (tp_tri t)).
  Lemma Rtri_tri3 (M M' : Mesh) : Rtri M M' -> map tri3 (tris M') = map tri3 (tris M).
  Proof.
    unfold Rtri. intros H. change tri3 with (fun t : TP => (fun u : Tri K => (ta u, tb u, tc u)) (tp_tri t)).
    rewrite <- !(map_map tp_tri (fun u : Tri K => (ta u, tb u, tc u))). rewrite H. reflexivity.
  Qed.
  Lemma remove_nth_remove_at (i : nat) (l : list V) : remove_nth i l = Cyclic.remove_at i l.
  Proof. revert i; induction l as [|x l IH]; intros [|i]; try reflexivity. unfold Cyclic.remove_at in *. cbn [remove_nth firstn skipn app]. rewrite IH. reflexivity. Qed.
  Lemma loop_index_nth (L : Loop K) (i : nat) (v : V) : loop_index L i = Ok v -> nth_error (verts L) i = Some v.
  Proof. unfold loop_index. destruct (nth_error (verts L) i); [|discriminate]. intros H; inversion H; reflexivity. Qed.

  (** what the code has checked of an ear (v0, v1, v2) clipped off the loop with vertex list l (since fix 4bb2ed8):
      not collinear, the chord is a diagonal of the loop, the corner is convex for the polygon's normal, the triangle
      can be built and no other vertex of the loop lies in it *)
  Definition ear_ok (P : Poly K) (l : list V) (e : V * V * V) : Prop :=
    let '(v0, v1, v2) := e in
    is_collinear v0 v1 v2 = Ok false /\
    (exists Lp : Loop K, verts Lp = l /\ loop_is_diagonal Lp (seg_new v0 v2) = Ok true) /\
    ear_convex P v0 v1 v2 = true /\
    (exists ear : Tri K, tri_new v0 v1 v2 = Ok ear /\ ear_blocked ear v0 v1 v2 l = false).
  Lemma ear_test_true (P : Poly K) (L : Loop K) (v0 v1 v2 : V) (is_line is_diag : bool) :
    ear_test P L v0 v1 v2 is_line is_diag = Ok true ->
    is_line = false /\ is_diag = true /\ ear_convex P v0 v1 v2 = true /\
    exists ear : Tri K, tri_new v0 v1 v2 = Ok ear /\ ear_blocked ear v0 v1 v2 (verts L) = false.
  Proof.
    unfold ear_test. destruct is_line, is_diag; cbn [negb andb]; try discriminate.
    destruct (ear_convex P v0 v1 v2); cbn [negb]; [|discriminate].
    destruct (tri_new v0 v1 v2) as [ear| |]; cbn [rbind]; try discriminate.
    destruct (ear_blocked ear v0 v1 v2 (verts L)) eqn:Eb; cbn [negb]; [discriminate|]. intros _.
    repeat split. exists ear. split; [reflexivity | exact Eb].
  Qed.

  (** [ear_blocked] = false: every vertex of the loop is one of the three corners (for Point3D::compare) or is
      classified Outside by the triangle's point test *)
  Lemma ear_blocked_false (ear : Tri K) (v0 v1 v2 : V) (l : list V) :
    ear_blocked ear v0 v1 v2 l = false <->
    forall p, In p l -> (vcompare p v0 || vcompare p v1 || vcompare p v2) = true \/ tri_test_point ear p = Outside.
  Proof.
    induction l as [|x l IH]; cbn [ear_blocked]; [split; [intros _ p [] | reflexivity]|].
    destruct (vcompare x v0 || vcompare x v1 || vcompare x v2) eqn:Ec.
    - rewrite IH. split; [intros H p [<-|Hp]; [left; exact Ec | apply H; exact Hp] | intros H p Hp; apply H; right; exact Hp].
    - destruct (tri_test_point ear x) eqn:Et; try (split; [discriminate | intros H; destruct (H x (or_introl eq_refl)) as [H'|H']; congruence]).
      rewrite IH. split; [intros H p [<-|Hp]; [right; exact Et | apply H; exact Hp] | intros H p Hp; apply H; right; exact Hp].
  Qed.

  (** the run, whatever [sanitize] does: ear steps and recorded replacements; the mesh receives exactly the ears.
      (The pushes EXTEND the triangle list: [push] is called with last_added = n_triangles, so [get_first_invalid]
      starts beyond the last slot and finds nothing, whatever the validity flags -- [push_at_end] of Proofs/Mesh_fp.v.) *)
  Lemma fp_loop_tr_run (P : Poly K) : forall (fuel count anchor : nat) (L : Loop K) (t M : Mesh) (tr : Trace),
    fp_loop_tr P fuel count anchor L t = Ok (M, tr) ->
    clip_runP (ear_ok P) (verts L) (fst tr) (snd tr) /\ map tri3 (tris M) = map tri3 (tris t) ++ fst tr.
  Proof.
    induction fuel as [|fuel IH]; intros count anchor L t M tr H; cbn [fp_loop_tr] in H; [discriminate|].
    (* the sanitize step is recorded *)
    assert (Hsan : forall (L1 : Loop K) (tr' : Trace),
               (if Nat.eqb (Nat.modulo (S count) 10) 0 then loop_sanitize L else Ok L) = Ok L1 ->
               tr = tr_san (Nat.eqb (Nat.modulo (S count) 10) 0) (verts L, verts L1) tr' ->
               fst tr = fst tr' /\ (clip_runP (ear_ok P) (verts L1) (fst tr') (snd tr') -> clip_runP (ear_ok P) (verts L) (fst tr) (snd tr))).
    { intros L1 tr' E1 Et. unfold tr_san in Et. destruct (Nat.eqb (Nat.modulo (S count) 10) 0).
      - subst tr. cbn [fst snd]. split; [reflexivity|]. apply crp_san.
      - inversion E1; subst. split; [reflexivity | exact (fun x => x)]. }
    destruct (if Nat.eqb (Nat.modulo (S count) 10) 0 then loop_sanitize L else Ok L) as [L1| |] eqn:EL1; cbn [rbind] in H; try discriminate.
    specialize (Hsan L1).
    destruct (Nat.eqb (llen L1) 2) eqn:E2.
    { destruct (mark_neighbourhouds t) as [t' r] eqn:Em. destruct r as [[]| |]; cbn [rbind] in H; try discriminate.
      injection H as EM Et; subst t'. destruct (Hsan ([], []) eq_refl (eq_sym Et)) as (Ef & Hc).
      split.
      - apply Hc. cbn [fst snd]. apply Nat.eqb_eq in E2. unfold llen in E2. destruct (verts L1) as [|a [|b [|c l]]]; try discriminate. apply crp_two.
      - rewrite Ef. cbn [fst]. rewrite app_nil_r. apply Rtri_tri3. eapply rtri_neighbourhouds. exact Em. }
    destruct (Nat.eqb (llen L1) 0) eqn:E0; [discriminate|]. apply Nat.eqb_neq in E0.
    destruct (loop_index L1 (Nat.modulo anchor (llen L1))) as [v0| |] eqn:Ev0; cbn [rbind] in H; try discriminate.
    destruct (loop_index L1 (Nat.modulo (anchor + 1) (llen L1))) as [v1| |] eqn:Ev1; cbn [rbind] in H; try discriminate.
    destruct (loop_index L1 (Nat.modulo (anchor + 2) (llen L1))) as [v2| |] eqn:Ev2; cbn [rbind] in H; try discriminate.
    destruct (is_collinear v0 v1 v2) as [is_line| |] eqn:Eline; cbn [rbind] in H; try discriminate.
    destruct (loop_is_diagonal L1 (seg_new v0 v2)) as [is_diag| |] eqn:Ediag; cbn [rbind] in H; try discriminate.
    destruct (ear_test P L1 v0 v1 v2 is_line is_diag) as [is_ear| |] eqn:Etest; cbn [rbind] in H; try discriminate.
    destruct is_ear.
    - destruct (mesh_push v0 v1 v2 (n_triangles t) t) as [t1 r] eqn:Ep. destruct r as [n1| |]; cbn [rbind] in H; try discriminate.
      unfold n_triangles in Ep. apply push_at_end in Ep. destruct Ep as (tp & Etp & Ea & Eb & Ec).
      assert (Hc : forall (sg : Seg K) (e : Edge) (m m' : Mesh) (r : res unit),
                 (if poly_contains_segment P sg then mupd 95%N (n_triangles t) (tp_constrain e) m else (m, Ok tt)) = (m', r) -> Rtri m m').
      { intros sg e m m' r Hm. destruct (poly_contains_segment P sg); [|inversion Hm; subst; reflexivity].
        eapply rtri_mupd; [intros ?; apply constrain_tri | exact Hm]. }
      destruct (if poly_contains_segment P (seg_new v0 v1) then mupd 95%N (n_triangles t) (tp_constrain Ab) t1 else (t1, Ok tt)) as [t2 r2] eqn:Ec2.
      apply Hc in Ec2. destruct r2 as [[]| |]; cbn [rbind] in H; try discriminate.
      destruct (if poly_contains_segment P (seg_new v1 v2) then mupd 95%N (n_triangles t) (tp_constrain Bc) t2 else (t2, Ok tt)) as [t3 r3] eqn:Ec3.
      apply Hc in Ec3. destruct r3 as [[]| |]; cbn [rbind] in H; try discriminate.
      destruct (if poly_contains_segment P (seg_new v2 v0) then mupd 95%N (n_triangles t) (tp_constrain Ca) t3 else (t3, Ok tt)) as [t4 r4] eqn:Ec4.
      apply Hc in Ec4. destruct r4 as [[]| |]; cbn [rbind] in H; try discriminate.
      destruct (loop_remove L1 (Nat.modulo (anchor + 1) (llen L1))) as [L2| |] eqn:Er; cbn [rbind] in H; try discriminate.
      destruct (fp_loop_tr P fuel (S count) anchor L2 t4) as [[M' tr']| |] eqn:Erec; cbn [rbind fst snd] in H; try discriminate.
      injection H as EM0 Et; subst M'. destruct (Hsan (tr_ear (v0, v1, v2) tr') eq_refl (eq_sym Et)) as (Ef & Hcr).
      unfold tr_ear in Ef, Hcr. cbn [fst snd] in Ef, Hcr.
      destruct (IH _ _ _ _ _ _ Erec) as (D & EM). split.
      + apply Hcr. unfold loop_remove in Er. destruct (Nat.ltb _ _); [|discriminate]. inversion Er; subst L2. cbn [verts set_verts] in D.
        rewrite remove_nth_remove_at in D. unfold llen in *.
        apply (clip_runP_anchor V (ear_ok P) (verts L1) anchor); [exact E0 | apply loop_index_nth; exact Ev0 | apply loop_index_nth; exact Ev1 | apply loop_index_nth; exact Ev2 | | exact D].
        apply ear_test_true in Etest. destruct Etest as (-> & -> & Hcv & Hbl). unfold ear_ok.
        split; [exact Eline|]. split; [exists L1; split; [reflexivity | exact Ediag]|]. split; assumption.
      + rewrite Ef, EM. rewrite (Rtri_tri3 _ _ Ec4), (Rtri_tri3 _ _ Ec3), (Rtri_tri3 _ _ Ec2), Etp, map_app, <- app_assoc. cbn [map app].
        unfold tri3 at 2. rewrite Ea, Eb, Ec. reflexivity.
    - destruct (fp_loop_tr P fuel (S count) (S anchor) L1 t) as [[M' tr']| |] eqn:Erec; cbn [rbind fst snd] in H; try discriminate.
      injection H as EM0 Et; subst M'. destruct (Hsan tr' eq_refl (eq_sym Et)) as (Ef & Hcr).
      destruct (IH _ _ _ _ _ _ Erec) as (D & EM). split; [apply Hcr; exact D | rewrite Ef; exact EM].
  Qed.
  Lemma fp_loop_tr_spec (P : Poly K) : forall (fuel count anchor : nat) (L : Loop K) (t M : Mesh) (tr : Trace),
    fp_loop_tr P fuel count anchor L t = Ok (M, tr) -> sanitize_unchanged tr ->
    ear_decomp2 (verts L) (fst tr) /\ map tri3 (tris M) = map tri3 (tris t) ++ fst tr.
  Proof.
    intros fuel count anchor L t M tr H Hs. destruct (fp_loop_tr_run P _ _ _ _ _ _ _ H) as (D & EM). split; [|exact EM].
    eapply clip_run_unchanged; [eapply clip_runP_forget; exact D | exact Hs].
  Qed.

  (** ** the general form (any behaviour of [sanitize]): ear steps and recorded replacements of the loop *)
  Theorem from_polygon_clip_runP (P : Poly K) (M : Mesh) (tr : Trace) :
    from_polygon_tr P = Ok (M, tr) ->
    exists Lm : Loop K, poly_get_closed_loop P = Ok Lm /\ snd (loop_close Lm) = Ok tt /\
      clip_runP (ear_ok P) (verts (fst (loop_close Lm))) (fst tr) (snd tr) /\ map tri3 (tris M) = fst tr.
  Proof.
    unfold from_polygon_tr. destruct (poly_get_closed_loop P) as [Lm| |]; cbn [rbind]; try discriminate.
    destruct (loop_close Lm) as [L r] eqn:Ec. destruct r as [[]| |]; cbn [rbind]; try discriminate.
    destruct (Nat.ltb (llen L) 2); [discriminate|]. intros H. exists Lm. split; [reflexivity|]. rewrite Ec. cbn [fst snd]. split; [reflexivity|].
    destruct (fp_loop_tr_run P _ _ _ _ _ _ _ H) as (D & EM). cbn [mesh_new tris map app] in EM. split; assumption.
  Qed.
  Theorem from_polygon_clip_run (P : Poly K) (M : Mesh) (tr : Trace) :
    from_polygon_tr P = Ok (M, tr) ->
    exists Lm : Loop K, poly_get_closed_loop P = Ok Lm /\ snd (loop_close Lm) = Ok tt /\
      clip_run (verts (fst (loop_close Lm))) (fst tr) (snd tr) /\ map tri3 (tris M) = fst tr.
  Proof.
    intros H. destruct (from_polygon_clip_runP P M tr H) as (Lm & H1 & H2 & D & EM). exists Lm. repeat split; try assumption.
    eapply clip_runP_forget. exact D.
  Qed.
  (** ** every clipped ear passed the ear test (fix 4bb2ed8): in any successful run, every ear of the trace -- every triangle
      of the mesh -- is non-collinear, its chord was a diagonal of the loop at that moment, its corner is convex for the
      polygon's normal, and no other vertex of the loop at that moment lies in it *)
  Theorem from_polygon_ears_checked (P : Poly K) (M : Mesh) (tr : Trace) :
    from_polygon_tr P = Ok (M, tr) -> Forall (fun e => exists l : list V, ear_ok P l e) (fst tr).
  Proof.
    intros H. destruct (from_polygon_clip_runP P M tr H) as (Lm & _ & _ & D & _).
    eapply clip_runP_Forall; [|exact D]. intros l e Hok. exists l. exact Hok.
  Qed.
  Theorem from_polygon_ears_convex (P : Poly K) (M : Mesh) :
    from_polygon P = Ok M ->
    Forall (fun t => ear_convex P (ta (tp_tri t)) (tb (tp_tri t)) (tc (tp_tri t)) = true) (tris M).
  Proof.
    intros H. apply from_polygon_has_trace in H. destruct H as [tr H].
    destruct (from_polygon_clip_runP P M tr H) as (Lm & _ & _ & D & EM).
    assert (F : Forall (fun e : V * V * V => ear_convex P (fst (fst e)) (snd (fst e)) (snd e) = true) (fst tr)).
    { eapply clip_runP_Forall; [|exact D]. intros l [[v0 v1] v2] (_ & _ & Hc & _). exact Hc. }
    rewrite <- EM in F. rewrite Forall_map in F. exact F.
  Qed.

  (** ** Theorem A: a successful, sanitize-stable [from_polygon] is an ear decomposition of the closed merged outline *)
  Theorem from_polygon_ears (P : Poly K) (M : Mesh) (tr : Trace) :
    from_polygon_tr P = Ok (M, tr) -> sanitize_unchanged tr ->
    exists Lm : Loop K, poly_get_closed_loop P = Ok Lm /\ snd (loop_close Lm) = Ok tt /\
      let L := fst (loop_close Lm) in
      ear_decomp2 (verts L) (fst tr) /\
      map tri3 (tris M) = fst tr /\
      length (tris M) + 2 = llen L /\
      (3 <= llen L -> exists Ts', Cyclic.ear_decomp (verts L) Ts' /\ Forall2 trot (fst tr) Ts').
  Proof.
    unfold from_polygon_tr. destruct (poly_get_closed_loop P) as [Lm| |]; cbn [rbind]; try discriminate.
    destruct (loop_close Lm) as [L r] eqn:Ec. destruct r as [[]| |]; cbn [rbind]; try discriminate.
    destruct (Nat.ltb (llen L) 2); [discriminate|]. intros H Hs. exists Lm. split; [reflexivity|]. rewrite Ec. cbn [fst snd]. split; [reflexivity|].
    destruct (fp_loop_tr_spec P _ _ _ _ _ _ _ H Hs) as (D & EM). cbn [mesh_new tris map app] in EM.
    split; [exact D|]. split; [exact EM|]. split.
    - pose proof (ear_decomp2_length _ _ _ D) as HL. unfold llen. rewrite HL, <- EM, map_length. reflexivity.
    - intros H3. apply ear_decomp2_to_ear_decomp; assumption.
  Qed.
  (** the same, starting from the modelled function *)
  Corollary from_polygon_ok_ears (P : Poly K) (M : Mesh) :
    from_polygon P = Ok M ->
    exists tr : Trace, from_polygon_tr P = Ok (M, tr) /\
      (sanitize_unchanged tr ->
       exists Lm : Loop K, poly_get_closed_loop P = Ok Lm /\ snd (loop_close Lm) = Ok tt /\
         let L := fst (loop_close Lm) in
         ear_decomp2 (verts L) (map tri3 (tris M)) /\ length (tris M) + 2 = llen L).
  Proof.
    intros H. apply from_polygon_has_trace in H. destruct H as [tr H]. exists tr. split; [exact H|]. intros Hs.
    destruct (from_polygon_ears P M tr H Hs) as (Lm & H1 & H2 & D & EM & HL & _). exists Lm. rewrite EM. repeat split; assumption.
  Qed.

  (** ** packaging: the closed merged outline of a polygon; a successful run none of whose sanitize calls changed the loop *)
  Definition outline_of (P : Poly K) (L : Loop K) : Prop :=
    exists Lm : Loop K, poly_get_closed_loop P = Ok Lm /\ snd (loop_close Lm) = Ok tt /\ L = fst (loop_close Lm).
  Definition stable_run (P : Poly K) (M : Mesh) : Prop :=
    exists tr : Trace, from_polygon_tr P = Ok (M, tr) /\ sanitize_unchanged tr.
  Lemma stable_run_ok (P : Poly K) (M : Mesh) : stable_run P M -> from_polygon P = Ok M.
  Proof. intros (tr & H & _). apply from_polygon_has_trace. exists tr. exact H. Qed.
  Lemma stable_run_outline (P : Poly K) (M : Mesh) : stable_run P M -> exists L, outline_of P L.
  Proof. intros (tr & H & Hs). destruct (from_polygon_ears P M tr H Hs) as (Lm & H1 & H2 & _). exists (fst (loop_close Lm)), Lm. repeat split; assumption. Qed.
  Theorem stable_run_ears (P : Poly K) (M : Mesh) (L : Loop K) :
    stable_run P M -> outline_of P L ->
    ear_decomp2 (verts L) (map tri3 (tris M)) /\ length (tris M) + 2 = llen L.
  Proof.
    intros (tr & H & Hs) (Lm & E1 & E2 & EL). destruct (from_polygon_ears P M tr H Hs) as (Lm' & H1 & H2 & D & EM & HL & _).
    rewrite E1 in H1. injection H1 as <-. subst L. rewrite EM. split; assumption.
  Qed.

  (** ** the stored normal of every triangle of a successful [from_polygon] is the one [Triangle3D::new] computes from its corners *)
  Definition normal_ok (u : Tri K) : Prop := tnormal u = tri_normal_of (ta u) (tb u) (tc u).
  Lemma push_at_end_normal (a b c : V) (M M' : Mesh) (n : nat) :
    mesh_push a b c (length (tris M)) M = (M', Ok n) -> exists t, tris M' = tris M ++ [t] /\ normal_ok (tp_tri t).
  Proof.
    unfold mesh_push, get_first_invalid. rewrite Nat.ltb_irrefl.
    destruct (tp_new a b c (length (tris M))) as [t| |] eqn:E; intros H; inversion H; subst.
    exists t. split; [reflexivity|]. unfold tp_new in E. destruct (tri_new a b c) as [u| |] eqn:E'; cbn [rbind] in E; try discriminate.
    inversion E; subst. cbn [tp_tri]. unfold tri_new in E'. destruct (_ || _); [discriminate|].
    destruct (unwrap _ _) as [col| |]; cbn [rbind] in E'; try discriminate. destruct col; [discriminate|]. inversion E'; subst. reflexivity.
  Qed.
  Lemma fp_loop_normals (P : Poly K) : forall (fuel count anchor : nat) (L : Loop K) (t M : Mesh),
    fp_loop P fuel count anchor L t = Ok M -> Forall (fun x => normal_ok (tp_tri x)) (tris t) -> Forall (fun x => normal_ok (tp_tri x)) (tris M).
  Proof.
    induction fuel as [|fuel IH]; intros count anchor L t M H Ht; cbn [fp_loop] in H; [discriminate|].
    destruct (if Nat.eqb (Nat.modulo (S count) 10) 0 then loop_sanitize L else Ok L) as [L1| |]; cbn [rbind] in H; try discriminate.
    destruct (Nat.eqb (llen L1) 2).
    { destruct (mark_neighbourhouds t) as [t' r] eqn:Em. destruct r; cbn [rbind] in H; try discriminate. inversion H; subst t'.
      apply rtri_neighbourhouds in Em. eapply (Forall_map_tri normal_ok); [exact Em | exact Ht]. }
    destruct (Nat.eqb (llen L1) 0); [discriminate|].
    destruct (loop_index L1 (Nat.modulo anchor (llen L1))) as [v0| |]; cbn [rbind] in H; try discriminate.
    destruct (loop_index L1 (Nat.modulo (anchor + 1) (llen L1))) as [v1| |]; cbn [rbind] in H; try discriminate.
    destruct (loop_index L1 (Nat.modulo (anchor + 2) (llen L1))) as [v2| |]; cbn [rbind] in H; try discriminate.
    destruct (is_collinear v0 v1 v2) as [is_line| |]; cbn [rbind] in H; try discriminate.
    destruct (loop_is_diagonal L1 (seg_new v0 v2)) as [is_diag| |]; cbn [rbind] in H; try discriminate.
    destruct (ear_test P L1 v0 v1 v2 is_line is_diag) as [is_ear| |]; cbn [rbind] in H; try discriminate.
    destruct is_ear; [|eapply IH; eassumption].
    destruct (mesh_push v0 v1 v2 (n_triangles t) t) as [t1 r] eqn:Ep. destruct r as [n1| |]; cbn [rbind] in H; try discriminate.
    unfold n_triangles in Ep. apply push_at_end_normal in Ep. destruct Ep as (tp & Etp & Hn).
    assert (Hc : forall (sg : Seg K) (e : Edge) (m m' : Mesh) (r : res unit),
               (if poly_contains_segment P sg then mupd 95%N (n_triangles t) (tp_constrain e) m else (m, Ok tt)) = (m', r) -> Rtri m m').
    { intros sg e m m' r Hm. destruct (poly_contains_segment P sg); [|inversion Hm; subst; reflexivity].
      eapply rtri_mupd; [intros ?; apply constrain_tri | exact Hm]. }
    destruct (if poly_contains_segment P (seg_new v0 v1) then mupd 95%N (n_triangles t) (tp_constrain Ab) t1 else (t1, Ok tt)) as [t2 r2] eqn:Ec2.
    apply Hc in Ec2. destruct r2 as [[]| |]; cbn [rbind] in H; try discriminate.
    destruct (if poly_contains_segment P (seg_new v1 v2) then mupd 95%N (n_triangles t) (tp_constrain Bc) t2 else (t2, Ok tt)) as [t3 r3] eqn:Ec3.
    apply Hc in Ec3. destruct r3 as [[]| |]; cbn [rbind] in H; try discriminate.
    destruct (if poly_contains_segment P (seg_new v2 v0) then mupd 95%N (n_triangles t) (tp_constrain Ca) t3 else (t3, Ok tt)) as [t4 r4] eqn:Ec4.
    apply Hc in Ec4. destruct r4 as [[]| |]; cbn [rbind] in H; try discriminate.
    destruct (loop_remove L1 (Nat.modulo (anchor + 1) (llen L1))) as [L2| |]; cbn [rbind] in H; try discriminate.
    eapply IH; [exact H|]. unfold Rtri in *.
    eapply (Forall_map_tri normal_ok (tris t ++ [tp])); [rewrite Ec4, Ec3, Ec2, Etp; reflexivity|].
    apply Forall_app. split; [exact Ht | constructor; [exact Hn | constructor]].
  Qed.
  Theorem from_polygon_normals (P : Poly K) (M : Mesh) :
    from_polygon P = Ok M -> Forall (fun x => normal_ok (tp_tri x)) (tris M).
  Proof.
    unfold from_polygon. destruct (poly_get_closed_loop P) as [Lm| |]; cbn [rbind]; try discriminate.
    destruct (loop_close Lm) as [L [[]| |]]; cbn [rbind]; try discriminate.
    destruct (Nat.ltb (llen L) 2); [discriminate|]. intros H. eapply fp_loop_normals; [exact H | constructor].
  Qed.
End Trace.
Arguments csum_ear_decomp2 {A G rO rI radd rmul rsub ropp} Gth f f_anti f_self L Ts _.
Arguments csum_clip_run {A G rO rI radd rmul rsub ropp} Gth f f_anti f_self L Ts S _.
Arguments san_defect {A G} rO radd rsub f S.

(* ------------------------------------------------------------------------------------------------------------ *)
(** * 3. The identities over the reals                                                                          *)
From G3 Require Import Theory.RInst Theory.LoopGeom Proofs.C05_pointtest Proofs.C05_winding.
From G3 Require Theory.Winding Theory.Shoelace.
Local Open Scope R_scope.

Notation PP := Winding.P2.
Notation T2 := (PP * PP * PP)%type.

(** ** pure list facts about [count_inside] and the signed index *)
Lemma tsum_index_count (Ts : list T2) (q : PP) :
  (forall a b c, In (a, b, c) Ts -> 0 < Winding.orient a b c) ->
  Cyclic.tsum 0%Z Z.add (fun a b c => Winding.tri_index a b c q) Ts = Z.of_nat (Winding.count_inside Ts q).
Proof.
  induction Ts as [|[[a b] c] Ts IH]; intros Hpos; [reflexivity|].
  rewrite Cyclic.tsum_cons, Winding.count_inside_cons, Nat2Z.inj_add, IH by (intros; apply Hpos; right; assumption).
  f_equal. unfold Winding.tri_index. rewrite (Winding.rlt_true _ _ (Hpos a b c (or_introl eq_refl))).
  destruct (Winding.inside_trib a b c q); reflexivity.
Qed.
Lemma count_zero_none (Ts : list T2) (q : PP) :
  Winding.count_inside Ts q = 0%nat -> forall a b c, In (a, b, c) Ts -> ~ Winding.inside_tri a b c q.
Proof.
  intros H0 a b c Hin Hins. apply in_split in Hin. destruct Hin as (l1 & l2 & ->).
  rewrite Winding.count_inside_app, Winding.count_inside_cons in H0. apply Winding.inside_trib_spec in Hins. rewrite Hins in H0. lia.
Qed.
Lemma count_le1_no_overlap (q : PP) (l1 l2 l3 : list T2) (a b c a' b' c' : PP) :
  (Winding.count_inside (l1 ++ (a, b, c) :: l2 ++ (a', b', c') :: l3) q <= 1)%nat ->
  Winding.inside_tri a b c q -> Winding.inside_tri a' b' c' q -> False.
Proof.
  intros H H1 H2. rewrite Winding.count_inside_app, Winding.count_inside_cons, Winding.count_inside_app, Winding.count_inside_cons in H.
  apply Winding.inside_trib_spec in H1. apply Winding.inside_trib_spec in H2. rewrite H1, H2 in H. lia.
Qed.
Lemma count_pos_cover (Ts : list T2) (q : PP) :
  (0 < Winding.count_inside Ts q)%nat -> exists a b c, In (a, b, c) Ts /\ Winding.inside_tri a b c q.
Proof.
  induction Ts as [|[[a b] c] Ts IH]; intros H; [cbn in H; lia|].
  rewrite Winding.count_inside_cons in H. destruct (Winding.inside_trib a b c q) eqn:E.
  - exists a, b, c. split; [left; reflexivity | apply Winding.inside_trib_spec; exact E].
  - destruct IH as (a' & b' & c' & Hin & Hins); [cbn in H; lia|]. exists a', b', c'. split; [right; exact Hin | exact Hins].
Qed.
Lemma count_cover_pos (Ts : list T2) (q : PP) (a b c : PP) :
  In (a, b, c) Ts -> Winding.inside_tri a b c q -> (0 < Winding.count_inside Ts q)%nat.
Proof.
  intros Hin Hins. destruct (Nat.eq_dec (Winding.count_inside Ts q) 0) as [E|E]; [|lia].
  exfalso. exact (count_zero_none Ts q E a b c Hin Hins).
Qed.

(** ** an ear decomposition (down to two vertices) of a planar chain *)
Section ED2.
  Variables (L : list PP) (Ts : list T2).
  Hypothesis D : ear_decomp2 L Ts.

  (** signed area: the shoelace sum of the chain is the sum of the ears' doubled signed areas *)
  Lemma ed2_area2_doubled : 2 * Shoelace.area2 L = Cyclic.tsum 0 Rplus Winding.orient Ts.
  Proof.
    unfold Shoelace.area2. rewrite (csum_ear_decomp2 RTheory _ Shoelace.cross2_anti Shoelace.cross2_self L Ts D).
    replace (2 * (/ 2 * Cyclic.tsum 0 Rplus (Cyclic.tri 0 Rplus Shoelace.cross2) Ts)) with (Cyclic.tsum 0 Rplus (Cyclic.tri 0 Rplus Shoelace.cross2) Ts) by field.
    apply Cyclic.tsum_ext_in. intros a b c _. apply Shoelace.tri_cross2.
  Qed.
  Lemma ed2_area2 : Shoelace.area2 L = Cyclic.tsum 0 Rplus (fun a b c => Shoelace.area2 [a; b; c]) Ts.
  Proof.
    unfold Shoelace.area2 at 1. rewrite (csum_ear_decomp2 RTheory _ Shoelace.cross2_anti Shoelace.cross2_self L Ts D).
    rewrite <- (Cyclic.tsum_hom (A := PP) 0 Rplus 0 Rplus (fun x => / 2 * x)); [|ring|intros; ring].
    apply Cyclic.tsum_ext_in. intros a b c _. reflexivity.
  Qed.
  (** if every ear is counter-clockwise (or degenerate), the area is the sum of the ears' absolute areas *)
  Lemma ed2_area2_abs : (forall a b c, In (a, b, c) Ts -> 0 <= Winding.orient a b c) ->
    Shoelace.area2 L = Cyclic.tsum 0 Rplus (fun a b c => Rabs (Shoelace.area2 [a; b; c])) Ts.
  Proof.
    intros Hpos. rewrite ed2_area2. apply Cyclic.tsum_ext_in. intros a b c Hin.
    rewrite Rabs_right; [reflexivity|]. rewrite Shoelace.area2_tri. specialize (Hpos a b c Hin). lra.
  Qed.

  (** winding number: the chain's is the sum of the ears' (every ray, every point) *)
  Lemma ed2_wn (d q : PP) : Winding.wn d L q = Cyclic.tsum 0%Z Z.add (fun a b c => Winding.wn d [a; b; c] q) Ts.
  Proof.
    unfold Winding.wn. exact (csum_ear_decomp2 InitialRing.Zth _ (Winding.crdf_anti d q) (Winding.crdf_self d q) L Ts D).
  Qed.
  Lemma ed2_generic (d q : PP) : Winding.generic d q L -> forall a b c, In (a, b, c) Ts -> Winding.generic d q [a; b; c].
  Proof.
    intros Hg a b c Hin. destruct (ear_decomp2_In _ _ _ D a b c Hin) as (Ha & Hb & Hc).
    intros v [Hv|[Hv|[Hv|[]]]]; subst; apply Hg; assumption.
  Qed.
  (** for a generic ray and a point on the boundary of no non-degenerate ear: the sum of the ears' signed indicator functions *)
  Lemma ed2_wn_index (d q : PP) : Winding.generic d q L ->
    (forall a b c, In (a, b, c) Ts -> Winding.orient a b c <> 0 -> Winding.off_segs a b c q) ->
    Winding.wn d L q = Cyclic.tsum 0%Z Z.add (fun a b c => Winding.tri_index a b c q) Ts.
  Proof.
    intros Hg Hoff. rewrite ed2_wn. apply Cyclic.tsum_ext_in. intros a b c Hin.
    apply Winding.wn_triangle_index_seg; [apply ed2_generic; assumption | apply Hoff; exact Hin].
  Qed.
  (** the reduction: all ears counter-clockwise => the winding number COUNTS the ears that contain the point *)
  Lemma ed2_count (d q : PP) : Winding.generic d q L ->
    (forall a b c, In (a, b, c) Ts -> 0 < Winding.orient a b c /\ Winding.off_segs a b c q) ->
    Winding.wn d L q = Z.of_nat (Winding.count_inside Ts q).
  Proof.
    intros Hg Hpos. rewrite ed2_wn_index; [|exact Hg | intros a b c Hin _; apply Hpos; exact Hin].
    apply tsum_index_count. intros a b c Hin. apply Hpos. exact Hin.
  Qed.
End ED2.

(** the general run (ear steps and recorded replacements of the chain): the identities with one defect term per replacement *)
Definition area_defect (S : list (list PP * list PP)) : R :=
  fold_right (fun p acc => (2 * Shoelace.area2 (fst p) - 2 * Shoelace.area2 (snd p)) + acc) 0 S.
Definition wn_defect (d q : PP) (S : list (list PP * list PP)) : Z :=
  fold_right (fun p acc => ((Winding.wn d (fst p) q - Winding.wn d (snd p) q) + acc)%Z) 0%Z S.
Section CR2.
  Variables (L : list PP) (Ts : list T2) (S : list (list PP * list PP)).
  Hypothesis C : clip_run L Ts S.
  Lemma cr_area2_doubled : 2 * Shoelace.area2 L = Cyclic.tsum 0 Rplus Winding.orient Ts + area_defect S.
  Proof.
    unfold Shoelace.area2 at 1. rewrite (csum_clip_run RTheory _ Shoelace.cross2_anti Shoelace.cross2_self L Ts S C).
    replace (2 * (/ 2 * (Cyclic.tsum 0 Rplus (Cyclic.tri 0 Rplus Shoelace.cross2) Ts + san_defect 0 Rplus Rminus Shoelace.cross2 S)))
      with (Cyclic.tsum 0 Rplus (Cyclic.tri 0 Rplus Shoelace.cross2) Ts + san_defect 0 Rplus Rminus Shoelace.cross2 S) by field.
    f_equal.
    - apply Cyclic.tsum_ext_in. intros a b c _. apply Shoelace.tri_cross2.
    - clear C. unfold san_defect, area_defect, Shoelace.area2. induction S as [|p S' IH]; [reflexivity|]. cbn [fold_right]. rewrite IH. field.
  Qed.
  Lemma cr_wn (d q : PP) :
    Winding.wn d L q = (Cyclic.tsum 0%Z Z.add (fun a b c => Winding.wn d [a; b; c] q) Ts + wn_defect d q S)%Z.
  Proof.
    unfold Winding.wn at 1. exact (csum_clip_run InitialRing.Zth _ (Winding.crdf_anti d q) (Winding.crdf_self d q) L Ts S C).
  Qed.
End CR2.

(** the same through the theory's [Cyclic.ear_decomp] and [Winding.tiling_of_positive_ears] (point off the ears' edge LINES):
    the rotation of the last ear's corners is invisible to [count_inside], to [orient] and to [off_lines] *)
Lemma inside_trib_rot (a b c q : PP) : Winding.inside_trib b c a q = Winding.inside_trib a b c q.
Proof.
  destruct (Winding.inside_trib b c a q) eqn:E1, (Winding.inside_trib a b c q) eqn:E2; try reflexivity.
  - apply Winding.inside_trib_spec in E1. apply (proj1 (Winding.inside_tri_rot a b c q)) in E1. apply Winding.inside_trib_spec in E1. congruence.
  - apply Winding.inside_trib_spec in E2. apply (proj2 (Winding.inside_tri_rot a b c q)) in E2. apply Winding.inside_trib_spec in E2. congruence.
Qed.
Lemma count_inside_trot (Ts Ts' : list T2) (q : PP) : Forall2 trot Ts Ts' -> Winding.count_inside Ts' q = Winding.count_inside Ts q.
Proof.
  intros F; induction F as [|[[a b] c] t' Ts Ts' Ht F IH]; [reflexivity|].
  cbn in Ht. destruct Ht as [-> | [-> | ->]]; rewrite !Winding.count_inside_cons, IH; f_equal.
  - rewrite inside_trib_rot. reflexivity.
  - rewrite <- inside_trib_rot, <- inside_trib_rot. reflexivity.
Qed.
Lemma trot_In (Ts Ts' : list T2) (t' : T2) : Forall2 trot Ts Ts' -> In t' Ts' -> exists t, In t Ts /\ trot t t'.
Proof.
  intros F; induction F as [|t u Ts Ts' Ht F IH]; intros Hin; [destruct Hin|].
  destruct Hin as [<-|Hin]; [exists t; split; [left; reflexivity | exact Ht]|].
  destruct (IH Hin) as (x & Hx & Hr). exists x. split; [right; exact Hx | exact Hr].
Qed.
Theorem ed2_count_via_theory (L : list PP) (Ts : list T2) (d q : PP) :
  ear_decomp2 L Ts -> (3 <= length L)%nat -> Winding.generic d q L ->
  (forall a b c, In (a, b, c) Ts -> 0 < Winding.orient a b c /\ Winding.off_lines a b c q) ->
  exists Ts', Cyclic.ear_decomp L Ts' /\ Forall2 trot Ts Ts' /\
    Winding.wn d L q = Z.of_nat (Winding.count_inside Ts' q) /\ Winding.count_inside Ts' q = Winding.count_inside Ts q.
Proof.
  intros D H3 Hg Hpos. destruct (ear_decomp2_to_ear_decomp _ L Ts D H3) as (Ts' & E & F). exists Ts'. split; [exact E|]. split; [exact F|].
  split; [|apply count_inside_trot; exact F].
  apply (Winding.tiling_of_positive_ears d q L Ts' E Hg). intros a b c Hin.
  destruct (trot_In Ts Ts' _ F Hin) as ([[x y] z] & Hx & Hr). destruct (Hpos x y z Hx) as (Ho & O1 & O2 & O3). cbn in Hr.
  destruct Hr as [Hr|[Hr|Hr]]; injection Hr as -> -> ->.
  - repeat split; assumption.
  - rewrite Winding.orient_rot. repeat split; assumption.
  - rewrite <- Winding.orient_rot. repeat split; assumption.
Qed.

(** the reduction needs the orientation of the ears (which the code now checks): the dart A B C D with the reflex vertex B, clipped at B first.  The ear
    (A, B, C) is clockwise; the point q lies OUTSIDE the dart (winding number 0) and is covered by BOTH ears. *)
Ltac rlt_eval :=
  repeat match goal with
         | |- context [Winding.rlt ?x ?y] => first [rewrite (Winding.rlt_true x y) by lra | rewrite (Winding.rlt_false x y) by lra]
         end.
Theorem negative_ear_breaks_count :
  exists (L : list PP) (Ts : list T2) (d q : PP),
    ear_decomp2 L Ts /\ Winding.generic d q L /\ (forall a b c, In (a, b, c) Ts -> Winding.off_lines a b c q) /\
    (exists a b c, In (a, b, c) Ts /\ Winding.orient a b c < 0) /\
    Winding.wn d L q = 0%Z /\ Winding.count_inside Ts q = 2%nat.
Proof.
  set (A := (0, 0) : PP). set (B := (2, 1) : PP). set (C := (4, 0) : PP). set (E := (2, 4) : PP).
  exists [A; B; C; E], [(A, B, C); (E, A, C)], ((1, 0) : PP), ((2, / 2) : PP).
  assert (D : ear_decomp2 [A; B; C; E] [(A, B, C); (E, A, C)]).
  { apply (ed2_step PP [A] [C; E] B). apply (ed2_step PP [] [C; E] A). apply ed2_two. }
  assert (G : Winding.generic (1, 0) (2, / 2) [A; B; C; E]).
  { intros v [<-|[<-|[<-|[<-|[]]]]]; unfold Winding.hgt, A, B, C, E; cbn [fst snd]; lra. }
  assert (O : forall a b c, In (a, b, c) [(A, B, C); (E, A, C)] -> Winding.off_lines a b c (2, / 2)).
  { intros a b c [H|[H|[]]]; injection H as <- <- <-; unfold Winding.off_lines, Winding.orient, A, B, C, E; cbn [fst snd]; repeat split; lra. }
  split; [exact D|]. split; [exact G|]. split; [exact O|]. split.
  - exists A, B, C. split; [left; reflexivity|]. unfold Winding.orient, A, B, C; cbn [fst snd]. lra.
  - split.
    + rewrite (ed2_wn_index _ _ D _ _ G) by (intros a b c Hin _; apply Winding.off_lines_off_segs; apply O; exact Hin).
      unfold Cyclic.tsum, Winding.tri_index, Winding.inside_trib, Winding.insb, Winding.orient, A, B, C, E. cbn [fold_right fst snd]. rlt_eval. reflexivity.
    + unfold Winding.count_inside, Winding.inside_trib, Winding.insb, Winding.orient, A, B, C, E. cbn [filter fst snd]. rlt_eval. reflexivity.
Qed.

(* ------------------------------------------------------------------------------------------------------------ *)
(** * 4. The model's outline and triangles (real instance) in plane coordinates                                 *)
Section Frame.
  (** ANY frame: o a point, e1 and e2 two vectors; coordinates p |-> (e1 . (p - o), e2 . (p - o)).  With e1, e2
      orthonormal and spanning the polygon's plane these are isometric coordinates of the plane, e1 x e2 is the unit
      normal, [area2] of the projection is the signed area and [orient] twice the signed area of a triangle. *)
  Variables (o e1 e2 : V).
  Notation pr := (plane2 o e1 e2).
  Notation nrm := (vcross e1 e2).

  Definition proj_outline (L : Loop R) : list PP := map pr (verts L).
  Definition proj_tris (M : Mesh R) : list T2 := map (fun t => map3 pr (tri3 t)) (tris M).

  Lemma proj_tris_In (M : Mesh R) (a b c : PP) :
    In (a, b, c) (proj_tris M) <-> exists t, In t (tris M) /\ a = pr (ta (tp_tri t)) /\ b = pr (tb (tp_tri t)) /\ c = pr (tc (tp_tri t)).
  Proof.
    unfold proj_tris. rewrite in_map_iff. split.
    - intros (t & E & Hin). unfold map3, tri3 in E. cbn [fst snd] in E. injection E as <- <- <-. exists t. repeat split. exact Hin.
    - intros (t & Hin & -> & -> & ->). exists t. split; [reflexivity | exact Hin].
  Qed.

  (** the doubled signed area of a projected triangle is the normal component of its cross product (Binet-Cauchy) *)
  Lemma orient_plane2 (a b c : V) : Winding.orient (pr a) (pr b) (pr c) = vdot nrm (vcross (vsub b a) (vsub c a)).
  Proof. rewrite <- orient2_is_orient. unfold orient2. rewrite binet_cauchy, !(planev_sub o). reflexivity. Qed.
  (** ... and has the sign of the normal component of the triangle's stored (normalized) normal *)
  Lemma vnormalize_side (n w : V) : 0 < vdot n (vnormalize w) -> 0 < vdot n w.
  Proof.
    assert (E : vdot n (vnormalize w) = vdot n w * (1 / vlen w)) by (unfold vnormalize, vdot; cbn [vx vy vz]; rnum; ring).
    rewrite E. intros H. assert (Hl : 0 <= vlen w) by (unfold vlen; rnum; apply sqrt_pos).
    destruct (Req_dec (vlen w) 0) as [Z|NZ].
    - rewrite Z in H. unfold Rdiv in H. rewrite Rinv_0 in H. lra.
    - assert (Hi : 0 < 1 / vlen w) by (apply Rdiv_lt_0_compat; lra). nra.
  Qed.
  Lemma normal_side_orient (u : Tri R) :
    normal_ok u -> 0 < vdot nrm (tnormal u) -> 0 < Winding.orient (pr (ta u)) (pr (tb u)) (pr (tc u)).
  Proof.
    unfold normal_ok, tri_normal_of. intros -> H. apply vnormalize_side in H. rewrite orient_plane2.
    replace (vcross (vsub (tb u) (ta u)) (vsub (tc u) (ta u))) with (vcross (vsub (tb u) (ta u)) (vsub (tc u) (tb u))); [exact H|].
    apply v3_eq; vunf; rnum; ring.
  Qed.

  (** the shoelace area of the projected outline is the normal component of the model's Newell vector
      ([sum_cross], what [set_area] computes: LoopGeom.sum_cross_newell) *)
  Lemma chain_esum {A : Type} (op : A -> A -> A) (e : A) (f : V -> V -> A) (l : list V) :
    chain op e f l = Cyclic.esum e op f (Cyclic.edges_open l).
  Proof.
    induction l as [|a l IH]; [reflexivity|]. destruct l as [|b l]; [reflexivity|].
    rewrite chain_cons2, Cyclic.edges_open_cons2, Cyclic.esum_cons, IH. reflexivity.
  Qed.
  Lemma cyc_csum {A : Type} (op : A -> A -> A) (e : A) (f : V -> V -> A) (l : list V) : cyc op e f l = Cyclic.csum e op f l.
  Proof.
    destruct l as [|v l]; [reflexivity|]. unfold cyc, Cyclic.csum, Cyclic.edges_closed. rewrite chain_esum, Cyclic.edges_to_open. reflexivity.
  Qed.
  Lemma vdot_chain (n : V) (l : list V) : vdot n (chain vadd vzero vcross l) = chain Rplus 0 (fun a b => vdot n (vcross a b)) l.
  Proof.
    induction l as [|a l IH]; [apply vdot_zero_r|]. destruct l as [|b l]; [apply vdot_zero_r|].
    rewrite !chain_cons2, vdot_add_r, IH. reflexivity.
  Qed.
  Lemma newell_dot_csum (n : V) (vs : list V) : vdot n (newell vs) = Cyclic.csum 0 Rplus (fun a b => vdot n (vcross a b)) vs.
  Proof.
    rewrite <- cyc_csum. unfold newell, cyc. destruct vs as [|v l]; [apply vdot_zero_r|]. apply vdot_chain.
  Qed.
  Theorem area2_plane2_newell (vs : list V) : 2 * Shoelace.area2 (map pr vs) = vdot nrm (newell vs).
  Proof.
    rewrite newell_dot_csum.
    assert (Et : map pr vs = map (fun p : PP => (fst (plane2 o e1 e2 vzero) + fst p, snd (plane2 o e1 e2 vzero) + snd p)) (map (planev e1 e2) vs)).
    { rewrite map_map. apply map_ext. intros p. unfold plane2, planev, vdot, vsub, vzero. cbn [vx vy vz fst snd]. rnum. f_equal; ring. }
    rewrite Et, Shoelace.area2_translate. unfold Shoelace.area2. rewrite Cyclic.csum_map.
    replace (2 * (/ 2 * Cyclic.csum 0 Rplus (fun a b : V => Shoelace.cross2 (planev e1 e2 a) (planev e1 e2 b)) vs))
      with (Cyclic.csum 0 Rplus (fun a b : V => Shoelace.cross2 (planev e1 e2 a) (planev e1 e2 b)) vs) by field.
    apply Cyclic.csum_ext. intros a b. rewrite binet_cauchy. unfold det2, Shoelace.cross2. ring.
  Qed.

  (** ** a sanitize-stable successful run, projected *)
  Lemma stable_run_proj (P : Poly R) (M : Mesh R) (L : Loop R) :
    stable_run P M -> outline_of P L -> ear_decomp2 (proj_outline L) (proj_tris M).
  Proof.
    intros Hr Ho. destruct (stable_run_ears P M L Hr Ho) as [D _]. unfold proj_outline, proj_tris.
    rewrite <- (map_map tri3 (map3 pr)). apply ear_decomp2_map. exact D.
  Qed.

  (** ** every successful run (whatever [sanitize] does): the identities with one defect term per recorded sanitize call *)
  Theorem run_identities_general (P : Poly R) (M : Mesh R) (tr : Trace) :
    from_polygon_tr P = Ok (M, tr) ->
    exists L : Loop R, outline_of P L /\
      (let S2 := map (map_pair pr) (snd tr) in
       (2 * Shoelace.area2 (proj_outline L) = Cyclic.tsum 0 Rplus Winding.orient (proj_tris M) + area_defect S2) /\
       (forall d q : PP,
          Winding.wn d (proj_outline L) q =
          (Cyclic.tsum 0%Z Z.add (fun a b c => Winding.wn d [a; b; c] q) (proj_tris M) + wn_defect d q S2)%Z)).
  Proof.
    intros H. destruct (from_polygon_clip_run P M tr H) as (Lm & H1 & H2 & C & EM). exists (fst (loop_close Lm)).
    split; [exists Lm; repeat split; assumption|]. cbn zeta.
    apply (clip_run_map pr) in C. rewrite <- EM in C. rewrite (map_map tri3 (map3 pr)) in C. fold (proj_tris M) in C. fold (proj_outline (fst (loop_close Lm))) in C.
    split; [exact (cr_area2_doubled _ _ _ C) | intros d q; exact (cr_wn _ _ _ C d q)].
  Qed.

  Section Run.
    Variables (P : Poly R) (M : Mesh R) (L : Loop R).
    Hypothesis Hrun : stable_run P M.
    Hypothesis Hout : outline_of P L.
    Notation L2 := (proj_outline L).
    Notation Ts := (proj_tris M).

    (** signed area: Newell / shoelace of the outline = sum over the returned triangles *)
    Theorem ears_area_identity : 2 * Shoelace.area2 L2 = Cyclic.tsum 0 Rplus Winding.orient Ts.
    Proof. apply ed2_area2_doubled. exact (stable_run_proj P M L Hrun Hout). Qed.
    Theorem ears_area_identity_3d :
      vdot nrm (newell (verts L)) =
      fold_right (fun t acc => vdot nrm (vcross (vsub (tb (tp_tri t)) (ta (tp_tri t))) (vsub (tc (tp_tri t)) (ta (tp_tri t)))) + acc) 0 (tris M).
    Proof.
      rewrite <- area2_plane2_newell. fold (proj_outline L). rewrite ears_area_identity. unfold proj_tris, Cyclic.tsum.
      induction (tris M) as [|t l IH]; [reflexivity|]. cbn [map fold_right]. rewrite IH. f_equal.
      unfold map3, tri3. cbn [fst snd]. apply orient_plane2.
    Qed.
    (** winding number, every ray and every point *)
    Theorem ears_winding_identity (d q : PP) :
      Winding.wn d L2 q = Cyclic.tsum 0%Z Z.add (fun a b c => Winding.wn d [a; b; c] q) Ts.
    Proof. apply ed2_wn. exact (stable_run_proj P M L Hrun Hout). Qed.
    (** generic ray, point on the boundary of no non-degenerate triangle: sum of sign(T) * [q strictly inside T] *)
    Theorem ears_winding_index (d q : PP) : Winding.generic d q L2 ->
      (forall a b c, In (a, b, c) Ts -> Winding.orient a b c <> 0 -> Winding.off_segs a b c q) ->
      Winding.wn d L2 q = Cyclic.tsum 0%Z Z.add (fun a b c => Winding.tri_index a b c q) Ts.
    Proof. apply ed2_wn_index. exact (stable_run_proj P M L Hrun Hout). Qed.

    (** *** the reduction (Thm B): every returned triangle positively oriented w.r.t. e1 x e2 *)
    Hypothesis Hpos : forall a b c, In (a, b, c) Ts -> 0 < Winding.orient a b c.

    Theorem ears_tiling_count (d q : PP) : Winding.generic d q L2 ->
      (forall a b c, In (a, b, c) Ts -> Winding.off_segs a b c q) ->
      Winding.wn d L2 q = Z.of_nat (Winding.count_inside Ts q).
    Proof.
      intros Hg Hoff. apply ed2_count; [exact (stable_run_proj P M L Hrun Hout) | exact Hg|].
      intros a b c Hin. split; [apply Hpos | apply Hoff]; exact Hin.
    Qed.
    (** where the outline does not wind (outside the polygon, or in a hole) no triangle covers the point *)
    Theorem ears_tiling_outside (d q : PP) : Winding.generic d q L2 ->
      (forall a b c, In (a, b, c) Ts -> Winding.off_segs a b c q) ->
      Winding.wn d L2 q = 0%Z -> forall a b c, In (a, b, c) Ts -> ~ Winding.inside_tri a b c q.
    Proof. intros Hg Hoff Hw. apply count_zero_none. rewrite (ears_tiling_count d q Hg Hoff) in Hw. lia. Qed.
    (** where the outline winds at most once no two triangles (two different positions of the list) overlap *)
    Theorem ears_tiling_no_overlap (d q : PP) : Winding.generic d q L2 ->
      (forall a b c, In (a, b, c) Ts -> Winding.off_segs a b c q) ->
      (Winding.wn d L2 q <= 1)%Z ->
      forall (l1 l2 l3 : list T2) (a b c a' b' c' : PP), Ts = l1 ++ (a, b, c) :: l2 ++ (a', b', c') :: l3 ->
        Winding.inside_tri a b c q -> Winding.inside_tri a' b' c' q -> False.
    Proof.
      intros Hg Hoff Hw l1 l2 l3 a b c a' b' c' E. rewrite (ears_tiling_count d q Hg Hoff) in Hw. apply (count_le1_no_overlap q l1 l2 l3).
      rewrite <- E. lia.
    Qed.
    (** where the outline winds (inside the polygon) some triangle covers the point *)
    Theorem ears_tiling_cover (d q : PP) : Winding.generic d q L2 ->
      (forall a b c, In (a, b, c) Ts -> Winding.off_segs a b c q) ->
      (0 < Winding.wn d L2 q)%Z -> exists a b c, In (a, b, c) Ts /\ Winding.inside_tri a b c q.
    Proof. intros Hg Hoff Hw. apply count_pos_cover. rewrite (ears_tiling_count d q Hg Hoff) in Hw. lia. Qed.
    (** together, for a valid (Jordan) input, 0 <= wn <= 1: a point is covered iff it is inside, and then exactly once *)
    Theorem ears_tile_exactly (d q : PP) : Winding.generic d q L2 ->
      (forall a b c, In (a, b, c) Ts -> Winding.off_segs a b c q) ->
      (0 <= Winding.wn d L2 q <= 1)%Z ->
      (Winding.wn d L2 q = 1%Z <-> exists a b c, In (a, b, c) Ts /\ Winding.inside_tri a b c q) /\
      Winding.count_inside Ts q = (if Z.eqb (Winding.wn d L2 q) 1 then 1 else 0)%nat /\
      (forall (l1 l2 l3 : list T2) (a b c a' b' c' : PP), Ts = l1 ++ (a, b, c) :: l2 ++ (a', b', c') :: l3 ->
         Winding.inside_tri a b c q -> Winding.inside_tri a' b' c' q -> False).
    Proof.
      intros Hg Hoff Hw. pose proof (ears_tiling_count d q Hg Hoff) as Ec. split; [split|split].
      - intros H1. apply (ears_tiling_cover d q Hg Hoff). lia.
      - intros (a & b & c & Hin & Hins). pose proof (count_cover_pos _ q a b c Hin Hins). lia.
      - destruct (Z.eqb_spec (Winding.wn d L2 q) 1); lia.
      - apply (ears_tiling_no_overlap d q Hg Hoff). lia.
    Qed.
    (** the triangle areas sum to the polygon's area *)
    Theorem ears_area_sum : Shoelace.area2 L2 = Cyclic.tsum 0 Rplus (fun a b c => Rabs (Shoelace.area2 [a; b; c])) Ts.
    Proof. apply ed2_area2_abs; [exact (stable_run_proj P M L Hrun Hout)|]. intros a b c Hin. apply Rlt_le, Hpos, Hin. Qed.
    Theorem ears_area_positive : (1 <= length (tris M))%nat -> 0 < Shoelace.area2 L2.
    Proof.
      intros Hn. assert (H2 : 0 < 2 * Shoelace.area2 L2); [|lra]. rewrite ears_area_identity. clear Hrun Hout. revert Hpos Hn. unfold proj_tris.
      destruct (tris M) as [|t l]; [cbn; lia|]. intros Hp _. cbn [map] in *. remember (map3 pr (tri3 t)) as x eqn:Ex. destruct x as [[a b] c].
      rewrite Cyclic.tsum_cons. pose proof (Hp a b c (or_introl eq_refl)) as H1.
      match goal with |- 0 < _ + ?s => assert (H0 : 0 <= s) end.
      { apply Shoelace.tsum_nonneg. intros a' b' c' Hin. apply Rlt_le, Hp. right. exact Hin. }
      lra.
    Qed.
  End Run.

  (** the orientation hypothesis in the model's own terms: the stored normal of every triangle on the side of e1 x e2 *)
  Lemma positive_normals_positive_ears (P : Poly R) (M : Mesh R) :
    from_polygon P = Ok M -> (forall t, In t (tris M) -> 0 < vdot nrm (tnormal (tp_tri t))) ->
    forall a b c, In (a, b, c) (proj_tris M) -> 0 < Winding.orient a b c.
  Proof.
    intros Hok Hn a b c Hin. apply proj_tris_In in Hin. destruct Hin as (t & Hin & -> & -> & ->).
    apply normal_side_orient; [|apply Hn; exact Hin]. pose proof (from_polygon_normals P M Hok) as F. rewrite Forall_forall in F. apply F. exact Hin.
  Qed.
  (** ** since fix 4bb2ed8 the orientation hypothesis is PROVED: every clipped ear passed [ear_convex], i.e.
      ((v1 - v0) x (v2 - v1)) . pnormal P > 0; when the polygon's normal is a positive multiple of the frame normal
      e1 x e2 this is 0 < orient of the projected ear ([orient_plane2]).  No planarity of the outline is needed. *)
  Definition frame_normal (P : Poly R) : Prop := exists k : R, 0 < k /\ pnormal P = vscale nrm k.
  Lemma frame_normal_eq (P : Poly R) : pnormal P = nrm -> frame_normal P.
  Proof. intros E. exists 1. split; [lra|]. rewrite E. apply v3_eq; vunf; rnum; ring. Qed.
  Lemma ear_convex_orient (P : Poly R) (a b c : V) :
    frame_normal P -> ear_convex P a b c = true -> 0 < Winding.orient (pr a) (pr b) (pr c).
  Proof.
    intros (k & Hk & En) H. unfold ear_convex in H. rnum. apply Rltb_true in H. rewrite En in H. rewrite orient_plane2.
    assert (E : vdot (vcross (vsub b a) (vsub c b)) (vscale nrm k) = k * vdot nrm (vcross (vsub b a) (vsub c a))) by (vunf; rnum; ring).
    rewrite E in H. nra.
  Qed.
  Theorem ears_positive (P : Poly R) (M : Mesh R) :
    from_polygon P = Ok M -> frame_normal P -> forall a b c, In (a, b, c) (proj_tris M) -> 0 < Winding.orient a b c.
  Proof.
    intros Hok Hn a b c Hin. apply proj_tris_In in Hin. destruct Hin as (t & Hin & -> & -> & ->).
    apply (ear_convex_orient P); [exact Hn|]. pose proof (from_polygon_ears_convex P M Hok) as F. rewrite Forall_forall in F. apply F. exact Hin.
  Qed.

  Section RunProved.
    Variables (P : Poly R) (M : Mesh R) (L : Loop R).
    Hypothesis Hrun : stable_run P M.
    Hypothesis Hout : outline_of P L.
    Hypothesis Hn : frame_normal P.
    Notation L2 := (proj_outline L).
    Notation Ts := (proj_tris M).
    Lemma run_pos : forall a b c, In (a, b, c) Ts -> 0 < Winding.orient a b c.
    Proof. exact (ears_positive P M (stable_run_ok P M Hrun) Hn). Qed.
    Theorem ears_tiling_count_proved (d q : PP) : Winding.generic d q L2 ->
      (forall a b c, In (a, b, c) Ts -> Winding.off_segs a b c q) ->
      Winding.wn d L2 q = Z.of_nat (Winding.count_inside Ts q).
    Proof. exact (ears_tiling_count P M L Hrun Hout run_pos d q). Qed.
    Theorem ears_tile_exactly_proved (d q : PP) : Winding.generic d q L2 ->
      (forall a b c, In (a, b, c) Ts -> Winding.off_segs a b c q) ->
      (0 <= Winding.wn d L2 q <= 1)%Z ->
      (Winding.wn d L2 q = 1%Z <-> exists a b c, In (a, b, c) Ts /\ Winding.inside_tri a b c q) /\
      Winding.count_inside Ts q = (if Z.eqb (Winding.wn d L2 q) 1 then 1 else 0)%nat /\
      (forall (l1 l2 l3 : list T2) (a b c a' b' c' : PP), Ts = l1 ++ (a, b, c) :: l2 ++ (a', b', c') :: l3 ->
         Winding.inside_tri a b c q -> Winding.inside_tri a' b' c' q -> False).
    Proof. exact (ears_tile_exactly P M L Hrun Hout run_pos d q). Qed.
    Theorem ears_area_sum_proved : Shoelace.area2 L2 = Cyclic.tsum 0 Rplus (fun a b c => Rabs (Shoelace.area2 [a; b; c])) Ts.
    Proof. exact (ears_area_sum P M L Hrun Hout run_pos). Qed.
    Theorem ears_area_positive_proved : (1 <= length (tris M))%nat -> 0 < Shoelace.area2 L2.
    Proof. exact (ears_area_positive P M L Hrun Hout run_pos). Qed.
  End RunProved.

  (** every triangle lies in the plane of the outline *)
  Lemma ears_in_plane (P : Poly R) (M : Mesh R) (L : Loop R) (n : V) :
    stable_run P M -> outline_of P L -> (forall v, In v (verts L) -> vdot n (vsub v o) = 0) ->
    forall t, In t (tris M) -> vdot n (vsub (ta (tp_tri t)) o) = 0 /\ vdot n (vsub (tb (tp_tri t)) o) = 0 /\ vdot n (vsub (tc (tp_tri t)) o) = 0.
  Proof.
    intros Hr Ho Hpl t Hin. destruct (stable_run_ears P M L Hr Ho) as [D _].
    destruct (ear_decomp2_In _ _ _ D (ta (tp_tri t)) (tb (tp_tri t)) (tc (tp_tri t))) as (Ha & Hb & Hc).
    { change (ta (tp_tri t), tb (tp_tri t), tc (tp_tri t)) with (tri3 t). apply in_map. exact Hin. }
    repeat split; apply Hpl; assumption.
  Qed.
End Frame.

(** the triangle's point test over the reals: [Outside] iff one of the three barycentric coordinates the code computes
    is below -ctiny (ctiny = 100 * EPSILON of the instance); so [ear_blocked = false] says that every other vertex of
    the loop has a barycentric coordinate < -ctiny w.r.t. the ear (in particular lies outside the closed triangle) *)
Definition tri_bary (t : Tri R) (p : V) : R * R * R :=
  let e1 := vsub (tb t) (ta t) in
  let e2 := vsub (tc t) (ta t) in
  let pa := vsub p (ta t) in
  let det := vdot e1 e1 * vdot e2 e2 - vdot e2 e1 * vdot e2 e1 in
  let alpha := (vdot e2 e2 * vdot e1 pa - vdot e2 e1 * vdot e2 pa) / det in
  let beta := (- vdot e2 e1 * vdot e1 pa + vdot e1 e1 * vdot e2 pa) / det in
  (alpha, beta, 1 - alpha - beta).
Lemma tri_test_point_outside (t : Tri R) (p : V) :
  tri_test_point t p = Outside <->
  (fst (fst (tri_bary t p)) < - ctiny \/ snd (fst (tri_bary t p)) < - ctiny \/ snd (tri_bary t p) < - ctiny).
Proof.
  unfold tri_test_point, tri_bary. cbn zeta. cbn [fst snd]. rnum.
  match goal with |- context [if ?c then _ else Outside] => destruct c eqn:Ec end.
  - apply andb_prop in Ec. destruct Ec as [Ec E3]. apply andb_prop in Ec. destruct Ec as [E1 E2].
    apply Rleb_true in E1. apply Rleb_true in E2. apply Rleb_true in E3. split.
    + intros H. repeat match type of H with context [if ?b then _ else _] => destruct b end; discriminate.
    + intros [H|[H|H]]; exfalso; lra.
  - split; [intros _|reflexivity]. apply andb_false_iff in Ec. destruct Ec as [Ec|E3].
    + apply andb_false_iff in Ec. destruct Ec as [E1|E2]; [apply Rleb_false in E1; left; lra | apply Rleb_false in E2; right; left; lra].
    + apply Rleb_false in E3. right; right; lra.
Qed.

(** reading the coordinates: for an ORTHONORMAL frame e1 x e2 is a unit vector and [plane2 o e1 e2] is a bijection from the
    plane through o spanned by e1, e2 onto R^2 (with inverse (x, y) |-> o + x e1 + y e2); so [area2] of the projection is
    the true signed area and "strictly inside the projected triangle" is "strictly inside the triangle" *)
Lemma frame_unit_normal (e1 e2 : V) : vdot e1 e1 = 1 -> vdot e2 e2 = 1 -> vdot e1 e2 = 0 -> vdot (vcross e1 e2) (vcross e1 e2) = 1.
Proof.
  destruct e1 as [a1 a2 a3], e2 as [b1 b2 b3]. unfold vdot, vcross. cbn [vx vy vz]. rnum. intros H1 H2 H3.
  replace ((a2 * b3 - a3 * b2) * (a2 * b3 - a3 * b2) + (a3 * b1 - a1 * b3) * (a3 * b1 - a1 * b3) + (a1 * b2 - a2 * b1) * (a1 * b2 - a2 * b1))
    with ((a1 * a1 + a2 * a2 + a3 * a3) * (b1 * b1 + b2 * b2 + b3 * b3) - (a1 * b1 + a2 * b2 + a3 * b3) * (a1 * b1 + a2 * b2 + a3 * b3)) by ring.
  rewrite H1, H2, H3. ring.
Qed.
Lemma frame_reconstruct (o e1 e2 p : V) :
  vdot e1 e1 = 1 -> vdot e2 e2 = 1 -> vdot e1 e2 = 0 -> vdot (vcross e1 e2) (vsub p o) = 0 ->
  p = vadd o (vadd (vscale e1 (fst (plane2 o e1 e2 p))) (vscale e2 (snd (plane2 o e1 e2 p)))).
Proof.
  destruct o as [o1 o2 o3], e1 as [a1 a2 a3], e2 as [b1 b2 b3], p as [p1 p2 p3].
  unfold plane2, vdot, vcross, vsub, vadd, vscale. cbn [vx vy vz fst snd]. rnum. intros H1 H2 H3 H4.
  apply v3_eq; cbn [vx vy vz]; NsatzTactic.nsatz_default.
Qed.

(* ------------------------------------------------------------------------------------------------------------ *)
(** * 5. Non-vacuity: a cross-shaped dodecagon (12 vertices, 4 reflex corners, integer coordinates)             *)
(** On the executed binary64 instance [from_polygon] succeeds with 10 = 12 - 2 triangles; the 10th pass calls
    [sanitize] on the 6 remaining vertices and returns the same list.  Theorem A then gives the ear decomposition
    of the float outline; mapped to the reals (the coordinates are small integers, exactly representable) it is an
    ear decomposition of the real cross whose ears are all counter-clockwise, and the reduction applies at
    q = (5/4, 8/5) with the ray (1, 0): the winding number 1 counts the single ear that contains q.
    (A run of the REAL instance cannot be exhibited by computation -- the reals do not evaluate -- so the
    hypothesis [stable_run] of the theorems of section 4 is witnessed on the float instance only.) *)
From Coq Require Import Floats.
From G3 Require Import Model.NumF Proofs.Mesh_witness.
Definition ex_coords : list (Z * Z) := [(1,0);(2,0);(2,1);(3,1);(3,2);(2,2);(2,3);(1,3);(1,2);(0,2);(0,1);(1,1)]%Z.
Definition ex_ears : list ((Z * Z) * (Z * Z) * (Z * Z)) :=
  [((1,0),(2,0),(2,1)); ((2,1),(3,1),(3,2)); ((2,1),(3,2),(2,2)); ((2,2),(2,3),(1,3)); ((2,2),(1,3),(1,2));
   ((1,2),(0,2),(0,1)); ((1,2),(0,1),(1,1)); ((1,1),(1,0),(2,1)); ((2,1),(2,2),(1,2)); ((1,2),(1,1),(2,1))]%Z.
Definition zp (p : Z * Z) : V3 float := mkV3 (of_uint63 (Uint63.of_Z (fst p))) (of_uint63 (Uint63.of_Z (snd p))) (of_uint63 (Uint63.of_Z 0)).
Definition zr (p : Z * Z) : PP := (IZR (fst p), IZR (snd p)).
(** the integer value of a (small, integral) float *)
Definition fz (f : float) : Z :=
  match Prim2SF f with
  | S754_finite s m e => (if s then -1 else 1) * Z.shiftl (Zpos m) e
  | _ => 0
  end%Z.
Definition fzp (v : V3 float) : Z * Z := (fz (vx v), fz (vy v)).
Definition ex_poly : Poly float := get dummy_poly (build_poly (map zp ex_coords) []).
Definition ex_q : PP := (5 / 4, 8 / 5).
Definition ex_d : PP := (1, 0).

Lemma ex_run :
  exists (M : Mesh float) (tr : Trace) (Lm : Loop float),
    from_polygon_tr ex_poly = Ok (M, tr) /\ sanitize_unchanged tr /\ length (snd tr) = 1%nat /\
    poly_get_closed_loop ex_poly = Ok Lm /\ snd (loop_close Lm) = Ok tt /\
    verts (fst (loop_close Lm)) = map zp ex_coords /\ fst tr = map (map3 zp) ex_ears /\ length (tris M) = 10%nat.
Proof.
  eexists. eexists. eexists. split; [vm_compute; reflexivity|]. split; [vm_compute; repeat constructor|]. split; [vm_compute; reflexivity|].
  split; [vm_compute; reflexivity|]. repeat split; vm_compute; reflexivity.
Qed.
Lemma ex_stable_run : exists M : Mesh float, stable_run ex_poly M /\ from_polygon ex_poly = Ok M /\ length (tris M) = 10%nat.
Proof.
  destruct ex_run as (M & tr & Lm & H1 & Hs & _ & _ & _ & _ & _ & H10). exists M. split; [exists tr; split; assumption|]. split; [|exact H10].
  apply stable_run_ok. exists tr. split; assumption.
Qed.
(** Theorem A, used: the ear decomposition of the real cross is the image of the float run's *)
Lemma ex_ear_decomp2 : ear_decomp2 (map zr ex_coords) (map (map3 zr) ex_ears).
Proof.
  destruct ex_run as (M & tr & Lm & H1 & Hs & _ & H2 & _ & HV & HE & _).
  destruct (from_polygon_ears ex_poly M tr H1 Hs) as (Lm' & G1 & _ & D & _). rewrite H2 in G1. injection G1 as <-.
  rewrite HV, HE in D. apply (ear_decomp2_map fzp) in D.
  assert (E1 : map fzp (map zp ex_coords) = ex_coords) by (vm_compute; reflexivity).
  assert (E2 : map (map3 fzp) (map (map3 zp) ex_ears) = ex_ears) by (vm_compute; reflexivity).
  rewrite E1, E2 in D. apply (ear_decomp2_map zr) in D. exact D.
Qed.
Ltac ins_eval :=
  match goal with
  | |- context [Winding.inside_trib ?a ?b ?c ?q] =>
    first [ replace (Winding.inside_trib a b c q) with true
              by (symmetry; apply Winding.inside_trib_spec; unfold Winding.inside_tri, Winding.orient; cbn [fst snd]; left; repeat split; lra)
          | replace (Winding.inside_trib a b c q) with false
              by (symmetry; apply Winding.inside_trib_false; unfold Winding.inside_tri, Winding.orient; cbn [fst snd];
                  intros [(H1 & H2 & H3)|(H1 & H2 & H3)]; lra) ]
  end.
Lemma ex_hypotheses :
  let L2 := map zr ex_coords in let Ts := map (map3 zr) ex_ears in
  ear_decomp2 L2 Ts /\ Winding.generic ex_d ex_q L2 /\
  (forall a b c, In (a, b, c) Ts -> 0 < Winding.orient a b c /\ Winding.off_segs a b c ex_q) /\
  Winding.wn ex_d L2 ex_q = 1%Z /\ Winding.count_inside Ts ex_q = 1%nat /\ Shoelace.area2 L2 = 5.
Proof.
  cbn zeta. pose proof ex_ear_decomp2 as D.
  assert (G : Winding.generic ex_d ex_q (map zr ex_coords)).
  { intros v Hv. unfold ex_coords in Hv. cbn [map] in Hv. unfold zr in Hv. cbn [fst snd] in Hv.
    repeat (destruct Hv as [<-|Hv]; [unfold Winding.hgt, ex_d, ex_q; cbn [fst snd]; lra|]). destruct Hv. }
  assert (Hp : forall a b c, In (a, b, c) (map (map3 zr) ex_ears) -> 0 < Winding.orient a b c /\ Winding.off_lines a b c ex_q).
  { intros a b c Hin. unfold ex_ears in Hin. cbn [map] in Hin. unfold map3, zr in Hin. cbn [fst snd] in Hin.
    repeat (destruct Hin as [Hin|Hin]; [injection Hin as <- <- <-; unfold Winding.off_lines, Winding.orient, ex_q; cbn [fst snd]; repeat split; lra|]).
    destruct Hin. }
  assert (Hp' : forall a b c, In (a, b, c) (map (map3 zr) ex_ears) -> 0 < Winding.orient a b c /\ Winding.off_segs a b c ex_q).
  { intros a b c Hin. destruct (Hp a b c Hin) as [H1 H2]. split; [exact H1 | apply Winding.off_lines_off_segs; exact H2]. }
  assert (C1 : Winding.count_inside (map (map3 zr) ex_ears) ex_q = 1%nat).
  { unfold ex_ears, map3, zr, ex_q. cbn [map fst snd]. rewrite !Winding.count_inside_cons. repeat ins_eval. reflexivity. }
  split; [exact D|]. split; [exact G|]. split; [exact Hp'|]. split; [|split; [exact C1|]].
  - rewrite (ed2_count _ _ D _ _ G Hp'), C1. reflexivity.
  - assert (H2 : 2 * Shoelace.area2 (map zr ex_coords) = 10); [|lra]. rewrite (ed2_area2_doubled _ _ D).
    unfold Cyclic.tsum, Winding.orient, ex_ears, map3, zr. cbn [map fold_right fst snd]. lra.
Qed.

(** ** second example, with a HOLE: the unit square with the triangular hole (0.3,0.3) (0.45,0.6) (0.6,0.3) ([w1_poly] of
    Proofs/Mesh_witness.v; before fix 4bb2ed8 a reversed ear covered the hole).  The merged outline has 9 vertices (the
    bridge (0,0)-(0.3,0.3) is walked twice); the run gives 7 = 9 - 2 triangles, one [sanitize] call (4 vertices, unchanged),
    every ear passes [ear_convex].  Over the reals, in units of 1/20 (any map of the vertices carries an ear decomposition
    along: here the float coordinates are read as the nearest multiple of 1/20): all 7 ears are counter-clockwise; a point
    of the region is covered once, a point IN THE HOLE has winding number 0 and is covered by no triangle; area 400 - 18. *)
Definition ex2_coords : list (Z * Z) := [(0,0);(6,6);(9,12);(12,6);(6,6);(0,0);(20,0);(20,20);(0,20)]%Z.
Definition ex2_ears : list ((Z * Z) * (Z * Z) * (Z * Z)) :=
  [((0,0),(6,6),(9,12)); ((12,6),(6,6),(0,0)); ((12,6),(0,0),(20,0)); ((12,6),(20,0),(20,20));
   ((0,20),(0,0),(9,12)); ((9,12),(12,6),(20,20)); ((20,20),(0,20),(9,12))]%Z.
Definition fz20 (f : float) : Z := fz (PrimFloat.add (PrimFloat.mul f (of_uint63 (Uint63.of_Z 20))) (PrimFloat.div (of_uint63 (Uint63.of_Z 1)) (of_uint63 (Uint63.of_Z 2)))).
Definition fzp20 (v : V3 float) : Z * Z := (fz20 (vx v), fz20 (vy v)).
Definition ex2_q : PP := (163 / 10, 41 / 10).
Definition ex2_qhole : PP := (91 / 10, 83 / 10).

Lemma ex2_run :
  exists (M : Mesh float) (tr : Trace) (Lm : Loop float),
    from_polygon_tr w1_poly = Ok (M, tr) /\ sanitize_unchanged tr /\ length (snd tr) = 1%nat /\ length (pinner w1_poly) = 1%nat /\
    poly_get_closed_loop w1_poly = Ok Lm /\ snd (loop_close Lm) = Ok tt /\
    map fzp20 (verts (fst (loop_close Lm))) = ex2_coords /\ map (map3 fzp20) (fst tr) = ex2_ears /\ length (tris M) = 7%nat /\
    forallb (fun e => ear_convex w1_poly (fst (fst e)) (snd (fst e)) (snd e)) (fst tr) = true.
Proof.
  eexists. eexists. eexists. split; [vm_compute; reflexivity|]. split; [vm_compute; repeat constructor|]. split; [vm_compute; reflexivity|].
  split; [vm_compute; reflexivity|]. split; [vm_compute; reflexivity|]. repeat split; vm_compute; reflexivity.
Qed.
Lemma ex2_ear_decomp2 : ear_decomp2 (map zr ex2_coords) (map (map3 zr) ex2_ears).
Proof.
  destruct ex2_run as (M & tr & Lm & H1 & Hs & _ & _ & H2 & _ & HV & HE & _).
  destruct (from_polygon_ears w1_poly M tr H1 Hs) as (Lm' & G1 & _ & D & _). rewrite H2 in G1. injection G1 as <-.
  apply (ear_decomp2_map fzp20) in D. rewrite HV, HE in D. apply (ear_decomp2_map zr) in D. exact D.
Qed.
Lemma ex2_hypotheses :
  let L2 := map zr ex2_coords in let Ts := map (map3 zr) ex2_ears in
  ear_decomp2 L2 Ts /\ (forall a b c, In (a, b, c) Ts -> 0 < Winding.orient a b c) /\
  Winding.generic ex_d ex2_q L2 /\ (forall a b c, In (a, b, c) Ts -> Winding.off_segs a b c ex2_q) /\
  Winding.wn ex_d L2 ex2_q = 1%Z /\ Winding.count_inside Ts ex2_q = 1%nat /\
  Winding.generic ex_d ex2_qhole L2 /\ (forall a b c, In (a, b, c) Ts -> Winding.off_segs a b c ex2_qhole) /\
  Winding.wn ex_d L2 ex2_qhole = 0%Z /\ (forall a b c, In (a, b, c) Ts -> ~ Winding.inside_tri a b c ex2_qhole) /\
  Shoelace.area2 L2 = 382.
Proof.
  cbn zeta. pose proof ex2_ear_decomp2 as D.
  assert (G : forall q : PP, snd q = 41 / 10 \/ snd q = 83 / 10 -> Winding.generic ex_d q (map zr ex2_coords)).
  { intros q Hq v Hv. unfold ex2_coords in Hv. cbn [map] in Hv. unfold zr in Hv. cbn [fst snd] in Hv.
    repeat (destruct Hv as [<-|Hv]; [unfold Winding.hgt, ex_d; cbn [fst snd]; destruct Hq as [-> | ->]; lra|]). destruct Hv. }
  assert (Hp : forall a b c, In (a, b, c) (map (map3 zr) ex2_ears) ->
               0 < Winding.orient a b c /\ Winding.off_lines a b c ex2_q /\ Winding.off_lines a b c ex2_qhole).
  { intros a b c Hin. unfold ex2_ears in Hin. cbn [map] in Hin. unfold map3, zr in Hin. cbn [fst snd] in Hin.
    repeat (destruct Hin as [Hin|Hin]; [injection Hin as <- <- <-; unfold Winding.off_lines, Winding.orient, ex2_q, ex2_qhole; cbn [fst snd]; repeat split; lra|]).
    destruct Hin. }
  assert (Hpos : forall a b c, In (a, b, c) (map (map3 zr) ex2_ears) -> 0 < Winding.orient a b c) by (intros a b c Hin; apply (Hp a b c Hin)).
  assert (Hq : forall a b c, In (a, b, c) (map (map3 zr) ex2_ears) -> 0 < Winding.orient a b c /\ Winding.off_segs a b c ex2_q).
  { intros a b c Hin. destruct (Hp a b c Hin) as (H1 & H2 & _). split; [exact H1 | apply Winding.off_lines_off_segs; exact H2]. }
  assert (Hqh : forall a b c, In (a, b, c) (map (map3 zr) ex2_ears) -> 0 < Winding.orient a b c /\ Winding.off_segs a b c ex2_qhole).
  { intros a b c Hin. destruct (Hp a b c Hin) as (H1 & _ & H2). split; [exact H1 | apply Winding.off_lines_off_segs; exact H2]. }
  assert (C1 : Winding.count_inside (map (map3 zr) ex2_ears) ex2_q = 1%nat).
  { unfold ex2_ears, map3, zr, ex2_q. cbn [map fst snd]. rewrite !Winding.count_inside_cons. repeat ins_eval. reflexivity. }
  assert (C0 : Winding.count_inside (map (map3 zr) ex2_ears) ex2_qhole = 0%nat).
  { unfold ex2_ears, map3, zr, ex2_qhole. cbn [map fst snd]. rewrite !Winding.count_inside_cons. repeat ins_eval. reflexivity. }
  assert (G1 := G ex2_q (or_introl eq_refl)). assert (G0 := G ex2_qhole (or_intror eq_refl)).
  split; [exact D|]. split; [exact Hpos|]. split; [exact G1|]. split; [intros a b c Hin; apply (Hq a b c Hin)|].
  split; [rewrite (ed2_count _ _ D _ _ G1 Hq), C1; reflexivity|]. split; [exact C1|].
  split; [exact G0|]. split; [intros a b c Hin; apply (Hqh a b c Hin)|].
  split; [rewrite (ed2_count _ _ D _ _ G0 Hqh), C0; reflexivity|]. split; [apply count_zero_none; exact C0|].
  assert (H2 : 2 * Shoelace.area2 (map zr ex2_coords) = 764); [|lra]. rewrite (ed2_area2_doubled _ _ D).
  unfold Cyclic.tsum, Winding.orient, ex2_ears, map3, zr. cbn [map fold_right fst snd]. lra.
Qed.

(** ** the hypothesis [sanitize_unchanged] is not redundant: a 16-vertex comb (rectilinear, three slots) on which the 10th
    pass's [sanitize] DROPS a vertex that has become collinear; the run succeeds with 13 = |L| - 3 triangles.  (Fix
    4bb2ed8 changed the clipping order, so the former 8-vertex witness of Proofs/Mesh_witness.v now gives |L| - 2.) *)
Definition ex3_coords : list (Z * Z) := [(0,0);(7,0);(7,5);(6,5);(6,1);(5,1);(5,5);(4,5);(4,1);(3,1);(3,5);(2,5);(2,1);(1,1);(1,5);(0,5)]%Z.
Definition ex3_poly : Poly float := get dummy_poly (build_poly (map zp ex3_coords) []).
Lemma sanitize_changed_length {K : Type} (tr : Trace (K := K)) :
  existsb (fun p => negb (Nat.eqb (length (fst p)) (length (snd p)))) (snd tr) = true -> ~ sanitize_unchanged tr.
Proof.
  unfold sanitize_unchanged. intros E F. apply existsb_exists in E. destruct E as (p & Hin & Hp). rewrite Forall_forall in F.
  rewrite (F p Hin) in Hp. rewrite Nat.eqb_refl in Hp. discriminate.
Qed.
Lemma ex3_sanitize_changes :
  exists (M : Mesh float) (tr : Trace) (Lm : Loop float),
    from_polygon_tr ex3_poly = Ok (M, tr) /\ ~ sanitize_unchanged tr /\
    poly_get_closed_loop ex3_poly = Ok Lm /\ snd (loop_close Lm) = Ok tt /\
    llen (fst (loop_close Lm)) = 16%nat /\ length (tris M) = 13%nat.
Proof.
  eexists. eexists. eexists. split; [vm_compute; reflexivity|]. split; [apply sanitize_changed_length; vm_compute; reflexivity|].
  split; [vm_compute; reflexivity|]. repeat split; vm_compute; reflexivity.
Qed.
