(** * Bridge32_C15: the float-tier theorem of C15 at binary32, transferred to the EXECUTED f32 instance.
    [of_b32 : NumB32 -> NumF32] is a total homomorphism (Theory/F32Bridge.v); [bbox_by], [mul4x4point],
    [bbox_point_inside] (Proofs/Bridge_model.v) and the evaluable hypothesis [tr_ok_b] (Proofs/Bridge_C15.v) commute with it,
    so [bbox_by_contains_image_float_b] at (24,128) reads on [NumF32] for binary32-valued primitive floats
    ([is32M m], [is32B b], [is32V p]: every entry is the embedding of a binary32 number). *)
From Coq Require Import ZArith Reals Bool Floats.
From Flocq Require Import Core BinarySingleNaN.
From G3 Require Import Model.Num Model.NumF Model.NumF32 Model.Base Model.Vec Model.BBox Model.Transform Model.Bounds.
From G3 Require Import Theory.PrimBridge Theory.F32Bridge Proofs.Bridge_model Proofs.Bridge32_model Proofs.Bridge32_C16.
From G3 Require Import Proofs.C15_float Proofs.Bridge_C15.

Theorem f32_bbox_by_contains_image_emb (m : M4 b32) (b : BBox b32) (p : V3 b32) :
  @tr_ok_b _ NumF32 (oM m) (oB b) = true -> @bbox_point_inside _ NumF32 (oB b) (oV p) = true ->
  @bbox_point_inside _ NumF32 (@bbox_by _ NumF32 (oM m) (oB b)) (@mul4x4point _ NumF32 (oM m) (oV p)) = true.
Proof.
  intros Hok Hin. rewrite (hom_tr_ok_b of_b32) in Hok. rewrite (hom_bbox_point_inside of_b32) in Hin.
  rewrite (hom_bbox_by of_b32), (hom_mul4x4point of_b32), (hom_bbox_point_inside of_b32).
  exact (bbox_by_contains_image_float_b 24 128 Hprec24 Hmax128 m b p Hok Hin).
Qed.
Theorem f32_bbox_by_contains_image (m : M4 prim) (b : BBox prim) (p : V3 prim) : is32M m -> is32B b -> is32V p ->
  @tr_ok_b _ NumF32 m b = true -> @bbox_point_inside _ NumF32 b p = true ->
  @bbox_point_inside _ NumF32 (@bbox_by _ NumF32 m b) (@mul4x4point _ NumF32 m p) = true.
Proof.
  intros Hm Hb Hp. rewrite <- Hm, <- (oB_tB b Hb), <- (oV_tV p Hp). apply f32_bbox_by_contains_image_emb.
Qed.

(** non-vacuity on the f32 instance: scale (2,-3,1/2) then translate (1,-2,4) as one matrix, the unit box, an interior point *)
Local Open Scope float_scope.
Definition w32_m15 : M4 prim := mkM4 2 0 0 1  0 (-3) 0 (-2)  0 0 0.5 4  0 0 0 1.
Definition w32_b15 : BBox prim := mkBBox (mkV3 0 0 0) (mkV3 1 1 1).
Definition w32_p15 : V3 prim := mkV3 0.5 0.25 1.
Local Close Scope float_scope.
Lemma f32_C15_nonvacuous :
  is32M w32_m15 /\ is32B w32_b15 /\ is32V w32_p15 /\
  @tr_ok_b _ NumF32 w32_m15 w32_b15 = true /\ @bbox_point_inside _ NumF32 w32_b15 w32_p15 = true.
Proof.
  split; [apply is32M_entries; apply is32_by_bits; vm_compute; reflexivity|].
  split; [repeat split; apply is32_by_bits; vm_compute; reflexivity|].
  split; [repeat split; apply is32_by_bits; vm_compute; reflexivity|].
  split; vm_compute; reflexivity.
Qed.
