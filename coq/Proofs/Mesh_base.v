(** * Mesh_base: reasoning principles for the state transformers [MR] of Model/Triangulation.v.
    Everything here holds for EVERY number instance of the model. *)
From Coq Require Import ZArith Bool List Arith Lia.
From G3 Require Import Model.Num Model.Base Model.Vec Model.Segment Model.Triangle Model.Loop Model.Polygon Model.Triangulation.
Import ListNotations.

Section MeshBase.
  Context {K : Type} {NK : Num K}.
  Notation V := (V3 K).
  Notation TP := (TriPiece K).
  Notation Mesh := (Mesh K).

  (** ** inversion of [mbind] *)
  Lemma mbind_ok {A B} (m : MR A) (f : A -> MR B) (M M2 : Mesh) (b : B) :
    mbind m f M = (M2, Ok b) -> exists a M1, m M = (M1, Ok a) /\ f a M1 = (M2, Ok b).
  Proof.
    unfold mbind. destruct (m M) as [M1 [a| |]]; intros H; try discriminate. exists a, M1. split; [reflexivity|exact H].
  Qed.
  Lemma mbind_inv {A B} (m : MR A) (f : A -> MR B) (M M2 : Mesh) (r : res B) :
    mbind m f M = (M2, r) ->
    (exists a M1, m M = (M1, Ok a) /\ f a M1 = (M2, r)) \/
    (exists c, m M = (M2, Err c) /\ r = Err c) \/ (exists s, m M = (M2, Panic s) /\ r = Panic s).
  Proof.
    unfold mbind. destruct (m M) as [M1 [a| c | s]]; intros H.
    - left. exists a, M1. split; [reflexivity|exact H].
    - right; left. exists c. inversion H; subst. split; reflexivity.
    - right; right. exists s. inversion H; subst. split; reflexivity.
  Qed.

  (** ** a relation between the mesh before and after, established whatever the outcome *)
  Definition Pres {A} (R : Mesh -> Mesh -> Prop) (m : MR A) : Prop :=
    forall M M' r, m M = (M', r) -> R M M'.
  Section PresRules.
    Variable R : Mesh -> Mesh -> Prop.
    Hypothesis Rrefl : forall M, R M M.
    Hypothesis Rtrans : forall M1 M2 M3, R M1 M2 -> R M2 M3 -> R M1 M3.
    Lemma pres_ret {A} (a : A) : Pres R (mret a).
    Proof. intros M M' r H. inversion H; subst. apply Rrefl. Qed.
    Lemma pres_lift {A} (x : res A) : Pres R (mlift x).
    Proof. intros M M' r H. inversion H; subst. apply Rrefl. Qed.
    Lemma pres_get (s : N) (i : nat) : Pres R (mget (K:=K) s i).
    Proof. intros M M' r H. inversion H; subst. apply Rrefl. Qed.
    Lemma pres_bind {A B} (m : MR A) (f : A -> MR B) : Pres R m -> (forall a, Pres R (f a)) -> Pres R (mbind m f).
    Proof.
      intros Hm Hf M M' r H. apply mbind_inv in H. destruct H as [(a & M1 & H1 & H2) | [(c & H1 & _) | (s & H1 & _)]].
      - eapply Rtrans; [eapply Hm; exact H1 | eapply Hf; exact H2].
      - eapply Hm; exact H1.
      - eapply Hm; exact H1.
    Qed.
    Lemma pres_when (b : bool) (m : MR unit) : Pres R m -> Pres R (mwhen b m).
    Proof. intros H. destruct b; [exact H | apply pres_ret]. Qed.
    Lemma pres_read {A} (g : Mesh -> res A) : Pres R (fun M => (M, g M)).
    Proof. intros M M' r H. inversion H; subst. apply Rrefl. Qed.
    Lemma pres_state {A} (f : Mesh -> MR A) : (forall M0, Pres R (f M0)) -> Pres R (fun M => f M M).
    Proof. intros H M M' r E. eapply H. exact E. Qed.
  End PresRules.

  (** ** the panic sites an operation can reach *)
  Definition NP {A} (okb : N -> bool) (m : MR (K:=K) A) : Prop :=
    forall M M' s, m M = (M', Panic s) -> okb s = true.
  Definition np_res {A} (okb : N -> bool) (x : res A) : Prop := forall s, x = Panic s -> okb s = true.
  Section NPRules.
    Variable okb : N -> bool.
    Lemma np_ret {A} (a : A) : NP okb (mret a).
    Proof. intros M M' s H. discriminate. Qed.
    Lemma np_lift {A} (x : res A) : np_res okb x -> NP okb (mlift x).
    Proof. intros Hx M M' s H. inversion H; subst. apply Hx. reflexivity. Qed.
    Lemma np_get (site : N) (i : nat) : okb site = true -> NP okb (mget (K:=K) site i).
    Proof. intros Hs M M' s H. unfold mget in H. destruct (nth_error (tris M) i); inversion H; subst. exact Hs. Qed.
    Lemma np_bind {A B} (m : MR A) (f : A -> MR B) : NP okb m -> (forall a, NP okb (f a)) -> NP okb (mbind m f).
    Proof.
      intros Hm Hf M M' s H. apply mbind_inv in H. destruct H as [(a & M1 & H1 & H2) | [(c & H1 & H3) | (s' & H1 & H3)]].
      - eapply Hf; exact H2.
      - discriminate.
      - inversion H3; subst. eapply Hm; exact H1.
    Qed.
    Lemma np_when (b : bool) (m : MR unit) : NP okb m -> NP okb (mwhen b m).
    Proof. intros H. destruct b; [exact H | apply np_ret]. Qed.
    Lemma np_read {A} (g : Mesh -> res A) : (forall M, np_res okb (g M)) -> NP okb (fun M => (M, g M)).
    Proof. intros Hg M M' s H. inversion H; subst. eapply Hg. eassumption. Qed.
    Lemma np_state {A} (f : Mesh -> MR A) : (forall M0, NP okb (f M0)) -> NP okb (fun M => f M M).
    Proof. intros H M M' s E. eapply H. exact E. Qed.
    Lemma np_res_ok {A} (a : A) : np_res okb (Ok a).
    Proof. intros s H; discriminate. Qed.
    Lemma np_res_err {A} (c : N) : np_res okb (@Err A c).
    Proof. intros s H; discriminate. Qed.
    Lemma np_res_panic {A} (site : N) : okb site = true -> np_res okb (@Panic A site).
    Proof. intros H s E. inversion E; subst. exact H. Qed.
    Lemma np_res_bind {A B} (x : res A) (f : A -> res B) : np_res okb x -> (forall a, np_res okb (f a)) -> np_res okb (rbind x f).
    Proof. intros Hx Hf s. destruct x as [a| |s']; cbn [rbind]; intros H; [eapply Hf; exact H | discriminate | inversion H; subst; apply Hx; reflexivity]. Qed.
  End NPRules.

  (** ** list helpers: [upd], [set_nth] *)
  Lemma upd_length (i : nat) (f : TP -> TP) (l : list TP) : length (upd i f l) = length l.
  Proof. revert i; induction l as [|t l IH]; intros [|i]; cbn [upd length]; try reflexivity. rewrite IH. reflexivity. Qed.
  Lemma set_nth_length (i : nat) (x : TP) (l : list TP) : length (set_nth i x l) = length l.
  Proof. revert i; induction l as [|t l IH]; intros [|i]; cbn [set_nth length]; try reflexivity. rewrite IH. reflexivity. Qed.
  Lemma nth_error_upd (i j : nat) (f : TP -> TP) (l : list TP) :
    nth_error (upd i f l) j = if Nat.eqb i j then option_map f (nth_error l j) else nth_error l j.
  Proof.
    revert i j; induction l as [|t l IH]; intros [|i] [|j]; cbn [upd nth_error Nat.eqb option_map]; try reflexivity.
    - destruct (Nat.eqb _ _); reflexivity.
    - apply IH.
  Qed.
  Lemma nth_error_set_nth (i j : nat) (x : TP) (l : list TP) :
    nth_error (set_nth i x l) j = if Nat.eqb i j then (if Nat.ltb j (length l) then Some x else None) else nth_error l j.
  Proof.
    revert i j; induction l as [|t l IH]; intros [|i] [|j]; cbn [set_nth nth_error Nat.eqb length]; try reflexivity.
    - destruct (Nat.eqb _ _); reflexivity.
    - rewrite IH. destruct (Nat.eqb i j); [|reflexivity].
      change (Nat.ltb (S j) (S (length l))) with (Nat.ltb j (length l)). reflexivity.
  Qed.

  (** [get_first_invalid] returns the index of an invalid slot *)
  Lemma first_invalid_from_spec (l : list TP) (i k : nat) :
    first_invalid_from l i = Some k -> i <= k /\ exists t, nth_error l (k - i) = Some t /\ tp_valid t = false.
  Proof.
    revert i; induction l as [|t l IH]; intros i; cbn [first_invalid_from]; [discriminate|].
    destruct (tp_valid t) eqn:Ev; cbn [negb].
    - intros H. apply IH in H. destruct H as (Hle & u & Hu & Hv). split; [lia|]. exists u. split; [|exact Hv].
      replace (k - i) with (S (k - S i)) by lia. exact Hu.
    - intros H. inversion H; subst. split; [lia|]. exists t. rewrite Nat.sub_diag. split; [reflexivity|exact Ev].
  Qed.
  Lemma nth_error_skipn' {A} (n i : nat) (l : list A) : nth_error (skipn n l) i = nth_error l (n + i).
  Proof. revert l; induction n as [|n IH]; intros [|x l]; cbn [skipn nth_error Nat.add]; try reflexivity; [destruct i; reflexivity | apply IH]. Qed.
  Lemma get_first_invalid_spec (M : Mesh) (start k : nat) :
    get_first_invalid M start = Some k -> k < length (tris M) /\ exists t, nth_error (tris M) k = Some t /\ tp_valid t = false.
  Proof.
    unfold get_first_invalid. destruct (Nat.ltb start (length (tris M))) eqn:E; [|discriminate].
    intros H. apply first_invalid_from_spec in H. destruct H as (Hle & t & Ht & Hv).
    rewrite nth_error_skipn' in Ht. replace (start + (k - start)) with k in Ht by lia.
    split; [apply nth_error_Some; congruence|]. exists t. split; assumption.
  Qed.

  (** ** Edge::from_i is only ever applied to 0, 1, 2 *)
  Lemma edge_from_i_lt (i : N) : (i < 3)%N -> exists e, edge_from_i i = Ok e.
  Proof.
    intros H. destruct i as [|p]; [eexists; reflexivity|].
    destruct p as [p|p|]; try (destruct p; try lia; eexists; reflexivity). eexists; reflexivity.
  Qed.
  Lemma edge_add_ok (e : Edge) (k : N) : exists e', edge_add e k = Ok e'.
  Proof. unfold edge_add. apply edge_from_i_lt. apply N.mod_lt. discriminate. Qed.
  Lemma edge_index_lt (t : Tri K) (s : Seg K) (i : N) : tri_get_edge_index_from_segment t s = Some i -> (i < 3)%N.
  Proof.
    unfold tri_get_edge_index_from_segment. destruct (seg_compare _ _); [intros H; inversion H; lia|].
    destruct (seg_compare _ _); [intros H; inversion H; lia|]. destruct (seg_compare _ _); [intros H; inversion H; lia|discriminate].
  Qed.
  Lemma longest_edge_lt (t : Tri K) (i : N) (s : Seg K) : longest_edge t = Ok (i, s) -> (i < 3)%N.
  Proof.
    unfold longest_edge. cbn [tri_segment rbind].
    destruct (nltb (slength (tri_ab t)) (slength (tri_bc t))); destruct (nltb _ (slength (tri_ca t))); intros H; inversion H; lia.
  Qed.
End MeshBase.
