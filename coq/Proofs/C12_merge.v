(** * C12 proofs: get_closed_loop -- index arithmetic of the hole walk, and the vertex sequence it produces.
    Instance-generic (reals, Flocq floats, primitive floats alike). *)
From Coq Require Import ZArith Bool List Arith Lia.
From G3 Require Import Model.Num Model.Base Model.Vec Model.Segment Model.Loop Model.Polygon Model.Json Model.PolyAux Proofs.C04_loop.
Import ListNotations.

(** ** (b) the repaired index arithmetic visits every vertex of the hole and returns to its start *)
Section HoleIndex.
  Lemma back_idx (id j n : nat) : id < n -> j <= n -> (id + n - j) mod n = if Nat.leb j id then id - j else id + n - j.
  Proof.
    intros Hi Hj. destruct (Nat.leb j id) eqn:E.
    - apply Nat.leb_le in E. replace (id + n - j) with ((id - j) + 1 * n) by lia. rewrite Nat.mod_add by lia. apply Nat.mod_small; lia.
    - apply Nat.leb_gt in E. apply Nat.mod_small; lia.
  Qed.
  Lemma fwd_idx (id j n : nat) : id < n -> j <= n -> (id + j) mod n = if Nat.ltb (id + j) n then id + j else id + j - n.
  Proof.
    intros Hi Hj. destruct (Nat.ltb (id + j) n) eqn:E.
    - apply Nat.ltb_lt in E. apply Nat.mod_small; lia.
    - apply Nat.ltb_ge in E. replace (id + j) with ((id + j - n) + 1 * n) at 1 by lia. rewrite Nat.mod_add by lia. apply Nat.mod_small; lia.
  Qed.
  Lemma hole_index_eq (sd : bool) (id j n : nat) : id < n -> j <= n ->
    hole_index false sd id j n = if sd then (if Nat.leb j id then id - j else id + n - j) else (if Nat.ltb (id + j) n then id + j else id + j - n).
  Proof. intros Hi Hj. unfold hole_index. destruct sd; [apply back_idx | apply fwd_idx]; assumption. Qed.

  Lemma hole_index_lt (sd : bool) (id j n : nat) : n <> 0 -> hole_index false sd id j n < n.
  Proof. intros Hn. unfold hole_index. destruct sd; apply Nat.mod_upper_bound; exact Hn. Qed.
  (** the walk starts at the nearest vertex [id] and, after n steps, is back there *)
  Lemma hole_index_start (sd : bool) (id n : nat) : id < n -> hole_index false sd id 0 n = id.
  Proof.
    intros Hi. rewrite hole_index_eq by lia. destruct sd.
    - cbn [Nat.leb]. lia.
    - destruct (Nat.ltb (id + 0) n) eqn:E; [lia | apply Nat.ltb_ge in E; lia].
  Qed.
  Lemma hole_index_return (sd : bool) (id n : nat) : id < n -> hole_index false sd id n n = id.
  Proof.
    intros Hi. rewrite hole_index_eq by lia. destruct sd.
    - destruct (Nat.leb n id) eqn:E; [apply Nat.leb_le in E; lia | lia].
    - destruct (Nat.ltb (id + n) n) eqn:E; [apply Nat.ltb_lt in E; lia | lia].
  Qed.
  (** each step moves to the cyclic predecessor (same direction as the outline: the hole is walked
      backwards) or to the cyclic successor (opposite direction: forwards) *)
  Lemma hole_index_step_back (id j n : nat) : id < n -> j < n ->
    hole_index false true id (S j) n = (hole_index false true id j n + n - 1) mod n.
  Proof.
    intros Hi Hj. rewrite !hole_index_eq by lia.
    destruct (Nat.leb_spec (S j) id) as [E1|E1]; destruct (Nat.leb_spec j id) as [E2|E2]; try lia.
    - replace (id - j + n - 1) with ((id - S j) + 1 * n) by lia. rewrite Nat.mod_add by lia. symmetry; apply Nat.mod_small; lia.
    - assert (id = j) by lia. subst. replace (j - j + n - 1) with (n - 1) by lia. rewrite Nat.mod_small by lia. lia.
    - symmetry. replace (id + n - j + n - 1) with ((id + n - S j) + 1 * n) by lia. rewrite Nat.mod_add by lia. apply Nat.mod_small; lia.
  Qed.
  Lemma hole_index_step_fwd (id j n : nat) : id < n -> j < n ->
    hole_index false false id (S j) n = (hole_index false false id j n + 1) mod n.
  Proof.
    intros Hi Hj. rewrite !hole_index_eq by lia.
    destruct (Nat.ltb_spec (id + S j) n) as [E1|E1]; destruct (Nat.ltb_spec (id + j) n) as [E2|E2]; try lia.
    - symmetry. rewrite Nat.mod_small by lia. lia.
    - assert (id + S j = n) by lia. replace (id + j + 1) with (0 + 1 * n) by lia. rewrite Nat.mod_add by lia. rewrite Nat.mod_small by lia. lia.
    - symmetry. rewrite Nat.mod_small by lia. lia.
  Qed.
  (** every vertex of the hole is visited, exactly once among the first n steps *)
  Lemma hole_index_visits (sd : bool) (id n r : nat) : id < n -> r < n -> exists j, j < n /\ hole_index false sd id j n = r.
  Proof.
    intros Hi Hr. destruct sd.
    - destruct (Nat.le_gt_cases r id) as [H|H].
      + exists (id - r). split; [lia|]. rewrite hole_index_eq by lia. destruct (Nat.leb (id - r) id) eqn:E; [lia | apply Nat.leb_gt in E; lia].
      + exists (id + n - r). split; [lia|]. rewrite hole_index_eq by lia. destruct (Nat.leb (id + n - r) id) eqn:E; [apply Nat.leb_le in E; lia | lia].
    - destruct (Nat.le_gt_cases id r) as [H|H].
      + exists (r - id). split; [lia|]. rewrite hole_index_eq by lia. destruct (Nat.ltb (id + (r - id)) n) eqn:E; [lia | apply Nat.ltb_ge in E; lia].
      + exists (r + n - id). split; [lia|]. rewrite hole_index_eq by lia. destruct (Nat.ltb (id + (r + n - id)) n) eqn:E; [apply Nat.ltb_lt in E; lia | lia].
  Qed.
  Lemma hole_index_inj (sd : bool) (id n j j' : nat) : id < n -> j < n -> j' < n ->
    hole_index false sd id j n = hole_index false sd id j' n -> j = j'.
  Proof.
    intros Hi Hj Hj'. rewrite !hole_index_eq by lia. destruct sd.
    - destruct (Nat.leb_spec j id) as [E1|E1]; destruct (Nat.leb_spec j' id) as [E2|E2]; lia.
    - destruct (Nat.ltb_spec (id + j) n) as [E1|E1]; destruct (Nat.ltb_spec (id + j') n) as [E2|E2]; lia.
  Qed.

  (** the pinned arithmetic `(id as i32 - j as i32) as usize % n` is not `(id + n - j) mod n` *)
  Lemma pinned_hole_index_refuted : exists id j n, id < n /\ j <= n /\ hole_index true true id j n <> (id + n - j) mod n.
  Proof. exists 0, 1, 3. split; [lia|]. split; [lia|]. vm_compute. discriminate. Qed.
  (** ... it agrees whenever no wrap-around happens (j <= id), and for every j when n divides 2^64 *)
  Lemma pinned_hole_index_no_wrap (id j n : nat) : j <= id -> id < n -> hole_index true true id j n = (id + n - j) mod n.
  Proof.
    intros Hj Hi. unfold hole_index. assert ((Z.of_nat id - Z.of_nat j <? 0)%Z = false) as -> by (apply Z.ltb_ge; lia).
    rewrite back_idx by lia. assert (Nat.leb j id = true) as -> by (apply Nat.leb_le; lia).
    rewrite <- Nat2Z.inj_sub by lia. rewrite Z.mod_small by lia. apply Nat2Z.id.
  Qed.
End HoleIndex.

Section AnyNum.
  Context {K : Type} {NK : Num K}.
  Notation V := (V3 K).

  (** ** what one push does to the vertex list *)
  Lemma replace_last_length (vs : list V) (p : V) : vs <> [] -> length (replace_last vs p) = length vs.
  Proof.
    intros H. unfold replace_last. rewrite app_length. cbn [length].
    rewrite (app_removelast_last p H) at 2. rewrite app_length. reflexivity.
  Qed.
  Lemma set_normal_verts (L L' : Loop K) : loop_set_normal L = Ok L' -> verts L' = verts L.
  Proof. unfold loop_set_normal. destruct (verts L) as [|a [|b [|c l]]] eqn:E; try discriminate. intros H; inversion H; subst. cbn. exact E. Qed.
  Lemma removelast_length {A} (l : list A) : length (removelast l) = length l - 1.
  Proof. induction l as [|x [|y l] IH]; cbn [removelast length] in *; try reflexivity. rewrite IH. cbn. lia. Qed.
  Lemma push_keep_le (vs : list V) (p : V) (fuel : nat) : forall keep k, push_keep vs p keep fuel = Ok k -> k <= keep.
  Proof.
    induction fuel as [|f IH]; intros keep k; cbn [push_keep]; [intros H; inversion H; lia|].
    destruct (Nat.leb 2 keep); [|intros H; inversion H; lia].
    destruct (is_collinear _ _ p) as [[|]| |]; cbn [rbind]; try discriminate; [|intros H; inversion H; lia].
    intros H. apply IH in H. lia.
  Qed.
  (** (since the fix of push/close a push may shorten the list by any number of vertices: the popped spike, or every
      trailing vertex that the new point makes redundant) *)
  Lemma push_cases (L L' : Loop K) (p : V) : loop_push L p = Ok L' ->
    (exists keep, keep <= llen L /\ verts L' = firstn keep (verts L) ++ [p]) \/
    (verts L' = removelast (verts L) /\ 2 <= llen L).
  Proof.
    unfold loop_push. destruct (valid_to_add L p); cbn [rbind]; try discriminate.
    assert (G : forall vs, (if Nat.eqb (length vs) 3 then loop_set_normal (set_verts L vs)
                 else if Nat.ltb (length vs) 3 then Ok (set_normal_field (set_verts L vs) vzero) else Ok (set_verts L vs)) = Ok L' -> verts L' = vs).
    { intros vs. destruct (Nat.eqb _ 3); [intros H; apply set_normal_verts in H; exact H|]. destruct (Nat.ltb _ 3); intros H; inversion H; reflexivity. }
    destruct (Nat.leb 2 (llen L)) eqn:E2.
    - apply Nat.leb_le in E2. destruct (vcompare _ p).
      { cbn [rbind]. intros H. apply G in H. right. auto. }
      destruct (push_keep _ p _ _) as [keep| |] eqn:Ek; cbn [rbind]; try discriminate.
      intros H. apply G in H. left. exists keep. split; [exact (push_keep_le _ _ _ _ _ Ek) | exact H].
    - cbn [rbind]. intros H. apply G in H. left. exists (llen L). split; [lia|]. unfold llen. rewrite firstn_all. exact H.
  Qed.
  Lemma push_len (L L' : Loop K) (p : V) : loop_push L p = Ok L' ->
    llen L' <= S (llen L) /\ True /\ (llen L' = S (llen L) -> verts L' = verts L ++ [p]).
  Proof.
    intros H. destruct (push_cases _ _ _ H) as [(keep & Hk & E)|[E H2]]; unfold llen in *; rewrite E.
    - rewrite app_length, firstn_length. cbn [length]. split; [lia|]. split; [exact I|]. intros C.
      assert (keep = length (verts L)) by lia. subst keep. rewrite firstn_all. reflexivity.
    - rewrite removelast_length. split; [lia|]. split; [exact I|]. intros C; lia.
  Qed.

  Lemma unwrap_ok {A} s (r : res A) (a : A) : unwrap s r = Ok a -> r = Ok a.
  Proof. destruct r; cbn; intros H; [exact H | discriminate..]. Qed.
  Lemma unwrap_of_ok {A} s (a : A) : unwrap s (Ok a) = Ok a. Proof. reflexivity. Qed.
  Lemma rbind_assoc {A B C} (r : res A) (f : A -> res B) (g : B -> res C) : rbind (rbind r f) g = rbind r (fun a => rbind (f a) g).
  Proof. destruct r; reflexivity. Qed.

  Lemma push_seq_app (s : N) (a b : list V) : forall L : Loop K, push_seq s L (a ++ b) = rbind (push_seq s L a) (fun L' => push_seq s L' b).
  Proof. induction a as [|p a IH]; intros L; cbn [app push_seq]; [reflexivity|]. rewrite rbind_assoc. destruct (unwrap s (loop_push L p)); cbn [rbind]; [apply IH | reflexivity..]. Qed.
  (** pushing k points adds at most k vertices; if it adds exactly k, every push appended *)
  Lemma push_seq_len (s : N) (ps : list V) : forall L L' : Loop K, push_seq s L ps = Ok L' ->
    llen L' <= llen L + length ps /\ (llen L' = llen L + length ps -> verts L' = verts L ++ ps).
  Proof.
    induction ps as [|p tl IH]; intros L L'; cbn [push_seq length].
    - intros H; inversion H; subst. split; [lia|]. intros _. rewrite app_nil_r. reflexivity.
    - destruct (unwrap s (loop_push L p)) as [L1| |] eqn:E; cbn [rbind]; try discriminate. apply unwrap_ok in E. intros H.
      destruct (push_len _ _ _ E) as (H1 & H2 & H3). destruct (IH _ _ H) as (I1 & I2). split; [lia|]. intros Hl.
      rewrite I2 by lia. rewrite H3 by lia. rewrite <- app_assoc. reflexivity.
  Qed.
  Lemma push_try_len (ps : list V) : forall L L' : Loop K, push_try L ps = Ok L' ->
    llen L' <= llen L + length ps /\ (llen L' = llen L + length ps -> verts L' = verts L ++ ps).
  Proof.
    induction ps as [|p tl IH]; intros L L'; cbn [push_try length].
    - intros H; inversion H; subst. split; [lia|]. intros _. rewrite app_nil_r. reflexivity.
    - destruct (loop_push L p) as [L1| |] eqn:E; cbn [rbind]; try discriminate. intros H.
      destruct (push_len _ _ _ E) as (H1 & H2 & H3). destruct (IH _ _ H) as (I1 & I2). split; [lia|]. intros Hl.
      rewrite I2 by lia. rewrite H3 by lia. rewrite <- app_assoc. reflexivity.
  Qed.

  (** ** the hole walk and the rebuild are "push this list of points" *)
  Lemma hole_walk_is_push_seq (hole : Loop K) (sd : bool) (id : nat) : llen hole <> 0 ->
    forall count j aux, push_hole_walk false aux hole sd id (llen hole) j count =
      push_seq 41 aux (map (fun j' => vnth (verts hole) (hole_index false sd id j' (llen hole))) (seq j count)).
  Proof.
    intros Hn. induction count as [|c IH]; intros j aux; cbn [push_hole_walk seq map push_seq]; [reflexivity|].
    pose proof (hole_index_lt sd id j (llen hole) Hn) as Hlt. apply Nat.leb_gt in Hlt. rewrite Hlt.
    destruct (unwrap 41 (loop_push aux _)); cbn [rbind]; [apply IH | reflexivity..].
  Qed.
  Lemma rebuild_is_push_seq (on : V) (hole : Loop K) (iv me : nat) : llen hole <> 0 ->
    forall evs i aux, rebuild false on evs i me hole iv aux =
      push_seq 41 aux (splice evs i me (walk_list false (vis_same_direction on (lnormal hole)) (verts hole) iv)).
  Proof.
    intros Hn. induction evs as [|ev tl IH]; intros i aux; cbn [rebuild splice]; [reflexivity|].
    destruct (Nat.eqb i me).
    - apply Nat.eqb_neq in Hn. rewrite Hn. cbn [push_seq]. destruct (unwrap 41 (loop_push aux ev)) as [aux1| |]; cbn [rbind]; try reflexivity.
      rewrite push_seq_app. rewrite hole_walk_is_push_seq by (apply Nat.eqb_neq; exact Hn). unfold walk_list. fold (llen hole).
      rewrite rbind_assoc. destruct (push_seq 41 aux1 _) as [a| |]; cbn [rbind push_seq]; try reflexivity.
      destruct (unwrap 41 (loop_push a ev)); cbn [rbind]; [apply IH | reflexivity..].
    - cbn [push_seq]. destruct (unwrap 41 (loop_push aux ev)); cbn [rbind]; [apply IH | reflexivity..].
  Qed.

  (** ** (a) the merged outline, when no push replaced a collinear predecessor and none was refused *)
  Theorem merge_characterised : forall count (P : Poly K) (ret : Loop K) processed il iv,
    merge_clean false P count ret processed il iv = true ->
    exists L, merge_holes false P count ret processed il iv = Ok L /\ merge_spec false P count (verts ret) processed il iv = Some (verts L).
  Proof.
    induction count as [|c IH]; intros P ret processed il iv; cbn [merge_clean merge_holes merge_spec].
    - intros _. exists ret. split; reflexivity.
    - destruct (scan_ext (verts ret) 0 (pinner P) processed (scan_start false, 0, 0, il, iv)) as [[[[md me0] ml] il'] iv'].
      destruct (nth_error (pinner P) ml) as [hole|]; [|discriminate].
      destruct (Nat.eqb (llen hole) 0) eqn:En; [discriminate|]. cbn [negb andb]. apply Nat.eqb_neq in En.
      destruct (attach_index false P (verts ret) me0 hole iv') as [me| |]; try discriminate. cbn [rbind].
      destruct (rebuild false (lnormal (pouter P)) (verts ret) 0 me hole iv' loop_new) as [aux| |] eqn:Er; try discriminate.
      cbn [rbind]. intros H. apply andb_prop in H. destruct H as [Hl Hc]. apply Nat.eqb_eq in Hl.
      rewrite rebuild_is_push_seq in Er by exact En. destruct (push_seq_len _ _ _ _ Er) as [_ Hv]. cbn [llen verts loop_new length] in Hv.
      specialize (Hv Hl). cbn [app] in Hv. rewrite <- Hv. apply IH. exact Hc.
  Qed.
  Theorem closed_loop_characterised (P : Poly K) : closed_loop_clean false P = true ->
    exists L, poly_get_closed_loop P = Ok L /\ closed_loop_spec false P = Some (verts L).
  Proof. intros H. apply (merge_characterised _ P (loop_open (pouter P))). exact H. Qed.

  (** (c) a polygon without holes is returned unchanged (opened) *)
  Theorem no_holes_unchanged (P : Poly K) : pinner P = [] -> poly_get_closed_loop P = Ok (loop_open (pouter P)).
  Proof. intros H. unfold poly_get_closed_loop, poly_get_closed_loop_gen. rewrite H. reflexivity. Qed.
End AnyNum.
