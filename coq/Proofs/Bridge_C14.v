(** * Bridge_C14: the float-tier theorems of C14, transferred to the primitive-float run.
    [bbox_intersect] on [NumF] (what Run/C14.v executes against the f64 build) returns what [bbox_intersect] on
    [NumB64] returns on the [P2B]-images of the inputs ([Bridge_model.hom_bbox_intersect] at [P2B_hom]); the theorems of
    Proofs/C14_special.v and Proofs/C14_margin.v, instantiated at binary64, are read back through that equality.
    The real value of a primitive float [x] is [FR x = B2R (P2B x)]. *)
From Coq Require Import ZArith Reals Bool Floats.
From Flocq Require Import Core BinarySingleNaN.
From G3 Require Import Model.Num Model.NumF Model.Base Model.Vec Model.BBox Theory.PrimBridge Proofs.Bridge_model.
From G3 Require Import Proofs.C14_real Proofs.C14_special Proofs.C14_float Proofs.C14_margin.
Local Open Scope R_scope.

Notation prim := Coq.Floats.PrimFloat.float (only parsing).

Definition boxRF (b : BBox prim) : BBox R := mkBBox (FV (bmin b)) (FV (bmax b)).
Definition rayRF (r : Ray prim) : Ray R := mkRay (FV (rorigin r)) (FV (rdir r)).
Lemma boxRF_eq (b : BBox prim) : boxRF b = boxR 53 1024 (pB b). Proof. reflexivity. Qed.
Lemma rayRF_eq (r : Ray prim) : rayRF r = rayR 53 1024 (pR r). Proof. reflexivity. Qed.
Lemma Ffin3_eq (v : V3 prim) : Ffin3 v = fin3 53 1024 (pV v). Proof. reflexivity. Qed.

(** the caller's reciprocal direction [1.0 / d], for every instance *)
Definition inv_dirN {K} {NK : Num K} (d : V3 K) : V3 K := mkV3 (n1 / vx d)%num (n1 / vy d)%num (n1 / vz d)%num.
Lemma inv_dirN_B64 (d : V3 b64) : inv_dirN d = inv64 d. Proof. reflexivity. Qed.
Lemma hom_inv_dirN {K1 K2} {N1 : Num K1} {N2 : Num K2} (h : K1 -> K2) {H : NumHom N1 N2 h} (d : V3 K1) :
  inv_dirN (mapV3 h d) = mapV3 h (inv_dirN d).
Proof. unfold inv_dirN. bridge h. Qed.

(** the recorded class F10 as a predicate of any instance (the text of [known_x_slab_nan]) *)
Definition known_x_slab_nanN {K} {NK : Num K} (b : BBox K) (r : Ray K) : bool :=
  ((vx (rdir r) =? n0) && ((vx (rorigin r) =? vx (bmin b)) || (vx (rorigin r) =? vx (bmax b))))%num.
Lemma known_x_slab_nanN_B64 (b : BBox b64) (r : Ray b64) :
  known_x_slab_nanN b r = known_x_slab_nan 53 1024 Hprec53 Hmax1024 b r.
Proof. reflexivity. Qed.
Lemma hom_known_x_slab_nanN {K1 K2} {N1 : Num K1} {N2 : Num K2} (h : K1 -> K2) {H : NumHom N1 N2 h} (b : BBox K1) (r : Ray K1) :
  known_x_slab_nanN (mapBBox h b) (mapRay h r) = known_x_slab_nanN b r.
Proof. unfold known_x_slab_nanN. hom_norm. hom_pull h. reflexivity. Qed.

(** ** the run on primitive floats is the run on Flocq binary64 *)
Theorem prim_bbox_intersect (b : BBox prim) (r : Ray prim) (i : V3 prim) :
  @bbox_intersect _ NumF b r i = @bbox_intersect _ NumB64 (pB b) (pR r) (pV i).
Proof. symmetry. apply (hom_bbox_intersect P2B). Qed.
Theorem prim_bbox_intersect_tag (b : BBox prim) (r : Ray prim) (i : V3 prim) :
  @bbox_intersect_tag _ NumF b r i = @bbox_intersect_tag _ NumB64 (pB b) (pR r) (pV i).
Proof. symmetry. apply (hom_bbox_intersect_tag P2B). Qed.
Theorem prim_bbox_new (a c : V3 prim) : pB (@bbox_new _ NumF a c) = @bbox_new _ NumB64 (pV a) (pV c).
Proof. symmetry. apply (hom_bbox_new P2B). Qed.
Theorem prim_inv_dir (d : V3 prim) : pV (@inv_dirN _ NumF d) = inv64 (pV d).
Proof. rewrite <- inv_dirN_B64. symmetry. apply (hom_inv_dirN P2B). Qed.
Theorem prim_bbox_point_inside (b : BBox prim) (p : V3 prim) :
  @bbox_point_inside _ NumF b p = @bbox_point_inside _ NumB64 (pB b) (pV p).
Proof. symmetry. apply (hom_bbox_point_inside P2B). Qed.
Theorem prim_ray_project (r : Ray prim) (t : prim) : pV (@ray_project _ NumF r t) = @ray_project _ NumB64 (pR r) (P2B t).
Proof. symmetry. apply (hom_ray_project P2B). Qed.

(** ** Thm 2 (special values) on primitive floats *)
Theorem prim_x_slab_nan_loses_the_ray (b : BBox prim) (r : Ray prim) (i : V3 prim) (s : bool) :
  P2B (vx i) = B754_infinity s -> Ffin (vx (rorigin r)) ->
  (Ffin (vx (bmin b)) /\ FR (vx (rorigin r)) = FR (vx (bmin b))) \/
  (Ffin (vx (bmax b)) /\ FR (vx (rorigin r)) = FR (vx (bmax b))) ->
  @bbox_intersect _ NumF b r i = false.
Proof.
  intros Hi Fo Hf. rewrite prim_bbox_intersect.
  exact (x_face_lost 53 1024 Hprec53 Hmax1024 (pB b) (pR r) (pV i) s Hi Fo Hf).
Qed.

Theorem prim_known_class_is_lost (b : BBox prim) (r : Ray prim) :
  Ffin3 (bmin b) -> Ffin3 (bmax b) -> Ffin3 (rorigin r) ->
  @known_x_slab_nanN _ NumF b r = true ->
  @bbox_intersect _ NumF b r (inv_dirN (rdir r)) = false.
Proof.
  intros F1 F2 Fo Hk. rewrite prim_bbox_intersect, prim_inv_dir.
  apply (known_x_slab_nan_lost 53 1024 Hprec53 Hmax1024 (pB b) (pR r) format_ok_64 F1 F2 Fo).
  rewrite <- known_x_slab_nanN_B64, (hom_known_x_slab_nanN P2B). exact Hk.
Qed.

Theorem prim_neg_zero_face_loses_the_ray (b : BBox prim) (r : Ray prim) :
  Ffin3 (bmin b) -> Ffin3 (bmax b) -> Ffin3 (rorigin r) ->
  FR (vy (bmin b)) <= FR (vy (bmax b)) -> FR (vz (bmin b)) <= FR (vz (bmax b)) ->
  known_neg_zero_face 53 1024 Hprec53 Hmax1024 (pB b) (pR r) = true ->
  @bbox_intersect _ NumF b r (inv_dirN (rdir r)) = false.
Proof.
  intros F1 F2 Fo Wy Wz Hk. rewrite prim_bbox_intersect, prim_inv_dir.
  exact (known_neg_zero_face_lost 53 1024 Hprec53 Hmax1024 (pB b) (pR r) format_ok_64 F1 F2 Fo Wy Wz Hk).
Qed.

Theorem prim_zero_component_outside_slab_is_rejected (b : BBox prim) (r : Ray prim) (i : V3 prim) (s : bool) :
  (P2B (vx i) = B754_infinity s -> Ffin (vx (rorigin r)) -> Ffin (vx (bmin b)) -> Ffin (vx (bmax b)) ->
   FR (vx (bmin b)) <= FR (vx (bmax b)) ->
   FR (vx (rorigin r)) < FR (vx (bmin b)) \/ FR (vx (bmax b)) < FR (vx (rorigin r)) -> @bbox_intersect _ NumF b r i = false) /\
  (P2B (vy i) = B754_infinity s -> Ffin (vy (rorigin r)) -> Ffin (vy (bmin b)) -> Ffin (vy (bmax b)) ->
   FR (vy (bmin b)) <= FR (vy (bmax b)) ->
   FR (vy (rorigin r)) < FR (vy (bmin b)) \/ FR (vy (bmax b)) < FR (vy (rorigin r)) -> @bbox_intersect _ NumF b r i = false) /\
  (P2B (vz i) = B754_infinity s -> Ffin (vz (rorigin r)) -> Ffin (vz (bmin b)) -> Ffin (vz (bmax b)) ->
   FR (vz (bmin b)) <= FR (vz (bmax b)) ->
   FR (vz (rorigin r)) < FR (vz (bmin b)) \/ FR (vz (bmax b)) < FR (vz (rorigin r)) -> @bbox_intersect _ NumF b r i = false).
Proof.
  pose proof (proj1 format_ok_64) as W. rewrite prim_bbox_intersect.
  split; [|split].
  - exact (x_outside_rejected 53 1024 Hprec53 Hmax1024 (pB b) (pR r) (pV i) s W).
  - exact (y_outside_rejected 53 1024 Hprec53 Hmax1024 (pB b) (pR r) (pV i) s W).
  - exact (z_outside_rejected 53 1024 Hprec53 Hmax1024 (pB b) (pR r) (pV i) s W).
Qed.

(** ** Thm 3 (completeness with the margin [1 + 2u], u = 2^-53) on primitive floats *)
Notation side64 := (side 53 1024 Hprec53 Hmax1024).
Notation okb64 := (margin_okb 53 1024 Hprec53 Hmax1024).

Theorem prim_float_complete_margin (b : BBox prim) (r : Ray prim) (i : V3 prim) :
  side64 (pB b) (pR r) (pV i) -> clear_by 53 2 (boxRF b) (rayRF r) -> @bbox_intersect _ NumF b r i = true.
Proof.
  intros S C. rewrite prim_bbox_intersect.
  exact (float_complete_margin 53 1024 Hprec53 Hmax1024 (pB b) (pR r) (pV i) margin_format_64 S C).
Qed.

Theorem prim_float_complete_enter_exit (b : BBox prim) (r : Ray prim) (i : V3 prim) :
  side64 (pB b) (pR r) (pV i) ->
  0 < t_exit (boxRF b) (rayRF r) ->
  (0 < t_enter (boxRF b) (rayRF r) -> t_enter (boxRF b) (rayRF r) * (1 + 2 * uR 53) <= t_exit (boxRF b) (rayRF r)) ->
  @bbox_intersect _ NumF b r i = true.
Proof.
  intros S H0 HM. rewrite prim_bbox_intersect.
  exact (float_complete_enter_exit 53 1024 Hprec53 Hmax1024 (pB b) (pR r) (pV i) margin_format_64 S H0 HM).
Qed.

Theorem prim_float_complete_point (b : BBox prim) (r : Ray prim) (i : V3 prim) (t : R) :
  side64 (pB b) (pR r) (pV i) -> 0 < t ->
  let p := ray_project (rayRF r) t in let o := rorigin (rayRF r) in
  (forall a, in_margin 53 (boxRF b) o p a \/ on_flat (boxRF b) p a) ->
  (forall a a', a <> a' -> in_margin 53 (boxRF b) o p a \/ in_margin 53 (boxRF b) o p a') ->
  @bbox_intersect _ NumF b r i = true.
Proof.
  intros S Ht p o H1 H2. rewrite prim_bbox_intersect.
  exact (float_complete_point 53 1024 Hprec53 Hmax1024 (pB b) (pR r) (pV i) t margin_format_64 S Ht H1 H2).
Qed.

(** the side conditions evaluated by the model on the inputs, the reciprocal being the computed [1.0 / d] *)
Theorem prim_margin_side_conditions_checked (b : BBox prim) (r : Ray prim) :
  okb64 (pB b) (pR r) = true -> side64 (pB b) (pR r) (pV (@inv_dirN _ NumF (rdir r))).
Proof. intros Hk. rewrite prim_inv_dir. exact (margin_okb_side 53 1024 Hprec53 Hmax1024 (pB b) (pR r) Hk). Qed.

Theorem prim_float_complete_checked (b : BBox prim) (r : Ray prim) :
  okb64 (pB b) (pR r) = true -> clear_by 53 2 (boxRF b) (rayRF r) ->
  @bbox_intersect _ NumF b r (inv_dirN (rdir r)) = true.
Proof.
  intros Hk C. apply prim_float_complete_margin; [apply prim_margin_side_conditions_checked, Hk | exact C].
Qed.

(** ** witnesses and non-vacuity, on primitive floats (evaluated by [vm_compute] on the hardware instance) *)
Local Open Scope float_scope.
Definition pP (x y z : prim) : V3 prim := mkV3 x y z.
Definition wF_flat : BBox prim := @bbox_new _ NumF (pP 0 0 0) (pP 0 1 1).
Definition wF_cube : BBox prim := @bbox_new _ NumF (pP 0 0 0) (pP 1 1 1).
Definition wF_ray : Ray prim := mkRay (pP 0 0.5 (-1)) (pP 0 0 1).
Definition wF_ray_y : Ray prim := mkRay (pP 0.5 0 (-1)) (pP 0 (-0) 1).
Definition wF_ray_z : Ray prim := mkRay (pP (-1) 0.5 1) (pP 1 0 (-0)).
Definition wF_t : prim := 1.5.

Lemma prim_x_slab_nan_witness :
  (@known_x_slab_nanN _ NumF wF_flat wF_ray = true /\ (@nltb _ NumF n0 wF_t) = true /\
   @bbox_point_inside _ NumF wF_flat (ray_project wF_ray wF_t) = true /\
   @bbox_intersect _ NumF wF_flat wF_ray (inv_dirN (rdir wF_ray)) = false) /\
  (@known_x_slab_nanN _ NumF wF_cube wF_ray = true /\
   @bbox_point_inside _ NumF wF_cube (ray_project wF_ray wF_t) = true /\
   @bbox_intersect _ NumF wF_cube wF_ray (inv_dirN (rdir wF_ray)) = false).
Proof. vm_compute. repeat split; reflexivity. Qed.

Lemma prim_neg_zero_face_witness :
  (known_neg_zero_face 53 1024 Hprec53 Hmax1024 (pB wF_cube) (pR wF_ray_y) = true /\
   @known_x_slab_nanN _ NumF wF_cube wF_ray_y = false /\
   @bbox_point_inside _ NumF wF_cube (ray_project wF_ray_y wF_t) = true /\
   @bbox_intersect _ NumF wF_cube wF_ray_y (inv_dirN (rdir wF_ray_y)) = false) /\
  (known_neg_zero_face 53 1024 Hprec53 Hmax1024 (pB wF_cube) (pR wF_ray_z) = true /\
   @known_x_slab_nanN _ NumF wF_cube wF_ray_z = false /\
   @bbox_point_inside _ NumF wF_cube (ray_project wF_ray_z wF_t) = true /\
   @bbox_intersect _ NumF wF_cube wF_ray_z (inv_dirN (rdir wF_ray_z)) = false).
Proof. vm_compute. repeat split; reflexivity. Qed.

(** unit cube, origin (-1, 1/4, 1/2), direction (3, 1/2, -1/4): the primitive-float images are the Flocq witnesses
    [m_box], [m_ray] of Proofs/C14_margin.v *)
Definition mF_box : BBox prim := mkBBox (pP 0 0 0) (pP 1 1 1).
Definition mF_ray : Ray prim := mkRay (pP (-1) 0.25 0.5) (pP 3 0.5 (-0.25)).
Lemma mF_box_eq : pB mF_box = m_box.
Proof.
  unfold mF_box, m_box, mapBBox, mapV3, pP, P. cbn [bmin bmax vx vy vz].
  rewrite (P2B_const 0 zero64), (P2B_const 1 one64) by (vm_compute; reflexivity). reflexivity.
Qed.
Lemma mF_ray_eq : pR mF_ray = m_ray.
Proof.
  unfold mF_ray, m_ray, mapRay, mapV3, pP, P. cbn [rorigin rdir vx vy vz].
  rewrite (P2B_const (-1) mone64), (P2B_const 0.25 (q 1 (-2))), (P2B_const 0.5 half64), (P2B_const 3 (q 3 0)),
    (P2B_const (-0.25) (q (-1) (-2))) by (vm_compute; reflexivity).
  reflexivity.
Qed.
Lemma prim_margin_nonvacuous :
  okb64 (pB mF_box) (pR mF_ray) = true /\ clear_by 53 2 (boxRF mF_box) (rayRF mF_ray) /\
  @bbox_intersect _ NumF mF_box mF_ray (inv_dirN (rdir mF_ray)) = true.
Proof.
  rewrite boxRF_eq, rayRF_eq, mF_box_eq, mF_ray_eq.
  destruct margin_nonvacuous as (_ & H1 & H2 & _).
  split; [exact H1|]. split; [exact H2|]. vm_compute. reflexivity.
Qed.
