(** * C01_refined_ex: non-vacuity for Proofs/C01_refined.v.
    binary64 (vm_compute): the unit square [w4_poly]: the [from_polygon] run is sanitize-stable, [mesh_polygon 100 . 0.1 1.5]
    returns Ok RDone, the refinement trace has >= 10 elementary steps, >= 10 triangles are returned and all of them are live.
    reals: the hypotheses that speak of the polygon, for the same square in the frame ((0,0,0), (1,0,0), (0,1,0)): orthonormal frame,
    Jordan hypothesis on the outline, separation, planarity (Proofs/Mesh_links_init_ex.v), and the pointwise Jordan data at the
    sample point q = (1/3, 1/4) with the ray (1, 0): generic, the outline winds once.  (The trace side conditions [side] are
    stated on the real instance, which cannot be executed: they are not witnessed on a refined run -- as in Properties/C08_refine.v.) *)
From Coq Require Import ZArith Reals Lra Lia List Bool Arith Floats.
Set Warnings "-inexact-float".
From G3 Require Import Model.Num Model.NumF Model.Base Model.Vec Model.Segment Model.Triangle Model.Loop Model.Polygon Model.Triangulation
  Theory.RInst Theory.Cyclic Theory.Winding
  Proofs.Mesh_base Proofs.Mesh_region Proofs.Mesh_links Proofs.Mesh_refine_trace Proofs.Mesh_witness
  Proofs.C05_pointtest Proofs.C01_tiling Proofs.C01_polygon Proofs.Mesh_links_init Proofs.Mesh_links_init_ex Proofs.C01_refined.
Import ListNotations.

Definition w4_refined : Mesh float := match mesh_polygon 100 w4_poly 0.1%float 1.5%float with Ok (M, _) => M | _ => mesh_new end.
Lemma refined_float_nonvacuous :
  stable_run w4_poly w4_mesh /\ mesh_polygon 100 w4_poly 0.1%float 1.5%float = Ok (w4_refined, RDone) /\
  refine 100 0.1%float 1.5%float w4_mesh = (w4_refined, Ok RDone) /\
  Nat.leb 10 (length (refine_trace 100 0.1%float 1.5%float w4_mesh)) = true /\
  live_tris w4_refined = get_trilist w4_refined /\ Nat.leb 10 (length (get_trilist w4_refined)) = true.
Proof.
  assert (E : mesh_polygon 100 w4_poly 0.1%float 1.5%float = Ok (w4_refined, RDone)) by (vm_compute; reflexivity).
  split; [exact w4_stable|]. split; [exact E|]. split; [vm_compute; reflexivity|]. split; [vm_compute; reflexivity|].
  split; [exact (mesh_polygon_live_reported _ _ _ _ _ E) | vm_compute; reflexivity].
Qed.

Local Open Scope R_scope.
Lemma refined_real_nonvacuous :
  let o := r3 0 0 in let e1 := r3 1 0 in let e2 := r3 0 1 in
  let O2 := map (plane2 o e1 e2) sqL in let d : Winding.P2 := (1, 0) in let q : Winding.P2 := (/ 3, / 4) in
  vdot e1 e1 = 1 /\ vdot e2 e2 = 1 /\ vdot e1 e2 = 0 /\
  jordan_le1 O2 /\ VSEP (fun x : V3 R => In x sqL) /\ (forall v : V3 R, In v sqL -> in_plane o e1 e2 v) /\
  generic d q O2 /\ wn d O2 q = 1%Z.
Proof.
  cbn zeta. destruct init_links_real_nonvacuous as (A1 & A2 & A3 & Epr & HJ & HV & HP). cbn zeta in *.
  split; [exact A1|]. split; [exact A2|]. split; [exact A3|]. split; [exact HJ|]. split; [exact HV|]. split; [exact HP|].
  rewrite Epr. split.
  - intros v Hv. cbn [In] in Hv. unfold hgt. repeat (destruct Hv as [<- | Hv]); try contradiction; cbn [fst snd]; lra.
  - wn_eval.
Qed.
